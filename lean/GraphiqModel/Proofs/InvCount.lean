/-
  Proofs/InvCount.lean — the gate count of `inverse_circuit`: every loop iteration of the seven blocks appends at most one
  gate, the two triangular blocks (CNOT, CZ) run over `n(n-1)/2` pairs each, so the returned list has at most
  `n + n(n-1) + 3n = n² + 3n` gates.  All sizes.
-/
import GraphiqModel.Proofs.InvBlock1
import GraphiqModel.Proofs.InverseCircuit
import Mathlib.Tactic.Ring
import Mathlib.Tactic.Linarith
namespace Graphiq
open PRow Tab
namespace STab

/-! ### the number of pairs `j < k < n` -/

theorem length_filter_gt (n j : Nat) : ((List.range n).filter (fun k => decide (j < k))).length = n - (j + 1) := by
  induction n with
  | zero => simp
  | succ m ih =>
    rw [List.range_succ, List.filter_append, List.length_append, ih]
    by_cases h : j < m
    · simp [h]; omega
    · simp [h]; omega

/-- `Σ_{j<m} (n − (j+1))` in closed form (doubled, no subtraction) -/
theorem sum_tri (n m : Nat) (h : m ≤ n) :
    2 * ((List.range m).map (fun j => n - (j + 1))).sum + m * m + m = 2 * m * n := by
  induction m with
  | zero => simp
  | succ k ih =>
    have ih' := ih (by omega)
    rw [List.range_succ, List.map_append, List.sum_append]
    simp only [List.map_cons, List.map_nil, List.sum_cons, List.sum_nil, Nat.add_zero]
    obtain ⟨d, rfl⟩ : ∃ d, n = k + 1 + d := ⟨n - (k + 1), by omega⟩
    have e : k + 1 + d - (k + 1) = d := by omega
    rw [e]
    nlinarith [ih']

/-- **the triangular loops run over `n(n−1)/2` pairs** -/
theorem pairsLt_length (n : Nat) : 2 * (pairsLt n).length + n = n * n := by
  have e : (pairsLt n).length = ((List.range n).map (fun j => n - (j + 1))).sum := by
    unfold pairsLt
    rw [List.length_flatMap]
    congr 1
    apply List.map_congr_left
    intro j _
    rw [List.length_map]
    exact length_filter_gt n j
  have := sum_tri n n (Nat.le_refl _)
  rw [e]
  nlinarith [this]

/-! ### every step appends at most one gate -/

theorem foldl_circ_le {α : Type} (step : InvState → α → InvState)
    (hstep : ∀ s x, (step s x).circ.length ≤ s.circ.length + 1) (l : List α) (s : InvState) :
    (l.foldl step s).circ.length ≤ s.circ.length + l.length := by
  induction l generalizing s with
  | nil => simp
  | cons x rest ih =>
    simp only [List.foldl_cons, List.length_cons]
    have := ih (step s x)
    have := hstep s x
    omega

theorem gate_circ_length (st : InvState) (g : Gate) : (st.gate g).circ.length = st.circ.length + 1 := by
  simp [InvState.gate]

theorem invStep2_circ (s : InvState) (x : Nat × Nat) : (invStep2 s x).circ.length ≤ s.circ.length + 1 := by
  unfold invStep2; split
  · rw [gate_circ_length]
  · omega
theorem invStep3_circ (s : InvState) (x : Nat × Nat) : (invStep3 s x).circ.length ≤ s.circ.length + 1 := by
  unfold invStep3; split
  · rw [gate_circ_length]
  · omega
theorem invStep4_circ (s : InvState) (x : Nat) : (invStep4 s x).circ.length ≤ s.circ.length + 1 := by
  unfold invStep4; split
  · rw [gate_circ_length]
  · omega
theorem invStep5_circ (s : InvState) (x : Nat) : (invStep5 s x).circ.length ≤ s.circ.length + 1 := by
  unfold invStep5; split
  · rw [gate_circ_length]
  · omega
theorem invStep6_circ (s : InvState) (x : Nat × Nat) : (invStep6 s x).circ.length ≤ s.circ.length + 1 := by
  unfold invStep6; split
  · rw [rsum_circ]; omega
  · omega
theorem invStep7_circ (s : InvState) (x : Nat) : (invStep7 s x).circ.length ≤ s.circ.length + 1 := by
  unfold invStep7; rw [gate_circ_length]

/-- block 6 (row products) emits no gate at all -/
theorem block6_circ (l : List (Nat × Nat)) (s : InvState) : (l.foldl invStep6 s).circ = s.circ := by
  induction l generalizing s with
  | nil => rfl
  | cons x rest ih =>
    simp only [List.foldl_cons]
    rw [ih]
    unfold invStep6; split
    · rfl
    · rfl

theorem invStep1_circ (n : Nat) (st st' : InvState) (j : Nat) (h : invStep1 n st j = .ok st') :
    st'.circ.length ≤ st.circ.length + 1 := by
  unfold invStep1 at h
  generalize st.t.pauliTypeFinder j j = ft at h
  obtain ⟨xs, ys, zs⟩ := ft
  simp only at h
  split at h
  · injection h with h; rw [← h, swap_circ]; omega
  · split at h
    · injection h with h; rw [← h, swap_circ]; omega
    · split at h
      · injection h with h; rw [← h]; omega
      · split at h
        · cases h
        · injection h with h
          rw [← h]
          split
          · rw [gate_circ_length, invClear_circ, swap_circ]
          · rw [invClear_circ, swap_circ]; omega

theorem foldlM_circ_le (n : Nat) (l : List Nat) (s s' : InvState) (h : l.foldlM (invStep1 n) s = .ok s') :
    s'.circ.length ≤ s.circ.length + l.length := by
  induction l generalizing s with
  | nil =>
    simp only [List.foldlM_nil] at h
    injection h with h
    rw [h]; simp
  | cons x rest ih =>
    rw [List.foldlM_cons] at h
    cases hx : invStep1 n s x with
    | error e => rw [hx] at h; cases h
    | ok s1 =>
      rw [hx] at h
      have h1 := invStep1_circ n s s1 x hx
      have h2 := ih s1 h
      simp only [List.length_cons]
      omega

/-- block 1 emits at most `n` Hadamards -/
theorem invBlock1_circ (t0 : STab) (s1 : InvState) (h : invBlock1 t0 = .ok s1) : s1.circ.length ≤ t0.n := by
  unfold invBlock1 at h
  have := foldlM_circ_le t0.n (List.range t0.n) _ s1 h
  simpa using this

/-- blocks 2–7 emit at most `n(n−1) + 3n` gates -/
theorem invRest_circ (n : Nat) (s1 : InvState) : (invRest n s1).circ.length + n ≤ s1.circ.length + n * n + 3 * n := by
  unfold invRest
  simp only
  have h2 := foldl_circ_le invStep2 invStep2_circ (pairsLt n) s1
  have h3 := foldl_circ_le invStep3 invStep3_circ (pairsLt n) ((pairsLt n).foldl invStep2 s1)
  have h4 := foldl_circ_le invStep4 invStep4_circ (List.range n) ((pairsLt n).foldl invStep3 ((pairsLt n).foldl invStep2 s1))
  have h5 := foldl_circ_le invStep5 invStep5_circ (List.range n)
    ((List.range n).foldl invStep4 ((pairsLt n).foldl invStep3 ((pairsLt n).foldl invStep2 s1)))
  generalize ((List.range n).foldl invStep5
    ((List.range n).foldl invStep4 ((pairsLt n).foldl invStep3 ((pairsLt n).foldl invStep2 s1)))) = s5 at h5 ⊢
  have h6 := block6_circ (pairsLt n) s5
  generalize (pairsLt n).foldl invStep6 s5 = s6 at h6 ⊢
  have h7 := foldl_circ_le invStep7 invStep7_circ ((List.range n).filter fun i => (s6.t.row i).r) s6
  have hf : ((List.range n).filter fun i => (s6.t.row i).r).length ≤ n := by
    have := List.length_filter_le (fun i => (s6.t.row i).r) (List.range n)
    simpa using this
  have hp := pairsLt_length n
  simp only [List.length_range] at h4 h5
  rw [h6] at h7
  omega

/-- **gate count of `inverse_circuit`**: at most `n² + 3n` gates -/
theorem inverseCircuit_length (t t' : STab) (circ : List Gate) (h : t.inverseCircuit = .ok (t', circ)) :
    circ.length ≤ t.n * t.n + 3 * t.n := by
  obtain ⟨t0, s, hc, hs, _, e2⟩ := inverseCircuit_eq t t' circ h
  have hn : t0.n = t.n := by
    unfold canonicalForm at hc
    split at hc
    · injection hc with hc
      rw [← hc]
      -- the size is not changed by the two loops
      have : ∀ (l : List Nat) (f : STab × Nat → Nat → STab × Nat) (a : STab × Nat),
          (∀ a j, (f a j).1.n = a.1.n) → (l.foldl f a).1.n = a.1.n := by
        intro l f a hf
        induction l generalizing a with
        | nil => rfl
        | cons x rest ih => simp only [List.foldl_cons]; rw [ih, hf]
      unfold canonLoops
      rw [this _ _ _ (fun a j => canonStepZ_n a.1 a.2 j), this _ _ _ (fun a j => canonStepXY_n a.1 a.2 j)]
    · cases hc
  unfold invBlocks at hs
  split at hs
  · cases hs
  · next s1 h1 =>
    injection hs with hs
    have b1 := invBlock1_circ t0 s1 h1
    have br := invRest_circ t0.n s1
    rw [hs, e2, hn] at br
    rw [hn] at b1
    omega

end STab
end Graphiq
