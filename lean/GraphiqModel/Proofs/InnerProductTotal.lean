/-
  Proofs/InnerProductTotal.lean — `inner_product` returns (no internal assertion fails) on every pair of valid states:
  the only way the model can fail after `inverse_circuit` returned is the final assert of `canonical_form` on the
  transformed second state, and that assert passes because a gate list maps a group with `n` independent generators and
  without `−I` to a group of the same kind, for which Gaussian elimination finds `n` pivots.  All sizes.
  (No hypothesis on the synthesis reaching |0…0⟩ is needed for this.)
-/
import GraphiqModel.Proofs.InnerProductDim
namespace Graphiq
open PRow Tab
namespace STab

/-! ### rows of a `Canon` tableau are independent, and `−I` is not in its group -/

theorem canon_rows_indep (c : STab) (k : Nat) (px pz : Nat → Nat) (hx : PInv c.n (xb c) px 0 k c.n)
    (hz : PInv c.n (zb c) pz k c.n c.n) (S : Nat → Bool) (h : EqOn c.n (sprod c.n c.row S c.n) PRow.one) :
    ∀ m, m < c.n → S m = false := by
  intro m hm
  by_cases hmk : m < k
  · have hp := hx.piv_lt m (Nat.zero_le _) hmk
    have := (h.1 (px m) hp).1
    rw [sprod_x] at this
    have e := hx.coef S m (Nat.zero_le _) hmk
    unfold xb at e
    rw [e] at this
    exact this
  · have hp := hz.piv_lt m (by omega) hm
    have := (h.1 (pz m) hp).2
    rw [sprod_z] at this
    have e := hz.coef S m (by omega) hm
    unfold zb at e
    rw [e] at this
    exact this

theorem canon_no_minus_one (c : STab) (k : Nat) (px pz : Nat → Nat) (hx : PInv c.n (xb c) px 0 k c.n)
    (hz : PInv c.n (zb c) pz k c.n c.n) (hg : c.Good) : ¬ c.Spn (PRow.neg PRow.one) := by
  intro hs
  have := canon_trivial c k px pz hx hz hg _ hs (fun _ _ => rfl) (fun _ _ _ => rfl)
  have := this.2.1
  revert this
  decide

/-! ### a generator that is `+I` can be dropped -/

/-- the index map that skips `p` -/
def skip (p i : Nat) : Nat := if i < p then i else i + 1

theorem sprod_drop (n : Nat) (row : Nat → PRow) (S : Nat → Bool) (p : Nat) (hp : EqOn n (row p) PRow.one) (m : Nat)
    (hm : p ≤ m) :
    EqOn n (sprod n row S (m + 1)) (sprod n (fun i => row (skip p i)) (fun i => S (skip p i)) m) := by
  induction m with
  | zero =>
    have : p = 0 := by omega
    subst this
    simp only [sprod]
    cases S 0
    · exact EqOn.refl _ _
    · exact (mul_congr n _ _ _ _ hp (EqOn.refl _ _)).trans (one_mul n _)
  | succ j ih =>
    by_cases hpj : p = j + 1
    · -- the dropped row is the last one; below it nothing moves
      have e1 : sprod n (fun i => row (skip p i)) (fun i => S (skip p i)) (j + 1) = sprod n row S (j + 1) := by
        have key : ∀ q, q ≤ j + 1 → sprod n (fun i => row (skip p i)) (fun i => S (skip p i)) q = sprod n row S q := by
          intro q
          induction q with
          | zero => intro _; rfl
          | succ q ihq =>
            intro hq
            have hs : skip p q = q := by unfold skip; rw [if_pos (by omega)]
            simp only [sprod]
            rw [hs, ihq (by omega)]
        exact key (j + 1) (Nat.le_refl _)
      rw [e1]
      show EqOn n (bif S (j + 1) then PRow.mul n (row (j + 1)) (sprod n row S (j + 1)) else sprod n row S (j + 1)) _
      rw [← hpj]
      cases S p
      · exact EqOn.refl _ _
      · exact (mul_congr n _ _ _ _ hp (EqOn.refl _ _)).trans (one_mul n _)
    · have ih := ih (by omega)
      have hs : skip p j = j + 1 := by unfold skip; rw [if_neg (by omega)]
      show EqOn n (bif S (j + 1) then PRow.mul n (row (j + 1)) (sprod n row S (j + 1)) else sprod n row S (j + 1))
        (bif S (skip p j) then PRow.mul n (row (skip p j))
          (sprod n (fun i => row (skip p i)) (fun i => S (skip p i)) j)
         else sprod n (fun i => row (skip p i)) (fun i => S (skip p i)) j)
      rw [hs]
      cases S (j + 1)
      · exact ih
      · exact mul_congr n _ _ _ _ (EqOn.refl _ _) ih

/-! ### `canonical_form` finds `n` pivots on a group with `n` independent elements and without `−I` -/

/-- the echelon data of `canonical_form`'s two loops, whether or not the final assert passes -/
theorem canonLoops_pinv (t : STab) : ∃ (k : Nat) (px pz : Nat → Nat), t.canonLoops.1.n = t.n ∧
    PInv t.n (xb t.canonLoops.1) px 0 k t.n ∧ PInv t.n (zb t.canonLoops.1) pz k t.canonLoops.2 t.n := by
  unfold canonLoops
  obtain ⟨hn1, px, hx⟩ := foldXY_inv t t.n (Nat.le_refl _)
  generalize (List.range t.n).foldl (fun (acc : STab × Nat) j => acc.1.canonStepXY acc.2 j) (t, 0) = r1 at hn1 hx ⊢
  obtain ⟨t1, k⟩ := r1
  simp only at hn1 hx ⊢
  rw [← hn1] at hx ⊢
  obtain ⟨hn2, hx2, pz, hz⟩ := foldZ_inv t1 px k hx t1.n (Nat.le_refl _)
  exact ⟨k, px, pz, hn2, hx2, hz⟩

/-- `canonical_form` returns on a real commuting tableau whose group has `n` independent elements and not `−I` -/
theorem canonicalForm_total (t : STab) (hg : t.Good) (gens : Nat → PRow) (hm : ∀ i, i < t.n → t.Spn (gens i))
    (hind : ∀ S : Nat → Bool, EqOn t.n (sprod t.n gens S t.n) PRow.one → ∀ i, i < t.n → S i = false)
    (hno : ¬ t.Spn (PRow.neg PRow.one)) : ∃ c, t.canonicalForm = .ok c := by
  obtain ⟨k, px, pz, hn, hx, hz⟩ := canonLoops_pinv t
  obtain ⟨sc, gc⟩ := canonLoops_inv t hg
  have hpr : t.canonLoops.2 = t.n := by
    apply Classical.byContradiction; intro hne
    have hle := hz.pr_le
    have hlt : t.canonLoops.2 < t.n := by omega
    generalize t.canonLoops.2 = pr at hz hlt hle
    generalize hc : t.canonLoops.1 = c at hn hx hz sc gc
    -- row `pr` of the result carries no bit at all
    have bits : SameBits t.n (c.row pr) PRow.one := by
      intro j hj
      exact ⟨hx.below pr j hz.lo_le hlt hj, hz.below pr j (Nat.le_refl _) hlt hj⟩
    have real : (c.row pr).ip = false := gc.real pr (by rw [hn]; exact hlt)
    have inC : c.Spn (c.row pr) := spn_gen c pr (by rw [hn]; exact hlt)
    cases hr : (c.row pr).r with
    | true =>
      -- it is `−I`
      apply hno
      have : EqOn t.n (c.row pr) (PRow.neg PRow.one) := ⟨bits, hr, real⟩
      have h1 := sc.sup _ inC
      unfold Spn at h1 ⊢
      exact InSpan.eqv _ _ h1 this
    | false =>
      have hone : EqOn t.n (c.row pr) PRow.one := ⟨bits, hr, real⟩
      -- `n` independent elements in a group generated by the `n − 1` other rows
      have le := indep_le_gen t hg gens t.n hm hind (fun i => c.row (skip pr i)) (t.n - 1) (by
        intro S
        have hs : c.Spn (sprod t.n gens S t.n) := sc.sub _ (sprod_spn_gens t gens t.n hm S t.n (Nat.le_refl _))
        obtain ⟨T, hT⟩ := spn_repr c gc _ hs
        rw [hn] at hT
        have drop := sprod_drop t.n c.row T pr hone (t.n - 1) (by omega)
        rw [show t.n - 1 + 1 = t.n from by omega] at drop
        exact ⟨fun i => T (skip pr i), hT.trans drop⟩)
      omega
  exact ⟨_, by unfold canonicalForm; rw [if_pos hpr]⟩

/-- **`inner_product` returns on every pair of valid states** (same size, real commuting generators, `inverse_circuit`
    returned on the first, `canonical_form`'s assert passes on the second — i.e. its generators are independent) -/
theorem innerProduct_total (a b : Tab) (s1 cb : STab) (circ : List Gate) (ga : (STab.ofTab a).Good)
    (gb : (STab.ofTab b).Good) (hn : a.n = b.n) (hs : (STab.ofTab a).inverseCircuit = .ok (s1, circ))
    (hcb : (STab.ofTab b).canonicalForm = .ok cb) : ∃ r, STab.innerProduct a b = .ok r := by
  obtain ⟨_, _, wf, _, _⟩ := inverseCircuit_tracks (STab.ofTab a) s1 circ ga hs
  have nA : (STab.ofTab a).n = a.n := rfl
  rw [nA] at wf
  obtain ⟨img, gB'⟩ := ofTab_runCircuit_image a.n circ wf b hn.symm gb
  obtain ⟨sc, gcb⟩ := canonicalForm_spanEq _ cb gb hcb
  obtain ⟨k, px, pz, hx, hz⟩ := canonicalForm_canon _ cb hcb
  have ncb : cb.n = a.n := sc.n_eq.symm.trans img.nT
  have nB' := img.nT'
  have tot : ∃ s2, (STab.ofTab (b.runCircuit circ)).canonicalForm = .ok s2 := by
    apply canonicalForm_total _ gB' (fun i => actCirc circ (cb.row i))
    · intro i hi
      rw [nB'] at hi
      exact img.fwd _ (sc.sup _ (spn_gen cb i (by rw [ncb]; exact hi)))
    · intro S hS
      rw [nB'] at hS ⊢
      have e := actCirc_sprod a.n circ wf cb.row S a.n
      have : EqOn a.n (sprod a.n cb.row S a.n) PRow.one :=
        actCirc_inj a.n circ wf _ _ ((e.trans hS).trans (actCirc_one a.n circ wf).symm)
      rw [← ncb] at this
      have := canon_rows_indep cb k px pz hx hz S this
      rw [ncb] at this; exact this
    · intro hneg
      obtain ⟨g, hgB, eg⟩ := img.bwd _ hneg
      have e1 : EqOn a.n (actCirc circ (PRow.neg PRow.one)) (PRow.neg PRow.one) := by
        rw [actCirc_neg]; exact neg_congr a.n _ _ (actCirc_one a.n circ wf)
      have e2 : EqOn a.n g (PRow.neg PRow.one) := actCirc_inj a.n circ wf _ _ (eg.trans e1.symm)
      apply canon_no_minus_one cb k px pz hx hz gcb
      have h1 := sc.sub _ hgB
      unfold Spn at h1 ⊢
      rw [ncb] at h1 ⊢
      exact InSpan.eqv _ _ h1 e2
  obtain ⟨s2, h2⟩ := tot
  exact ⟨_, innerProduct_eq a b s1 s2 circ hn hs h2⟩

theorem inverseCircuit_canon_ok (t s1 : STab) (circ : List Gate) (h : t.inverseCircuit = .ok (s1, circ)) :
    ∃ t0, t.canonicalForm = .ok t0 := by
  unfold STab.inverseCircuit at h
  split at h
  · cases h
  · next t0 hc => exact ⟨t0, hc⟩

/-- the fidelity of a state with itself: `inner_product` returns, and returns 1, when the synthesis reached |0…0⟩ -/
theorem innerProduct_self (a : Tab) (s1 : STab) (circ : List Gate) (ga : (STab.ofTab a).Good)
    (hs : (STab.ofTab a).inverseCircuit = .ok (s1, circ)) (hzero : s1.isZero = true) :
    STab.innerProduct a a = .ok (some 0) := by
  obtain ⟨cb, hcb⟩ := inverseCircuit_canon_ok _ s1 circ hs
  obtain ⟨r, hr⟩ := innerProduct_total a a s1 cb circ ga ga rfl hs hcb
  rw [hr, (innerProduct_one_iff a a s1 circ r ga ga hs hzero hr).2 (SpanEq.refl _)]

end STab
end Graphiq
