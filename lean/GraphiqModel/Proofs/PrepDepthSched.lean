/-
  PrepDepthSched.lean — existence of schedules (Proofs/PrepDepthStatic.lean):
    * a circuit built by `add` has the schedule "operation nodes in creation order, holding the operation list";
    * unwrapping one wrapper node splices the new nodes into the schedule in place of the wrapper node;
    * `remove_op` erases the node from the schedule;
    * hence the prepared copy `unwrap_nodes(); remove_identity()` of a built circuit has a schedule whose operation
      list is exactly `Spec.unwrapSeq seq` (in order).
-/
import GraphiqModel.Proofs.PrepDepthStatic
set_option linter.unusedSectionVars false
set_option linter.unusedSimpArgs false
namespace Graphiq
namespace Metrics
open Dag Relation

theorem Sched.of_inv {c : Dag} {P P' : Paths} {L : List (NodeId × Op)} (hS : Sched c P L) (h : Inv c P) (h' : Inv c P') :
    Sched c P' L := by
  have : P' = P := by funext r; exact h'.paths_unique h r
  rw [this]; exact hS

theorem schedWire_eq_nil {L : List (NodeId × Op)} {r : Reg} (h : ∀ p ∈ L, r ∉ opRegs p.2) : schedWire L r = [] := by
  apply List.eq_nil_iff_forall_not_mem.mpr
  intro n hn
  obtain ⟨p, hp, hr, _⟩ := mem_schedWire.mp hn
  exact h p hp hr

theorem schedWire_eq_map_fst {L : List (NodeId × Op)} {r : Reg} (h : ∀ p ∈ L, r ∈ opRegs p.2) :
    schedWire L r = L.map (·.1) := by
  unfold schedWire
  rw [List.filter_eq_self.mpr (fun p hp => by simpa using h p hp)]

/-! ## circuits built by `add` -/

theorem withNewReg_sched {c : Dag} {P : Paths} {L : List (NodeId × Op)} (_g : Good c P) (hS : Sched c P L) {r : Reg}
    (hr : r.idx = c.regs r.ty) : Sched (c.withNewReg r) (setPath P r [.inp r, .out r]) L := by
  have hnl : ¬ c.live r := by simp [live, hr]
  have hnodes : (c.withNewReg r).nodes = c.nodes ++ [(.inp r, Op.io .input r), (.out r, Op.io .output r)] := rfl
  refine ⟨?_, ?_, hS.nodup, ?_⟩
  · intro r' hl'
    rcases (withNewReg_live c r r' hr).mp hl' with hl | rfl
    · have hne : r' ≠ r := fun e => hnl (e ▸ hl)
      rw [setPath_other _ _ hne]; exact hS.wire r' hl
    · rw [setPath_same, schedWire_eq_nil (fun p hp hm => hnl (hS.live p hp r' hm))]
      rfl
  · intro p
    have hw : ∀ i o, wiredOp (setPath P r [.inp r, .out r]) (.op i) o = wiredOp P (.op i) o := by
      intro i o
      apply wiredOp_congr
      intro j _
      by_cases hj : (⟨.c, j⟩ : Reg) = r
      · rw [hj, setPath_same, _g.inv.dead r hnl]; simp
      · rw [setPath_other _ _ hj]
    rw [hS.nodes p, hnodes]
    constructor
    · rintro ⟨⟨i, hi⟩, o, hm, ho⟩
      exact ⟨⟨i, hi⟩, o, List.mem_append.mpr (Or.inl hm), by rw [ho, hi, hw]⟩
    · rintro ⟨⟨i, hi⟩, o, hm, ho⟩
      rcases List.mem_append.mp hm with hm | hm
      · exact ⟨⟨i, hi⟩, o, hm, by rw [ho, hi, hw]⟩
      · exfalso
        simp at hm
        rcases hm with ⟨h1, _⟩ | ⟨h1, _⟩ <;> rw [hi] at h1 <;> cases h1
  · intro p hp r' hr'
    exact (withNewReg_live c r r' hr).mpr (Or.inl (hS.live p hp r' hr'))

theorem addRegIfAbsent_sched {c : Dag} {P : Paths} {L : List (NodeId × Op)} (g : Good c P) (hS : Sched c P L) (r : Reg) :
    ∃ P', Good (c.addRegIfAbsent r).1 P' ∧ Sched (c.addRegIfAbsent r).1 P' L := by
  by_cases h1 : c.regs r.ty < r.idx
  · rw [addRegIfAbsent_gap h1]; exact ⟨P, g, hS⟩
  · by_cases h2 : r.idx = c.regs r.ty
    · rw [addRegIfAbsent_new g.inv h2]; exact ⟨_, withNewReg_good g h2, withNewReg_sched g hS h2⟩
    · have hl : c.live r := by unfold live; omega
      rw [addRegIfAbsent_old g.inv hl]; exact ⟨P, g, hS⟩

theorem addRegs_sched {c : Dag} {P : Paths} {L : List (NodeId × Op)} (g : Good c P) (hS : Sched c P L) (rs : List Reg) :
    ∃ P', Good (c.addRegs rs).1 P' ∧ Sched (c.addRegs rs).1 P' L := by
  induction rs generalizing c P with
  | nil => exact ⟨P, g, hS⟩
  | cons r rest ih =>
    obtain ⟨P1, g1, hS1⟩ := addRegIfAbsent_sched g hS r
    unfold addRegs
    cases hres : c.addRegIfAbsent r with
    | mk c1 err =>
      rw [hres] at g1 hS1
      simp only at g1 hS1
      cases err with
      | some e => exact ⟨P1, g1, hS1⟩
      | none => exact ih g1 hS1

theorem ensureRegs_sched {c : Dag} {P : Paths} {L : List (NodeId × Op)} (g : Good c P) (hS : Sched c P L) (op : Op) :
    ∃ P', Good (c.ensureRegs op).1 P' ∧ Sched (c.ensureRegs op).1 P' L := by
  obtain ⟨P1, g1, hS1⟩ := addRegs_sched g hS (op.cregs.map (Reg.mk .c))
  unfold ensureRegs
  cases hres : c.addRegs (op.cregs.map (Reg.mk .c)) with
  | mk c1 err =>
    rw [hres] at g1 hS1
    simp only at g1 hS1
    cases err with
    | some e => exact ⟨P1, g1, hS1⟩
    | none =>
      simp only
      by_cases hq : op.qregs.isEmpty = true
      · simp only [hq, if_true]; exact ⟨P1, g1, hS1⟩
      · have hq' : op.qregs.isEmpty = false := by simpa using hq
        simp only [hq', Bool.false_eq_true, if_false]
        exact addRegs_sched g1 hS1 _

theorem add_sched {c : Dag} {P : Paths} {L : List (NodeId × Op)} (g : Good c P) (hS : Sched c P L) {op : Op} (hop : OpWF op)
    (hlive : ∀ r ∈ opRegs op, c.live r) :
    ∃ P', Good (c.add_ op) P' ∧ Sched (c.add_ op) P' (L ++ [(.op (c.nodeId + 1), op)]) := by
  obtain ⟨P2, g2, hregs, _, hnodes, _⟩ := add_good' g hop hlive
  obtain ⟨P', hinv', hother, happ⟩ := add_refines g hop hlive
  have hfresh := g.inv.op_fresh
  refine ⟨P2, g2, ?_, ?_, ?_, ?_⟩
  · intro r hl
    have hl0 : c.live r := (live_eq_of_regs hregs r).mp hl
    rw [g2.inv.paths_unique hinv' r, schedWire_append]
    by_cases hr : r ∈ opRegs op
    · obtain ⟨pre, hpre, hpre'⟩ := happ r hr
      have hw := hS.wire r hl0
      have : pre = NodeId.inp r :: schedWire L r := by
        apply List.append_cancel_right (bs := [NodeId.out r])
        rw [← hpre, hw]; simp
      rw [hpre', this, schedWire_cons_pos (p := (NodeId.op (c.nodeId + 1), op)) hr]
      simp [schedWire]
    · rw [hother r hr, schedWire_cons_neg (p := (NodeId.op (c.nodeId + 1), op)) hr, hS.wire r hl0]
      simp [schedWire]
  · intro p
    have hP2 : ∀ k, P2 k = P' k := fun k => g2.inv.paths_unique hinv' k
    have hold : ∀ n, n ≠ NodeId.op (c.nodeId + 1) → ∀ k, (n ∈ P2 k ↔ n ∈ P k) := by
      intro n hn k
      rw [hP2 k]
      by_cases hk : k ∈ opRegs op
      · obtain ⟨pre, h1, h2⟩ := happ k hk
        rw [h1, h2]; simp [hn]
      · rw [hother k hk]
    have hnew : wiredOp P2 (.op (c.nodeId + 1)) op = op := by
      apply wiredOp_eq_self
      intro j hj
      have hk : (⟨.c, j⟩ : Reg) ∈ opRegs op := by
        unfold opRegs; exact List.mem_append.mpr (Or.inr (List.mem_map.mpr ⟨j, hj, rfl⟩))
      obtain ⟨pre, _, h2⟩ := happ _ hk
      rw [hP2, h2]; simp
    rw [List.mem_append, hS.nodes p, hnodes, List.mem_singleton]
    constructor
    · rintro (⟨⟨i, hi⟩, o, hm, ho⟩ | rfl)
      · have hne : p.1 ≠ .op (c.nodeId + 1) := fun e => hfresh (e ▸ mem_nodeIds.mpr ⟨o, hm⟩)
        exact ⟨⟨i, hi⟩, o, List.mem_append.mpr (Or.inl hm),
          by rw [ho]; exact (wiredOp_congr (fun j _ => hold _ hne _)).symm⟩
      · exact ⟨⟨_, rfl⟩, op, List.mem_append.mpr (Or.inr (by simp)), hnew.symm⟩
    · rintro ⟨hi, o, hm, ho⟩
      rcases List.mem_append.mp hm with hm | hm
      · have hne : p.1 ≠ .op (c.nodeId + 1) := fun e => hfresh (e ▸ mem_nodeIds.mpr ⟨o, hm⟩)
        exact Or.inl ⟨hi, o, hm, by rw [ho]; exact wiredOp_congr (fun j _ => hold _ hne _)⟩
      · simp only [List.mem_singleton, Prod.mk.injEq] at hm
        right
        exact Prod.ext hm.1 (by rw [ho, hm.1, hm.2]; exact hnew)
  · rw [List.map_append, List.nodup_append]
    refine ⟨hS.nodup, by simp, ?_⟩
    intro a ha b hb
    simp at hb; subst hb
    obtain ⟨p, hp, rfl⟩ := List.mem_map.mp ha
    intro e
    exact hfresh (e ▸ hS.mem_nodeIds hp)
  · intro p hp r hr
    rw [live_eq_of_regs hregs]
    rcases List.mem_append.mp hp with hp | hp
    · exact hS.live p hp r hr
    · simp at hp; subst hp; exact hlive r hr

theorem empty_sched : Sched Dag.empty (fun _ => []) [] := by
  refine ⟨?_, ?_, by simp, ?_⟩
  · intro r hl; cases r with | mk t i => cases t <;> simp [live, regs, Dag.empty] at hl
  · intro p; simp [Dag.empty]
  · intro p hp; simp at hp

/-- **a circuit built by `add` has the schedule "operation nodes in creation order"**, holding the operation list -/
theorem build_sched (ne np nc : Nat) (seq : List Op) (hwf : ∀ op ∈ seq, OpWF op) (hok : (build ne np nc seq).2 = none) :
    ∃ P L, Good (build ne np nc seq).1 P ∧ Sched (build ne np nc seq).1 P L ∧ L.map (·.2) = seq := by
  have herr : ∀ (l : List Op) (c : Dag) (e : DErr), (l.foldl buildStep (c, some e)).2 = some e := by
    intro l; induction l with
    | nil => intro c e; rfl
    | cons o t iht => intro c e; rw [List.foldl_cons]; exact iht c e
  have key : ∀ (rest : List Op) (c : Dag) (P : Paths) (L : List (NodeId × Op)), Good c P → Sched c P L →
      (∀ op ∈ rest, OpWF op) → (rest.foldl buildStep (c, none)).2 = none →
      ∃ P' L', Good (rest.foldl buildStep (c, none)).1 P' ∧ Sched (rest.foldl buildStep (c, none)).1 P' L' ∧
        L'.map (·.2) = L.map (·.2) ++ rest := by
    intro rest
    induction rest with
    | nil => intro c P L g hS _ _; exact ⟨P, L, g, hS, by simp⟩
    | cons op rest ih =>
      intro c P L g hS hwf hok
      rw [List.foldl_cons] at hok ⊢
      have hstep : buildStep (c, none) op = c.add op := rfl
      rw [hstep] at hok ⊢
      obtain ⟨P1, g1, hS1⟩ := ensureRegs_sched g hS op
      obtain ⟨_, _, hl1, _, _⟩ := ensureRegs_good g op
      cases hres : c.add op with
      | mk c2 err =>
        rw [hres] at hok
        cases err with
        | some e => rw [herr] at hok; simp at hok
        | none =>
          unfold add at hres
          cases hens : c.ensureRegs op with
          | mk c1 e1 =>
            rw [hens] at hres g1 hS1 hl1
            simp only at hres g1 hS1 hl1
            cases e1 with
            | some e => simp at hres
            | none =>
              simp only at hres
              injection hres with hc2 _
              subst hc2
              obtain ⟨P2, g2, hS2⟩ := add_sched g1 hS1 (hwf op (by simp)) (hl1 rfl)
              obtain ⟨P3, L3, g3, hS3, hL3⟩ := ih (c1.add_ op) P2 _ g2 hS2 (fun o ho => hwf o (List.mem_cons_of_mem _ ho)) hok
              exact ⟨P3, L3, g3, hS3, by rw [hL3]; simp⟩
  obtain ⟨P0, g0, hS0⟩ : ∃ P0, Good (Dag.init ne np nc) P0 ∧ Sched (Dag.init ne np nc) P0 [] := by
    unfold Dag.init
    exact addRegs_sched empty_good empty_sched _
  obtain ⟨P', L', g', hS', hL'⟩ := key seq (Dag.init ne np nc) P0 [] g0 hS0 hwf hok
  exact ⟨P', L', g', hS', by simpa using hL'⟩

/-! ## unwrapping one wrapper node -/

theorem range'_map_eq_zipIdx_map {α β : Type} (f : Nat → β) (l : List α) :
    ∀ s, (List.range' s l.length).map f = (l.zipIdx s).map (fun p => f p.2) := by
  induction l with
  | nil => intro s; rfl
  | cons a t ih =>
    intro s
    rw [List.length_cons, List.range'_succ, List.map_cons, List.zipIdx_cons, List.map_cons, ih (s + 1)]

theorem zipIdx_map_fst {α : Type} (l : List α) : ∀ s, (l.zipIdx s).map (·.1) = l := by
  induction l with
  | nil => intro s; rfl
  | cons a t ih => intro s; rw [List.zipIdx_cons, List.map_cons, ih (s + 1)]

/-- the (node, operation) pairs created by unwrapping a wrapper `w` when `_node_id = N` -/
def newPairs (N : Nat) (w : Op) : List (NodeId × Op) := w.unwrap.zipIdx.map fun p => (NodeId.op (N + 1 + p.2), p.1)

theorem newPairs_fst (N : Nat) (w : Op) :
    (newPairs N w).map (·.1) = (List.range w.unwrap.length).map fun j => NodeId.op (N + 1 + j) := by
  unfold newPairs
  rw [List.map_map, List.range_eq_range', range'_map_eq_zipIdx_map (fun j => NodeId.op (N + 1 + j)) w.unwrap 0]
  rfl

theorem newPairs_snd (N : Nat) (w : Op) : (newPairs N w).map (·.2) = w.unwrap := by
  unfold newPairs
  rw [List.map_map]
  exact zipIdx_map_fst w.unwrap 0

theorem mem_newPairs {N : Nat} {w : Op} {p : NodeId × Op} (hp : p ∈ newPairs N w) :
    (∃ j, p.1 = NodeId.op (N + 1 + j)) ∧ p.2 ∈ w.unwrap := by
  unfold newPairs at hp
  obtain ⟨q, hq, rfl⟩ := List.mem_map.mp hp
  refine ⟨⟨q.2, rfl⟩, ?_⟩
  have := List.mem_zipIdx (x := q.1) (i := q.2) (by simpa using hq)
  rw [this.2.2]; exact List.getElem_mem _

theorem newPairs_fst_nodup (N : Nat) (w : Op) : ((newPairs N w).map (·.1)).Nodup := by
  rw [newPairs_fst]
  apply nodup_map_of_inj _ List.nodup_range
  intro a b h
  injection h with h; omega

theorem nodup_fst_split {L1 L2 : List (NodeId × Op)} {q : NodeId × Op} (h : ((L1 ++ q :: L2).map (·.1)).Nodup) :
    (∀ p ∈ L1, p.1 ≠ q.1) ∧ (∀ p ∈ L2, p.1 ≠ q.1) := by
  rw [List.map_append, List.map_cons, List.nodup_append] at h
  obtain ⟨_, h2, h3⟩ := h
  rw [List.nodup_cons] at h2
  constructor
  · intro p hp e
    exact h3 p.1 (List.mem_map.mpr ⟨p, hp, rfl⟩) q.1 (by simp) e
  · intro p hp e
    exact h2.1 (e ▸ List.mem_map.mpr ⟨p, hp, rfl⟩)

/-- **unwrapping one wrapper node on the schedule**: the wrapper's entry is replaced, in place, by the new nodes holding
    the unwrapped gates (application order) -/
theorem unwrapNode_sched {c : Dag} {P : Paths} {L : List (NodeId × Op)} (g : Good c P) (hS : Sched c P L) {i : Nat} {w : Op}
    (hw : (NodeId.op i, w) ∈ c.nodes) (hk : w.kind = .wrapper) :
    ∃ L1 L2 P', L = L1 ++ (NodeId.op i, w) :: L2 ∧
      Good ((c.unwrapOne (.op i) w.unwrap).1.removeOp (.op i)).1 P' ∧
      Sched ((c.unwrapOne (.op i) w.unwrap).1.removeOp (.op i)).1 P' (L1 ++ newPairs c.nodeId w ++ L2) := by
  have hwf := g.inv.op_wf i w hw
  obtain ⟨_, hc, _⟩ := hwf.wrapper_shape hk
  have hwL : (NodeId.op i, w) ∈ L := by
    have := hS.mem_of_node hw
    rwa [wiredOp_of_cregs_nil hc] at this
  obtain ⟨L1, L2, hL⟩ := List.append_of_mem hwL
  obtain ⟨r, X, Y, P', hq, hP, g2, hP', hoth, _⟩ := unwrapNode_refines g hw hk
  have hopsR := unwrap_ops_wf hwf hk hq
  -- nodes and registers of the result
  obtain ⟨P1, g1, _, _, _, hn1⟩ := unwrapOne_refines g hw hq hc w.unwrap hopsR hP
  obtain ⟨_, _, _, hr1, _, _, _⟩ := unwrapOne_good g hw hq hc w.unwrap hopsR
  have hw1 : (NodeId.op i, w) ∈ (c.unwrapOne (.op i) w.unwrap).1.nodes := by rw [hn1]; exact List.mem_append_left _ hw
  obtain ⟨_, _, hr2, _⟩ := removeOp_good g1 (mem_nodeIds.mpr ⟨w, hw1⟩)
  have hregs : ((c.unwrapOne (.op i) w.unwrap).1.removeOp (.op i)).1.regs = c.regs := hr2.trans hr1
  have hnodes : ((c.unwrapOne (.op i) w.unwrap).1.removeOp (.op i)).1.nodes =
      (c.nodes ++ newPairs c.nodeId w).filter (fun p => p.1 ≠ .op i) := by
    rw [removeOp_eq ((opOf_eq_some g1.inv.ids_nodup).mpr hw1)]
    have F := removeFacts g1.inv (.op i)
    simp only [removed, F.nodes]
    rw [hn1]; rfl
  have hopRegsW : opRegs w = [r] := by unfold opRegs; rw [hq, hc]; rfl
  have hopRegsNew : ∀ p ∈ newPairs c.nodeId w, opRegs p.2 = [r] := by
    intro p hp
    obtain ⟨_, hoq, hoc⟩ := hopsR p.2 (mem_newPairs hp).2
    unfold opRegs; rw [hoq, hoc]; rfl
  have hlr : c.live r := hS.live _ hwL r (by rw [hopRegsW]; simp)
  obtain ⟨hne1, hne2⟩ := nodup_fst_split (q := (NodeId.op i, w)) (by rw [← hL]; exact hS.nodup)
  have hirange := g.inv.op_range i (mem_nodeIds.mpr ⟨w, hw⟩)
  refine ⟨L1, L2, P', hL, g2, ?_, ?_, ?_, ?_⟩
  · -- wires
    intro r' hl'
    have hl0 : c.live r' := (live_eq_of_regs hregs r').mp hl'
    have hw0 := hS.wire r' hl0
    by_cases hr : r' = r
    · subst hr
      rw [hL, schedWire_append, schedWire_cons_pos (by rw [hopRegsW]; simp)] at hw0
      have hnd := g.inv.nodup r'
      rw [hP] at hnd
      have e1 : X ++ NodeId.op i :: Y =
          (NodeId.inp r' :: schedWire L1 r') ++ NodeId.op i :: (schedWire L2 r' ++ [NodeId.out r']) := by
        rw [← hP, hw0]; simp
      obtain ⟨hX, hY⟩ := split_unique hnd e1
      rw [hP', hX, hY, schedWire_append, schedWire_append,
        schedWire_eq_map_fst (L := newPairs c.nodeId w) (fun p hp => by rw [hopRegsNew p hp]; simp), newPairs_fst]
      simp
    · rw [hoth r' hr, hw0, hL]
      have hnw : r' ∉ opRegs w := by rw [hopRegsW]; simpa using hr
      have hnn : schedWire (newPairs c.nodeId w) r' = [] :=
        schedWire_eq_nil (fun p hp => by rw [hopRegsNew p hp]; simpa using hr)
      rw [schedWire_append, schedWire_cons_neg (p := (NodeId.op i, w)) hnw, schedWire_append, schedWire_append, hnn]
      simp
  · -- nodes
    intro p
    have hrq : r.ty ≠ .c := hwf.qregs_quantum r (by rw [hq]; simp)
    have hwP : ∀ n o, wiredOp P' n o = wiredOp P n o := by
      intro n o
      apply wiredOp_congr
      intro j _
      rw [hoth ⟨.c, j⟩ (fun e => hrq (by rw [← e]))]
    rw [List.mem_append, List.mem_append]
    constructor
    · rintro ((hp | hp) | hp)
      · have hpL : p ∈ L := by rw [hL]; exact List.mem_append_left _ hp
        obtain ⟨hi, o, hm, ho⟩ := (hS.nodes p).mp hpL
        exact ⟨hi, o, by rw [hnodes]; exact List.mem_filter.mpr ⟨List.mem_append.mpr (Or.inl hm), by simpa using hne1 p hp⟩,
          by rw [ho, hwP]⟩
      · obtain ⟨⟨j, hj⟩, hu⟩ := mem_newPairs hp
        obtain ⟨_, _, hoc⟩ := hopsR p.2 hu
        refine ⟨⟨_, hj⟩, p.2, ?_, (wiredOp_of_cregs_nil hoc).symm⟩
        rw [hnodes]
        refine List.mem_filter.mpr ⟨List.mem_append.mpr (Or.inr hp), ?_⟩
        rw [hj]; simp; omega
      · have hpL : p ∈ L := by rw [hL]; exact List.mem_append_right _ (List.mem_cons_of_mem _ hp)
        obtain ⟨hi, o, hm, ho⟩ := (hS.nodes p).mp hpL
        exact ⟨hi, o, by rw [hnodes]; exact List.mem_filter.mpr ⟨List.mem_append.mpr (Or.inl hm), by simpa using hne2 p hp⟩,
          by rw [ho, hwP]⟩
    · rintro ⟨hi, o, hm, ho⟩
      rw [hnodes] at hm
      obtain ⟨hm, hne⟩ := List.mem_filter.mp hm
      rcases List.mem_append.mp hm with hm | hm
      · have hpL : p ∈ L := (hS.nodes p).mpr ⟨hi, o, hm, by rw [ho, hwP]⟩
        rw [hL] at hpL
        rcases List.mem_append.mp hpL with h | h
        · exact Or.inl (Or.inl h)
        · rcases List.mem_cons.mp h with h | h
          · exfalso; rw [h] at hne; simp at hne
          · exact Or.inr h
      · obtain ⟨_, hu⟩ := mem_newPairs hm
        obtain ⟨_, _, hoc⟩ := hopsR o hu
        have : p = (p.1, o) := Prod.ext rfl (by rw [ho]; exact wiredOp_of_cregs_nil hoc)
        rw [this]; exact Or.inl (Or.inr hm)
  · -- no duplicates
    have hndL := hS.nodup
    rw [hL, List.map_append, List.map_cons, List.nodup_append] at hndL
    obtain ⟨n1, n2, n3⟩ := hndL
    rw [List.nodup_cons] at n2
    have hfreshNew : ∀ p ∈ newPairs c.nodeId w, ∀ q ∈ L, q.1 ≠ p.1 := by
      intro p hp q hq e
      obtain ⟨⟨j, hj⟩, _⟩ := mem_newPairs hp
      have := g.inv.op_range (c.nodeId + 1 + j) (by
        rw [← hj, ← e]; exact hS.mem_nodeIds hq)
      omega
    rw [List.map_append, List.map_append, List.nodup_append]
    refine ⟨?_, n2.2, ?_⟩
    · rw [List.nodup_append]
      refine ⟨n1, newPairs_fst_nodup _ _, ?_⟩
      intro a ha b hb
      obtain ⟨q, hq, rfl⟩ := List.mem_map.mp ha
      obtain ⟨p, hp, rfl⟩ := List.mem_map.mp hb
      exact hfreshNew p hp q (by rw [hL]; exact List.mem_append_left _ hq)
    · intro a ha b hb
      obtain ⟨q, hq, rfl⟩ := List.mem_map.mp hb
      rcases List.mem_append.mp ha with ha | ha
      · exact n3 a ha q.1 (List.mem_cons_of_mem _ (List.mem_map.mpr ⟨q, hq, rfl⟩))
      · obtain ⟨p, hp, rfl⟩ := List.mem_map.mp ha
        exact fun e => hfreshNew p hp q (by rw [hL]; exact List.mem_append_right _ (List.mem_cons_of_mem _ hq)) e.symm
  · -- registers of scheduled operations exist
    intro p hp r' hr'
    rw [live_eq_of_regs hregs]
    rcases List.mem_append.mp hp with hp | hp
    · rcases List.mem_append.mp hp with hp | hp
      · exact hS.live p (by rw [hL]; exact List.mem_append_left _ hp) r' hr'
      · rw [hopRegsNew p hp] at hr'; simp at hr'; rw [hr']; exact hlr
    · exact hS.live p (by rw [hL]; exact List.mem_append_right _ (List.mem_cons_of_mem _ hp)) r' hr'

theorem Sched.mem_opsOf {c : Dag} {P : Paths} {L : List (NodeId × Op)} (hS : Sched c P L) {o : Op}
    (ho : o ∈ L.map (·.2)) : ∃ o' ∈ opsOf c, ∃ n, o = wiredOp P n o' := by
  obtain ⟨p, hp, rfl⟩ := List.mem_map.mp ho
  obtain ⟨i, o', _, hm, hpo⟩ := hS.op_node hp
  exact ⟨o', Metrics.mem_opsOf.mpr ⟨i, hm⟩, _, hpo⟩

theorem unwrapLoop_sched {c : Dag} {P : Paths} {L : List (NodeId × Op)} (g : Good c P) (hS : Sched c P L)
    (ns : List NodeId) (hnd : ns.Nodup)
    (hns : ∀ n ∈ ns, (∃ j, n = NodeId.op j) ∧ n ∈ c.nodeIds ∧ ∀ op, (n, op) ∈ c.nodes → op.kind = .wrapper ∧ PlainOp' op) :
    ∃ P' L', Good (c.unwrapLoop ns).1 P' ∧ Sched (c.unwrapLoop ns).1 P' L' ∧
      (L'.map (·.2)).flatMap Op.unwrap = (L.map (·.2)).flatMap Op.unwrap := by
  induction ns generalizing c P L with
  | nil => exact ⟨P, L, g, hS, rfl⟩
  | cons n rest ih =>
    obtain ⟨⟨i, rfl⟩, hpres, hkind⟩ := hns n (by simp)
    have hnd' := List.nodup_cons.mp hnd
    obtain ⟨w, hw⟩ := mem_nodeIds.mp hpres
    have ho : c.opOf? (.op i) = some w := (opOf_eq_some g.inv.ids_nodup).mpr hw
    obtain ⟨hk, hp⟩ := hkind w hw
    have hwf := g.inv.op_wf i w hw
    obtain ⟨⟨r0, hq⟩, hc, _⟩ := hwf.wrapper_shape hk
    obtain ⟨L1, L2, P2, hL, g2, hS2⟩ := unwrapNode_sched g hS hw hk
    obtain ⟨_, _, _, hold⟩ := unwrapNode_wires g hw hk hp
    obtain ⟨a1, _, g1, _, _, a4, _⟩ := unwrapOne_good g hw hq hc w.unwrap (unwrap_ops_wf hwf hk hq)
    obtain ⟨b1, _, _, _⟩ := removeOp_good g1 (mem_nodeIds.mpr ⟨w, a4⟩)
    unfold unwrapLoop
    rw [ho]
    simp only
    cases hres : c.unwrapOne (.op i) w.unwrap with
    | mk c1 err =>
      rw [hres] at a1 b1 g2 hS2 hold
      simp only at a1 b1 g2 hS2 hold
      subst a1
      simp only
      cases hres2 : c1.removeOp (.op i) with
      | mk c2 err2 =>
        rw [hres2] at b1 g2 hS2 hold
        simp only at b1 g2 hS2 hold
        subst b1
        simp only
        have hns' : ∀ x ∈ rest, (∃ j, x = NodeId.op j) ∧ x ∈ c2.nodeIds ∧
            ∀ op, (x, op) ∈ c2.nodes → op.kind = .wrapper ∧ PlainOp' op := by
          intro x hx
          obtain ⟨hj, hxm, hkx⟩ := hns x (List.mem_cons_of_mem _ hx)
          have hxne : x ≠ .op i := fun e => hnd'.1 (e ▸ hx)
          have hop := hold x hxne hxm
          obtain ⟨ox, hox⟩ := mem_nodeIds.mp hxm
          have h2 : c2.opOf? x = some ox := by rw [hop]; exact (opOf_eq_some g.inv.ids_nodup).mpr hox
          refine ⟨hj, mem_nodeIds.mpr ⟨ox, (opOf_eq_some g2.inv.ids_nodup).mp h2⟩, ?_⟩
          intro op hopm
          have h3 := (opOf_eq_some g2.inv.ids_nodup).mpr hopm
          rw [hop] at h3
          exact hkx op ((opOf_eq_some g.inv.ids_nodup).mp h3)
        obtain ⟨P3, L3, g3, hS3, hfl3⟩ := ih g2 hS2 hnd'.2 hns'
        refine ⟨P3, L3, g3, hS3, hfl3.trans ?_⟩
        rw [hL]
        simp only [List.map_append, List.map_cons, List.flatMap_append, List.flatMap_cons, newPairs_snd]
        rw [flatMap_unwrap_of_base (unwrap_base_of_plain hp)]
        simp

/-- **`unwrap_nodes` on the schedule**: the schedule afterwards holds, in order, the unwrapped operation list -/
theorem unwrapNodes_sched {c : Dag} {P : Paths} {L : List (NodeId × Op)} (g : Good c P) (hS : Sched c P L) (hpl : AllPlain c) :
    ∃ P' L', Good c.unwrapNodes.1 P' ∧ Sched c.unwrapNodes.1 P' L' ∧ L'.map (·.2) = (L.map (·.2)).flatMap Op.unwrap := by
  obtain ⟨hnd, hmem⟩ := classList_spec g hpl .wrapper (by decide) (by decide) (by decide) (by decide)
  have hname : Kind.wrapper.name = "OneQubitGateWrapper" := rfl
  rw [hname] at hnd hmem
  have hns : ∀ n ∈ dictGet c.nodeDict "OneQubitGateWrapper", (∃ j, n = NodeId.op j) ∧ n ∈ c.nodeIds ∧
      ∀ op, (n, op) ∈ c.nodes → op.kind = .wrapper ∧ PlainOp' op := by
    intro n hn
    obtain ⟨i, op, rfl, hm, hk⟩ := (hmem n).mp hn
    refine ⟨⟨i, rfl⟩, mem_nodeIds.mpr ⟨op, hm⟩, ?_⟩
    intro op' hm'
    have h1 := (opOf_eq_some g.inv.ids_nodup).mpr hm
    have h2 := (opOf_eq_some g.inv.ids_nodup).mpr hm'
    rw [h1] at h2; injection h2 with h2; subst h2
    exact ⟨hk, hpl i op hm⟩
  obtain ⟨P', L', g', hS', hfl⟩ := unwrapLoop_sched g hS _ hnd hns
  rw [unwrapNodes_eq_loop]
  refine ⟨P', L', g', hS', ?_⟩
  rw [← hfl]
  symm
  apply flatMap_unwrap_of_base
  intro o ho
  obtain ⟨o', hmemops, n', rfl⟩ := hS'.mem_opsOf ho
  have hcount := (unwrapNodes_count g hpl (fun o => decide (o.kind = .wrapper))).2
  rw [unwrapNodes_eq_loop] at hcount
  have hzero : ((opsOf c).flatMap Op.unwrap).countP (fun o => decide (o.kind = .wrapper)) = 0 := by
    rw [List.countP_eq_zero]
    intro o' ho'
    obtain ⟨w, hw, how⟩ := List.mem_flatMap.mp ho'
    obtain ⟨j, hj⟩ := Metrics.mem_opsOf.mp hw
    simpa using unwrap_base_of_plain (hpl j w hj) o' how
  rw [hzero, List.countP_eq_zero] at hcount
  simpa using hcount o' hmemops

/-! ## `remove_op` / `remove_identity` on the schedule -/

theorem erase_cons_append_singleton {a b n : NodeId} (ha : a ≠ n) (hb : b ≠ n) (l : List NodeId) :
    (a :: (l ++ [b])).erase n = a :: (l.erase n ++ [b]) := by
  rw [List.erase_cons_tail (by simpa using ha)]
  congr 1
  by_cases hm : n ∈ l
  · exact List.erase_append_left _ hm
  · rw [List.erase_append_right _ hm, List.erase_of_not_mem hm]
    congr 1
    exact List.erase_of_not_mem (by simpa using fun e => hb e.symm)

theorem removeNode_sched {c : Dag} {P : Paths} {L : List (NodeId × Op)} (g : Good c P) (hS : Sched c P L) {i : Nat} {w : Op}
    (hw : (NodeId.op i, w) ∈ c.nodes) :
    ∃ L1 L2, L = L1 ++ (NodeId.op i, wiredOp P (.op i) w) :: L2 ∧
      Sched (c.removeOp (.op i)).1 (erasePaths P (.op i)) (L1 ++ L2) := by
  have hwL : (NodeId.op i, wiredOp P (.op i) w) ∈ L := hS.mem_of_node hw
  obtain ⟨L1, L2, hL⟩ := List.append_of_mem hwL
  obtain ⟨_, g2, hregs, _⟩ := removeOp_good g (mem_nodeIds.mpr ⟨w, hw⟩)
  have hnodes : (c.removeOp (.op i)).1.nodes = c.nodes.filter (fun p => p.1 ≠ .op i) := by
    rw [removeOp_eq ((opOf_eq_some g.inv.ids_nodup).mpr hw)]
    have F := removeFacts g.inv (.op i)
    simp only [removed, F.nodes]
  obtain ⟨hne1, hne2⟩ := nodup_fst_split (q := (NodeId.op i, wiredOp P (.op i) w)) (by rw [← hL]; exact hS.nodup)
  have hnot : ∀ r, NodeId.op i ∉ schedWire L1 r ∧ NodeId.op i ∉ schedWire L2 r := by
    intro r
    constructor
    · intro hm; obtain ⟨p, hp, _, hp1⟩ := mem_schedWire.mp hm; exact hne1 p hp hp1
    · intro hm; obtain ⟨p, hp, _, hp1⟩ := mem_schedWire.mp hm; exact hne2 p hp hp1
  refine ⟨L1, L2, hL, ?_, ?_, ?_, ?_⟩
  · intro r hl
    have hl0 : c.live r := (live_eq_of_regs hregs r).mp hl
    unfold erasePaths
    rw [hS.wire r hl0, erase_cons_append_singleton (by simp) (by simp), hL, schedWire_append, schedWire_append]
    congr 2
    by_cases hr : r ∈ opRegs (wiredOp P (.op i) w)
    · rw [schedWire_cons_pos (p := (NodeId.op i, wiredOp P (.op i) w)) hr]
      exact erase_append_mid (hnot r).1
    · rw [schedWire_cons_neg (p := (NodeId.op i, wiredOp P (.op i) w)) hr]
      apply List.erase_of_not_mem
      intro hm
      rcases List.mem_append.mp hm with hm | hm
      · exact (hnot r).1 hm
      · exact (hnot r).2 hm
  · intro p
    have hwP : ∀ n o, n ≠ NodeId.op i → wiredOp (erasePaths P (.op i)) n o = wiredOp P n o := by
      intro n o hn
      apply wiredOp_congr
      intro j _
      unfold erasePaths
      rw [List.mem_erase_of_ne hn]
    rw [List.mem_append]
    constructor
    · rintro (hp | hp)
      · obtain ⟨hi, o, hm, ho⟩ := (hS.nodes p).mp (by rw [hL]; exact List.mem_append_left _ hp)
        exact ⟨hi, o, by rw [hnodes]; exact List.mem_filter.mpr ⟨hm, by simpa using hne1 p hp⟩, by rw [ho, hwP _ _ (hne1 p hp)]⟩
      · obtain ⟨hi, o, hm, ho⟩ := (hS.nodes p).mp (by rw [hL]; exact List.mem_append_right _ (List.mem_cons_of_mem _ hp))
        exact ⟨hi, o, by rw [hnodes]; exact List.mem_filter.mpr ⟨hm, by simpa using hne2 p hp⟩, by rw [ho, hwP _ _ (hne2 p hp)]⟩
    · rintro ⟨hi, o, hm, ho⟩
      rw [hnodes] at hm
      obtain ⟨hm, hne⟩ := List.mem_filter.mp hm
      have hne' : p.1 ≠ NodeId.op i := by simpa using hne
      have hpL : p ∈ L := (hS.nodes p).mpr ⟨hi, o, hm, by rw [ho, hwP _ _ hne']⟩
      rw [hL] at hpL
      rcases List.mem_append.mp hpL with h | h
      · exact Or.inl h
      · rcases List.mem_cons.mp h with h | h
        · exfalso; rw [h] at hne'; exact hne' rfl
        · exact Or.inr h
  · have hndL := hS.nodup
    rw [hL, List.map_append, List.map_cons, List.nodup_append] at hndL
    obtain ⟨n1, n2, n3⟩ := hndL
    rw [List.nodup_cons] at n2
    rw [List.map_append, List.nodup_append]
    exact ⟨n1, n2.2, fun a ha b hb => n3 a ha b (List.mem_cons_of_mem _ hb)⟩
  · intro p hp r hr
    rw [live_eq_of_regs hregs]
    rcases List.mem_append.mp hp with hp | hp
    · exact hS.live p (by rw [hL]; exact List.mem_append_left _ hp) r hr
    · exact hS.live p (by rw [hL]; exact List.mem_append_right _ (List.mem_cons_of_mem _ hp)) r hr

theorem removeAll_sched {c : Dag} {P : Paths} {L : List (NodeId × Op)} (g : Good c P) (hS : Sched c P L) (q : Op → Bool)
    (hqw : ∀ P n o, q (wiredOp P n o) = q o) (ns : List NodeId) (hnd : ns.Nodup)
    (hns : ∀ n ∈ ns, (∃ j, n = NodeId.op j) ∧ n ∈ c.nodeIds ∧ ∀ op, (n, op) ∈ c.nodes → q op = false) :
    ∃ P' L', Good (c.removeAll ns).1 P' ∧ Sched (c.removeAll ns).1 P' L' ∧
      (L'.map (·.2)).filter q = (L.map (·.2)).filter q := by
  induction ns generalizing c P L with
  | nil => exact ⟨P, L, g, hS, rfl⟩
  | cons n rest ih =>
    obtain ⟨⟨i, rfl⟩, hpres, hqn⟩ := hns n (by simp)
    have hnd' := List.nodup_cons.mp hnd
    obtain ⟨w, hw⟩ := mem_nodeIds.mp hpres
    obtain ⟨g2, _, hold⟩ := removeNode_wires g hw q (hqn w hw)
    obtain ⟨L1, L2, hL, hS2⟩ := removeNode_sched g hS hw
    obtain ⟨b1, _, _, _⟩ := removeOp_good g hpres
    unfold removeAll
    cases hres : c.removeOp (.op i) with
    | mk c2 err2 =>
      rw [hres] at b1 g2 hS2 hold
      simp only at b1 g2 hS2 hold
      subst b1
      simp only
      have hns' : ∀ x ∈ rest, (∃ j, x = NodeId.op j) ∧ x ∈ c2.nodeIds ∧ ∀ op, (x, op) ∈ c2.nodes → q op = false := by
        intro x hx
        obtain ⟨hj, hxm, hqx⟩ := hns x (List.mem_cons_of_mem _ hx)
        have hxne : x ≠ .op i := fun e => hnd'.1 (e ▸ hx)
        have hop := hold x hxne hxm
        obtain ⟨ox, hox⟩ := mem_nodeIds.mp hxm
        have h2 : c2.opOf? x = some ox := by rw [hop]; exact (opOf_eq_some g.inv.ids_nodup).mpr hox
        refine ⟨hj, mem_nodeIds.mpr ⟨ox, (opOf_eq_some g2.inv.ids_nodup).mp h2⟩, ?_⟩
        intro op hopm
        have h3 := (opOf_eq_some g2.inv.ids_nodup).mpr hopm
        rw [hop] at h3
        exact hqx op ((opOf_eq_some g.inv.ids_nodup).mp h3)
      obtain ⟨P3, L3, g3, hS3, hfl3⟩ := ih g2 hS2 hnd'.2 hns'
      refine ⟨P3, L3, g3, hS3, hfl3.trans ?_⟩
      rw [hL]
      simp [List.filter_append, List.filter_cons, hqw, hqn w hw]

/-- **`remove_identity` on the schedule**: the schedule afterwards holds, in order, the non-identity operations -/
theorem removeIdentity_sched {c : Dag} {P : Paths} {L : List (NodeId × Op)} (g : Good c P) (hS : Sched c P L) (hpl : AllPlain c) :
    ∃ P' L', Good c.removeIdentity.1 P' ∧ Sched c.removeIdentity.1 P' L' ∧
      L'.map (·.2) = (L.map (·.2)).filter (fun o => !decide (o.kind = .identity)) := by
  obtain ⟨hnd, hmem⟩ := classList_spec g hpl .identity (by decide) (by decide) (by decide) (by decide)
  have hname : Kind.identity.name = "Identity" := rfl
  rw [hname] at hnd hmem
  have hns : ∀ n ∈ dictGet c.nodeDict "Identity", (∃ j, n = NodeId.op j) ∧ n ∈ c.nodeIds ∧
      ∀ op, (n, op) ∈ c.nodes → (fun o : Op => !decide (o.kind = .identity)) op = false := by
    intro n hn
    obtain ⟨i, op, rfl, hm, hk⟩ := (hmem n).mp hn
    refine ⟨⟨i, rfl⟩, mem_nodeIds.mpr ⟨op, hm⟩, ?_⟩
    intro op' hm'
    have h1 := (opOf_eq_some g.inv.ids_nodup).mpr hm
    have h2 := (opOf_eq_some g.inv.ids_nodup).mpr hm'
    rw [h1] at h2; injection h2 with h2; subst h2
    simp [hk]
  obtain ⟨P', L', g', hS', hfl⟩ := removeAll_sched g hS (fun o => !decide (o.kind = .identity)) (fun _ _ _ => rfl) _ hnd hns
  rw [removeIdentity_eq_all]
  refine ⟨P', L', g', hS', ?_⟩
  rw [← hfl]
  symm
  rw [List.filter_eq_self]
  intro o ho
  obtain ⟨o', hmemops, n', rfl⟩ := hS'.mem_opsOf ho
  have hcount := (removeIdentity_count g hpl (fun o => decide (o.kind = .identity))).2
  rw [removeIdentity_eq_all] at hcount
  have hzero : ((opsOf c).filter (fun o => !decide (o.kind = .identity))).countP (fun o => decide (o.kind = .identity)) = 0 := by
    rw [List.countP_eq_zero]
    intro o' ho'
    have := (List.mem_filter.mp ho').2
    simpa using this
  rw [hzero, List.countP_eq_zero] at hcount
  have := hcount o' hmemops
  simp only [wiredOp_kind]
  simp only [decide_eq_true_eq] at this
  simp [this]

/-! ## the prepared copy -/

theorem plainOp'_of_wiredOp {P : Paths} {n : NodeId} {o : Op} (h : PlainOp' (wiredOp P n o)) : PlainOp' o :=
  { labels := h.labels, arity := h.arity, inner_base := h.inner_base }

theorem plainOp'_wiredOp {P : Paths} {n : NodeId} {o : Op} (h : PlainOp' o) : PlainOp' (wiredOp P n o) :=
  { labels := h.labels, arity := h.arity, inner_base := h.inner_base }

theorem prep_eq_ok {c c' : Dag} (h : prep c = .ok c') : c' = (c.unwrapNodes.1.removeIdentity).1 := by
  unfold prep at h
  cases hu : c.unwrapNodes with
  | mk c1 e1 =>
    rw [hu] at h
    cases e1 with
    | some e => simp at h
    | none =>
      simp only at h
      cases hr : c1.removeIdentity with
      | mk c2 e2 =>
        rw [hr] at h
        cases e2 with
        | some e => simp at h
        | none => simp only at h; injection h with h; exact h.symm

/-- **the prepared copy has a schedule holding exactly the unwrapped, identity-free operation list, in order** -/
theorem prep_sched (ne np nc : Nat) (seq : List Op) (hseq : PlainSeq' seq) (hok : (build ne np nc seq).2 = none) :
    ∃ c' P' L', prep (build ne np nc seq).1 = .ok c' ∧ Good c' P' ∧ Sched c' P' L' ∧
      L'.map (·.2) = Spec.unwrapSeq seq ∧ c'.regs = (build ne np nc seq).1.regs := by
  obtain ⟨c', hprep, _, hregs, _⟩ := prep_spec ne np nc seq hseq hok
  obtain ⟨hops, _⟩ := build_spec ne np nc seq (fun op h => (hseq op h).1) hok
  obtain ⟨P, L, g, hS, hL⟩ := build_sched ne np nc seq (fun op h => (hseq op h).1) hok
  have hpl : AllPlain (build ne np nc seq).1 := by
    intro i o hm
    have : o ∈ opsOf (build ne np nc seq).1 := mem_opsOf.mpr ⟨i, hm⟩
    rw [hops] at this; exact (hseq o this).2
  obtain ⟨P1, L1, g1, hS1, hL1⟩ := unwrapNodes_sched g hS hpl
  have hpl1 : AllPlain (build ne np nc seq).1.unwrapNodes.1 := by
    intro i o hm
    have h1 : wiredOp P1 (.op i) o ∈ L1.map (·.2) :=
      List.mem_map.mpr ⟨_, hS1.mem_of_node hm, rfl⟩
    rw [hL1, hL] at h1
    exact plainOp'_of_wiredOp (plain_flatMap_unwrap (fun o ho => (hseq o ho).2) _ h1)
  obtain ⟨P2, L2, g2, hS2, hL2⟩ := removeIdentity_sched g1 hS1 hpl1
  have hc' := prep_eq_ok hprep
  refine ⟨c', P2, L2, hprep, by rw [hc']; exact g2, by rw [hc']; exact hS2, ?_, hregs⟩
  rw [hL2, hL1, hL, unwrapSeq_eq]

end Metrics
end Graphiq
