/-
  Proofs/InnerProductSpec.lean — the gauge-independent specification of the stabilizer overlap, at the level of signed
  Pauli groups (C05, fidelity half), and the row-product toolkit it needs.

  For two real commuting tableaux `A`, `B` on `n` qubits (the signed groups of two stabilizer states |a⟩, |b⟩):
  * `Orth A B`        : some Pauli `P` lies in the group of `A` while `−P` lies in the group of `B`   (then ⟨a|b⟩ = 0);
  * `OverlapDim A B d`: the common subgroup `A ∩ B` has an independent generating set of `d` elements, i.e. it is an
                        elementary abelian 2-group of rank `d`, `|A ∩ B| = 2^d`   (then, if not `Orth`, |⟨a|b⟩|² = 2^{-(n-d)}).
  Both are statements about the two *groups* (`STab.Spn`), not about the generating sets.  The bridge to Hilbert space
  (|⟨a|b⟩|² = 0 resp. 2^{-(n - dim(A ∩ B))}) is textbook mathematics (Aaronson–Gottesman 2004 §3; Garcia–Markov–Cross 2012)
  and is cited, not proved.  All sizes.  No Mathlib.
-/
import GraphiqModel.Proofs.CanonUnique
import GraphiqModel.Proofs.InverseCircuit
namespace Graphiq
open PRow Tab

namespace PRow

/-- the same Pauli string with the opposite sign -/
def neg (a : PRow) : PRow := { a with r := !a.r }

/-- no x-bit on the first `n` sites (a product of `Z`s and identities, up to phase) -/
def XFree (n : Nat) (a : PRow) : Prop := ∀ j, j < n → a.x j = false

theorem neg_neg (a : PRow) : neg (neg a) = a := by
  cases a; simp [neg]

theorem neg_congr (n : Nat) (a b : PRow) (h : EqOn n a b) : EqOn n (neg a) (neg b) :=
  ⟨h.1, by show (!a.r) = (!b.r); rw [h.2.1], h.2.2⟩

theorem XFree.congr {n : Nat} {a b : PRow} (h : XFree n a) (e : EqOn n a b) : XFree n b :=
  fun j hj => by rw [← (e.1 j hj).1]; exact h j hj

theorem xfree_neg (n : Nat) (a : PRow) (h : XFree n a) : XFree n (neg a) := h

theorem xfree_one (n : Nat) : XFree n PRow.one := fun _ _ => rfl

theorem xfree_mul (n : Nat) (a b : PRow) (ha : XFree n a) (hb : XFree n b) : XFree n (PRow.mul n a b) := by
  intro j hj; rw [mul_x, ha j hj, hb j hj]; rfl

theorem gFun_xfree (z1 z2 : Bool) : gFun false z1 false z2 = 0 := by
  cases z1 <;> cases z2 <;> decide

/-- no phase is picked up when two `Z`-strings are multiplied -/
theorem gSum_xfree (n : Nat) (a b : PRow) (ha : XFree n a) (hb : XFree n b) : gSum n a b = 0 := by
  unfold gSum
  rw [sumTo_congr n _ (fun _ => 0) (fun j hj => by rw [ha j hj, hb j hj]; exact gFun_xfree _ _)]
  exact sumTo_zero n

/-- the sign of a product of two real `Z`-strings is the xor of the signs -/
theorem mul_xfree_phase (n : Nat) (a b : PRow) (ha : XFree n a) (hb : XFree n b) (ra : a.ip = false) (rb : b.ip = false) :
    (PRow.mul n a b).r = xor a.r b.r ∧ (PRow.mul n a b).ip = false := by
  have hp := mul_ph n a b
  rw [gSum_xfree n a b ha hb] at hp
  unfold ph at hp
  rw [ra, rb] at hp
  cases h1 : (PRow.mul n a b).r <;> cases h2 : (PRow.mul n a b).ip <;> cases h3 : a.r <;> cases h4 : b.r <;>
    simp [h1, h2, h3, h4, Bool.toInt'] at hp ⊢

end PRow

namespace STab

/-! ### more on ordered subset products -/

/-- subset products of row-wise `EqOn` families agree -/
theorem sprod_eqOn_rows (n : Nat) (row row' : Nat → PRow) (S : Nat → Bool) (m : Nat)
    (h : ∀ i, i < m → EqOn n (row i) (row' i)) : EqOn n (sprod n row S m) (sprod n row' S m) := by
  induction m with
  | zero => exact EqOn.refl _ _
  | succ k ih =>
    have ih := ih (fun i hi => h i (Nat.lt_succ_of_lt hi))
    simp only [sprod]
    cases S k
    · exact ih
    · exact mul_congr n _ _ _ _ (h k (Nat.lt_succ_self k)) ih

/-- the accumulation loop `for idx in [j for j in range(m) if S j]: scratch = row[idx] · scratch` is the subset product -/
theorem sprod_foldl (n : Nat) (row : Nat → PRow) (S : Nat → Bool) (m : Nat) :
    ((List.range m).filter S).foldl (fun sc idx => PRow.mul n (row idx) sc) PRow.one = sprod n row S m := by
  induction m with
  | zero => rfl
  | succ k ih =>
    rw [List.range_succ, List.filter_append, List.foldl_append, ih]
    simp only [sprod]
    cases hS : S k <;> simp [List.filter, hS]

/-- a subset that misses the first `k` rows is a subset of the remaining rows -/
theorem sprod_shift (n : Nat) (row : Nat → PRow) (S : Nat → Bool) (k d : Nat) (h : ∀ i, i < k → S i = false) :
    sprod n row S (k + d) = sprod n (fun i => row (k + i)) (fun i => S (k + i)) d := by
  induction d with
  | zero => exact sprod_none n row S k h
  | succ e ih =>
    show sprod n row S (k + e + 1) = _
    simp only [sprod]
    rw [ih]

/-- subset products of real `Z`-strings: no x-bit, real, and the sign is the parity of the selected signs -/
theorem sprod_xfree (n : Nat) (row : Nat → PRow) (S : Nat → Bool) (m : Nat)
    (hx : ∀ i, i < m → S i = true → XFree n (row i)) (hr : ∀ i, i < m → S i = true → (row i).ip = false) :
    XFree n (sprod n row S m) ∧ (sprod n row S m).ip = false ∧
      (sprod n row S m).r = parityTo m (fun i => S i && (row i).r) := by
  induction m with
  | zero => exact ⟨xfree_one n, rfl, rfl⟩
  | succ k ih =>
    obtain ⟨i1, i2, i3⟩ := ih (fun i hi => hx i (Nat.lt_succ_of_lt hi)) (fun i hi => hr i (Nat.lt_succ_of_lt hi))
    simp only [sprod, parityTo]
    cases hS : S k
    · simp only [cond_false, Bool.false_and, Bool.xor_false]
      exact ⟨i1, i2, i3⟩
    · simp only [cond_true, Bool.true_and]
      have xk := hx k (Nat.lt_succ_self k) hS
      have rk := hr k (Nat.lt_succ_self k) hS
      have := mul_xfree_phase n (row k) (sprod n row S k) xk i1 rk i2
      refine ⟨xfree_mul n _ _ xk i1, this.2, ?_⟩
      rw [this.1, i3, Bool.xor_comm]

/-! ### the all-|0⟩ tableau: its signed group is the set of `+Z`-strings -/

theorem zero_good (n : Nat) : (STab.zero n).Good := by
  constructor
  · intro i _; rfl
  · intro i k _ hk
    show sp n (PRow.Zq i) (PRow.Zq k) = false
    rw [sp_Zq n k _ false hk]; rfl

/-- the `+Z`-string with z-bits `S` -/
def zstr (n : Nat) (S : Nat → Bool) : PRow := sprod n (STab.zero n).row S n

theorem zstr_spn (n : Nat) (S : Nat → Bool) : (STab.zero n).Spn (zstr n S) :=
  sprod_spn (STab.zero n) S n (Nat.le_refl _)

theorem zstr_bits (n : Nat) (S : Nat → Bool) :
    XFree n (zstr n S) ∧ (zstr n S).ip = false ∧ (zstr n S).r = false ∧ ∀ j, j < n → (zstr n S).z j = S j := by
  have h := sprod_xfree n (STab.zero n).row S n (fun i _ _ _ _ => rfl) (fun i _ _ => rfl)
  refine ⟨h.1, h.2.1, ?_, fun j hj => ?_⟩
  · show (sprod n (STab.zero n).row S n).r = false
    rw [h.2.2]; apply parityTo_zero; intro i _; show (S i && false) = false; simp
  · unfold zstr
    rw [sprod_z]
    have e : ∀ i, i < n → (S i && ((STab.zero n).row i).z j) = (decide (i = j) && S i) := by
      intro i _
      show (S i && decide (j = i)) = (decide (i = j) && S i)
      by_cases hij : i = j
      · subst hij; simp
      · have : ¬ j = i := fun e => hij e.symm
        simp [hij, this]
    rw [parityTo_congr n _ _ e, parityTo_single n j S hj]

/-- **the signed group of |0…0⟩** is exactly the set of real `Z`-strings with sign `+` -/
theorem zero_spn_iff (n : Nat) (P : PRow) : (STab.zero n).Spn P ↔ (XFree n P ∧ P.r = false ∧ P.ip = false) := by
  constructor
  · intro h
    unfold Spn at h
    induction h with
    | one => exact ⟨xfree_one n, rfl, rfl⟩
    | gen i hi => exact ⟨fun _ _ => rfl, rfl, rfl⟩
    | mul a b _ _ iha ihb =>
      have := mul_xfree_phase n a b iha.1 ihb.1 iha.2.2 ihb.2.2
      refine ⟨xfree_mul n a b iha.1 ihb.1, ?_, this.2⟩
      show (PRow.mul n a b).r = false
      rw [this.1, iha.2.1, ihb.2.1]; rfl
    | eqv a b _ hab iha => exact ⟨iha.1.congr hab, hab.2.1 ▸ iha.2.1, hab.2.2 ▸ iha.2.2⟩
  · intro ⟨hx, hr, hi⟩
    have hb := zstr_bits n (fun j => P.z j)
    refine InSpan.eqv _ _ (zstr_spn n (fun j => P.z j)) ⟨fun j hj => ⟨?_, ?_⟩, ?_, ?_⟩
    · rw [hb.1 j hj, hx j hj]
    · exact hb.2.2.2 j hj
    · rw [hb.2.2.1, hr]
    · rw [hb.2.1, hi]

/-! ### the specification -/

/-- **orthogonality at group level**: some Pauli `P` is in the signed group of `A` while `−P` is in that of `B` -/
def Orth (A B : STab) : Prop := ∃ P, A.Spn P ∧ B.Spn (PRow.neg P)

theorem Orth.symm {A B : STab} (h : Orth A B) : Orth B A := by
  obtain ⟨P, hA, hB⟩ := h
  exact ⟨PRow.neg P, hB, by rw [neg_neg]; exact hA⟩

theorem orth_comm (A B : STab) : Orth A B ↔ Orth B A := ⟨Orth.symm, Orth.symm⟩

theorem Orth.congr {A A' B B' : STab} (h : Orth A B) (sA : SpanEq A A') (sB : SpanEq B B') : Orth A' B' := by
  obtain ⟨P, hA, hB⟩ := h
  exact ⟨P, sA.sub _ hA, sB.sub _ hB⟩

/-- `gens 0 … gens (d-1)` is an independent generating set of the common subgroup `A ∩ B` (products are taken on
    `A.n` sites): every `gens i` lies in both groups, no non-empty subset multiplies to `+I`, and every common element is
    a subset product. -/
structure IsOverlapBasis (A B : STab) (d : Nat) (gens : Nat → PRow) : Prop where
  memA : ∀ i, i < d → A.Spn (gens i)
  memB : ∀ i, i < d → B.Spn (gens i)
  indep : ∀ S : Nat → Bool, EqOn A.n (sprod A.n gens S d) PRow.one → ∀ i, i < d → S i = false
  span : ∀ P, A.Spn P → B.Spn P → ∃ S : Nat → Bool, EqOn A.n P (sprod A.n gens S d)

/-- **dimension of the common subgroup**: `A ∩ B` has rank `d` (so `|A ∩ B| = 2^d`) -/
def OverlapDim (A B : STab) (d : Nat) : Prop := ∃ gens, IsOverlapBasis A B d gens

theorem IsOverlapBasis.symm {A B : STab} {d : Nat} {gens : Nat → PRow} (hn : A.n = B.n) (h : IsOverlapBasis A B d gens) :
    IsOverlapBasis B A d gens :=
  ⟨h.memB, h.memA, fun S => hn ▸ h.indep S, fun P hB hA => hn ▸ h.span P hA hB⟩

theorem overlapDim_comm (A B : STab) (hn : A.n = B.n) (d : Nat) : OverlapDim A B d ↔ OverlapDim B A d :=
  ⟨fun ⟨g, h⟩ => ⟨g, h.symm hn⟩, fun ⟨g, h⟩ => ⟨g, h.symm hn.symm⟩⟩

theorem IsOverlapBasis.congr {A A' B B' : STab} {d : Nat} {gens : Nat → PRow} (h : IsOverlapBasis A B d gens)
    (sA : SpanEq A A') (sB : SpanEq B B') : IsOverlapBasis A' B' d gens :=
  ⟨fun i hi => sA.sub _ (h.memA i hi), fun i hi => sB.sub _ (h.memB i hi),
   fun S => sA.n_eq ▸ h.indep S, fun P hA hB => sA.n_eq ▸ h.span P (sA.sup _ hA) (sB.sup _ hB)⟩

theorem OverlapDim.congr {A A' B B' : STab} {d : Nat} (h : OverlapDim A B d) (sA : SpanEq A A') (sB : SpanEq B B') :
    OverlapDim A' B' d := by
  obtain ⟨g, hg⟩ := h
  exact ⟨g, hg.congr sA sB⟩

end STab
end Graphiq
