/-
  Proofs/StateToGraphInv.lean — completeness of the exact GF(2) inverse of Model/StateToGraph.lean (`gf2Inv`, Gauss–Jordan):
  on every matrix with trivial kernel it returns a matrix `M` with `M · A = I`.  All sizes.
-/
import GraphiqModel.Proofs.StateToGraphBits
namespace Graphiq
namespace S2G

/-- `A v = 0` (over GF(2), indices below `n`) only for `v = 0` -/
def Inj (n : Nat) (A : Adj) : Prop :=
  ∀ v : Nat → Bool, (∀ i, i < n → parityTo n (fun j => A i j && v j) = false) → ∀ j, j < n → v j = false

/-- invariant of the Gauss–Jordan loop before column `c` -/
structure GJInv (n : Nat) (A : Adj) (s : GJ) (c : Nat) : Prop where
  unit : ∀ i j, i < n → j < c → s.a.f i j = decide (i = j)
  inj : Inj n s.a.f
  prod : ∀ i j, i < n → j < n → s.a.f i j = matMul n s.m.f A i j

theorem gjInv_init (n : Nat) (A : Adj) (h : Inj n A) : GJInv n A { a := BMat.ofAdj n A, m := BMat.ofAdj n idM } 0 := by
  refine ⟨fun i j _ hj => by omega, h, fun i j hi _ => ?_⟩
  show A i j = parityTo n (fun k => decide (i = k) && A k j)
  rw [parityTo_single'' n i (fun k => A k j) hi]

theorem matMul_swapRows (n : Nat) (M A : Adj) (a b i j : Nat) :
    matMul n (swapRows M a b) A i j = swapRows (matMul n M A) a b i j := by
  simp only [matMul, swapRows]
  split
  · rfl
  · split <;> rfl

theorem gjStep_ok (n : Nat) (A : Adj) (s : GJ) (c : Nat) (hc : c < n) (h : GJInv n A s c) :
    ∃ s', gjStep n (some s) c = some s' ∧ GJInv n A s' (c + 1) := by
  -- a pivot exists
  have hex : ∃ p, ((List.range n).filter fun i => decide (c ≤ i) && s.a.f i c).head? = some p := by
    cases hh : ((List.range n).filter fun i => decide (c ≤ i) && s.a.f i c).head? with
    | some p => exact ⟨p, rfl⟩
    | none =>
      exfalso
      rw [List.head?_eq_none_iff] at hh
      have hz : ∀ i, c ≤ i → i < n → s.a.f i c = false := by
        intro i h1 h2
        cases hv : s.a.f i c
        · rfl
        · have : i ∈ (List.range n).filter fun i => decide (c ≤ i) && s.a.f i c := by
            simp only [List.mem_filter, List.mem_range, Bool.and_eq_true, decide_eq_true_eq]
            exact ⟨h2, h1, hv⟩
          rw [hh] at this; cases this
      -- the kernel vector `e_c + Σ_{j<c} a[j,c] e_j`
      have := h.inj (fun j => if j = c then true else (decide (j < c) && s.a.f j c)) (by
        intro i hi
        have e : parityTo n (fun j => s.a.f i j && (if j = c then true else (decide (j < c) && s.a.f j c))) =
            xor (s.a.f i c) (decide (i < c) && s.a.f i c) := by
          rw [parityTo_congr n _ (fun j => xor (decide (j = c) && s.a.f i c) (decide (i = j) && (decide (j < c) && s.a.f j c)))
            (fun j hj => by
              by_cases h1 : j = c
              · subst h1; simp
              · by_cases h2 : j < c
                · rw [h.unit i j hi h2]; simp [h1, h2]
                · simp [h1, h2]),
            parityTo_xor, parityTo_single n c (fun _ => s.a.f i c) hc,
            parityTo_single'' n i (fun j => decide (j < c) && s.a.f j c) hi]
        rw [e]
        by_cases h1 : i < c
        · simp [h1]
        · rw [hz i (by omega) hi]; simp) c hc
      simp at this
  obtain ⟨p, hp⟩ := hex
  have hpm := List.mem_of_mem_head? hp
  simp only [List.mem_filter, List.mem_range, Bool.and_eq_true, decide_eq_true_eq] at hpm
  obtain ⟨hpn, hcp, hpc⟩ := hpm
  -- the state after the step
  refine ⟨{ a := (BMat.ofAdj n fun i j => if i ≠ c ∧ swapRows s.a.f c p i c = true
                then xor (swapRows s.a.f c p i j) (swapRows s.a.f c p c j) else swapRows s.a.f c p i j).norm
            m := (BMat.ofAdj n fun i j => if i ≠ c ∧ swapRows s.a.f c p i c = true
                then xor (swapRows s.m.f c p i j) (swapRows s.m.f c p c j) else swapRows s.m.f c p i j).norm },
    by simp only [gjStep, hp], ?_⟩
  generalize ha1 : swapRows s.a.f c p = a1
  generalize hm1 : swapRows s.m.f c p = m1
  have a1c : a1 c = s.a.f p := by rw [← ha1]; simp [swapRows]
  -- the swapped rows are the old rows
  have oldrow : ∀ i, i < n → ∃ i', i' < n ∧ a1 i' = s.a.f i := by
    intro i hi
    rw [← ha1]
    simp only [swapRows]
    by_cases e1 : i = c
    · refine ⟨p, hpn, ?_⟩
      by_cases e3 : p = c
      · simp [e3, e1]
      · simp [e3, e1]
    · by_cases e2 : i = p
      · exact ⟨c, hc, by simp [e2]⟩
      · exact ⟨i, hi, by simp [e1, e2]⟩
  have a1unit : ∀ i j, i < n → j < c → a1 i j = decide (i = j) := by
    intro i j hi hj
    rw [← ha1]
    simp only [swapRows]
    by_cases e1 : i = c
    · rw [if_pos e1, h.unit p j hpn hj]
      have h1 : ¬ (p = j) := by omega
      have h2 : ¬ (i = j) := by omega
      rw [decide_eq_false h1, decide_eq_false h2]
    · rw [if_neg e1]
      by_cases e2 : i = p
      · rw [if_pos e2, h.unit c j hc hj]
        have h1 : ¬ (c = j) := by omega
        have h2 : ¬ (i = j) := by omega
        rw [decide_eq_false h1, decide_eq_false h2]
      · rw [if_neg e2]; exact h.unit i j hi hj
  have a1cc : a1 c c = true := by rw [a1c]; exact hpc
  have a1prod : ∀ i j, i < n → j < n → a1 i j = matMul n m1 A i j := by
    intro i j hi hj
    rw [← ha1, ← hm1, matMul_swapRows]
    simp only [swapRows]
    split
    · exact h.prod p j hpn hj
    · split
      · exact h.prod c j hc hj
      · exact h.prod i j hi hj
  -- entries of the new matrices
  have newA : ∀ i j, i < n → j < n →
      (BMat.ofAdj n fun i j => if i ≠ c ∧ a1 i c = true then xor (a1 i j) (a1 c j) else a1 i j).norm.f i j =
        if i ≠ c ∧ a1 i c = true then xor (a1 i j) (a1 c j) else a1 i j :=
    fun i j hi hj => BMat.norm_agree _ i j hi hj
  have newM : ∀ i j, i < n → j < n →
      (BMat.ofAdj n fun i j => if i ≠ c ∧ a1 i c = true then xor (m1 i j) (m1 c j) else m1 i j).norm.f i j =
        if i ≠ c ∧ a1 i c = true then xor (m1 i j) (m1 c j) else m1 i j :=
    fun i j hi hj => BMat.norm_agree _ i j hi hj
  refine ⟨fun i j hi hj => ?_, fun v hv => ?_, fun i j hi hj => ?_⟩
  · -- unit columns
    show (BMat.ofAdj n fun i j => if i ≠ c ∧ a1 i c = true then xor (a1 i j) (a1 c j) else a1 i j).norm.f i j = _
    rw [newA i j hi (by omega)]
    by_cases hjc : j = c
    · subst hjc
      by_cases e1 : i = j
      · subst e1; simp [a1cc]
      · by_cases e2 : a1 i j = true
        · simp [e1, e2, a1cc]
        · have e2' : a1 i j = false := by simpa using e2
          simp [e1, e2']
    · have hjlt : j < c := by omega
      rw [a1unit i j hi hjlt, a1unit c j hc hjlt]
      have : ¬ (c = j) := by omega
      split <;> simp [this]
  · -- trivial kernel
    have hv' : ∀ i, i < n → parityTo n (fun j =>
        (if i ≠ c ∧ a1 i c = true then xor (a1 i j) (a1 c j) else a1 i j) && v j) = false := by
      intro i hi
      rw [← hv i hi]
      apply parityTo_congr
      intro j hj
      show _ = ((BMat.ofAdj n fun i j => if i ≠ c ∧ a1 i c = true then xor (a1 i j) (a1 c j) else a1 i j).norm.f i j && v j)
      rw [newA i j hi hj]
    have hcv : parityTo n (fun j => a1 c j && v j) = false := by
      have := hv' c hc
      rw [← this]
      apply parityTo_congr
      intro j _
      simp
    have h1v : ∀ i, i < n → parityTo n (fun j => a1 i j && v j) = false := by
      intro i hi
      by_cases e : i ≠ c ∧ a1 i c = true
      · have := hv' i hi
        rw [parityTo_congr n _ (fun j => xor (a1 i j && v j) (a1 c j && v j)) (fun j _ => by
          rw [if_pos e]; cases a1 i j <;> cases a1 c j <;> cases v j <;> rfl), parityTo_xor, hcv] at this
        simpa using this
      · have := hv' i hi
        rw [parityTo_congr n _ (fun j => a1 i j && v j) (fun j _ => by rw [if_neg e])] at this
        exact this
    apply h.inj v
    intro i hi
    obtain ⟨i', hi', e⟩ := oldrow i hi
    rw [← e]; exact h1v i' hi'
  · -- product form
    show (BMat.ofAdj n fun i j => if i ≠ c ∧ a1 i c = true then xor (a1 i j) (a1 c j) else a1 i j).norm.f i j =
      matMul n (BMat.ofAdj n fun i j => if i ≠ c ∧ a1 i c = true then xor (m1 i j) (m1 c j) else m1 i j).norm.f A i j
    rw [newA i j hi hj]
    have e : matMul n (BMat.ofAdj n fun i j => if i ≠ c ∧ a1 i c = true then xor (m1 i j) (m1 c j) else m1 i j).norm.f A i j =
        parityTo n (fun k => (if i ≠ c ∧ a1 i c = true then xor (m1 i k) (m1 c k) else m1 i k) && A k j) := by
      simp only [matMul]
      apply parityTo_congr
      intro k hk
      rw [newM i k hi hk]
    rw [e]
    by_cases e1 : i ≠ c ∧ a1 i c = true
    · rw [if_pos e1, a1prod i j hi hj, a1prod c j hc hj]
      simp only [matMul]
      rw [← parityTo_xor]
      apply parityTo_congr
      intro k _
      rw [if_pos e1]
      cases m1 i k <;> cases m1 c k <;> cases A k j <;> rfl
    · rw [if_neg e1, a1prod i j hi hj]
      simp only [matMul]
      apply parityTo_congr
      intro k _
      rw [if_neg e1]

/-- **the exact inverse exists on every matrix with trivial kernel**, and it is a left inverse -/
theorem gf2Inv_complete (n : Nat) (A : Adj) (h : Inj n A) :
    ∃ M, gf2Inv n A = some M ∧ ∀ i j, i < n → j < n → matMul n M.f A i j = decide (i = j) := by
  have key : ∀ k, k ≤ n → ∃ s, (List.range k).foldl (gjStep n) (some { a := BMat.ofAdj n A, m := BMat.ofAdj n idM }) = some s ∧
      GJInv n A s k := by
    intro k
    induction k with
    | zero => intro _; exact ⟨_, rfl, gjInv_init n A h⟩
    | succ k ih =>
      intro hk
      obtain ⟨s, e, hs⟩ := ih (by omega)
      obtain ⟨s', e', hs'⟩ := gjStep_ok n A s k (by omega) hs
      exact ⟨s', by rw [List.range_succ, List.foldl_append, e]; exact e', hs'⟩
  obtain ⟨s, e, hs⟩ := key n (Nat.le_refl n)
  refine ⟨s.m, by simp only [gf2Inv, e, Option.map_some], fun i j hi hj => ?_⟩
  rw [← hs.prod i j hi hj]; exact hs.unit i j hi hj

/-- what `_graph_finder` needs from its inverse computation: on a matrix with trivial kernel it returns a true (left) inverse -/
def InvOK (inv : Nat → Adj → Option Adj) (n : Nat) : Prop :=
  ∀ A, Inj n A → ∃ M, inv n A = some M ∧ ∀ i j, i < n → j < n → matMul n M A i j = decide (i = j)

theorem gf2InvF_ok (n : Nat) : InvOK gf2InvF n := by
  intro A h
  obtain ⟨M, e, hM⟩ := gf2Inv_complete n A h
  exact ⟨M.f, by simp only [gf2InvF, e, Option.map_some], hM⟩

end S2G
end Graphiq
