/-
  MetricsHistChain.lean — what the ASAP specification means (C18): `Spec.layerOf`/`Spec.depth`/`Spec.regDepth` (computed by
  layering the operation list over shared registers) ARE the lengths of longest dependency chains of the operation list.

  A dependency chain of an operation list is a subsequence o₁, o₂, …, o_k (positions increasing) in which consecutive
  operations share a register (quantum, or classical as wired).  Positions are identified by the prefix before the operation
  (`seq = pre ++ o :: suf`), so no index arithmetic is needed.
-/
import GraphiqModel.Proofs.MetricsHistDepth
set_option linter.unusedSectionVars false
set_option linter.unusedSimpArgs false
namespace Graphiq
namespace Metrics
open Dag Relation

/-- `Chain seq pre o k`: there is a dependency chain of `k` operations of `seq` ending at the operation `o` that stands
    after the prefix `pre` -/
inductive Chain (seq : List Op) : List Op → Op → Nat → Prop
  | single {pre : List Op} {o : Op} {suf : List Op} : seq = pre ++ o :: suf → Chain seq pre o 1
  | snoc {pre1 : List Op} {o1 : Op} {mid : List Op} {o2 : Op} {suf2 : List Op} {k : Nat} :
      Chain seq pre1 o1 k → seq = (pre1 ++ o1 :: mid) ++ o2 :: suf2 → (∃ r, r ∈ opRegs o1 ∧ r ∈ opRegs o2) →
      Chain seq (pre1 ++ o1 :: mid) o2 (k + 1)

theorem frontGet_fronts_snoc (pre : List Op) (op : Op) (r : Reg) :
    Spec.frontGet (Spec.fronts (pre ++ [op])) r =
      if r ∈ opRegs op then Spec.layerOf (Spec.fronts pre) op else Spec.frontGet (Spec.fronts pre) r := by
  rw [fronts_append, frontGet_pushLayer]

/-- the front of a register never decreases when operations are appended -/
theorem frontGet_mono (a b : List Op) (r : Reg) :
    Spec.frontGet (Spec.fronts a) r ≤ Spec.frontGet (Spec.fronts (a ++ b)) r := by
  induction b using List.reverseRec with
  | nil => simp
  | append_singleton b op ih =>
    rw [← List.append_assoc, frontGet_fronts_snoc]
    by_cases hr : r ∈ opRegs op
    · rw [if_pos hr]
      have := layerOf_ge (Spec.fronts (a ++ b)) op hr
      omega
    · rw [if_neg hr]; exact ih

/-- the layer of an operation is at most the later front of each of its registers -/
theorem layer_le_later_front (pre1 : List Op) (o1 : Op) (mid : List Op) {r : Reg} (hr : r ∈ opRegs o1) :
    Spec.layerOf (Spec.fronts pre1) o1 ≤ Spec.frontGet (Spec.fronts (pre1 ++ o1 :: mid)) r := by
  have h1 : Spec.frontGet (Spec.fronts (pre1 ++ [o1])) r = Spec.layerOf (Spec.fronts pre1) o1 := by
    rw [frontGet_fronts_snoc, if_pos hr]
  have h2 := frontGet_mono (pre1 ++ [o1]) mid r
  have e : pre1 ++ o1 :: mid = (pre1 ++ [o1]) ++ mid := by simp
  rw [e]; omega

/-- the front of a register is 0 or the layer of an earlier operation acting on the register -/
theorem front_is_layer (pre : List Op) (r : Reg) :
    Spec.frontGet (Spec.fronts pre) r = 0 ∨
    ∃ pre1 o1 mid, pre = pre1 ++ o1 :: mid ∧ r ∈ opRegs o1 ∧
      Spec.frontGet (Spec.fronts pre) r = Spec.layerOf (Spec.fronts pre1) o1 := by
  induction pre using List.reverseRec with
  | nil => left; simp [Spec.fronts, Spec.frontGet]
  | append_singleton pre op ih =>
    rw [frontGet_fronts_snoc]
    by_cases hr : r ∈ opRegs op
    · rw [if_pos hr]
      exact Or.inr ⟨pre, op, [], rfl, hr, rfl⟩
    · rw [if_neg hr]
      rcases ih with h0 | ⟨pre1, o1, mid, hp, hr1, hf⟩
      · exact Or.inl h0
      · exact Or.inr ⟨pre1, o1, mid ++ [op], by rw [hp]; simp, hr1, hf⟩

/-- **upper bound**: a dependency chain ending at an operation has at most as many operations as the operation's ASAP layer -/
theorem Chain.le_layer {seq : List Op} {pre : List Op} {o : Op} {k : Nat} (h : Chain seq pre o k) :
    k ≤ Spec.layerOf (Spec.fronts pre) o := by
  induction h with
  | single _ => unfold Spec.layerOf; omega
  | @snoc pre1 o1 mid o2 suf2 k _ _ hdep ih =>
    obtain ⟨r, hr1, hr2⟩ := hdep
    have h1 := layer_le_later_front pre1 o1 mid hr1
    have h2 := layerOf_ge (Spec.fronts (pre1 ++ o1 :: mid)) o2 hr2
    omega

/-- **attained**: every operation ends a dependency chain with exactly as many operations as its ASAP layer -/
theorem chain_of_layer (seq : List Op) : ∀ (n : Nat) (pre : List Op) (o : Op) (suf : List Op), pre.length ≤ n →
    seq = pre ++ o :: suf → Chain seq pre o (Spec.layerOf (Spec.fronts pre) o) := by
  intro n
  induction n with
  | zero =>
    intro pre o suf hlen hseq
    have : pre = [] := List.length_eq_zero_iff.mp (by omega)
    subst this
    have : Spec.layerOf (Spec.fronts []) o = 1 := by
      unfold Spec.layerOf
      obtain ⟨_, _, a3⟩ := foldl_max_nat (fun r => Spec.frontGet (Spec.fronts []) r) (Spec.opRegs o) 0
      rcases a3 with h0 | ⟨x, _, hx⟩
      · rw [h0]
      · rw [← hx]; simp [Spec.fronts, Spec.frontGet]
    rw [this]; exact Chain.single hseq
  | succ n ih =>
    intro pre o suf hlen hseq
    obtain ⟨_, _, a3⟩ := foldl_max_nat (fun r => Spec.frontGet (Spec.fronts pre) r) (Spec.opRegs o) 0
    have hlay : Spec.layerOf (Spec.fronts pre) o =
        1 + (Spec.opRegs o).foldl (fun m r => max m (Spec.frontGet (Spec.fronts pre) r)) 0 := rfl
    rcases a3 with h0 | ⟨r, hr, hrM⟩
    · rw [hlay, h0]; exact Chain.single hseq
    · rcases front_is_layer pre r with hz | ⟨pre1, o1, mid, hp, hr1, hf⟩
      · rw [hlay, ← hrM, hz]; exact Chain.single hseq
      · have hlen1 : pre1.length ≤ n := by
          have := congrArg List.length hp
          simp at this; omega
        have hseq1 : seq = pre1 ++ o1 :: (mid ++ o :: suf) := by rw [hseq, hp]; simp
        have c1 := ih pre1 o1 (mid ++ o :: suf) hlen1 hseq1
        have hseq2 : seq = (pre1 ++ o1 :: mid) ++ o :: suf := by rw [hseq, hp]
        have c2 := Chain.snoc c1 hseq2 ⟨r, hr1, hr⟩
        rw [hlay, ← hrM, hf, hp, Nat.add_comm]
        exact c2

/-- **the ASAP layer of an operation is the length of the longest dependency chain ending at it** -/
theorem layer_is_longest_chain {seq pre : List Op} {o : Op} {suf : List Op} (hseq : seq = pre ++ o :: suf) :
    Chain seq pre o (Spec.layerOf (Spec.fronts pre) o) ∧ ∀ k, Chain seq pre o k → k ≤ Spec.layerOf (Spec.fronts pre) o :=
  ⟨chain_of_layer seq pre.length pre o suf (Nat.le_refl _) hseq, fun _ h => h.le_layer⟩

theorem Chain.split {seq pre : List Op} {o : Op} {k : Nat} (h : Chain seq pre o k) : ∃ suf, seq = pre ++ o :: suf := by
  cases h with
  | single hs => exact ⟨_, hs⟩
  | snoc _ hs _ => exact ⟨_, hs⟩

/-- **`Spec.depth` is the length of the longest dependency chain of the operation list** -/
theorem depth_is_longest_chain (seq : List Op) :
    (∀ pre o k, Chain seq pre o k → k ≤ Spec.depth seq) ∧ (seq ≠ [] → ∃ pre o, Chain seq pre o (Spec.depth seq)) := by
  constructor
  · intro pre o k h
    obtain ⟨suf, hs⟩ := h.split
    have h1 := h.le_layer
    have h2 := layer_le_depth pre o suf
    rw [← hs] at h2
    omega
  · intro hne
    -- the maximum of the layers is attained at some split
    have key : ∀ (s : List Op), s ≠ [] → ∃ pre o suf, s = pre ++ o :: suf ∧ Spec.layerOf (Spec.fronts pre) o = Spec.depth s := by
      intro s
      induction s using List.reverseRec with
      | nil => intro h; exact absurd rfl h
      | append_singleton pre op ih =>
        intro _
        rw [spec_depth_append]
        by_cases hc : Spec.depth pre ≤ Spec.layerOf (Spec.fronts pre) op
        · exact ⟨pre, op, [], by simp, by omega⟩
        · have hpre : pre ≠ [] := by
            intro e; subst e
            simp [Spec.depth, Spec.layers] at hc
          obtain ⟨p1, o1, s1, hp, hl⟩ := ih hpre
          exact ⟨p1, o1, s1 ++ [op], by rw [hp]; simp, by rw [hl]; omega⟩
    obtain ⟨pre, o, suf, hs, hl⟩ := key seq hne
    exact ⟨pre, o, by rw [← hl]; exact (layer_is_longest_chain hs).1⟩

/-- **`Spec.regDepth seq r` is the length of the longest dependency chain ending at an operation acting on `r`** (0 if no
    operation acts on `r`) -/
theorem regDepth_is_longest_chain (seq : List Op) (r : Reg) :
    (∀ pre o k, Chain seq pre o k → r ∈ opRegs o → k ≤ Spec.regDepth seq r) ∧
    (Spec.regDepth seq r = 0 ∨ ∃ pre o, r ∈ opRegs o ∧ Chain seq pre o (Spec.regDepth seq r)) := by
  unfold Spec.regDepth
  constructor
  · intro pre o k h hr
    obtain ⟨suf, hs⟩ := h.split
    have h1 := h.le_layer
    have h2 := layer_le_later_front pre o suf hr
    rw [← hs] at h2
    omega
  · rcases front_is_layer seq r with h0 | ⟨pre1, o1, mid, hp, hr1, hf⟩
    · exact Or.inl h0
    · right
      exact ⟨pre1, o1, hr1, by rw [hf]; exact (layer_is_longest_chain hp).1⟩

end Metrics
end Graphiq
