/-
  Proofs/CommuteCircuit.lean — on a sane circuit whose measuring / two-qubit operations have the right number of quantum
  registers, every operation of the compile sequence is decodable by the stabilizer semantics (`decode`) and has distinct
  registers; hence `run_refines` applies to the circuit's compile sequences.
-/
import GraphiqModel.Proofs.CommuteRefine
namespace Graphiq.Commute
open Graphiq PRow Tab TabSpec
open Graphiq.Wire (Reg RegType SOp Item Kind G1 runSeq Circuit Op flatOp sopsOfOp)

/-- `MeasurementZ` acts on one quantum register, the two-qubit and classically controlled pair operations on two -/
def ArOp (op : Wire.Op) : Prop :=
  match op.kind with
  | .measZ => ∃ r, op.q = [r]
  | .cnot | .cz | .ccnot | .ccz | .mcr => ∃ a b, op.q = [a, b]
  | _ => True

/-- every operation of the circuit has the number of quantum registers of its class -/
def ArityOk (c : Circuit) : Prop := c.NodesSat ArOp

/-- the rewrites of C13 keep the arities (they only add base one-qubit gates and wrappers) -/
theorem Rewrites.arityOk {c c' : Circuit} (hgood : c.Good) (har : ArityOk c) (h : Wire.Rewrites c c') : ArityOk c' := by
  cases h with
  | copy => exact har
  | unwrap order => exact Wire.NodesSat_unwrapNodes c order har (fun _ _ => trivial)
  | removeIdentity order => exact Wire.NodesSat_removeIdentity c order har
  | group order => exact Wire.NodesSat_group c order har (fun _ _ _ => trivial)
  | assignNoise seq c' h =>
    obtain ⟨_, _, hnodes⟩ := Wire.flat_assignNoise c seq c' hgood.1 (Wire.good_opsOk hgood) h
    intro m op hm
    obtain ⟨n, hn⟩ := hnodes m op hm
    exact har n op hn

theorem arityOk_empty (ne np nc : Nat) : ArityOk (Circuit.empty ne np nc) := fun n op h => by simp [Circuit.empty] at h

theorem arityOk_addCore (c : Circuit) (op : Wire.Op) (h : ArityOk c) (hop : ArOp op) : ArityOk (c.addCore op) := by
  unfold ArityOk
  rw [Wire.addCore_eq]
  exact Wire.NodesSat_insertAt c op _ h hop

theorem regIx_of_valid (c : Circuit) (r : Reg) (hv : c.validReg r = true) (hty : r.ty ≠ .c) :
    (regIx c.ne c.np r).isSome = true := by
  obtain ⟨ty, idx⟩ := r
  cases ty
  · have : idx < c.ne := of_decide_eq_true hv
    simp [regIx, this]
  · have : idx < c.np := of_decide_eq_true hv
    simp [regIx, this]
  · exact absurd rfl hty

/-- every operation of a compile sequence of a sane circuit is decodable and has distinct registers -/
theorem sops_ok (c : Circuit) (hgood : c.Good) (har : ArityOk c) (seq : List Nat) :
    ∀ a, a ∈ c.sops seq → (decode c.ne c.np a).isSome = true ∧ a.regs.Nodup := by
  intro a ha
  simp only [Circuit.sops, List.mem_flatMap] at ha
  obtain ⟨n, _, hx⟩ := ha
  cases hop : c.node n with
  | none => simp [Circuit.sopsOfNode, hop] at hx
  | some op =>
    simp only [Circuit.sopsOfNode, hop, sopsOfOp, List.mem_map] at hx
    obtain ⟨it, hit, rfl⟩ := hx
    obtain ⟨_, hnd, _, har1⟩ := hgood.2 n op hop
    have hqnd : op.q.Nodup := (List.nodup_append.mp hnd).1
    refine ⟨?_, hqnd⟩
    have hval : ∀ r, r ∈ op.q → (regIx c.ne c.np r).isSome = true := fun r hr =>
      regIx_of_valid c r (hgood.1.qvalid n op hop r hr).1 (hgood.1.qvalid n op hop r hr).2
    have hA : ArOp op := har n op hop
    unfold ArOp at hA
    cases hk : op.kind with
    | wrapper gs =>
      obtain ⟨⟨r, hq⟩, _⟩ := har1 (by rw [hk]; rfl)
      simp only [flatOp, hk, List.mem_map] at hit
      obtain ⟨g, _, rfl⟩ := hit
      obtain ⟨q, hq'⟩ := Option.isSome_iff_exists.mp (hval r (by rw [hq]; simp))
      simp [decode, hq, hq']
    | base g0 =>
      obtain ⟨⟨r, hq⟩, _⟩ := har1 (by rw [hk]; rfl)
      simp only [flatOp, hk, List.mem_map] at hit
      obtain ⟨g, _, rfl⟩ := hit
      obtain ⟨q, hq'⟩ := Option.isSome_iff_exists.mp (hval r (by rw [hq]; simp))
      simp [decode, hq, hq']
    | measZ =>
      rw [hk] at hA
      obtain ⟨r, hq⟩ := hA
      simp only [flatOp, hk, List.mem_singleton] at hit
      subst hit
      obtain ⟨q, hq'⟩ := Option.isSome_iff_exists.mp (hval r (by rw [hq]; simp))
      simp [decode, hq, hq']
    | cnot =>
      rw [hk] at hA
      obtain ⟨r1, r2, hq⟩ := hA
      simp only [flatOp, hk, List.mem_singleton] at hit
      subst hit
      obtain ⟨q1, hq1⟩ := Option.isSome_iff_exists.mp (hval r1 (by rw [hq]; simp))
      obtain ⟨q2, hq2⟩ := Option.isSome_iff_exists.mp (hval r2 (by rw [hq]; simp))
      simp [decode, hq, hq1, hq2, pairPrims]
    | cz =>
      rw [hk] at hA
      obtain ⟨r1, r2, hq⟩ := hA
      simp only [flatOp, hk, List.mem_singleton] at hit
      subst hit
      obtain ⟨q1, hq1⟩ := Option.isSome_iff_exists.mp (hval r1 (by rw [hq]; simp))
      obtain ⟨q2, hq2⟩ := Option.isSome_iff_exists.mp (hval r2 (by rw [hq]; simp))
      simp [decode, hq, hq1, hq2, pairPrims]
    | ccnot =>
      rw [hk] at hA
      obtain ⟨r1, r2, hq⟩ := hA
      simp only [flatOp, hk, List.mem_singleton] at hit
      subst hit
      obtain ⟨q1, hq1⟩ := Option.isSome_iff_exists.mp (hval r1 (by rw [hq]; simp))
      obtain ⟨q2, hq2⟩ := Option.isSome_iff_exists.mp (hval r2 (by rw [hq]; simp))
      simp [decode, hq, hq1, hq2, pairPrims]
    | ccz =>
      rw [hk] at hA
      obtain ⟨r1, r2, hq⟩ := hA
      simp only [flatOp, hk, List.mem_singleton] at hit
      subst hit
      obtain ⟨q1, hq1⟩ := Option.isSome_iff_exists.mp (hval r1 (by rw [hq]; simp))
      obtain ⟨q2, hq2⟩ := Option.isSome_iff_exists.mp (hval r2 (by rw [hq]; simp))
      simp [decode, hq, hq1, hq2, pairPrims]
    | mcr =>
      rw [hk] at hA
      obtain ⟨r1, r2, hq⟩ := hA
      simp only [flatOp, hk, List.mem_singleton] at hit
      subst hit
      obtain ⟨q1, hq1⟩ := Option.isSome_iff_exists.mp (hval r1 (by rw [hq]; simp))
      obtain ⟨q2, hq2⟩ := Option.isSome_iff_exists.mp (hval r2 (by rw [hq]; simp))
      simp [decode, hq, hq1, hq2, pairPrims]

/-- the compile loop on a sane circuit along the node order `seq`, from `|0…0⟩`: the run of `stabRun` refines the group
    semantics on the outcome streams made of the outcomes it recorded -/
theorem stabRun_refines (c : Circuit) (hgood : c.Good) (har : ArityOk c) (seq : List Nat) (d : Det) (script : List Bool)
    (s' : RunState) (h : stabRun c.ne c.np d script ((c.sops seq).map toCOp) = some s') :
    TInv (c.ne + c.np) s'.t ∧ ∀ sc, runSeq (appRaw c.ne c.np) (c.sops seq)
        (some (gstate (Tab.ket0 (c.ne + c.np)), feed c.ne c.np (c.sops seq) s'.outs sc)) = some (gstate s'.t, sc) := by
  have hinit : TInv (c.ne + c.np) (Tab.ket0 (c.ne + c.np)) := by
    obtain ⟨t, hv, hr, hn, e⟩ := isTab_ket0 (c.ne + c.np)
    exact ⟨Tab.ket0_valid _, by
      intro i h1 _
      have h1' : c.ne + c.np ≤ i := h1
      have : ¬ i < c.ne + c.np := by omega
      simp [Tab.ket0, this, Zq], rfl⟩
  obtain ⟨ht', new, hnew, hrun⟩ := run_refines c.ne c.np d (c.sops seq) (sops_ok c hgood har seq)
    { t := Tab.ket0 (c.ne + c.np), writes := [], script := script, rand := [], outs := [] } s' hinit h
  simp only [List.nil_append] at hnew
  rw [hnew]
  exact ⟨ht', hrun⟩

end Graphiq.Commute
