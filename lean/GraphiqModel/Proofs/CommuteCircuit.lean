/-
  Proofs/CommuteCircuit.lean — on a sane circuit whose measuring / two-qubit operations have the right number of quantum
  registers, every operation of the compile sequence is decodable by the stabilizer semantics (`decode`) and has distinct
  registers; hence `run_refines` applies to the circuit's compile sequences.
-/
import GraphiqModel.Proofs.CommuteRefine
namespace Graphiq.Commute
open Graphiq PRow Tab TabSpec
open Graphiq.Wire (Reg RegType SOp Item Kind G1 runSeq Circuit Op flatOp sopsOfOp)

/-- `MeasurementZ` acts on one quantum register, the two-qubit and classically controlled pair operations on two -/
def ArOp (op : Wire.Op) : Prop :=
  match op.kind with
  | .measZ => ∃ r, op.q = [r]
  | .cnot | .cz | .ccnot | .ccz | .mcr => ∃ a b, op.q = [a, b]
  | _ => True

/-- every operation of the circuit has the number of quantum registers of its class -/
def ArityOk (c : Circuit) : Prop := c.NodesSat ArOp

/-- the rewrites of C13 keep the arities (they only add base one-qubit gates and wrappers) -/
theorem Rewrites.arityOk {c c' : Circuit} (hgood : c.Good) (har : ArityOk c) (h : Wire.Rewrites c c') : ArityOk c' := by
  cases h with
  | copy => exact har
  | unwrap order => exact Wire.NodesSat_unwrapNodes c order har (fun _ _ => trivial)
  | removeIdentity order => exact Wire.NodesSat_removeIdentity c order har
  | group order => exact Wire.NodesSat_group c order har (fun _ _ _ => trivial)
  | assignNoise seq c' h =>
    obtain ⟨_, _, hnodes⟩ := Wire.flat_assignNoise c seq c' hgood.1 (Wire.good_opsOk hgood) h
    intro m op hm
    obtain ⟨n, hn⟩ := hnodes m op hm
    exact har n op hn

theorem arityOk_empty (ne np nc : Nat) : ArityOk (Circuit.empty ne np nc) := fun n op h => by simp [Circuit.empty] at h

theorem arityOk_addCore (c : Circuit) (op : Wire.Op) (h : ArityOk c) (hop : ArOp op) : ArityOk (c.addCore op) := by
  unfold ArityOk
  rw [Wire.addCore_eq]
  exact Wire.NodesSat_insertAt c op _ h hop

theorem regIx_of_valid (c : Circuit) (r : Reg) (hv : c.validReg r = true) (hty : r.ty ≠ .c) :
    (regIx c.ne c.np r).isSome = true := by
  obtain ⟨ty, idx⟩ := r
  cases ty
  · have : idx < c.ne := of_decide_eq_true hv
    simp [regIx, this]
  · have : idx < c.np := of_decide_eq_true hv
    simp [regIx, this]
  · exact absurd rfl hty

/-- every operation of a compile sequence of a sane circuit is decodable and has distinct registers -/
theorem sops_ok (c : Circuit) (hgood : c.Good) (har : ArityOk c) (seq : List Nat) :
    ∀ a, a ∈ c.sops seq → (decode c.ne c.np a).isSome = true ∧ a.regs.Nodup := by
  intro a ha
  simp only [Circuit.sops, List.mem_flatMap] at ha
  obtain ⟨n, _, hx⟩ := ha
  cases hop : c.node n with
  | none => simp [Circuit.sopsOfNode, hop] at hx
  | some op =>
    simp only [Circuit.sopsOfNode, hop, sopsOfOp, List.mem_map] at hx
    obtain ⟨it, hit, rfl⟩ := hx
    obtain ⟨_, hnd, _, har1⟩ := hgood.2 n op hop
    have hqnd : op.q.Nodup := (List.nodup_append.mp hnd).1
    refine ⟨?_, hqnd⟩
    have hval : ∀ r, r ∈ op.q → (regIx c.ne c.np r).isSome = true := fun r hr =>
      regIx_of_valid c r (hgood.1.qvalid n op hop r hr).1 (hgood.1.qvalid n op hop r hr).2
    have hA : ArOp op := har n op hop
    unfold ArOp at hA
    cases hk : op.kind with
    | wrapper gs =>
      obtain ⟨⟨r, hq⟩, _⟩ := har1 (by rw [hk]; rfl)
      simp only [flatOp, hk, List.mem_map] at hit
      obtain ⟨g, _, rfl⟩ := hit
      obtain ⟨q, hq'⟩ := Option.isSome_iff_exists.mp (hval r (by rw [hq]; simp))
      simp [decode, hq, hq']
    | base g0 =>
      obtain ⟨⟨r, hq⟩, _⟩ := har1 (by rw [hk]; rfl)
      simp only [flatOp, hk, List.mem_map] at hit
      obtain ⟨g, _, rfl⟩ := hit
      obtain ⟨q, hq'⟩ := Option.isSome_iff_exists.mp (hval r (by rw [hq]; simp))
      simp [decode, hq, hq']
    | measZ =>
      rw [hk] at hA
      obtain ⟨r, hq⟩ := hA
      simp only [flatOp, hk, List.mem_singleton] at hit
      subst hit
      obtain ⟨q, hq'⟩ := Option.isSome_iff_exists.mp (hval r (by rw [hq]; simp))
      simp [decode, hq, hq']
    | cnot =>
      rw [hk] at hA
      obtain ⟨r1, r2, hq⟩ := hA
      simp only [flatOp, hk, List.mem_singleton] at hit
      subst hit
      obtain ⟨q1, hq1⟩ := Option.isSome_iff_exists.mp (hval r1 (by rw [hq]; simp))
      obtain ⟨q2, hq2⟩ := Option.isSome_iff_exists.mp (hval r2 (by rw [hq]; simp))
      simp [decode, hq, hq1, hq2, pairPrims]
    | cz =>
      rw [hk] at hA
      obtain ⟨r1, r2, hq⟩ := hA
      simp only [flatOp, hk, List.mem_singleton] at hit
      subst hit
      obtain ⟨q1, hq1⟩ := Option.isSome_iff_exists.mp (hval r1 (by rw [hq]; simp))
      obtain ⟨q2, hq2⟩ := Option.isSome_iff_exists.mp (hval r2 (by rw [hq]; simp))
      simp [decode, hq, hq1, hq2, pairPrims]
    | ccnot =>
      rw [hk] at hA
      obtain ⟨r1, r2, hq⟩ := hA
      simp only [flatOp, hk, List.mem_singleton] at hit
      subst hit
      obtain ⟨q1, hq1⟩ := Option.isSome_iff_exists.mp (hval r1 (by rw [hq]; simp))
      obtain ⟨q2, hq2⟩ := Option.isSome_iff_exists.mp (hval r2 (by rw [hq]; simp))
      simp [decode, hq, hq1, hq2, pairPrims]
    | ccz =>
      rw [hk] at hA
      obtain ⟨r1, r2, hq⟩ := hA
      simp only [flatOp, hk, List.mem_singleton] at hit
      subst hit
      obtain ⟨q1, hq1⟩ := Option.isSome_iff_exists.mp (hval r1 (by rw [hq]; simp))
      obtain ⟨q2, hq2⟩ := Option.isSome_iff_exists.mp (hval r2 (by rw [hq]; simp))
      simp [decode, hq, hq1, hq2, pairPrims]
    | mcr =>
      rw [hk] at hA
      obtain ⟨r1, r2, hq⟩ := hA
      simp only [flatOp, hk, List.mem_singleton] at hit
      subst hit
      obtain ⟨q1, hq1⟩ := Option.isSome_iff_exists.mp (hval r1 (by rw [hq]; simp))
      obtain ⟨q2, hq2⟩ := Option.isSome_iff_exists.mp (hval r2 (by rw [hq]; simp))
      simp [decode, hq, hq1, hq2, pairPrims]

/-- the compile loop on a sane circuit along the node order `seq`, from `|0…0⟩`: the run of `stabRun` refines the group
    semantics on the outcome streams made of the outcomes it recorded -/
theorem stabRun_refines (c : Circuit) (hgood : c.Good) (har : ArityOk c) (seq : List Nat) (d : Det) (script : List Bool)
    (s' : RunState) (h : stabRun c.ne c.np d script ((c.sops seq).map toCOp) = some s') :
    TInv (c.ne + c.np) s'.t ∧ ∀ sc, runSeq (appRaw c.ne c.np) (c.sops seq)
        (some (gstate (Tab.ket0 (c.ne + c.np)), feed c.ne c.np (c.sops seq) s'.outs sc)) = some (gstate s'.t, sc) := by
  have hinit : TInv (c.ne + c.np) (Tab.ket0 (c.ne + c.np)) := by
    obtain ⟨t, hv, hr, hn, e⟩ := isTab_ket0 (c.ne + c.np)
    exact ⟨Tab.ket0_valid _, by
      intro i h1 _
      have h1' : c.ne + c.np ≤ i := h1
      have : ¬ i < c.ne + c.np := by omega
      simp [Tab.ket0, this, Zq], rfl⟩
  obtain ⟨ht', new, hnew, hrun⟩ := run_refines c.ne c.np d (c.sops seq) (sops_ok c hgood har seq)
    { t := Tab.ket0 (c.ne + c.np), writes := [], script := script, rand := [], outs := [] } s' hinit h
  simp only [List.nil_append] at hnew
  rw [hnew]
  exact ⟨ht', hrun⟩

/-- boolean witness that a row is a stabilizer generator of the tableau (up to equality on the qubits' sites) -/
def rowCheck (t : Tab) (P : PRow) : Bool := (List.range t.n).any fun i => PRow.beqOn t.n (t.row (i + t.n)) P

theorem grp_of_rowCheck (t : Tab) (P : PRow) (h : rowCheck t P = true) : Grp t P := by
  unfold rowCheck at h
  rw [List.any_eq_true] at h
  obtain ⟨i, hi, hb⟩ := h
  exact Tab.InSpan.eqv _ _ (grp_gen t i (List.mem_range.mp hi)) (eqOn_check _ _ _ hb)

/-- boolean witness that a row is in the stabilizer group: it is a product of a sublist of the generators -/
def grpCheck (t : Tab) (P : PRow) : Bool :=
  (List.range (2 ^ t.n)).any fun m =>
    PRow.beqOn t.n (((List.range t.n).filter fun i => m.testBit i).foldl
      (fun acc i => PRow.mul t.n (t.row (i + t.n)) acc) PRow.one) P

theorem grp_foldl (t : Tab) (S : List Nat) (hS : ∀ i, i ∈ S → i < t.n) (acc : PRow) (hacc : Grp t acc) :
    Grp t (S.foldl (fun acc i => PRow.mul t.n (t.row (i + t.n)) acc) acc) := by
  induction S generalizing acc with
  | nil => exact hacc
  | cons i S ih =>
    rw [List.foldl_cons]
    exact ih (fun j hj => hS j (List.mem_cons_of_mem _ hj)) _
      (Tab.InSpan.mul _ _ (grp_gen t i (hS i List.mem_cons_self)) hacc)

theorem grp_of_grpCheck (t : Tab) (P : PRow) (h : grpCheck t P = true) : Grp t P := by
  unfold grpCheck at h
  rw [List.any_eq_true] at h
  obtain ⟨m, _, hb⟩ := h
  have hsub : ∀ i, i ∈ (List.range t.n).filter (fun i => m.testBit i) → i < t.n := fun i hi =>
    List.mem_range.mp (List.mem_filter.mp hi).1
  exact Tab.InSpan.eqv _ _ (grp_foldl t _ hsub PRow.one Tab.InSpan.one) (eqOn_check _ _ _ hb)

end Graphiq.Commute
