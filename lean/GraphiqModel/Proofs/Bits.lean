/-
  Proofs/Bits.lean — lemmas about parity folds and integer sums over `0..n-1`.
-/
import GraphiqModel.Model.Bits
namespace Graphiq

theorem parityTo_false (n : Nat) : parityTo n (fun _ => false) = false := by
  induction n with
  | zero => rfl
  | succ k ih => simp [parityTo, ih]

theorem parityTo_xor (n : Nat) (f g : Nat → Bool) :
    parityTo n (fun j => xor (f j) (g j)) = xor (parityTo n f) (parityTo n g) := by
  induction n with
  | zero => rfl
  | succ k ih =>
    simp only [parityTo, ih]
    cases parityTo k f <;> cases parityTo k g <;> cases f k <;> cases g k <;> rfl

theorem parityTo_congr (n : Nat) (f g : Nat → Bool) (h : ∀ j, j < n → f j = g j) :
    parityTo n f = parityTo n g := by
  induction n with
  | zero => rfl
  | succ k ih =>
    simp only [parityTo]
    rw [ih (fun j hj => h j (Nat.lt_succ_of_lt hj)), h k (Nat.lt_succ_self k)]

theorem parityTo_zero (n : Nat) (f : Nat → Bool) (h : ∀ j, j < n → f j = false) :
    parityTo n f = false := by
  rw [parityTo_congr n f (fun _ => false) h]; exact parityTo_false n

theorem parityTo_single (n q : Nat) (f : Nat → Bool) (hq : q < n) :
    parityTo n (fun j => decide (j = q) && f j) = f q := by
  induction n with
  | zero => omega
  | succ k ih =>
    simp only [parityTo]
    by_cases hk : k = q
    · subst hk
      have h0 : parityTo k (fun j => decide (j = k) && f j) = false := by
        apply parityTo_zero
        intro j hj
        have : j ≠ k := by omega
        simp [this]
      rw [h0]; simp
    · have hq' : q < k := by omega
      rw [ih hq']
      have hne : decide (k = q) = false := by simp [hk]
      rw [hne]; simp

/-- a parity whose summand vanishes away from the two sites `c ≠ t` -/
theorem parityTo_two (n c t : Nat) (f : Nat → Bool) (hc : c < n) (ht : t < n) (hct : c ≠ t)
    (h : ∀ j, j ≠ c → j ≠ t → f j = false) : parityTo n f = xor (f c) (f t) := by
  have e : ∀ j, j < n → f j = xor (decide (j = c) && f j) (decide (j = t) && f j) := by
    intro j _
    by_cases h1 : j = c
    · subst h1; simp [hct]
    · by_cases h2 : j = t
      · subst h2; simp [h1]
      · simp [h1, h2, h j h1 h2]
  rw [parityTo_congr n f _ e, parityTo_xor, parityTo_single n c f hc, parityTo_single n t f ht]

theorem sumTo_congr (n : Nat) (f g : Nat → Int) (h : ∀ j, j < n → f j = g j) : sumTo n f = sumTo n g := by
  induction n with
  | zero => rfl
  | succ k ih =>
    simp only [sumTo]
    rw [ih (fun j hj => h j (Nat.lt_succ_of_lt hj)), h k (Nat.lt_succ_self k)]

theorem sumTo_add (n : Nat) (f g : Nat → Int) : sumTo n (fun j => f j + g j) = sumTo n f + sumTo n g := by
  induction n with
  | zero => rfl
  | succ k ih => simp only [sumTo, ih]; omega

theorem sumTo_zero (n : Nat) : sumTo n (fun _ => 0) = 0 := by
  induction n with
  | zero => rfl
  | succ k ih => simp [sumTo, ih]

theorem sumTo_single (n q : Nat) (f : Nat → Int) (hq : q < n) (h : ∀ j, j ≠ q → f j = 0) :
    sumTo n f = f q := by
  induction n with
  | zero => omega
  | succ k ih =>
    simp only [sumTo]
    by_cases hk : k = q
    · subst hk
      have : sumTo k f = 0 := by
        rw [sumTo_congr k f (fun _ => 0) (fun j hj => h j (by omega))]; exact sumTo_zero k
      omega
    · rw [ih (by omega), h k hk]; omega

/-- two sums whose summands agree away from site `q` differ by the summands at `q` -/
theorem sumTo_diff_one (n q : Nat) (f f' : Nat → Int) (hq : q < n) (h : ∀ j, j ≠ q → f j = f' j) :
    sumTo n f - f q = sumTo n f' - f' q := by
  have e : sumTo n (fun j => f j + (-(f' j))) = f q + (-(f' q)) := by
    apply sumTo_single n q _ hq
    intro j hj; rw [h j hj]; omega
  rw [sumTo_add] at e
  have e2 : sumTo n (fun j => -(f' j)) = -(sumTo n f') := by
    clear e h
    induction n with
    | zero => rfl
    | succ k ih =>
      simp only [sumTo]
      by_cases hk : q < k
      · rw [ih hk]; omega
      · have : sumTo k (fun j => -(f' j)) = -(sumTo k f') := by
          clear ih hq hk
          induction k with
          | zero => rfl
          | succ m ih2 => simp only [sumTo, ih2]; omega
        rw [this]; omega
  rw [e2] at e; omega

theorem sumTo_neg (n : Nat) (f : Nat → Int) : sumTo n (fun j => -(f j)) = -(sumTo n f) := by
  induction n with
  | zero => rfl
  | succ k ih => simp only [sumTo, ih]; omega

/-- two sums whose summands agree away from the sites `c ≠ t` -/
theorem sumTo_diff_two (n c t : Nat) (f f' : Nat → Int) (hc : c < n) (ht : t < n) (hct : c ≠ t)
    (h : ∀ j, j ≠ c → j ≠ t → f j = f' j) :
    sumTo n f - f c - f t = sumTo n f' - f' c - f' t := by
  -- split off site c via an intermediate function that agrees with f' except at t
  let m : Nat → Int := fun j => if j = t then f j else f' j
  have h1 : sumTo n f - f c = sumTo n m - m c := by
    apply sumTo_diff_one n c f m hc
    intro j hj
    by_cases hjt : j = t
    · simp [m, hjt]
    · simp [m, hjt, h j hj hjt]
  have h2 : sumTo n m - m t = sumTo n f' - f' t := by
    apply sumTo_diff_one n t m f' ht
    intro j hj; simp [m, hj]
  have mc : m c = f' c := by simp [m, hct]
  have mt : m t = f t := by simp [m]
  omega

/-- inserting a zero summand at position `k ≤ n` does not change the parity -/
theorem parityTo_insert (n k : Nat) (f : Nat → Bool) (hk : k ≤ n) :
    parityTo (n + 1) (fun j => if j < k then f j else if j = k then false else f (j - 1)) = parityTo n f := by
  induction n with
  | zero =>
    have : k = 0 := by omega
    subst this
    simp [parityTo]
  | succ m ih =>
    by_cases hkm : k = m + 1
    · subst hkm
      simp only [parityTo]
      have e : parityTo m (fun j => if j < m + 1 then f j else if j = m + 1 then false else f (j - 1)) = parityTo m f := by
        apply parityTo_congr; intro j hj
        have : j < m + 1 := by omega
        simp [this]
      rw [e]
      simp
    · have hk' : k ≤ m := by omega
      have := ih hk'
      rw [parityTo, this]
      have h1 : ¬ (m + 1 < k) := by omega
      have h2 : m + 1 ≠ k := by omega
      simp [h1, h2, parityTo]

/-- deleting a zero summand at position `k < n + 1` does not change the parity -/
theorem parityTo_delete (n k : Nat) (f : Nat → Bool) (hk : k ≤ n) (hz : f k = false) :
    parityTo n (fun j => if j < k then f j else f (j + 1)) = parityTo (n + 1) f := by
  rw [← parityTo_insert n k (fun j => if j < k then f j else f (j + 1)) hk]
  apply parityTo_congr
  intro j hj
  by_cases h1 : j < k
  · simp [h1]
  · by_cases h2 : j = k
    · subst h2; simp [hz]
    · have h3 : ¬ (j - 1 < k) := by omega
      have h4 : j - 1 + 1 = j := by omega
      simp [h1, h2, h3, h4]

/-- exchanging two summands does not change the parity -/
theorem parityTo_swap (n a b : Nat) (f : Nat → Bool) (ha : a < n) (hb : b < n) :
    parityTo n (fun j => if j = a then f b else if j = b then f a else f j) = parityTo n f := by
  by_cases hab : a = b
  · subst hab
    apply parityTo_congr; intro j _
    by_cases h : j = a <;> simp [h]
  · have key : xor (parityTo n (fun j => if j = a then f b else if j = b then f a else f j)) (parityTo n f) = false := by
      rw [← parityTo_xor, parityTo_two n a b _ ha hb hab]
      · have hba : b ≠ a := Ne.symm hab
        simp [hba]
      · intro j h1 h2; simp [h1, h2]
    generalize parityTo n (fun j => if j = a then f b else if j = b then f a else f j) = u at key
    generalize parityTo n f = v at key
    cases u <;> cases v <;> simp at key ⊢

/-- parity over a concatenated range splits -/
theorem parityTo_add (a b : Nat) (f : Nat → Bool) :
    parityTo (a + b) f = xor (parityTo a f) (parityTo b (fun j => f (a + j))) := by
  induction b with
  | zero => simp [parityTo]
  | succ k ih =>
    show parityTo (a + k + 1) f = _
    simp only [parityTo, ih]
    cases parityTo a f <;> cases parityTo k (fun j => f (a + j)) <;> cases f (a + k) <;> rfl

end Graphiq
