/-
  Proofs/CompareRepairLin.lean — completeness of the comparison `remove_redundant_circuits` makes (after `unwrap_nodes` and
  `remove_identity`): circuits whose executed operations are renamings of each other register by register are reported
  isomorphic.  The normalised DAG is not a built DAG (node ids are no longer the operation indices), so the argument of
  `renamed_reordered_iso` is redone for any circuit DAG with a linear order of its operation nodes (`NInv.lin`, carried
  through the normalisation): the nodes in that order are numbered, the operations in that order form a list `L` with the
  same sequence on every register as the flattened circuit, and an index reordering of `L` is a relabelling of the nodes.
-/
import GraphiqModel.Proofs.CompareRepairExact
namespace Graphiq.Compare
open Graphiq Graphiq.Export

/-! ## numbering the operation nodes along the linear order -/

/-- the operation at a node (a default at input and output nodes) -/
def opAt (g : MG) (n : Nd) : Op :=
  match g.opOf n with
  | some (.gate o) => o
  | _ => .one .I ⟨.e, 0⟩

theorem opAt_gate (g : MG) (n : Nd) (o : Op) (h : g.opOf n = some (.gate o)) : opAt g n = o := by
  unfold opAt; rw [h]

/-- the node with number `k` (numbers start at 1, like the node ids of a built DAG) -/
def nameOf (ns : List Nd) : Nd → Nd
  | .op k => ns.getD (k - 1) (.op 0)
  | n => n

theorem getD_eq_getElem' (l : List Nd) (d : Nd) (i : Nat) (h : i < l.length) : l.getD i d = l[i] :=
  (List.getElem_eq_getD d).symm

theorem bodyFrom_nameOf (f : Nd → Op) (w : Wire) : ∀ (ns pre : List Nd),
    (bodyFrom pre.length (ns.map f) w).map (nameOf (pre ++ ns)) = ns.filter (fun n => decide (w ∈ opWires (f n))) := by
  intro ns
  induction ns with
  | nil => intro pre; rfl
  | cons a rest ih =>
    intro pre
    rw [List.map_cons, bodyFrom_cons, List.map_append, List.filter_cons]
    have ih' := ih (pre ++ [a])
    rw [List.length_append, List.length_singleton, List.append_assoc, List.singleton_append] at ih'
    rw [ih']
    by_cases h : w ∈ opWires (f a)
    · simp [h, nameOf]
    · simp [h]

/-- a circuit DAG together with a numbering `ns` of its operation nodes along which every register path runs in order -/
structure LinRep (W : List Wire) (g : MG) (body : Wire → List Nd) (ns : List Nd) : Prop where
  ninv : NInv W g body
  nodup : ns.Nodup
  gate : ∀ n ∈ ns, g.opOf n = some (.gate (opAt g n))
  all : ∀ n o, g.opOf n = some (.gate o) → n ∈ ns
  bodyEq : ∀ w ∈ W, body w = (bodyOf (ns.map (opAt g)) w).map (nameOf ns)
  ops : ∀ w ∈ W, (ns.map (opAt g)).filter (touches w) = wireOps g body w

theorem opWires_ne_nil (o : Op) : opWires o ≠ [] := by
  unfold opWires
  have := qRegs_ne_nil o
  cases hq : o.qRegs with
  | nil => exact absurd hq this
  | cons _ _ => simp

theorem exists_wire (o : Op) : ∃ w, w ∈ opWires o := by
  cases hh : opWires o with
  | nil => exact absurd hh (opWires_ne_nil o)
  | cons w _ => exact ⟨w, by simp⟩

theorem filterMap_gateAt_eq_map (g : MG) (l : List Nd) (h : ∀ n ∈ l, g.opOf n = some (.gate (opAt g n))) :
    l.filterMap (gateAt g) = l.map (opAt g) := by
  induction l with
  | nil => rfl
  | cons a rest ih =>
    have ha : gateAt g a = some (opAt g a) := by unfold gateAt; rw [h a (by simp)]
    rw [List.filterMap_cons, ha, List.map_cons, ih (fun n hn => h n (List.mem_cons_of_mem _ hn))]

theorem NInv.linRep {W : List Wire} {g : MG} {body : Wire → List Nd} (h : NInv W g body) : ∃ ns, LinRep W g body ns := by
  obtain ⟨ns, hnd, hmem, hfil⟩ := h.lin
  have hgate : ∀ n ∈ ns, g.opOf n = some (.gate (opAt g n)) := by
    intro n hn
    obtain ⟨w, hw, hnw⟩ := hmem n hn
    obtain ⟨_, o, _, ho, _⟩ := h.rep.bodyOp w hw n hnw
    rw [opAt_gate g n o ho]; exact ho
  -- membership in a register path is "the operation touches the register"
  have hiff : ∀ w ∈ W, ∀ n ∈ ns, (n ∈ body w ↔ w ∈ opWires (opAt g n)) := by
    intro w hw n hn
    constructor
    · intro hnw
      obtain ⟨_, o, _, ho, hwo⟩ := h.rep.bodyOp w hw n hnw
      rw [opAt_gate g n o ho]; exact hwo
    · intro hwo
      exact (h.onPath n _ (hgate n hn) w hwo).2
  have hbody : ∀ w ∈ W, body w = ns.filter (fun n => decide (w ∈ opWires (opAt g n))) := by
    intro w hw
    conv => lhs; rw [hfil w hw]
    apply List.filter_congr
    intro n hn
    apply Bool.eq_iff_iff.2
    simp only [decide_eq_true_eq]
    exact hiff w hw n hn
  refine ⟨ns, h, hnd, hgate, ?_, ?_, ?_⟩
  · intro n o ho
    obtain ⟨w, hw⟩ := exists_wire o
    obtain ⟨hwW, hnw⟩ := h.onPath n o ho w hw
    rw [hfil w hwW] at hnw
    exact (List.mem_filter.1 hnw).1
  · intro w hw
    have := bodyFrom_nameOf (opAt g) w ns []
    simp only [List.length_nil, List.nil_append] at this
    rw [bodyOf_eq_bodyFrom, this]
    exact hbody w hw
  · intro w hw
    unfold wireOps
    rw [hbody w hw, List.filter_map]
    have e1 : (touches w ∘ opAt g) = fun n => decide (w ∈ opWires (opAt g n)) := by
      funext n; simp [touches]
    rw [e1]
    symm
    apply filterMap_gateAt_eq_map
    intro n hn
    exact hgate n (List.mem_filter.1 hn).1

/-! ## an index reordering is a relabelling of the numbered nodes -/

/-- the node map of a renaming `π` of the registers and a reordering `σ` of the numbered operation nodes -/
def nodeRenL (π : Wire → Wire) (σ : Nat → Nat) (ns1 ns2 : List Nd) (n : Nd) : Nd :=
  if n ∈ ns1 then ns2.getD (σ (ns1.idxOf n)) (.op 0) else nodeRen π n

theorem LinRep.not_io {W : List Wire} {g : MG} {body : Wire → List Nd} {ns : List Nd} (l : LinRep W g body ns)
    (n : Nd) (hn : n ∈ ns) (w : Wire) (hw : w ∈ W) : n ≠ .inp w ∧ n ≠ .out w := by
  have hg := l.gate n hn
  constructor
  · rintro rfl
    rw [l.ninv.rep.inpOp w hw] at hg; cases hg
  · rintro rfl
    rw [l.ninv.rep.outOp w hw] at hg; cases hg

/-- every node is the input or output node of a register, or a numbered operation node -/
theorem LinRep.cases {W : List Wire} {g : MG} {body : Wire → List Nd} {ns : List Nd} (l : LinRep W g body ns)
    (n : Nd) (hn : n ∈ g.nodes.map (·.1)) :
    (∃ w ∈ W, n = .inp w ∧ g.opOf n = some (.input w)) ∨ (∃ w ∈ W, n = .out w ∧ g.opOf n = some (.output w)) ∨
    (∃ i, ∃ hi : i < ns.length, n = ns[i]) := by
  obtain ⟨p, hp, rfl⟩ := List.mem_map.1 hn
  have hop := opOf_of_mem g l.ninv.names p hp
  cases hp2 : p.2 with
  | input w =>
    rw [hp2] at hop
    obtain ⟨a, b⟩ := l.ninv.rep.kindIn _ _ hop
    exact Or.inl ⟨w, b, a, hop⟩
  | output w =>
    rw [hp2] at hop
    obtain ⟨a, b⟩ := l.ninv.rep.kindOut _ _ hop
    exact Or.inr (Or.inl ⟨w, b, a, hop⟩)
  | gate o =>
    rw [hp2] at hop
    obtain ⟨i, hi, h⟩ := List.getElem_of_mem (l.all _ _ hop)
    exact Or.inr (Or.inr ⟨i, hi, h.symm⟩)

/-- **two circuit DAGs with numbered operation nodes whose operation lists are a renaming and an order-preserving
    reordering of each other are isomorphic for the repaired check** -/
theorem lin_iso (W : List Wire) (g1 g2 : MG) (B1 B2 : Wire → List Nd) (ns1 ns2 : List Nd)
    (l1 : LinRep W g1 B1 ns1) (l2 : LinRep W g2 B2 ns2) (hcount : g1.nodes.length = g2.nodes.length)
    (π : Wire → Wire) (σ : Nat → Nat) (hπ : IsRenaming W π) (hsurj : ∀ w2 ∈ W, ∃ w ∈ W, π w = w2)
    (hre : Reord ((ns1.map (opAt g1)).map (renOp π)) (ns2.map (opAt g2)) σ) :
    IsoFacts2 g1.addControlTarget2 g2.addControlTarget2 (nodeRenL π σ ns1 ns2) := by
  have r1 := l1.ninv.rep
  have r2 := l2.ninv.rep
  have hlen1 : ((ns1.map (opAt g1)).map (renOp π)).length = ns1.length := by simp
  have hlen2 : (ns2.map (opAt g2)).length = ns2.length := by simp
  have hσlt : ∀ i, i < ns1.length → σ i < ns2.length := fun i hi => by
    have := hre.lt i (by rw [hlen1]; exact hi)
    rw [hlen2] at this; exact this
  have hσget : ∀ i (hi : i < ns1.length), opAt g2 (ns2[σ i]'(hσlt i hi)) = renOp π (opAt g1 ns1[i]) := by
    intro i hi
    have := hre.get i (by rw [hlen1]; exact hi)
    rw [List.getElem?_eq_getElem (by rw [hlen2]; exact hσlt i hi), List.getElem?_eq_getElem (by rw [hlen1]; exact hi)] at this
    simpa using this
  -- the node map on the three kinds of nodes
  have hφin : ∀ w ∈ W, nodeRenL π σ ns1 ns2 (.inp w) = .inp (π w) := by
    intro w hw
    unfold nodeRenL
    rw [if_neg (fun hm => (l1.not_io _ hm w hw).1 rfl)]; rfl
  have hφout : ∀ w ∈ W, nodeRenL π σ ns1 ns2 (.out w) = .out (π w) := by
    intro w hw
    unfold nodeRenL
    rw [if_neg (fun hm => (l1.not_io _ hm w hw).2 rfl)]; rfl
  have hφop : ∀ i (hi : i < ns1.length), nodeRenL π σ ns1 ns2 ns1[i] = ns2[σ i]'(hσlt i hi) := by
    intro i hi
    unfold nodeRenL
    rw [if_pos (List.getElem_mem hi), l1.nodup.idxOf_getElem i hi, getD_eq_getElem' _ _ _ (hσlt i hi)]
  have hvalid : ∀ o ∈ ns1.map (opAt g1), ∀ w ∈ opWires o, w ∈ W := by
    intro o ho w hw
    obtain ⟨n, hn, rfl⟩ := List.mem_map.1 ho
    exact (l1.ninv.onPath n _ (l1.gate n hn) w hw).1
  rw [addControlTarget2_eq g1 W B1 r1, addControlTarget2_eq g2 W B2 r2]
  apply iso2_of_paths g1.labelled g2.labelled W W B1 B2 r1.labelled r2.labelled (tripNodup_labelled g1 l1.ninv.trips)
    (tripNodup_labelled g2 l2.ninv.trips) (nodeRenL π σ ns1 ns2) π hπ.into hsurj hπ.inj
  · show (g1.nodes.map (·.1)).length = (g2.nodes.map (·.1)).length
    rw [List.length_map, List.length_map, hcount]
  · intro a ha b hb hab
    rcases l1.cases a ha with ⟨w, hw, rfl, _⟩ | ⟨w, hw, rfl, _⟩ | ⟨i, hi, rfl⟩ <;>
      rcases l1.cases b hb with ⟨w', hw', rfl, _⟩ | ⟨w', hw', rfl, _⟩ | ⟨j, hj, rfl⟩
    · rw [hφin w hw, hφin w' hw'] at hab
      injection hab with hab
      rw [hπ.inj w hw w' hw' hab]
    · rw [hφin w hw, hφout w' hw'] at hab; cases hab
    · rw [hφin w hw, hφop j hj] at hab
      exact absurd hab.symm (l2.not_io _ (List.getElem_mem _) _ (hπ.into w hw)).1
    · rw [hφout w hw, hφin w' hw'] at hab; cases hab
    · rw [hφout w hw, hφout w' hw'] at hab
      injection hab with hab
      rw [hπ.inj w hw w' hw' hab]
    · rw [hφout w hw, hφop j hj] at hab
      exact absurd hab.symm (l2.not_io _ (List.getElem_mem _) _ (hπ.into w hw)).2
    · rw [hφop i hi, hφin w' hw'] at hab
      exact absurd hab (l2.not_io _ (List.getElem_mem _) _ (hπ.into w' hw')).1
    · rw [hφop i hi, hφout w' hw'] at hab
      exact absurd hab (l2.not_io _ (List.getElem_mem _) _ (hπ.into w' hw')).2
    · rw [hφop i hi, hφop j hj] at hab
      have hσ : σ i = σ j := (List.Nodup.getElem_inj_iff l2.nodup).1 hab
      have : i = j := hre.inj i j (by rw [hlen1]; exact hi) (by rw [hlen1]; exact hj) hσ
      subst this; rfl
  · exact l1.ninv.names
  · intro n hn
    show nodeRenL π σ ns1 ns2 n ∈ g2.nodes.map (·.1)
    rcases l1.cases n hn with ⟨w, hw, rfl, _⟩ | ⟨w, hw, rfl, _⟩ | ⟨i, hi, rfl⟩
    · rw [hφin w hw]; exact opOf_some_mem g2 _ _ (r2.inpOp _ (hπ.into w hw))
    · rw [hφout w hw]; exact opOf_some_mem g2 _ _ (r2.outOp _ (hπ.into w hw))
    · rw [hφop i hi]; exact opOf_some_mem g2 _ _ (l2.gate _ (List.getElem_mem _))
  · intro n hn
    show ∃ a b, g1.opOf n = some a ∧ g2.opOf (nodeRenL π σ ns1 ns2 n) = some b ∧ nodeMatch a b = true
    rcases l1.cases n hn with ⟨w, hw, rfl, ho⟩ | ⟨w, hw, rfl, ho⟩ | ⟨i, hi, rfl⟩
    · rw [hφin w hw]
      refine ⟨_, _, ho, r2.inpOp _ (hπ.into w hw), ?_⟩
      have := hπ.ty w hw
      cases w with | mk t k => cases hπw : π ⟨t, k⟩ with | mk t' k' =>
      rw [hπw] at this
      simp only at this
      subst this
      cases t' <;> simp [nodeMatch]
    · rw [hφout w hw]
      refine ⟨_, _, ho, r2.outOp _ (hπ.into w hw), ?_⟩
      have := hπ.ty w hw
      cases w with | mk t k => cases hπw : π ⟨t, k⟩ with | mk t' k' =>
      rw [hπw] at this
      simp only at this
      subst this
      cases t' <;> simp [nodeMatch]
    · rw [hφop i hi]
      refine ⟨_, _, l1.gate _ (List.getElem_mem _), l2.gate _ (List.getElem_mem _), ?_⟩
      rw [hσget i hi]
      exact nodeMatch_renOp π _
  · intro w hw
    unfold pathOf
    simp only [List.map_cons, List.map_append, List.map_nil, hφin w hw, hφout w hw]
    congr 2
    rw [l2.bodyEq (π w) (hπ.into w hw), l1.bodyEq w hw, hre.body (π w), bodyOf_map_renOp W π hπ _ hvalid w hw,
      List.map_map, List.map_map]
    apply List.map_congr_left
    intro n hn
    obtain ⟨i, hi, rfl⟩ := mem_bodyOf _ w n hn
    rw [List.length_map] at hi
    simp only [Function.comp, opShift, nameOf, Nat.add_sub_cancel]
    rw [getD_eq_getElem' _ _ _ hi, getD_eq_getElem' _ _ _ (hσlt i hi), hφop i hi]
  · intro w hw n hn
    show role (g2.opOf (nodeRenL π σ ns1 ns2 n)) (π w) = role (g1.opOf n) w
    rcases (mem_pathOf B1 w n).1 hn with rfl | hb | rfl
    · rw [hφin w hw, r1.inpOp w hw, r2.inpOp _ (hπ.into w hw)]; rfl
    · rw [l1.bodyEq w hw] at hb
      obtain ⟨m, hm, rfl⟩ := List.mem_map.1 hb
      obtain ⟨i, hi, rfl⟩ := mem_bodyOf _ w m hm
      rw [List.length_map] at hi
      simp only [nameOf, Nat.add_sub_cancel]
      rw [getD_eq_getElem' _ _ _ hi, hφop i hi, l1.gate _ (List.getElem_mem _), l2.gate _ (List.getElem_mem _), hσget i hi]
      exact role_renOp W π hπ _ (fun w' hw' => (l1.ninv.onPath _ _ (l1.gate _ (List.getElem_mem hi)) w' hw').1) w hw
    · rw [hφout w hw, r1.outOp w hw, r2.outOp _ (hπ.into w hw)]; rfl

/-! ## completeness of the comparison after normalisation -/

theorem ren_filter (W : List Wire) (π : Wire → Wire) (hπ : IsRenaming W π) (l : List Op)
    (hl : ∀ o ∈ l, ∀ w ∈ opWires o, w ∈ W) (w0 : Wire) (hw0 : w0 ∈ W) :
    (l.map (renOp π)).filter (touches (π w0)) = (l.filter (touches w0)).map (renOp π) := by
  rw [List.filter_map]
  congr 1
  apply List.filter_congr
  intro o ho
  simp only [Function.comp, touches, List.contains_eq_mem]
  apply Bool.eq_iff_iff.2
  simp only [decide_eq_true_eq]
  exact mem_opWires_renOp _ π hπ o (hl o ho) w0 hw0

theorem filter_touches_outside (W : List Wire) (l : List Op) (hl : ∀ o ∈ l, ∀ w ∈ opWires o, w ∈ W) (w : Wire) (hw : w ∉ W) :
    l.filter (touches w) = [] := by
  rw [List.filter_eq_nil_iff]
  intro o ho ht
  unfold touches at ht
  simp only [List.contains_eq_mem, decide_eq_true_eq] at ht
  exact hw (hl o ho w ht)

theorem length_eq_of_touches (l1 l2 : List Op) (h : ∀ w, l1.filter (touches w) = l2.filter (touches w)) :
    l1.length = l2.length := by
  apply length_eq_of_wires l1 l2 (fun o _ => qRegs_ne_nil o) (fun o _ => qRegs_ne_nil o)
  intro q
  have e : onReg q = touches (Wire.ofQ q) := funext fun o => (touches_ofQ q o).symm
  rw [e]; exact h _

/-- the operations along the numbering of the normalised DAG have, on every register, the sequence of the flattened
    circuit -/
theorem LinRep.filter_eq {W : List Wire} {g : MG} {body : Wire → List Nd} {ns : List Nd} (l : LinRep W g body ns)
    (S : List Op) (hS : ∀ o ∈ S, ∀ w ∈ opWires o, w ∈ W) (hw : ∀ w ∈ W, wireOps g body w = S.filter (touches w)) :
    ∀ w, (ns.map (opAt g)).filter (touches w) = S.filter (touches w) := by
  intro w
  by_cases hwW : w ∈ W
  · rw [l.ops w hwW, hw w hwW]
  · rw [filter_touches_outside W S hS w hwW, filter_touches_outside W _ _ w hwW]
    intro o ho w' hw'
    obtain ⟨n, hn, rfl⟩ := List.mem_map.1 ho
    exact (l.ninv.onPath n _ (l.gate n hn) w' hw').1

/-- **completeness of the comparison `remove_redundant_circuits` makes**: circuits whose executed operations (wrappers
    expanded, identities dropped) are renamings of each other register by register are reported isomorphic -/
theorem isoNorm2_complete (c1 c2 : Circuit) (h1 : ∀ o ∈ c1.ops, OpOK (wiresN c1.ne c1.np c1.nc) o)
    (h2 : ∀ o ∈ c2.ops, OpOK (wiresN c2.ne c2.np c2.nc) o) (π : Wire → Wire) (h : RenamedBy π (flatC c1) (flatC c2)) :
    isoNormalised2 c1 c2 = .ok true := by
  have hW : wiresN c2.ne c2.np c2.nc = wiresN c1.ne c1.np c1.nc := by
    have a : c1.ne = c2.ne := h.ne
    have b : c1.np = c2.np := h.np
    have c : c1.nc = c2.nc := h.nc
    rw [a, b, c]
  have hπ : IsRenaming (wiresN c1.ne c1.np c1.nc) π := h.isRenaming
  have hsurj : ∀ w2 ∈ wiresN c1.ne c1.np c1.nc, ∃ w ∈ wiresN c1.ne c1.np c1.nc, π w = w2 := h.surj
  obtain ⟨g1, hb1, i1, _⟩ := build_rep c1 h1
  obtain ⟨g2, hb2, i2, _⟩ := build_rep c2 h2
  rw [hW] at i2 h2
  obtain ⟨B1, n1, hw1, hc1⟩ := normalise_nInv _ g1 c1.ops i1
  obtain ⟨B2, n2, hw2, hc2⟩ := normalise_nInv _ g2 c2.ops i2
  obtain ⟨ns1, l1⟩ := n1.linRep
  obtain ⟨ns2, l2⟩ := n2.linRep
  have hf1 : ∀ o ∈ flat c1.ops, ∀ w ∈ opWires o, w ∈ wiresN c1.ne c1.np c1.nc := fun o ho => (flat_opOK _ _ h1 o ho).1
  have hf2 : ∀ o ∈ flat c2.ops, ∀ w ∈ opWires o, w ∈ wiresN c1.ne c1.np c1.nc := fun o ho => (flat_opOK _ _ h2 o ho).1
  have e1 := l1.filter_eq (flat c1.ops) hf1 hw1
  have e2 := l2.filter_eq (flat c2.ops) hf2 hw2
  have hL1 : ∀ o ∈ ns1.map (opAt g1.normalise), OpOK (wiresN c1.ne c1.np c1.nc) o := by
    intro o ho
    obtain ⟨n, hn, rfl⟩ := List.mem_map.1 ho
    exact ⟨fun w hw => (n1.onPath n _ (l1.gate n hn) w hw).1, n1.rep.wiresNodup n _ (l1.gate n hn)⟩
  -- on every register the renamed operation list of the first DAG is the operation list of the second
  have hall : ∀ w, ((ns1.map (opAt g1.normalise)).map (renOp π)).filter (touches w)
      = (ns2.map (opAt g2.normalise)).filter (touches w) := by
    intro w
    by_cases hwW : w ∈ wiresN c1.ne c1.np c1.nc
    · obtain ⟨w0, hw0, rfl⟩ := hsurj w hwW
      rw [ren_filter _ π hπ _ (fun o ho => (hL1 o ho).1) w0 hw0, e1 w0, e2 (π w0)]
      exact (h.wires w0 hw0).symm
    · rw [e2 w, filter_touches_outside _ _ hf2 w hwW, filter_touches_outside _ _ _ w hwW]
      intro o ho
      obtain ⟨o', ho', rfl⟩ := List.mem_map.1 ho
      exact (opOK_renOp _ π hπ o' (hL1 o' ho')).1
  obtain ⟨σ, hre⟩ := reord_of_swapW (swapW_of_wires _ _ (fun o _ => opWires_ne_nil o) hall (length_eq_of_touches _ _ hall))
  have hcount : g1.normalise.nodes.length = g2.normalise.nodes.length := by
    rw [hc1, hc2, ← length_eq_of_touches _ _ e1, ← length_eq_of_touches _ _ e2]
    have := hre.len
    simp only [List.length_map] at this ⊢
    rw [this]
  have hfacts := lin_iso _ g1.normalise g2.normalise B1 B2 ns1 ns2 l1 l2 hcount π σ hπ hsurj hre
  unfold isoNormalised2
  rw [hb1, hb2]
  simp only [bind, Except.bind, pure, Except.pure]
  rw [isoGraphs2_complete g1.normalise g2.normalise _ _ B1 B2 n1.rep n2.rep n1.names _ hfacts]

/-- **the comparison after normalisation decides exactly "the executed operations are equal up to a renaming of the
    registers within each type"** -/
theorem isoNorm2_exact (c1 c2 : Circuit) (h1 : ∀ o ∈ c1.ops, OpOK (wiresN c1.ne c1.np c1.nc) o)
    (h2 : ∀ o ∈ c2.ops, OpOK (wiresN c2.ne c2.np c2.nc) o) :
    isoNormalised2 c1 c2 = .ok true ↔ ∃ π, RenamedBy π (flatC c1) (flatC c2) :=
  ⟨isoNorm2_sound c1 c2 h1 h2, fun ⟨π, h⟩ => isoNorm2_complete c1 c2 h1 h2 π h⟩

/-! ## `remove_redundant_circuits` keeps no two equal circuits -/

theorem removeRedundantWith_fold_pairwise {α : Type} (eq : α → α → Bool) (l : List α) (kept0 : List α)
    (h0 : kept0.Pairwise (fun a b => eq a b = false)) :
    (l.foldl (fun kept x => if kept.any (fun k => eq k x) then kept else kept ++ [x]) kept0).Pairwise
      (fun a b => eq a b = false) := by
  induction l generalizing kept0 with
  | nil => exact h0
  | cons x rest ih =>
    simp only [List.foldl_cons]
    by_cases hx : kept0.any (fun k => eq k x) = true
    · simp only [hx, if_true]; exact ih kept0 h0
    · simp only [hx]
      apply ih
      simp only [Bool.false_eq_true, if_false]
      rw [List.pairwise_append]
      refine ⟨h0, List.pairwise_singleton _ _, ?_⟩
      intro a ha b hb
      rw [List.mem_singleton] at hb
      subst hb
      have := hx
      simp only [List.any_eq_true, not_exists, not_and, Bool.not_eq_true] at this
      exact this a ha

/-- for any comparison function: of two kept circuits, the earlier one does not compare equal to the later one -/
theorem removeRedundantWith_pairwise {α : Type} (eq : α → α → Bool) (l : List α) :
    (removeRedundantWith eq l).Pairwise (fun a b => eq a b = false) :=
  removeRedundantWith_fold_pairwise eq l [] List.Pairwise.nil

/-- **`remove_redundant_circuits` with the repaired comparison keeps no two circuits that are renamings of each other**
    (on their executed operations) -/
theorem removeRedundant2_minimal (l : List Circuit) (hl : ∀ c ∈ l, ∀ o ∈ c.ops, OpOK (wiresN c.ne c.np c.nc) o) :
    (removeRedundant2 l).Pairwise (fun a b => ¬ ∃ π, RenamedBy π (flatC a) (flatC b)) := by
  have hsub : (removeRedundant2 l).Sublist l := (removeRedundantWith_spec _ l).1
  refine List.Pairwise.imp_of_mem ?_ (removeRedundantWith_pairwise _ l)
  intro a b ha hb hab
  rintro ⟨π, hπ⟩
  have := isoNorm2_complete a b (hl a (hsub.subset ha)) (hl b (hsub.subset hb)) π hπ
  rw [this] at hab
  cases hab

end Graphiq.Compare
