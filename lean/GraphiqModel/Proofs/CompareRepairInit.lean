/-
  Proofs/CompareRepairInit.lean — `MG.init` (the empty `CircuitDAG(n_emitter, n_photon, n_classical)`) is a family of
  two-node register paths, and `MG.build c` keeps the invariant: the graph is a family of register paths (`Rep0`) and the
  operations met along the path of register `w` are the operations of `c` that touch `w`, in order (`build_rep`).
-/
import GraphiqModel.Proofs.CompareRepairBuild
namespace Graphiq.Compare
open Graphiq Graphiq.Export

theorem opOf_append (g g' : MG) (extra : List (Nd × NOp)) (h : g'.nodes = g.nodes ++ extra) (n : Nd) :
    g'.opOf n = (g.opOf n).or ((extra.find? (fun p => p.1 == n)).map (·.2)) := by
  unfold MG.opOf
  rw [h, List.find?_append]
  cases g.nodes.find? (fun p => p.1 == n) <;> simp

theorem opOf_append_old (g g' : MG) (extra : List (Nd × NOp)) (h : g'.nodes = g.nodes ++ extra) (n : Nd)
    (hn : n ∈ g.nodes.map (·.1)) : g'.opOf n = g.opOf n := by
  rw [opOf_append g g' extra h]
  cases ho : g.opOf n with
  | some o => rfl
  | none =>
    exfalso
    unfold MG.opOf at ho
    obtain ⟨p, hp, rfl⟩ := List.mem_map.1 hn
    cases hf : g.nodes.find? (fun q => q.1 == p.1) with
    | none => have := List.find?_eq_none.1 hf p hp; simp at this
    | some q => rw [hf] at ho; cases ho

theorem hasNode_iff (g : MG) (n : Nd) : g.hasNode n = true ↔ n ∈ g.nodes.map (·.1) := by
  unfold MG.hasNode
  simp only [List.any_eq_true, beq_iff_eq, List.mem_map]

theorem nOf_setN (g : MG) (t t' : RT) (k : Nat) : (g.setN t k).nOf t' = if t' = t then k else g.nOf t' := by
  cases t <;> cases t' <;> simp [MG.setN, MG.nOf]

theorem nodes_setN (g : MG) (t : RT) (k : Nat) : (g.setN t k).nodes = g.nodes := by cases t <;> rfl
theorem edges_setN (g : MG) (t : RT) (k : Nat) : (g.setN t k).edges = g.edges := by cases t <;> rfl
theorem nodeId_setN (g : MG) (t : RT) (k : Nat) : (g.setN t k).nodeId = g.nodeId := by cases t <;> rfl
theorem opOf_setN (g : MG) (t : RT) (k : Nat) : (g.setN t k).opOf = g.opOf := by
  funext n; unfold MG.opOf; rw [nodes_setN]

/-! ## operation nodes and input/output nodes of a node list -/

def gateOfEntry (p : Nd × NOp) : Option Op :=
  match p.2 with
  | .gate o => some o
  | _ => none

/-- the operations carried by the operation nodes, in node order -/
def gateOpsOf (ns : List (Nd × NOp)) : List Op := ns.filterMap gateOfEntry

/-- the input / output nodes -/
def ioOf (ns : List (Nd × NOp)) : List (Nd × NOp) := ns.filter fun p => (gateOfEntry p).isNone

theorem length_io_gate (ns : List (Nd × NOp)) : ns.length = (ioOf ns).length + (gateOpsOf ns).length := by
  induction ns with
  | nil => rfl
  | cons a rest ih =>
    unfold ioOf gateOpsOf at ih ⊢
    cases h : gateOfEntry a with
    | none => simp [List.filter_cons, List.filterMap_cons, h, ih]; omega
    | some o => simp [List.filter_cons, List.filterMap_cons, h, ih]; omega

/-! ## the empty circuit -/

structure InitInv (g : MG) (W : List Wire) : Prop where
  rep : Rep0 g W (fun _ => [])
  nodesW : ∀ n ∈ g.nodes.map (·.1), ∃ w ∈ W, n = .inp w ∨ n = .out w
  regs : ∀ w, w ∈ W ↔ w.i < g.nOf w.t
  nodeId : g.nodeId = 0
  count : g.nodes.length = 2 * W.length
  names : (g.nodes.map (·.1)).Nodup
  noGates : gateOpsOf g.nodes = []
  trips : TripNodup g

/-- the graph after `_add_reg_if_absent` of the next register of type `w.t` -/
def addedReg (g : MG) (w : Wire) : MG :=
  { g.setN w.t (g.nOf w.t + 1) with
    nodes := (g.setN w.t (g.nOf w.t + 1)).nodes ++ [(.inp w, .input w), (.out w, .output w)],
    edges := (g.setN w.t (g.nOf w.t + 1)).edges ++ [{ src := .inp w, dst := .out w, key := w }] }

theorem nodes_addedReg (g : MG) (w : Wire) : (addedReg g w).nodes = g.nodes ++ [(.inp w, .input w), (.out w, .output w)] := by
  unfold addedReg; simp only [nodes_setN]

theorem edges_addedReg (g : MG) (w : Wire) : (addedReg g w).edges = g.edges ++ [{ src := .inp w, dst := .out w, key := w }] := by
  unfold addedReg; simp only [edges_setN]

theorem nOf_addedReg (g : MG) (w : Wire) (t : RT) : (addedReg g w).nOf t = if t = w.t then g.nOf w.t + 1 else g.nOf t := by
  have : (addedReg g w).nOf t = (g.setN w.t (g.nOf w.t + 1)).nOf t := by
    unfold addedReg; cases t <;> rfl
  rw [this, nOf_setN]

theorem path_empty (w : Wire) : pathOf (fun _ => []) w = [Nd.inp w, Nd.out w] := rfl

theorem adj_pair (a b u v : Nd) (h : Adj [a, b] u v) : u = a ∧ v = b := by
  obtain ⟨m1, m2, hm⟩ := h
  cases m1 with
  | nil => simp only [List.nil_append, List.cons.injEq] at hm; exact ⟨hm.1.symm, hm.2.1.symm⟩
  | cons y m1' =>
    exfalso
    have := congrArg List.length hm
    simp at this
    omega

theorem InitInv.addReg {g : MG} {W : List Wire} (h : InitInv g W) (w : Wire) (hw : w.i = g.nOf w.t) :
    g.addRegIfAbsent w = .ok (addedReg g w) ∧ InitInv (addedReg g w) (W ++ [w]) := by
  have hwW : w ∉ W := by rw [h.regs]; omega
  have hin : Nd.inp w ∉ g.nodes.map (·.1) := by
    intro hm
    obtain ⟨w', hw', h1 | h1⟩ := h.nodesW _ hm
    · injection h1 with h1; exact hwW (h1 ▸ hw')
    · cases h1
  have hout : Nd.out w ∉ g.nodes.map (·.1) := by
    intro hm
    obtain ⟨w', hw', h1 | h1⟩ := h.nodesW _ hm
    · cases h1
    · injection h1 with h1; exact hwW (h1 ▸ hw')
  have hnodes := nodes_addedReg g w
  have hold : ∀ n ∈ g.nodes.map (·.1), (addedReg g w).opOf n = g.opOf n :=
    fun n hn => opOf_append_old g _ _ hnodes n hn
  have hopin : (addedReg g w).opOf (.inp w) = some (.input w) := by
    rw [opOf_append g _ _ hnodes, opOf_none_of_not_mem g _ hin]
    simp
  have hopout : (addedReg g w).opOf (.out w) = some (.output w) := by
    rw [opOf_append g _ _ hnodes, opOf_none_of_not_mem g _ hout]
    simp
  -- every node of the new graph: its operation
  have hcases : ∀ n o, (addedReg g w).opOf n = some o →
      g.opOf n = some o ∨ (n = .inp w ∧ o = .input w) ∨ (n = .out w ∧ o = .output w) := by
    intro n o ho
    rw [opOf_append g _ _ hnodes] at ho
    cases hg : g.opOf n with
    | some o' => rw [hg] at ho; left; exact ho
    | none =>
      rw [hg] at ho
      simp only [Option.none_or, List.find?_cons, List.find?_nil] at ho
      by_cases h1 : Nd.inp w = n
      · simp only [h1, beq_self_eq_true, Option.map_some] at ho
        injection ho with ho
        right; left; exact ⟨h1.symm, ho.symm⟩
      · have : (Nd.inp w == n) = false := by simpa using h1
        simp only [this] at ho
        by_cases h2 : Nd.out w = n
        · simp only [h2, beq_self_eq_true, Option.map_some] at ho
          injection ho with ho
          right; right; exact ⟨h2.symm, ho.symm⟩
        · have : (Nd.out w == n) = false := by simpa using h2
          simp only [this] at ho
          cases ho
  constructor
  · unfold MG.addRegIfAbsent
    simp only [hw, if_true]
    have h2 : (g.setN w.t (g.nOf w.t + 1)).hasNode (.inp w) = false := by
      cases hh : (g.setN w.t (g.nOf w.t + 1)).hasNode (.inp w) with
      | false => rfl
      | true =>
        exfalso
        rw [hasNode_iff, nodes_setN] at hh
        exact hin hh
    simp only [h2, Bool.false_eq_true, if_false, gt_iff_lt, Nat.lt_irrefl]
    rfl
  · refine ⟨⟨?_, ?_, ?_, ?_, ?_, ?_, ?_, ?_, ?_, ?_⟩, ?_, ?_, ?_, ?_, ?_, ?_, ?_⟩
    · intro w' _
      rw [path_empty]
      simp
    · intro w' _ n hn; cases hn
    · intro w' hw'
      rcases List.mem_append.1 hw' with h1 | h1
      · rw [hold _ (opOf_some_mem g _ _ (h.rep.inpOp w' h1))]; exact h.rep.inpOp w' h1
      · rw [List.mem_singleton] at h1; rw [h1]; exact hopin
    · intro w' hw'
      rcases List.mem_append.1 hw' with h1 | h1
      · rw [hold _ (opOf_some_mem g _ _ (h.rep.outOp w' h1))]; exact h.rep.outOp w' h1
      · rw [List.mem_singleton] at h1; rw [h1]; exact hopout
    · intro n w' ho
      rcases hcases n _ ho with h1 | ⟨h1, h2⟩ | ⟨_, h2⟩
      · obtain ⟨a, b⟩ := h.rep.kindIn n w' h1
        exact ⟨a, List.mem_append_left _ b⟩
      · injection h2 with h2; subst h2; exact ⟨h1, by simp⟩
      · cases h2
    · intro n w' ho
      rcases hcases n _ ho with h1 | ⟨_, h2⟩ | ⟨h1, h2⟩
      · obtain ⟨a, b⟩ := h.rep.kindOut n w' h1
        exact ⟨a, List.mem_append_left _ b⟩
      · cases h2
      · injection h2 with h2; subst h2; exact ⟨h1, by simp⟩
    · intro n o ho
      rcases hcases n _ ho with h1 | ⟨_, h2⟩ | ⟨_, h2⟩
      · exact h.rep.wiresNodup n o h1
      · cases h2
      · cases h2
    · intro e he
      rw [edges_addedReg] at he
      rcases List.mem_append.1 he with h1 | h1
      · obtain ⟨a, b⟩ := h.rep.edge_sound0 e h1
        exact ⟨List.mem_append_left _ a, b⟩
      · rw [List.mem_singleton] at h1
        subst h1
        exact ⟨by simp, [], [], rfl⟩
    · intro w' hw' u v hadj
      rw [edges_addedReg]
      rcases List.mem_append.1 hw' with h1 | h1
      · obtain ⟨e, he, hh⟩ := h.rep.edge_complete w' h1 u v hadj
        exact ⟨e, List.mem_append_left _ he, hh⟩
      · rw [List.mem_singleton] at h1
        subst h1
        rw [path_empty] at hadj
        obtain ⟨rfl, rfl⟩ := adj_pair _ _ _ _ hadj
        exact ⟨_, List.mem_append_right _ (List.mem_singleton.2 rfl), rfl, rfl, rfl⟩
    · intro w' hm
      rw [hnodes] at hm
      simp only [List.map_append, List.mem_append, List.map_cons, List.map_nil, List.mem_cons, List.not_mem_nil, or_false] at hm
      rcases hm with h1 | h1 | h1
      · exact List.mem_append_left _ (h.rep.inputsW w' h1)
      · injection h1 with h1; rw [h1]; simp
      · cases h1
    · intro n hn
      rw [hnodes] at hn
      simp only [List.map_append, List.mem_append, List.map_cons, List.map_nil, List.mem_cons, List.not_mem_nil, or_false] at hn
      rcases hn with h1 | h1 | h1
      · obtain ⟨w', a, b⟩ := h.nodesW n h1
        exact ⟨w', List.mem_append_left _ a, b⟩
      · exact ⟨w, by simp, Or.inl h1⟩
      · exact ⟨w, by simp, Or.inr h1⟩
    · intro w'
      rw [nOf_addedReg, List.mem_append, List.mem_singleton, h.regs]
      by_cases ht : w'.t = w.t
      · rw [if_pos ht]
        constructor
        · rintro (h1 | h1)
          · rw [ht] at h1; omega
          · rw [h1]; omega
        · intro h1
          by_cases h2 : w'.i < g.nOf w.t
          · left; rw [ht]; exact h2
          · right
            cases w' with | mk t' i' => cases w with | mk t i =>
            simp only at ht hw h1 h2 ⊢
            subst ht
            congr
            omega
      · rw [if_neg ht]
        constructor
        · rintro (h1 | h1)
          · exact h1
          · exact absurd (by rw [h1]) ht
        · intro h1; left; exact h1
    · have : (addedReg g w).nodeId = g.nodeId := by unfold addedReg; exact nodeId_setN g _ _
      rw [this]; exact h.nodeId
    · rw [hnodes, List.length_append, List.length_append, h.count]
      simp only [List.length_cons, List.length_nil]
      omega
    · rw [hnodes, List.map_append, List.nodup_append]
      refine ⟨h.names, by simp, ?_⟩
      intro a ha b hb hab
      simp only [List.map_cons, List.map_nil, List.mem_cons, List.not_mem_nil, or_false] at hb
      subst hab
      rcases hb with rfl | rfl
      · exact hin ha
      · exact hout ha
    · rw [hnodes]
      unfold gateOpsOf
      rw [List.filterMap_append]
      have := h.noGates
      unfold gateOpsOf at this
      rw [this]
      rfl
    · unfold TripNodup
      rw [edges_addedReg, List.map_append, List.nodup_append]
      refine ⟨h.trips, by simp, ?_⟩
      intro a ha b hb hab
      obtain ⟨e0, he0, rfl⟩ := List.mem_map.1 ha
      simp only [List.map_cons, List.map_nil, List.mem_singleton] at hb
      subst hb
      simp only [trip, Prod.mk.injEq] at hab
      apply hwW
      rw [← hab.2.2]
      exact (h.rep.edge_sound0 e0 he0).1

/-- the loop over one register type of `CircuitDAG.__init__` -/
def addAllRegs (g : MG) (t : RT) (n : Nat) : MG :=
  (List.range n).foldl (fun g i => match g.addRegIfAbsent ⟨t, i⟩ with | .ok g' => g' | .error _ => g) g

theorem init_eq (ne np nc : Nat) : MG.init ne np nc = addAllRegs (addAllRegs (addAllRegs {} .e ne) .p np) .c nc := rfl

theorem InitInv.addAll {g : MG} {W : List Wire} (h : InitInv g W) (t : RT) (h0 : g.nOf t = 0) (n : Nat) :
    InitInv (addAllRegs g t n) (W ++ (List.range n).map fun i => ⟨t, i⟩) ∧ (addAllRegs g t n).nOf t = n ∧
      ∀ t', t' ≠ t → (addAllRegs g t n).nOf t' = g.nOf t' := by
  induction n with
  | zero => simp [addAllRegs, h, h0]
  | succ k ih =>
    obtain ⟨hi, hn, hother⟩ := ih
    have hstep : addAllRegs g t (k + 1) = addedReg (addAllRegs g t k) ⟨t, k⟩ := by
      unfold addAllRegs
      rw [List.range_succ, List.foldl_append]
      simp only [List.foldl_cons, List.foldl_nil]
      have := (hi.addReg ⟨t, k⟩ (by simp only; exact hn.symm)).1
      unfold addAllRegs at this
      rw [this]
    rw [hstep]
    refine ⟨?_, ?_, ?_⟩
    · have := (hi.addReg ⟨t, k⟩ (by simp only; exact hn.symm)).2
      rw [List.range_succ, List.map_append, ← List.append_assoc]
      exact this
    · rw [nOf_addedReg]; simp [hn]
    · intro t' ht'
      rw [nOf_addedReg, if_neg ht']
      exact hother t' ht'

theorem initInv_empty : InitInv {} [] := by
  refine ⟨⟨?_, ?_, ?_, ?_, ?_, ?_, ?_, ?_, ?_, ?_⟩, ?_, ?_, rfl, rfl, List.nodup_nil, rfl, List.nodup_nil⟩
  · intro w hw; cases hw
  · intro w hw; cases hw
  · intro w hw; cases hw
  · intro w hw; cases hw
  · intro n w h; cases h
  · intro n w h; cases h
  · intro n o h; cases h
  · intro e he; cases he
  · intro w hw; cases hw
  · intro w h; cases h
  · intro n h; cases h
  · intro w
    cases w with | mk t i => cases t <;> simp [MG.nOf]

/-- all registers of a graph with the given counts, emitters first -/
def wiresN (ne np nc : Nat) : List Wire :=
  (List.range ne).map (fun i => ⟨.e, i⟩) ++ (List.range np).map (fun i => ⟨.p, i⟩) ++ (List.range nc).map (fun i => ⟨.c, i⟩)

theorem initInv_init (ne np nc : Nat) :
    InitInv (MG.init ne np nc) (wiresN ne np nc) ∧ (MG.init ne np nc).ne = ne ∧ (MG.init ne np nc).np = np ∧
      (MG.init ne np nc).nc = nc := by
  rw [init_eq]
  obtain ⟨h1, n1, o1⟩ := initInv_empty.addAll .e rfl ne
  obtain ⟨h2, n2, o2⟩ := h1.addAll .p (by rw [o1 .p (by decide)]; rfl) np
  obtain ⟨h3, n3, o3⟩ := h2.addAll .c (by rw [o2 .c (by decide), o1 .c (by decide)]; rfl) nc
  refine ⟨?_, ?_, ?_, ?_⟩
  · unfold wiresN
    simpa using h3
  · have := o3 .e (by decide)
    rw [o2 .e (by decide), n1] at this
    exact this
  · have := o3 .p (by decide)
    rw [n2] at this
    exact this
  · exact n3

/-! ## `MG.build` -/

/-- the operation acts on existing, pairwise different registers -/
def OpOK (W : List Wire) (o : Op) : Prop := (∀ w ∈ opWires o, w ∈ W) ∧ (opWires o).Nodup

/-- the operation nodes on register `w` of the DAG built from `l`: the `k`-th operation is node `k + 1` -/
def bodyOf (l : List Op) (w : Wire) : List Nd :=
  (l.zipIdx.filter (fun p => decide (w ∈ opWires p.1))).map (fun p => Nd.op (p.2 + 1))

theorem bodyOf_append (l : List Op) (o : Op) (w : Wire) :
    bodyOf (l ++ [o]) w = bodyOf l w ++ (if w ∈ opWires o then [Nd.op (l.length + 1)] else []) := by
  unfold bodyOf
  rw [List.zipIdx_append, List.filter_append, List.map_append]
  congr 1
  by_cases h : w ∈ opWires o
  · simp [List.zipIdx, h]
  · simp [List.zipIdx, h]

/-- the graph is a family of register paths over the registers `W`, every register exists, node ids are bounded by the
    counter, and the operations along the path of `w` are the operations of `l` that touch `w` -/
def BuildInv (W : List Wire) (g : MG) (l : List Op) : Prop :=
  ∃ body, Rep0 g W body ∧ (∀ w ∈ W, RegOK g w) ∧ (∀ n ∈ g.nodes.map (·.1), ∀ k, n = .op k → k ≤ g.nodeId) ∧
    (∀ w ∈ W, wireOps g body w = l.filter (touches w)) ∧
    (∀ n o, g.opOf n = some (.gate o) → ∀ w' ∈ opWires o, w' ∈ W ∧ n ∈ body w') ∧
    (g.nodes.map (·.1)).Nodup ∧ gateOpsOf g.nodes = l ∧ (ioOf g.nodes).length = 2 * W.length ∧
    g.nodeId = l.length ∧ (∀ w, body w = bodyOf l w) ∧
    (∀ k (hk : k < l.length), g.opOf (.op (k + 1)) = some (.gate l[k])) ∧ TripNodup g

theorem nOf_eq_of_counts (g g' : MG) (h1 : g'.ne = g.ne) (h2 : g'.np = g.np) (h3 : g'.nc = g.nc) (t : RT) :
    g'.nOf t = g.nOf t := by cases t <;> simp [MG.nOf, h1, h2, h3]

theorem BuildInv.add {W : List Wire} {g : MG} {l : List Op} (h : BuildInv W g l) (o : Op) (ho : OpOK W o) :
    ∃ g', g.add o = .ok g' ∧ BuildInv W g' (l ++ [o]) ∧ g'.ne = g.ne ∧ g'.np = g.np ∧ g'.nc = g.nc := by
  obtain ⟨body, r, hreg, hid, hops, hcomp, hcount, hgl, hio, hnl, hbo, hat, htn⟩ := h
  obtain ⟨g', body', hadd, r', hb', hnodes, hnid, h1, h2, h3, htn'⟩ := r.add o ho.1 ho.2 hreg hid htn
  have hfreshN : Nd.op (g.nodeId + 1) ∉ g.nodes.map (·.1) := by
    intro hm
    have := hid _ hm (g.nodeId + 1) rfl
    omega
  refine ⟨g', hadd, ⟨body', r', ?_, ?_, ?_, ?_, ?_, ?_, ?_, ?_, ?_, ?_, htn'⟩, h1, h2, h3⟩
  · intro w hw
    obtain ⟨a, b⟩ := hreg w hw
    refine ⟨by rw [nOf_eq_of_counts g g' h1 h2 h3]; exact a, ?_⟩
    rw [hasNode_iff] at b ⊢
    rw [hnodes, List.map_append]
    exact List.mem_append_left _ b
  · intro n hn k hk
    rw [hnodes, List.map_append, List.mem_append] at hn
    rcases hn with hn | hn
    · have := hid n hn k hk; omega
    · simp only [List.map_cons, List.map_nil, List.mem_singleton] at hn
      rw [hn] at hk
      injection hk with hk
      omega
  · intro w hw
    unfold wireOps
    rw [hb' w, List.filterMap_append, List.filter_append]
    congr 1
    · rw [← hops w hw]
      unfold wireOps
      apply List.filterMap_congr
      intro n hn
      obtain ⟨_, _, _, hop, _⟩ := r.bodyOp w hw n hn
      unfold gateAt
      rw [opOf_append_old g g' _ hnodes n (opOf_some_mem g n _ hop)]
    · have hgate : gateAt g' (.op (g.nodeId + 1)) = some o := by
        unfold gateAt
        rw [opOf_append g g' _ hnodes, opOf_none_of_not_mem g _ hfreshN]
        simp
      by_cases hwo : w ∈ opWires o
      · have : touches w o = true := by unfold touches; simpa using hwo
        simp [hwo, hgate, this]
      · have : touches w o = false := by
          unfold touches
          cases hc : (opWires o).contains w with
          | false => rfl
          | true => exact absurd (by simpa using hc) hwo
        simp [hwo, this]
  · intro n o' ho' w' hw'
    rw [hb' w', List.mem_append]
    by_cases hmem : n ∈ g.nodes.map (·.1)
    · rw [opOf_append_old g g' _ hnodes n hmem] at ho'
      obtain ⟨a, b⟩ := hcomp n o' ho' w' hw'
      exact ⟨a, Or.inl b⟩
    · rw [opOf_append g g' _ hnodes, opOf_none_of_not_mem g _ hmem] at ho'
      simp only [Option.none_or, List.find?_cons, List.find?_nil] at ho'
      by_cases hx : Nd.op (g.nodeId + 1) = n
      · simp only [hx, beq_self_eq_true, Option.map_some] at ho'
        injection ho' with ho'
        injection ho' with ho'
        subst ho'
        rw [if_pos hw', ← hx]
        exact ⟨ho.1 w' hw', by simp⟩
      · have : (Nd.op (g.nodeId + 1) == n) = false := by simpa using hx
        simp only [this] at ho'
        cases ho'
  · rw [hnodes, List.map_append, List.nodup_append]
    refine ⟨hcount, by simp, ?_⟩
    intro a ha b hb hab
    simp only [List.map_cons, List.map_nil, List.mem_singleton] at hb
    subst hab hb
    exact hfreshN ha
  · rw [hnodes]
    unfold gateOpsOf at hgl ⊢
    rw [List.filterMap_append, hgl]
    rfl
  · rw [hnodes]
    unfold ioOf at hio ⊢
    rw [List.filter_append, List.length_append, hio]
    rfl
  · rw [hnid, hnl]; simp
  · intro w
    rw [hb' w, hbo w, bodyOf_append, hnl]
  · intro k hk
    by_cases hkl : k < l.length
    · have hmem := opOf_some_mem g _ _ (hat k hkl)
      rw [opOf_append_old g g' _ hnodes _ hmem, hat k hkl, List.getElem_append_left hkl]
    · have hkeq : k = l.length := by
        simp only [List.length_append, List.length_cons, List.length_nil] at hk
        omega
      subst hkeq
      have e1 : g'.opOf (Nd.op (l.length + 1)) = some (.gate o) := by
        rw [← hnl, opOf_append g g' _ hnodes, opOf_none_of_not_mem g _ hfreshN]
        simp
      rw [e1]
      simp

theorem build_fold (W : List Wire) : ∀ (todo : List Op) (g : MG) (done : List Op), BuildInv W g done →
    (∀ o ∈ todo, OpOK W o) →
    ∃ g', todo.foldlM MG.add g = .ok g' ∧ BuildInv W g' (done ++ todo) ∧ g'.ne = g.ne ∧ g'.np = g.np ∧ g'.nc = g.nc := by
  intro todo
  induction todo with
  | nil => intro g done h _; exact ⟨g, rfl, by simpa using h, rfl, rfl, rfl⟩
  | cons o todo' ih =>
    intro g done h hall
    obtain ⟨g1, hadd, h1, a1, a2, a3⟩ := h.add o (hall o (by simp))
    obtain ⟨g2, hf, h2, b1, b2, b3⟩ := ih g1 (done ++ [o]) h1 (fun o' ho' => hall o' (List.mem_cons_of_mem _ ho'))
    refine ⟨g2, ?_, by simpa using h2, b1.trans a1, b2.trans a2, b3.trans a3⟩
    rw [List.foldlM_cons, hadd]
    exact hf

theorem mem_wiresN (ne np nc : Nat) (w : Wire) :
    w ∈ wiresN ne np nc ↔ w.i < (match w.t with | .e => ne | .p => np | .c => nc) := by
  unfold wiresN
  cases w with | mk t i =>
  simp only [List.mem_append, List.mem_map, List.mem_range, Wire.mk.injEq]
  cases t <;> simp

theorem buildInv_init (ne np nc : Nat) : BuildInv (wiresN ne np nc) (MG.init ne np nc) [] := by
  obtain ⟨h, _, _, _⟩ := initInv_init ne np nc
  refine ⟨fun _ => [], h.rep, ?_, ?_, ?_, ?_, ?_, h.noGates, ?_, h.nodeId, fun _ => rfl, ?_, h.trips⟩
  · intro w hw
    refine ⟨(h.regs w).1 hw, ?_⟩
    rw [hasNode_iff]
    exact opOf_some_mem _ _ _ (h.rep.inpOp w hw)
  · intro n hn k hk
    obtain ⟨w, _, h1 | h1⟩ := h.nodesW n hn
    · rw [h1] at hk; cases hk
    · rw [h1] at hk; cases hk
  · intro w _; rfl
  · intro n o ho
    exfalso
    obtain ⟨w, _, h1 | h1⟩ := h.nodesW n (opOf_some_mem _ _ _ ho)
    · rw [h1, h.rep.inpOp w ‹_›] at ho; cases ho
    · rw [h1, h.rep.outOp w ‹_›] at ho; cases ho
  · exact h.names
  · have := length_io_gate (MG.init ne np nc).nodes
    rw [h.noGates, h.count] at this
    simpa using this.symm
  · intro k hk; cases hk

/-- **the multigraph of a circuit is a family of register paths** and the operations along the path of register `w` are
    the operations of the circuit that touch `w`, in the order they were added -/
theorem build_rep (c : Circuit) (h : ∀ o ∈ c.ops, OpOK (wiresN c.ne c.np c.nc) o) :
    ∃ g, MG.build c = .ok g ∧ BuildInv (wiresN c.ne c.np c.nc) g c.ops ∧ g.ne = c.ne ∧ g.np = c.np ∧ g.nc = c.nc := by
  obtain ⟨_, e1, e2, e3⟩ := initInv_init c.ne c.np c.nc
  obtain ⟨g, hf, hb, a1, a2, a3⟩ := build_fold (wiresN c.ne c.np c.nc) c.ops _ [] (buildInv_init c.ne c.np c.nc) h
  exact ⟨g, hf, by simpa using hb, a1.trans e1, a2.trans e2, a3.trans e3⟩

end Graphiq.Compare
