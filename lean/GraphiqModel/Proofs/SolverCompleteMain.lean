/-
  Proofs/SolverCompleteMain.lean — completeness of the time-reversed solver, part 8: after the loop.

  All photon columns are literal; the last `rref` puts the generator `+Z_q` at row `q` (so the two assertions of `solve` hold);
  `inverse_circuit` (completeness taken as the hypothesis `hinv`, proved for C11 on another branch) returns gates that only touch
  the emitters with two-qubit gates (`inverseCircuit_gates_ok`), so `_add_gates_from_str` returns; replaying the gates on the
  tableau gives the group of |0…0⟩, whose generators all carry sign `+`, so the final sign loop adds nothing.
  Result: `solve_complete_stabilizer` / `solve_complete_graph`.
-/
import GraphiqModel.Proofs.SolverCompleteInit
import GraphiqModel.Proofs.SolverCompleteInvLoc
namespace Graphiq.Solver
open Graphiq Graphiq.Cliff PRow STab Tab

/-- independence of the generators over GF(2), stated on the bits (Mathlib-free; this is, verbatim, the notion `STab.Indep` of the
    C11 development on branch deep-c11): no non-empty selection of generators multiplies to the identity Pauli string -/
def BitIndep (t : STab) : Prop :=
  ∀ S : Nat → Bool, (∀ j, j < t.n → parityTo t.n (fun i => S i && (t.row i).x j) = false ∧
      parityTo t.n (fun i => S i && (t.row i).z j) = false) → ∀ i, i < t.n → S i = false

/-- linear independence of the symplectic vectors implies independence on the bits -/
theorem linIndep_bits (t : STab) (h : t.LinIndep) : BitIndep t := by
  intro S hS i hi
  have h' := Fintype.linearIndependent_iff.1 h (fun k : Fin t.n => b2z (S k.val))
  have hsel : ∀ k, k < t.n → selOf (fun k : Fin t.n => b2z (S k.val)) k = S k := by
    intro k hk
    unfold selOf
    rw [dif_pos hk]
    show decide (b2z (S k) = 1) = S k
    cases S k
    · show decide ((0 : ZMod 2) = 1) = false
      decide
    · show decide ((1 : ZMod 2) = 1) = true
      decide
  have hsum : ∑ k : Fin t.n, (fun k : Fin t.n => b2z (S k.val)) k • (t.row k).vec t.n = 0 := by
    funext j
    rw [lincomb_apply' t _ j]
    have e1 : t.comboX (selOf (fun k : Fin t.n => b2z (S k.val))) j = false := by
      unfold STab.comboX
      rw [parityTo_congr t.n _ (fun i => S i && (t.row i).x j) (fun k hk => by rw [hsel k hk])]
      exact (hS j.val j.isLt).1
    have e2 : t.comboZ (selOf (fun k : Fin t.n => b2z (S k.val))) j = false := by
      unfold STab.comboZ
      rw [parityTo_congr t.n _ (fun i => S i && (t.row i).z j) (fun k hk => by rw [hsel k hk])]
      exact (hS j.val j.isLt).2
    rw [e1, e2]; rfl
  have := h' hsum ⟨i, hi⟩
  exact (b2z_eq_zero _).1 this

/-- the completeness of `inverse_circuit` (C11, other branch: `STab.inverseCircuit_complete`), as a hypothesis: on every valid
    stabilizer tableau (real, commuting, INDEPENDENT generators — for dependent generators `canonical_form` hits its final assertion)
    it returns and reaches |0…0⟩ -/
def InvComplete : Prop :=
  ∀ t : STab, t.Good → BitIndep t → ∃ t' c, t.inverseCircuit = .ok (t', c) ∧ t'.isZero = true

/-! ### the last `rref`: the photon generators sit on the diagonal -/

theorem lit_witness_piv (t : STab) (piv : Nat → Nat) (he : Echelon t piv) (q w : Nat) (hw : w < t.n)
    (hrow : EqOn t.n (t.row w) (Zq q)) : piv w = q := by
  have hl := he.lead w hw
  have := ptype_of_Zq t w q (piv w) hl.1 hrow
  by_cases e : piv w = q
  · exact e
  · rw [if_neg e] at this; exact absurd this hl.2.2

theorem piv_unique (t : STab) (piv : Nat → Nat) (he : Echelon t piv) (q : Nat) (hl : t.Lit q) (i k : Nat) (hi : i < t.n)
    (hk : k < t.n) (hpi : piv i = q) (hpk : piv k = q) : i = k := by
  obtain ⟨w, _, _, hoth⟩ := hl
  have hiw : i = w := by
    apply Classical.byContradiction
    intro hne
    have := (he.lead i hi).2.2
    rw [hpi] at this
    exact this (hoth i hi hne)
  have hkw : k = w := by
    apply Classical.byContradiction
    intro hne
    have := (he.lead k hk).2.2
    rw [hpk] at this
    exact this (hoth k hk hne)
  rw [hiw, hkw]

/-- in the echelon gauge with all photon columns literal, generator `q` leads at photon `q` -/
theorem echelon_lit_piv (t : STab) (piv : Nat → Nat) (he : Echelon t piv) (np : Nat) (hnp : np ≤ t.n)
    (hlit : ∀ q, q < np → t.Lit q) : ∀ q, q < np → piv q = q := by
  intro q
  induction q using Nat.strong_induction_on with
  | _ q ih =>
    intro hq
    obtain ⟨w, hw, hrow, _⟩ := hlit q hq
    have hpw := lit_witness_piv t piv he q w hw hrow
    rcases Nat.lt_trichotomy w q with h | h | h
    · have := ih w h (by omega)
      omega
    · rw [← h]; rw [h] at hpw; rw [h]; exact hpw
    · exfalso
      have hs := (he.sorted q w h hw).1
      rw [hpw] at hs
      rcases Nat.lt_or_eq_of_le hs with h2 | h2
      · have h3 := ih (piv q) h2 (by omega)
        have := piv_unique t piv he (piv q) (hlit (piv q) (by omega)) q (piv q) (by omega) (by omega) rfl h3
        omega
      · have := piv_unique t piv he q (hlit q hq) q w (by omega) hw h2 hpw
        omega

theorem echelon_lit_rows (t : STab) (piv : Nat → Nat) (he : Echelon t piv) (np : Nat) (hnp : np ≤ t.n)
    (hlit : ∀ q, q < np → t.Lit q) : ∀ q, q < np → EqOn t.n (t.row q) (Zq q) := by
  intro q hq
  obtain ⟨w, hw, hrow, _⟩ := hlit q hq
  have h1 := echelon_lit_piv t piv he np hnp hlit q hq
  have h2 := lit_witness_piv t piv he q w hw hrow
  have := piv_unique t piv he q (hlit q hq) q w (by omega) hw h1 h2
  subst this; exact hrow

/-! ### replaying the gate list of `inverse_circuit` -/

/-- what `_add_gates_from_str` applies to the tableau for one entry of the list (`CZ` is replayed as `H; CNOT; H`) -/
def expand1 : Gate → List Gate
  | .CZ c t => [.H t, .CNOT c t, .H t]
  | g => [g]

theorem actCirc_expand1 (g : Gate) (a : PRow) : actCirc (expand1 g) a = g.act a := by
  cases g <;> rfl

theorem actCirc_append' (c1 c2 : List Gate) (a : PRow) : actCirc (c1 ++ c2) a = actCirc c2 (actCirc c1 a) := by
  simp [actCirc, List.foldl_append]

theorem actCirc_flatMap (gl : List Gate) (a : PRow) : actCirc (gl.flatMap expand1) a = actCirc gl a := by
  induction gl generalizing a with
  | nil => rfl
  | cons g rest ih =>
    rw [List.flatMap_cons, actCirc_append', actCirc_expand1, ih]
    rfl

theorem tracks_step (t0 : STab) (t : STab) (c : List Gate) (g : Gate) (h : Tracks t0 ⟨t, c⟩) (hg : g.WF t.n) :
    Tracks t0 ⟨(t.applyGate g).norm, c ++ [g]⟩ := tracks_gate t0 ⟨t, c⟩ g h hg

/-- one entry of the list: `_add_gates_from_str` returns on the gates `inverse_circuit` may emit (two-qubit gates only on emitters),
    and the tableau follows the gate -/
theorem gateStep_ok (np : Nat) (t0 : STab) (acc : St) (c : List Gate) (g : Gate) (hok : STab.Gate.okFor np g)
    (hwf : g.WF t0.n) (hnp : acc.np = np) (htr : Tracks t0 ⟨acc.t, c⟩) :
    ∃ acc', gateStep acc g = .ok acc' ∧ acc'.np = np ∧ acc'.ne = acc.ne ∧ Tracks t0 ⟨acc'.t, c ++ expand1 g⟩ := by
  have hn : acc.t.n = t0.n := htr.n_eq
  unfold gateStep
  cases g with
  | H q =>
    obtain ⟨a1, h1⟩ := addOneQubit_ok acc [.H] q
    obtain ⟨e1, e2, e3⟩ := addOneQubit_t acc a1 _ _ h1
    simp only [h1, Except.map]
    refine ⟨_, rfl, e2.trans hnp, e3, ?_⟩
    show Tracks t0 ⟨(a1.t.applyGate (.H q)).norm, c ++ [.H q]⟩
    rw [e1]; exact tracks_step t0 acc.t c _ htr (hn ▸ hwf)
  | P q =>
    obtain ⟨a1, h1⟩ := addOneQubit_ok acc [.Z, .P] q
    obtain ⟨e1, e2, e3⟩ := addOneQubit_t acc a1 _ _ h1
    simp only [h1, Except.map]
    refine ⟨_, rfl, e2.trans hnp, e3, ?_⟩
    show Tracks t0 ⟨(a1.t.applyGate (.P q)).norm, c ++ [.P q]⟩
    rw [e1]; exact tracks_step t0 acc.t c _ htr (hn ▸ hwf)
  | X q =>
    obtain ⟨a1, h1⟩ := addOneQubit_ok acc [.X] q
    obtain ⟨e1, e2, e3⟩ := addOneQubit_t acc a1 _ _ h1
    simp only [h1, Except.map]
    refine ⟨_, rfl, e2.trans hnp, e3, ?_⟩
    show Tracks t0 ⟨(a1.t.applyGate (.X q)).norm, c ++ [.X q]⟩
    rw [e1]; exact tracks_step t0 acc.t c _ htr (hn ▸ hwf)
  | CNOT c' t' =>
    obtain ⟨hc, ht⟩ : np ≤ c' ∧ np ≤ t' := hok
    simp only
    rw [if_pos (by rw [hnp]; exact ⟨hc, ht⟩)]
    refine ⟨_, rfl, hnp, rfl, ?_⟩
    show Tracks t0 ⟨(acc.t.applyGate (.CNOT (acc.np + (c' - acc.np)) (acc.np + (t' - acc.np)))).norm, c ++ [.CNOT c' t']⟩
    have e1 : acc.np + (c' - acc.np) = c' := by omega
    have e2 : acc.np + (t' - acc.np) = t' := by omega
    rw [e1, e2]
    exact tracks_step t0 acc.t c _ htr (hn ▸ hwf)
  | CZ c' t' =>
    obtain ⟨hc, ht⟩ : np ≤ c' ∧ np ≤ t' := hok
    obtain ⟨hcn, htn, hct⟩ : c' < t0.n ∧ t' < t0.n ∧ c' ≠ t' := hwf
    simp only
    rw [if_pos (by rw [hnp]; exact ⟨hc, ht⟩)]
    obtain ⟨a1, h1⟩ := addOneQubit_ok acc [.H] t'
    obtain ⟨e1, e2, e3⟩ := addOneQubit_t acc a1 _ _ h1
    rw [h1]; simp only
    obtain ⟨a3, h3⟩ := addOneQubit_ok (addEmitterCnot (a1.gate (.H t')) (c' - acc.np) (t' - acc.np)) [.H] t'
    obtain ⟨f1, f2, f3⟩ := addOneQubit_t _ a3 _ _ h3
    simp only [h3, Except.map]
    refine ⟨_, rfl, ?_, ?_, ?_⟩
    · show a3.np = np
      rw [f2]; exact e2.trans hnp
    · show a3.ne = acc.ne
      rw [f3]; exact e3
    · show Tracks t0 ⟨(a3.t.applyGate (.H t')).norm, c ++ [.H t', .CNOT c' t', .H t']⟩
      rw [f1]
      show Tracks t0 ⟨(((((a1.t.applyGate (.H t')).norm).applyGate
        (.CNOT (a1.np + (c' - acc.np)) (a1.np + (t' - acc.np)))).norm).applyGate (.H t')).norm, _⟩
      have g1 : a1.np + (c' - acc.np) = c' := by rw [e2]; omega
      have g2 : a1.np + (t' - acc.np) = t' := by rw [e2]; omega
      rw [g1, g2, e1]
      have k1 := tracks_step t0 acc.t c (.H t') htr (by show t' < acc.t.n; omega)
      have k2 := tracks_step t0 _ _ (.CNOT c' t') k1 (by show c' < acc.t.n ∧ t' < acc.t.n ∧ c' ≠ t'; omega)
      have k3 := tracks_step t0 _ _ (.H t') k2 (by show t' < acc.t.n; omega)
      simpa [List.append_assoc] using k3
  | Pdag q => exact absurd hok (by simp [STab.Gate.okFor])
  | Y q => exact absurd hok (by simp [STab.Gate.okFor])
  | Z q => exact absurd hok (by simp [STab.Gate.okFor])
  | I q => exact absurd hok (by simp [STab.Gate.okFor])

/-- **`_add_gates_from_str` returns** on a list of accepted gates, and the tableau follows the list -/
theorem addGatesFromStr_ok (np : Nat) (t0 : STab) (gl : List Gate) (hgl : ∀ g, g ∈ gl → STab.Gate.okFor np g ∧ g.WF t0.n)
    (acc : St) (c : List Gate) (hnp : acc.np = np) (htr : Tracks t0 ⟨acc.t, c⟩) :
    ∃ s', addGatesFromStr acc gl = .ok s' ∧ s'.np = np ∧ s'.ne = acc.ne ∧ Tracks t0 ⟨s'.t, c ++ gl.flatMap expand1⟩ := by
  rw [addGatesFromStr_eq]
  induction gl generalizing acc c with
  | nil => exact ⟨acc, rfl, hnp, rfl, by simpa using htr⟩
  | cons g rest ih =>
    obtain ⟨h1, h2⟩ := hgl g List.mem_cons_self
    obtain ⟨a1, k1, k2, k3, k4⟩ := gateStep_ok np t0 acc c g h1 h2 hnp htr
    obtain ⟨s', j1, j2, j3, j4⟩ := ih (fun g' hg' => hgl g' (List.mem_cons_of_mem _ hg')) a1 (c ++ expand1 g) k2 k4
    refine ⟨s', ?_, j2, j3.trans k3, ?_⟩
    · simp only [List.foldlM, k1, bind, Except.bind]
      exact j1
    · rw [List.flatMap_cons, ← List.append_assoc]; exact j4

/-! ### the group of |0…0⟩ has only `+` signs -/

theorem zero_spn_plus (n : Nat) (a : PRow) (h : (STab.zero n).Spn a) :
    (∀ j, j < n → a.x j = false) ∧ a.r = false ∧ a.ip = false := by
  unfold STab.Spn at h
  induction h with
  | one => exact ⟨fun _ _ => rfl, rfl, rfl⟩
  | gen i hi => exact ⟨fun _ _ => rfl, rfl, rfl⟩
  | mul a b _ _ iha ihb =>
    obtain ⟨ax, ar, ai⟩ := iha
    obtain ⟨bx, br, bi⟩ := ihb
    show (∀ j, j < n → (PRow.mul n a b).x j = false) ∧ (PRow.mul n a b).r = false ∧ (PRow.mul n a b).ip = false
    have hg : PRow.gSum n a b = 0 := by
      unfold PRow.gSum
      rw [sumTo_congr n _ (fun _ => 0), sumTo_zero]
      intro j hj
      rw [ax j hj, bx j hj]
      cases a.z j <;> simp [PRow.gFun, Bool.toInt']
    have hph : (PRow.mul n a b).ph = 0 := by
      rw [mul_ph, hg]
      simp [PRow.ph, ar, ai, br, bi, Bool.toInt']
    refine ⟨fun j hj => ?_, ?_, ?_⟩
    · rw [PRow.mul_x, ax j hj, bx j hj]; rfl
    · revert hph
      unfold PRow.ph
      cases (PRow.mul n a b).r <;> cases (PRow.mul n a b).ip <;> simp [Bool.toInt']
    · revert hph
      unfold PRow.ph
      cases (PRow.mul n a b).r <;> cases (PRow.mul n a b).ip <;> simp [Bool.toInt']
  | eqv a b _ hab iha =>
    obtain ⟨ax, ar, ai⟩ := iha
    exact ⟨fun j hj => ((hab.1 j hj).1).symm.trans (ax j hj), hab.2.1.symm.trans ar, hab.2.2.symm.trans ai⟩

theorem foldlM_noop {α : Type} (l : List α) (f : St → α → Except Err St) (s : St) (hf : ∀ i, i ∈ l → f s i = .ok s) :
    l.foldlM f s = .ok s := by
  induction l with
  | nil => rfl
  | cons x rest ih =>
    simp only [List.foldlM, hf x List.mem_cons_self, bind, Except.bind]
    exact ih (fun i hi => hf i (List.mem_cons_of_mem _ hi))

/-! ### `solve` returns with the final working tableau generating the group of |0…0⟩ -/

/-- **completeness of the time-reversed solver model, any stabilizer target** (real, commuting, independent generators on at least one
    qubit, none of whose qubits is a product qubit), under the completeness of `inverse_circuit`: `solve` returns, and its final
    working tableau generates exactly the signed group of |0…0⟩ -/
theorem solve_complete_stabilizer (hinv : InvComplete) (target : STab) (hg : target.Good) (hi : target.LinIndep) (hn : 0 < target.n)
    (hnp : ∀ p, p < target.n → target.NotProd p) :
    ∃ s, solve target = .ok s ∧ SpanEq s.t (STab.zero (target.n + s.ne)) := by
  obtain ⟨ne, hdet⟩ := determineNEmitters_ok target hi hn
  have i0 := rinv_init (fun _ => False) target hg hi ne hdet (fun p hp _ => hnp p hp) (fun _ _ h => h.elim)
  obtain ⟨s1, h1, i1⟩ := photonLoop_ok (fun _ => False) target.n ne target.n (fun _ _ h => h) _ i0
  obtain ⟨t2, brs2, piv2, hr2, he2⟩ := rref_ok_of_indep s1.t i1.indep
  have i2 := i1.cops t2 (rref_cops s1.t t2 brs2 hr2)
  have hn2 : t2.n = target.n + ne := i2.n_eq
  have hlit2 : ∀ q, q < target.n → t2.Lit q := fun q hq => i2.lit q (Nat.zero_le _) hq
  have hrows := echelon_lit_rows t2 piv2 he2 target.n (by omega) hlit2
  obtain ⟨t', inv, hic, hz⟩ := hinv t2 i2.good (linIndep_bits t2 i2.indep)
  obtain ⟨hn', hg', hwf, hfwd, hbwd⟩ := inverseCircuit_tracks t2 t' inv i2.good hic
  have hok := inverseCircuit_gates_ok t2 t' inv target.n (by omega) i2.good canonicalForm_lit hlit2 hic
  obtain ⟨s3, h3, hnp3, hne3, tr3⟩ := addGatesFromStr_ok target.n t2 inv (fun g hgm => ⟨hok g hgm, hwf g hgm⟩)
    { s1 with t := t2 } [] i1.np_eq (tracks_init t2 i2.good)
  have hne3' : s3.ne = ne := hne3.trans i1.ne_eq
  -- the replayed gates take the tableau to the group of |0…0⟩
  have hz' : SpanEq t' (STab.zero (target.n + ne)) := by
    have := isZero_spanEq t' hg' hz
    rw [hn', hn2] at this; exact this
  have hs3 : SpanEq s3.t (STab.zero (target.n + ne)) := by
    refine ⟨tr3.n_eq.trans hn2, fun b hb => ?_, fun b hb => ?_⟩
    · obtain ⟨a, ha, ea⟩ := tr3.bwd b hb
      rw [List.nil_append, actCirc_flatMap] at ea
      refine hz'.sub b (InSpan.eqv _ _ (hfwd a ha) ?_)
      rw [hn']; exact ea
    · obtain ⟨a, ha, ea⟩ := hbwd b (hz'.sup b hb)
      have := tr3.fwd a ha
      rw [List.nil_append, actCirc_flatMap] at this
      refine InSpan.eqv _ _ this ?_
      rw [tr3.n_eq]; exact ea
  refine ⟨s3, ?_, by rw [hne3']; exact hs3⟩
  -- the run of `solve`
  have hokX : ((List.range target.n).all fun i => (List.range target.n).all fun j => !(t2.row i).x j) = true := by
    simp only [List.all_eq_true, List.mem_range, Bool.not_eq_true']
    intro i hi j hj
    rw [((hrows i hi).1 j (by omega)).1]; rfl
  have hokZ : ((List.range target.n).all fun i => (List.range target.n).all fun j => (t2.row i).z j == (i == j)) = true := by
    simp only [List.all_eq_true, List.mem_range]
    intro i hi j hj
    rw [((hrows i hi).1 j (by omega)).2]
    show (decide (j = i) == (i == j)) = true
    by_cases e : j = i
    · subst e; simp
    · have : ¬ i = j := fun h => e h.symm
      simp [e, this]
  have e0 : (List.range ne).foldl (fun (acc : STab) _ => (acc.insertQubit acc.n).norm) target = withEmitters target ne := rfl
  unfold solve
  rw [hdet]; simp only
  rw [e0, h1]; simp only
  rw [hr2]; simp only
  rw [hokX, hokZ]
  simp only [Bool.and_self, Bool.not_true, Bool.false_eq_true, if_false]
  rw [hic]; simp only
  rw [h3]; simp only
  apply foldlM_noop
  intro i hi
  have hi' : i < ne := List.mem_range.mp hi
  have hrow : s3.t.Spn (s3.t.row (target.n + i)) := spn_gen s3.t _ (by rw [hs3.n_eq]; show target.n + i < target.n + ne; omega)
  have := (zero_spn_plus _ _ (hs3.sub _ hrow)).2.1
  simp only [this, Bool.false_eq_true, if_false]

/-- **completeness on graph targets**: every simple graph on at least one vertex without isolated vertex -/
theorem solve_complete_graph (hinv : InvComplete) (np : Nat) (adj : Nat → Nat → Bool) (hnp : 0 < np)
    (hsym : ∀ i j, adj i j = adj j i) (hirr : ∀ i, adj i i = false) (hiso : ∀ i, i < np → ∃ j, j < np ∧ adj i j = true) :
    ∃ s, solve (graphSTab np adj) = .ok s ∧ SpanEq s.t (STab.zero (np + s.ne)) :=
  solve_complete_stabilizer hinv (graphSTab np adj) (graphSTab_good np adj hsym) (graph_indep np adj) hnp
    (fun p hp => graph_notProd np adj hirr p hp (hiso p hp))

/-! ### targets with an isolated photon: `solve` raises IndexError (finding D3, as a theorem about the model) -/

/-- any stabilizer target some of whose qubits are isolated `X` product qubits (set `I`, non-empty) while the others are not product
    qubits: the loop raises IndexError at the first isolated photon it meets -/
theorem solve_isolated_raises_stabilizer (I : Nat → Prop) (target : STab) (hg : target.Good) (hi : target.LinIndep) (hn : 0 < target.n)
    (hnp : ∀ p, p < target.n → ¬ I p → target.NotProd p) (hx : ∀ p, p < target.n → I p → target.LitX p)
    (hex : ∃ p, p < target.n ∧ I p) : solve target = .error .index := by
  obtain ⟨ne, hdet⟩ := determineNEmitters_ok target hi hn
  have i0 := rinv_init I target hg hi ne hdet hnp hx
  have h1 := photonLoop_err I target.n ne target.n hex _ i0
  have e0 : (List.range ne).foldl (fun (acc : STab) _ => (acc.insertQubit acc.n).norm) target = withEmitters target ne := rfl
  unfold solve
  rw [hdet]; simp only
  rw [e0, h1]

/-- **every graph with an isolated vertex makes the solver raise IndexError** (D3) -/
theorem solve_isolated_raises_graph (np : Nat) (adj : Nat → Nat → Bool) (hsym : ∀ i j, adj i j = adj j i)
    (hirr : ∀ i, adj i i = false) (hex : ∃ p, p < np ∧ ∀ j, j < np → adj p j = false) :
    solve (graphSTab np adj) = .error .index := by
  have hnp0 : 0 < np := by
    obtain ⟨p0, hp0, _⟩ := hex
    omega
  apply solve_isolated_raises_stabilizer (fun p => ∀ j, j < np → adj p j = false) (graphSTab np adj)
    (graphSTab_good np adj hsym) (graph_indep np adj) hnp0
  · intro p hp hI
    apply graph_notProd np adj hirr p hp
    apply Classical.byContradiction
    intro hno
    apply hI
    intro j hj
    cases h : adj p j
    · rfl
    · exact absurd ⟨j, hj, h⟩ hno
  · intro p hp hI
    exact graph_litX np adj hsym p hp hI
  · exact hex

/-- the empty target: `determine_n_emitters` takes `max` of an empty list (ValueError) -/
theorem solve_empty_raises (adj : Nat → Nat → Bool) : solve (graphSTab 0 adj) = .error .value := rfl

end Graphiq.Solver
