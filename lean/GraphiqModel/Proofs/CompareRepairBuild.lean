/-
  Proofs/CompareRepairBuild.lean — the multigraph `MG.build c` is a family of register paths (`Rep0`), and the operations
  met along the path of register `w` are the operations of the circuit that touch `w`, in order.

  Steps: inserting a node on an edge (`MG.splice`, the core of `_add` and `_insert_at`) turns the path
  `… u v …` of the edge's register into `… u x v …` and keeps every other path (`Rep0.splice`); `MG.add` appends a fresh
  node to the paths of its registers (`Rep0.add`); `MG.init` creates the two-node paths.
-/
import GraphiqModel.Proofs.CompareRepairWalk
namespace Graphiq.Compare
open Graphiq Graphiq.Export

/-! ## lists -/

theorem adj_cons {l : List Nd} {a b : Nd} (c : Nd) (h : Adj l a b) : Adj (c :: l) a b := by
  obtain ⟨m1, m2, rfl⟩ := h
  exact ⟨c :: m1, m2, rfl⟩

theorem adj_insert (l1 l2 : List Nd) (u v x a b : Nd) (h : Adj (l1 ++ u :: v :: l2) a b) (hne : ¬(a = u ∧ b = v)) :
    Adj (l1 ++ u :: x :: v :: l2) a b := by
  obtain ⟨m1, m2, hm⟩ := h
  induction l1 generalizing m1 with
  | nil =>
    cases m1 with
    | nil =>
      simp only [List.nil_append, List.cons.injEq] at hm
      exact absurd ⟨hm.1.symm, hm.2.1.symm⟩ hne
    | cons y m1' =>
      simp only [List.nil_append, List.cons_append, List.cons.injEq] at hm
      obtain ⟨rfl, hm⟩ := hm
      exact ⟨u :: x :: m1', m2, by simp [hm]⟩
  | cons c l1' ih =>
    cases m1 with
    | nil =>
      simp only [List.nil_append, List.cons_append, List.cons.injEq] at hm
      obtain ⟨rfl, hm⟩ := hm
      cases l1' with
      | nil =>
        simp only [List.nil_append, List.cons.injEq] at hm
        obtain ⟨rfl, _⟩ := hm
        exact ⟨[], x :: v :: l2, rfl⟩
      | cons d l1'' =>
        simp only [List.cons_append, List.cons.injEq] at hm
        obtain ⟨rfl, _⟩ := hm
        exact ⟨[], l1'' ++ u :: x :: v :: l2, rfl⟩
    | cons y m1' =>
      simp only [List.cons_append, List.cons.injEq] at hm
      exact adj_cons c (ih m1' hm.2)

theorem adj_insert_inv (l1 l2 : List Nd) (u v x a b : Nd) (h : Adj (l1 ++ u :: x :: v :: l2) a b) :
    (a = u ∧ b = x) ∨ (a = x ∧ b = v) ∨ Adj (l1 ++ u :: v :: l2) a b := by
  obtain ⟨m1, m2, hm⟩ := h
  induction l1 generalizing m1 with
  | nil =>
    cases m1 with
    | nil =>
      simp only [List.nil_append, List.cons.injEq] at hm
      exact Or.inl ⟨hm.1.symm, hm.2.1.symm⟩
    | cons y m1' =>
      cases m1' with
      | nil =>
        simp only [List.nil_append, List.cons_append, List.cons.injEq] at hm
        exact Or.inr (Or.inl ⟨hm.2.1.symm, hm.2.2.1.symm⟩)
      | cons z m1'' =>
        simp only [List.nil_append, List.cons_append, List.cons.injEq] at hm
        obtain ⟨rfl, rfl, hm⟩ := hm
        exact Or.inr (Or.inr ⟨u :: m1'', m2, by simp [hm]⟩)
  | cons c l1' ih =>
    cases m1 with
    | nil =>
      simp only [List.nil_append, List.cons_append, List.cons.injEq] at hm
      obtain ⟨rfl, hm⟩ := hm
      cases l1' with
      | nil =>
        simp only [List.nil_append, List.cons.injEq] at hm
        obtain ⟨rfl, _⟩ := hm
        exact Or.inr (Or.inr ⟨[], v :: l2, rfl⟩)
      | cons d l1'' =>
        simp only [List.cons_append, List.cons.injEq] at hm
        obtain ⟨rfl, _⟩ := hm
        exact Or.inr (Or.inr ⟨[], l1'' ++ u :: v :: l2, rfl⟩)
    | cons y m1' =>
      simp only [List.cons_append, List.cons.injEq] at hm
      rcases ih m1' hm.2 with h | h | h
      · exact Or.inl h
      · exact Or.inr (Or.inl h)
      · exact Or.inr (Or.inr (adj_cons c h))

/-! ## graph primitives -/

theorem inEdge_some (g : MG) (n : Nd) (w : Wire) (e : Edge) (h : g.inEdge n w = some e) :
    e ∈ g.edges ∧ e.dst = n ∧ e.key = w := by
  unfold MG.inEdge at h
  have hm := List.mem_of_find?_eq_some h
  have hp := List.find?_some h
  simp only [Bool.and_eq_true, beq_iff_eq] at hp
  exact ⟨hm, hp.1, hp.2⟩

theorem inEdge_isSome_of_mem (g : MG) (e : Edge) (he : e ∈ g.edges) : ∃ e', g.inEdge e.dst e.key = some e' := by
  cases h : g.inEdge e.dst e.key with
  | some e' => exact ⟨e', rfl⟩
  | none =>
    unfold MG.inEdge at h
    have := List.find?_eq_none.1 h e he
    simp at this

/-- a new node at the end of the node list -/
def MG.addNode (g : MG) (id : Nat) (o : NOp) : MG := { g with nodeId := id, nodes := g.nodes ++ [(Nd.op id, o)] }

theorem opOf_addNode (g : MG) (id : Nat) (ox : NOp) (n : Nd) :
    (g.addNode id ox).opOf n = match g.opOf n with
      | some o => some o
      | none => if Nd.op id = n then some ox else none := by
  unfold MG.addNode MG.opOf
  simp only [List.find?_append]
  cases h : g.nodes.find? (fun p => p.1 == n) with
  | some p => simp
  | none =>
    simp only [Option.none_or, Option.map_none]
    by_cases hx : Nd.op id = n
    · simp [hx]
    · simp [hx]

theorem opOf_addNode_old (g : MG) (id : Nat) (ox : NOp) (n : Nd) (o : NOp) (h : g.opOf n = some o) :
    (g.addNode id ox).opOf n = some o := by
  rw [opOf_addNode, h]

theorem opOf_none_of_not_mem (g : MG) (n : Nd) (h : n ∉ g.nodes.map (·.1)) : g.opOf n = none := by
  cases ho : g.opOf n with
  | none => rfl
  | some o => exact absurd (opOf_some_mem g n o ho) h

theorem Rep0.addNode {g : MG} {W : List Wire} {body : Wire → List Nd} (r : Rep0 g W body) (id : Nat) (o : Op)
    (hon : (opWires o).Nodup) : Rep0 (g.addNode id (.gate o)) W body where
  pathNodup := r.pathNodup
  bodyOp := by
    intro w hw n hn
    obtain ⟨k, o', h1, h2, h3⟩ := r.bodyOp w hw n hn
    exact ⟨k, o', h1, opOf_addNode_old g id _ n _ h2, h3⟩
  inpOp := fun w hw => opOf_addNode_old g id _ _ _ (r.inpOp w hw)
  outOp := fun w hw => opOf_addNode_old g id _ _ _ (r.outOp w hw)
  kindIn := by
    intro n w h
    rw [opOf_addNode] at h
    cases ho : g.opOf n with
    | some o' => rw [ho] at h; exact r.kindIn n w (by rw [ho]; exact h)
    | none =>
      rw [ho] at h
      simp only at h
      split at h <;> cases h
  kindOut := by
    intro n w h
    rw [opOf_addNode] at h
    cases ho : g.opOf n with
    | some o' => rw [ho] at h; exact r.kindOut n w (by rw [ho]; exact h)
    | none =>
      rw [ho] at h
      simp only at h
      split at h <;> cases h
  wiresNodup := by
    intro n o' h
    rw [opOf_addNode] at h
    cases ho : g.opOf n with
    | some o'' => rw [ho] at h; exact r.wiresNodup n o' (by rw [ho]; exact h)
    | none =>
      rw [ho] at h
      simp only at h
      split at h
      · injection h with h; injection h with h; rw [← h]; exact hon
      · cases h
  edge_sound0 := r.edge_sound0
  edge_complete := r.edge_complete
  inputsW := by
    intro w h
    apply r.inputsW w
    unfold MG.addNode at h
    simp only [List.map_append, List.mem_append, List.map_cons, List.map_nil, List.mem_singleton] at h
    rcases h with h | h
    · exact h
    · cases h

/-! ## inserting a node on an edge -/

theorem mem_splice_edges (g : MG) (e : Edge) (x : Nd) (e' : Edge) :
    e' ∈ (g.splice e x).edges ↔
      (e' ∈ g.edges ∨ e' = { src := e.src, dst := x, key := e.key } ∨ e' = { src := x, dst := e.dst, key := e.key }) ∧
      ¬(e'.src = e.src ∧ e'.dst = e.dst ∧ e'.key = e.key) := by
  unfold MG.splice MG.removeEdge
  simp only [List.mem_filter, List.mem_append, List.mem_cons, List.not_mem_nil, or_false, Bool.not_eq_true',
    Bool.and_eq_false_iff, beq_eq_false_iff_ne, ne_eq]
  constructor
  · rintro ⟨h1, h2⟩
    refine ⟨h1, ?_⟩
    rintro ⟨a, b, c⟩
    rcases h2 with (h | h) | h
    · exact h a
    · exact h b
    · exact h c
  · rintro ⟨h1, h2⟩
    refine ⟨h1, ?_⟩
    by_cases a : e'.src = e.src
    · by_cases b : e'.dst = e.dst
      · right; intro c; exact h2 ⟨a, b, c⟩
      · left; right; exact b
    · left; left; exact a

theorem opOf_splice (g : MG) (e : Edge) (x : Nd) : (g.splice e x).opOf = g.opOf := rfl
theorem nodes_splice (g : MG) (e : Edge) (x : Nd) : (g.splice e x).nodes = g.nodes := rfl

/-- **splicing a node into an edge inserts it into the path of the edge's register** -/
theorem Rep0.splice {g : MG} {W : List Wire} {body : Wire → List Nd} (r : Rep0 g W body) (e : Edge) (he : e ∈ g.edges)
    (id : Nat) (o : Op) (hxo : g.opOf (.op id) = some (.gate o)) (hwo : e.key ∈ opWires o)
    (hfresh : Nd.op id ∉ pathOf body e.key) (l1 l2 : List Nd) (h12 : pathOf body e.key = l1 ++ e.src :: e.dst :: l2)
    (body' : Wire → List Nd) (hp' : pathOf body' e.key = l1 ++ e.src :: Nd.op id :: e.dst :: l2)
    (hb' : ∀ w', w' ≠ e.key → body' w' = body w') : Rep0 (g.splice e (.op id)) W body' := by
  have hkW := (r.edge_sound0 e he).1
  have hnd := r.pathNodup _ hkW
  have hnd' : (pathOf body' e.key).Nodup := by
    rw [hp']
    rw [h12] at hnd hfresh
    have hperm : (l1 ++ e.src :: Nd.op id :: e.dst :: l2).Perm (Nd.op id :: (l1 ++ e.src :: e.dst :: l2)) := by
      have : l1 ++ e.src :: Nd.op id :: e.dst :: l2 = (l1 ++ [e.src]) ++ Nd.op id :: (e.dst :: l2) := by simp
      rw [this]
      have h2 : l1 ++ e.src :: e.dst :: l2 = (l1 ++ [e.src]) ++ (e.dst :: l2) := by simp
      rw [h2]
      exact List.perm_middle
    exact hperm.nodup_iff.2 (List.nodup_cons.2 ⟨hfresh, hnd⟩)
  have hpath' : ∀ w', w' ≠ e.key → pathOf body' w' = pathOf body w' := by
    intro w' hw'; unfold pathOf; rw [hb' w' hw']
  have hmem' : ∀ n, n ∈ pathOf body' e.key ↔ n = .op id ∨ n ∈ pathOf body e.key := by
    intro n; rw [hp', h12]; simp only [List.mem_append, List.mem_cons]; tauto
  refine ⟨?_, ?_, r.inpOp, r.outOp, r.kindIn, r.kindOut, r.wiresNodup, ?_, ?_, r.inputsW⟩
  · intro w hw
    by_cases hk : w = e.key
    · rw [hk]; exact hnd'
    · rw [hpath' w hk]; exact r.pathNodup w hw
  · intro w hw n hn
    by_cases hk : w = e.key
    · subst hk
      have hnp : n ∈ pathOf body' e.key := (mem_pathOf body' e.key n).2 (Or.inr (Or.inl hn))
      rcases (hmem' n).1 hnp with rfl | hold
      · exact ⟨id, o, rfl, hxo, hwo⟩
      · -- an old node of the path that is neither its input nor its output node
        have hne_in : n ≠ .inp e.key := by
          rintro rfl
          unfold pathOf at hnd'
          exact (List.nodup_cons.1 hnd').1 (List.mem_append_left _ hn)
        have hne_out : n ≠ .out e.key := by
          rintro rfl
          unfold pathOf at hnd'
          have := (List.nodup_cons.1 hnd').2
          have h2 := (List.nodup_append.1 this).2.2
          exact h2 _ hn _ (by simp) rfl
        rcases (mem_pathOf body e.key n).1 hold with h | h | h
        · exact absurd h hne_in
        · exact r.bodyOp e.key hw n h
        · exact absurd h hne_out
    · rw [hb' w hk] at hn
      exact r.bodyOp w hw n hn
  · intro e' he'
    obtain ⟨hor, hnot⟩ := (mem_splice_edges g e _ e').1 he'
    rcases hor with hold | rfl | rfl
    · obtain ⟨hk', hadj⟩ := r.edge_sound0 e' hold
      refine ⟨hk', ?_⟩
      by_cases hk : e'.key = e.key
      · rw [hk] at hadj ⊢
        rw [hp']
        rw [h12] at hadj
        exact adj_insert l1 l2 _ _ _ _ _ hadj (fun h => hnot ⟨h.1, h.2, hk⟩)
      · rw [hpath' _ hk]; exact hadj
    · exact ⟨hkW, by rw [hp']; exact ⟨l1, e.dst :: l2, rfl⟩⟩
    · exact ⟨hkW, by rw [hp']; exact ⟨l1 ++ [e.src], l2, by simp⟩⟩
  · intro w hw u v hadj
    by_cases hk : w = e.key
    · subst hk
      rw [hp'] at hadj
      have hxv : Nd.op id ≠ e.dst := by
        intro h; apply hfresh; rw [h12, h]; simp
      have hxu : Nd.op id ≠ e.src := by
        intro h; apply hfresh; rw [h12, h]; simp
      rcases adj_insert_inv l1 l2 _ _ _ _ _ hadj with ⟨rfl, rfl⟩ | ⟨rfl, rfl⟩ | hold
      · refine ⟨{ src := e.src, dst := .op id, key := e.key }, ?_, rfl, rfl, rfl⟩
        exact (mem_splice_edges g e _ _).2 ⟨Or.inr (Or.inl rfl), fun h => hxv h.2.1⟩
      · refine ⟨{ src := .op id, dst := e.dst, key := e.key }, ?_, rfl, rfl, rfl⟩
        exact (mem_splice_edges g e _ _).2 ⟨Or.inr (Or.inr rfl), fun h => hxu h.1⟩
      · rw [← h12] at hold
        obtain ⟨e0, he0, h1, h2, h3⟩ := r.edge_complete e.key hw u v hold
        refine ⟨e0, (mem_splice_edges g e _ _).2 ⟨Or.inl he0, ?_⟩, h1, h2, h3⟩
        rintro ⟨hs, hd, _⟩
        -- in the new path `e.src` is followed by the new node, not by `e.dst`
        rw [h1] at hs; rw [h2] at hd
        subst hs hd
        rw [← hp'] at hadj
        obtain ⟨r', hr'⟩ := adj_next _ hnd' l1 (Nd.op id :: e.dst :: l2) e.src e.dst hp' hadj
        injection hr' with h _
        exact hxv h
    · rw [hpath' w hk] at hadj
      obtain ⟨e0, he0, h1, h2, h3⟩ := r.edge_complete w hw u v hadj
      refine ⟨e0, (mem_splice_edges g e _ _).2 ⟨Or.inl he0, ?_⟩, h1, h2, h3⟩
      rintro ⟨_, _, hkk⟩
      exact hk (h3.symm.trans hkk)

/-- no two edges with the same endpoints and key -/
def trip (e : Edge) : Nd × Nd × Wire := (e.src, e.dst, e.key)
def TripNodup (g : MG) : Prop := (g.edges.map trip).Nodup

theorem tripNodup_splice {g : MG} {W : List Wire} {body : Wire → List Nd} (r : Rep0 g W body) (h : TripNodup g)
    (e : Edge) (he : e ∈ g.edges) (id : Nat) (hfresh : Nd.op id ∉ pathOf body e.key) : TripNodup (g.splice e (.op id)) := by
  unfold TripNodup MG.splice MG.removeEdge
  refine List.Nodup.sublist (List.Sublist.map _ List.filter_sublist) ?_
  show ((g.edges ++ [({ src := e.src, dst := Nd.op id, key := e.key } : Edge), ({ src := Nd.op id, dst := e.dst, key := e.key } : Edge)]).map trip).Nodup
  rw [List.map_append, List.nodup_append]
  have hdst : e.dst ∈ pathOf body e.key := adj_mem_right (r.edge_sound0 e he).2
  have hxd : Nd.op id ≠ e.dst := fun h' => hfresh (h' ▸ hdst)
  refine ⟨h, ?_, ?_⟩
  · simp only [List.map_cons, List.map_nil, trip, List.nodup_cons, List.mem_singleton, Prod.mk.injEq, List.not_mem_nil,
      not_false_eq_true, List.nodup_nil, and_true]
    intro hh
    exact hxd hh.2
  · intro a ha b hb hab
    obtain ⟨e0, he0, rfl⟩ := List.mem_map.1 ha
    simp only [List.map_cons, List.map_nil, List.mem_cons, List.not_mem_nil, or_false] at hb
    obtain ⟨hk0, hadj0⟩ := r.edge_sound0 e0 he0
    rcases hb with rfl | rfl
    · simp only [trip, Prod.mk.injEq] at hab
      apply hfresh
      rw [← hab.2.2, ← hab.2.1]
      exact adj_mem_right hadj0
    · simp only [trip, Prod.mk.injEq] at hab
      apply hfresh
      rw [← hab.2.2, ← hab.1]
      exact adj_mem_left hadj0

/-! ## `MG.add` -/

theorem adj_last (l : List Nd) (a z s : Nd) (hn : (l ++ [a, z]).Nodup) (h : Adj (l ++ [a, z]) s z) : s = a := by
  obtain ⟨m1, m2, hm⟩ := h
  rcases List.eq_nil_or_concat m2 with rfl | ⟨m2', y, rfl⟩
  · have h1 : (l ++ [a]) ++ [z] = (m1 ++ [s]) ++ [z] := by simpa using hm
    have := (List.append_inj' h1 rfl).1
    have h2 := (List.append_inj' this rfl).2
    injection h2 with h2 _
    exact h2.symm
  · exfalso
    have h1 : (l ++ [a]) ++ [z] = (m1 ++ s :: z :: m2') ++ [y] := by simpa using hm
    have h2 := (List.append_inj' h1 rfl).1
    have hz : z ∈ l ++ [a] := by rw [h2]; simp
    have h3 : l ++ [a, z] = (l ++ [a]) ++ [z] := by simp
    rw [h3] at hn
    exact (List.nodup_append.1 hn).2.2 z hz z (by simp) rfl

/-- body update -/
def upd (body : Wire → List Nd) (w : Wire) (l : List Nd) : Wire → List Nd := fun w' => if w' = w then l else body w'

theorem upd_same (body : Wire → List Nd) (w : Wire) (l : List Nd) : upd body w l w = l := by simp [upd]
theorem upd_other (body : Wire → List Nd) (w w' : Wire) (l : List Nd) (h : w' ≠ w) : upd body w l w' = body w' := by simp [upd, h]

/-- counters and nodes untouched -/
def SameNodes (g g' : MG) : Prop :=
  g'.nodes = g.nodes ∧ g'.nodeId = g.nodeId ∧ g'.ne = g.ne ∧ g'.np = g.np ∧ g'.nc = g.nc

theorem SameNodes.refl (g : MG) : SameNodes g g := ⟨rfl, rfl, rfl, rfl, rfl⟩
theorem SameNodes.trans {a b c : MG} (h1 : SameNodes a b) (h2 : SameNodes b c) : SameNodes a c :=
  ⟨h2.1.trans h1.1, h2.2.1.trans h1.2.1, h2.2.2.1.trans h1.2.2.1, h2.2.2.2.1.trans h1.2.2.2.1, h2.2.2.2.2.trans h1.2.2.2.2⟩
theorem SameNodes.opOf {a b : MG} (h : SameNodes a b) : b.opOf = a.opOf := by
  funext n; unfold MG.opOf; rw [h.1]

/-- the splices of `_add`: the new node goes to the end of the path of each of its registers -/
theorem add_splices (id : Nat) (o : Op) (W : List Wire) :
    ∀ (ws : List Wire) (g : MG) (body : Wire → List Nd), Rep0 g W body → ws.Nodup →
      (∀ w ∈ ws, w ∈ W ∧ w ∈ opWires o ∧ Nd.op id ∉ pathOf body w) → g.opOf (.op id) = some (.gate o) → TripNodup g →
      ∃ body', Rep0 (ws.foldl (fun g w => match g.inEdge (.out w) w with
          | some e => g.splice e (.op id)
          | none => g) g) W body' ∧
        (∀ w ∈ ws, body' w = body w ++ [.op id]) ∧ (∀ w, w ∉ ws → body' w = body w) ∧
        SameNodes g (ws.foldl (fun g w => match g.inEdge (.out w) w with
          | some e => g.splice e (.op id)
          | none => g) g) ∧
        TripNodup (ws.foldl (fun g w => match g.inEdge (.out w) w with
          | some e => g.splice e (.op id)
          | none => g) g) := by
  intro ws
  induction ws with
  | nil => intro g body r _ _ _ ht; exact ⟨body, r, by simp, fun _ _ => rfl, SameNodes.refl g, ht⟩
  | cons w ws' ih =>
    intro g body r hnd hws hxo ht
    obtain ⟨hwW, hwo, hfresh⟩ := hws w (by simp)
    -- the last edge of the path of `w`
    obtain ⟨l1, u, hl1⟩ : ∃ l1 u, Nd.inp w :: body w = l1 ++ [u] := by
      rcases List.eq_nil_or_concat (Nd.inp w :: body w) with h | ⟨l1, u, h⟩
      · cases h
      · exact ⟨l1, u, by rw [h, List.concat_eq_append]⟩
    have hpath : pathOf body w = l1 ++ [u, Nd.out w] := by
      unfold pathOf
      rw [← List.cons_append, hl1]; simp
    have hadj : Adj (pathOf body w) u (.out w) := ⟨l1, [], by rw [hpath]⟩
    obtain ⟨e0, he0, hs0, hd0, hk0⟩ := r.edge_complete w hwW u _ hadj
    obtain ⟨e, hfind⟩ : ∃ e, g.inEdge (.out w) w = some e := by
      have := inEdge_isSome_of_mem g e0 he0
      rwa [hd0, hk0] at this
    obtain ⟨he, hed, hek⟩ := inEdge_some g _ _ e hfind
    have hes : e.src = u := by
      have ha := (r.edge_sound0 e he).2
      rw [hek, hed, hpath] at ha
      have hn := r.pathNodup w hwW
      rw [hpath] at hn
      exact adj_last l1 u (.out w) e.src hn ha
    rw [List.foldl_cons, hfind]
    simp only
    have h12 : pathOf body e.key = l1 ++ e.src :: e.dst :: [] := by rw [hek, hes, hed, hpath]
    have hp' : pathOf (upd body w (body w ++ [Nd.op id])) e.key = l1 ++ e.src :: Nd.op id :: e.dst :: [] := by
      rw [hek, hes, hed]
      unfold pathOf
      rw [upd_same, ← List.cons_append, ← List.cons_append, hl1]
      simp
    have r' := r.splice e he id o hxo (by rw [hek]; exact hwo) (by rw [hek]; exact hfresh) l1 [] h12
      (upd body w (body w ++ [Nd.op id])) hp' (fun w' hw' => upd_other body w w' _ (by rw [← hek]; exact hw'))
    have hnd' := List.nodup_cons.1 hnd
    have ht' : TripNodup (g.splice e (.op id)) := tripNodup_splice r ht e he id (by rw [hek]; exact hfresh)
    obtain ⟨body'', r'', hin, hout, hsn, ht''⟩ := ih (g.splice e (.op id)) _ r' hnd'.2
      (by
        intro w' hw'
        obtain ⟨a, b, c⟩ := hws w' (List.mem_cons_of_mem _ hw')
        refine ⟨a, b, ?_⟩
        have hne : w' ≠ w := fun h => hnd'.1 (h ▸ hw')
        unfold pathOf
        rw [upd_other body w w' _ hne]
        exact c)
      (by rw [opOf_splice]; exact hxo) ht'
    refine ⟨body'', r'', ?_, ?_, ?_, ht''⟩
    · intro w' hw'
      rcases List.mem_cons.1 hw' with rfl | h
      · rw [hout _ hnd'.1, upd_same]
      · have hne : w' ≠ w := fun h' => hnd'.1 (h' ▸ h)
        rw [hin w' h, upd_other body w w' _ hne]
    · intro w' hw'
      have h1 : w' ≠ w := fun h => hw' (by rw [h]; simp)
      have h2 : w' ∉ ws' := fun h => hw' (List.mem_cons_of_mem _ h)
      rw [hout w' h2, upd_other body w w' _ h1]
    · exact SameNodes.trans ⟨rfl, rfl, rfl, rfl, rfl⟩ hsn

/-- the register exists: `_add_reg_if_absent` does nothing -/
def RegOK (g : MG) (w : Wire) : Prop := w.i < g.nOf w.t ∧ g.hasNode (.inp w) = true

theorem addRegIfAbsent_ok (g : MG) (w : Wire) (h : RegOK g w) : g.addRegIfAbsent w = .ok g := by
  unfold MG.addRegIfAbsent
  have h1 : ¬ w.i > g.nOf w.t := by have := h.1; omega
  have h2 : ¬ w.i = g.nOf w.t := by have := h.1; omega
  simp only [h1, h2, if_false, h.2, if_true]

theorem foldlM_ok_const (ws : List Wire) (g : MG) (h : ∀ w ∈ ws, g.addRegIfAbsent w = .ok g) :
    ws.foldlM MG.addRegIfAbsent g = .ok g := by
  induction ws with
  | nil => rfl
  | cons w ws' ih =>
    rw [List.foldlM_cons, h w (by simp)]
    exact ih (fun w' hw' => h w' (List.mem_cons_of_mem _ hw'))

theorem mem_sortQ (l : List QReg) (q : QReg) (h : q ∈ sortQ l) : q ∈ l := by
  unfold sortQ at h
  split at h
  · split at h
    · exact h
    · simp only [List.mem_cons, List.not_mem_nil, or_false] at h ⊢; tauto
  · exact h

/-- operations met along a path -/
def gateAt (g : MG) (n : Nd) : Option Op :=
  match g.opOf n with
  | some (.gate o) => some o
  | _ => none

def wireOps (g : MG) (body : Wire → List Nd) (w : Wire) : List Op := (body w).filterMap (gateAt g)

/-- **`CircuitDAG.add` on existing registers appends a fresh node to the path of each of its registers** -/
theorem Rep0.add {g : MG} {W : List Wire} {body : Wire → List Nd} (r : Rep0 g W body) (o : Op)
    (hW : ∀ w ∈ opWires o, w ∈ W) (hon : (opWires o).Nodup) (hreg : ∀ w ∈ W, RegOK g w)
    (hid : ∀ n ∈ g.nodes.map (·.1), ∀ k, n = .op k → k ≤ g.nodeId) (ht : TripNodup g) :
    ∃ g' body', g.add o = .ok g' ∧ Rep0 g' W body' ∧
      (∀ w, body' w = body w ++ (if w ∈ opWires o then [.op (g.nodeId + 1)] else [])) ∧
      g'.nodes = g.nodes ++ [(.op (g.nodeId + 1), .gate o)] ∧ g'.nodeId = g.nodeId + 1 ∧
      g'.ne = g.ne ∧ g'.np = g.np ∧ g'.nc = g.nc ∧ TripNodup g' := by
  have hc : (o.cRegs.map fun i => (⟨.c, i⟩ : Wire)).foldlM MG.addRegIfAbsent g = .ok g := by
    apply foldlM_ok_const
    intro w hw
    apply addRegIfAbsent_ok g w (hreg w (hW w _))
    unfold opWires
    exact List.mem_append_right _ hw
  have hq : ((sortQ o.qRegs).map Wire.ofQ).foldlM MG.addRegIfAbsent g = .ok g := by
    apply foldlM_ok_const
    intro w hw
    apply addRegIfAbsent_ok g w (hreg w (hW w _))
    obtain ⟨q, hq, rfl⟩ := List.mem_map.1 hw
    unfold opWires
    exact List.mem_append_left _ (List.mem_map_of_mem (mem_sortQ _ _ hq))
  have hfreshN : Nd.op (g.nodeId + 1) ∉ g.nodes.map (·.1) := by
    intro h
    have := hid _ h (g.nodeId + 1) rfl
    omega
  have r1 : Rep0 (g.addNode (g.nodeId + 1) (.gate o)) W body := r.addNode _ o hon
  have hxo : (g.addNode (g.nodeId + 1) (.gate o)).opOf (.op (g.nodeId + 1)) = some (.gate o) := by
    rw [opOf_addNode, opOf_none_of_not_mem g _ hfreshN]; simp
  obtain ⟨body', r', hin, hout, hsn, ht'⟩ := add_splices (g.nodeId + 1) o W (opWires o) _ body r1 hon
    (by
      intro w hw
      refine ⟨hW w hw, hw, ?_⟩
      intro hmem
      exact hfreshN (r.path_mem_nodes w (hW w hw) _ hmem))
    hxo ht
  refine ⟨_, body', ?_, r', ?_, hsn.1, hsn.2.1, hsn.2.2.1, hsn.2.2.2.1, hsn.2.2.2.2, ht'⟩
  · unfold MG.add
    rw [hc]
    simp only [bind, Except.bind, hq, pure, Except.pure]
    rfl
  · intro w
    by_cases hw : w ∈ opWires o
    · rw [if_pos hw, hin w hw]
    · rw [if_neg hw, hout w hw]; simp

end Graphiq.Compare
