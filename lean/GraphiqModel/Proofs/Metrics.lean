/-
  Metrics.lean — lemmas for C18: the label-index queries of the metrics equal predicates on the nodes' operations; the
  operation nodes of a circuit built by `add` are the operation list.
-/
import GraphiqModel.Model.Metrics
import GraphiqModel.Proofs.Dag
set_option linter.unusedSectionVars false
set_option linter.unusedSimpArgs false
namespace Graphiq
namespace Dag
open Relation

/-! ## `get_node_by_labels` = filter by predicate -/

theorem mem_getNodeByLabels_aux (c : Dag) (labels : List String) (rem : List NodeId) (n : NodeId) :
    n ∈ labels.foldl (fun rem l => rem.filter (fun n => (dictGet c.nodeDict l).contains n)) rem ↔
      n ∈ rem ∧ ∀ l ∈ labels, n ∈ dictGet c.nodeDict l := by
  induction labels generalizing rem with
  | nil => simp
  | cons l rest ih =>
    rw [List.foldl_cons, ih]
    simp only [List.mem_filter, List.contains_iff_mem, List.mem_cons, forall_eq_or_imp]
    tauto

theorem nodup_getNodeByLabels_aux (c : Dag) (labels : List String) (rem : List NodeId) (h : rem.Nodup) :
    (labels.foldl (fun rem l => rem.filter (fun n => (dictGet c.nodeDict l).contains n)) rem).Nodup := by
  induction labels generalizing rem with
  | nil => exact h
  | cons l rest ih => rw [List.foldl_cons]; exact ih _ (h.filter _)

/-- the keys of node `n` (labels, class name, register-type description; "Input"/"Output") -/
def keysAt (c : Dag) (n : NodeId) : List String :=
  match c.opOf? n with
  | some op => indexKeysOf n op
  | none => []

theorem indexCount_pos_iff (c : Dag) (n : NodeId) (l : String) : 0 < c.indexCount n l ↔ l ∈ c.keysAt n := by
  unfold indexCount keysAt
  cases c.opOf? n with
  | none => simp
  | some op => simp [List.count_pos_iff]

/-- **`get_node_by_labels(labels)` = the nodes all of whose keys include every label** (a duplicate-free list) -/
theorem getNodeByLabels_spec {c : Dag} (h : DagInv c) (labels : List String) (n : NodeId) :
    (n ∈ c.getNodeByLabels labels ↔ n ∈ c.nodeIds ∧ ∀ l ∈ labels, l ∈ c.keysAt n) ∧ (c.getNodeByLabels labels).Nodup := by
  obtain ⟨P, g⟩ := h
  constructor
  · unfold getNodeByLabels
    rw [mem_getNodeByLabels_aux]
    constructor
    · rintro ⟨h1, h2⟩
      refine ⟨h1, fun l hl => ?_⟩
      rw [← indexCount_pos_iff, ← g.inv.nodeDict_ok]
      exact List.count_pos_iff.mpr (h2 l hl)
    · rintro ⟨h1, h2⟩
      refine ⟨h1, fun l hl => ?_⟩
      have := (indexCount_pos_iff c n l).mpr (h2 l hl)
      rw [← g.inv.nodeDict_ok] at this
      exact List.count_pos_iff.mp this
  · exact nodup_getNodeByLabels_aux c labels _ g.inv.ids_nodup

/-- **`get_node_exclude_labels(labels)` = the nodes none of whose keys is one of the labels** (a duplicate-free list) -/
theorem getNodeExcludeLabels_spec {c : Dag} (h : DagInv c) (labels : List String) (n : NodeId) :
    (n ∈ c.getNodeExcludeLabels labels ↔ n ∈ c.nodeIds ∧ ∀ l ∈ labels, l ∉ c.keysAt n) ∧ (c.getNodeExcludeLabels labels).Nodup := by
  obtain ⟨P, g⟩ := h
  constructor
  · unfold getNodeExcludeLabels
    rw [List.mem_filter]
    simp only [Bool.not_eq_true', List.any_eq_false, List.contains_iff_mem]
    constructor
    · rintro ⟨h1, h2⟩
      refine ⟨h1, fun l hl hk => ?_⟩
      have := (indexCount_pos_iff c n l).mpr hk
      rw [← g.inv.nodeDict_ok] at this
      exact h2 l hl (by simpa using List.count_pos_iff.mp this)
    · rintro ⟨h1, h2⟩
      refine ⟨h1, fun l hl => ?_⟩
      have : ¬ n ∈ dictGet c.nodeDict l := by
        intro hm
        have hc : 0 < (dictGet c.nodeDict l).count n := List.count_pos_iff.mpr hm
        rw [g.inv.nodeDict_ok] at hc
        exact h2 l hl ((indexCount_pos_iff c n l).mp hc)
      simpa using this
  · exact g.inv.ids_nodup.filter _

/-- two duplicate-free lists with the same members have the same length -/
theorem length_eq_of_nodup_of_mem_iff {α : Type} {l1 l2 : List α} (h1 : l1.Nodup) (h2 : l2.Nodup)
    (h : ∀ x, x ∈ l1 ↔ x ∈ l2) : l1.length = l2.length := by
  have a := h1.length_le_of_subset (fun x hx => (h x).mp hx)
  have b := h2.length_le_of_subset (fun x hx => (h x).mpr hx)
  omega

/-- the number of nodes found by `get_node_by_labels` = the number of nodes whose keys include every label -/
theorem length_getNodeByLabels {c : Dag} (h : DagInv c) (labels : List String) :
    (c.getNodeByLabels labels).length =
      (c.nodeIds.filter (fun n => labels.all (fun l => (c.keysAt n).contains l))).length := by
  have hs := fun n => (getNodeByLabels_spec h labels n).1
  have hnd := (getNodeByLabels_spec h labels (.op 0)).2
  obtain ⟨P, g⟩ := h
  apply length_eq_of_nodup_of_mem_iff hnd (g.inv.ids_nodup.filter _)
  intro n
  rw [hs n, List.mem_filter]
  simp [List.all_eq_true]

end Dag

/-! ## circuits built by `add`: the operation nodes are the operation list -/
namespace Metrics
open Dag

/-- the operations held by the integer nodes, in node order -/
def isOpNode (p : NodeId × Op) : Bool := match p.1 with | .op _ => true | _ => false

def opsOf (c : Dag) : List Op := (c.nodes.filter isOpNode).map (·.2)

def isIONode (p : NodeId × Op) : Bool := match p.1 with | .op _ => false | _ => true

theorem addRegIfAbsent_nodes {c : Dag} {P : Paths} (g : Good c P) (r : Reg) :
    ∃ ios, (c.addRegIfAbsent r).1.nodes = c.nodes ++ ios ∧ (∀ p ∈ ios, isIONode p = true) := by
  by_cases h1 : c.regs r.ty < r.idx
  · rw [addRegIfAbsent_gap h1]; exact ⟨[], by simp, by simp⟩
  · by_cases h2 : r.idx = c.regs r.ty
    · rw [addRegIfAbsent_new g.inv h2]
      exact ⟨[(.inp r, Op.io .input r), (.out r, Op.io .output r)], rfl, by simp [isIONode]⟩
    · have hl : c.live r := by unfold live; omega
      rw [addRegIfAbsent_old g.inv hl]; exact ⟨[], by simp, by simp⟩

theorem addRegs_nodes {c : Dag} {P : Paths} (g : Good c P) (rs : List Reg) :
    ∃ ios, (c.addRegs rs).1.nodes = c.nodes ++ ios ∧ (∀ p ∈ ios, isIONode p = true) := by
  induction rs generalizing c P with
  | nil => exact ⟨[], by simp [addRegs], by simp⟩
  | cons r rest ih =>
    obtain ⟨ios1, h1, h1'⟩ := addRegIfAbsent_nodes g r
    obtain ⟨P1, g1, _⟩ := addRegIfAbsent_good g r
    unfold addRegs
    cases hres : c.addRegIfAbsent r with
    | mk c1 err =>
      rw [hres] at h1 g1
      simp only at h1 g1
      cases err with
      | some e => exact ⟨ios1, h1, h1'⟩
      | none =>
        obtain ⟨ios2, h2, h2'⟩ := ih g1
        refine ⟨ios1 ++ ios2, by rw [h2, h1, List.append_assoc], ?_⟩
        intro p hp
        rcases List.mem_append.mp hp with hp | hp
        · exact h1' p hp
        · exact h2' p hp

theorem ensureRegs_nodes {c : Dag} {P : Paths} (g : Good c P) (op : Op) :
    ∃ ios, (c.ensureRegs op).1.nodes = c.nodes ++ ios ∧ (∀ p ∈ ios, isIONode p = true) := by
  obtain ⟨ios1, h1, h1'⟩ := addRegs_nodes g (op.cregs.map (Reg.mk .c))
  obtain ⟨P1, g1, _⟩ := addRegs_good g (op.cregs.map (Reg.mk .c))
  unfold ensureRegs
  cases hres : c.addRegs (op.cregs.map (Reg.mk .c)) with
  | mk c1 err =>
    rw [hres] at h1 g1
    simp only at h1 g1
    cases err with
    | some e => exact ⟨ios1, h1, h1'⟩
    | none =>
      simp only
      by_cases hq : op.qregs.isEmpty = true
      · simp only [hq, if_true]; exact ⟨ios1, h1, h1'⟩
      · have hq' : op.qregs.isEmpty = false := by simpa using hq
        simp only [hq', Bool.false_eq_true, if_false]
        obtain ⟨ios2, h2, h2'⟩ := addRegs_nodes g1 (sortRegs op.qregs)
        refine ⟨ios1 ++ ios2, by rw [h2, h1, List.append_assoc], ?_⟩
        intro p hp
        rcases List.mem_append.mp hp with hp | hp
        · exact h1' p hp
        · exact h2' p hp

theorem opsOf_append_io (nodes ios : List (NodeId × Op)) (h : ∀ p ∈ ios, isIONode p = true) :
    ((nodes ++ ios).filter isOpNode) = nodes.filter isOpNode := by
  rw [List.filter_append]
  have : ios.filter isOpNode = [] := by
    rw [List.filter_eq_nil_iff]
    intro p hp
    have := h p hp
    unfold isIONode at this
    unfold isOpNode
    cases hp1 : p.1 <;> simp [hp1] at this ⊢
  rw [this, List.append_nil]

/-- a successful `add` appends the operation to the list of operations held by the integer nodes -/
theorem opsOf_add {c : Dag} {P : Paths} (g : Good c P) {op : Op} (hop : OpWF op) (hok : (c.add op).2 = none) :
    opsOf (c.add op).1 = opsOf c ++ [op] := by
  obtain ⟨ios, hn, hio⟩ := ensureRegs_nodes g op
  obtain ⟨P1, g1, hl1, _, _⟩ := ensureRegs_good g op
  unfold add at hok ⊢
  cases hres : c.ensureRegs op with
  | mk c1 err =>
    rw [hres] at hn g1 hl1 hok
    simp only at hn g1 hl1 hok
    cases err with
    | some e => simp at hok
    | none =>
      simp only
      obtain ⟨_, _, _, _, hnodes, _⟩ := add_good' g1 hop (hl1 rfl)
      unfold opsOf
      rw [hnodes, hn, List.filter_append, opsOf_append_io _ _ hio]
      have : List.filter isOpNode [(NodeId.op (c1.nodeId + 1), op)] = [(NodeId.op (c1.nodeId + 1), op)] := by
        rw [List.filter_cons_of_pos (by simp [isOpNode])]; rfl
      rw [this]; simp

theorem opsOf_addRegs {c : Dag} {P : Paths} (g : Good c P) (rs : List Reg) : opsOf (c.addRegs rs).1 = opsOf c := by
  obtain ⟨ios, hn, hio⟩ := addRegs_nodes g rs
  unfold opsOf; rw [hn, opsOf_append_io _ _ hio]

theorem opsOf_init (ne np nc : Nat) : opsOf (Dag.init ne np nc) = [] := by
  unfold Dag.init
  rw [opsOf_addRegs empty_good]
  rfl

/-- **the operation nodes of `CircuitDAG(ne,np,nc)` + `add(op)` for every op of the list are the list itself**, and
    the circuit satisfies DagInv -/
theorem build_spec (ne np nc : Nat) (seq : List Op) (hwf : ∀ op ∈ seq, OpWF op) (hok : (build ne np nc seq).2 = none) :
    opsOf (build ne np nc seq).1 = seq ∧ DagInv (build ne np nc seq).1 := by
  have herr : ∀ (l : List Op) (c : Dag) (e : DErr), (l.foldl buildStep (c, some e)).2 = some e := by
    intro l; induction l with
    | nil => intro c e; rfl
    | cons o t iht => intro c e; rw [List.foldl_cons]; exact iht c e
  have key : ∀ (seq : List Op) (c : Dag) (P : Paths), Good c P → (∀ op ∈ seq, OpWF op) →
      (seq.foldl buildStep (c, none)).2 = none →
      opsOf (seq.foldl buildStep (c, none)).1 = opsOf c ++ seq ∧ DagInv (seq.foldl buildStep (c, none)).1 := by
    intro seq
    induction seq with
    | nil => intro c P g _ _; exact ⟨by simp, ⟨P, g⟩⟩
    | cons op rest ih =>
      intro c P g hwf hok
      rw [List.foldl_cons] at hok ⊢
      have hstep : buildStep (c, none) op = c.add op := rfl
      rw [hstep] at hok ⊢
      cases hres : c.add op with
      | mk c1 err =>
        rw [hres] at hok
        cases err with
        | some e => rw [herr] at hok; simp at hok
        | none =>
          obtain ⟨P1, g1⟩ := add_good g (hwf op (by simp))
          rw [hres] at g1
          have h1 := opsOf_add g (hwf op (by simp)) (by rw [hres])
          rw [hres] at h1
          obtain ⟨a, b⟩ := ih c1 P1 g1 (fun o ho => hwf o (List.mem_cons_of_mem _ ho)) hok
          exact ⟨by rw [a, h1]; simp, b⟩
  obtain ⟨P0, g0⟩ := init_good ne np nc
  have := key seq (Dag.init ne np nc) P0 g0 hwf hok
  rw [opsOf_init] at this
  simpa [build] using this

end Metrics
end Graphiq

/-! ## counting metrics: from label queries to predicates on the operation list -/
namespace Graphiq
namespace Metrics
open Dag

theorem dictGet_of_not_has {κ α : Type} [DecidableEq κ] (d : List (κ × List α)) (k : κ) (h : dictHas d k = false) :
    dictGet d k = [] := by
  induction d with
  | nil => rfl
  | cons p d ih =>
    obtain ⟨k0, l⟩ := p
    unfold dictHas at h
    unfold dictGet
    by_cases hk : k0 = k
    · simp [hk] at h
    · simp only [hk, if_false] at h ⊢; exact ih h

theorem keysAt_of_mem {c : Dag} (hnd : c.nodeIds.Nodup) {p : NodeId × Op} (hp : p ∈ c.nodes) :
    c.keysAt p.1 = indexKeysOf p.1 p.2 := by
  unfold keysAt
  rw [(opOf_eq_some hnd).mpr (show (p.1, p.2) ∈ c.nodes from hp)]

/-- counting nodes by a predicate on their keys = counting (node, operation) pairs -/
theorem length_filter_nodeIds {c : Dag} (hnd : c.nodeIds.Nodup) (f : List String → Bool) :
    (c.nodeIds.filter (fun n => f (c.keysAt n))).length = (c.nodes.filter (fun p => f (indexKeysOf p.1 p.2))).length := by
  unfold nodeIds
  rw [List.filter_map, List.length_map]
  congr 1
  apply List.filter_congr
  intro p hp
  simp only [Function.comp]
  rw [keysAt_of_mem hnd hp]

/-- a key predicate that is false on the I/O keys counts operation nodes only -/
theorem length_filter_nodes_ops (nodes : List (NodeId × Op)) (f : List String → Bool) (hin : f ["Input"] = false)
    (hout : f ["Output"] = false) :
    (nodes.filter (fun p => f (indexKeysOf p.1 p.2))).length =
      ((nodes.filter isOpNode).map (·.2)).countP (fun op => f op.indexKeys) := by
  induction nodes with
  | nil => rfl
  | cons p t ih =>
    obtain ⟨n, op⟩ := p
    cases n with
    | inp r =>
      rw [List.filter_cons_of_neg (by simp [indexKeysOf, hin]), List.filter_cons_of_neg (by simp [isOpNode])]
      exact ih
    | out r =>
      rw [List.filter_cons_of_neg (by simp [indexKeysOf, hout]), List.filter_cons_of_neg (by simp [isOpNode])]
      exact ih
    | op i =>
      rw [List.filter_cons_of_pos (p := isOpNode) (by simp [isOpNode])]
      rw [List.map_cons, List.countP_cons]
      by_cases hf : f op.indexKeys = true
      · rw [List.filter_cons_of_pos (by simpa [indexKeysOf] using hf), List.length_cons, ih]
        simp [hf]
      · rw [List.filter_cons_of_neg (by simpa [indexKeysOf] using hf), ih]
        simp [hf]

/-- the names under which graphiq itself files a node in `node_dict`: the class names and the register-type descriptions -/
def reservedNames : List String :=
  Kind.all.map Kind.name ++ ["Emitter", "Photonic", "Emitter-Emitter", "Emitter-Photonic", "Photonic-Emitter", "Photonic-Photonic"]

/-- operations on at most two quantum registers whose labels (the constructor's "one-qubit"/"two-qubit" and any user label
    added with `add_labels`, e.g. the solver's "Fixed") do not collide with a class name or a register-type description -/
structure PlainOp (op : Op) : Prop where
  labels : ∀ l ∈ op.labels, l ∉ reservedNames
  arity : op.qregs.length ≤ 2

theorem parse_cases_of_arity {op : Op} (hwf : OpWF op) (har : op.qregs.length ≤ 2) :
    (op.qregs.map (·.ty) = [.e] ∧ op.parseQRegTypes = "Emitter") ∨ (op.qregs.map (·.ty) = [.p] ∧ op.parseQRegTypes = "Photonic") ∨
    (op.qregs.map (·.ty) = [.e, .e] ∧ op.parseQRegTypes = "Emitter-Emitter") ∨
    (op.qregs.map (·.ty) = [.e, .p] ∧ op.parseQRegTypes = "Emitter-Photonic") ∨
    (op.qregs.map (·.ty) = [.p, .e] ∧ op.parseQRegTypes = "Photonic-Emitter") ∨
    (op.qregs.map (·.ty) = [.p, .p] ∧ op.parseQRegTypes = "Photonic-Photonic") := by
  have hq := hwf.qregs_quantum
  have hne := hwf.qregs_ne
  unfold Op.parseQRegTypes
  cases hqs : op.qregs with
  | nil => exact absurd hqs hne
  | cons a t =>
    rw [hqs] at hq har
    have ha := hq a (by simp)
    cases t with
    | nil =>
      cases hta : a.ty with
      | e => left; simp [hta]; rfl
      | p => right; left; simp [hta]; rfl
      | c => exact absurd hta ha
    | cons b t2 =>
      have hb := hq b (by simp)
      cases t2 with
      | cons x y => simp at har
      | nil =>
        cases hta : a.ty with
        | c => exact absurd hta ha
        | e =>
          cases htb : b.ty with
          | c => exact absurd htb hb
          | e => right; right; left; simp [hta, htb]; rfl
          | p => right; right; right; left; simp [hta, htb]; rfl
        | p =>
          cases htb : b.ty with
          | c => exact absurd htb hb
          | e => right; right; right; right; left; simp [hta, htb]; rfl
          | p => right; right; right; right; right; simp [hta, htb]; rfl

theorem parse_cases {op : Op} (hwf : OpWF op) (hp : PlainOp op) :
    (op.qregs.map (·.ty) = [.e] ∧ op.parseQRegTypes = "Emitter") ∨ (op.qregs.map (·.ty) = [.p] ∧ op.parseQRegTypes = "Photonic") ∨
    (op.qregs.map (·.ty) = [.e, .e] ∧ op.parseQRegTypes = "Emitter-Emitter") ∨
    (op.qregs.map (·.ty) = [.e, .p] ∧ op.parseQRegTypes = "Emitter-Photonic") ∨
    (op.qregs.map (·.ty) = [.p, .e] ∧ op.parseQRegTypes = "Photonic-Emitter") ∨
    (op.qregs.map (·.ty) = [.p, .p] ∧ op.parseQRegTypes = "Photonic-Photonic") :=
  parse_cases_of_arity hwf hp.arity

theorem mem_indexKeys_iff {op : Op} (l : String) :
    l ∈ op.indexKeys ↔ l ∈ op.labels ∨ l = op.kind.name ∨ l = op.parseQRegTypes := by
  simp [Op.indexKeys]

/-- the label query of `CircuitCnotCount` selects exactly the emitter–emitter CNOTs — for every operation on at most two quantum
    registers none of whose labels is "Emitter-Emitter" or "CNOT" (any other user label admitted) -/
theorem cnot_keys_iff_of {op : Op} (hwf : OpWF op) (har : op.qregs.length ≤ 2) (hl1 : "Emitter-Emitter" ∉ op.labels)
    (hl2 : "CNOT" ∉ op.labels) :
    ("Emitter-Emitter" ∈ op.indexKeys ∧ "CNOT" ∈ op.indexKeys) ↔ (op.kind = .cnot ∧ op.qregs.map (·.ty) = [.e, .e]) := by
  rw [mem_indexKeys_iff, mem_indexKeys_iff]
  have hk1 : "Emitter-Emitter" ≠ op.kind.name := by cases op.kind <;> decide
  have hk2 : "CNOT" = op.kind.name ↔ op.kind = .cnot := by cases op.kind <;> decide
  have hpc := parse_cases_of_arity hwf har
  constructor
  · rintro ⟨h1 | h1 | h1, h2 | h2 | h2⟩
    all_goals first
      | exact absurd h1 hl1
      | exact absurd h1 hk1
      | exact absurd h2 hl2
      | skip
    · refine ⟨hk2.mp h2, ?_⟩
      rcases hpc with ⟨a, b⟩ | ⟨a, b⟩ | ⟨a, b⟩ | ⟨a, b⟩ | ⟨a, b⟩ | ⟨a, b⟩ <;> rw [b] at h1 <;>
        first | exact a | exact absurd h1 (by decide)
    · exfalso
      rcases hpc with ⟨a, b⟩ | ⟨a, b⟩ | ⟨a, b⟩ | ⟨a, b⟩ | ⟨a, b⟩ | ⟨a, b⟩ <;> rw [b] at h2 <;> exact absurd h2 (by decide)
  · rintro ⟨h1, h2⟩
    refine ⟨Or.inr (Or.inr ?_), Or.inr (Or.inl (hk2.mpr h1))⟩
    rcases hpc with ⟨a, b⟩ | ⟨a, b⟩ | ⟨a, b⟩ | ⟨a, b⟩ | ⟨a, b⟩ | ⟨a, b⟩ <;> rw [a] at h2 <;>
      first | exact b.symm | exact absurd h2 (by decide)

/-- for plain operations the label query of `CircuitCnotCount` selects exactly the emitter–emitter CNOTs -/
theorem cnot_keys_iff {op : Op} (hwf : OpWF op) (hp : PlainOp op) :
    ("Emitter-Emitter" ∈ op.indexKeys ∧ "CNOT" ∈ op.indexKeys) ↔ (op.kind = .cnot ∧ op.qregs.map (·.ty) = [.e, .e]) :=
  cnot_keys_iff_of hwf hp.arity (fun h => hp.labels _ h (by decide)) (fun h => hp.labels _ h (by decide))

/-- … and the label query of `CircuitMeasureCount` exactly the measure-and-reset operations — for every operation on at most two
    quantum registers not labelled "MeasurementCNOTandReset" -/
theorem mcr_keys_iff_of {op : Op} (hwf : OpWF op) (har : op.qregs.length ≤ 2) (hl : "MeasurementCNOTandReset" ∉ op.labels) :
    "MeasurementCNOTandReset" ∈ op.indexKeys ↔ op.kind = .mcr := by
  rw [mem_indexKeys_iff]
  have hk : "MeasurementCNOTandReset" = op.kind.name ↔ op.kind = .mcr := by cases op.kind <;> decide
  have hpc := parse_cases_of_arity hwf har
  constructor
  · rintro (h | h | h)
    · exact absurd h hl
    · exact hk.mp h
    · exfalso
      rcases hpc with ⟨a, b⟩ | ⟨a, b⟩ | ⟨a, b⟩ | ⟨a, b⟩ | ⟨a, b⟩ | ⟨a, b⟩ <;> rw [b] at h <;> exact absurd h (by decide)
  · intro h; exact Or.inr (Or.inl (hk.mpr h))

theorem mcr_keys_iff {op : Op} (hwf : OpWF op) (hp : PlainOp op) :
    "MeasurementCNOTandReset" ∈ op.indexKeys ↔ op.kind = .mcr :=
  mcr_keys_iff_of hwf hp.arity (fun h => hp.labels _ h (by decide))

end Metrics
end Graphiq

namespace Graphiq
namespace Metrics
open Dag

/-- the number of nodes `get_node_by_labels` returns = the number of operations all of whose keys include every label
    (for label lists that are not satisfied by the I/O keys) -/
theorem length_getNodeByLabels_ops {c : Dag} (h : DagInv c) (labels : List String)
    (hin : labels.all (fun l => ["Input"].contains l) = false) (hout : labels.all (fun l => ["Output"].contains l) = false) :
    (c.getNodeByLabels labels).length = (opsOf c).countP (fun op => labels.all (fun l => op.indexKeys.contains l)) := by
  rw [length_getNodeByLabels h labels]
  obtain ⟨P, g⟩ := h
  rw [length_filter_nodeIds g.inv.ids_nodup (fun keys => labels.all (fun l => keys.contains l))]
  exact length_filter_nodes_ops c.nodes (fun keys => labels.all (fun l => keys.contains l)) hin hout

theorem cnotCount_eq_length (c : Dag) : cnotCount c = (c.getNodeByLabels ["Emitter-Emitter", "CNOT"]).length := by
  unfold cnotCount
  by_cases hh : dictHas c.nodeDict "Emitter-Emitter" = true
  · rw [if_pos hh]
  · rw [if_neg hh]
    have hg := dictGet_of_not_has c.nodeDict "Emitter-Emitter" (by simpa using hh)
    have : c.getNodeByLabels ["Emitter-Emitter", "CNOT"] = [] := by
      apply List.eq_nil_iff_forall_not_mem.mpr
      intro n hn
      unfold getNodeByLabels at hn
      rw [mem_getNodeByLabels_aux] at hn
      have := hn.2 "Emitter-Emitter" (by simp)
      rw [hg] at this; simp at this
    rw [this]; rfl

theorem countP_congr_mem {α : Type} {l : List α} {p q : α → Bool} (h : ∀ a ∈ l, p a = q a) : l.countP p = l.countP q := by
  induction l with
  | nil => rfl
  | cons a t ih =>
    rw [List.countP_cons, List.countP_cons, ih (fun x hx => h x (List.mem_cons_of_mem _ hx)), h a (by simp)]

end Metrics
end Graphiq

/-! ## `reg_gate_history` = the wire -/
namespace Graphiq
namespace Dag
open Relation

/-- the out-edge of `n` keyed `r` is the edge to the successor of `n` on the wire of `r` -/
theorem find_outEdge {c : Dag} {P : Paths} (h : Inv c P) {r : Reg} {n m : NodeId} (hc : Consec (P r) n m) :
    ∃ e, (c.outEdges n).find? (fun e => e.key = r) = some e ∧ e.dst = m := by
  have hmem : (⟨n, m, r⟩ : Edge) ∈ c.outEdges n := by
    simp [outEdges, (h.edges_iff ⟨n, m, r⟩).mpr hc]
  cases hf : (c.outEdges n).find? (fun e => e.key = r) with
  | none =>
    have := List.find?_eq_none.mp hf _ hmem
    simp at this
  | some e =>
    refine ⟨e, rfl, ?_⟩
    have he := List.mem_of_find?_eq_some hf
    have hk : e.key = r := by simpa using List.find?_some hf
    have hsrc : e.src = n := by simpa [outEdges] using (List.mem_filter.mp he).2
    have he' : e ∈ c.edges := (List.mem_filter.mp he).1
    have hc' := (h.edges_iff e).mp he'
    rw [hk, hsrc] at hc'
    exact consec_succ_unique (h.nodup r) hc' hc

theorem historyWalk_spec {c : Dag} {P : Paths} (h : Inv c P) (r : Reg) :
    ∀ (suf pre : List NodeId) (n : NodeId) (fuel : Nat), P r = pre ++ n :: suf → (∃ mid, P r = .inp r :: (mid ++ [.out r])) →
      suf.length < fuel → c.historyWalk r fuel n (n :: pre.reverse) = .ok (P r) := by
  intro suf
  induction suf with
  | nil =>
    intro pre n fuel hP hshape hf
    obtain ⟨mid, hmid⟩ := hshape
    have hn : n = .out r := by
      have h1 : (P r).getLast? = some n := by rw [hP]; simp
      have h2 : (P r).getLast? = some (.out r) := by
        rw [hmid]
        have : NodeId.inp r :: (mid ++ [NodeId.out r]) = (NodeId.inp r :: mid) ++ [NodeId.out r] := by simp
        rw [this, List.getLast?_concat]
      rw [h1] at h2; injection h2
    cases fuel with
    | zero => simp at hf
    | succ f =>
      unfold historyWalk
      rw [if_pos hn]
      simp [hP]
  | cons m suf' ih =>
    intro pre n fuel hP hshape hf
    cases fuel with
    | zero => simp at hf
    | succ f =>
      have hnd := h.nodup r
      have hne : n ≠ .out r := by
        intro e
        obtain ⟨mid, hmid⟩ := hshape
        have hcons : Consec (P r) n m := consec_iff_append.mpr ⟨pre, suf', hP⟩
        rw [hmid, e, show NodeId.inp r :: (mid ++ [NodeId.out r]) = (NodeId.inp r :: mid) ++ [NodeId.out r] by simp] at hcons
        rw [hmid, show NodeId.inp r :: (mid ++ [NodeId.out r]) = (NodeId.inp r :: mid) ++ [NodeId.out r] by simp] at hnd
        exact consec_last_no_succ hnd hcons
      have hcons : Consec (P r) n m := consec_iff_append.mpr ⟨pre, suf', hP⟩
      obtain ⟨e, hfind, hdst⟩ := find_outEdge h hcons
      unfold historyWalk
      rw [if_neg hne, hfind]
      simp only
      rw [hdst]
      have := ih (pre ++ [n]) m f (by rw [hP]; simp) hshape (by simp at hf; omega)
      simpa using this

/-- **`reg_gate_history(reg, reg_type)[1]` = the wire of the register** (`in`, the operation nodes in order, `out`),
    on every circuit satisfying the invariant -/
theorem regGateHistory_eq_wire {c : Dag} {P : Paths} (h : Inv c P) {r : Reg} (hl : c.live r) :
    c.regGateHistory r = .ok (P r) := by
  obtain ⟨mid, hmid⟩ := h.shape r hl
  unfold regGateHistory
  have hlen : (P r).length ≤ c.nodes.length := by
    have := (h.nodup r).length_le_of_subset (fun x hx => h.mem_nodes r x hx)
    simpa [nodeIds] using this
  have := historyWalk_spec h r (mid ++ [.out r]) [] (.inp r) (c.nodes.length + 1) (by rw [hmid.1]; rfl) ⟨mid, hmid.1⟩
    (by rw [hmid.1] at hlen; simp at hlen ⊢; omega)
  simpa using this

end Dag
end Graphiq
