/-
  Proofs/CommuteGroup.lean — commutation of the C07 group transformers (`specGate`, `specMeasure`) that act on different
  qubits, on the stabilizer group of any valid tableau.

  * `IsTab n g`: the abstract state `g` is the stabilizer group of some valid Clifford tableau on `n` qubits (hence a
    maximal stabilizer group); preserved by gates and Z measurements.
  * `measG n q o H`: the textbook post-measurement group `⟨(-1)^o Z_q⟩ · {h ∈ H : h commutes with Z_q}`; for a *feasible*
    outcome (`(-1)^(1-o) Z_q ∉ H`) C07's `specMeasure q o` is exactly `measG` — also in the deterministic case, by
    maximality (`specMeasure_eq_measG`).
  * gate/gate, gate/measurement, measurement/measurement on different qubits commute, *including feasibility*: an outcome
    pair that is possible in one order is possible in the other (`gate_gate_comm`, `gate_meas_comm`, `meas_meas_comm`).
-/
import GraphiqModel.Proofs.CommuteLocal
namespace Graphiq.Commute
open Graphiq PRow Tab TabSpec Classical

/-- the abstract state is the stabilizer group of a valid tableau on `n` qubits -/
def IsTab (n : Nat) (g : GState) : Prop := ∃ t : Tab, t.Valid ∧ t.StabReal ∧ t.n = n ∧ gstate t = g

theorem IsTab.n_eq {n : Nat} {g : GState} (h : IsTab n g) : g.n = n := by
  obtain ⟨t, _, _, hn, rfl⟩ := h; exact hn

theorem IsTab.stab {n : Nat} {g : GState} (h : IsTab n g) : IsStabGrp n g.G := by
  obtain ⟨t, hv, hr, hn, rfl⟩ := h
  subst hn
  exact grp_isStabGrp t hv hr

/-- maximality: a real row commuting with the whole group is in it up to sign -/
theorem IsTab.max {n : Nat} {g : GState} (h : IsTab n g) (P : PRow) (hP : P.ip = false)
    (hc : ∀ a, g.G a → sp n P a = false) : g.G P ∨ g.G (negate P) := by
  obtain ⟨t, hv, hr, hn, rfl⟩ := h
  subst hn
  exact grp_maximal t hv hr P hP (fun i hi => hc _ (grp_gen t i hi))

theorem isTab_gate {n : Nat} {g : GState} (h : IsTab n g) (f : PRow → PRow) (hf : IsAut1 n f) : IsTab n (specGate f g) := by
  obtain ⟨t, hv, hr, hn, rfl⟩ := h
  subst hn
  obtain ⟨r', e⟩ := gate_tracks t f hf hr
  exact ⟨t.map f, map_valid t f hf.aut hv, r', rfl, e⟩

theorem isTab_meas {n : Nat} {g : GState} (h : IsTab n g) (q : Nat) (o : Bool) (hq : q < n) : IsTab n (specMeasure q o g) := by
  obtain ⟨t, hv, hr, hn, rfl⟩ := h
  subst hn
  exact ⟨(t.zMeasure q o).1, zMeasure_valid t q o hq hv, zMeasure_stabReal t q o hq hv hr, zMeasure_n t q o,
    measure_tracks t q o hq hv hr⟩

theorem isTab_ket0 (n : Nat) : IsTab n (gstate (Tab.ket0 n)) := by
  refine ⟨Tab.ket0 n, Tab.ket0_valid n, ?_, rfl, rfl⟩
  intro i h1 _
  have h1' : n ≤ i := h1
  have : ¬ i < n := by omega
  simp [Tab.ket0, this, Zq]

/-! ### the uniform post-measurement group -/

/-- `⟨(-1)^o Z_q⟩ · {h ∈ H : h commutes with Z_q}` -/
def measG (n q : Nat) (o : Bool) (H : PRow → Prop) (P : PRow) : Prop :=
  P.x q = false ∧ (H P ∨ H (PRow.mul n P (Zq q o)))

theorem negate_Zq' (q : Nat) (o : Bool) : negate (Zq q o) = Zq q (!o) := rfl

theorem sp_Zq_left (n q : Nat) (a : PRow) (s : Bool) (hq : q < n) : sp n (Zq q s) a = a.x q := by
  rw [sp_comm]; exact sp_Zq n q a s hq

/-- with a feasible recorded outcome, C07's `specMeasure` is the uniform post-measurement group, in the random *and* in the
    deterministic case -/
theorem specMeasure_eq_measG {n : Nat} {g : GState} (hT : IsTab n g) (q : Nat) (o : Bool) (hq : q < n)
    (hfe : ¬ g.G (Zq q (!o))) : specMeasure q o g = ⟨n, measG n q o g.G⟩ := by
  have hn := hT.n_eq
  have hS := hT.stab
  refine gstate_ext hn ?_
  intro P
  show ((Random g.G q ∧ P.x q = false ∧ (g.G P ∨ g.G (PRow.mul g.n P (Zq q o)))) ∨ (¬ Random g.G q ∧ g.G P)) ↔
    measG n q o g.G P
  rw [hn]
  by_cases hR : Random g.G q
  · constructor
    · rintro (⟨_, h⟩ | ⟨h, _⟩)
      · exact h
      · exact absurd hR h
    · intro h; exact Or.inl ⟨hR, h⟩
  · have hxf : ∀ a, g.G a → a.x q = false := by
      intro a ha
      cases hx : a.x q
      · rfl
      · exact absurd ⟨a, ha, hx⟩ hR
    have hZ : g.G (Zq q o) := by
      rcases hT.max (Zq q o) rfl (fun a ha => by rw [sp_Zq_left n q a o hq]; exact hxf a ha) with h | h
      · exact h
      · rw [negate_Zq'] at h; exact absurd h hfe
    constructor
    · rintro (⟨h, _⟩ | ⟨_, h⟩)
      · exact absurd h hR
      · exact ⟨hxf P h, Or.inl h⟩
    · rintro ⟨_, h | h⟩
      · exact Or.inr ⟨hR, h⟩
      · exact Or.inr ⟨hR, hS.eqv _ _ (hS.mul _ _ h hZ) (mul_mul_cancel n P (Zq q o) rfl)⟩

/-! ### the two partial state transformers -/

/-- a unitary gate with row action `f` -/
noncomputable def gateStep (f : PRow → PRow) (s : Option GState) : Option GState := s.map (specGate f)

/-- a Z measurement of `q` whose recorded outcome is `o`: impossible (`none`) when `(-1)^(1-o) Z_q` is a stabilizer -/
noncomputable def measStep (q : Nat) (o : Bool) (s : Option GState) : Option GState :=
  s.bind fun g => if g.G (Zq q (!o)) then none else some (specMeasure q o g)

theorem measStep_some {n : Nat} {g : GState} (hT : IsTab n g) (q : Nat) (o : Bool) (hq : q < n) :
    measStep q o (some g) = if g.G (Zq q (!o)) then none else some ⟨n, measG n q o g.G⟩ := by
  unfold measStep
  simp only [Option.bind_some]
  split
  · rfl
  · next h => rw [specMeasure_eq_measG hT q o hq h]

/-- after a feasible measurement the state is again the group of a valid tableau -/
theorem isTab_measG {n : Nat} {g : GState} (hT : IsTab n g) (q : Nat) (o : Bool) (hq : q < n)
    (hfe : ¬ g.G (Zq q (!o))) : IsTab n ⟨n, measG n q o g.G⟩ := by
  rw [← specMeasure_eq_measG hT q o hq hfe]; exact isTab_meas hT q o hq

/-! ### gate / gate -/

theorem specGate_specGate (f h : PRow → PRow) (s : GState) (hf : ∀ a b, EqOn s.n a b → EqOn s.n (f a) (f b)) :
    specGate f (specGate h s) = specGate (fun p => f (h p)) s := by
  refine gstate_ext rfl ?_
  intro P
  show imageGrp s.n f (imageGrp s.n h s.G) P ↔ imageGrp s.n (fun p => f (h p)) s.G P
  constructor
  · rintro ⟨Q, ⟨R, hR, e1⟩, e2⟩
    exact ⟨R, hR, e2.trans (hf _ _ e1)⟩
  · rintro ⟨R, hR, e⟩
    exact ⟨h R, ⟨R, hR, EqOn.refl _ _⟩, e⟩

/-- two gates whose row actions commute pointwise commute as group transformers -/
theorem gate_gate_comm {n : Nat} (f h : PRow → PRow) (hf : IsAut n f) (hh : IsAut n h) (hc : ∀ p, f (h p) = h (f p))
    (s : Option GState) (hs : ∀ g, s = some g → g.n = n) : gateStep f (gateStep h s) = gateStep h (gateStep f s) := by
  cases s with
  | none => rfl
  | some g =>
    have hn := hs g rfl
    show some (specGate f (specGate h g)) = some (specGate h (specGate f g))
    rw [specGate_specGate f h g (by rw [hn]; exact hf.congr), specGate_specGate h f g (by rw [hn]; exact hh.congr)]
    congr 2
    funext p; exact hc p

/-! ### gate / measurement -/

section GateMeas
variable {n : Nat} {S : Nat → Prop} {f : PRow → PRow}

/-- a gate acting elsewhere does not change whether `±Z_q` is a stabilizer -/
theorem gate_Zq_iff {g : GState} (hT : IsTab n g) (hf : IsAut1 n f) (hl : Local S f) {q : Nat} (hq : q < n) (hqS : ¬ S q)
    (b : Bool) : (specGate f g).G (Zq q b) ↔ g.G (Zq q b) := by
  have hn := hT.n_eq
  have hfix : ∀ b, EqOn n (f (Zq q b)) (Zq q b) := fun b => hl.fix_Zq hf.one hqS b
  have himg : ∀ b, g.G (Zq q b) → (specGate f g).G (Zq q b) := by
    intro b h
    refine ⟨Zq q b, h, ?_⟩
    rw [hn]; exact (hfix b).symm
  constructor
  · rintro ⟨Q, hQ, e⟩
    rw [hn] at e
    have hS := hT.stab
    have hcomm : ∀ a, g.G a → sp n (Zq q b) a = false := by
      intro a ha
      have h1 : sp n (Zq q b) a = sp n (Zq q b) (f a) := by
        rw [sp_Zq_left n q a b hq, sp_Zq_left n q (f a) b hq, hl.x_off hqS]
      rw [h1, sp_eqOn n _ _ _ _ e (EqOn.refl _ _), hf.aut.sp]
      exact hS.comm Q a hQ ha
    rcases hT.max (Zq q b) rfl hcomm with h | h
    · exact h
    · exfalso
      rw [negate_Zq'] at h
      have hS' := (isTab_gate hT f hf).stab
      have h1 : (specGate f g).G (Zq q b) := ⟨Q, hQ, by rw [hn]; exact e⟩
      have h2 := himg _ h
      rw [← negate_Zq'] at h2
      exact hS'.cons _ h1 h2
  · exact himg b

/-- the uniform post-measurement group of the image is the image of the uniform post-measurement group -/
theorem measG_image (H : PRow → Prop) (hH : ∀ a b, H a → EqOn n a b → H b) (hf : IsAut1 n f) (hl : Local S f) {q : Nat}
    (hq : q < n) (hqS : ¬ S q) (o : Bool) (P : PRow) :
    measG n q o (imageGrp n f H) P ↔ imageGrp n f (measG n q o H) P := by
  have hfix : EqOn n (f (Zq q o)) (Zq q o) := hl.fix_Zq hf.one hqS o
  constructor
  · rintro ⟨hx, ⟨Q, hQ, e⟩ | ⟨Q, hQ, e⟩⟩
    · refine ⟨Q, ⟨?_, Or.inl hQ⟩, e⟩
      rw [← hl.x_off hqS Q, ← (e.1 q hq).1]; exact hx
    · refine ⟨PRow.mul n Q (Zq q o), ⟨?_, Or.inr (hH _ _ hQ (mul_mul_cancel n Q (Zq q o) rfl).symm)⟩, ?_⟩
      · have h1 : (PRow.mul n P (Zq q o)).x q = (f Q).x q := (e.1 q hq).1
        rw [hl.x_off hqS Q] at h1
        simp only [mul_x] at h1 ⊢
        rw [← h1, hx]; simp [Zq]
      · have e1 : EqOn n (f (PRow.mul n Q (Zq q o))) (PRow.mul n (f Q) (Zq q o)) :=
          (hf.aut.mul Q (Zq q o)).trans (mul_congr n _ _ _ _ (EqOn.refl _ _) hfix)
        have e2 : EqOn n (PRow.mul n (f Q) (Zq q o)) (PRow.mul n (PRow.mul n P (Zq q o)) (Zq q o)) :=
          mul_congr n _ _ _ _ e.symm (EqOn.refl _ _)
        exact ((e1.trans e2).trans (mul_mul_cancel n P (Zq q o) rfl)).symm
  · rintro ⟨Q, ⟨hx, hQ⟩, e⟩
    have hxP : P.x q = false := by rw [(e.1 q hq).1, hl.x_off hqS Q]; exact hx
    refine ⟨hxP, ?_⟩
    rcases hQ with hQ | hQ
    · exact Or.inl ⟨Q, hQ, e⟩
    · refine Or.inr ⟨PRow.mul n Q (Zq q o), hQ, ?_⟩
      exact (mul_congr n _ _ _ _ e hfix.symm).trans (hf.aut.mul Q (Zq q o)).symm

/-- **a gate and a Z measurement on a qubit the gate does not touch commute**, feasibility of the outcome included -/
theorem gate_meas_comm (hf : IsAut1 n f) (hl : Local S f) {q : Nat} (hq : q < n) (hqS : ¬ S q) (o : Bool)
    (s : Option GState) (hs : ∀ g, s = some g → IsTab n g) :
    gateStep f (measStep q o s) = measStep q o (gateStep f s) := by
  cases s with
  | none => rfl
  | some g =>
    have hT := hs g rfl
    have hn := hT.n_eq
    have hT' := isTab_gate hT f hf
    show gateStep f (measStep q o (some g)) = measStep q o (some (specGate f g))
    rw [measStep_some hT q o hq, measStep_some hT' q o hq]
    by_cases hfe : g.G (Zq q (!o))
    · rw [if_pos hfe, if_pos ((gate_Zq_iff hT hf hl hq hqS _).mpr hfe)]; rfl
    · rw [if_neg hfe, if_neg (fun h => hfe ((gate_Zq_iff hT hf hl hq hqS _).mp h))]
      show some (specGate f ⟨n, measG n q o g.G⟩) = _
      congr 1
      refine gstate_ext rfl ?_
      intro P
      show imageGrp n f (measG n q o g.G) P ↔ measG n q o (imageGrp g.n f g.G) P
      rw [hn]
      exact (measG_image g.G hT.stab.eqv hf hl hq hqS o P).symm

end GateMeas

/-! ### measurement / measurement -/

section MeasMeas
variable {n : Nat} {H : PRow → Prop}

theorem sp_Zq_Zq (n q q' : Nat) (o o' : Bool) (hq' : q' < n) : sp n (Zq q o) (Zq q' o') = false := by
  rw [sp_Zq n q' _ o' hq']; rfl

/-- `(P Z) Z' = (P Z') Z` -/
theorem mul_Zq_swap (n q q' : Nat) (o o' : Bool) (hq' : q' < n) (P : PRow) :
    EqOn n (PRow.mul n (PRow.mul n P (Zq q o)) (Zq q' o')) (PRow.mul n (PRow.mul n P (Zq q' o')) (Zq q o)) :=
  ((mul_assoc n P _ _).trans (mul_congr n _ _ _ _ (EqOn.refl _ _) (mul_comm n _ _ (sp_Zq_Zq n q q' o o' hq')))).trans
    (mul_assoc n P _ _).symm

/-- measuring `q'` then `q`: the four-term normal form -/
theorem measG_measG (q q' : Nat) (o o' : Bool) (P : PRow) :
    measG n q o (measG n q' o' H) P ↔
      (P.x q = false ∧ P.x q' = false ∧
        (H P ∨ H (PRow.mul n P (Zq q' o')) ∨ H (PRow.mul n P (Zq q o)) ∨
          H (PRow.mul n (PRow.mul n P (Zq q o)) (Zq q' o')))) := by
  have hx : (PRow.mul n P (Zq q o)).x q' = P.x q' := by simp [Zq]
  unfold measG
  rw [hx]
  constructor
  · rintro ⟨h1, ⟨h2, h | h⟩ | ⟨h2, h | h⟩⟩
    · exact ⟨h1, h2, Or.inl h⟩
    · exact ⟨h1, h2, Or.inr (Or.inl h)⟩
    · exact ⟨h1, h2, Or.inr (Or.inr (Or.inl h))⟩
    · exact ⟨h1, h2, Or.inr (Or.inr (Or.inr h))⟩
  · rintro ⟨h1, h2, h | h | h | h⟩
    · exact ⟨h1, Or.inl ⟨h2, Or.inl h⟩⟩
    · exact ⟨h1, Or.inl ⟨h2, Or.inr h⟩⟩
    · exact ⟨h1, Or.inr ⟨h2, Or.inl h⟩⟩
    · exact ⟨h1, Or.inr ⟨h2, Or.inr h⟩⟩

theorem measG_comm (hH : ∀ a b, H a → EqOn n a b → H b) (q q' : Nat) (o o' : Bool) (hq' : q' < n) (P : PRow) :
    measG n q o (measG n q' o' H) P ↔ measG n q' o' (measG n q o H) P := by
  rw [measG_measG q q' o o' P, measG_measG q' q o' o P]
  have e := mul_Zq_swap n q q' o o' hq' P
  constructor
  · rintro ⟨h1, h2, h | h | h | h⟩
    · exact ⟨h2, h1, Or.inl h⟩
    · exact ⟨h2, h1, Or.inr (Or.inr (Or.inl h))⟩
    · exact ⟨h2, h1, Or.inr (Or.inl h)⟩
    · exact ⟨h2, h1, Or.inr (Or.inr (Or.inr (hH _ _ h e)))⟩
  · rintro ⟨h1, h2, h | h | h | h⟩
    · exact ⟨h2, h1, Or.inl h⟩
    · exact ⟨h2, h1, Or.inr (Or.inr (Or.inl h))⟩
    · exact ⟨h2, h1, Or.inr (Or.inl h)⟩
    · exact ⟨h2, h1, Or.inr (Or.inr (Or.inr (hH _ _ h e.symm)))⟩

/-- the outcome pair `(o', o)` is impossible for "measure `q'`, then `q`" -/
def Infeasible2 (n q q' : Nat) (o o' : Bool) (H : PRow → Prop) : Prop :=
  H (Zq q' (!o')) ∨ H (Zq q (!o)) ∨ H (PRow.mul n (Zq q (!o)) (Zq q' o'))

/-- **an outcome pair impossible in one order is impossible in the other** -/
theorem infeasible2_comm (hH : ∀ a b, H a → EqOn n a b → H b) (q q' : Nat) (o o' : Bool) (hq' : q' < n) :
    Infeasible2 n q q' o o' H ↔ Infeasible2 n q' q o' o H := by
  have e : EqOn n (PRow.mul n (Zq q (!o)) (Zq q' o')) (PRow.mul n (Zq q' (!o')) (Zq q o)) := by
    rw [← negate_Zq', ← negate_Zq']
    exact ((mul_negate_left n _ _).trans (negate_congr n _ _ (mul_comm n _ _ (sp_Zq_Zq n q q' o o' hq')))).trans
      (mul_negate_left n _ _).symm
  unfold Infeasible2
  constructor
  · rintro (h | h | h)
    · exact Or.inr (Or.inl h)
    · exact Or.inl h
    · exact Or.inr (Or.inr (hH _ _ h e))
  · rintro (h | h | h)
    · exact Or.inr (Or.inl h)
    · exact Or.inl h
    · exact Or.inr (Or.inr (hH _ _ h e.symm))

/-- two measurements in a row, in normal form -/
theorem measStep_measStep {g : GState} (hT : IsTab n g) (q q' : Nat) (o o' : Bool) (hq : q < n) (hq' : q' < n) :
    measStep q o (measStep q' o' (some g)) =
      if Infeasible2 n q q' o o' g.G then none else some ⟨n, measG n q o (measG n q' o' g.G)⟩ := by
  rw [measStep_some hT q' o' hq']
  by_cases h1 : g.G (Zq q' (!o'))
  · rw [if_pos h1, if_pos (show Infeasible2 n q q' o o' g.G from Or.inl h1)]; rfl
  · rw [if_neg h1, measStep_some (isTab_measG hT q' o' hq' h1) q o hq]
    have hiff : measG n q' o' g.G (Zq q (!o)) ↔ (g.G (Zq q (!o)) ∨ g.G (PRow.mul n (Zq q (!o)) (Zq q' o'))) := by
      unfold measG
      constructor
      · exact fun h => h.2
      · intro h
        refine ⟨?_, h⟩
        simp [Zq]
    by_cases h2 : measG n q' o' g.G (Zq q (!o))
    · rw [if_pos h2, if_pos (show Infeasible2 n q q' o o' g.G from Or.inr (hiff.mp h2))]
    · have h3 : ¬ Infeasible2 n q q' o o' g.G := by
        rintro (h | h)
        · exact h1 h
        · exact h2 (hiff.mpr h)
      rw [if_neg h2, if_neg h3]

/-- **two Z measurements on different qubits commute**: the same outcome pairs are possible in both orders, and they
    lead to the same stabilizer group -/
theorem meas_meas_comm (q q' : Nat) (o o' : Bool) (hq : q < n) (hq' : q' < n)
    (s : Option GState) (hs : ∀ g, s = some g → IsTab n g) :
    measStep q o (measStep q' o' s) = measStep q' o' (measStep q o s) := by
  cases s with
  | none => rfl
  | some g =>
    have hT := hs g rfl
    have hcl := hT.stab.eqv
    rw [measStep_measStep hT q q' o o' hq hq', measStep_measStep hT q' q o' o hq' hq]
    by_cases h : Infeasible2 n q q' o o' g.G
    · rw [if_pos h, if_pos ((infeasible2_comm hcl q q' o o' hq').mp h)]
    · rw [if_neg h, if_neg (fun h' => h ((infeasible2_comm hcl q q' o o' hq').mpr h'))]
      congr 1
      exact gstate_ext rfl (fun P => measG_comm hcl q q' o o' hq' P)

end MeasMeas

end Graphiq.Commute
