/-
  Proofs/EvoMoves.lean — the emission invariant under the elementary edits, soundness of the saturation-based
  reachability sets, and preservation of the invariant by every mutation move.
-/
import GraphiqModel.Proofs.Wire
namespace Graphiq.Wire
open Relation

/-- the invariant of C04: well-formed wires, acyclic DAG, emission constraints -/
def Circuit.EmitInv (c : Circuit) : Prop := c.WF ∧ c.Acyclic ∧ c.EmitC

/-! ## 1. the emission constraints under the elementary edits -/

theorem ins_cons_succ (h : Nat) (rest : List Nat) (p k : Nat) : ins (h :: rest) (p + 1) k = h :: ins rest p k := by
  simp [ins]

theorem isEmission_congr {c c' : Circuit} {j n : Nat} (h : c'.node n = c.node n) (he : c.isEmission j n) :
    c'.isEmission j n := by
  obtain ⟨i, hi⟩ := he
  exact ⟨i, by rw [h, hi]⟩

theorem laterOk_congr {c c' : Circuit} {j n : Nat} (h : c'.node n = c.node n) (he : c.laterOk j n) :
    c'.laterOk j n := by
  obtain ⟨op, hop, hh⟩ := he
  exact ⟨op, by rw [h, hop], hh⟩

theorem EmitC_insertAt (c : Circuit) (op : Op) (es : List Edge) (hwf : c.WF) (hem : c.EmitC)
    (hnd : (es.map (·.r)).Nodup)
    (hpp : ∀ r1 r2, op.q = [r1, r2] → ¬ (r1.ty = .p ∧ r2.ty = .p))
    (hph : ∀ e, e ∈ es → e.r.ty = .p → 1 ≤ e.pos ∧
      ((op.kind.isGate1 = true ∧ op.q = [e.r]) ∨
       (op.kind.isClassicalControlled = true ∧ ∃ i, op.q = [⟨.e, i⟩, e.r]))) :
    (c.insertAt op es).EmitC := by
  have hnode : ∀ r n, n ∈ c.wire r → (c.insertAt op es).node n = c.node n := fun r n hn => by
    have := hwf.wire_le hn
    rw [insertAt_node, if_neg (by omega)]
  constructor
  · intro n op' h r1 r2 hq
    rw [insertAt_node] at h
    by_cases hn : n = c.nid + 1
    · rw [if_pos hn] at h; cases h; exact hpp r1 r2 hq
    · rw [if_neg hn] at h; exact hem.noPP n op' h r1 r2 hq
  · intro j hj
    rw [insertAt_np] at hj
    obtain ⟨h, rest, hw, hemi, hlater⟩ := hem.photon j hj
    have hh : h ∈ c.wire ⟨.p, j⟩ := by rw [hw]; exact List.mem_cons_self
    have hrest : ∀ n, n ∈ rest → n ∈ c.wire ⟨.p, j⟩ := fun n hn => by rw [hw]; exact List.mem_cons_of_mem _ hn
    by_cases hr : (⟨.p, j⟩ : Reg) ∈ es.map (·.r)
    · obtain ⟨e, he, her⟩ := List.mem_map.mp hr
      obtain ⟨hpos, hshape⟩ := hph e he (by rw [her])
      have hwire := insertAt_wire_of_mem c op es hnd e he
      rw [her, hw] at hwire
      obtain ⟨p, hp⟩ : ∃ p, e.pos = p + 1 := ⟨e.pos - 1, by omega⟩
      rw [hp, ins_cons_succ] at hwire
      refine ⟨h, ins rest p (c.nid + 1), hwire, isEmission_congr (hnode _ h hh) hemi, ?_⟩
      intro n hn
      rcases mem_ins.mp hn with rfl | hn
      · refine ⟨op, by rw [insertAt_node, if_pos rfl], ?_⟩
        rw [her] at hshape
        exact hshape
      · exact laterOk_congr (hnode _ n (hrest n hn)) (hlater n hn)
    · refine ⟨h, rest, by rw [insertAt_wire_of_not_mem c op es _ hr, hw], isEmission_congr (hnode _ h hh) hemi, ?_⟩
      intro n hn
      exact laterOk_congr (hnode _ n (hrest n hn)) (hlater n hn)

theorem EmitC_removeOp (c : Circuit) (n0 : Nat) (op0 : Op) (hem : c.EmitC) (h0 : c.node n0 = some op0)
    (hnf : op0.fixed = false) : (c.removeOp n0).EmitC := by
  constructor
  · intro n op h r1 r2 hq
    rw [removeOp_node] at h
    by_cases hn : n = n0
    · rw [if_pos hn] at h; cases h
    · rw [if_neg hn] at h; exact hem.noPP n op h r1 r2 hq
  · intro j hj
    obtain ⟨h, rest, hw, hemi, hlater⟩ := hem.photon j hj
    have hne : h ≠ n0 := by
      rintro rfl
      obtain ⟨i, hi⟩ := hemi
      rw [h0] at hi
      cases hi
      cases hnf
    refine ⟨h, rest.filter (fun m => m ≠ n0), ?_, ?_, ?_⟩
    · simp [Circuit.removeOp, hw, hne]
    · exact isEmission_congr (by rw [removeOp_node, if_neg hne]) hemi
    · intro n hn
      have hn' := List.mem_filter.mp hn
      have hne' : n ≠ n0 := by simpa using hn'.2
      exact laterOk_congr (by rw [removeOp_node, if_neg hne']) (hlater n hn'.1)

theorem EmitC_setNode (c : Circuit) (n0 : Nat) (old op' : Op) (hem : c.EmitC) (hold : c.node n0 = some old)
    (hq : old.q = op'.q) (hk : old.kind.isWrapper = true) (hk' : op'.kind.isGate1 = true)
    (hlen : ∃ r, old.q = [r]) : (c.setNode n0 (some op')).EmitC := by
  have hnode : ∀ m, (c.setNode n0 (some op')).node m = if m = n0 then some op' else c.node m := fun _ => rfl
  constructor
  · intro n op h r1 r2 hq'
    rw [hnode] at h
    by_cases hn : n = n0
    · rw [if_pos hn] at h
      cases h
      obtain ⟨r, hr⟩ := hlen
      rw [← hq, hr] at hq'
      cases hq'
    · rw [if_neg hn] at h; exact hem.noPP n op h r1 r2 hq'
  · intro j hj
    obtain ⟨h, rest, hw, hemi, hlater⟩ := hem.photon j hj
    have hne : h ≠ n0 := by
      rintro rfl
      obtain ⟨i, hi⟩ := hemi
      rw [hold] at hi
      cases hi
      cases hk
    refine ⟨h, rest, hw, isEmission_congr (by rw [hnode, if_neg hne]) hemi, ?_⟩
    intro n hn
    by_cases hn0 : n = n0
    · subst hn0
      obtain ⟨op, hop, hshape⟩ := hlater n hn
      rw [hold] at hop
      cases hop
      refine ⟨op', by rw [hnode, if_pos rfl], ?_⟩
      rcases hshape with ⟨_, hq1⟩ | ⟨hcc, _⟩
      · left; exact ⟨hk', by rw [← hq, hq1]⟩
      · cases hkind : old.kind <;> simp [hkind, Kind.isWrapper, Kind.isClassicalControlled] at hk hcc
    · exact laterOk_congr (by rw [hnode, if_neg hn0]) (hlater n hn)

/-! ## 2. reachability sets computed by saturation are complete once they are closed -/

theorem mem_succs (c : Circuit) (x y : V) : y ∈ c.succs x ↔ c.E x y := by
  unfold Circuit.succs Circuit.E
  rw [List.mem_filterMap]
  constructor
  · rintro ⟨⟨a, b⟩, hp, h⟩
    by_cases ha : a = x
    · simp only [ha, if_true, Option.some.injEq] at h
      subst h; subst ha; exact hp
    · simp [ha] at h
  · intro h
    exact ⟨(x, y), h, by simp⟩

theorem mem_preds (c : Circuit) (x y : V) : x ∈ c.preds y ↔ c.E x y := by
  unfold Circuit.preds Circuit.E
  rw [List.mem_filterMap]
  constructor
  · rintro ⟨⟨a, b⟩, hp, h⟩
    by_cases hb : b = y
    · simp only [hb, if_true, Option.some.injEq] at h
      subst h; subst hb; exact hp
    · simp [hb] at h
  · intro h
    exact ⟨(x, y), h, by simp⟩

theorem closedUnder_iff (step : V → List V) (S : List V) :
    closedUnder step S = true ↔ ∀ x, x ∈ S → ∀ y, y ∈ step x → y ∈ S := by
  simp [closedUnder, List.all_eq_true]

/-- a `succs`-closed set containing the successors of `b` contains every strict descendant of `b` -/
theorem closed_desc (c : Circuit) (D : List V) (b : V) (hcl : closedUnder c.succs D = true)
    (hs : ∀ x, x ∈ c.succs b → x ∈ D) {y : V} (h : TransGen c.E b y) : y ∈ D := by
  rw [closedUnder_iff] at hcl
  induction h with
  | single h => exact hs _ ((mem_succs c _ _).mpr h)
  | tail _ h ih => exact hcl _ ih _ ((mem_succs c _ _).mpr h)

/-- a `preds`-closed set containing the predecessors of `a` contains every strict ancestor of `a` -/
theorem closed_anc (c : Circuit) (A : List V) (a : V) (hcl : closedUnder c.preds A = true)
    (hs : ∀ x, x ∈ c.preds a → x ∈ A) {x : V} (h : TransGen c.E x a) : x ∈ A := by
  rw [closedUnder_iff] at hcl
  induction h using TransGen.head_induction_on with
  | single h => exact hs _ ((mem_preds c _ _).mpr h)
  | head h _ ih => exact hcl _ ih _ ((mem_preds c _ _).mpr h)

/-- what a closed `incompatInfo` and a negative `isIncompatible` give: the two insertion conditions -/
theorem compatible_of_not_incompatible (c : Circuit) (e1 e2 : Edge) (hv2 : c.validReg e2.r = true)
    (hcl : (c.incompatInfo e1).closed = true) (hinc : c.isIncompatible e1 (c.incompatInfo e1) e2 = false) :
    e2 ≠ e1 ∧ ¬ ReflTransGen c.E (c.dst e1) (c.src e2) ∧ ¬ ReflTransGen c.E (c.dst e2) (c.src e1) := by
  simp only [Circuit.isIncompatible, Bool.or_eq_false_iff, decide_eq_false_iff_not] at hinc
  obtain ⟨⟨⟨⟨hne, hds⟩, hanc⟩, hsd⟩, hdesc⟩ := hinc
  simp only [Circuit.incompatInfo, Bool.and_eq_true, List.all_eq_true, decide_eq_true_eq] at hcl
  obtain ⟨⟨⟨hclA, hclD⟩, hpa⟩, hsb⟩ := hcl
  refine ⟨hne, ?_, ?_⟩
  · intro h
    rcases reflTransGen_iff_eq_or_transGen.mp h with h | h
    · exact hsd h
    · exact hdesc (closed_desc c _ _ hclD hsb h)
  · intro h
    rcases reflTransGen_iff_eq_or_transGen.mp h with h | h
    · exact hds h.symm
    · exact hanc (closed_anc c _ _ hclA hpa (TransGen.head (E_src_dst c e2 hv2) h))

/-! ## 3. two edges of one wire are never compatible -/

section SameWire
variable {α : Type}

theorem adj_getElem (l : List α) (j : Nat) (h : j + 1 < l.length) :
    Adj l (l[j]'(by omega)) (l[j + 1]'h) := by
  unfold Adj pairs
  have hlen : j < (l.zip l.tail).length := by simp; omega
  have : (l.zip l.tail)[j]'hlen = (l[j]'(by omega), l[j + 1]'h) := by
    simp [List.getElem_zip, List.getElem_tail]
  rw [← this]
  exact List.getElem_mem hlen

theorem reach_getElem (l : List α) (i j : Nat) (hij : i ≤ j) (hj : j < l.length) :
    ReflTransGen (Adj l) (l[i]'(by omega)) (l[j]'hj) := by
  induction j with
  | zero =>
    have : i = 0 := by omega
    subst this
    exact ReflTransGen.refl
  | succ j ih =>
    by_cases h : i = j + 1
    · subst h; exact ReflTransGen.refl
    · exact (ih (by omega) (by omega)).tail (adj_getElem l j hj)

end SameWire

theorem aug_length (c : Circuit) (r : Reg) : (c.aug r).length = (c.wire r).length + 2 := by
  simp [Circuit.aug]

theorem L1_length (c : Circuit) (e : Edge) (h : e.pos ≤ (c.wire e.r).length) : (L1 c e).length = e.pos + 1 := by
  simp [L1, Nat.min_eq_left h]

theorem src_eq_getElem (c : Circuit) (e : Edge) (h : e.pos ≤ (c.wire e.r).length) :
    c.src e = (c.aug e.r)[e.pos]'(by rw [aug_length]; omega) := by
  have h1 := L1_getLast c e
  have hl := L1_length c e h
  rw [List.getLast?_eq_getElem?] at h1
  have h2 : (L1 c e)[e.pos]? = some (c.src e) := by rw [← h1, hl]; rfl
  have h3 : (c.aug e.r)[e.pos]? = some (c.src e) := by
    rw [aug_split, List.getElem?_append_left (by omega), h2]
  obtain ⟨_, h4⟩ := List.getElem?_eq_some_iff.mp h3
  exact h4.symm

theorem dst_eq_getElem (c : Circuit) (e : Edge) (h : e.pos ≤ (c.wire e.r).length) :
    c.dst e = (c.aug e.r)[e.pos + 1]'(by rw [aug_length]; omega) := by
  have h1 := L2_head c e
  have hl := L1_length c e h
  have h3 : (c.aug e.r)[e.pos + 1]? = some (c.dst e) := by
    rw [aug_split, List.getElem?_append_right (by omega), hl, Nat.sub_self, ← List.head?_eq_getElem?, h1]
  obtain ⟨_, h4⟩ := List.getElem?_eq_some_iff.mp h3
  exact h4.symm

/-- on one wire, the head of an earlier edge reaches the tail of a later edge -/
theorem reach_along_wire (c : Circuit) (r : Reg) (p q : Nat) (hv : c.validReg r = true) (hpq : p < q)
    (hq : q ≤ (c.wire r).length) : ReflTransGen c.E (c.dst ⟨r, p⟩) (c.src ⟨r, q⟩) := by
  rw [dst_eq_getElem c ⟨r, p⟩ (by simp; omega), src_eq_getElem c ⟨r, q⟩ (by simpa using hq)]
  have := reach_getElem (c.aug r) (p + 1) q (by omega) (by rw [aug_length]; omega)
  exact ReflTransGen.mono (fun x y hxy => (E_iff c x y).mpr ⟨r, hv, hxy⟩) _ _ this

theorem distinct_wires_of_compatible (c : Circuit) (e1 e2 : Edge) (hv : c.validReg e1.r = true)
    (h1 : e1.pos ≤ (c.wire e1.r).length) (h2 : e2.pos ≤ (c.wire e2.r).length) (hne : e2 ≠ e1)
    (h12 : ¬ ReflTransGen c.E (c.dst e1) (c.src e2)) (h21 : ¬ ReflTransGen c.E (c.dst e2) (c.src e1)) :
    e1.r ≠ e2.r := by
  intro hr
  rcases e1 with ⟨r1, p1⟩
  rcases e2 with ⟨r2, p2⟩
  simp only at hr h1 h2 hv
  subst hr
  have hp : p1 ≠ p2 := fun h => hne (by rw [h])
  rcases Nat.lt_or_gt_of_ne hp with h | h
  · exact h12 (reach_along_wire c r1 p1 p2 hv h h2)
  · exact h21 (reach_along_wire c r1 p2 p1 hv h h1)

/-! ## 4. every mutation move preserves the invariant -/

theorem mem_edgesOf {c : Circuit} {t : RegType} {e : Edge} (h : e ∈ c.edgesOf t) :
    e.r.ty = t ∧ c.validReg e.r = true ∧ e.pos ≤ (c.wire e.r).length := by
  simp only [Circuit.edgesOf, Circuit.regsOf, List.mem_flatMap, List.mem_map, List.mem_range] at h
  obtain ⟨r, ⟨i, hi, rfl⟩, p, hp, rfl⟩ := h
  refine ⟨rfl, ?_, by simp only; omega⟩
  simp [Circuit.validReg, hi]

theorem no_back_edge {c : Circuit} (hac : c.Acyclic) {a b : V} (h : c.E a b) : ¬ ReflTransGen c.E b a :=
  fun hba => hac a (TransGen.head' h hba)

theorem src_of_pos_zero (c : Circuit) (e : Edge) (h : e.pos = 0) : c.src e = V.inp e.r := by
  simp [Circuit.src, h]

theorem pos_ge_one_of_src_not_inp (c : Circuit) (e : Edge) (h : (c.src e).isInp = false) : 1 ≤ e.pos := by
  rcases Nat.eq_zero_or_pos e.pos with h0 | h0
  · rw [src_of_pos_zero c e h0] at h; simp [V.isInp] at h
  · exact h0

theorem src_not_inp_of_kindIs (c : Circuit) (e : Edge) (k : Kind) (h : c.kindIs (c.src e) k = true) :
    (c.src e).isInp = false := by
  cases hs : c.src e with
  | inp r => simp [Circuit.kindIs, Circuit.kindOfV, hs] at h
  | out r => rfl
  | op n => rfl

theorem reg_eta_e (r : Reg) (h : r.ty = .e) : r = ⟨.e, r.idx⟩ := by
  rcases r with ⟨ty, i⟩; simp only at h; subst h; rfl

theorem insert1_preserves (c : Circuit) (e : Edge) (op : Op) (hinv : c.EmitInv) (hv : c.validReg e.r = true)
    (hty : e.r.ty ≠ .c) (hq : op.q = [e.r]) (hph : e.r.ty = .p → 1 ≤ e.pos ∧ op.kind.isGate1 = true) :
    (c.insertAt op [e]).EmitInv := by
  obtain ⟨hwf, hac, hem⟩ := hinv
  have hnd : (([e] : List Edge).map (·.r)).Nodup := by simp
  refine ⟨?_, ?_, ?_⟩
  · refine WF_insertAt c op [e] hwf hnd ?_ ?_ ?_ ?_
    · intro e' he'; simp only [List.mem_singleton] at he'; subst he'; exact hv
    · intro r _; rw [hq]; simp
    · intro i hi
      simp only [List.map_cons, List.map_nil, List.mem_singleton] at hi
      exact absurd (by rw [← hi]) hty
    · intro r hr
      rw [hq, List.mem_singleton] at hr
      subst hr; exact ⟨hv, hty⟩
  · refine acyclic_insertAt c op [e] hwf hac hnd ?_
    intro e1 he1 e2 he2
    simp only [List.mem_singleton] at he1 he2
    rw [he1, he2]
    exact no_back_edge hac (E_src_dst c e hv)
  · refine EmitC_insertAt c op [e] hwf hem hnd ?_ ?_
    · intro r1 r2 h; rw [hq] at h; cases h
    · intro e' he' hp
      simp only [List.mem_singleton] at he'; subst he'
      exact ⟨(hph hp).1, Or.inl ⟨(hph hp).2, hq⟩⟩

theorem insert2_preserves (c : Circuit) (e1 e2 : Edge) (op : Op) (hinv : c.EmitInv)
    (hv1 : c.validReg e1.r = true) (hv2 : c.validReg e2.r = true)
    (hp1 : e1.pos ≤ (c.wire e1.r).length) (hp2 : e2.pos ≤ (c.wire e2.r).length)
    (hq : op.q = [e1.r, e2.r]) (hty1 : e1.r.ty = .e) (hty2 : e2.r.ty ≠ .c)
    (hne : e2 ≠ e1) (h12 : ¬ ReflTransGen c.E (c.dst e1) (c.src e2)) (h21 : ¬ ReflTransGen c.E (c.dst e2) (c.src e1))
    (hph : e2.r.ty = .p → 1 ≤ e2.pos ∧ op.kind.isClassicalControlled = true) :
    (c.insertAt op [e1, e2]).EmitInv := by
  obtain ⟨hwf, hac, hem⟩ := hinv
  have hrr : e1.r ≠ e2.r := distinct_wires_of_compatible c e1 e2 hv1 hp1 hp2 hne h12 h21
  have hnd : (([e1, e2] : List Edge).map (·.r)).Nodup := by simp [hrr]
  have hty1' : e1.r.ty ≠ .c := by rw [hty1]; simp
  refine ⟨?_, ?_, ?_⟩
  · refine WF_insertAt c op [e1, e2] hwf hnd ?_ ?_ ?_ ?_
    · intro e' he'
      simp only [List.mem_cons, List.not_mem_nil, or_false] at he'
      rcases he' with rfl | rfl <;> assumption
    · intro r _; rw [hq]; simp
    · intro i hi
      simp only [List.map_cons, List.map_nil, List.mem_cons, List.not_mem_nil, or_false] at hi
      rcases hi with hi | hi
      · exact absurd (by rw [← hi]) hty1'
      · exact absurd (by rw [← hi]) hty2
    · intro r hr
      rw [hq] at hr
      simp only [List.mem_cons, List.not_mem_nil, or_false] at hr
      rcases hr with rfl | rfl
      · exact ⟨hv1, hty1'⟩
      · exact ⟨hv2, hty2⟩
  · refine acyclic_insertAt c op [e1, e2] hwf hac hnd ?_
    intro a ha b hb
    simp only [List.mem_cons, List.not_mem_nil, or_false] at ha hb
    rcases ha with rfl | rfl <;> rcases hb with rfl | rfl
    · exact no_back_edge hac (E_src_dst c _ hv1)
    · exact h21
    · exact h12
    · exact no_back_edge hac (E_src_dst c _ hv2)
  · refine EmitC_insertAt c op [e1, e2] hwf hem hnd ?_ ?_
    · intro r1 r2 h
      rw [hq] at h
      simp only [List.cons.injEq, and_true] at h
      rintro ⟨hp, _⟩
      rw [← h.1, hty1] at hp
      cases hp
    · intro e' he' hp
      simp only [List.mem_cons, List.not_mem_nil, or_false] at he'
      rcases he' with rfl | rfl
      · rw [hty1] at hp; cases hp
      · refine ⟨(hph hp).1, Or.inr ⟨(hph hp).2, e1.r.idx, ?_⟩⟩
        rw [hq, ← reg_eta_e e1.r hty1]

theorem mem_replaceCands {c : Circuit} {t : RegType} {n : Nat} (h : n ∈ c.replaceCands t) :
    ∃ gs r cr fx, c.node n = some ⟨.wrapper gs, [r], cr, fx⟩ ∧ r.ty = t := by
  simp only [Circuit.replaceCands, List.mem_filter] at h
  obtain ⟨_, h⟩ := h
  split at h
  · rename_i gs r cr fx hnode
    exact ⟨gs, r, cr, fx, hnode, by simpa using h⟩
  · cases h

theorem stepReplace_preserves (c : Circuit) (t : RegType) (ch : Choice) (g : Nat) (c' : Circuit)
    (hinv : c.EmitInv) (h : c.stepReplace t ch g = some c') : c'.EmitInv := by
  unfold Circuit.stepReplace at h
  split at h
  · split at h
    · cases h; exact hinv
    · cases h
  · cases ch with
    | node n =>
      simp only at h
      split at h
      · rename_i hcond
        obtain ⟨gs, r, cr, fx, hnode, hrt⟩ := mem_replaceCands hcond.1
        rw [hnode] at h
        simp only [Circuit.replaceOpE, hnode] at h
        split at h
        · cases h
        · rename_i hne
          simp only [exceptToOption, Option.some.injEq] at h
          subst h
          have hcr : cr = [] := by
            cases cr with
            | nil => rfl
            | cons a l => exact absurd (Or.inr (by simp [mkWrapper])) hne
          obtain ⟨hwf, hac, hem⟩ := hinv
          refine ⟨WF_setNode c n _ _ hwf hnode (by simp [mkWrapper]) (by simp [mkWrapper, hcr]),
                  acyclic_setNode c n _ hac,
                  EmitC_setNode c n _ _ hem hnode (by simp [mkWrapper]) rfl rfl ⟨r, rfl⟩⟩
      · cases h
    | none => simp at h
    | edge e => simp at h
    | pair e1 e2 => simp at h

theorem mem_removeCands {c : Circuit} {n : Nat} (h : n ∈ c.removeCands) :
    ∃ op, c.node n = some op ∧ op.fixed = false := by
  simp only [Circuit.removeCands, List.mem_filter] at h
  obtain ⟨_, h⟩ := h
  split at h
  · rename_i op hnode
    exact ⟨op, hnode, by simpa using h⟩
  · cases h

theorem removeOp_preserves (c : Circuit) (n : Nat) (hinv : c.EmitInv) (h : n ∈ c.removeCands) :
    (c.removeOp n).EmitInv := by
  obtain ⟨op, hnode, hnf⟩ := mem_removeCands h
  obtain ⟨hwf, hac, hem⟩ := hinv
  exact ⟨WF_removeOp c n hwf, acyclic_removeOp c n hac, EmitC_removeOp c n op hem hnode hnf⟩


theorem insertAtE_one (c : Circuit) (op : Op) (e : Edge) (c' : Circuit) (hq : op.q.length = 1)
    (h : exceptToOption (c.insertAtE op [e]) = some c') : c' = c.insertAt op [e] := by
  simp [Circuit.insertAtE, hq, exceptToOption] at h
  exact h.symm

theorem insertAtE_two (c : Circuit) (op : Op) (e1 e2 : Edge) (c' : Circuit) (hq : op.q.length = 2)
    (h : exceptToOption (c.insertAtE op [e1, e2]) = some c') : c' = c.insertAt op [e1, e2] := by
  simp [Circuit.insertAtE, hq, exceptToOption] at h
  exact h.symm

theorem stepPair_preserves (c : Circuit) (kind : Kind) (cr : List Nat) (e1 e2 : Edge) (c' : Circuit)
    (hinv : c.EmitInv) (t2 : RegType) (ht2 : t2 ≠ .c)
    (h1 : e1 ∈ c.edgesOf .e) (h2 : e2 ∈ c.edgesOf t2)
    (hcl : (c.incompatInfo e1).closed = true) (hinc : c.isIncompatible e1 (c.incompatInfo e1) e2 = false)
    (hph : t2 = .p → 1 ≤ e2.pos ∧ kind.isClassicalControlled = true)
    (h : c.stepPair kind cr e1 e2 = some c') : c'.EmitInv := by
  unfold Circuit.stepPair at h
  split at h
  · have := insertAtE_two c _ e1 e2 c' rfl h
    subst this
    obtain ⟨hty1, hv1, hp1⟩ := mem_edgesOf h1
    obtain ⟨hty2, hv2, hp2⟩ := mem_edgesOf h2
    obtain ⟨hne, h12, h21⟩ := compatible_of_not_incompatible c e1 e2 hv2 hcl hinc
    exact insert2_preserves c e1 e2 _ hinv hv1 hv2 hp1 hp2 rfl hty1 (by rw [hty2]; exact ht2) hne h12 h21
      (fun hp => hph (by rw [← hty2]; exact hp))
  · cases h

/-- **every move preserves the invariant** -/
theorem step_preserves (c : Circuit) (m : Move) (c' : Circuit) (hinv : c.EmitInv) (h : c.step m = some c') :
    c'.EmitInv := by
  rcases m with ⟨t, ch, g⟩
  cases t <;> simp only [Circuit.step] at h
  · -- add_emitter_one_qubit_op
    split at h
    · exact stepReplace_preserves c _ ch g c' hinv h
    · cases ch with
      | edge e =>
        simp only at h
        split at h
        · rename_i hcond
          have := insertAtE_one c _ e c' rfl h
          subst this
          have hmem := (List.mem_filter.mp hcond.1).1
          obtain ⟨hty, hv, _⟩ := mem_edgesOf hmem
          exact insert1_preserves c e _ hinv hv (by rw [hty]; simp) rfl (fun hp => by rw [hty] at hp; cases hp)
        · cases h
      | none => simp at h
      | node n => simp at h
      | pair e1 e2 => simp at h
  · -- add_photon_one_qubit_op
    split at h
    · exact stepReplace_preserves c _ ch g c' hinv h
    · cases ch with
      | edge e =>
        simp only at h
        split at h
        · rename_i hcond
          have := insertAtE_one c _ e c' rfl h
          subst this
          have hf := List.mem_filter.mp hcond.1
          obtain ⟨hty, hv, _⟩ := mem_edgesOf hf.1
          have hk : c.kindIs (c.src e) .cnot = true := by
            have := hf.2
            simp only [Bool.and_eq_true] at this
            exact this.1
          exact insert1_preserves c e _ hinv hv (by rw [hty]; simp) rfl
            (fun _ => ⟨pos_ge_one_of_src_not_inp c e (src_not_inp_of_kindIs c e _ hk), rfl⟩)
        · cases h
      | none => simp at h
      | node n => simp at h
      | pair e1 e2 => simp at h
  · exact stepReplace_preserves c _ ch g c' hinv h
  · exact stepReplace_preserves c _ ch g c' hinv h
  · -- add_emitter_cnot
    cases ch with
    | none =>
      simp only at h
      split at h
      · cases h; exact hinv
      · cases h
    | pair e1 e2 =>
      simp only at h
      split at h
      · rename_i hcond
        obtain ⟨hcl, he1, he2, hinc⟩ := hcond
        exact stepPair_preserves c .cnot [] e1 e2 c' hinv .e (by simp)
          (List.mem_filter.mp he1).1 (List.mem_filter.mp he2).1 hcl hinc (fun hp => by cases hp) h
      · cases h
    | node n => simp at h
    | edge e => simp at h
  · -- remove_op
    split at h
    · split at h
      · cases h; exact hinv
      · cases h
    · cases ch with
      | node n =>
        simp only at h
        split at h
        · rename_i hcond
          cases h
          exact removeOp_preserves c n hinv hcond
        · cases h
      | none => simp at h
      | edge e => simp at h
      | pair e1 e2 => simp at h
  · -- add_measurement_cnot_and_reset
    cases ch with
    | none =>
      simp only at h
      split at h
      · cases h; exact hinv
      · cases h
    | pair e1 e2 =>
      simp only at h
      split at h
      · rename_i hcond
        obtain ⟨hcl, he1, he2, hinc⟩ := hcond
        have hf2 := List.mem_filter.mp he2
        have hni : (c.src e2).isInp = false := by
          have := hf2.2
          simp only [Bool.and_eq_true, Bool.not_eq_true'] at this
          exact this.2
        exact stepPair_preserves c .mcr [0] e1 e2 c' hinv .p (by simp)
          (List.mem_filter.mp he1).1 hf2.1 hcl hinc
          (fun _ => ⟨pos_ge_one_of_src_not_inp c e2 hni, rfl⟩) h
      · cases h
    | node n => simp at h
    | edge e => simp at h

/-- … hence every finite history of moves -/
theorem run_preserves (c : Circuit) (ms : List Move) (c' : Circuit) (hinv : c.EmitInv) (h : c.run ms = some c') :
    c'.EmitInv := by
  induction ms generalizing c with
  | nil => simp only [Circuit.run, Option.some.injEq] at h; subst h; exact hinv
  | cons m ms ih =>
    simp only [Circuit.run] at h
    cases hs : c.step m with
    | none => rw [hs] at h; cases h
    | some c1 =>
      rw [hs] at h
      exact ih c1 (step_preserves c m c1 hinv hs) h

end Graphiq.Wire
