/-
  Proofs/EvoMoves.lean — the emission invariant under the elementary edits, soundness of the saturation-based
  reachability sets, and preservation of the invariant by every mutation move.
-/
import GraphiqModel.Proofs.Wire
import Batteries.Data.List.Perm
namespace Graphiq.Wire
open Relation

/-- the invariant of C04: well-formed wires, acyclic DAG, emission constraints -/
def Circuit.EmitInv (c : Circuit) : Prop := c.WF ∧ c.Acyclic ∧ c.EmitC

/-! ## 1. the emission constraints under the elementary edits -/

theorem ins_cons_succ (h : Nat) (rest : List Nat) (p k : Nat) : ins (h :: rest) (p + 1) k = h :: ins rest p k := by
  simp [ins]

theorem isEmission_congr {c c' : Circuit} {j n : Nat} (h : c'.node n = c.node n) (he : c.isEmission j n) :
    c'.isEmission j n := by
  obtain ⟨i, hi⟩ := he
  exact ⟨i, by rw [h, hi]⟩

theorem laterOk_congr {c c' : Circuit} {j n : Nat} (h : c'.node n = c.node n) (he : c.laterOk j n) :
    c'.laterOk j n := by
  obtain ⟨op, hop, hh⟩ := he
  exact ⟨op, by rw [h, hop], hh⟩

theorem EmitC_insertAt (c : Circuit) (op : Op) (es : List Edge) (hwf : c.WF) (hem : c.EmitC)
    (hnd : (es.map (·.r)).Nodup)
    (hpp : ∀ r1 r2, op.q = [r1, r2] → ¬ (r1.ty = .p ∧ r2.ty = .p))
    (hph : ∀ e, e ∈ es → e.r.ty = .p → 1 ≤ e.pos ∧
      ((op.kind.isGate1 = true ∧ op.q = [e.r]) ∨
       (op.kind.isClassicalControlled = true ∧ ∃ i, op.q = [⟨.e, i⟩, e.r]))) :
    (c.insertAt op es).EmitC := by
  have hnode : ∀ r n, n ∈ c.wire r → (c.insertAt op es).node n = c.node n := fun r n hn => by
    have := hwf.wire_le hn
    rw [insertAt_node, if_neg (by omega)]
  constructor
  · intro n op' h r1 r2 hq
    rw [insertAt_node] at h
    by_cases hn : n = c.nid + 1
    · rw [if_pos hn] at h; cases h; exact hpp r1 r2 hq
    · rw [if_neg hn] at h; exact hem.noPP n op' h r1 r2 hq
  · intro j hj
    rw [insertAt_np] at hj
    obtain ⟨h, rest, hw, hemi, hlater⟩ := hem.photon j hj
    have hh : h ∈ c.wire ⟨.p, j⟩ := by rw [hw]; exact List.mem_cons_self
    have hrest : ∀ n, n ∈ rest → n ∈ c.wire ⟨.p, j⟩ := fun n hn => by rw [hw]; exact List.mem_cons_of_mem _ hn
    by_cases hr : (⟨.p, j⟩ : Reg) ∈ es.map (·.r)
    · obtain ⟨e, he, her⟩ := List.mem_map.mp hr
      obtain ⟨hpos, hshape⟩ := hph e he (by rw [her])
      have hwire := insertAt_wire_of_mem c op es hnd e he
      rw [her, hw] at hwire
      obtain ⟨p, hp⟩ : ∃ p, e.pos = p + 1 := ⟨e.pos - 1, by omega⟩
      rw [hp, ins_cons_succ] at hwire
      refine ⟨h, ins rest p (c.nid + 1), hwire, isEmission_congr (hnode _ h hh) hemi, ?_⟩
      intro n hn
      rcases mem_ins.mp hn with rfl | hn
      · refine ⟨op, by rw [insertAt_node, if_pos rfl], ?_⟩
        rw [her] at hshape
        exact hshape
      · exact laterOk_congr (hnode _ n (hrest n hn)) (hlater n hn)
    · refine ⟨h, rest, by rw [insertAt_wire_of_not_mem c op es _ hr, hw], isEmission_congr (hnode _ h hh) hemi, ?_⟩
      intro n hn
      exact laterOk_congr (hnode _ n (hrest n hn)) (hlater n hn)

theorem EmitC_removeOp (c : Circuit) (n0 : Nat) (op0 : Op) (hem : c.EmitC) (h0 : c.node n0 = some op0)
    (hnf : op0.fixed = false) : (c.removeOp n0).EmitC := by
  constructor
  · intro n op h r1 r2 hq
    rw [removeOp_node] at h
    by_cases hn : n = n0
    · rw [if_pos hn] at h; cases h
    · rw [if_neg hn] at h; exact hem.noPP n op h r1 r2 hq
  · intro j hj
    obtain ⟨h, rest, hw, hemi, hlater⟩ := hem.photon j hj
    have hne : h ≠ n0 := by
      rintro rfl
      obtain ⟨i, hi⟩ := hemi
      rw [h0] at hi
      cases hi
      cases hnf
    refine ⟨h, rest.filter (fun m => m ≠ n0), ?_, ?_, ?_⟩
    · simp [Circuit.removeOp, hw, hne]
    · exact isEmission_congr (by rw [removeOp_node, if_neg hne]) hemi
    · intro n hn
      have hn' := List.mem_filter.mp hn
      have hne' : n ≠ n0 := by simpa using hn'.2
      exact laterOk_congr (by rw [removeOp_node, if_neg hne']) (hlater n hn'.1)

theorem EmitC_setNode (c : Circuit) (n0 : Nat) (old op' : Op) (hem : c.EmitC) (hold : c.node n0 = some old)
    (hq : old.q = op'.q) (hk : old.kind.isWrapper = true) (hk' : op'.kind.isGate1 = true)
    (hlen : ∃ r, old.q = [r]) : (c.setNode n0 (some op')).EmitC := by
  have hnode : ∀ m, (c.setNode n0 (some op')).node m = if m = n0 then some op' else c.node m := fun _ => rfl
  constructor
  · intro n op h r1 r2 hq'
    rw [hnode] at h
    by_cases hn : n = n0
    · rw [if_pos hn] at h
      cases h
      obtain ⟨r, hr⟩ := hlen
      rw [← hq, hr] at hq'
      cases hq'
    · rw [if_neg hn] at h; exact hem.noPP n op h r1 r2 hq'
  · intro j hj
    obtain ⟨h, rest, hw, hemi, hlater⟩ := hem.photon j hj
    have hne : h ≠ n0 := by
      rintro rfl
      obtain ⟨i, hi⟩ := hemi
      rw [hold] at hi
      cases hi
      cases hk
    refine ⟨h, rest, hw, isEmission_congr (by rw [hnode, if_neg hne]) hemi, ?_⟩
    intro n hn
    by_cases hn0 : n = n0
    · subst hn0
      obtain ⟨op, hop, hshape⟩ := hlater n hn
      rw [hold] at hop
      cases hop
      refine ⟨op', by rw [hnode, if_pos rfl], ?_⟩
      rcases hshape with ⟨_, hq1⟩ | ⟨hcc, _⟩
      · left; exact ⟨hk', by rw [← hq, hq1]⟩
      · cases hkind : old.kind <;> simp [hkind, Kind.isWrapper, Kind.isClassicalControlled] at hk hcc
    · exact laterOk_congr (by rw [hnode, if_neg hn0]) (hlater n hn)

/-! ## 2. reachability sets computed by saturation are complete once they are closed -/

theorem mem_succs (c : Circuit) (x y : V) : y ∈ c.succs x ↔ c.E x y := by
  unfold Circuit.succs Circuit.E
  rw [List.mem_filterMap]
  constructor
  · rintro ⟨⟨a, b⟩, hp, h⟩
    by_cases ha : a = x
    · simp only [ha, if_true, Option.some.injEq] at h
      subst h; subst ha; exact hp
    · simp [ha] at h
  · intro h
    exact ⟨(x, y), h, by simp⟩

theorem mem_preds (c : Circuit) (x y : V) : x ∈ c.preds y ↔ c.E x y := by
  unfold Circuit.preds Circuit.E
  rw [List.mem_filterMap]
  constructor
  · rintro ⟨⟨a, b⟩, hp, h⟩
    by_cases hb : b = y
    · simp only [hb, if_true, Option.some.injEq] at h
      subst h; subst hb; exact hp
    · simp [hb] at h
  · intro h
    exact ⟨(x, y), h, by simp⟩

theorem closedUnder_iff (step : V → List V) (S : List V) :
    closedUnder step S = true ↔ ∀ x, x ∈ S → ∀ y, y ∈ step x → y ∈ S := by
  simp [closedUnder, List.all_eq_true]

/-- a `succs`-closed set containing the successors of `b` contains every strict descendant of `b` -/
theorem closed_desc (c : Circuit) (D : List V) (b : V) (hcl : closedUnder c.succs D = true)
    (hs : ∀ x, x ∈ c.succs b → x ∈ D) {y : V} (h : TransGen c.E b y) : y ∈ D := by
  rw [closedUnder_iff] at hcl
  induction h with
  | single h => exact hs _ ((mem_succs c _ _).mpr h)
  | tail _ h ih => exact hcl _ ih _ ((mem_succs c _ _).mpr h)

/-- a `preds`-closed set containing the predecessors of `a` contains every strict ancestor of `a` -/
theorem closed_anc (c : Circuit) (A : List V) (a : V) (hcl : closedUnder c.preds A = true)
    (hs : ∀ x, x ∈ c.preds a → x ∈ A) {x : V} (h : TransGen c.E x a) : x ∈ A := by
  rw [closedUnder_iff] at hcl
  induction h using TransGen.head_induction_on with
  | single h => exact hs _ ((mem_preds c _ _).mpr h)
  | head h _ ih => exact hcl _ ih _ ((mem_preds c _ _).mpr h)

/-- what a closed `incompatInfo` and a negative `isIncompatible` give: the two insertion conditions -/
theorem compatible_of_not_incompatible (c : Circuit) (e1 e2 : Edge) (hv2 : c.validReg e2.r = true)
    (hcl : (c.incompatInfo e1).closed = true) (hinc : c.isIncompatible e1 (c.incompatInfo e1) e2 = false) :
    e2 ≠ e1 ∧ ¬ ReflTransGen c.E (c.dst e1) (c.src e2) ∧ ¬ ReflTransGen c.E (c.dst e2) (c.src e1) := by
  simp only [Circuit.isIncompatible, Bool.or_eq_false_iff, decide_eq_false_iff_not] at hinc
  obtain ⟨⟨⟨⟨hne, hds⟩, hanc⟩, hsd⟩, hdesc⟩ := hinc
  simp only [Circuit.incompatInfo, Bool.and_eq_true, List.all_eq_true, decide_eq_true_eq] at hcl
  obtain ⟨⟨⟨hclA, hclD⟩, hpa⟩, hsb⟩ := hcl
  refine ⟨hne, ?_, ?_⟩
  · intro h
    rcases reflTransGen_iff_eq_or_transGen.mp h with h | h
    · exact hsd h
    · exact hdesc (closed_desc c _ _ hclD hsb h)
  · intro h
    rcases reflTransGen_iff_eq_or_transGen.mp h with h | h
    · exact hds h.symm
    · exact hanc (closed_anc c _ _ hclA hpa (TransGen.head (E_src_dst c e2 hv2) h))

/-! ## 3. two edges of one wire are never compatible -/

section SameWire
variable {α : Type}

theorem adj_getElem (l : List α) (j : Nat) (h : j + 1 < l.length) :
    Adj l (l[j]'(by omega)) (l[j + 1]'h) := by
  unfold Adj pairs
  have hlen : j < (l.zip l.tail).length := by simp; omega
  have : (l.zip l.tail)[j]'hlen = (l[j]'(by omega), l[j + 1]'h) := by
    simp [List.getElem_zip, List.getElem_tail]
  rw [← this]
  exact List.getElem_mem hlen

theorem reach_getElem (l : List α) (i j : Nat) (hij : i ≤ j) (hj : j < l.length) :
    ReflTransGen (Adj l) (l[i]'(by omega)) (l[j]'hj) := by
  induction j with
  | zero =>
    have : i = 0 := by omega
    subst this
    exact ReflTransGen.refl
  | succ j ih =>
    by_cases h : i = j + 1
    · subst h; exact ReflTransGen.refl
    · exact (ih (by omega) (by omega)).tail (adj_getElem l j hj)

end SameWire

theorem aug_length (c : Circuit) (r : Reg) : (c.aug r).length = (c.wire r).length + 2 := by
  simp [Circuit.aug]

theorem L1_length (c : Circuit) (e : Edge) (h : e.pos ≤ (c.wire e.r).length) : (L1 c e).length = e.pos + 1 := by
  simp [L1, Nat.min_eq_left h]

theorem src_eq_getElem (c : Circuit) (e : Edge) (h : e.pos ≤ (c.wire e.r).length) :
    c.src e = (c.aug e.r)[e.pos]'(by rw [aug_length]; omega) := by
  have h1 := L1_getLast c e
  have hl := L1_length c e h
  rw [List.getLast?_eq_getElem?] at h1
  have h2 : (L1 c e)[e.pos]? = some (c.src e) := by rw [← h1, hl]; rfl
  have h3 : (c.aug e.r)[e.pos]? = some (c.src e) := by
    rw [aug_split, List.getElem?_append_left (by omega), h2]
  obtain ⟨_, h4⟩ := List.getElem?_eq_some_iff.mp h3
  exact h4.symm

theorem dst_eq_getElem (c : Circuit) (e : Edge) (h : e.pos ≤ (c.wire e.r).length) :
    c.dst e = (c.aug e.r)[e.pos + 1]'(by rw [aug_length]; omega) := by
  have h1 := L2_head c e
  have hl := L1_length c e h
  have h3 : (c.aug e.r)[e.pos + 1]? = some (c.dst e) := by
    rw [aug_split, List.getElem?_append_right (by omega), hl, Nat.sub_self, ← List.head?_eq_getElem?, h1]
  obtain ⟨_, h4⟩ := List.getElem?_eq_some_iff.mp h3
  exact h4.symm

/-- on one wire, the head of an earlier edge reaches the tail of a later edge -/
theorem reach_along_wire (c : Circuit) (r : Reg) (p q : Nat) (hv : c.validReg r = true) (hpq : p < q)
    (hq : q ≤ (c.wire r).length) : ReflTransGen c.E (c.dst ⟨r, p⟩) (c.src ⟨r, q⟩) := by
  rw [dst_eq_getElem c ⟨r, p⟩ (by simp; omega), src_eq_getElem c ⟨r, q⟩ (by simpa using hq)]
  have := reach_getElem (c.aug r) (p + 1) q (by omega) (by rw [aug_length]; omega)
  exact ReflTransGen.mono (fun x y hxy => (E_iff c x y).mpr ⟨r, hv, hxy⟩) _ _ this

theorem distinct_wires_of_compatible (c : Circuit) (e1 e2 : Edge) (hv : c.validReg e1.r = true)
    (h1 : e1.pos ≤ (c.wire e1.r).length) (h2 : e2.pos ≤ (c.wire e2.r).length) (hne : e2 ≠ e1)
    (h12 : ¬ ReflTransGen c.E (c.dst e1) (c.src e2)) (h21 : ¬ ReflTransGen c.E (c.dst e2) (c.src e1)) :
    e1.r ≠ e2.r := by
  intro hr
  rcases e1 with ⟨r1, p1⟩
  rcases e2 with ⟨r2, p2⟩
  simp only at hr h1 h2 hv
  subst hr
  have hp : p1 ≠ p2 := fun h => hne (by rw [h])
  rcases Nat.lt_or_gt_of_ne hp with h | h
  · exact h12 (reach_along_wire c r1 p1 p2 hv h h2)
  · exact h21 (reach_along_wire c r1 p2 p1 hv h h1)

/-! ## 4. every mutation move preserves the invariant -/

theorem mem_edgesOf {c : Circuit} {t : RegType} {e : Edge} (h : e ∈ c.edgesOf t) :
    e.r.ty = t ∧ c.validReg e.r = true ∧ e.pos ≤ (c.wire e.r).length := by
  simp only [Circuit.edgesOf, Circuit.regsOf, List.mem_flatMap, List.mem_map, List.mem_range] at h
  obtain ⟨r, ⟨i, hi, rfl⟩, p, hp, rfl⟩ := h
  refine ⟨rfl, ?_, by simp only; omega⟩
  simp [Circuit.validReg, hi]

theorem no_back_edge {c : Circuit} (hac : c.Acyclic) {a b : V} (h : c.E a b) : ¬ ReflTransGen c.E b a :=
  fun hba => hac a (TransGen.head' h hba)

theorem src_of_pos_zero (c : Circuit) (e : Edge) (h : e.pos = 0) : c.src e = V.inp e.r := by
  simp [Circuit.src, h]

theorem pos_ge_one_of_src_not_inp (c : Circuit) (e : Edge) (h : (c.src e).isInp = false) : 1 ≤ e.pos := by
  rcases Nat.eq_zero_or_pos e.pos with h0 | h0
  · rw [src_of_pos_zero c e h0] at h; simp [V.isInp] at h
  · exact h0

theorem src_not_inp_of_kindIs (c : Circuit) (e : Edge) (k : Kind) (h : c.kindIs (c.src e) k = true) :
    (c.src e).isInp = false := by
  cases hs : c.src e with
  | inp r => simp [Circuit.kindIs, Circuit.kindOfV, hs] at h
  | out r => rfl
  | op n => rfl

theorem reg_eta_e (r : Reg) (h : r.ty = .e) : r = ⟨.e, r.idx⟩ := by
  rcases r with ⟨ty, i⟩; simp only at h; subst h; rfl

theorem insert1_preserves (c : Circuit) (e : Edge) (op : Op) (hinv : c.EmitInv) (hv : c.validReg e.r = true)
    (hty : e.r.ty ≠ .c) (hq : op.q = [e.r]) (hph : e.r.ty = .p → 1 ≤ e.pos ∧ op.kind.isGate1 = true) :
    (c.insertAt op [e]).EmitInv := by
  obtain ⟨hwf, hac, hem⟩ := hinv
  have hnd : (([e] : List Edge).map (·.r)).Nodup := by simp
  refine ⟨?_, ?_, ?_⟩
  · refine WF_insertAt c op [e] hwf hnd ?_ ?_ ?_ ?_
    · intro e' he'; simp only [List.mem_singleton] at he'; subst he'; exact hv
    · intro r _; rw [hq]; simp
    · intro i hi
      simp only [List.map_cons, List.map_nil, List.mem_singleton] at hi
      exact absurd (by rw [← hi]) hty
    · intro r hr
      rw [hq, List.mem_singleton] at hr
      subst hr; exact ⟨hv, hty⟩
  · refine acyclic_insertAt c op [e] hwf hac hnd ?_
    intro e1 he1 e2 he2
    simp only [List.mem_singleton] at he1 he2
    rw [he1, he2]
    exact no_back_edge hac (E_src_dst c e hv)
  · refine EmitC_insertAt c op [e] hwf hem hnd ?_ ?_
    · intro r1 r2 h; rw [hq] at h; cases h
    · intro e' he' hp
      simp only [List.mem_singleton] at he'; subst he'
      exact ⟨(hph hp).1, Or.inl ⟨(hph hp).2, hq⟩⟩

theorem insert2_preserves (c : Circuit) (e1 e2 : Edge) (op : Op) (hinv : c.EmitInv)
    (hv1 : c.validReg e1.r = true) (hv2 : c.validReg e2.r = true)
    (hp1 : e1.pos ≤ (c.wire e1.r).length) (hp2 : e2.pos ≤ (c.wire e2.r).length)
    (hq : op.q = [e1.r, e2.r]) (hty1 : e1.r.ty = .e) (hty2 : e2.r.ty ≠ .c)
    (hne : e2 ≠ e1) (h12 : ¬ ReflTransGen c.E (c.dst e1) (c.src e2)) (h21 : ¬ ReflTransGen c.E (c.dst e2) (c.src e1))
    (hph : e2.r.ty = .p → 1 ≤ e2.pos ∧ op.kind.isClassicalControlled = true) :
    (c.insertAt op [e1, e2]).EmitInv := by
  obtain ⟨hwf, hac, hem⟩ := hinv
  have hrr : e1.r ≠ e2.r := distinct_wires_of_compatible c e1 e2 hv1 hp1 hp2 hne h12 h21
  have hnd : (([e1, e2] : List Edge).map (·.r)).Nodup := by simp [hrr]
  have hty1' : e1.r.ty ≠ .c := by rw [hty1]; simp
  refine ⟨?_, ?_, ?_⟩
  · refine WF_insertAt c op [e1, e2] hwf hnd ?_ ?_ ?_ ?_
    · intro e' he'
      simp only [List.mem_cons, List.not_mem_nil, or_false] at he'
      rcases he' with rfl | rfl <;> assumption
    · intro r _; rw [hq]; simp
    · intro i hi
      simp only [List.map_cons, List.map_nil, List.mem_cons, List.not_mem_nil, or_false] at hi
      rcases hi with hi | hi
      · exact absurd (by rw [← hi]) hty1'
      · exact absurd (by rw [← hi]) hty2
    · intro r hr
      rw [hq] at hr
      simp only [List.mem_cons, List.not_mem_nil, or_false] at hr
      rcases hr with rfl | rfl
      · exact ⟨hv1, hty1'⟩
      · exact ⟨hv2, hty2⟩
  · refine acyclic_insertAt c op [e1, e2] hwf hac hnd ?_
    intro a ha b hb
    simp only [List.mem_cons, List.not_mem_nil, or_false] at ha hb
    rcases ha with rfl | rfl <;> rcases hb with rfl | rfl
    · exact no_back_edge hac (E_src_dst c _ hv1)
    · exact h21
    · exact h12
    · exact no_back_edge hac (E_src_dst c _ hv2)
  · refine EmitC_insertAt c op [e1, e2] hwf hem hnd ?_ ?_
    · intro r1 r2 h
      rw [hq] at h
      simp only [List.cons.injEq, and_true] at h
      rintro ⟨hp, _⟩
      rw [← h.1, hty1] at hp
      cases hp
    · intro e' he' hp
      simp only [List.mem_cons, List.not_mem_nil, or_false] at he'
      rcases he' with rfl | rfl
      · rw [hty1] at hp; cases hp
      · refine ⟨(hph hp).1, Or.inr ⟨(hph hp).2, e1.r.idx, ?_⟩⟩
        rw [hq, ← reg_eta_e e1.r hty1]

theorem mem_replaceCands {c : Circuit} {t : RegType} {n : Nat} (h : n ∈ c.replaceCands t) :
    ∃ gs r cr fx, c.node n = some ⟨.wrapper gs, [r], cr, fx⟩ ∧ r.ty = t := by
  simp only [Circuit.replaceCands, List.mem_filter] at h
  obtain ⟨_, h⟩ := h
  split at h
  · rename_i gs r cr fx hnode
    exact ⟨gs, r, cr, fx, hnode, by simpa using h⟩
  · cases h

theorem stepReplace_preserves (c : Circuit) (t : RegType) (ch : Choice) (g : Nat) (c' : Circuit)
    (hinv : c.EmitInv) (h : c.stepReplace t ch g = some c') : c'.EmitInv := by
  unfold Circuit.stepReplace at h
  split at h
  · split at h
    · cases h; exact hinv
    · cases h
  · cases ch with
    | node n =>
      simp only at h
      split at h
      · rename_i hcond
        obtain ⟨gs, r, cr, fx, hnode, hrt⟩ := mem_replaceCands hcond.1
        rw [hnode] at h
        simp only [Circuit.replaceOpE, hnode] at h
        split at h
        · cases h
        · rename_i hne
          simp only [exceptToOption, Option.some.injEq] at h
          subst h
          have hcr : cr = [] := by
            cases cr with
            | nil => rfl
            | cons a l => exact absurd (Or.inr (by simp [mkWrapper])) hne
          obtain ⟨hwf, hac, hem⟩ := hinv
          refine ⟨WF_setNode c n _ _ hwf hnode (by simp [mkWrapper]) (by simp [mkWrapper, hcr]),
                  acyclic_setNode c n _ hac,
                  EmitC_setNode c n _ _ hem hnode (by simp [mkWrapper]) rfl rfl ⟨r, rfl⟩⟩
      · cases h
    | none => simp at h
    | edge e => simp at h
    | pair e1 e2 => simp at h

theorem mem_removeCands {c : Circuit} {n : Nat} (h : n ∈ c.removeCands) :
    ∃ op, c.node n = some op ∧ op.fixed = false := by
  simp only [Circuit.removeCands, List.mem_filter] at h
  obtain ⟨_, h⟩ := h
  split at h
  · rename_i op hnode
    exact ⟨op, hnode, by simpa using h⟩
  · cases h

theorem removeOp_preserves (c : Circuit) (n : Nat) (hinv : c.EmitInv) (h : n ∈ c.removeCands) :
    (c.removeOp n).EmitInv := by
  obtain ⟨op, hnode, hnf⟩ := mem_removeCands h
  obtain ⟨hwf, hac, hem⟩ := hinv
  exact ⟨WF_removeOp c n hwf, acyclic_removeOp c n hac, EmitC_removeOp c n op hem hnode hnf⟩


theorem insertAtE_one (c : Circuit) (op : Op) (e : Edge) (c' : Circuit) (hq : op.q.length = 1)
    (h : exceptToOption (c.insertAtE op [e]) = some c') : c' = c.insertAt op [e] := by
  simp [Circuit.insertAtE, hq, exceptToOption] at h
  exact h.symm

theorem insertAtE_two (c : Circuit) (op : Op) (e1 e2 : Edge) (c' : Circuit) (hq : op.q.length = 2)
    (h : exceptToOption (c.insertAtE op [e1, e2]) = some c') : c' = c.insertAt op [e1, e2] := by
  simp [Circuit.insertAtE, hq, exceptToOption] at h
  exact h.symm

theorem stepPair_preserves (c : Circuit) (kind : Kind) (cr : List Nat) (e1 e2 : Edge) (c' : Circuit)
    (hinv : c.EmitInv) (t2 : RegType) (ht2 : t2 ≠ .c)
    (h1 : e1 ∈ c.edgesOf .e) (h2 : e2 ∈ c.edgesOf t2)
    (hcl : (c.incompatInfo e1).closed = true) (hinc : c.isIncompatible e1 (c.incompatInfo e1) e2 = false)
    (hph : t2 = .p → 1 ≤ e2.pos ∧ kind.isClassicalControlled = true)
    (h : c.stepPair kind cr e1 e2 = some c') : c'.EmitInv := by
  unfold Circuit.stepPair at h
  split at h
  · have := insertAtE_two c _ e1 e2 c' rfl h
    subst this
    obtain ⟨hty1, hv1, hp1⟩ := mem_edgesOf h1
    obtain ⟨hty2, hv2, hp2⟩ := mem_edgesOf h2
    obtain ⟨hne, h12, h21⟩ := compatible_of_not_incompatible c e1 e2 hv2 hcl hinc
    exact insert2_preserves c e1 e2 _ hinv hv1 hv2 hp1 hp2 rfl hty1 (by rw [hty2]; exact ht2) hne h12 h21
      (fun hp => hph (by rw [← hty2]; exact hp))
  · cases h

/-- **every move preserves the invariant** -/
theorem step_preserves (c : Circuit) (m : Move) (c' : Circuit) (hinv : c.EmitInv) (h : c.step m = some c') :
    c'.EmitInv := by
  rcases m with ⟨t, ch, g⟩
  cases t <;> simp only [Circuit.step] at h
  · -- add_emitter_one_qubit_op
    split at h
    · exact stepReplace_preserves c _ ch g c' hinv h
    · cases ch with
      | edge e =>
        simp only at h
        split at h
        · rename_i hcond
          have := insertAtE_one c _ e c' rfl h
          subst this
          have hmem := (List.mem_filter.mp hcond.1).1
          obtain ⟨hty, hv, _⟩ := mem_edgesOf hmem
          exact insert1_preserves c e _ hinv hv (by rw [hty]; simp) rfl (fun hp => by rw [hty] at hp; cases hp)
        · cases h
      | none => simp at h
      | node n => simp at h
      | pair e1 e2 => simp at h
  · -- add_photon_one_qubit_op
    split at h
    · exact stepReplace_preserves c _ ch g c' hinv h
    · cases ch with
      | edge e =>
        simp only at h
        split at h
        · rename_i hcond
          have := insertAtE_one c _ e c' rfl h
          subst this
          have hf := List.mem_filter.mp hcond.1
          obtain ⟨hty, hv, _⟩ := mem_edgesOf hf.1
          have hk : c.kindIs (c.src e) .cnot = true := by
            have := hf.2
            simp only [Bool.and_eq_true] at this
            exact this.1
          exact insert1_preserves c e _ hinv hv (by rw [hty]; simp) rfl
            (fun _ => ⟨pos_ge_one_of_src_not_inp c e (src_not_inp_of_kindIs c e _ hk), rfl⟩)
        · cases h
      | none => simp at h
      | node n => simp at h
      | pair e1 e2 => simp at h
  · exact stepReplace_preserves c _ ch g c' hinv h
  · exact stepReplace_preserves c _ ch g c' hinv h
  · -- add_emitter_cnot
    cases ch with
    | none =>
      simp only at h
      split at h
      · cases h; exact hinv
      · cases h
    | pair e1 e2 =>
      simp only at h
      split at h
      · rename_i hcond
        obtain ⟨hcl, he1, he2, hinc⟩ := hcond
        exact stepPair_preserves c .cnot [] e1 e2 c' hinv .e (by simp)
          (List.mem_filter.mp he1).1 (List.mem_filter.mp he2).1 hcl hinc (fun hp => by cases hp) h
      · cases h
    | node n => simp at h
    | edge e => simp at h
  · -- remove_op
    split at h
    · split at h
      · cases h; exact hinv
      · cases h
    · cases ch with
      | node n =>
        simp only at h
        split at h
        · rename_i hcond
          cases h
          exact removeOp_preserves c n hinv hcond
        · cases h
      | none => simp at h
      | edge e => simp at h
      | pair e1 e2 => simp at h
  · -- add_measurement_cnot_and_reset
    cases ch with
    | none =>
      simp only at h
      split at h
      · cases h; exact hinv
      · cases h
    | pair e1 e2 =>
      simp only at h
      split at h
      · rename_i hcond
        obtain ⟨hcl, he1, he2, hinc⟩ := hcond
        have hf2 := List.mem_filter.mp he2
        have hni : (c.src e2).isInp = false := by
          have := hf2.2
          simp only [Bool.and_eq_true, Bool.not_eq_true'] at this
          exact this.2
        exact stepPair_preserves c .mcr [0] e1 e2 c' hinv .p (by simp)
          (List.mem_filter.mp he1).1 hf2.1 hcl hinc
          (fun _ => ⟨pos_ge_one_of_src_not_inp c e2 hni, rfl⟩) h
      · cases h
    | node n => simp at h
    | edge e => simp at h

/-- … hence every finite history of moves -/
theorem run_preserves (c : Circuit) (ms : List Move) (c' : Circuit) (hinv : c.EmitInv) (h : c.run ms = some c') :
    c'.EmitInv := by
  induction ms generalizing c with
  | nil => simp only [Circuit.run, Option.some.injEq] at h; subst h; exact hinv
  | cons m ms ih =>
    simp only [Circuit.run] at h
    cases hs : c.step m with
    | none => rw [hs] at h; cases h
    | some c1 =>
      rw [hs] at h
      exact ih c1 (step_preserves c m c1 hinv hs) h

/-! ## 5. initial circuits -/

/-! ### `get_emission_assignment` stays below `n_emitter` -/

structure EAInv (ne : Nat) (s : EAState) (k : Nat) : Prop where
  lt : ∀ x, x ∈ s.assignment → x < ne
  used_pos : 1 ≤ s.used
  used_le : s.used ≤ ne
  avail_le : s.avail ≤ ne
  avail_eq : s.used < ne → s.avail = s.used + 1
  len : s.ok = true → s.assignment.length = k

theorem eaStep_inv (np ne : Nat) (s : EAState) (k i : Nat) (hi : i < np) (h : EAInv ne s k) :
    EAInv ne (eaStep np ne s i) (k + 1) := by
  obtain ⟨hlt, hup, hul, hal, hae, hlen⟩ := h
  unfold eaStep
  split
  · rename_i hforced
    have hu : s.used < ne := by omega
    refine ⟨?_, ?_, ?_, ?_, ?_, ?_⟩
    · intro x hx
      simp only [List.mem_append, List.mem_singleton] at hx
      rcases hx with hx | rfl
      · exact hlt x hx
      · exact hu
    · simp only; omega
    · simp only; omega
    · simp only; split <;> omega
    · simp only; intro h; rw [if_pos h]; have := hae hu; omega
    · simp only [List.length_append, List.length_singleton]; intro h; rw [hlen h]
  · cases hd : s.draws with
    | nil => exact ⟨hlt, hup, hul, hal, hae, fun h => by simp at h⟩
    | cons d ds =>
      simp only
      split
      · rename_i hdlt
        split
        · rename_i hnew
          refine ⟨?_, ?_, ?_, ?_, ?_, ?_⟩
          · intro x hx
            simp only [List.mem_append, List.mem_singleton] at hx
            rcases hx with hx | rfl
            · exact hlt x hx
            · omega
          · simp only; omega
          · simp only; omega
          · simp only; split <;> omega
          · simp only; intro h; rw [if_pos h]; have := hae hnew.2; omega
          · simp only [List.length_append, List.length_singleton]; intro h; rw [hlen h]
        · refine ⟨?_, hup, hul, hal, hae, ?_⟩
          · intro x hx
            simp only [List.mem_append, List.mem_singleton] at hx
            rcases hx with hx | rfl
            · exact hlt x hx
            · omega
          · simp only [List.length_append, List.length_singleton]; intro h; rw [hlen h]
      · exact ⟨hlt, hup, hul, hal, hae, fun h => by simp at h⟩

theorem ea_fold_inv (np ne : Nat) (l : List Nat) (s : EAState) (k : Nat) (hl : ∀ i, i ∈ l → i < np)
    (h : EAInv ne s k) : EAInv ne (l.foldl (eaStep np ne) s) (k + l.length) := by
  induction l generalizing s k with
  | nil => simpa using h
  | cons i l ih =>
    simp only [List.foldl_cons, List.length_cons]
    have := ih (eaStep np ne s i) (k + 1) (fun j hj => hl j (List.mem_cons_of_mem _ hj))
      (eaStep_inv np ne s k i (hl i List.mem_cons_self) h)
    rw [show k + (l.length + 1) = k + 1 + l.length by omega]
    exact this

/-- every photon is assigned an existing emitter, and there is one entry per photon -/
theorem getEmissionAssignment_bound (np ne : Nat) (draws ea : List Nat) (hne : 1 ≤ ne) (hnp : 1 ≤ np)
    (h : getEmissionAssignment np ne draws = some ea) : (∀ x, x ∈ ea → x < ne) ∧ ea.length = np := by
  unfold getEmissionAssignment at h
  split at h
  · rename_i h1
    cases h
    exact ⟨fun x hx => by rw [List.mem_replicate] at hx; omega, by simp⟩
  · rename_i h1
    simp only at h
    split at h
    · rename_i hok
      cases h
      have h0 : EAInv ne ⟨[0], 2, 1, draws, true⟩ 1 :=
        ⟨fun x hx => by simp at hx; omega, by simp, by simp; omega, by simp; omega, fun _ => rfl, fun _ => rfl⟩
      have := ea_fold_inv np ne (List.range' 1 (np - 1)) _ 1
        (fun i hi => by rw [List.mem_range'_1] at hi; omega) h0
      refine ⟨this.lt, ?_⟩
      rw [this.len hok, List.length_range']
      omega
    · cases h

/-! ### the emission constraints while photons are still being emitted -/

structure Circuit.EmitPre (c : Circuit) : Prop where
  noPP : ∀ n op, c.node n = some op → ∀ r1 r2, op.q = [r1, r2] → ¬ (r1.ty = .p ∧ r2.ty = .p)
  photon : ∀ j, j < c.np → c.wire ⟨.p, j⟩ = [] ∨
    ∃ h rest, c.wire ⟨.p, j⟩ = h :: rest ∧ c.isEmission j h ∧ ∀ n, n ∈ rest → c.laterOk j n

theorem EmitC_of_pre (c : Circuit) (h : c.EmitPre) (hne : ∀ j, j < c.np → c.wire ⟨.p, j⟩ ≠ []) : c.EmitC :=
  ⟨h.noPP, fun j hj => (h.photon j hj).resolve_left (hne j hj)⟩

theorem EmitPre_addCore (c : Circuit) (op : Op) (hwf : c.WF) (hem : c.EmitPre) (hnd : op.addRegs.Nodup)
    (hpp : ∀ r1 r2, op.q = [r1, r2] → ¬ (r1.ty = .p ∧ r2.ty = .p))
    (hph : ∀ j, (⟨.p, j⟩ : Reg) ∈ op.addRegs →
      (c.wire ⟨.p, j⟩ = [] ∧ ∃ i, op = ⟨.cnot, [⟨.e, i⟩, ⟨.p, j⟩], [], true⟩) ∨
      (c.wire ⟨.p, j⟩ ≠ [] ∧ ((op.kind.isGate1 = true ∧ op.q = [⟨.p, j⟩]) ∨
       (op.kind.isClassicalControlled = true ∧ ∃ i, op.q = [⟨.e, i⟩, ⟨.p, j⟩])))) :
    (c.addCore op).EmitPre := by
  have hnode : ∀ r n, n ∈ c.wire r → (c.addCore op).node n = c.node n := fun r n hn => by
    have := hwf.wire_le hn
    rw [addCore_eq, insertAt_node, if_neg (by omega)]
  have hnodek : (c.addCore op).node (c.nid + 1) = some op := by rw [addCore_eq, insertAt_node, if_pos rfl]
  constructor
  · intro n op' h r1 r2 hq
    rw [addCore_eq, insertAt_node] at h
    by_cases hn : n = c.nid + 1
    · rw [if_pos hn] at h; cases h; exact hpp r1 r2 hq
    · rw [if_neg hn] at h; exact hem.noPP n op' h r1 r2 hq
  · intro j hj
    have hj' : j < c.np := by rw [addCore_eq, insertAt_np] at hj; exact hj
    rw [addCore_wire c op hnd]
    by_cases hr : (⟨.p, j⟩ : Reg) ∈ op.addRegs
    · rw [if_pos hr]
      right
      rcases hph j hr with ⟨hempty, i, hop⟩ | ⟨hne, hshape⟩
      · refine ⟨c.nid + 1, [], by rw [hempty]; rfl, ⟨i, by rw [hnodek, hop]⟩, fun n hn => by cases hn⟩
      · rcases hem.photon j hj' with h | ⟨h, rest, hw, hemi, hlater⟩
        · exact absurd h hne
        · have hh : h ∈ c.wire ⟨.p, j⟩ := by rw [hw]; exact List.mem_cons_self
          refine ⟨h, rest ++ [c.nid + 1], by rw [hw]; rfl, isEmission_congr (hnode _ h hh) hemi, ?_⟩
          intro n hn
          rcases List.mem_append.mp hn with hn | hn
          · exact laterOk_congr (hnode _ n (by rw [hw]; exact List.mem_cons_of_mem _ hn)) (hlater n hn)
          · simp only [List.mem_singleton] at hn
            subst hn
            exact ⟨op, hnodek, hshape⟩
    · rw [if_neg hr]
      rcases hem.photon j hj' with h | ⟨h, rest, hw, hemi, hlater⟩
      · exact Or.inl h
      · have hh : h ∈ c.wire ⟨.p, j⟩ := by rw [hw]; exact List.mem_cons_self
        refine Or.inr ⟨h, rest, hw, isEmission_congr (hnode _ h hh) hemi, fun n hn => ?_⟩
        exact laterOk_congr (hnode _ n (by rw [hw]; exact List.mem_cons_of_mem _ hn)) (hlater n hn)

/-! ### `initialization` -/

structure InitInv (c : Circuit) (ne np i : Nat) : Prop where
  wf : c.WF
  ac : c.Acyclic
  pre : c.EmitPre
  hne : c.ne = ne
  hnp : c.np = np
  hnc : c.nc = 1
  filled : ∀ j, j < i → c.wire ⟨.p, j⟩ ≠ []
  empty : ∀ j, i ≤ j → c.wire ⟨.p, j⟩ = []

/-- one iteration of the photon loop: emission CNOT, then the `[Identity, Hadamard]` wrapper -/
theorem init_photon_step (c : Circuit) (ne np i a : Nat) (h : InitInv c ne np i) (hi : i < np) (ha : a < ne) :
    ∃ c2, (do let c' ← c.add (emissionOp a i); c'.add (initWrapperOp i)) = Except.ok c2 ∧ InitInv c2 ne np (i + 1) := by
  obtain ⟨hwf, hac, hpre, hne, hnp, hnc, hfill, hempty⟩ := h
  -- first operation
  have hnd1 : (emissionOp a i).addRegs.Nodup := by simp [emissionOp, Op.addRegs]
  have hq1 : ∀ r, r ∈ (emissionOp a i).q → c.validReg r = true ∧ r.ty ≠ .c := by
    intro r hr
    simp only [emissionOp, List.mem_cons, List.not_mem_nil, or_false] at hr
    rcases hr with rfl | rfl
    · exact ⟨validReg_e c a (by omega), by simp⟩
    · exact ⟨validReg_p c i (by omega), by simp⟩
  have hc1 : ∀ j, j ∈ (emissionOp a i).cr → c.validReg ⟨.c, j⟩ = true := by intro j hj; simp [emissionOp] at hj
  have hadd1 := add_of_valid c (emissionOp a i) (fun r hr => (hq1 r hr).1) hc1
  have hwf1 := WF_addCore c _ hwf hnd1 hq1 hc1
  have hac1 := acyclic_addCore c _ hwf hac hnd1
  have hpre1 : (c.addCore (emissionOp a i)).EmitPre := by
    refine EmitPre_addCore c _ hwf hpre hnd1 ?_ ?_
    · intro r1 r2 hq
      simp only [emissionOp, List.cons.injEq, and_true] at hq
      rintro ⟨hp, _⟩; rw [← hq.1] at hp; cases hp
    · intro j hj
      simp only [emissionOp, Op.addRegs, List.map_nil, List.append_nil, List.mem_cons, Reg.mk.injEq,
        List.not_mem_nil, or_false] at hj
      rcases hj with ⟨h, _⟩ | ⟨_, rfl⟩
      · cases h
      · exact Or.inl ⟨hempty j (Nat.le_refl _), a, rfl⟩
  have hw1 : ∀ j, (c.addCore (emissionOp a i)).wire ⟨.p, j⟩ =
      if j = i then c.wire ⟨.p, j⟩ ++ [c.nid + 1] else c.wire ⟨.p, j⟩ := by
    intro j
    rw [addCore_wire c _ hnd1]
    simp [emissionOp, Op.addRegs]
  -- second operation
  let c1 := c.addCore (emissionOp a i)
  have hnd2 : (initWrapperOp i).addRegs.Nodup := by simp [initWrapperOp, Op.addRegs]
  have hq2 : ∀ r, r ∈ (initWrapperOp i).q → c1.validReg r = true ∧ r.ty ≠ .c := by
    intro r hr
    simp only [initWrapperOp, List.mem_singleton] at hr
    subst hr
    exact ⟨validReg_p c1 i (by show i < (c.addCore _).np; rw [addCore_np]; omega), by simp⟩
  have hc2 : ∀ j, j ∈ (initWrapperOp i).cr → c1.validReg ⟨.c, j⟩ = true := by intro j hj; simp [initWrapperOp] at hj
  have hadd2 := add_of_valid c1 (initWrapperOp i) (fun r hr => (hq2 r hr).1) hc2
  have hw2 : ∀ j, (c1.addCore (initWrapperOp i)).wire ⟨.p, j⟩ =
      if j = i then c1.wire ⟨.p, j⟩ ++ [c1.nid + 1] else c1.wire ⟨.p, j⟩ := by
    intro j
    rw [addCore_wire c1 _ hnd2]
    simp [initWrapperOp, Op.addRegs]
  refine ⟨c1.addCore (initWrapperOp i), ?_, ?_⟩
  · rw [hadd1]
    exact hadd2
  · refine ⟨WF_addCore c1 _ hwf1 hnd2 hq2 hc2, acyclic_addCore c1 _ hwf1 hac1 hnd2, ?_, ?_, ?_, ?_, ?_, ?_⟩
    · refine EmitPre_addCore c1 _ hwf1 hpre1 hnd2 ?_ ?_
      · intro r1 r2 hq; simp [initWrapperOp] at hq
      · intro j hj
        simp only [initWrapperOp, Op.addRegs, List.map_nil, List.append_nil, List.mem_singleton, Reg.mk.injEq,
          true_and] at hj
        subst hj
        refine Or.inr ⟨?_, Or.inl ⟨rfl, rfl⟩⟩
        show (c.addCore _).wire _ ≠ []
        rw [hw1, if_pos rfl]; simp
    · rw [addCore_ne]; show (c.addCore _).ne = ne; rw [addCore_ne]; exact hne
    · rw [addCore_np]; show (c.addCore _).np = np; rw [addCore_np]; exact hnp
    · rw [addCore_nc]; show (c.addCore _).nc = 1; rw [addCore_nc]; exact hnc
    · intro j hj
      rw [hw2]
      split
      · simp
      · rename_i hji
        show (c.addCore _).wire _ ≠ []
        rw [hw1, if_neg hji]
        exact hfill j (by omega)
    · intro j hj
      have hji : j ≠ i := by omega
      rw [hw2, if_neg hji]
      show (c.addCore _).wire _ = []
      rw [hw1, if_neg hji]
      exact hempty j (by omega)

theorem init_photon_loop (ne np : Nat) (l : List Nat) (i : Nat) (c : Circuit) (h : InitInv c ne np i)
    (hl : ∀ x, x ∈ l → x < ne) (hlen : i + l.length ≤ np) :
    ∃ c', (l.zipIdx i).foldlM (fun c (ai : Nat × Nat) => do
        let c' ← c.add (emissionOp ai.1 ai.2)
        c'.add (initWrapperOp ai.2)) c = Except.ok c' ∧ InitInv c' ne np (i + l.length) := by
  induction l generalizing i c with
  | nil => exact ⟨c, rfl, by simpa using h⟩
  | cons a l ih =>
    simp only [List.length_cons] at hlen
    obtain ⟨c2, hc2, hinv2⟩ := init_photon_step c ne np i a h (by omega) (hl a List.mem_cons_self)
    obtain ⟨c', hc', hinv'⟩ := ih (i + 1) c2 hinv2 (fun x hx => hl x (List.mem_cons_of_mem _ hx)) (by omega)
    refine ⟨c', ?_, by rw [List.length_cons, show i + (l.length + 1) = i + 1 + l.length by omega]; exact hinv'⟩
    rw [List.zipIdx_cons, List.foldlM_cons]
    simp only at hc2 ⊢
    rw [hc2]
    exact hc'

/-- invariants of the measurement loop: every photon has been emitted -/
structure InitInv2 (c : Circuit) (ne np : Nat) : Prop where
  wf : c.WF
  ac : c.Acyclic
  pre : c.EmitPre
  hne : c.ne = ne
  hnp : c.np = np
  hnc : c.nc = 1
  filled : ∀ j, j < np → c.wire ⟨.p, j⟩ ≠ []

theorem init_mcr_step (c : Circuit) (ne np j t : Nat) (h : InitInv2 c ne np) (hj : j < ne) (ht : t < np) :
    ∃ c2, c.add (finalMcrOp j t) = Except.ok c2 ∧ InitInv2 c2 ne np := by
  obtain ⟨hwf, hac, hpre, hne, hnp, hnc, hfill⟩ := h
  have hnd : (finalMcrOp j t).addRegs.Nodup := by simp [finalMcrOp, Op.addRegs]
  have hq : ∀ r, r ∈ (finalMcrOp j t).q → c.validReg r = true ∧ r.ty ≠ .c := by
    intro r hr
    simp only [finalMcrOp, List.mem_cons, List.not_mem_nil, or_false] at hr
    rcases hr with rfl | rfl
    · exact ⟨validReg_e c j (by omega), by simp⟩
    · exact ⟨validReg_p c t (by omega), by simp⟩
  have hc : ∀ i, i ∈ (finalMcrOp j t).cr → c.validReg ⟨.c, i⟩ = true := by
    intro i hi
    simp only [finalMcrOp, List.mem_singleton] at hi
    subst hi
    exact validReg_c c 0 (by omega)
  refine ⟨c.addCore (finalMcrOp j t), add_of_valid c _ (fun r hr => (hq r hr).1) hc, ?_⟩
  refine ⟨WF_addCore c _ hwf hnd hq hc, acyclic_addCore c _ hwf hac hnd, ?_, by rw [addCore_ne]; exact hne,
          by rw [addCore_np]; exact hnp, by rw [addCore_nc]; exact hnc, ?_⟩
  · refine EmitPre_addCore c _ hwf hpre hnd ?_ ?_
    · intro r1 r2 hq'
      simp only [finalMcrOp, List.cons.injEq, and_true] at hq'
      rintro ⟨hp, _⟩; rw [← hq'.1] at hp; cases hp
    · intro j' hj'
      simp only [finalMcrOp, Op.addRegs, List.map_cons, List.map_nil, List.cons_append, List.nil_append,
        List.mem_cons, Reg.mk.injEq, List.not_mem_nil, or_false] at hj'
      rcases hj' with ⟨h, _⟩ | ⟨_, rfl⟩ | ⟨h, _⟩
      · cases h
      · exact Or.inr ⟨hfill _ ht, Or.inr ⟨rfl, j, rfl⟩⟩
      · cases h
  · intro j' hj'
    rw [addCore_wire c _ hnd]
    split
    · simp
    · exact hfill j' hj'

theorem init_mcr_loop (ne np : Nat) (l : List Nat) (j : Nat) (c : Circuit) (h : InitInv2 c ne np)
    (hl : ∀ x, x ∈ l → x < np) (hlen : j + l.length ≤ ne) :
    ∃ c', (l.zipIdx j).foldlM (fun c (tj : Nat × Nat) => c.add (finalMcrOp tj.2 tj.1)) c = Except.ok c' ∧
      InitInv2 c' ne np := by
  induction l generalizing j c with
  | nil => exact ⟨c, rfl, h⟩
  | cons t l ih =>
    simp only [List.length_cons] at hlen
    obtain ⟨c2, hc2, hinv2⟩ := init_mcr_step c ne np j t h (by omega) (hl t List.mem_cons_self)
    obtain ⟨c', hc', hinv'⟩ := ih (j + 1) c2 hinv2 (fun x hx => hl x (List.mem_cons_of_mem _ hx)) (by omega)
    refine ⟨c', ?_, hinv'⟩
    rw [List.zipIdx_cons, List.foldlM_cons]
    simp only at hc2 ⊢
    rw [hc2]
    exact hc'

theorem empty_E (ne np nc : Nat) (a b : V) (h : (Circuit.empty ne np nc).E a b) : ∃ r, a = V.inp r ∧ b = V.out r := by
  obtain ⟨r, _, hadj⟩ := (E_iff _ _ _).mp h
  simp only [Adj, Circuit.aug, Circuit.empty, List.map_nil, List.nil_append, pairs_cons_cons, pairs_singleton,
    List.mem_singleton, Prod.mk.injEq] at hadj
  exact ⟨r, hadj.1, hadj.2⟩

theorem InitInv_empty (ne np : Nat) : InitInv (Circuit.empty ne np 1) ne np 0 := by
  refine ⟨⟨?_, ?_, ?_, ?_, ?_, ?_, ?_⟩, ?_, ⟨?_, ?_⟩, rfl, rfl, rfl, ?_, ?_⟩
  · intro n op h; cases h
  · intro r _; rfl
  · intro r n h; cases h
  · intro r; exact List.nodup_nil
  · intro n op h; cases h
  · intro n op h; cases h
  · intro n op h; cases h
  · intro v hv
    rcases TransGen.head'_iff.mp hv with ⟨y, hvy, hyv⟩
    obtain ⟨r, rfl, rfl⟩ := empty_E _ _ _ _ _ hvy
    have := reach_from_out _ _ _ hyv
    cases this
  · intro n op h; cases h
  · intro j _; exact Or.inl rfl
  · intro j hj; omega
  · intro j _; rfl

/-- **`initialization` succeeds and yields a circuit satisfying the invariant**, for every emission assignment with
    entries below the number of emitters and every measurement assignment with entries below the number of photons -/
theorem initialization_emitInv (ea ma : List Nat) (hea : ∀ x, x ∈ ea → x < ma.length) (hma : ∀ x, x ∈ ma → x < ea.length) :
    ∃ c, initialization ea ma = Except.ok c ∧ c.EmitInv ∧ c.ne = ma.length ∧ c.np = ea.length := by
  obtain ⟨c1, hc1, hinv1⟩ := init_photon_loop ma.length ea.length ea 0 _ (InitInv_empty _ _) hea (by omega)
  have hinv1' : InitInv2 c1 ma.length ea.length :=
    ⟨hinv1.wf, hinv1.ac, hinv1.pre, hinv1.hne, hinv1.hnp, hinv1.hnc, fun j hj => hinv1.filled j (by omega)⟩
  obtain ⟨c2, hc2, hinv2⟩ := init_mcr_loop ma.length ea.length ma 0 c1 hinv1' hma (by omega)
  refine ⟨c2, ?_, ⟨hinv2.wf, hinv2.ac, EmitC_of_pre c2 hinv2.pre (fun j hj => hinv2.filled j (by rw [← hinv2.hnp]; exact hj))⟩,
          hinv2.hne, hinv2.hnp⟩
  unfold initialization
  rw [hc1]
  exact hc2

/-! ## 6. Fixed two-qubit operations are never removed -/

theorem foldl_insertEdge_mem (k : Nat) (es : List Edge) (c0 : Circuit) (r : Reg) (n : Nat) (h : n ∈ c0.wire r) :
    n ∈ (es.foldl (Circuit.insertEdge k) c0).wire r := by
  induction es generalizing c0 with
  | nil => exact h
  | cons e es ih =>
    simp only [List.foldl_cons]
    apply ih
    simp only [Circuit.insertEdge, Circuit.setWire]
    split
    · rename_i hr
      subst hr
      exact (mem_ins (w := c0.wire e.r) (pos := e.pos) (k := k)).mpr (Or.inr h)
    · exact h

theorem insertAt_mem_of_mem (c : Circuit) (op : Op) (es : List Edge) (r : Reg) (n : Nat) (h : n ∈ c.wire r) :
    n ∈ (c.insertAt op es).wire r := by
  unfold Circuit.insertAt
  exact foldl_insertEdge_mem _ es _ r n h

/-- what a move keeps of a node -/
def Keeps (c c' : Circuit) (n : Nat) (op : Op) : Prop := c'.node n = some op ∧ ∀ r, n ∈ c.wire r → n ∈ c'.wire r

theorem keeps_insertAt (c : Circuit) (op' : Op) (es : List Edge) (hwf : c.WF) (n : Nat) (op : Op)
    (h : c.node n = some op) : Keeps c (c.insertAt op' es) n op := by
  have := (hwf.bound n op h).2
  exact ⟨by rw [insertAt_node, if_neg (by omega)]; exact h, fun r hr => insertAt_mem_of_mem c op' es r n hr⟩

theorem keeps_stepReplace (c : Circuit) (t : RegType) (ch : Choice) (g : Nat) (c' : Circuit)
    (h : c.stepReplace t ch g = some c') (n : Nat) (op : Op) (hn : c.node n = some op)
    (hk : op.kind.isTwoQubit = true) : Keeps c c' n op := by
  unfold Circuit.stepReplace at h
  split at h
  · split at h
    · cases h; exact ⟨hn, fun _ hr => hr⟩
    · cases h
  · cases ch with
    | node n0 =>
      simp only at h
      split at h
      · rename_i hcond
        obtain ⟨gs, r, cr, fx, hnode, _⟩ := mem_replaceCands hcond.1
        rw [hnode] at h
        simp only [Circuit.replaceOpE, hnode] at h
        split at h
        · cases h
        · simp only [exceptToOption, Option.some.injEq] at h
          subst h
          have hne : n ≠ n0 := by
            rintro rfl
            rw [hnode] at hn
            cases hn
            cases hk
          exact ⟨by show (if n = n0 then _ else c.node n) = _; rw [if_neg hne]; exact hn, fun _ hr => hr⟩
      · cases h
    | none => simp at h
    | edge e => simp at h
    | pair e1 e2 => simp at h

theorem keeps_stepPair (c : Circuit) (kind : Kind) (cr : List Nat) (e1 e2 : Edge) (c' : Circuit) (hwf : c.WF)
    (h : c.stepPair kind cr e1 e2 = some c') (n : Nat) (op : Op) (hn : c.node n = some op) : Keeps c c' n op := by
  unfold Circuit.stepPair at h
  split at h
  · have := insertAtE_two c _ e1 e2 c' rfl h
    subst this
    exact keeps_insertAt c _ _ hwf n op hn
  · cases h

/-- a move never removes (or changes, or takes off a wire) a `Fixed` two-qubit operation -/
theorem step_keeps_fixed (c : Circuit) (m : Move) (c' : Circuit) (hwf : c.WF) (h : c.step m = some c')
    (n : Nat) (op : Op) (hn : c.node n = some op) (hfix : op.fixed = true) (hk : op.kind.isTwoQubit = true) :
    Keeps c c' n op := by
  rcases m with ⟨t, ch, g⟩
  cases t <;> simp only [Circuit.step] at h
  · split at h
    · exact keeps_stepReplace c _ ch g c' h n op hn hk
    · cases ch with
      | edge e =>
        simp only at h
        split at h
        · have := insertAtE_one c _ e c' rfl h
          subst this
          exact keeps_insertAt c _ _ hwf n op hn
        · cases h
      | none => simp at h
      | node n => simp at h
      | pair e1 e2 => simp at h
  · split at h
    · exact keeps_stepReplace c _ ch g c' h n op hn hk
    · cases ch with
      | edge e =>
        simp only at h
        split at h
        · have := insertAtE_one c _ e c' rfl h
          subst this
          exact keeps_insertAt c _ _ hwf n op hn
        · cases h
      | none => simp at h
      | node n => simp at h
      | pair e1 e2 => simp at h
  · exact keeps_stepReplace c _ ch g c' h n op hn hk
  · exact keeps_stepReplace c _ ch g c' h n op hn hk
  · cases ch with
    | none =>
      simp only at h
      split at h
      · cases h; exact ⟨hn, fun _ hr => hr⟩
      · cases h
    | pair e1 e2 =>
      simp only at h
      split at h
      · exact keeps_stepPair c _ _ e1 e2 c' hwf h n op hn
      · cases h
    | node n => simp at h
    | edge e => simp at h
  · split at h
    · split at h
      · cases h; exact ⟨hn, fun _ hr => hr⟩
      · cases h
    · cases ch with
      | node n0 =>
        simp only at h
        split at h
        · rename_i hcond
          cases h
          obtain ⟨op0, hnode0, hnf⟩ := mem_removeCands hcond
          have hne : n ≠ n0 := by
            rintro rfl
            rw [hnode0] at hn
            cases hn
            rw [hfix] at hnf
            cases hnf
          exact ⟨by rw [removeOp_node, if_neg hne]; exact hn,
                 fun r hr => (mem_removeOp_wire c n0 n r).mpr ⟨hr, hne⟩⟩
        · cases h
      | none => simp at h
      | edge e => simp at h
      | pair e1 e2 => simp at h
  · cases ch with
    | none =>
      simp only at h
      split at h
      · cases h; exact ⟨hn, fun _ hr => hr⟩
      · cases h
    | pair e1 e2 =>
      simp only at h
      split at h
      · exact keeps_stepPair c _ _ e1 e2 c' hwf h n op hn
      · cases h
    | node n => simp at h
    | edge e => simp at h

theorem run_keeps_fixed (c : Circuit) (ms : List Move) (c' : Circuit) (hinv : c.EmitInv) (h : c.run ms = some c')
    (n : Nat) (op : Op) (hn : c.node n = some op) (hfix : op.fixed = true) (hk : op.kind.isTwoQubit = true) :
    Keeps c c' n op := by
  induction ms generalizing c with
  | nil => simp only [Circuit.run, Option.some.injEq] at h; subst h; exact ⟨hn, fun _ hr => hr⟩
  | cons m ms ih =>
    simp only [Circuit.run] at h
    cases hs : c.step m with
    | none => rw [hs] at h; cases h
    | some c1 =>
      rw [hs] at h
      have k1 := step_keeps_fixed c m c1 hinv.1 hs n op hn hfix hk
      have k2 := ih c1 (step_preserves c m c1 hinv hs) h k1.1
      exact ⟨k2.1, fun r hr => k2.2 r (k1.2 r hr)⟩

/-! ## 7. the executable checker is sound -/

theorem isEmissionB_sound (c : Circuit) (j n : Nat) (h : c.isEmissionB j n = true) : c.isEmission j n := by
  unfold Circuit.isEmissionB at h
  split at h
  · rename_i i j' hnode
    simp only [decide_eq_true_eq] at h
    subst h
    exact ⟨i, hnode⟩
  · cases h

theorem laterOkB_sound (c : Circuit) (j n : Nat) (h : c.laterOkB j n = true) : c.laterOk j n := by
  unfold Circuit.laterOkB at h
  split at h
  · rename_i op hnode
    refine ⟨op, hnode, ?_⟩
    simp only [Bool.or_eq_true, Bool.and_eq_true, decide_eq_true_eq] at h
    rcases h with ⟨h1, h2⟩ | ⟨h1, h2⟩
    · exact Or.inl ⟨h1, h2⟩
    · right
      refine ⟨h1, ?_⟩
      split at h2
      · rename_i i r2 hq
        simp only [decide_eq_true_eq] at h2
        exact ⟨i, by rw [hq, h2]⟩
      · cases h2
  · cases h

theorem mem_nodeIds (c : Circuit) (hwf : c.WF) (n : Nat) (op : Op) (h : c.node n = some op) : n ∈ c.nodeIds := by
  simp only [Circuit.nodeIds, List.mem_filter, List.mem_range]
  exact ⟨by have := (hwf.bound n op h).2; omega, by rw [h]; rfl⟩

/-- the check the driver runs on every circuit of the implementation implies the emission constraints -/
theorem emitCB_sound (c : Circuit) (hwf : c.WF) (h : c.emitCB = true) : c.EmitC := by
  unfold Circuit.emitCB at h
  simp only [Bool.and_eq_true, List.all_eq_true, List.mem_range] at h
  obtain ⟨hA, hB⟩ := h
  constructor
  · intro n op hnode r1 r2 hq
    have := hA n (mem_nodeIds c hwf n op hnode)
    rw [hnode] at this
    simp only [hq, Bool.not_eq_true', Bool.and_eq_false_iff, decide_eq_false_iff_not] at this
    rintro ⟨h1, h2⟩
    rcases this with h | h
    · exact h h1
    · exact h h2
  · intro j hj
    have := hB j hj
    split at this
    · rename_i h' rest hw
      simp only [Bool.and_eq_true, List.all_eq_true] at this
      exact ⟨h', rest, hw, isEmissionB_sound c j h' this.1, fun n hn => laterOkB_sound c j n (this.2 n hn)⟩
    · cases this

/-! ## 8. construction order of the deterministic solvers -/

theorem adj_right_mem_tail {α : Type} {l : List α} {a b : α} (h : Adj l a b) : b ∈ l.tail := by
  unfold Adj pairs at h
  exact (List.of_mem_zip h).2

theorem inp_no_pred (c : Circuit) (r : Reg) (a : V) : ¬ c.E a (V.inp r) := by
  intro h
  obtain ⟨r', _, hadj⟩ := (E_iff c _ _).mp h
  have := adj_right_mem_tail hadj
  simp [Circuit.aug] at this

theorem reach_to_inp (c : Circuit) (r : Reg) (x : V) (h : ReflTransGen c.E x (V.inp r)) : x = V.inp r := by
  rcases ReflTransGen.cases_tail h with h | ⟨y, _, hy⟩
  · exact h.symm
  · exact absurd hy (inp_no_pred c r y)

theorem src_frontEdge (c : Circuit) (r : Reg) : c.src (frontEdge r) = V.inp r := src_of_pos_zero c _ rfl

/-- inserting a node directly after the input nodes of its registers never creates a cycle -/
theorem acyclic_frontInsert (c : Circuit) (op : Op) (rs : List Reg) (hwf : c.WF) (hac : c.Acyclic) (hnd : rs.Nodup) :
    (c.insertAt op (rs.map frontEdge)).Acyclic := by
  refine acyclic_insertAt c op _ hwf hac (by simpa [Function.comp_def, frontEdge] using hnd) ?_
  intro e1 he1 e2 _ hreach
  obtain ⟨r1, _, rfl⟩ := List.mem_map.mp he1
  rw [src_frontEdge] at hreach
  have := reach_to_inp c r1 _ hreach
  rcases dst_cases c e2 with h | ⟨n, _, h⟩ <;> rw [h] at this <;> cases this

/-- the state of a photon wire during the construction -/
def Circuit.photonOk (c : Circuit) (emitted : List Nat) (j : Nat) : Prop :=
  (j ∈ emitted → ∃ h rest, c.wire ⟨.p, j⟩ = h :: rest ∧ c.isEmission j h ∧ ∀ n, n ∈ rest → c.laterOk j n) ∧
  (j ∉ emitted → ∀ n, n ∈ c.wire ⟨.p, j⟩ → c.laterOk j n)

structure BInv (s : BuildSt) : Prop where
  wf : s.c.WF
  ac : s.c.Acyclic
  noPP : ∀ n op, s.c.node n = some op → ∀ r1 r2, op.q = [r1, r2] → ¬ (r1.ty = .p ∧ r2.ty = .p)
  photon : ∀ j, j < s.c.np → s.c.photonOk s.emitted j

/-- a photon wire that the edit does not touch (same wire, same operations on it) keeps its state -/
theorem photonOk_congr {c c' : Circuit} {emitted : List Nat} {j : Nat} (hw : c'.wire ⟨.p, j⟩ = c.wire ⟨.p, j⟩)
    (hn : ∀ n, n ∈ c.wire ⟨.p, j⟩ → c'.node n = c.node n) (h : c.photonOk emitted j) : c'.photonOk emitted j := by
  constructor
  · intro hj
    obtain ⟨h0, rest, hw0, hemi, hlater⟩ := h.1 hj
    refine ⟨h0, rest, by rw [hw, hw0], isEmission_congr (hn h0 (by rw [hw0]; exact List.mem_cons_self)) hemi, ?_⟩
    intro n hnr
    exact laterOk_congr (hn n (by rw [hw0]; exact List.mem_cons_of_mem _ hnr)) (hlater n hnr)
  · intro hj n hnw
    rw [hw] at hnw
    exact laterOk_congr (hn n hnw) (h.2 hj n hnw)

theorem ins_zero (w : List Nat) (k : Nat) : ins w 0 k = k :: w := by simp [ins]

/-- the generic front insertion: `op` on the registers `rs` (no photon that has been emitted), shape conditions per photon -/
theorem BInv_frontInsert (s : BuildSt) (op : Op) (rs : List Reg) (emitted' : List Nat) (h : BInv s) (hnd : rs.Nodup)
    (hq : op.q = rs)
    (hv : ∀ r, r ∈ rs → s.c.validReg r = true ∧ r.ty ≠ .c)
    (hpp : ∀ r1 r2, op.q = [r1, r2] → ¬ (r1.ty = .p ∧ r2.ty = .p))
    (hfree : ∀ j, (⟨.p, j⟩ : Reg) ∈ rs → j ∉ s.emitted)
    (hem : ∀ j, j ∈ emitted' ↔ (j ∈ s.emitted ∨ ((⟨.p, j⟩ : Reg) ∈ rs ∧ ∃ i, op = ⟨.cnot, [⟨.e, i⟩, ⟨.p, j⟩], [], true⟩)))
    (hshape : ∀ j, (⟨.p, j⟩ : Reg) ∈ rs →
      (∃ i, op = ⟨.cnot, [⟨.e, i⟩, ⟨.p, j⟩], [], true⟩) ∨
      ((op.kind.isGate1 = true ∧ op.q = [⟨.p, j⟩]) ∨ (op.kind.isClassicalControlled = true ∧ ∃ i, op.q = [⟨.e, i⟩, ⟨.p, j⟩]))) :
    BInv ⟨s.c.insertAt op (rs.map frontEdge), emitted'⟩ := by
  obtain ⟨hwf, hac, hnoPP, hphoton⟩ := h
  have hregs : (rs.map frontEdge).map (·.r) = rs := by simp [Function.comp_def, frontEdge]
  have hnd' : ((rs.map frontEdge).map (·.r)).Nodup := by rw [hregs]; exact hnd
  have hnode : ∀ r n, n ∈ s.c.wire r → (s.c.insertAt op (rs.map frontEdge)).node n = s.c.node n := fun r n hn => by
    have := hwf.wire_le hn
    rw [insertAt_node, if_neg (by omega)]
  have hnodek : (s.c.insertAt op (rs.map frontEdge)).node (s.c.nid + 1) = some op := by rw [insertAt_node, if_pos rfl]
  refine ⟨?_, acyclic_frontInsert s.c op rs hwf hac hnd, ?_, ?_⟩
  · refine WF_insertAt s.c op _ hwf hnd' ?_ ?_ ?_ ?_
    · intro e he
      obtain ⟨r, hr, rfl⟩ := List.mem_map.mp he
      exact (hv r hr).1
    · intro r _; rw [hregs, hq]
    · intro i hi
      rw [hregs] at hi
      exact absurd rfl (hv _ hi).2
    · intro r hr; rw [hq] at hr; exact hv r hr
  · intro n op' hn r1 r2 hq'
    rw [insertAt_node] at hn
    by_cases hnk : n = s.c.nid + 1
    · rw [if_pos hnk] at hn; cases hn; exact hpp r1 r2 hq'
    · rw [if_neg hnk] at hn; exact hnoPP n op' hn r1 r2 hq'
  · intro j hj
    have hj' : j < s.c.np := by simpa [insertAt_np] using hj
    have hold := hphoton j hj'
    by_cases hr : (⟨.p, j⟩ : Reg) ∈ rs
    · have hfr := hfree j hr
      have hw : (s.c.insertAt op (rs.map frontEdge)).wire ⟨.p, j⟩ = (s.c.nid + 1) :: s.c.wire ⟨.p, j⟩ := by
        have := insertAt_wire_of_mem s.c op _ hnd' (frontEdge ⟨.p, j⟩) (List.mem_map.mpr ⟨_, hr, rfl⟩)
        simpa [frontEdge, ins_zero] using this
      have hlater : ∀ n, n ∈ s.c.wire ⟨.p, j⟩ → (s.c.insertAt op (rs.map frontEdge)).laterOk j n := fun n hn =>
        laterOk_congr (hnode _ n hn) (hold.2 hfr n hn)
      constructor
      · intro hje
        rcases (hem j).mp hje with h | ⟨_, i, hop⟩
        · exact absurd h hfr
        · exact ⟨s.c.nid + 1, s.c.wire ⟨.p, j⟩, hw, ⟨i, by rw [hnodek, hop]⟩, hlater⟩
      · intro hje n hn
        rw [hw] at hn
        rcases List.mem_cons.mp hn with rfl | hn
        · rcases hshape j hr with ⟨i, hop⟩ | hsh
          · exact absurd ((hem j).mpr (Or.inr ⟨hr, i, hop⟩)) hje
          · exact ⟨op, hnodek, hsh⟩
        · exact hlater n hn
    · have hw := insertAt_wire_of_not_mem s.c op (rs.map frontEdge) ⟨.p, j⟩ (by rw [hregs]; exact hr)
      have hiff : j ∈ emitted' ↔ j ∈ s.emitted := by
        rw [hem j]
        exact ⟨fun h => h.elim id (fun h => absurd h.1 hr), Or.inl⟩
      have := photonOk_congr (c := s.c) (emitted := s.emitted) hw (fun n hn => hnode _ n hn) hold
      exact ⟨fun h => this.1 (hiff.mp h), fun h => this.2 (fun h' => h (hiff.mpr h'))⟩

theorem BInv_setNode (s : BuildSt) (n : Nat) (old : Op) (gs : List G1) (r : Reg) (h : BInv s)
    (hold : s.c.node n = some old) (hk : old.kind.isWrapper = true) (hq : old.q = [r]) (hcr : old.cr = []) :
    BInv { s with c := s.c.setNode n (some ⟨.wrapper gs, [r], [], false⟩) } := by
  obtain ⟨hwf, hac, hnoPP, hphoton⟩ := h
  have hnode : ∀ m, (s.c.setNode n (some ⟨.wrapper gs, [r], [], false⟩)).node m =
      if m = n then some ⟨.wrapper gs, [r], [], false⟩ else s.c.node m := fun _ => rfl
  refine ⟨WF_setNode s.c n old _ hwf hold hq hcr, acyclic_setNode s.c n _ hac, ?_, ?_⟩
  · intro m op hm r1 r2 hq'
    rw [hnode] at hm
    by_cases hmn : m = n
    · rw [if_pos hmn] at hm; cases hm; cases hq'
    · rw [if_neg hmn] at hm; exact hnoPP m op hm r1 r2 hq'
  · intro j hj
    have hold' := hphoton j hj
    have hl : ∀ m, s.c.laterOk j m → (s.c.setNode n (some ⟨.wrapper gs, [r], [], false⟩)).laterOk j m := by
      intro m hm
      by_cases hmn : m = n
      · subst hmn
        obtain ⟨op, hop, hsh⟩ := hm
        rw [hold] at hop
        cases hop
        refine ⟨_, by rw [hnode, if_pos rfl], ?_⟩
        rcases hsh with ⟨_, hq1⟩ | ⟨hcc, _⟩
        · left; exact ⟨rfl, by rw [← hq, hq1]⟩
        · cases hkind : old.kind <;> simp [hkind, Kind.isWrapper, Kind.isClassicalControlled] at hk hcc
      · exact laterOk_congr (by rw [hnode, if_neg hmn]) hm
    constructor
    · intro hje
      obtain ⟨h0, rest, hw0, hemi, hlater⟩ := hold'.1 hje
      have hne : h0 ≠ n := by
        rintro rfl
        obtain ⟨i, hi⟩ := hemi
        rw [hold] at hi
        cases hi
        cases hk
      exact ⟨h0, rest, hw0, isEmission_congr (by rw [hnode, if_neg hne]) hemi, fun m hm => hl m (hlater m hm)⟩
    · intro hje m hm
      exact hl m (hold'.2 hje m hm)

theorem BInv_removeWrapper (s : BuildSt) (n : Nat) (old : Op) (h : BInv s) (hold : s.c.node n = some old)
    (hk : old.kind.isWrapper = true) : BInv { s with c := s.c.removeOp n } := by
  obtain ⟨hwf, hac, hnoPP, hphoton⟩ := h
  refine ⟨WF_removeOp s.c n hwf, acyclic_removeOp s.c n hac, ?_, ?_⟩
  · intro m op hm r1 r2 hq
    rw [removeOp_node] at hm
    by_cases hmn : m = n
    · rw [if_pos hmn] at hm; cases hm
    · rw [if_neg hmn] at hm; exact hnoPP m op hm r1 r2 hq
  · intro j hj
    have hold' := hphoton j hj
    constructor
    · intro hje
      obtain ⟨h0, rest, hw0, hemi, hlater⟩ := hold'.1 hje
      have hne : h0 ≠ n := by
        rintro rfl
        obtain ⟨i, hi⟩ := hemi
        rw [hold] at hi
        cases hi
        cases hk
      refine ⟨h0, rest.filter (fun m => m ≠ n), by simp [Circuit.removeOp, hw0, hne],
        isEmission_congr (by rw [removeOp_node, if_neg hne]) hemi, ?_⟩
      intro m hm
      have hm' := List.mem_filter.mp hm
      have hmn : m ≠ n := by simpa using hm'.2
      exact laterOk_congr (by rw [removeOp_node, if_neg hmn]) (hlater m hm'.1)
    · intro hje m hm
      obtain ⟨hm1, hm2⟩ := (mem_removeOp_wire s.c n m _).mp hm
      exact laterOk_congr (by rw [removeOp_node, if_neg hm2]) (hold'.2 hje m hm1)

theorem BInv_appendGate (s : BuildSt) (p : Nat) (g : G1) (h : BInv s) (hp : p < s.c.np) (hpe : p ∈ s.emitted) :
    BInv { s with c := s.c.addCore ⟨.base g, [⟨.p, p⟩], [], false⟩ } := by
  obtain ⟨hwf, hac, hnoPP, hphoton⟩ := h
  have hnd : (Op.addRegs ⟨.base g, [⟨.p, p⟩], [], false⟩).Nodup := by simp [Op.addRegs]
  have hqv : ∀ r, r ∈ (⟨.base g, [⟨.p, p⟩], [], false⟩ : Op).q → s.c.validReg r = true ∧ r.ty ≠ .c := by
    intro r hr
    simp only [List.mem_singleton] at hr
    subst hr
    exact ⟨validReg_p s.c p hp, by simp⟩
  have hnode : ∀ r n, n ∈ s.c.wire r → (s.c.addCore ⟨.base g, [⟨.p, p⟩], [], false⟩).node n = s.c.node n := fun r n hn => by
    have := hwf.wire_le hn
    rw [addCore_eq, insertAt_node, if_neg (by omega)]
  have hnodek : (s.c.addCore ⟨.base g, [⟨.p, p⟩], [], false⟩).node (s.c.nid + 1) = some ⟨.base g, [⟨.p, p⟩], [], false⟩ := by
    rw [addCore_eq, insertAt_node, if_pos rfl]
  refine ⟨WF_addCore s.c _ hwf hnd hqv (fun i hi => by simp at hi), acyclic_addCore s.c _ hwf hac hnd, ?_, ?_⟩
  · intro m op hm r1 r2 hq
    rw [addCore_eq, insertAt_node] at hm
    by_cases hmk : m = s.c.nid + 1
    · rw [if_pos hmk] at hm; cases hm; cases hq
    · rw [if_neg hmk] at hm; exact hnoPP m op hm r1 r2 hq
  · intro j hj
    have hj' : j < s.c.np := by simpa [addCore_np] using hj
    have hold := hphoton j hj'
    have hw := addCore_wire s.c ⟨.base g, [⟨.p, p⟩], [], false⟩ hnd ⟨.p, j⟩
    by_cases hjp : j = p
    · subst hjp
      rw [if_pos (by simp [Op.addRegs])] at hw
      constructor
      · intro _
        obtain ⟨h0, rest, hw0, hemi, hlater⟩ := hold.1 hpe
        refine ⟨h0, rest ++ [s.c.nid + 1], by rw [hw, hw0]; rfl,
          isEmission_congr (hnode _ h0 (by rw [hw0]; exact List.mem_cons_self)) hemi, ?_⟩
        intro m hm
        rcases List.mem_append.mp hm with hm | hm
        · exact laterOk_congr (hnode _ m (by rw [hw0]; exact List.mem_cons_of_mem _ hm)) (hlater m hm)
        · simp only [List.mem_singleton] at hm
          subst hm
          exact ⟨_, hnodek, Or.inl ⟨rfl, rfl⟩⟩
      · intro hne; exact absurd hpe hne
    · rw [if_neg (by simp [Op.addRegs, hjp])] at hw
      exact photonOk_congr hw (fun n hn => hnode _ n hn) hold

theorem BuildSt.step_inv (s s' : BuildSt) (op : BuildOp) (h : BInv s) (hs : s.step op = some s') :
    BInv s' ∧ s'.c.np = s.c.np ∧ s'.c.ne = s.c.ne := by
  cases op with
  | frontGate r gs =>
    simp only [BuildSt.step] at hs
    split at hs
    · rename_i hc
      cases hs
      obtain ⟨hv, hty, hfree⟩ := hc
      simp only [decide_eq_true_eq] at hfree
      refine ⟨?_, insertAt_np _ _ _, insertAt_ne _ _ _⟩
      have := BInv_frontInsert s ⟨.wrapper gs, [r], [], false⟩ [r] s.emitted h (by simp) rfl
        (fun r' hr' => by simp only [List.mem_singleton] at hr'; subst hr'; exact ⟨hv, hty⟩)
        (fun r1 r2 hq => by cases hq)
        (fun j hj => by simp only [List.mem_singleton] at hj; subst hj; exact hfree rfl)
        (fun j => ⟨Or.inl, fun h => h.elim id (fun h => by obtain ⟨_, i, hi⟩ := h; cases hi)⟩)
        (fun j hj => by
          simp only [List.mem_singleton] at hj
          subst hj
          exact Or.inr (Or.inl ⟨rfl, rfl⟩))
      simpa using this
    · cases hs
  | replaceFront r gs =>
    simp only [BuildSt.step] at hs
    split at hs
    · split at hs
      · rename_i n rest hw
        split at hs
        · rename_i gs0 r' fx hnode
          split at hs
          · rename_i hrr
            cases hs
            subst hrr
            exact ⟨BInv_setNode s n _ gs r' h hnode rfl rfl rfl, rfl, rfl⟩
          · cases hs
        · cases hs
      · cases hs
    · cases hs
  | removeFront r =>
    simp only [BuildSt.step] at hs
    split at hs
    · split at hs
      · rename_i n rest hw
        split at hs
        · rename_i gs0 q0 cr0 fx hnode
          cases hs
          exact ⟨BInv_removeWrapper s n _ h hnode rfl, rfl, rfl⟩
        · cases hs
      · cases hs
    · cases hs
  | emitterCnot ctl tgt =>
    simp only [BuildSt.step] at hs
    split at hs
    · rename_i hc
      cases hs
      obtain ⟨h1, h2, h3⟩ := hc
      refine ⟨?_, insertAt_np _ _ _, insertAt_ne _ _ _⟩
      have := BInv_frontInsert s ⟨.cnot, [⟨.e, ctl⟩, ⟨.e, tgt⟩], [], false⟩ [⟨.e, ctl⟩, ⟨.e, tgt⟩] s.emitted h
        (by simp [h3]) rfl
        (fun r' hr' => by
          simp only [List.mem_cons, List.not_mem_nil, or_false] at hr'
          rcases hr' with rfl | rfl
          · exact ⟨validReg_e s.c ctl h1, by simp⟩
          · exact ⟨validReg_e s.c tgt h2, by simp⟩)
        (fun r1 r2 hq => by
          simp only [List.cons.injEq, and_true] at hq
          rintro ⟨hp, _⟩; rw [← hq.1] at hp; cases hp)
        (fun j hj => by simp at hj)
        (fun j => ⟨Or.inl, fun h => h.elim id (fun h => by simp at h)⟩)
        (fun j hj => by simp at hj)
      simpa using this
    · cases hs
  | emission e p =>
    simp only [BuildSt.step] at hs
    split at hs
    · rename_i hc
      cases hs
      obtain ⟨h1, h2, h3⟩ := hc
      refine ⟨?_, insertAt_np _ _ _, insertAt_ne _ _ _⟩
      have := BInv_frontInsert s ⟨.cnot, [⟨.e, e⟩, ⟨.p, p⟩], [], true⟩ [⟨.e, e⟩, ⟨.p, p⟩] (p :: s.emitted) h
        (by simp) rfl
        (fun r' hr' => by
          simp only [List.mem_cons, List.not_mem_nil, or_false] at hr'
          rcases hr' with rfl | rfl
          · exact ⟨validReg_e s.c e h1, by simp⟩
          · exact ⟨validReg_p s.c p h2, by simp⟩)
        (fun r1 r2 hq => by
          simp only [List.cons.injEq, and_true] at hq
          rintro ⟨hp, _⟩; rw [← hq.1] at hp; cases hp)
        (fun j hj => by
          simp only [List.mem_cons, Reg.mk.injEq, List.not_mem_nil, or_false] at hj
          rcases hj with ⟨h, _⟩ | ⟨_, rfl⟩
          · cases h
          · exact h3)
        (fun j => by
          constructor
          · intro hj
            rcases List.mem_cons.mp hj with rfl | hj
            · exact Or.inr ⟨by simp, e, rfl⟩
            · exact Or.inl hj
          · rintro (hj | ⟨_, i, hi⟩)
            · exact List.mem_cons_of_mem _ hj
            · injection hi with _ hq _ _
              injection hq with _ hq2
              injection hq2 with hq3 _
              injection hq3 with _ hpj
              rw [hpj]
              exact List.mem_cons_self)
        (fun j hj => by
          simp only [List.mem_cons, Reg.mk.injEq, List.not_mem_nil, or_false] at hj
          rcases hj with ⟨h, _⟩ | ⟨_, rfl⟩
          · cases h
          · exact Or.inl ⟨e, rfl⟩)
      simpa using this
    · cases hs
  | mcr e p =>
    simp only [BuildSt.step] at hs
    split at hs
    · rename_i hc
      cases hs
      obtain ⟨h1, h2, h3, _⟩ := hc
      refine ⟨?_, insertAt_np _ _ _, insertAt_ne _ _ _⟩
      have := BInv_frontInsert s ⟨.mcr, [⟨.e, e⟩, ⟨.p, p⟩], [0], true⟩ [⟨.e, e⟩, ⟨.p, p⟩] s.emitted h
        (by simp) rfl
        (fun r' hr' => by
          simp only [List.mem_cons, List.not_mem_nil, or_false] at hr'
          rcases hr' with rfl | rfl
          · exact ⟨validReg_e s.c e h1, by simp⟩
          · exact ⟨validReg_p s.c p h2, by simp⟩)
        (fun r1 r2 hq => by
          simp only [List.cons.injEq, and_true] at hq
          rintro ⟨hp, _⟩; rw [← hq.1] at hp; cases hp)
        (fun j hj => by
          simp only [List.mem_cons, Reg.mk.injEq, List.not_mem_nil, or_false] at hj
          rcases hj with ⟨h, _⟩ | ⟨_, rfl⟩
          · cases h
          · exact h3)
        (fun j => ⟨Or.inl, fun h => h.elim id (fun h => by obtain ⟨_, i, hi⟩ := h; cases hi)⟩)
        (fun j hj => by
          simp only [List.mem_cons, Reg.mk.injEq, List.not_mem_nil, or_false] at hj
          rcases hj with ⟨h, _⟩ | ⟨_, rfl⟩
          · cases h
          · exact Or.inr (Or.inr ⟨rfl, e, rfl⟩))
      simpa using this
    · cases hs
  | appendGate p g =>
    simp only [BuildSt.step] at hs
    split at hs
    · rename_i hc
      cases hs
      exact ⟨BInv_appendGate s p g h hc.1 hc.2, addCore_np _ _, addCore_ne _ _⟩
    · cases hs

theorem BuildSt.run_inv (s s' : BuildSt) (ops : List BuildOp) (h : BInv s) (hs : s.run ops = some s') :
    BInv s' ∧ s'.c.np = s.c.np ∧ s'.c.ne = s.c.ne := by
  induction ops generalizing s with
  | nil => simp only [BuildSt.run, Option.some.injEq] at hs; subst hs; exact ⟨h, rfl, rfl⟩
  | cons op ops ih =>
    simp only [BuildSt.run] at hs
    cases h1 : s.step op with
    | none => rw [h1] at hs; cases hs
    | some s1 =>
      rw [h1] at hs
      obtain ⟨hi, hnp, hne⟩ := BuildSt.step_inv s s1 op h h1
      obtain ⟨hi', hnp', hne'⟩ := ih s1 hi hs
      exact ⟨hi', by rw [hnp', hnp], by rw [hne', hne]⟩

theorem acyclic_empty (ne np nc : Nat) : (Circuit.empty ne np nc).Acyclic := by
  intro v hv
  rcases TransGen.head'_iff.mp hv with ⟨y, hvy, hyv⟩
  obtain ⟨r, rfl, rfl⟩ := empty_E _ _ _ _ _ hvy
  have := reach_from_out _ _ _ hyv
  cases this

/-- **every circuit a deterministic solver can build in its construction order satisfies the invariant** -/
theorem solverCircuit_emitInv (ne np : Nat) (ops : List BuildOp) (c : Circuit) (h : solverCircuit ne np ops = some c) :
    c.EmitInv := by
  unfold solverCircuit at h
  split at h
  · rename_i s hrun
    split at h
    · rename_i hall
      cases h
      have h0 : BInv ⟨Circuit.empty ne np 1, []⟩ := by
        refine ⟨WF_empty ne np 1, acyclic_empty ne np 1, fun n op hn => by simp [Circuit.empty] at hn, ?_⟩
        intro j _
        unfold Circuit.photonOk
        constructor
        · intro hj; cases hj
        · intro _ n hn; cases hn
      obtain ⟨hinv, hnp, _⟩ := BuildSt.run_inv _ s ops h0 hrun
      refine ⟨hinv.wf, hinv.ac, hinv.noPP, ?_⟩
      intro j hj
      have hj' : j < np := by rw [hnp] at hj; exact hj
      simp only [List.all_eq_true, List.mem_range, decide_eq_true_eq] at hall
      exact (hinv.photon j hj).1 (hall j hj')
    · cases h
  · cases h

/-! ## 9. the reachability search is complete -/

theorem freshOf_spec (visited l : List V) :
    (freshOf visited l).Nodup ∧ (∀ y, y ∈ freshOf visited l → y ∉ visited ∧ y ∈ l) ∧
    (∀ y, y ∈ l → y ∈ visited ∨ y ∈ freshOf visited l) := by
  induction l generalizing visited with
  | nil => simp [freshOf]
  | cons a l ih =>
    unfold freshOf
    split
    · rename_i ha
      obtain ⟨h1, h2, h3⟩ := ih visited
      refine ⟨h1, fun y hy => ⟨(h2 y hy).1, List.mem_cons_of_mem _ (h2 y hy).2⟩, ?_⟩
      intro y hy
      rcases List.mem_cons.mp hy with rfl | hy
      · exact Or.inl ha
      · exact h3 y hy
    · rename_i ha
      obtain ⟨h1, h2, h3⟩ := ih (visited ++ [a])
      refine ⟨?_, ?_, ?_⟩
      · rw [List.nodup_cons]
        exact ⟨fun h => (h2 a h).1 (by simp), h1⟩
      · intro y hy
        rcases List.mem_cons.mp hy with rfl | hy
        · exact ⟨ha, List.mem_cons_self⟩
        · exact ⟨fun h => (h2 y hy).1 (List.mem_append_left _ h), List.mem_cons_of_mem _ (h2 y hy).2⟩
      · intro y hy
        rcases List.mem_cons.mp hy with rfl | hy
        · exact Or.inr List.mem_cons_self
        · rcases h3 y hy with h | h
          · rcases List.mem_append.mp h with h | h
            · exact Or.inl h
            · simp only [List.mem_singleton] at h; subst h; exact Or.inr List.mem_cons_self
          · exact Or.inr (List.mem_cons_of_mem _ h)

/-- with enough fuel the search ends on a set that contains what it started from and is closed under `step` -/
theorem bfs_closed (step : V → List V) (U : List V) (hU : ∀ x, x ∈ U → ∀ y, y ∈ step x → y ∈ U)
    (fuel : Nat) (visited frontier : List V) (hvU : ∀ x, x ∈ visited → x ∈ U) (hnd : visited.Nodup)
    (hfv : ∀ x, x ∈ frontier → x ∈ visited)
    (hexp : ∀ x, x ∈ visited → x ∉ frontier → ∀ y, y ∈ step x → y ∈ visited)
    (hfuel : U.length + frontier.length ≤ fuel + visited.length) :
    (∀ x, x ∈ visited → x ∈ bfs step fuel visited frontier) ∧
    (∀ x, x ∈ bfs step fuel visited frontier → ∀ y, y ∈ step x → y ∈ bfs step fuel visited frontier) := by
  have hlen : visited.length ≤ U.length := (List.subperm_of_subset hnd hvU).length_le
  induction fuel generalizing visited frontier with
  | zero =>
    have : frontier = [] := by
      cases frontier with
      | nil => rfl
      | cons a l => simp only [List.length_cons] at hfuel; omega
    subst this
    simp only [bfs]
    exact ⟨fun x hx => hx, fun x hx => hexp x hx (by simp)⟩
  | succ f ih =>
    cases frontier with
    | nil =>
      simp only [bfs]
      exact ⟨fun x hx => hx, fun x hx => hexp x hx (by simp)⟩
    | cons x frontier =>
      simp only [bfs]
      obtain ⟨hn1, hn2, hn3⟩ := freshOf_spec visited (step x)
      have hxv : x ∈ visited := hfv x List.mem_cons_self
      have hvU' : ∀ z, z ∈ visited ++ freshOf visited (step x) → z ∈ U := by
        intro z hz
        rcases List.mem_append.mp hz with hz | hz
        · exact hvU z hz
        · exact hU x (hvU x hxv) z (hn2 z hz).2
      have hnd' : (visited ++ freshOf visited (step x)).Nodup := by
        rw [List.nodup_append]
        exact ⟨hnd, hn1, fun a ha b hb hab => (hn2 b hb).1 (hab ▸ ha)⟩
      have := ih (visited ++ freshOf visited (step x)) (frontier ++ freshOf visited (step x)) hvU' hnd'
        (by
          intro z hz
          rcases List.mem_append.mp hz with hz | hz
          · exact List.mem_append_left _ (hfv z (List.mem_cons_of_mem _ hz))
          · exact List.mem_append_right _ hz)
        (by
          intro z hz hzf y hy
          rcases List.mem_append.mp hz with hz | hz
          · by_cases hzx : z = x
            · subst hzx
              rcases hn3 y hy with h | h
              · exact List.mem_append_left _ h
              · exact List.mem_append_right _ h
            · have : z ∉ x :: frontier := by
                intro h
                rcases List.mem_cons.mp h with h | h
                · exact hzx h
                · exact hzf (List.mem_append_left _ h)
              exact List.mem_append_left _ (hexp z hz this y hy)
          · exact absurd (List.mem_append_right _ hz) hzf)
        (by simp only [List.length_append, List.length_cons] at hfuel ⊢; omega)
        ((List.subperm_of_subset hnd' hvU').length_le)
      exact ⟨fun z hz => this.1 z (List.mem_append_left _ hz), this.2⟩


/-- every vertex the DAG can have: input and output node of every register, and an op node for every id up to `_node_id` -/
def Circuit.universe (c : Circuit) : List V :=
  c.regs.map V.inp ++ c.regs.map V.out ++ (List.range (c.nid + 1)).map V.op

theorem regs_length (c : Circuit) : c.regs.length = c.ne + c.np + c.nc := by simp [Circuit.regs]; omega

theorem universe_length_le (c : Circuit) : c.universe.length ≤ c.fuel := by
  simp only [Circuit.universe, List.length_append, List.length_map, List.length_range, regs_length, Circuit.fuel]
  omega

theorem mem_universe_of_mem_aug {c : Circuit} (hwf : c.WF) {r : Reg} (hr : c.validReg r = true) {v : V} (h : v ∈ c.aug r) :
    v ∈ c.universe := by
  have hreg : r ∈ c.regs := (mem_regs_iff c r).mpr hr
  rcases mem_aug h with rfl | rfl | ⟨n, hn, rfl⟩
  · simp only [Circuit.universe, List.mem_append, List.mem_map]; exact Or.inl (Or.inl ⟨r, hreg, rfl⟩)
  · simp only [Circuit.universe, List.mem_append, List.mem_map]; exact Or.inl (Or.inr ⟨r, hreg, rfl⟩)
  · have := hwf.wire_le hn
    simp only [Circuit.universe, List.mem_append, List.mem_map, List.mem_range]
    exact Or.inr ⟨n, by omega, rfl⟩

theorem E_universe {c : Circuit} (hwf : c.WF) {x y : V} (h : c.E x y) : x ∈ c.universe ∧ y ∈ c.universe := by
  obtain ⟨r, hr, hadj⟩ := (E_iff c x y).mp h
  exact ⟨mem_universe_of_mem_aug hwf hr (adj_mem hadj).1, mem_universe_of_mem_aug hwf hr (adj_mem hadj).2⟩

/-- the search started from the `step`-images of `v` is closed and contains them (generic in `step`) -/
theorem search_closed (c : Circuit) (step : V → List V) (hstep : ∀ x y, y ∈ step x → y ∈ c.universe) (v : V) :
    closedUnder step (bfs step c.fuel (freshOf [] (step v)) (freshOf [] (step v))) = true ∧
    ∀ y, y ∈ step v → y ∈ bfs step c.fuel (freshOf [] (step v)) (freshOf [] (step v)) := by
  obtain ⟨hn1, hn2, hn3⟩ := freshOf_spec [] (step v)
  have := bfs_closed step c.universe (fun x _ y hy => hstep x y hy) c.fuel (freshOf [] (step v)) (freshOf [] (step v))
    (fun x hx => hstep v x (hn2 x hx).2) hn1 (fun x hx => hx) (fun x hx hx' => absurd hx hx')
    (by have := universe_length_le c; omega)
  refine ⟨(closedUnder_iff _ _).mpr this.2, fun y hy => this.1 y ?_⟩
  rcases hn3 y hy with h | h
  · cases h
  · exact h

/-- **the reachability sets of `find_incompatible_edges` are always complete**: on a well-formed circuit the executable
    closedness test of `incompatInfo` succeeds (the fuel `_node_id + 2·#registers + 2` bounds the number of vertices) -/
theorem incompatInfo_closed (c : Circuit) (hwf : c.WF) (e : Edge) : (c.incompatInfo e).closed = true := by
  have hs : ∀ x y, y ∈ succsIn c.edgesV x → y ∈ c.universe := fun x y h =>
    (E_universe hwf ((mem_succs c x y).mp h)).2
  have hp : ∀ x y, y ∈ predsIn c.edgesV x → y ∈ c.universe := fun x y h =>
    (E_universe hwf ((mem_preds c y x).mp h)).1
  obtain ⟨hd1, hd2⟩ := search_closed c (succsIn c.edgesV) hs (c.dst e)
  obtain ⟨ha1, ha2⟩ := search_closed c (predsIn c.edgesV) hp (c.src e)
  simp only [Circuit.incompatInfo, Bool.and_eq_true, List.all_eq_true, decide_eq_true_eq]
  exact ⟨⟨⟨ha1, hd1⟩, ha2⟩, hd2⟩

end Graphiq.Wire
