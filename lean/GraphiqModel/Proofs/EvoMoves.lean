/-
  Proofs/EvoMoves.lean — the emission invariant under the elementary edits, soundness of the saturation-based
  reachability sets, and preservation of the invariant by every mutation move.
-/
import GraphiqModel.Proofs.Wire
namespace Graphiq.Wire
open Relation

/-- the invariant of C04: well-formed wires, acyclic DAG, emission constraints -/
def Circuit.EmitInv (c : Circuit) : Prop := c.WF ∧ c.Acyclic ∧ c.EmitC

/-! ## 1. the emission constraints under the elementary edits -/

theorem ins_cons_succ (h : Nat) (rest : List Nat) (p k : Nat) : ins (h :: rest) (p + 1) k = h :: ins rest p k := by
  simp [ins]

theorem isEmission_congr {c c' : Circuit} {j n : Nat} (h : c'.node n = c.node n) (he : c.isEmission j n) :
    c'.isEmission j n := by
  obtain ⟨i, hi⟩ := he
  exact ⟨i, by rw [h, hi]⟩

theorem laterOk_congr {c c' : Circuit} {j n : Nat} (h : c'.node n = c.node n) (he : c.laterOk j n) :
    c'.laterOk j n := by
  obtain ⟨op, hop, hh⟩ := he
  exact ⟨op, by rw [h, hop], hh⟩

theorem EmitC_insertAt (c : Circuit) (op : Op) (es : List Edge) (hwf : c.WF) (hem : c.EmitC)
    (hnd : (es.map (·.r)).Nodup)
    (hpp : ∀ r1 r2, op.q = [r1, r2] → ¬ (r1.ty = .p ∧ r2.ty = .p))
    (hph : ∀ e, e ∈ es → e.r.ty = .p → 1 ≤ e.pos ∧
      ((op.kind.isGate1 = true ∧ op.q = [e.r]) ∨
       (op.kind.isClassicalControlled = true ∧ ∃ i, op.q = [⟨.e, i⟩, e.r]))) :
    (c.insertAt op es).EmitC := by
  have hnode : ∀ r n, n ∈ c.wire r → (c.insertAt op es).node n = c.node n := fun r n hn => by
    have := hwf.wire_le hn
    rw [insertAt_node, if_neg (by omega)]
  constructor
  · intro n op' h r1 r2 hq
    rw [insertAt_node] at h
    by_cases hn : n = c.nid + 1
    · rw [if_pos hn] at h; cases h; exact hpp r1 r2 hq
    · rw [if_neg hn] at h; exact hem.noPP n op' h r1 r2 hq
  · intro j hj
    rw [insertAt_np] at hj
    obtain ⟨h, rest, hw, hemi, hlater⟩ := hem.photon j hj
    have hh : h ∈ c.wire ⟨.p, j⟩ := by rw [hw]; exact List.mem_cons_self
    have hrest : ∀ n, n ∈ rest → n ∈ c.wire ⟨.p, j⟩ := fun n hn => by rw [hw]; exact List.mem_cons_of_mem _ hn
    by_cases hr : (⟨.p, j⟩ : Reg) ∈ es.map (·.r)
    · obtain ⟨e, he, her⟩ := List.mem_map.mp hr
      obtain ⟨hpos, hshape⟩ := hph e he (by rw [her])
      have hwire := insertAt_wire_of_mem c op es hnd e he
      rw [her, hw] at hwire
      obtain ⟨p, hp⟩ : ∃ p, e.pos = p + 1 := ⟨e.pos - 1, by omega⟩
      rw [hp, ins_cons_succ] at hwire
      refine ⟨h, ins rest p (c.nid + 1), hwire, isEmission_congr (hnode _ h hh) hemi, ?_⟩
      intro n hn
      rcases mem_ins.mp hn with rfl | hn
      · refine ⟨op, by rw [insertAt_node, if_pos rfl], ?_⟩
        rw [her] at hshape
        exact hshape
      · exact laterOk_congr (hnode _ n (hrest n hn)) (hlater n hn)
    · refine ⟨h, rest, by rw [insertAt_wire_of_not_mem c op es _ hr, hw], isEmission_congr (hnode _ h hh) hemi, ?_⟩
      intro n hn
      exact laterOk_congr (hnode _ n (hrest n hn)) (hlater n hn)

theorem EmitC_removeOp (c : Circuit) (n0 : Nat) (op0 : Op) (hem : c.EmitC) (h0 : c.node n0 = some op0)
    (hnf : op0.fixed = false) : (c.removeOp n0).EmitC := by
  constructor
  · intro n op h r1 r2 hq
    rw [removeOp_node] at h
    by_cases hn : n = n0
    · rw [if_pos hn] at h; cases h
    · rw [if_neg hn] at h; exact hem.noPP n op h r1 r2 hq
  · intro j hj
    obtain ⟨h, rest, hw, hemi, hlater⟩ := hem.photon j hj
    have hne : h ≠ n0 := by
      rintro rfl
      obtain ⟨i, hi⟩ := hemi
      rw [h0] at hi
      cases hi
      cases hnf
    refine ⟨h, rest.filter (fun m => m ≠ n0), ?_, ?_, ?_⟩
    · simp [Circuit.removeOp, hw, hne]
    · exact isEmission_congr (by rw [removeOp_node, if_neg hne]) hemi
    · intro n hn
      have hn' := List.mem_filter.mp hn
      have hne' : n ≠ n0 := by simpa using hn'.2
      exact laterOk_congr (by rw [removeOp_node, if_neg hne']) (hlater n hn'.1)

theorem EmitC_setNode (c : Circuit) (n0 : Nat) (old op' : Op) (hem : c.EmitC) (hold : c.node n0 = some old)
    (hq : old.q = op'.q) (hk : old.kind.isWrapper = true) (hk' : op'.kind.isGate1 = true)
    (hlen : ∃ r, old.q = [r]) : (c.setNode n0 (some op')).EmitC := by
  have hnode : ∀ m, (c.setNode n0 (some op')).node m = if m = n0 then some op' else c.node m := fun _ => rfl
  constructor
  · intro n op h r1 r2 hq'
    rw [hnode] at h
    by_cases hn : n = n0
    · rw [if_pos hn] at h
      cases h
      obtain ⟨r, hr⟩ := hlen
      rw [← hq, hr] at hq'
      cases hq'
    · rw [if_neg hn] at h; exact hem.noPP n op h r1 r2 hq'
  · intro j hj
    obtain ⟨h, rest, hw, hemi, hlater⟩ := hem.photon j hj
    have hne : h ≠ n0 := by
      rintro rfl
      obtain ⟨i, hi⟩ := hemi
      rw [hold] at hi
      cases hi
      cases hk
    refine ⟨h, rest, hw, isEmission_congr (by rw [hnode, if_neg hne]) hemi, ?_⟩
    intro n hn
    by_cases hn0 : n = n0
    · subst hn0
      obtain ⟨op, hop, hshape⟩ := hlater n hn
      rw [hold] at hop
      cases hop
      refine ⟨op', by rw [hnode, if_pos rfl], ?_⟩
      rcases hshape with ⟨_, hq1⟩ | ⟨hcc, _⟩
      · left; exact ⟨hk', by rw [← hq, hq1]⟩
      · cases hkind : old.kind <;> simp [hkind, Kind.isWrapper, Kind.isClassicalControlled] at hk hcc
    · exact laterOk_congr (by rw [hnode, if_neg hn0]) (hlater n hn)

/-! ## 2. reachability sets computed by saturation are complete once they are closed -/

theorem mem_succs (c : Circuit) (x y : V) : y ∈ c.succs x ↔ c.E x y := by
  unfold Circuit.succs Circuit.E
  rw [List.mem_filterMap]
  constructor
  · rintro ⟨⟨a, b⟩, hp, h⟩
    by_cases ha : a = x
    · simp only [ha, if_true, Option.some.injEq] at h
      subst h; subst ha; exact hp
    · simp [ha] at h
  · intro h
    exact ⟨(x, y), h, by simp⟩

theorem mem_preds (c : Circuit) (x y : V) : x ∈ c.preds y ↔ c.E x y := by
  unfold Circuit.preds Circuit.E
  rw [List.mem_filterMap]
  constructor
  · rintro ⟨⟨a, b⟩, hp, h⟩
    by_cases hb : b = y
    · simp only [hb, if_true, Option.some.injEq] at h
      subst h; subst hb; exact hp
    · simp [hb] at h
  · intro h
    exact ⟨(x, y), h, by simp⟩

theorem closedUnder_iff (step : V → List V) (S : List V) :
    closedUnder step S = true ↔ ∀ x, x ∈ S → ∀ y, y ∈ step x → y ∈ S := by
  simp [closedUnder, List.all_eq_true]

/-- a `succs`-closed set containing the successors of `b` contains every strict descendant of `b` -/
theorem closed_desc (c : Circuit) (D : List V) (b : V) (hcl : closedUnder c.succs D = true)
    (hs : ∀ x, x ∈ c.succs b → x ∈ D) {y : V} (h : TransGen c.E b y) : y ∈ D := by
  rw [closedUnder_iff] at hcl
  induction h with
  | single h => exact hs _ ((mem_succs c _ _).mpr h)
  | tail _ h ih => exact hcl _ ih _ ((mem_succs c _ _).mpr h)

/-- a `preds`-closed set containing the predecessors of `a` contains every strict ancestor of `a` -/
theorem closed_anc (c : Circuit) (A : List V) (a : V) (hcl : closedUnder c.preds A = true)
    (hs : ∀ x, x ∈ c.preds a → x ∈ A) {x : V} (h : TransGen c.E x a) : x ∈ A := by
  rw [closedUnder_iff] at hcl
  induction h using TransGen.head_induction_on with
  | single h => exact hs _ ((mem_preds c _ _).mpr h)
  | head h _ ih => exact hcl _ ih _ ((mem_preds c _ _).mpr h)

/-- what a closed `incompatInfo` and a negative `isIncompatible` give: the two insertion conditions -/
theorem compatible_of_not_incompatible (c : Circuit) (e1 e2 : Edge) (hv2 : c.validReg e2.r = true)
    (hcl : (c.incompatInfo e1).closed = true) (hinc : c.isIncompatible e1 (c.incompatInfo e1) e2 = false) :
    e2 ≠ e1 ∧ ¬ ReflTransGen c.E (c.dst e1) (c.src e2) ∧ ¬ ReflTransGen c.E (c.dst e2) (c.src e1) := by
  simp only [Circuit.isIncompatible, Bool.or_eq_false_iff, decide_eq_false_iff_not] at hinc
  obtain ⟨⟨⟨⟨hne, hds⟩, hanc⟩, hsd⟩, hdesc⟩ := hinc
  simp only [Circuit.incompatInfo, Bool.and_eq_true, List.all_eq_true, decide_eq_true_eq] at hcl
  obtain ⟨⟨⟨hclA, hclD⟩, hpa⟩, hsb⟩ := hcl
  refine ⟨hne, ?_, ?_⟩
  · intro h
    rcases reflTransGen_iff_eq_or_transGen.mp h with h | h
    · exact hsd h
    · exact hdesc (closed_desc c _ _ hclD hsb h)
  · intro h
    rcases reflTransGen_iff_eq_or_transGen.mp h with h | h
    · exact hds h.symm
    · exact hanc (closed_anc c _ _ hclA hpa (TransGen.head (E_src_dst c e2 hv2) h))

/-! ## 3. two edges of one wire are never compatible -/

section SameWire
variable {α : Type}

theorem adj_getElem (l : List α) (j : Nat) (h : j + 1 < l.length) :
    Adj l (l[j]'(by omega)) (l[j + 1]'h) := by
  unfold Adj pairs
  have hlen : j < (l.zip l.tail).length := by simp; omega
  have : (l.zip l.tail)[j]'hlen = (l[j]'(by omega), l[j + 1]'h) := by
    simp [List.getElem_zip, List.getElem_tail]
  rw [← this]
  exact List.getElem_mem hlen

theorem reach_getElem (l : List α) (i j : Nat) (hij : i ≤ j) (hj : j < l.length) :
    ReflTransGen (Adj l) (l[i]'(by omega)) (l[j]'hj) := by
  induction j with
  | zero =>
    have : i = 0 := by omega
    subst this
    exact ReflTransGen.refl
  | succ j ih =>
    by_cases h : i = j + 1
    · subst h; exact ReflTransGen.refl
    · exact (ih (by omega) (by omega)).tail (adj_getElem l j hj)

end SameWire

theorem aug_length (c : Circuit) (r : Reg) : (c.aug r).length = (c.wire r).length + 2 := by
  simp [Circuit.aug]

theorem L1_length (c : Circuit) (e : Edge) (h : e.pos ≤ (c.wire e.r).length) : (L1 c e).length = e.pos + 1 := by
  simp [L1, Nat.min_eq_left h]

theorem src_eq_getElem (c : Circuit) (e : Edge) (h : e.pos ≤ (c.wire e.r).length) :
    c.src e = (c.aug e.r)[e.pos]'(by rw [aug_length]; omega) := by
  have h1 := L1_getLast c e
  have hl := L1_length c e h
  rw [List.getLast?_eq_getElem?] at h1
  have h2 : (L1 c e)[e.pos]? = some (c.src e) := by rw [← h1, hl]; rfl
  have h3 : (c.aug e.r)[e.pos]? = some (c.src e) := by
    rw [aug_split, List.getElem?_append_left (by omega), h2]
  obtain ⟨_, h4⟩ := List.getElem?_eq_some_iff.mp h3
  exact h4.symm

theorem dst_eq_getElem (c : Circuit) (e : Edge) (h : e.pos ≤ (c.wire e.r).length) :
    c.dst e = (c.aug e.r)[e.pos + 1]'(by rw [aug_length]; omega) := by
  have h1 := L2_head c e
  have hl := L1_length c e h
  have h3 : (c.aug e.r)[e.pos + 1]? = some (c.dst e) := by
    rw [aug_split, List.getElem?_append_right (by omega), hl, Nat.sub_self, ← List.head?_eq_getElem?, h1]
  obtain ⟨_, h4⟩ := List.getElem?_eq_some_iff.mp h3
  exact h4.symm

/-- on one wire, the head of an earlier edge reaches the tail of a later edge -/
theorem reach_along_wire (c : Circuit) (r : Reg) (p q : Nat) (hv : c.validReg r = true) (hpq : p < q)
    (hq : q ≤ (c.wire r).length) : ReflTransGen c.E (c.dst ⟨r, p⟩) (c.src ⟨r, q⟩) := by
  rw [dst_eq_getElem c ⟨r, p⟩ (by simp; omega), src_eq_getElem c ⟨r, q⟩ (by simpa using hq)]
  have := reach_getElem (c.aug r) (p + 1) q (by omega) (by rw [aug_length]; omega)
  exact ReflTransGen.mono (fun x y hxy => (E_iff c x y).mpr ⟨r, hv, hxy⟩) _ _ this

theorem distinct_wires_of_compatible (c : Circuit) (e1 e2 : Edge) (hv : c.validReg e1.r = true)
    (h1 : e1.pos ≤ (c.wire e1.r).length) (h2 : e2.pos ≤ (c.wire e2.r).length) (hne : e2 ≠ e1)
    (h12 : ¬ ReflTransGen c.E (c.dst e1) (c.src e2)) (h21 : ¬ ReflTransGen c.E (c.dst e2) (c.src e1)) :
    e1.r ≠ e2.r := by
  intro hr
  rcases e1 with ⟨r1, p1⟩
  rcases e2 with ⟨r2, p2⟩
  simp only at hr h1 h2 hv
  subst hr
  have hp : p1 ≠ p2 := fun h => hne (by rw [h])
  rcases Nat.lt_or_gt_of_ne hp with h | h
  · exact h12 (reach_along_wire c r1 p1 p2 hv h h2)
  · exact h21 (reach_along_wire c r1 p2 p1 hv h h1)

end Graphiq.Wire
