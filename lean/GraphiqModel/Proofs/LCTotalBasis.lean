/-
  Proofs/LCTotalBasis.lean — towards totality of `is_lc_equivalent`: the vectors built by `_solution_basis_finder` have the
  right length and solve the reduced system, so its assertion "solution basis is wrong." cannot fire.

  The Python splices the unit vector `e_i` into `x = A⁻¹ b_i` by successive `list.insert(col_list[j], …)`.  `splice_keep`
  locates the entries of `x` in the result (position `pos` holds `x[pos − #{free columns < pos}]`), `basisVec_pivot`
  specialises it to the pivot columns, and `basisVec_solves` is the computation `A (A⁻¹ b) + b = 0`.
-/
import GraphiqModel.Proofs.LCTotalInv
namespace Graphiq.LC
open Graphiq

/-! ### `list.insert` to the right of the insertion point -/

theorem vget_pyInsert_gt (l : List Bool) (k pos : Nat) (v : Bool) (hp : k < pos) (hk : k ≤ l.length) :
    vget (pyInsert l k v) pos = vget l (pos - 1) := by
  unfold vget pyInsert
  have h1 : (l.take k).length = k := by simp [hk]
  rw [List.getD, List.getD, List.getElem?_append_right (by omega), h1]
  have : pos - k = (pos - k - 1) + 1 := by omega
  rw [this, List.getElem?_cons_succ, List.getElem?_drop]
  congr 2
  omega

/-- number of the first `k'` listed columns that lie left of `pos` -/
def cntBelow (cols : List Nat) (k' pos : Nat) : Nat :=
  ((List.range k').filter fun t => decide (cols.getD t 0 < pos)).length

theorem cntBelow_succ (cols : List Nat) (k' pos : Nat) :
    cntBelow cols (k' + 1) pos = cntBelow cols k' pos + if cols.getD k' 0 < pos then 1 else 0 := by
  unfold cntBelow
  rw [List.range_succ, List.filter_append, List.length_append]
  by_cases h : cols.getD k' 0 < pos
  · rw [List.filter_cons_of_pos (by exact decide_eq_true h), if_pos h]; rfl
  · rw [List.filter_cons_of_neg (by rw [decide_eq_false h]; exact Bool.false_ne_true), if_neg h]; rfl

theorem cntBelow_all (cols : List Nat) (k' pos : Nat) (h : ∀ t, t < k' → cols.getD t 0 < pos) :
    cntBelow cols k' pos = k' := by
  unfold cntBelow
  rw [List.filter_eq_self.mpr (fun t ht => by simpa using h t (List.mem_range.mp ht))]
  simp

/-- **where the entries of `x` end up**: after splicing values in at the first `k'` (sorted) columns, a position that is not
    one of those columns holds `x[pos − #{listed columns < pos}]` -/
theorem splice_keep (x : List Bool) (cols : List Nat) (i : Nat) (b : Nat) (hs : SortedBelow cols b)
    (hb : b = x.length + cols.length) (k' : Nat) (hk : k' ≤ cols.length) :
    ∀ pos, pos < x.length + k' → (∀ t, t < k' → cols.getD t 0 ≠ pos) →
      vget ((List.range k').foldl (fun acc j => pyInsert acc (cols.getD j 0) (decide (i = j))) x) pos =
        vget x (pos - cntBelow cols k' pos) := by
  induction k' with
  | zero => intro pos _ _; simp [cntBelow]
  | succ k' ih =>
    intro pos hpos hne
    have hlen := (splice_unit x cols i b hs hb k' (by omega)).1
    rw [List.range_succ, List.foldl_append]
    simp only [List.foldl_cons, List.foldl_nil]
    have hck : cols.getD k' 0 ≤ x.length + k' := by
      have := sorted_getD_le cols b hs k' (by omega)
      omega
    have hprev : ∀ t, t < k' → cols.getD t 0 < cols.getD k' 0 := fun t ht => sorted_getD_lt cols b hs t k' ht (by omega)
    rcases Nat.lt_or_ge pos (cols.getD k' 0) with hlt | hge
    · rw [vget_pyInsert_lt _ _ _ _ hlt (by rw [hlen]; exact hck), ih (by omega) pos (by omega) (fun t ht => hne t (by omega)),
        cntBelow_succ]
      have : ¬ cols.getD k' 0 < pos := by omega
      rw [if_neg this, Nat.add_zero]
    · have hgt : cols.getD k' 0 < pos := by
        have := hne k' (by omega); omega
      rw [vget_pyInsert_gt _ _ _ _ hgt (by rw [hlen]; exact hck),
        ih (by omega) (pos - 1) (by omega) (fun t ht => by have := hprev t ht; omega), cntBelow_succ,
        cntBelow_all cols k' (pos - 1) (fun t ht => by have := hprev t ht; omega),
        cntBelow_all cols k' pos (fun t ht => by have := hprev t ht; omega)]
      rw [if_pos hgt]
      congr 1
      omega

/-- counting through the indices is counting in the list -/
theorem length_filter_index (cols : List Nat) (p : Nat → Bool) :
    ((List.range cols.length).filter fun t => p (cols.getD t 0)).length = (cols.filter p).length := by
  induction cols with
  | nil => rfl
  | cons a cs ih =>
    have hr : List.range (a :: cs).length = 0 :: (List.range cs.length).map Nat.succ := by
      rw [List.length_cons, List.range_succ_eq_map]
    rw [hr]
    have etail : ((List.range cs.length).map Nat.succ).filter (fun t => p ((a :: cs).getD t 0)) =
        ((List.range cs.length).filter fun t => p (cs.getD t 0)).map Nat.succ := by
      rw [List.filter_map]
      congr 1
    cases hp : p a
    · rw [List.filter_cons_of_neg (by show ¬ p a = true; rw [hp]; exact Bool.false_ne_true),
        List.filter_cons_of_neg (by rw [hp]; exact Bool.false_ne_true), etail, List.length_map, ih]
    · rw [List.filter_cons_of_pos (by show p a = true; exact hp), List.filter_cons_of_pos hp, List.length_cons,
        List.length_cons, etail, List.length_map, ih]

/-- the free columns left of the pivot of row `s` are `piv s − s` in number -/
theorem cntBelow_pivot (k c : Nat) (piv : Nat → Nat) (hinc : ∀ i i', i < i' → i' < k → piv i < piv i')
    (hb : ∀ i, i < k → piv i < c) (s : Nat) (hs : s < k) :
    cntBelow ((List.range c).filter fun j => !isPiv k piv j)
      ((List.range c).filter fun j => !isPiv k piv j).length (piv s) + s = piv s := by
  unfold cntBelow
  rw [length_filter_index _ (fun j => decide (j < piv s)), List.filter_filter]
  have hP := hb s hs
  have e1 : (List.range c).filter (fun j => decide (j < piv s) && !isPiv k piv j) =
      (List.range (piv s)).filter fun j => !isPiv k piv j := by
    rw [filter_range_split c (piv s) _ (by omega)]
    have h2 : (List.range c).filter (fun j => decide (piv s ≤ j) && (decide (j < piv s) && !isPiv k piv j)) = [] := by
      rw [List.filter_eq_nil_iff]
      intro j _
      by_cases h : piv s ≤ j
      · have : ¬ j < piv s := by omega
        simp [this]
      · simp [h]
    rw [h2, List.append_nil]
    apply List.filter_congr
    intro j hj
    have := List.mem_range.mp hj
    simp [this]
  rw [e1]
  have h3 := length_filter_not (List.range (piv s)) (isPiv k piv)
  rw [filter_isPiv_aux k piv hinc (piv s) s (by omega) (fun i hi => hinc i s hi hs)
    (fun i hi hik => by
      rcases Nat.eq_or_lt_of_le hi with e | h
      · rw [e]; exact Nat.le_refl _
      · exact Nat.le_of_lt (hinc s i h hik))] at h3
  simpa using h3

/-! ### the basis vectors of `_solution_basis_finder` -/

/-- the setting: `m` is the echelon matrix of the `k` pivot rows, `colList` its non-pivot columns, `ainv` the inverse of the
    pivot-column matrix -/
structure BasisCtx (m : BMat) (k : Nat) (piv : Nat → Nat) (colList : List Nat) (ainv : BMat) : Prop where
  hk : 0 < k
  hr : m.r = k
  hP : Piv m k m.c piv
  hL : ∀ i, i < k → ∀ j, j < piv i → m.f i j = false
  hcols : colList = (List.range m.c).filter fun j => !isPiv k piv j
  hinv : gf2Inv (deleteCols m colList) = .ok ainv

theorem BasisCtx.sorted {m : BMat} {k : Nat} {piv : Nat → Nat} {colList : List Nat} {ainv : BMat}
    (h : BasisCtx m k piv colList ainv) : SortedBelow colList m.c := by
  rw [h.hcols]
  exact ⟨List.Pairwise.filter _ List.pairwise_lt_range, fun c hc => List.mem_range.mp (List.mem_filter.mp hc).1⟩

theorem BasisCtx.shape {m : BMat} {k : Nat} {piv : Nat → Nat} {colList : List Nat} {ainv : BMat}
    (h : BasisCtx m k piv colList ainv) : m.r + colList.length = m.c := by
  have h1 := length_filter_not (List.range m.c) (isPiv k piv)
  rw [filter_isPiv k m.c piv h.hP.incr h.hP.bound, ← h.hcols] at h1
  rw [h.hr]
  simp at h1
  omega

theorem BasisCtx.keep {m : BMat} {k : Nat} {piv : Nat → Nat} {colList : List Nat} {ainv : BMat}
    (h : BasisCtx m k piv colList ainv) : keepCols m colList = (List.range k).map piv := by
  have := keepCols_eq_pivots m k piv h.hk h.hr h.hP h.hL
  rw [colFinder_exact m k piv h.hk h.hr h.hP h.hL, ← h.hcols] at this
  exact this

/-- the `x` part of the `i`-th basis vector: `A⁻¹ b` for `b` = column `colList[i]` of `m` -/
def xPart (m : BMat) (colList : List Nat) (ainv : BMat) (i : Nat) : List Bool :=
  (List.range m.r).map fun k' => parityTo m.r fun l => ainv.f k' l && m.f l (colList.getD i 0)

theorem basisVec_eq (m : BMat) (colList : List Nat) (ainv : BMat) (i : Nat) :
    basisVec m colList ainv i =
      (List.range colList.length).foldl (fun acc j => pyInsert acc (colList.getD j 0) (decide (i = j)))
        (xPart m colList ainv i) := rfl

theorem basisVec_length {m : BMat} {k : Nat} {piv : Nat → Nat} {colList : List Nat} {ainv : BMat}
    (h : BasisCtx m k piv colList ainv) (i : Nat) : (basisVec m colList ainv i).length = m.c := by
  rw [basisVec_eq]
  have := (splice_unit (xPart m colList ainv i) colList i m.c h.sorted (by simp [xPart]; exact h.shape.symm)
    colList.length (Nat.le_refl _)).1
  rw [this]
  simp [xPart]
  exact h.shape

/-- the entry of a basis vector at the pivot column of row `s` is `x_s` -/
theorem basisVec_pivot {m : BMat} {k : Nat} {piv : Nat → Nat} {colList : List Nat} {ainv : BMat}
    (h : BasisCtx m k piv colList ainv) (i s : Nat) (hs : s < k) :
    vget (basisVec m colList ainv i) (piv s) = vget (xPart m colList ainv i) s := by
  rw [basisVec_eq]
  have hxl : (xPart m colList ainv i).length = k := by simp [xPart, h.hr]
  have hb := h.hP.bound s hs
  rw [splice_keep (xPart m colList ainv i) colList i m.c h.sorted (by rw [hxl, ← h.hr]; exact h.shape.symm)
    colList.length (Nat.le_refl _) (piv s) (by rw [hxl, ← h.hr, h.shape]; exact hb)
    (fun t ht e => by
      have hm : colList.getD t 0 ∈ colList := by
        have : colList.getD t 0 = colList[t] := by simp [List.getD, List.getElem?_eq_getElem ht]
        rw [this]; exact List.getElem_mem ht
      rw [e] at hm
      rw [h.hcols, List.mem_filter] at hm
      have := (isPiv_iff k piv (piv s)).mpr ⟨s, hs, rfl⟩
      rw [this] at hm
      simp at hm)]
  congr 1
  have := cntBelow_pivot k m.c piv h.hP.incr h.hP.bound s hs
  rw [← h.hcols] at this
  omega

/-- **every vector built by `_solution_basis_finder` solves the reduced system** (`A (A⁻¹ b) + b = 0`) -/
theorem basisVec_solves {m : BMat} {k : Nat} {piv : Nat → Nat} {colList : List Nat} {ainv : BMat}
    (h : BasisCtx m k piv colList ainv) (i : Nat) (hi : i < colList.length) :
    SolF m (vget (basisVec m colList ainv i)) := by
  intro i0 hi0
  rw [h.hr] at hi0
  obtain ⟨hsq, hI⟩ := gf2Inv_spec _ _ h.hinv
  have hdr : (deleteCols m colList).r = k := h.hr
  have hkeepD : ∀ s, s < k → (keepCols m colList).getD s 0 = piv s := by
    intro s hs
    rw [h.keep]
    simp [List.getD, hs]
  have hAf : ∀ a s, s < k → (deleteCols m colList).f a s = m.f a (piv s) := by
    intro a s hs
    show m.f a ((keepCols m colList).getD s 0) = _
    rw [hkeepD s hs]
  unfold rowDot
  -- split the columns into pivot and free ones
  have hsplit : ∀ j, j < m.c → (m.f i0 j && vget (basisVec m colList ainv i) j) =
      xor (isPiv k piv j && (m.f i0 j && vget (basisVec m colList ainv i) j))
          ((!isPiv k piv j) && (m.f i0 j && vget (basisVec m colList ainv i) j)) := by
    intro j _
    cases isPiv k piv j <;> simp
  rw [parityTo_congr m.c _ _ hsplit, parityTo_xor, parityTo_filter m.c (isPiv k piv),
    parityTo_filter m.c (fun j => !isPiv k piv j), filter_isPiv k m.c piv h.hP.incr h.hP.bound, ← h.hcols]
  -- the free part: only column colList[i] contributes
  have hfree : parityTo colList.length (fun t => m.f i0 (colList.getD t 0) &&
      vget (basisVec m colList ainv i) (colList.getD t 0)) = m.f i0 (colList.getD i 0) := by
    have e : ∀ t, t < colList.length → (m.f i0 (colList.getD t 0) && vget (basisVec m colList ainv i) (colList.getD t 0)) =
        (decide (t = i) && m.f i0 (colList.getD t 0)) := by
      intro t ht
      rw [basisVec_unit m colList ainv h.sorted h.shape i t ht]
      by_cases e : i = t
      · subst e; simp
      · have : ¬ t = i := fun x => e x.symm
        simp [e, this]
    rw [parityTo_congr _ _ _ e, parityTo_single _ i _ hi]
  -- the pivot part: A x with x = A⁻¹ b
  have hpiv : parityTo ((List.range k).map piv).length (fun s => m.f i0 (((List.range k).map piv).getD s 0) &&
      vget (basisVec m colList ainv i) (((List.range k).map piv).getD s 0)) = m.f i0 (colList.getD i 0) := by
    have hlen : ((List.range k).map piv).length = k := by simp
    rw [hlen]
    have e : ∀ s, s < k → (m.f i0 (((List.range k).map piv).getD s 0) &&
        vget (basisVec m colList ainv i) (((List.range k).map piv).getD s 0)) =
        parityTo k (fun l => (deleteCols m colList).f i0 s && ainv.f s l && m.f l (colList.getD i 0)) := by
      intro s hs
      have : ((List.range k).map piv).getD s 0 = piv s := by simp [List.getD, hs]
      rw [this, basisVec_pivot h i s hs, hAf i0 s hs]
      unfold xPart
      rw [vget_map_range m.r _ s (by rw [h.hr]; exact hs), h.hr, ← parityTo_and_const]
      apply parityTo_congr
      intro l _
      rw [Bool.and_assoc]
    rw [parityTo_congr k _ _ e, parityTo_comm]
    have e2 : ∀ l, l < k → parityTo k (fun s => (deleteCols m colList).f i0 s && ainv.f s l && m.f l (colList.getD i 0)) =
        (decide (i0 = l) && m.f l (colList.getD i 0)) := by
      intro l hl
      rw [parityTo_const_and]
      have := (hI i0 l (by rw [hdr]; exact hi0) (by rw [hdr]; exact hl)).2
      rw [hdr] at this
      unfold matMul at this
      rw [this]
    rw [parityTo_congr k _ _ e2]
    have e3 : ∀ l, l < k → (decide (i0 = l) && m.f l (colList.getD i 0)) = (decide (l = i0) && m.f l (colList.getD i 0)) := by
      intro l _
      by_cases e : i0 = l
      · subst e; simp
      · have : ¬ l = i0 := fun x => e x.symm
        simp [e, this]
    rw [parityTo_congr k _ _ e3, parityTo_single k i0 _ hi0]
  rw [hpiv, hfree]
  simp

end Graphiq.LC
