/-
  Proofs/Wire.lean — helper lemmas about the wire model: acyclicity of node insertion / removal (relation level),
  consecutive pairs of lists, the DAG edge relation of a circuit under the elementary edits, well-formedness.
-/
import GraphiqModel.Model.EvoMoves
import Mathlib.Logic.Relation
namespace Graphiq.Wire
open Relation

/-! ## 1. inserting a fresh vertex into an acyclic relation -/

section Rel
variable {α : Type}

def AcyclicRel (E : α → α → Prop) : Prop := ∀ a, ¬ TransGen E a a

/-- the relation after adding a vertex `w` with incoming edges from the `U`-vertices and outgoing edges to the
    `W`-vertices (old edges are kept: removing some only removes paths) -/
def Ins (E : α → α → Prop) (w : α) (U W : α → Prop) : α → α → Prop :=
  fun a b => E a b ∨ (b = w ∧ U a) ∨ (a = w ∧ W b)

theorem path_from_old {E : α → α → Prop} {w : α} {U W : α → Prop}
    (hfresh : ∀ a, ¬ E a w ∧ ¬ E w a) {a b : α} (ha : a ≠ w)
    (h : TransGen (Ins E w U W) a b) :
    (b ≠ w ∧ TransGen E a b) ∨ ∃ u, U u ∧ ReflTransGen E a u := by
  induction h with
  | single hab =>
    rcases hab with h | ⟨hb, hu⟩ | ⟨h, _⟩
    · left; exact ⟨fun hb => (hfresh a).1 (hb ▸ h), TransGen.single h⟩
    · right; exact ⟨a, hu, ReflTransGen.refl⟩
    · exact absurd h ha
  | tail hac hcb ih =>
    rename_i c b'
    rcases ih with ⟨hc, hac'⟩ | h
    · rcases hcb with h | ⟨_, hu⟩ | ⟨h, _⟩
      · left; exact ⟨fun hb => (hfresh c).1 (hb ▸ h), TransGen.tail hac' h⟩
      · right; exact ⟨c, hu, hac'.to_reflTransGen⟩
      · exact absurd h hc
    · right; exact h

theorem through_w {E : α → α → Prop} {w : α} {U W : α → Prop} {a b : α}
    (h : TransGen (Ins E w U W) a b) :
    TransGen E a b ∨
      (ReflTransGen (Ins E w U W) a w ∧ ReflTransGen (Ins E w U W) w b) := by
  induction h with
  | single hab =>
    rcases hab with h | ⟨hb, h⟩ | ⟨ha, h⟩
    · left; exact TransGen.single h
    · right; subst hb; exact ⟨ReflTransGen.single (Or.inr (Or.inl ⟨rfl, h⟩)), ReflTransGen.refl⟩
    · right; subst ha; exact ⟨ReflTransGen.refl, ReflTransGen.single (Or.inr (Or.inr ⟨rfl, h⟩))⟩
  | tail hac hcb ih =>
    rcases ih with h | ⟨h1, h2⟩
    · rcases hcb with h' | ⟨hb, h'⟩ | ⟨hc, h'⟩
      · left; exact TransGen.tail h h'
      · right; subst hb
        exact ⟨hac.to_reflTransGen.tail (Or.inr (Or.inl ⟨rfl, h'⟩)), ReflTransGen.refl⟩
      · right; subst hc
        exact ⟨hac.to_reflTransGen, ReflTransGen.single (Or.inr (Or.inr ⟨rfl, h'⟩))⟩
    · right; exact ⟨h1, h2.tail hcb⟩

/-- inserting a fresh vertex below the `U`s and above the `W`s keeps the relation acyclic provided no `W`-vertex
    reaches a `U`-vertex -/
theorem ins_acyclic {E : α → α → Prop} {w : α} {U W : α → Prop}
    (hE : AcyclicRel E) (hfresh : ∀ a, ¬ E a w ∧ ¬ E w a) (hUw : ¬ U w) (hWw : ¬ W w)
    (hUW : ∀ u v, U u → W v → ¬ ReflTransGen E v u) :
    AcyclicRel (Ins E w U W) := by
  have key : ∀ v, W v → ¬ TransGen (Ins E w U W) v w := by
    intro v hv hvw
    have hne : v ≠ w := fun h => hWw (h ▸ hv)
    rcases path_from_old hfresh hne hvw with ⟨hne', _⟩ | ⟨u, hu, hvu⟩
    · exact hne' rfl
    · exact hUW u v hu hv hvu
  have nocyc_w : ¬ TransGen (Ins E w U W) w w := by
    intro hww
    rcases TransGen.head'_iff.mp hww with ⟨c, hwc, hcw⟩
    rcases hwc with h | ⟨_, h⟩ | ⟨_, hc⟩
    · exact (hfresh c).2 h
    · exact hUw h
    · have hcne : c ≠ w := fun h => hWw (h ▸ hc)
      rcases reflTransGen_iff_eq_or_transGen.mp hcw with h | h
      · exact hcne h.symm
      · exact key c hc h
  intro a haa
  by_cases haw : a = w
  · subst haw; exact nocyc_w haa
  · rcases through_w haa with h | ⟨h1, h2⟩
    · exact hE a h
    · rcases reflTransGen_iff_eq_or_transGen.mp h1 with h | h1'
      · exact haw h.symm
      · rcases reflTransGen_iff_eq_or_transGen.mp h2 with h | h2'
        · exact haw h
        · exact nocyc_w (h2'.trans h1')

theorem AcyclicRel.mono {E E' : α → α → Prop} (h : ∀ a b, E' a b → E a b) (hE : AcyclicRel E) : AcyclicRel E' :=
  fun a haa => hE a (TransGen.mono h a a haa)

/-- a relation each of whose steps is a path of an acyclic relation is acyclic -/
theorem AcyclicRel.of_steps {E E' : α → α → Prop} (h : ∀ a b, E' a b → TransGen E a b) (hE : AcyclicRel E) :
    AcyclicRel E' := by
  intro a haa
  exact hE a (TransGen.lift' id h a a haa)

end Rel

/-! ## 2. consecutive pairs of a list -/

section Pairs
variable {α : Type}

@[simp] theorem pairs_nil : pairs ([] : List α) = [] := rfl
@[simp] theorem pairs_singleton (a : α) : pairs [a] = [] := rfl
@[simp] theorem pairs_cons_cons (a b : α) (l : List α) : pairs (a :: b :: l) = (a, b) :: pairs (b :: l) := rfl

theorem pairs_append_cons (A : List α) (s : α) (rest : List α) :
    pairs (A ++ s :: rest) = pairs (A ++ [s]) ++ pairs (s :: rest) := by
  induction A with
  | nil => simp
  | cons a A ih =>
    cases A with
    | nil => simp
    | cons a' A' =>
      simp only [List.cons_append, pairs_cons_cons] at ih ⊢
      rw [ih]

theorem mem_pairs_cons_of_mem {x y a : α} {l : List α} (h : (x, y) ∈ pairs l) : (x, y) ∈ pairs (a :: l) := by
  cases l with
  | nil => simp at h
  | cons b l => simp only [pairs_cons_cons, List.mem_cons]; exact Or.inr h

/-- the pairs of a list with `k` spliced between the parts `L1` and `L2` -/
theorem mem_pairs_insert {L1 L2 : List α} {k x y : α} (h : (x, y) ∈ pairs (L1 ++ k :: L2)) :
    (x, y) ∈ pairs (L1 ++ L2) ∨ (y = k ∧ L1.getLast? = some x) ∨ (x = k ∧ L2.head? = some y) := by
  rcases List.eq_nil_or_concat L1 with rfl | ⟨A, s, rfl⟩
  · cases L2 with
    | nil => simp at h
    | cons d B =>
      simp only [List.nil_append, pairs_cons_cons, List.mem_cons, Prod.mk.injEq] at h ⊢
      rcases h with ⟨rfl, rfl⟩ | h
      · right; right; simp
      · exact Or.inl h
  · cases L2 with
    | nil =>
      simp only [List.concat_eq_append, List.append_assoc, List.singleton_append, List.append_nil] at h ⊢
      rw [pairs_append_cons] at h
      simp only [pairs_cons_cons, pairs_singleton, List.mem_append, List.mem_cons, Prod.mk.injEq, List.not_mem_nil, or_false] at h
      rcases h with h | ⟨rfl, rfl⟩
      · exact Or.inl h
      · right; left; simp
    | cons d B =>
      simp only [List.concat_eq_append, List.append_assoc, List.singleton_append] at h ⊢
      rw [pairs_append_cons] at h ⊢
      simp only [pairs_cons_cons, List.mem_append, List.mem_cons, Prod.mk.injEq] at h ⊢
      rcases h with h | ⟨rfl, rfl⟩ | ⟨rfl, rfl⟩ | h
      · exact Or.inl (Or.inl h)
      · right; left; simp
      · right; right; simp
      · exact Or.inl (Or.inr (Or.inr h))

/-- the last element of the first part and the first of the second part are consecutive -/
theorem mem_pairs_join {L1 L2 : List α} {x y : α} (h1 : L1.getLast? = some x) (h2 : L2.head? = some y) :
    (x, y) ∈ pairs (L1 ++ L2) := by
  rcases List.eq_nil_or_concat L1 with rfl | ⟨A, s, rfl⟩
  · simp at h1
  · cases L2 with
    | nil => simp at h2
    | cons d B =>
      simp only [List.concat_eq_append, List.getLast?_append, List.getLast?_singleton, Option.some_or,
        Option.some.injEq, List.head?_cons] at h1 h2
      subst h1; subst h2
      simp only [List.concat_eq_append, List.append_assoc, List.singleton_append]
      rw [pairs_append_cons]
      simp

/-- adjacency in a list -/
def Adj (l : List α) (a b : α) : Prop := (a, b) ∈ pairs l

theorem Adj.cons {l : List α} {a b : α} (x : α) (h : Adj l a b) : Adj (x :: l) a b := mem_pairs_cons_of_mem h

theorem transGen_adj_cons {l : List α} {a b : α} (x : α) (h : TransGen (Adj l) a b) : TransGen (Adj (x :: l)) a b :=
  TransGen.mono (fun _ _ h => Adj.cons x h) a b h

theorem head_filter_reach (p : α → Bool) (l : List α) (x y : α) (h : (l.filter p).head? = some y) :
    TransGen (Adj (x :: l)) x y := by
  induction l generalizing x with
  | nil => simp at h
  | cons z l ih =>
    by_cases hz : p z = true
    · rw [List.filter_cons_of_pos hz, List.head?_cons, Option.some.injEq] at h
      subst h
      exact TransGen.single (by simp [Adj])
    · rw [List.filter_cons_of_neg hz] at h
      have h1 : TransGen (Adj (z :: l)) z y := ih z h
      exact TransGen.head (by simp [Adj]) (transGen_adj_cons x h1)

/-- consecutive elements of a filtered list are connected by a path of consecutive elements of the list -/
theorem adj_filter_reach (p : α → Bool) (l : List α) (a b : α) (h : Adj (l.filter p) a b) :
    TransGen (Adj l) a b := by
  induction l with
  | nil => simp [Adj] at h
  | cons x l ih =>
    by_cases hx : p x = true
    · rw [List.filter_cons_of_pos hx] at h
      cases hf : l.filter p with
      | nil => rw [hf] at h; simp [Adj] at h
      | cons y t =>
        rw [hf] at h
        simp only [Adj, pairs_cons_cons, List.mem_cons, Prod.mk.injEq] at h
        rcases h with ⟨rfl, rfl⟩ | h
        · exact head_filter_reach p l a b (by rw [hf]; rfl)
        · exact transGen_adj_cons x (ih (by rw [hf]; exact h))
    · rw [List.filter_cons_of_neg hx] at h
      exact transGen_adj_cons x (ih h)

end Pairs

/-! ## 3. the edge relation of a circuit under the elementary edits -/

def Circuit.Acyclic (c : Circuit) : Prop := AcyclicRel c.E

theorem mem_regs_iff (c : Circuit) (r : Reg) : r ∈ c.regs ↔ c.validReg r = true := by
  rcases r with ⟨ty, i⟩
  cases ty <;> simp [Circuit.regs, Circuit.validReg, Circuit.count] <;> exact decide_eq_true_iff.symm

theorem E_iff (c : Circuit) (a b : V) : c.E a b ↔ ∃ r, c.validReg r = true ∧ Adj (c.aug r) a b := by
  simp only [Circuit.E, Circuit.edgesV, List.mem_flatMap, mem_regs_iff, Adj]

theorem adj_mem {α : Type} {l : List α} {a b : α} (h : Adj l a b) : a ∈ l ∧ b ∈ l := by
  unfold Adj pairs at h
  exact ⟨(List.of_mem_zip h).1, List.mem_of_mem_tail (List.of_mem_zip h).2⟩

/-- the spliced wire -/
def ins (w : List Nat) (pos k : Nat) : List Nat := w.take pos ++ k :: w.drop pos

theorem mem_ins {w : List Nat} {pos k n : Nat} : n ∈ ins w pos k ↔ n = k ∨ n ∈ w := by
  unfold ins
  constructor
  · intro h
    rcases List.mem_append.mp h with h | h
    · exact Or.inr (List.mem_of_mem_take h)
    · rcases List.mem_cons.mp h with h | h
      · exact Or.inl h
      · exact Or.inr (List.mem_of_mem_drop h)
  · intro h
    rcases h with rfl | h
    · simp
    · have : n ∈ w.take pos ++ w.drop pos := by rw [List.take_append_drop]; exact h
      rcases List.mem_append.mp this with h | h
      · exact List.mem_append_left _ h
      · exact List.mem_append_right _ (List.mem_cons_of_mem _ h)

theorem nodup_ins {w : List Nat} {pos k : Nat} (hw : w.Nodup) (hk : k ∉ w) : (ins w pos k).Nodup := by
  unfold ins
  have h0 : (w.take pos ++ w.drop pos).Nodup := by rw [List.take_append_drop]; exact hw
  rw [List.nodup_append] at h0 ⊢
  obtain ⟨h1, h2, h3⟩ := h0
  refine ⟨h1, ?_, ?_⟩
  · rw [List.nodup_cons]
    exact ⟨fun h => hk (List.mem_of_mem_drop h), h2⟩
  · intro a ha b hb
    rcases List.mem_cons.mp hb with rfl | hb
    · intro h; subst h; exact hk (List.mem_of_mem_take ha)
    · exact h3 a ha b hb

section Fold
variable (k : Nat)

theorem foldl_insertEdge_fields (es : List Edge) (c0 : Circuit) :
    (es.foldl (Circuit.insertEdge k) c0).ne = c0.ne ∧ (es.foldl (Circuit.insertEdge k) c0).np = c0.np ∧
    (es.foldl (Circuit.insertEdge k) c0).nc = c0.nc ∧ (es.foldl (Circuit.insertEdge k) c0).nid = c0.nid ∧
    (es.foldl (Circuit.insertEdge k) c0).node = c0.node := by
  induction es generalizing c0 with
  | nil => simp
  | cons e es ih =>
    simp only [List.foldl_cons]
    have := ih (c0.insertEdge k e)
    simpa [Circuit.insertEdge, Circuit.setWire] using this

theorem foldl_insertEdge_wire_of_not_mem (es : List Edge) (c0 : Circuit) (r : Reg) (hr : r ∉ es.map (·.r)) :
    (es.foldl (Circuit.insertEdge k) c0).wire r = c0.wire r := by
  induction es generalizing c0 with
  | nil => rfl
  | cons e es ih =>
    simp only [List.map_cons, List.mem_cons, not_or] at hr
    simp only [List.foldl_cons]
    rw [ih _ hr.2]
    simp [Circuit.insertEdge, Circuit.setWire, hr.1]

theorem foldl_insertEdge_wire_of_mem (es : List Edge) (c0 : Circuit) (hnd : (es.map (·.r)).Nodup) (e : Edge)
    (he : e ∈ es) : (es.foldl (Circuit.insertEdge k) c0).wire e.r = ins (c0.wire e.r) e.pos k := by
  induction es generalizing c0 with
  | nil => simp at he
  | cons e' es ih =>
    simp only [List.map_cons, List.nodup_cons] at hnd
    simp only [List.foldl_cons]
    rcases List.mem_cons.mp he with rfl | he
    · rw [foldl_insertEdge_wire_of_not_mem k es _ _ hnd.1]
      simp [Circuit.insertEdge, Circuit.setWire, ins]
    · rw [ih _ hnd.2 he]
      have hne : e.r ≠ e'.r := fun h => hnd.1 (h ▸ List.mem_map.mpr ⟨e, he, rfl⟩)
      simp [Circuit.insertEdge, Circuit.setWire, hne]

end Fold

theorem insertAt_ne (c : Circuit) (op : Op) (es : List Edge) : (c.insertAt op es).ne = c.ne :=
  (foldl_insertEdge_fields _ es _).1
theorem insertAt_np (c : Circuit) (op : Op) (es : List Edge) : (c.insertAt op es).np = c.np :=
  (foldl_insertEdge_fields _ es _).2.1
theorem insertAt_nc (c : Circuit) (op : Op) (es : List Edge) : (c.insertAt op es).nc = c.nc :=
  (foldl_insertEdge_fields _ es _).2.2.1
theorem insertAt_nid (c : Circuit) (op : Op) (es : List Edge) : (c.insertAt op es).nid = c.nid + 1 :=
  (foldl_insertEdge_fields _ es _).2.2.2.1
theorem insertAt_node (c : Circuit) (op : Op) (es : List Edge) (n : Nat) :
    (c.insertAt op es).node n = if n = c.nid + 1 then some op else c.node n := by
  have := (foldl_insertEdge_fields (c.nid + 1) es
    { c with nid := c.nid + 1, node := fun n => if n = c.nid + 1 then some op else c.node n }).2.2.2.2
  unfold Circuit.insertAt
  rw [this]

theorem insertAt_validReg (c : Circuit) (op : Op) (es : List Edge) (r : Reg) :
    (c.insertAt op es).validReg r = c.validReg r := by
  rcases r with ⟨ty, i⟩
  cases ty <;> simp [Circuit.validReg, Circuit.count, insertAt_ne, insertAt_np, insertAt_nc] <;> rfl

theorem insertAt_wire_of_not_mem (c : Circuit) (op : Op) (es : List Edge) (r : Reg) (hr : r ∉ es.map (·.r)) :
    (c.insertAt op es).wire r = c.wire r := by
  unfold Circuit.insertAt
  rw [foldl_insertEdge_wire_of_not_mem _ es _ r hr]

theorem insertAt_wire_of_mem (c : Circuit) (op : Op) (es : List Edge) (hnd : (es.map (·.r)).Nodup) (e : Edge)
    (he : e ∈ es) : (c.insertAt op es).wire e.r = ins (c.wire e.r) e.pos (c.nid + 1) := by
  unfold Circuit.insertAt
  rw [foldl_insertEdge_wire_of_mem _ es _ hnd e he]

theorem mem_insertAt_wire (c : Circuit) (op : Op) (es : List Edge) (hnd : (es.map (·.r)).Nodup) (r : Reg) (n : Nat) :
    n ∈ (c.insertAt op es).wire r ↔ n ∈ c.wire r ∨ (n = c.nid + 1 ∧ r ∈ es.map (·.r)) := by
  by_cases hr : r ∈ es.map (·.r)
  · obtain ⟨e, he, rfl⟩ := List.mem_map.mp hr
    rw [insertAt_wire_of_mem c op es hnd e he, mem_ins]
    constructor
    · rintro (h | h)
      · exact Or.inr ⟨h, hr⟩
      · exact Or.inl h
    · rintro (h | ⟨h, _⟩)
      · exact Or.inr h
      · exact Or.inl h
  · rw [insertAt_wire_of_not_mem c op es r hr]
    constructor
    · exact Or.inl
    · rintro (h | ⟨_, h⟩)
      · exact h
      · exact absurd h hr

/-! ### the path of a register around an edge -/

def L1 (c : Circuit) (e : Edge) : List V := V.inp e.r :: ((c.wire e.r).take e.pos).map V.op
def L2 (c : Circuit) (e : Edge) : List V := ((c.wire e.r).drop e.pos).map V.op ++ [V.out e.r]

theorem L1_ne_nil (c : Circuit) (e : Edge) : L1 c e ≠ [] := by simp [L1]
theorem L2_ne_nil (c : Circuit) (e : Edge) : L2 c e ≠ [] := by simp [L2]

theorem aug_split (c : Circuit) (e : Edge) : c.aug e.r = L1 c e ++ L2 c e := by
  simp only [Circuit.aug, L1, L2, List.cons_append, ← List.append_assoc, ← List.map_append, List.take_append_drop]

theorem aug_of_wire_ins (c c' : Circuit) (e : Edge) (k : Nat) (h : c'.wire e.r = ins (c.wire e.r) e.pos k) :
    c'.aug e.r = L1 c e ++ V.op k :: L2 c e := by
  simp only [Circuit.aug, h, ins, L1, L2, List.map_append, List.map_cons, List.cons_append, List.append_assoc]

theorem L1_getLast (c : Circuit) (e : Edge) : (L1 c e).getLast? = some (c.src e) := by
  unfold L1 Circuit.src
  rcases List.eq_nil_or_concat ((c.wire e.r).take e.pos) with h | ⟨t, n, h⟩
  · simp [h]
  · simp [h, List.getLast?_cons]

theorem L2_head (c : Circuit) (e : Edge) : (L2 c e).head? = some (c.dst e) := by
  unfold L2 Circuit.dst
  cases (c.wire e.r).drop e.pos <;> simp

theorem src_cases (c : Circuit) (e : Edge) : c.src e = V.inp e.r ∨ ∃ n, n ∈ c.wire e.r ∧ c.src e = V.op n := by
  unfold Circuit.src
  cases h : ((c.wire e.r).take e.pos).getLast? with
  | none => exact Or.inl rfl
  | some n => exact Or.inr ⟨n, List.mem_of_mem_take (List.mem_of_getLast? h), rfl⟩

theorem dst_cases (c : Circuit) (e : Edge) : c.dst e = V.out e.r ∨ ∃ n, n ∈ c.wire e.r ∧ c.dst e = V.op n := by
  unfold Circuit.dst
  cases h : ((c.wire e.r).drop e.pos).head? with
  | none => exact Or.inl rfl
  | some n => exact Or.inr ⟨n, List.mem_of_mem_drop (List.mem_of_head? h), rfl⟩

/-- the edge `(src e, dst e)` is an edge of the DAG -/
theorem E_src_dst (c : Circuit) (e : Edge) (hv : c.validReg e.r = true) : c.E (c.src e) (c.dst e) := by
  rw [E_iff]
  refine ⟨e.r, hv, ?_⟩
  unfold Adj
  rw [aug_split]
  exact mem_pairs_join (L1_getLast c e) (L2_head c e)

theorem mem_aug {c : Circuit} {r : Reg} {v : V} (h : v ∈ c.aug r) :
    v = V.inp r ∨ v = V.out r ∨ ∃ n, n ∈ c.wire r ∧ v = V.op n := by
  simp only [Circuit.aug, List.mem_cons, List.mem_append, List.mem_map, List.not_mem_nil, or_false] at h
  rcases h with h | ⟨n, hn, rfl⟩ | h
  · exact Or.inl h
  · exact Or.inr (Or.inr ⟨n, hn, rfl⟩)
  · exact Or.inr (Or.inl h)

/-- a vertex of an edge of the DAG that is an op node lies on a wire -/
theorem E_op_left {c : Circuit} {n : Nat} {b : V} (h : c.E (V.op n) b) : ∃ r, n ∈ c.wire r := by
  obtain ⟨r, _, hadj⟩ := (E_iff c _ _).mp h
  rcases mem_aug (adj_mem hadj).1 with h | h | ⟨m, hm, h⟩
  · cases h
  · cases h
  · cases h; exact ⟨r, hm⟩

theorem E_op_right {c : Circuit} {n : Nat} {a : V} (h : c.E a (V.op n)) : ∃ r, n ∈ c.wire r := by
  obtain ⟨r, _, hadj⟩ := (E_iff c _ _).mp h
  rcases mem_aug (adj_mem hadj).2 with h | h | ⟨m, hm, h⟩
  · cases h
  · cases h
  · cases h; exact ⟨r, hm⟩

/-- ids on wires are at most `nid` -/
theorem Circuit.WF.wire_le {c : Circuit} (hwf : c.WF) {r : Reg} {n : Nat} (h : n ∈ c.wire r) : n ≤ c.nid := by
  have := hwf.onNode r n h
  cases ho : c.node n with
  | none => simp [ho] at this
  | some op => exact (hwf.bound n op ho).2

/-- the edges of the circuit after `insertAt` -/
theorem E_insertAt (c : Circuit) (op : Op) (es : List Edge) (hnd : (es.map (·.r)).Nodup) (a b : V)
    (h : (c.insertAt op es).E a b) :
    Ins c.E (V.op (c.nid + 1)) (fun u => ∃ e, e ∈ es ∧ u = c.src e) (fun v => ∃ e, e ∈ es ∧ v = c.dst e) a b := by
  obtain ⟨r, hv, hadj⟩ := (E_iff _ _ _).mp h
  rw [insertAt_validReg] at hv
  by_cases hr : r ∈ es.map (·.r)
  · obtain ⟨e, he, rfl⟩ := List.mem_map.mp hr
    have haug := aug_of_wire_ins c (c.insertAt op es) e (c.nid + 1) (insertAt_wire_of_mem c op es hnd e he)
    unfold Adj at hadj
    rw [haug] at hadj
    rcases mem_pairs_insert hadj with h | ⟨hb, ha⟩ | ⟨ha, hb⟩
    · left
      rw [E_iff]
      exact ⟨e.r, hv, by unfold Adj; rw [aug_split]; exact h⟩
    · right; left
      rw [L1_getLast, Option.some.injEq] at ha
      exact ⟨hb, e, he, ha.symm⟩
    · right; right
      rw [L2_head, Option.some.injEq] at hb
      exact ⟨ha, e, he, hb.symm⟩
  · left
    rw [E_iff]
    refine ⟨r, hv, ?_⟩
    have : (c.insertAt op es).aug r = c.aug r := by
      simp only [Circuit.aug, insertAt_wire_of_not_mem c op es r hr]
    rw [this] at hadj
    exact hadj

/-- inserting a node on edges none of whose heads reaches any of their tails keeps the DAG acyclic -/
theorem acyclic_insertAt (c : Circuit) (op : Op) (es : List Edge) (hwf : c.WF) (hac : c.Acyclic)
    (hnd : (es.map (·.r)).Nodup)
    (hUW : ∀ e1, e1 ∈ es → ∀ e2, e2 ∈ es → ¬ ReflTransGen c.E (c.dst e2) (c.src e1)) :
    (c.insertAt op es).Acyclic := by
  have hk : ∀ r, (c.nid + 1) ∉ c.wire r := fun r h => by
    have := hwf.wire_le h
    omega
  refine AcyclicRel.mono (E_insertAt c op es hnd) (ins_acyclic hac ?_ ?_ ?_ ?_)
  · intro a
    exact ⟨fun h => by obtain ⟨r, hr⟩ := E_op_right h; exact hk r hr,
           fun h => by obtain ⟨r, hr⟩ := E_op_left h; exact hk r hr⟩
  · rintro ⟨e, _, he⟩
    rcases src_cases c e with h | ⟨n, hn, h⟩
    · rw [h] at he; cases he
    · rw [h] at he; cases he; exact hk _ hn
  · rintro ⟨e, _, he⟩
    rcases dst_cases c e with h | ⟨n, hn, h⟩
    · rw [h] at he; cases he
    · rw [h] at he; cases he; exact hk _ hn
  · rintro u v ⟨e1, he1, rfl⟩ ⟨e2, he2, rfl⟩
    exact hUW e1 he1 e2 he2

/-! ### removal -/

theorem aug_removeOp (c : Circuit) (n : Nat) (r : Reg) :
    (c.removeOp n).aug r = (c.aug r).filter (fun v => decide (v ≠ V.op n)) := by
  simp only [Circuit.aug, Circuit.removeOp, List.filter_cons, List.filter_append, List.filter_map, List.filter_nil]
  simp [Function.comp_def]

theorem removeOp_validReg (c : Circuit) (n : Nat) (r : Reg) : (c.removeOp n).validReg r = c.validReg r := rfl

theorem E_removeOp (c : Circuit) (n : Nat) (a b : V) (h : (c.removeOp n).E a b) : TransGen c.E a b := by
  obtain ⟨r, hv, hadj⟩ := (E_iff _ _ _).mp h
  rw [removeOp_validReg] at hv
  rw [aug_removeOp] at hadj
  have := adj_filter_reach _ _ _ _ hadj
  exact TransGen.mono (fun x y hxy => (E_iff c x y).mpr ⟨r, hv, hxy⟩) a b this

theorem acyclic_removeOp (c : Circuit) (n : Nat) (hac : c.Acyclic) : (c.removeOp n).Acyclic :=
  AcyclicRel.of_steps (E_removeOp c n) hac

/-- edits that leave the wires and register counts alone leave the edge relation alone -/
theorem E_congr {c c' : Circuit} (h1 : c'.ne = c.ne) (h2 : c'.np = c.np) (h3 : c'.nc = c.nc) (h4 : c'.wire = c.wire) :
    c'.E = c.E := by
  funext a b
  simp only [Circuit.E, Circuit.edgesV, Circuit.regs, Circuit.aug, h1, h2, h3, h4]

/-! ## 4. well-formedness under the elementary edits -/

theorem WF_insertAt (c : Circuit) (op : Op) (es : List Edge) (hwf : c.WF)
    (hnd : (es.map (·.r)).Nodup) (hv : ∀ e, e ∈ es → c.validReg e.r = true)
    (hq : ∀ r : Reg, r.ty ≠ .c → (r ∈ es.map (·.r) ↔ r ∈ op.q))
    (hc : ∀ i, (⟨.c, i⟩ : Reg) ∈ es.map (·.r) → i ∈ op.cr)
    (hqv : ∀ r, r ∈ op.q → c.validReg r = true ∧ r.ty ≠ .c) :
    (c.insertAt op es).WF := by
  have hk : ∀ r, (c.nid + 1) ∉ c.wire r := fun r h => by
    have := hwf.wire_le h
    omega
  have hnode : ∀ n, n ≠ c.nid + 1 → (c.insertAt op es).node n = c.node n := fun n hn => by
    rw [insertAt_node, if_neg hn]
  have hnodek : (c.insertAt op es).node (c.nid + 1) = some op := by rw [insertAt_node, if_pos rfl]
  constructor
  · intro n op' h
    rw [insertAt_node] at h
    rw [insertAt_nid]
    by_cases hn : n = c.nid + 1
    · subst hn; omega
    · rw [if_neg hn] at h
      have := hwf.bound n op' h
      omega
  · intro r hr
    rw [insertAt_validReg] at hr
    have hnot : r ∉ es.map (·.r) := by
      intro h
      obtain ⟨e, he, rfl⟩ := List.mem_map.mp h
      rw [hv e he] at hr
      cases hr
    rw [insertAt_wire_of_not_mem c op es r hnot]
    exact hwf.invalidEmpty r hr
  · intro r n h
    rcases (mem_insertAt_wire c op es hnd r n).mp h with h | ⟨rfl, _⟩
    · have hle := hwf.wire_le h
      rw [hnode n (by omega)]
      exact hwf.onNode r n h
    · rw [hnodek]; rfl
  · intro r
    by_cases hr : r ∈ es.map (·.r)
    · obtain ⟨e, he, rfl⟩ := List.mem_map.mp hr
      rw [insertAt_wire_of_mem c op es hnd e he]
      exact nodup_ins (hwf.nodup e.r) (hk e.r)
    · rw [insertAt_wire_of_not_mem c op es r hr]
      exact hwf.nodup r
  · intro n op' h r hr
    rw [mem_insertAt_wire c op es hnd r n]
    by_cases hn : n = c.nid + 1
    · subst hn
      rw [hnodek] at h
      cases h
      constructor
      · rintro (h | ⟨_, h⟩)
        · exact absurd h (hk r)
        · exact (hq r hr).mp h
      · intro h
        exact Or.inr ⟨rfl, (hq r hr).mpr h⟩
    · rw [hnode n hn] at h
      rw [← hwf.qwire n op' h r hr]
      constructor
      · rintro (h | ⟨h, _⟩)
        · exact h
        · exact absurd h hn
      · exact Or.inl
  · intro n op' h r hr
    rw [insertAt_validReg]
    by_cases hn : n = c.nid + 1
    · subst hn
      rw [hnodek] at h
      cases h
      exact hqv r hr
    · rw [hnode n hn] at h
      exact hwf.qvalid n op' h r hr
  · intro n op' h i hi
    rcases (mem_insertAt_wire c op es hnd _ n).mp hi with hi' | ⟨hn, hi'⟩
    · have hle := hwf.wire_le hi'
      rw [hnode n (by omega)] at h
      exact hwf.cwire n op' h i hi'
    · subst hn
      rw [hnodek] at h
      cases h
      exact hc i hi'

theorem removeOp_node (c : Circuit) (n m : Nat) : (c.removeOp n).node m = if m = n then none else c.node m := rfl

theorem mem_removeOp_wire (c : Circuit) (n m : Nat) (r : Reg) : m ∈ (c.removeOp n).wire r ↔ m ∈ c.wire r ∧ m ≠ n := by
  simp [Circuit.removeOp]

theorem WF_removeOp (c : Circuit) (n0 : Nat) (hwf : c.WF) : (c.removeOp n0).WF := by
  have hnode : ∀ m op, (c.removeOp n0).node m = some op → m ≠ n0 ∧ c.node m = some op := by
    intro m op h
    rw [removeOp_node] at h
    by_cases hm : m = n0
    · rw [if_pos hm] at h; cases h
    · rw [if_neg hm] at h; exact ⟨hm, h⟩
  constructor
  · intro m op h
    exact hwf.bound m op (hnode m op h).2
  · intro r hr
    have := hwf.invalidEmpty r hr
    simp [Circuit.removeOp, this]
  · intro r m h
    obtain ⟨h1, h2⟩ := (mem_removeOp_wire c n0 m r).mp h
    rw [removeOp_node, if_neg h2]
    exact hwf.onNode r m h1
  · intro r
    exact (hwf.nodup r).filter _
  · intro m op h r hr
    obtain ⟨hm, h'⟩ := hnode m op h
    rw [mem_removeOp_wire, ← hwf.qwire m op h' r hr]
    exact ⟨fun h => h.1, fun h => ⟨h, hm⟩⟩
  · intro m op h r hr
    exact hwf.qvalid m op (hnode m op h).2 r hr
  · intro m op h i hi
    exact hwf.cwire m op (hnode m op h).2 i ((mem_removeOp_wire c n0 m _).mp hi).1

theorem WF_setNode (c : Circuit) (n0 : Nat) (old op' : Op) (hwf : c.WF) (hold : c.node n0 = some old)
    (hq : old.q = op'.q) (hcr : old.cr = op'.cr) : (c.setNode n0 (some op')).WF := by
  have hnode : ∀ m, (c.setNode n0 (some op')).node m = if m = n0 then some op' else c.node m := fun _ => rfl
  constructor
  · intro m op h
    rw [hnode] at h
    by_cases hm : m = n0
    · subst hm; exact hwf.bound m old hold
    · rw [if_neg hm] at h; exact hwf.bound m op h
  · exact hwf.invalidEmpty
  · intro r m h
    rw [hnode]
    by_cases hm : m = n0
    · rw [if_pos hm]; rfl
    · rw [if_neg hm]; exact hwf.onNode r m h
  · exact hwf.nodup
  · intro m op h r hr
    rw [hnode] at h
    by_cases hm : m = n0
    · subst hm
      rw [if_pos rfl] at h
      cases h
      rw [← hq]
      exact hwf.qwire m old hold r hr
    · rw [if_neg hm] at h; exact hwf.qwire m op h r hr
  · intro m op h r hr
    rw [hnode] at h
    by_cases hm : m = n0
    · subst hm
      rw [if_pos rfl] at h
      cases h
      rw [← hq] at hr
      exact hwf.qvalid m old hold r hr
    · rw [if_neg hm] at h; exact hwf.qvalid m op h r hr
  · intro m op h i hi
    rw [hnode] at h
    by_cases hm : m = n0
    · subst hm
      rw [if_pos rfl] at h
      cases h
      rw [← hcr]
      exact hwf.cwire m old hold i hi
    · rw [if_neg hm] at h; exact hwf.cwire m op h i hi

theorem acyclic_setNode (c : Circuit) (n0 : Nat) (o : Option Op) (hac : c.Acyclic) : (c.setNode n0 o).Acyclic := by
  unfold Circuit.Acyclic
  rw [E_congr (c := c) (c' := c.setNode n0 o) rfl rfl rfl rfl]
  exact hac

/-! ### `add`: appending an operation at the end of its wires -/

theorem mem_sortRegs (l : List Reg) (r : Reg) : r ∈ sortRegs l ↔ r ∈ l := by
  induction l with
  | nil => simp [sortRegs]
  | cons a l ih =>
    have h := List.takeWhile_append_dropWhile (p := fun x : Reg => decide (x.sortKey < a.sortKey)) (l := sortRegs l)
    have hm : r ∈ sortRegs l ↔
        r ∈ (sortRegs l).takeWhile (fun x => decide (x.sortKey < a.sortKey)) ∨
        r ∈ (sortRegs l).dropWhile (fun x => decide (x.sortKey < a.sortKey)) := by
      rw [← List.mem_append, h]
    show r ∈ (sortRegs l).takeWhile _ ++ a :: (sortRegs l).dropWhile _ ↔ _
    rw [List.mem_append, List.mem_cons, List.mem_cons, ← ih, hm]
    constructor
    · rintro (h | h | h)
      · exact Or.inr (Or.inl h)
      · exact Or.inl h
      · exact Or.inr (Or.inr h)
    · rintro (h | h | h)
      · exact Or.inr (Or.inl h)
      · exact Or.inl h
      · exact Or.inr (Or.inr h)

theorem addRegIfAbsent_of_valid (c : Circuit) (r : Reg) (h : c.validReg r = true) : c.addRegIfAbsent r = .ok c := by
  unfold Circuit.addRegIfAbsent
  simp only [Circuit.validReg, decide_eq_true_eq] at h
  rw [if_pos h]

theorem foldlM_ok_const {α : Type} (f : Circuit → α → Except Err Circuit) (c : Circuit) (l : List α)
    (h : ∀ x, x ∈ l → f c x = .ok c) : l.foldlM f c = .ok c := by
  induction l with
  | nil => rfl
  | cons a l ih =>
    rw [List.foldlM_cons, h a List.mem_cons_self]
    exact ih (fun x hx => h x (List.mem_cons_of_mem _ hx))

theorem add_of_valid (c : Circuit) (op : Op) (hq : ∀ r, r ∈ op.q → c.validReg r = true)
    (hc : ∀ i, i ∈ op.cr → c.validReg ⟨.c, i⟩ = true) : c.add op = .ok (c.addCore op) := by
  unfold Circuit.add
  rw [foldlM_ok_const _ c op.cr (fun i hi => addRegIfAbsent_of_valid c _ (hc i hi))]
  show (do let c2 ← (sortRegs op.q).foldlM (fun (c' : Circuit) r => c'.addRegIfAbsent r) c; pure (c2.addCore op)) = _
  rw [foldlM_ok_const _ c (sortRegs op.q) (fun r hr => addRegIfAbsent_of_valid c _ (hq r ((mem_sortRegs _ _).mp hr)))]
  rfl

/-- the edges `_add` splices the node into -/
def endEdges (c : Circuit) (op : Op) : List Edge := op.addRegs.map fun r => ⟨r, (c.wire r).length⟩

theorem addCore_eq (c : Circuit) (op : Op) : c.addCore op = c.insertAt op (endEdges c op) := rfl

theorem endEdges_regs (c : Circuit) (op : Op) : (endEdges c op).map (·.r) = op.addRegs := by
  simp [endEdges, Function.comp_def]

theorem mem_endEdges {c : Circuit} {op : Op} {e : Edge} (h : e ∈ endEdges c op) :
    e.r ∈ op.addRegs ∧ e.pos = (c.wire e.r).length := by
  simp only [endEdges, List.mem_map] at h
  obtain ⟨r, hr, rfl⟩ := h
  exact ⟨hr, rfl⟩

theorem dst_end (c : Circuit) (e : Edge) (h : e.pos = (c.wire e.r).length) : c.dst e = V.out e.r := by
  simp [Circuit.dst, h]

theorem ins_end (w : List Nat) (k : Nat) : ins w w.length k = w ++ [k] := by simp [ins]

theorem adj_snoc_left {α : Type} {A : List α} {z a b : α} (h : Adj (A ++ [z]) a b) : a ∈ A := by
  induction A with
  | nil => simp [Adj] at h
  | cons x A ih =>
    cases A with
    | nil =>
      simp only [Adj, List.cons_append, List.nil_append, pairs_cons_cons, pairs_singleton, List.mem_singleton,
        Prod.mk.injEq] at h
      simp [h.1]
    | cons y A' =>
      simp only [Adj, List.cons_append, pairs_cons_cons, List.mem_cons, Prod.mk.injEq] at h
      rcases h with ⟨rfl, _⟩ | h
      · exact List.mem_cons_self
      · exact List.mem_cons_of_mem _ (ih h)

theorem out_no_succ (c : Circuit) (r : Reg) (b : V) : ¬ c.E (V.out r) b := by
  intro h
  obtain ⟨r', _, hadj⟩ := (E_iff c _ _).mp h
  have : c.aug r' = (V.inp r' :: (c.wire r').map V.op) ++ [V.out r'] := by simp [Circuit.aug]
  rw [this] at hadj
  have hm := adj_snoc_left hadj
  simp at hm

theorem reach_from_out (c : Circuit) (r : Reg) (x : V) (h : ReflTransGen c.E (V.out r) x) : x = V.out r := by
  rcases ReflTransGen.cases_head h with h | ⟨y, hy, _⟩
  · exact h.symm
  · exact absurd hy (out_no_succ c r y)

theorem acyclic_addCore (c : Circuit) (op : Op) (hwf : c.WF) (hac : c.Acyclic) (hnd : op.addRegs.Nodup) :
    (c.addCore op).Acyclic := by
  rw [addCore_eq]
  refine acyclic_insertAt c op _ hwf hac (by rw [endEdges_regs]; exact hnd) ?_
  intro e1 _ e2 he2 hreach
  rw [dst_end c e2 (mem_endEdges he2).2] at hreach
  have := reach_from_out c _ _ hreach
  rcases src_cases c e1 with h | ⟨n, _, h⟩ <;> rw [h] at this <;> cases this

theorem WF_addCore (c : Circuit) (op : Op) (hwf : c.WF) (hnd : op.addRegs.Nodup)
    (hqv : ∀ r, r ∈ op.q → c.validReg r = true ∧ r.ty ≠ .c) (hcv : ∀ i, i ∈ op.cr → c.validReg ⟨.c, i⟩ = true) :
    (c.addCore op).WF := by
  rw [addCore_eq]
  refine WF_insertAt c op _ hwf (by rw [endEdges_regs]; exact hnd) ?_ ?_ ?_ hqv
  · intro e he
    have := (mem_endEdges he).1
    simp only [Op.addRegs, List.mem_append, List.mem_map] at this
    rcases this with h | ⟨i, hi, h⟩
    · exact (hqv _ h).1
    · rw [← h]; exact hcv i hi
  · intro r hr
    rw [endEdges_regs]
    simp only [Op.addRegs, List.mem_append, List.mem_map]
    constructor
    · rintro (h | ⟨i, _, h⟩)
      · exact h
      · exact absurd (by rw [← h]) hr
    · exact Or.inl
  · intro i hi
    rw [endEdges_regs] at hi
    simp only [Op.addRegs, List.mem_append, List.mem_map] at hi
    rcases hi with h | ⟨i', hi', h⟩
    · exact absurd rfl (hqv _ h).2
    · cases h; exact hi'

theorem addCore_wire (c : Circuit) (op : Op) (hnd : op.addRegs.Nodup) (r : Reg) :
    (c.addCore op).wire r = if r ∈ op.addRegs then c.wire r ++ [c.nid + 1] else c.wire r := by
  rw [addCore_eq]
  split
  · rename_i h
    have he : (⟨r, (c.wire r).length⟩ : Edge) ∈ endEdges c op := List.mem_map.mpr ⟨r, h, rfl⟩
    have := insertAt_wire_of_mem c op (endEdges c op) (by rw [endEdges_regs]; exact hnd) _ he
    simp only at this
    rw [this, ins_end]
  · rename_i h
    exact insertAt_wire_of_not_mem c op _ r (by rw [endEdges_regs]; exact h)

theorem addCore_ne (c : Circuit) (op : Op) : (c.addCore op).ne = c.ne := insertAt_ne _ _ _
theorem addCore_np (c : Circuit) (op : Op) : (c.addCore op).np = c.np := insertAt_np _ _ _
theorem addCore_nc (c : Circuit) (op : Op) : (c.addCore op).nc = c.nc := insertAt_nc _ _ _

theorem validReg_e (c : Circuit) (a : Nat) (h : a < c.ne) : c.validReg ⟨.e, a⟩ = true := by
  simp [Circuit.validReg, Circuit.count, h]
theorem validReg_p (c : Circuit) (a : Nat) (h : a < c.np) : c.validReg ⟨.p, a⟩ = true := by
  simp [Circuit.validReg, Circuit.count, h]
theorem validReg_c (c : Circuit) (a : Nat) (h : a < c.nc) : c.validReg ⟨.c, a⟩ = true := by
  simp [Circuit.validReg, Circuit.count, h]

/-! ## 6. `flat` is invariant under the rewrites (C13) -/

/-- flattening of a list of node ids -/
def Circuit.F (c : Circuit) (l : List Nat) : List Item :=
  l.flatMap fun n => match c.node n with
    | some op => flatOp op
    | none => []

theorem flatWire_eq_F (c : Circuit) (r : Reg) : c.flatWire r = c.F (c.wire r) := rfl

theorem F_nil (c : Circuit) : c.F [] = [] := rfl

theorem F_append (c : Circuit) (l1 l2 : List Nat) : c.F (l1 ++ l2) = c.F l1 ++ c.F l2 := by
  simp [Circuit.F, List.flatMap_append]

theorem F_cons (c : Circuit) (n : Nat) (l : List Nat) : c.F (n :: l) = c.F [n] ++ c.F l := by
  simp [Circuit.F]

theorem F_single_some (c : Circuit) (n : Nat) (op : Op) (h : c.node n = some op) : c.F [n] = flatOp op := by
  simp [Circuit.F, h]

theorem F_congr {c c' : Circuit} {l : List Nat} (h : ∀ n, n ∈ l → c'.node n = c.node n) : c'.F l = c.F l := by
  induction l with
  | nil => rfl
  | cons n l ih =>
    rw [F_cons c', F_cons c, ih (fun m hm => h m (List.mem_cons_of_mem _ hm))]
    simp [Circuit.F, h n List.mem_cons_self]

theorem qregs_ty (c : Circuit) (r : Reg) (h : r ∈ c.qregs) : r.ty ≠ .c := by
  simp only [Circuit.qregs, Circuit.regsOf, List.mem_append, List.mem_map] at h
  rcases h with ⟨i, _, rfl⟩ | ⟨i, _, rfl⟩ <;> simp

/-- two circuits with the same register counts and the same flattened quantum wires have the same `flat` -/
theorem flat_eq_of {c c' : Circuit} (h1 : c'.ne = c.ne) (h2 : c'.np = c.np) (h3 : c'.nc = c.nc)
    (h : ∀ r : Reg, r ∈ c.qregs → c'.flatWire r = c.flatWire r) : c'.flat = c.flat := by
  have hq : c'.qregs = c.qregs := by simp [Circuit.qregs, Circuit.regsOf, Circuit.count, h1, h2]
  simp only [Circuit.flat, h1, h2, h3, hq]
  congr 3
  exact List.map_congr_left (fun r hr => h r hr)

/-- removing a node whose flattening is empty does not change the flattening of any wire -/
theorem F_removeOp_filter (c : Circuit) (n : Nat) (l : List Nat) (h : ∀ op, c.node n = some op → flatOp op = []) :
    (c.removeOp n).F (l.filter fun m => m ≠ n) = c.F l := by
  induction l with
  | nil => rfl
  | cons m l ih =>
    by_cases hm : m = n
    · subst hm
      rw [List.filter_cons_of_neg (by simp), ih, F_cons c]
      cases hn : c.node m with
      | none => simp [Circuit.F, hn]
      | some op => rw [F_single_some c m op hn, h op hn]; rfl
    · rw [List.filter_cons_of_pos (by simpa using hm), F_cons (c.removeOp n), F_cons c, ih]
      congr 1
      simp [Circuit.F, removeOp_node, hm]

theorem flatWire_removeOp (c : Circuit) (n : Nat) (r : Reg) (h : ∀ op, c.node n = some op → flatOp op = []) :
    (c.removeOp n).flatWire r = c.flatWire r := by
  rw [flatWire_eq_F, flatWire_eq_F]
  exact F_removeOp_filter c n (c.wire r) h

/-- `flat (copy c) = flat c` -/
theorem flat_copy (c : Circuit) : c.copy.flat = c.flat := rfl

/-- `flat (remove_identity c) = flat c`, whatever the iteration order -/
theorem flat_removeIdentity (c : Circuit) (order : List Nat) : (c.removeIdentity order).flat = c.flat := by
  unfold Circuit.removeIdentity
  induction order generalizing c with
  | nil => rfl
  | cons n order ih =>
    simp only [List.foldl_cons]
    rw [ih]
    split
    · rename_i q cr fx hnode
      refine flat_eq_of rfl rfl rfl (fun r _ => flatWire_removeOp c n r ?_)
      intro op hop
      rw [hnode] at hop
      cases hop
      rfl
    · rfl

/-- the operations' register lists are duplicate-free and their classical registers exist -/
def Circuit.OpsOk (c : Circuit) : Prop :=
  ∀ n op, c.node n = some op → op.addRegs.Nodup ∧ ∀ i, i ∈ op.cr → i < c.nc

theorem mem_qregs (c : Circuit) (r : Reg) : r ∈ c.qregs ↔ (c.validReg r = true ∧ r.ty ≠ .c) := by
  rcases r with ⟨ty, i⟩
  cases ty <;> simp [Circuit.qregs, Circuit.regsOf, Circuit.validReg, Circuit.count] <;> exact decide_eq_true_iff.symm

theorem validReg_congr {c c' : Circuit} (h1 : c'.ne = c.ne) (h2 : c'.np = c.np) (h3 : c'.nc = c.nc) (r : Reg) :
    c'.validReg r = c.validReg r := by
  rcases r with ⟨ty, i⟩
  cases ty <;> simp [Circuit.validReg, Circuit.count, h1, h2, h3] <;> rfl

theorem WF_empty (ne np nc : Nat) : (Circuit.empty ne np nc).WF := by
  refine ⟨?_, ?_, ?_, ?_, ?_, ?_, ?_⟩
  · intro n op h; cases h
  · intro r _; rfl
  · intro r n h; cases h
  · intro r; exact List.nodup_nil
  · intro n op h; cases h
  · intro n op h; cases h
  · intro n op h; cases h

structure AssignInv (c c' : Circuit) (P : List Nat) : Prop where
  hne : c'.ne = c.ne
  hnp : c'.np = c.np
  hnc : c'.nc = c.nc
  hnid : c'.nid = P.length
  bound : ∀ r m, m ∈ c'.wire r → m ≤ c'.nid
  flat : ∀ r, r ∈ c.qregs → c'.F (c'.wire r) = c.F (P.filter fun n => decide (n ∈ c.wire r))
  wf : c'.WF
  nodes : ∀ m op, c'.node m = some op → ∃ n, c.node n = some op

theorem assign_step (c c' : Circuit) (P : List Nat) (n : Nat) (op : Op) (hwf : c.WF) (hok : c.OpsOk)
    (hnode : c.node n = some op) (hinv : AssignInv c c' P) :
    c'.add op = Except.ok (c'.addCore op) ∧ AssignInv c (c'.addCore op) (P ++ [n]) := by
  obtain ⟨hne, hnp, hnc, hnid, hbound, hflat, hwf', hnodes'⟩ := hinv
  obtain ⟨hnd, hcr⟩ := hok n op hnode
  have hvalid : ∀ r, c'.validReg r = c.validReg r := validReg_congr hne hnp hnc
  refine ⟨add_of_valid c' op (fun r hr => by rw [hvalid]; exact (hwf.qvalid n op hnode r hr).1)
    (fun i hi => by rw [hvalid]; exact validReg_c c i (hcr i hi)), ?_⟩
  have hwire := addCore_wire c' op hnd
  refine ⟨by rw [addCore_ne]; exact hne, by rw [addCore_np]; exact hnp, by rw [addCore_nc]; exact hnc, ?_, ?_, ?_, ?_, ?_⟩
  rotate_left 3
  · exact WF_addCore c' op hwf' hnd
      (fun r hr => ⟨by rw [hvalid]; exact (hwf.qvalid n op hnode r hr).1, (hwf.qvalid n op hnode r hr).2⟩)
      (fun i hi => by rw [hvalid]; exact validReg_c c i (hcr i hi))
  · intro m op' hm
    rw [addCore_eq, insertAt_node] at hm
    by_cases hmk : m = c'.nid + 1
    · rw [if_pos hmk] at hm; cases hm; exact ⟨n, hnode⟩
    · rw [if_neg hmk] at hm; exact hnodes' m op' hm
  · rw [addCore_eq, insertAt_nid, hnid]; simp
  · intro r m hm
    rw [hwire] at hm
    rw [addCore_eq, insertAt_nid]
    split at hm
    · rcases List.mem_append.mp hm with hm | hm
      · have := hbound r m hm; omega
      · simp only [List.mem_singleton] at hm; omega
    · have := hbound r m hm; omega
  · intro r hr
    have hty : r.ty ≠ .c := ((mem_qregs c r).mp hr).2
    have hnodes : ∀ m, m ∈ c'.wire r → (c'.addCore op).node m = c'.node m := by
      intro m hm
      have := hbound r m hm
      rw [addCore_eq, insertAt_node, if_neg (by omega)]
    have hk : (c'.addCore op).node (c'.nid + 1) = some op := by rw [addCore_eq, insertAt_node, if_pos rfl]
    rw [hwire, List.filter_append, F_append]
    have hmem : (r ∈ op.addRegs) ↔ n ∈ c.wire r := by
      rw [hwf.qwire n op hnode r hty]
      simp only [Op.addRegs, List.mem_append, List.mem_map]
      constructor
      · rintro (h | ⟨i, _, h⟩)
        · exact h
        · exact absurd (by rw [← h]) hty
      · exact Or.inl
    by_cases hin : n ∈ c.wire r
    · rw [if_pos (hmem.mpr hin), F_append, F_congr hnodes, hflat r hr]
      congr 1
      rw [F_single_some _ _ op hk]
      simp [hin, Circuit.F, hnode]
    · rw [if_neg (fun h => hin (hmem.mp h)), F_congr hnodes, hflat r hr]
      simp [hin, Circuit.F]

theorem assign_fold (c : Circuit) (hwf : c.WF) (hok : c.OpsOk) (seq : List Nat) (c' : Circuit) (P : List Nat) (cf : Circuit)
    (hinv : AssignInv c c' P)
    (h : seq.foldlM (fun c'' n => match c.node n with
      | some op => c''.add op
      | none => Except.error Err.key) c' = Except.ok cf) :
    AssignInv c cf (P ++ seq) := by
  induction seq generalizing c' P with
  | nil =>
    simp only [List.foldlM_nil] at h
    cases h
    simpa using hinv
  | cons n seq ih =>
    rw [List.foldlM_cons] at h
    cases hnode : c.node n with
    | none => simp [hnode] at h; cases h
    | some op =>
      simp only [hnode] at h
      obtain ⟨hadd, hinv'⟩ := assign_step c c' P n op hwf hok hnode hinv
      rw [hadd] at h
      have := ih (c'.addCore op) (P ++ [n]) hinv' h
      simpa using this

/-- `flat (assign_noise c ∅) = flat c` for every topological order the sequence may come in -/
theorem flat_assignNoise (c : Circuit) (seq : List Nat) (cf : Circuit) (hwf : c.WF) (hok : c.OpsOk)
    (h : c.assignNoise seq = Except.ok cf) :
    cf.flat = c.flat ∧ cf.WF ∧ ∀ m op, cf.node m = some op → ∃ n, c.node n = some op := by
  unfold Circuit.assignNoise at h
  split at h
  · cases h
  · rename_i hlin
    have hlin' : c.isLinearExtension seq = true := by simpa using hlin
    have h0 : AssignInv c (Circuit.empty c.ne c.np c.nc) [] :=
      ⟨rfl, rfl, rfl, rfl, fun r m hm => by simp [Circuit.empty] at hm, fun r _ => rfl,
       WF_empty _ _ _, fun m op h => by simp [Circuit.empty] at h⟩
    have hinv := assign_fold c hwf hok seq _ [] cf h0 h
    refine ⟨?_, hinv.wf, hinv.nodes⟩
    refine flat_eq_of hinv.hne hinv.hnp hinv.hnc (fun r hr => ?_)
    rw [flatWire_eq_F, flatWire_eq_F, hinv.flat r hr]
    simp only [Circuit.isLinearExtension, Bool.and_eq_true, List.all_eq_true, decide_eq_true_eq] at hlin'
    have hr' : r ∈ c.regs := (mem_regs_iff c r).mpr ((mem_qregs c r).mp hr).1
    rw [List.nil_append, hlin'.2 r hr']

/-! ### unwrap_nodes -/

theorem dropI_append (a b : List G1) : dropI (a ++ b) = dropI a ++ dropI b := by simp [dropI]

theorem ins_at_length (X Y : List Nat) (k : Nat) : ins (X ++ Y) X.length k = X ++ k :: Y := by simp [ins]

theorem not_mem_of_nodup_middle {X B : List Nat} {n : Nat} (h : (X ++ n :: B).Nodup) : n ∉ X ∧ n ∉ B := by
  rw [List.nodup_append] at h
  obtain ⟨_, h2, h3⟩ := h
  exact ⟨fun hx => h3 n hx n List.mem_cons_self rfl, (List.nodup_cons.mp h2).1⟩

/-- state of unwrapping the wrapper `n` on wire `r`: the new base gates `ks` sit directly before `n` -/
structure UnwrapInv (c c' : Circuit) (n : Nat) (r : Reg) (opn : Op) (A B ks : List Nat) (done : List G1) : Prop where
  wf : c'.WF
  hne : c'.ne = c.ne
  hnp : c'.np = c.np
  hnc : c'.nc = c.nc
  noden : c'.node n = some opn
  wire : c'.wire r = A ++ ks ++ n :: B
  other : ∀ r', r' ≠ r → c'.wire r' = c.wire r'
  old : ∀ m, m ≤ c.nid → c'.node m = c.node m
  nid : c.nid ≤ c'.nid
  fks : c'.F ks = (dropI done).map Item.g

theorem unwrap_step (c c' : Circuit) (n : Nat) (r : Reg) (opn : Op) (A B ks : List Nat) (done : List G1) (g : G1)
    (hq : opn.q = [r]) (h : UnwrapInv c c' n r opn A B ks done) :
    UnwrapInv c (c'.insertAt (Op.base1 g r) [⟨r, (c'.wire r).idxOf n⟩]) n r opn A B (ks ++ [c'.nid + 1]) (done ++ [g]) := by
  obtain ⟨hwf, hne, hnp, hnc, hnoden, hwire, hother, hold, hnid, hfks⟩ := h
  have hrv := hwf.qvalid n opn hnoden r (by rw [hq]; exact List.mem_singleton.mpr rfl)
  have hnle : n ≤ c'.nid := (hwf.bound n opn hnoden).2
  have hnd := hwf.nodup r
  rw [hwire] at hnd
  have hnot := (not_mem_of_nodup_middle hnd).1
  have hidx : (c'.wire r).idxOf n = (A ++ ks).length := by
    rw [hwire, List.idxOf_append, if_neg hnot]; simp
  have hes : (([⟨r, (c'.wire r).idxOf n⟩] : List Edge).map (·.r)).Nodup := by simp
  have hw' : (c'.insertAt (Op.base1 g r) [⟨r, (c'.wire r).idxOf n⟩]).wire r = A ++ (ks ++ [c'.nid + 1]) ++ n :: B := by
    have := insertAt_wire_of_mem c' (Op.base1 g r) [⟨r, (c'.wire r).idxOf n⟩] hes ⟨r, (c'.wire r).idxOf n⟩ (List.mem_singleton.mpr rfl)
    simp only at this
    rw [this, hidx, hwire, ins_at_length]
    simp
  refine ⟨?_, ?_, ?_, ?_, ?_, hw', ?_, ?_, ?_, ?_⟩
  · refine WF_insertAt c' _ _ hwf hes ?_ ?_ ?_ ?_
    · intro e he; simp only [List.mem_singleton] at he; subst he; exact hrv.1
    · intro r' _; simp [Op.base1]
    · intro i hi
      simp only [List.map_cons, List.map_nil, List.mem_singleton] at hi
      exact absurd (by rw [← hi]) hrv.2
    · intro r' hr'
      simp only [Op.base1, List.mem_singleton] at hr'
      subst hr'; exact hrv
  · rw [insertAt_ne]; exact hne
  · rw [insertAt_np]; exact hnp
  · rw [insertAt_nc]; exact hnc
  · rw [insertAt_node, if_neg (by omega)]; exact hnoden
  · intro r' hr'
    rw [insertAt_wire_of_not_mem c' _ _ r' (by simpa using hr')]
    exact hother r' hr'
  · intro m hm
    rw [insertAt_node, if_neg (by omega)]
    exact hold m hm
  · rw [insertAt_nid]; omega
  · rw [F_append, dropI_append, List.map_append]
    congr 1
    · rw [← hfks]
      apply F_congr
      intro m hm
      have : m ∈ c'.wire r := by rw [hwire]; simp [hm]
      have := hwf.wire_le this
      rw [insertAt_node, if_neg (by omega)]
    · rw [F_single_some _ _ (Op.base1 g r) (by rw [insertAt_node, if_pos rfl])]
      rfl

theorem unwrap_fold (c : Circuit) (n : Nat) (r : Reg) (opn : Op) (A B : List Nat) (hq : opn.q = [r]) (gl : List G1)
    (c' : Circuit) (ks : List Nat) (done : List G1) (h : UnwrapInv c c' n r opn A B ks done) :
    ∃ ks', UnwrapInv c (gl.foldl (fun c'' g => c''.insertAt (Op.base1 g r) [⟨r, (c''.wire r).idxOf n⟩]) c')
      n r opn A B ks' (done ++ gl) := by
  induction gl generalizing c' ks done with
  | nil => exact ⟨ks, by simpa using h⟩
  | cons g gl ih =>
    simp only [List.foldl_cons]
    obtain ⟨ks', h'⟩ := ih _ _ _ (unwrap_step c c' n r opn A B ks done g hq h)
    exact ⟨ks', by simpa using h'⟩

theorem filter_ne_of_not_mem (l : List Nat) (n : Nat) (h : n ∉ l) : l.filter (fun m => m ≠ n) = l := by
  rw [List.filter_eq_self]
  intro m hm
  simp only [ne_eq, decide_not, Bool.not_eq_eq_eq_not, Bool.not_true, decide_eq_false_iff_not]
  rintro rfl
  exact h hm

/-- unwrapping one wrapper node keeps well-formedness and `flat` -/
theorem unwrapNode_spec (c : Circuit) (n : Nat) (hwf : c.WF) : (c.unwrapNode n).WF ∧ (c.unwrapNode n).flat = c.flat := by
  unfold Circuit.unwrapNode
  split
  · rename_i gs r cr fx hnode
    obtain ⟨A, B, hAB⟩ := List.append_of_mem ((hwf.qwire n _ hnode r (hwf.qvalid n _ hnode r (List.mem_singleton.mpr rfl)).2).mpr
      (List.mem_singleton.mpr rfl))
    have h0 : UnwrapInv c c n r ⟨.wrapper gs, [r], cr, fx⟩ A B [] [] :=
      ⟨hwf, rfl, rfl, rfl, hnode, by simpa using hAB, fun _ _ => rfl, fun _ _ => rfl, Nat.le_refl _, rfl⟩
    obtain ⟨ks, hinv⟩ := unwrap_fold c n r _ A B rfl (unwrapList gs) c [] [] h0
    simp only [List.nil_append] at hinv
    generalize (unwrapList gs).foldl (fun c'' g => c''.insertAt (Op.base1 g r) [⟨r, (c''.wire r).idxOf n⟩]) c = c' at hinv
    obtain ⟨hwf', hne, hnp, hnc, hnoden, hwire, hother, hold, hnid, hfks⟩ := hinv
    refine ⟨WF_removeOp c' n hwf', ?_⟩
    refine flat_eq_of hne hnp hnc (fun r' hr' => ?_)
    rw [flatWire_eq_F, flatWire_eq_F]
    have hnd := hwf'.nodup r
    rw [hwire] at hnd
    obtain ⟨hn1, hn2⟩ := not_mem_of_nodup_middle hnd
    have holdF : ∀ l : List Nat, (∀ m, m ∈ l → m ≤ c.nid ∧ m ≠ n) → (c'.removeOp n).F l = c.F l := by
      intro l hl
      apply F_congr
      intro m hm
      rw [removeOp_node, if_neg (hl m hm).2]
      exact hold m (hl m hm).1
    by_cases hrr : r' = r
    · subst hrr
      have hw : (c'.removeOp n).wire r' = A ++ ks ++ B := by
        show (c'.wire r').filter (fun m => m ≠ n) = _
        rw [hwire, List.filter_append, List.filter_cons_of_neg (by simp), filter_ne_of_not_mem _ n hn1,
          filter_ne_of_not_mem _ n hn2]
      rw [hw, hAB, F_append, F_append, F_append, F_cons c n B, F_single_some c n _ hnode]
      have hA : ∀ m, m ∈ A → m ≤ c.nid ∧ m ≠ n := fun m hm =>
        ⟨hwf.wire_le (by rw [hAB]; simp [hm]), fun h => hn1 (by rw [← h]; simp [hm])⟩
      have hB : ∀ m, m ∈ B → m ≤ c.nid ∧ m ≠ n := fun m hm =>
        ⟨hwf.wire_le (by rw [hAB]; simp [hm]), fun h => hn2 (by rw [← h]; exact hm)⟩
      have : (c'.removeOp n).F ks = c'.F ks := by
        apply F_congr
        intro m hm
        rw [removeOp_node, if_neg (fun h => hn1 (by rw [← h]; simp [hm]))]
      rw [holdF A hA, holdF B hB, this, hfks, List.append_assoc]
      rfl
    · have hnotin : n ∉ c.wire r' := by
        intro h
        have := (hwf.qwire n _ hnode r' (qregs_ty c r' hr')).mp h
        simp only [List.mem_singleton] at this
        exact hrr this
      have hw : (c'.removeOp n).wire r' = c.wire r' := by
        show (c'.wire r').filter (fun m => m ≠ n) = _
        rw [hother r' hrr, filter_ne_of_not_mem _ n hnotin]
      rw [hw]
      exact holdF _ (fun m hm => ⟨hwf.wire_le hm, fun h => hnotin (h ▸ hm)⟩)
  · exact ⟨hwf, rfl⟩

/-- `flat (unwrap_nodes c) = flat c`, whatever the iteration order of `node_dict["OneQubitGateWrapper"]` -/
theorem flat_unwrapNodes (c : Circuit) (order : List Nat) (hwf : c.WF) :
    (c.unwrapNodes order).WF ∧ (c.unwrapNodes order).flat = c.flat := by
  unfold Circuit.unwrapNodes
  induction order generalizing c with
  | nil => exact ⟨hwf, rfl⟩
  | cons n order ih =>
    simp only [List.foldl_cons]
    obtain ⟨h1, h2⟩ := unwrapNode_spec c n hwf
    obtain ⟨h3, h4⟩ := ih (c.unwrapNode n) h1
    exact ⟨h3, by rw [h4, h2]⟩

/-! ### group_one_qubit_gates -/

def gStep1 (s : GroupSt) (n : Nat) : GroupSt :=
  if s.c.groupable n then
    { c := s.c.removeOp n, gates := s.gates ++ (match s.c.node n with
        | some op => groupGates op.kind
        | none => []) }
  else s

def nextIsOne (c : Circuit) (rest : List Nat) : Bool :=
  match rest with
  | m :: _ => c.groupable m
  | [] => false

def insPos (c : Circuit) (r : Reg) (rest : List Nat) : Nat :=
  match rest with
  | m :: _ => (c.wire r).idxOf m + 1
  | [] => 0

def gStep2 (r : Reg) (rest : List Nat) (s1 : GroupSt) : GroupSt :=
  if !nextIsOne s1.c rest && !s1.gates.isEmpty then
    { c := s1.c.insertAt ⟨.wrapper s1.gates, [r], [], false⟩ [⟨r, insPos s1.c r rest⟩], gates := [] }
  else s1

theorem groupWalk_cons (r : Reg) (n : Nat) (rest : List Nat) (s : GroupSt) :
    groupWalk r (n :: rest) s = groupWalk r rest (gStep2 r rest (gStep1 s n)) := rfl

theorem groupWalk_nil (r : Reg) (s : GroupSt) : groupWalk r [] s = s := rfl

def pend (gates : List G1) : List Item := (dropI (unwrapList gates)).map Item.g

theorem pend_append (a b : List G1) : pend (a ++ b) = pend b ++ pend a := by
  simp [pend, unwrapList, dropI_append]

theorem pend_nil : pend [] = [] := rfl

/-- one-qubit gates (wrappers and base gates) act on one register and have no classical register -/
def Circuit.Arity1 (c : Circuit) : Prop :=
  ∀ n op, c.node n = some op → op.kind.isGate1 = true → (∃ r, op.q = [r]) ∧ op.cr = []

structure GInv (c0 : Circuit) (r : Reg) (rest : List Nat) (s : GroupSt) : Prop where
  wf : s.c.WF
  ar : s.c.Arity1
  hne : s.c.ne = c0.ne
  hnp : s.c.np = c0.np
  hnc : s.c.nc = c0.nc
  split : ∃ S, s.c.wire r = rest.reverse ++ S ∧ c0.F (c0.wire r) = s.c.F rest.reverse ++ pend s.gates ++ s.c.F S
  others : ∀ r', r' ∈ c0.qregs → r' ≠ r → s.c.F (s.c.wire r') = c0.F (c0.wire r')
  pendOk : s.gates ≠ [] → ∃ m rest', rest = m :: rest' ∧ s.c.groupable m = true

/-- the facts after the first half of an iteration (the node has been collected, nothing inserted yet) -/
structure GInv1 (c0 : Circuit) (r : Reg) (rest : List Nat) (s1 : GroupSt) : Prop where
  wf : s1.c.WF
  ar : s1.c.Arity1
  hne : s1.c.ne = c0.ne
  hnp : s1.c.np = c0.np
  hnc : s1.c.nc = c0.nc
  split : ∃ S, s1.c.wire r = rest.reverse ++ S ∧ c0.F (c0.wire r) = s1.c.F rest.reverse ++ pend s1.gates ++ s1.c.F S
  others : ∀ r', r' ∈ c0.qregs → r' ≠ r → s1.c.F (s1.c.wire r') = c0.F (c0.wire r')

theorem Arity1_removeOp (c : Circuit) (n : Nat) (h : c.Arity1) : (c.removeOp n).Arity1 := by
  intro m op hm hl
  rw [removeOp_node] at hm
  by_cases hmn : m = n
  · rw [if_pos hmn] at hm; cases hm
  · rw [if_neg hmn] at hm; exact h m op hm hl

theorem flatOp_eq_pend (op : Op) (h : op.kind.isGate1 = true) : flatOp op = pend (groupGates op.kind) := by
  cases hk : op.kind <;> simp [hk, Kind.isGate1] at h
  · simp [flatOp, hk, pend, groupGates]
  · simp [flatOp, hk, pend, groupGates, unwrapList]

theorem gStep1_inv (c0 : Circuit) (r : Reg) (n : Nat) (rest : List Nat) (s : GroupSt) (hr : r ∈ c0.qregs)
    (h : GInv c0 r (n :: rest) s) : GInv1 c0 r rest (gStep1 s n) := by
  obtain ⟨hwf, har, hne, hnp, hnc, ⟨S, hwire, hF⟩, hothers, hpend⟩ := h
  have hrty : r.ty ≠ .c := qregs_ty c0 r hr
  have hwire' : s.c.wire r = rest.reverse ++ n :: S := by rw [hwire]; simp
  have hnd := hwf.nodup r
  rw [hwire'] at hnd
  obtain ⟨hn1, hn2⟩ := not_mem_of_nodup_middle hnd
  unfold gStep1
  split
  · rename_i hlab
    unfold Circuit.groupable at hlab
    cases hnode : s.c.node n with
    | none => simp [hnode] at hlab
    | some op =>
      simp only [hnode] at hlab ⊢
      obtain ⟨⟨r0, hq0⟩, _⟩ := har n op hnode hlab
      have hr0 : r0 = r := by
        have := (hwf.qwire n op hnode r hrty).mp (by rw [hwire']; simp)
        rw [hq0, List.mem_singleton] at this
        exact this.symm
      have hnodes : ∀ l : List Nat, n ∉ l → (s.c.removeOp n).F l = s.c.F l := by
        intro l hl
        apply F_congr
        intro m hm
        rw [removeOp_node, if_neg (fun (h : m = n) => hl (h ▸ hm))]
      refine ⟨WF_removeOp _ n hwf, Arity1_removeOp _ n har, hne, hnp, hnc, ⟨S, ?_, ?_⟩, ?_⟩
      · show (s.c.wire r).filter (fun m => m ≠ n) = _
        rw [hwire', List.filter_append, List.filter_cons_of_neg (by simp), filter_ne_of_not_mem _ n hn1,
          filter_ne_of_not_mem _ n hn2]
      · show _ = (s.c.removeOp n).F rest.reverse ++ pend (s.gates ++ groupGates op.kind) ++ (s.c.removeOp n).F S
        rw [hnodes _ hn1, hnodes _ hn2, hF, pend_append, List.reverse_cons, F_append, F_single_some _ n op hnode,
          flatOp_eq_pend op hlab]
        simp [List.append_assoc]
      · intro r' hr' hne'
        have hnot : n ∉ s.c.wire r' := by
          intro hin
          have := (hwf.qwire n op hnode r' (qregs_ty c0 r' hr')).mp hin
          rw [hq0, List.mem_singleton, hr0] at this
          exact hne' this
        have : (s.c.removeOp n).wire r' = s.c.wire r' := filter_ne_of_not_mem _ n hnot
        rw [this, hnodes _ hnot]
        exact hothers r' hr' hne'
  · rename_i hlab
    have hg : s.gates = [] := by
      cases hgs : s.gates with
      | nil => rfl
      | cons g gs =>
        obtain ⟨m, rest', hm, hl⟩ := hpend (by rw [hgs]; simp)
        cases hm
        exact absurd hl hlab
    refine ⟨hwf, har, hne, hnp, hnc, ⟨n :: S, hwire', ?_⟩, hothers⟩
    rw [hF, hg, List.reverse_cons, F_append, F_cons s.c n S]
    simp [pend_nil, List.append_assoc]

theorem Arity1_insertAt (c : Circuit) (op : Op) (es : List Edge) (h : c.Arity1)
    (hop : op.kind.isGate1 = true → (∃ r, op.q = [r]) ∧ op.cr = []) :
    (c.insertAt op es).Arity1 := by
  intro m op' hm hl
  rw [insertAt_node] at hm
  by_cases hmk : m = c.nid + 1
  · rw [if_pos hmk] at hm; cases hm; exact hop hl
  · rw [if_neg hmk] at hm; exact h m op' hm hl

theorem gStep2_inv (c0 : Circuit) (r : Reg) (rest : List Nat) (s1 : GroupSt) (hr : r ∈ c0.qregs)
    (h : GInv1 c0 r rest s1) : GInv c0 r rest (gStep2 r rest s1) := by
  obtain ⟨hwf, har, hne, hnp, hnc, ⟨S, hwire, hF⟩, hothers⟩ := h
  have hrq := (mem_qregs c0 r).mp hr
  have hrv : s1.c.validReg r = true := by rw [validReg_congr hne hnp hnc]; exact hrq.1
  by_cases hflush : (!nextIsOne s1.c rest && !s1.gates.isEmpty) = true
  · rw [gStep2, if_pos hflush]
    simp only [Bool.and_eq_true, Bool.not_eq_true', List.isEmpty_eq_false_iff] at hflush
    -- the insertion position is right after the unprocessed part
    have hpos : insPos s1.c r rest = rest.reverse.length := by
      cases rest with
      | nil => rfl
      | cons m rest' =>
        simp only [insPos, List.reverse_cons, List.length_append, List.length_reverse, List.length_singleton]
        have hnd := hwf.nodup r
        rw [hwire, List.reverse_cons, List.append_assoc] at hnd
        have hm := (not_mem_of_nodup_middle (X := rest'.reverse) (B := S) (by simpa using hnd)).1
        rw [hwire, List.reverse_cons, List.append_assoc, List.idxOf_append, if_neg hm]
        simp
    rw [hpos]
    have hes : (([⟨r, rest.reverse.length⟩] : List Edge).map (·.r)).Nodup := by simp
    have hk : ∀ l : List Nat, (∀ m, m ∈ l → m ∈ s1.c.wire r ∨ ∃ r', m ∈ s1.c.wire r') →
        (s1.c.insertAt ⟨.wrapper s1.gates, [r], [], false⟩ [⟨r, rest.reverse.length⟩]).F l = s1.c.F l := by
      intro l hl
      apply F_congr
      intro m hm
      have hle : m ≤ s1.c.nid := by
        rcases hl m hm with h | ⟨r', h⟩
        · exact hwf.wire_le h
        · exact hwf.wire_le h
      rw [insertAt_node, if_neg (by omega)]
    have hw' : (s1.c.insertAt ⟨.wrapper s1.gates, [r], [], false⟩ [⟨r, rest.reverse.length⟩]).wire r =
        rest.reverse ++ (s1.c.nid + 1) :: S := by
      have := insertAt_wire_of_mem s1.c ⟨.wrapper s1.gates, [r], [], false⟩ [⟨r, rest.reverse.length⟩] hes
        ⟨r, rest.reverse.length⟩ (List.mem_singleton.mpr rfl)
      simp only at this
      rw [this, hwire, ins_at_length]
    refine ⟨?_, ?_, ?_, ?_, ?_, ⟨(s1.c.nid + 1) :: S, hw', ?_⟩, ?_, ?_⟩
    · refine WF_insertAt s1.c _ _ hwf hes ?_ ?_ ?_ ?_
      · intro e he; simp only [List.mem_singleton] at he; subst he; exact hrv
      · intro r' _; simp
      · intro i hi
        simp only [List.map_cons, List.map_nil, List.mem_singleton] at hi
        exact absurd (by rw [← hi]) hrq.2
      · intro r' hr'
        simp only [List.mem_singleton] at hr'
        subst hr'; exact ⟨hrv, hrq.2⟩
    · exact Arity1_insertAt s1.c _ _ har (fun _ => ⟨⟨r, rfl⟩, rfl⟩)
    · rw [insertAt_ne]; exact hne
    · rw [insertAt_np]; exact hnp
    · rw [insertAt_nc]; exact hnc
    · show _ = _ ++ pend [] ++ _
      rw [F_cons _ (s1.c.nid + 1) S, F_single_some _ _ _ (by rw [insertAt_node, if_pos rfl]),
        hk rest.reverse (fun m hm => Or.inl (by rw [hwire]; exact List.mem_append_left _ hm)),
        hk S (fun m hm => Or.inl (by rw [hwire]; exact List.mem_append_right _ hm)), hF]
      simp [pend, flatOp, List.append_assoc, unwrapList, dropI]
    · intro r' hr' hne'
      rw [insertAt_wire_of_not_mem s1.c _ _ r' (by simpa using hne'), hk _ (fun m hm => Or.inr ⟨r', hm⟩)]
      exact hothers r' hr' hne'
    · intro h; exact absurd rfl h
  · rw [gStep2, if_neg hflush]
    refine ⟨hwf, har, hne, hnp, hnc, ⟨S, hwire, hF⟩, hothers, ?_⟩
    intro hg
    cases rest with
    | nil => simp [nextIsOne, hg] at hflush
    | cons m rest' =>
      refine ⟨m, rest', rfl, ?_⟩
      simp only [nextIsOne, Bool.and_eq_true, Bool.not_eq_true', List.isEmpty_eq_false_iff, not_and] at hflush
      cases hl : s1.c.groupable m with
      | true => rfl
      | false => exact absurd (hflush hl) (by simpa using hg)

/-- the walk over one quantum register keeps the invariant -/
theorem groupWalk_inv (c0 : Circuit) (r : Reg) (hr : r ∈ c0.qregs) (rest : List Nat) (s : GroupSt)
    (h : GInv c0 r rest s) : GInv c0 r [] (groupWalk r rest s) := by
  induction rest generalizing s with
  | nil => exact h
  | cons n rest ih =>
    rw [groupWalk_cons]
    exact ih _ (gStep2_inv c0 r rest _ hr (gStep1_inv c0 r n rest s hr h))

/-- on a classical wire nothing is groupable (a one-qubit gate has no classical register): the walk changes nothing -/
theorem groupWalk_classical (r : Reg) (hty : r.ty = .c) (rest : List Nat) (s : GroupSt) (hwf : s.c.WF) (har : s.c.Arity1)
    (hg : s.gates = []) (hrest : ∀ m, m ∈ rest → m ∈ s.c.wire r) : groupWalk r rest s = s := by
  induction rest generalizing s with
  | nil => rfl
  | cons n rest ih =>
    rw [groupWalk_cons]
    have h1 : gStep1 s n = s := by
      unfold gStep1
      split
      · rename_i hlab
        unfold Circuit.groupable at hlab
        cases hnode : s.c.node n with
        | none => simp [hnode] at hlab
        | some op =>
          simp only [hnode] at hlab
          have hin : n ∈ s.c.wire ⟨.c, r.idx⟩ := by
            have := hrest n List.mem_cons_self
            rcases r with ⟨ty, i⟩
            simp only at hty
            subst hty
            exact this
          have hcr := hwf.cwire n op hnode r.idx hin
          rw [(har n op hnode hlab).2] at hcr
          cases hcr
      · rfl
    have h2 : gStep2 r rest s = s := by
      unfold gStep2
      rw [hg]
      simp
    rw [h1, h2]
    exact ih s hwf har hg (fun m hm => hrest m (List.mem_cons_of_mem _ hm))

/-- the walk over one register (any register) keeps well-formedness and `flat` -/
theorem groupWalk_reg (r : Reg) (s : GroupSt) (hwf : s.c.WF) (har : s.c.Arity1) :
    (groupWalk r (s.c.wire r).reverse { s with gates := [] }).c.WF ∧
    (groupWalk r (s.c.wire r).reverse { s with gates := [] }).c.Arity1 ∧
    (groupWalk r (s.c.wire r).reverse { s with gates := [] }).c.flat = s.c.flat := by
  by_cases hty : r.ty = .c
  · rw [groupWalk_classical r hty _ { s with gates := [] } hwf har rfl (fun m hm => by simpa using hm)]
    exact ⟨hwf, har, rfl⟩
  · by_cases hv : s.c.validReg r = true
    · have hr : r ∈ s.c.qregs := (mem_qregs s.c r).mpr ⟨hv, hty⟩
      have h0 : GInv s.c r (s.c.wire r).reverse { s with gates := [] } :=
        ⟨hwf, har, rfl, rfl, rfl, ⟨[], by simp, by simp [pend_nil, F_nil]⟩, fun _ _ _ => rfl, fun h => absurd rfl h⟩
      have hinv := groupWalk_inv s.c r hr _ _ h0
      obtain ⟨hwf', har', hne, hnp, hnc, ⟨S, hwire, hF⟩, hothers, hpend⟩ := hinv
      refine ⟨hwf', har', flat_eq_of hne hnp hnc (fun r' hr' => ?_)⟩
      rw [flatWire_eq_F, flatWire_eq_F]
      by_cases hrr : r' = r
      · subst hrr
        have hg : (groupWalk r' (s.c.wire r').reverse { s with gates := [] }).gates = [] := by
          cases hgs : (groupWalk r' (s.c.wire r').reverse { s with gates := [] }).gates with
          | nil => rfl
          | cons g gs =>
            obtain ⟨m, rest', hm, _⟩ := hpend (by rw [hgs]; simp)
            cases hm
        rw [hF, hg, hwire]
        simp [pend_nil, F_nil]
      · exact hothers r' hr' hrr
    · have hw : s.c.wire r = [] := hwf.invalidEmpty r (by simpa using hv)
      rw [hw]
      exact ⟨hwf, har, rfl⟩

theorem group_fold (order : List Reg) (s : GroupSt) (hwf : s.c.WF) (har : s.c.Arity1) :
    (order.foldl (fun s r => groupWalk r (s.c.wire r).reverse { s with gates := [] }) s).c.WF ∧
    (order.foldl (fun s r => groupWalk r (s.c.wire r).reverse { s with gates := [] }) s).c.Arity1 ∧
    (order.foldl (fun s r => groupWalk r (s.c.wire r).reverse { s with gates := [] }) s).c.flat = s.c.flat := by
  induction order generalizing s with
  | nil => exact ⟨hwf, har, rfl⟩
  | cons r order ih =>
    simp only [List.foldl_cons]
    obtain ⟨h1, h2, h3⟩ := groupWalk_reg r s hwf har
    obtain ⟨h4, h5, h6⟩ := ih _ h1 h2
    exact ⟨h4, h5, by rw [h6, h3]⟩

/-- `flat (group_one_qubit_gates c) = flat c`, whatever the register order (a `MeasurementZ` is a boundary) -/
theorem flat_groupOneQubitGates (c : Circuit) (order : List Reg) (hwf : c.WF) (har : c.Arity1) :
    (c.groupOneQubitGates order).WF ∧ (c.groupOneQubitGates order).Arity1 ∧ (c.groupOneQubitGates order).flat = c.flat :=
  group_fold order ⟨c, []⟩ hwf har

/-! ## 7. the denotation of a circuit factors through `flat` -/

section Trace
variable {ι σ : Type} (regs : ι → List Reg) (app : ι → σ → σ)

/-- run a sequence of operations, first element first -/
def runSeq (l : List ι) (s : σ) : σ := l.foldl (fun s a => app a s) s

/-- the operations of `l` acting on register `r`, in order -/
def projReg [DecidableEq Reg] (r : Reg) (l : List ι) : List ι := l.filter fun a => decide (r ∈ regs a)

theorem runSeq_append (l1 l2 : List ι) (s : σ) : runSeq app (l1 ++ l2) s = runSeq app l2 (runSeq app l1 s) := by
  simp [runSeq, List.foldl_append]

theorem runSeq_cons (a : ι) (l : List ι) (s : σ) : runSeq app (a :: l) s = runSeq app l (app a s) := rfl

theorem exists_first_occurrence [DecidableEq ι] {a : ι} {l : List ι} (h : a ∈ l) : ∃ pre post, l = pre ++ a :: post ∧ a ∉ pre := by
  induction l with
  | nil => cases h
  | cons b l ih =>
    by_cases hb : b = a
    · exact ⟨[], l, by rw [hb]; rfl, by simp⟩
    · rcases List.mem_cons.mp h with h | h
      · exact absurd h.symm hb
      · obtain ⟨pre, post, hl, hn⟩ := ih h
        exact ⟨b :: pre, post, by rw [hl]; rfl, by simp [hn, Ne.symm hb]⟩

/-- an operation commutes past a block of operations on other registers -/
theorem commute_past (hcomm : ∀ a b, (∀ r, r ∈ regs a → r ∉ regs b) → ∀ s, app a (app b s) = app b (app a s))
    (a : ι) (pre : List ι) (hind : ∀ b, b ∈ pre → ∀ r, r ∈ regs a → r ∉ regs b) (s : σ) :
    app a (runSeq app pre s) = runSeq app pre (app a s) := by
  induction pre generalizing s with
  | nil => rfl
  | cons b pre ih =>
    rw [runSeq_cons, runSeq_cons, ih (fun c hc => hind c (List.mem_cons_of_mem _ hc)),
      hcomm a b (hind b List.mem_cons_self)]

/-- **two sequences with the same per-register subsequences compute the same state**, provided operations on disjoint
    register sets commute (every operation acts on at least one register) -/
theorem runSeq_eq_of_proj_eq [DecidableEq ι]
    (hcomm : ∀ a b, (∀ r, r ∈ regs a → r ∉ regs b) → ∀ s, app a (app b s) = app b (app a s))
    (l1 l2 : List ι) (hne1 : ∀ a, a ∈ l1 → regs a ≠ []) (hne2 : ∀ a, a ∈ l2 → regs a ≠ [])
    (h : ∀ r, projReg regs r l1 = projReg regs r l2) (s : σ) : runSeq app l1 s = runSeq app l2 s := by
  induction l1 generalizing l2 s with
  | nil =>
    cases l2 with
    | nil => rfl
    | cons b l2 =>
      exfalso
      obtain ⟨r, hr⟩ := List.exists_mem_of_ne_nil _ (hne2 b List.mem_cons_self)
      have := h r
      simp [projReg, hr] at this
  | cons a l1 ih =>
    obtain ⟨r0, hr0⟩ := List.exists_mem_of_ne_nil _ (hne1 a List.mem_cons_self)
    have ha2 : a ∈ l2 := by
      have := h r0
      have hmem : a ∈ projReg regs r0 (a :: l1) := by simp [projReg, hr0]
      rw [this] at hmem
      exact (List.mem_filter.mp hmem).1
    obtain ⟨pre, post, hl2, hnpre⟩ := exists_first_occurrence ha2
    -- every operation before the first occurrence of `a` in `l2` is independent of `a`
    have hind : ∀ b, b ∈ pre → ∀ r, r ∈ regs a → r ∉ regs b := by
      intro b hb r hra hrb
      have := h r
      rw [hl2] at this
      simp only [projReg, List.filter_append, List.filter_cons, hra, decide_true, if_true] at this
      have hbm : b ∈ pre.filter (fun x => decide (r ∈ regs x)) := List.mem_filter.mpr ⟨hb, by simpa using hrb⟩
      cases hf : pre.filter (fun x => decide (r ∈ regs x)) with
      | nil => rw [hf] at hbm; cases hbm
      | cons x xs =>
        rw [hf] at this
        simp only [List.cons_append, List.cons.injEq] at this
        have hx : x ∈ pre := (List.mem_filter.mp (by rw [hf]; exact List.mem_cons_self)).1
        exact hnpre (this.1 ▸ hx)
    have hproj : ∀ r, projReg regs r l1 = projReg regs r (pre ++ post) := by
      intro r
      have := h r
      rw [hl2] at this
      simp only [projReg, List.filter_append, List.filter_cons] at this ⊢
      by_cases hra : r ∈ regs a
      · have hpre : pre.filter (fun x => decide (r ∈ regs x)) = [] := by
          rw [List.filter_eq_nil_iff]
          intro b hb
          simpa using hind b hb r hra
        simp only [hra, decide_true, if_true, hpre, List.nil_append, List.cons.injEq, true_and] at this
        rw [hpre, this]; rfl
      · simpa [hra] using this
    rw [hl2, runSeq_cons, runSeq_append, runSeq_cons, commute_past regs app hcomm a pre hind, ← runSeq_append]
    exact ih (pre ++ post) (fun b hb => hne1 b (List.mem_cons_of_mem _ hb))
      (fun b hb => hne2 b (by rw [hl2]; rcases List.mem_append.mp hb with h | h
                              · exact List.mem_append_left _ h
                              · exact List.mem_append_right _ (List.mem_cons_of_mem _ h))) hproj (app a s)

end Trace


/-- an operation of the compile sequence: what it is and the quantum registers it acts on -/
structure SOp where
  item : Item
  regs : List Reg
  deriving DecidableEq

def itemRegs (r : Reg) : Item → List Reg
  | .g _ => [r]
  | .node _ q _ => q

def sopsOfOp (op : Op) : List SOp := (flatOp op).map fun it => ⟨it, op.q⟩

def Circuit.sopsOfNode (c : Circuit) (n : Nat) : List SOp :=
  match c.node n with
  | some op => sopsOfOp op
  | none => []

/-- the compile sequence `sequence(unwrapped=True)` along the node order `seq`: wrappers expanded in application
    order, identities (no-ops of both compilers) dropped -/
def Circuit.sops (c : Circuit) (seq : List Nat) : List SOp := seq.flatMap c.sopsOfNode

/-- every operation acts on at least one quantum register -/
def Circuit.QNonempty (c : Circuit) : Prop := ∀ n op, c.node n = some op → op.q ≠ []

theorem sops_regs {c : Circuit} {n : Nat} {op : Op} (h : c.node n = some op) {x : SOp} (hx : x ∈ c.sopsOfNode n) :
    x.regs = op.q := by
  simp only [Circuit.sopsOfNode, h, sopsOfOp, List.mem_map] at hx
  obtain ⟨it, _, rfl⟩ := hx
  rfl

theorem filter_flatMap {α β : Type} (p : β → Bool) (f : α → List β) (l : List α) :
    (l.flatMap f).filter p = l.flatMap fun a => (f a).filter p := by
  induction l with
  | nil => rfl
  | cons a l ih => simp [List.flatMap_cons, List.filter_append, ih]

theorem flatMap_congr' {α β : Type} {f g : α → List β} {l : List α} (h : ∀ a, a ∈ l → f a = g a) :
    l.flatMap f = l.flatMap g := by
  induction l with
  | nil => rfl
  | cons a l ih =>
    rw [List.flatMap_cons, List.flatMap_cons, h a List.mem_cons_self, ih (fun b hb => h b (List.mem_cons_of_mem _ hb))]

theorem flatMap_filter_eq {α β : Type} (q : α → Bool) (f : α → List β) (l : List α)
    (h : ∀ a, a ∈ l → q a = false → f a = []) : l.flatMap f = (l.filter q).flatMap f := by
  induction l with
  | nil => rfl
  | cons a l ih =>
    rw [List.flatMap_cons, ih (fun b hb => h b (List.mem_cons_of_mem _ hb))]
    cases hq : q a with
    | true => rw [List.filter_cons_of_pos (by simpa using hq), List.flatMap_cons]
    | false => rw [List.filter_cons_of_neg (by simp [hq]), h a List.mem_cons_self hq]; rfl

/-- the operations of the compile sequence on register `r` are the flattened wire `r` -/
theorem proj_sops (c : Circuit) (hwf : c.WF) (har : c.Arity1) (seq : List Nat) (hlin : c.isLinearExtension seq = true)
    (r : Reg) (hr : r ∈ c.qregs) :
    projReg SOp.regs r (c.sops seq) = (c.flatWire r).map fun it => ⟨it, itemRegs r it⟩ := by
  have hrty := qregs_ty c r hr
  simp only [Circuit.isLinearExtension, Bool.and_eq_true, List.all_eq_true, decide_eq_true_eq] at hlin
  obtain ⟨⟨⟨_, hsome⟩, _⟩, hwires⟩ := hlin
  have hrw := hwires r ((mem_regs_iff c r).mpr ((mem_qregs c r).mp hr).1)
  -- per node: all of its operations when it lies on `r`, none otherwise
  have hnode : ∀ n, n ∈ seq → (c.sopsOfNode n).filter (fun a => decide (r ∈ a.regs)) =
      if n ∈ c.wire r then c.sopsOfNode n else [] := by
    intro n hn
    have := hsome n hn
    cases hop : c.node n with
    | none => rw [hop] at this; cases this
    | some op =>
      have hq := hwf.qwire n op hop r hrty
      split
      · rename_i hin
        rw [List.filter_eq_self]
        intro x hx
        rw [sops_regs hop hx]
        simpa using hq.mp hin
      · rename_i hin
        rw [List.filter_eq_nil_iff]
        intro x hx
        rw [sops_regs hop hx]
        simpa using fun h => hin (hq.mpr h)
  unfold projReg Circuit.sops
  rw [filter_flatMap]
  have h1 : seq.flatMap (fun a => (c.sopsOfNode a).filter fun a => decide (r ∈ a.regs)) =
      seq.flatMap (fun n => if n ∈ c.wire r then c.sopsOfNode n else []) :=
    flatMap_congr' hnode
  rw [h1, flatMap_filter_eq (fun n => decide (n ∈ c.wire r)) _ seq (fun n _ hq => by simp only [decide_eq_false_iff_not] at hq; rw [if_neg hq]), hrw]
  -- now along the wire
  have h2 : ∀ n, n ∈ c.wire r → (if n ∈ c.wire r then c.sopsOfNode n else []) =
      (c.F [n]).map fun it => ⟨it, itemRegs r it⟩ := by
    intro n hn
    rw [if_pos hn]
    have := hwf.onNode r n hn
    cases hop : c.node n with
    | none => rw [hop] at this; cases this
    | some op =>
      rw [F_single_some c n op hop]
      simp only [Circuit.sopsOfNode, hop, sopsOfOp]
      apply List.map_congr_left
      intro it hit
      have hrq : r ∈ op.q := (hwf.qwire n op hop r hrty).mp hn
      cases hk : op.kind with
      | wrapper gs =>
        obtain ⟨⟨r0, hq0⟩, _⟩ := har n op hop (by rw [hk]; rfl)
        rw [hq0, List.mem_singleton] at hrq
        simp only [flatOp, hk, List.mem_map] at hit
        obtain ⟨g, _, rfl⟩ := hit
        simp [itemRegs, hq0, hrq]
      | base g =>
        obtain ⟨⟨r0, hq0⟩, _⟩ := har n op hop (by rw [hk]; rfl)
        rw [hq0, List.mem_singleton] at hrq
        simp only [flatOp, hk, List.mem_map] at hit
        obtain ⟨g', _, rfl⟩ := hit
        simp [itemRegs, hq0, hrq]
      | measZ => simp only [flatOp, hk, List.mem_singleton] at hit; subst hit; rfl
      | cnot => simp only [flatOp, hk, List.mem_singleton] at hit; subst hit; rfl
      | cz => simp only [flatOp, hk, List.mem_singleton] at hit; subst hit; rfl
      | ccnot => simp only [flatOp, hk, List.mem_singleton] at hit; subst hit; rfl
      | ccz => simp only [flatOp, hk, List.mem_singleton] at hit; subst hit; rfl
      | mcr => simp only [flatOp, hk, List.mem_singleton] at hit; subst hit; rfl
  rw [flatMap_congr' h2, flatWire_eq_F]
  generalize c.wire r = w
  induction w with
  | nil => rfl
  | cons n w ih => rw [List.flatMap_cons, ih, F_cons c n w, List.map_append]

theorem sops_mem {c : Circuit} {seq : List Nat} {x : SOp} (h : x ∈ c.sops seq) :
    ∃ n op, c.node n = some op ∧ x.regs = op.q := by
  simp only [Circuit.sops, List.mem_flatMap] at h
  obtain ⟨n, _, hx⟩ := h
  cases hop : c.node n with
  | none => simp [Circuit.sopsOfNode, hop] at hx
  | some op => exact ⟨n, op, hop, sops_regs hop hx⟩

/-- **the state a circuit compiles to depends only on `flat`**: two well-formed circuits with the same `flat`, each
    run along any linear extension of its DAG, give the same state — for every semantics `app` of the operations in
    which operations on disjoint quantum registers commute -/
theorem denote_eq_of_flat_eq {σ : Type} (app : SOp → σ → σ)
    (hcomm : ∀ a b : SOp, (∀ r, r ∈ a.regs → r ∉ b.regs) → ∀ s, app a (app b s) = app b (app a s))
    (c1 c2 : Circuit) (hwf1 : c1.WF) (hwf2 : c2.WF) (har1 : c1.Arity1) (har2 : c2.Arity1)
    (hq1 : c1.QNonempty) (hq2 : c2.QNonempty) (seq1 seq2 : List Nat)
    (hl1 : c1.isLinearExtension seq1 = true) (hl2 : c2.isLinearExtension seq2 = true)
    (hflat : c1.flat = c2.flat) (s : σ) :
    runSeq app (c1.sops seq1) s = runSeq app (c2.sops seq2) s := by
  have hcounts : c1.ne = c2.ne ∧ c1.np = c2.np := by
    simp only [Circuit.flat, Prod.mk.injEq] at hflat
    exact ⟨hflat.1, hflat.2.1⟩
  have hqregs : c1.qregs = c2.qregs := by simp [Circuit.qregs, Circuit.regsOf, Circuit.count, hcounts.1, hcounts.2]
  have hwires : ∀ r, r ∈ c1.qregs → c1.flatWire r = c2.flatWire r := by
    simp only [Circuit.flat, Prod.mk.injEq] at hflat
    have := hflat.2.2.2
    rw [← hqregs] at this
    exact fun r hr => List.map_inj_left.mp this r hr
  apply runSeq_eq_of_proj_eq SOp.regs app hcomm
  · intro x hx
    obtain ⟨n, op, hop, hr⟩ := sops_mem hx
    rw [hr]; exact hq1 n op hop
  · intro x hx
    obtain ⟨n, op, hop, hr⟩ := sops_mem hx
    rw [hr]; exact hq2 n op hop
  · intro r
    by_cases hr : r ∈ c1.qregs
    · rw [proj_sops c1 hwf1 har1 seq1 hl1 r hr, proj_sops c2 hwf2 har2 seq2 hl2 r (hqregs ▸ hr), hwires r hr]
    · have hnone : ∀ (c : Circuit), c.WF → c.qregs = c1.qregs → ∀ seq, projReg SOp.regs r (c.sops seq) = [] := by
        intro c hwf hqr seq
        unfold projReg
        rw [List.filter_eq_nil_iff]
        intro x hx
        obtain ⟨n, op, hop, hxr⟩ := sops_mem hx
        rw [hxr]
        simp only [decide_eq_true_eq]
        intro hin
        have := hwf.qvalid n op hop r hin
        exact hr (hqr ▸ (mem_qregs c r).mpr this)
      rw [hnone c1 hwf1 rfl, hnone c2 hwf2 hqregs.symm]

/-! ## 8. node-table predicates are preserved by the rewrites -/

/-- every operation of the circuit satisfies `Q` -/
def Circuit.NodesSat (Q : Op → Prop) (c : Circuit) : Prop := ∀ n op, c.node n = some op → Q op

theorem NodesSat_insertAt {Q : Op → Prop} (c : Circuit) (op : Op) (es : List Edge) (h : c.NodesSat Q) (hop : Q op) :
    (c.insertAt op es).NodesSat Q := by
  intro m op' hm
  rw [insertAt_node] at hm
  by_cases hmk : m = c.nid + 1
  · rw [if_pos hmk] at hm; cases hm; exact hop
  · rw [if_neg hmk] at hm; exact h m op' hm

theorem NodesSat_removeOp {Q : Op → Prop} (c : Circuit) (n : Nat) (h : c.NodesSat Q) : (c.removeOp n).NodesSat Q := by
  intro m op hm
  rw [removeOp_node] at hm
  by_cases hmn : m = n
  · rw [if_pos hmn] at hm; cases hm
  · rw [if_neg hmn] at hm; exact h m op hm

theorem NodesSat_removeIdentity {Q : Op → Prop} (c : Circuit) (order : List Nat) (h : c.NodesSat Q) :
    (c.removeIdentity order).NodesSat Q := by
  unfold Circuit.removeIdentity
  induction order generalizing c with
  | nil => exact h
  | cons n order ih =>
    simp only [List.foldl_cons]
    apply ih
    split
    · exact NodesSat_removeOp c n h
    · exact h

theorem NodesSat_unwrapFold {Q : Op → Prop} (n : Nat) (r : Reg) (gl : List G1) (c : Circuit) (h : c.NodesSat Q)
    (hb : ∀ g r, Q (Op.base1 g r)) :
    (gl.foldl (fun c' g => c'.insertAt (Op.base1 g r) [⟨r, (c'.wire r).idxOf n⟩]) c).NodesSat Q := by
  induction gl generalizing c with
  | nil => exact h
  | cons g gl ih =>
    simp only [List.foldl_cons]
    exact ih _ (NodesSat_insertAt c _ _ h (hb g r))

theorem NodesSat_unwrapNode {Q : Op → Prop} (c : Circuit) (n : Nat) (h : c.NodesSat Q)
    (hb : ∀ g r, Q (Op.base1 g r)) : (c.unwrapNode n).NodesSat Q := by
  unfold Circuit.unwrapNode
  split
  · exact NodesSat_removeOp _ n (NodesSat_unwrapFold n _ _ c h hb)
  · exact h

theorem NodesSat_unwrapNodes {Q : Op → Prop} (c : Circuit) (order : List Nat) (h : c.NodesSat Q)
    (hb : ∀ g r, Q (Op.base1 g r)) : (c.unwrapNodes order).NodesSat Q := by
  unfold Circuit.unwrapNodes
  induction order generalizing c with
  | nil => exact h
  | cons n order ih =>
    simp only [List.foldl_cons]
    exact ih _ (NodesSat_unwrapNode c n h hb)

theorem NodesSat_gStep1 {Q : Op → Prop} (s : GroupSt) (n : Nat) (h : s.c.NodesSat Q) : (gStep1 s n).c.NodesSat Q := by
  unfold gStep1
  split
  · exact NodesSat_removeOp _ n h
  · exact h

theorem NodesSat_gStep2 {Q : Op → Prop} (r : Reg) (rest : List Nat) (s : GroupSt) (h : s.c.NodesSat Q)
    (hw : ∀ gs, gs ≠ [] → Q ⟨.wrapper gs, [r], [], false⟩) : (gStep2 r rest s).c.NodesSat Q := by
  unfold gStep2
  split
  · rename_i hc
    simp only [Bool.and_eq_true, Bool.not_eq_true', List.isEmpty_eq_false_iff] at hc
    exact NodesSat_insertAt _ _ _ h (hw _ hc.2)
  · exact h

theorem NodesSat_groupWalk {Q : Op → Prop} (r : Reg) (rest : List Nat) (s : GroupSt) (h : s.c.NodesSat Q)
    (hw : ∀ gs, gs ≠ [] → Q ⟨.wrapper gs, [r], [], false⟩) : (groupWalk r rest s).c.NodesSat Q := by
  induction rest generalizing s with
  | nil => exact h
  | cons n rest ih =>
    rw [groupWalk_cons]
    exact ih _ (NodesSat_gStep2 r rest _ (NodesSat_gStep1 s n h) hw)

theorem NodesSat_groupFold {Q : Op → Prop} (order : List Reg) (s : GroupSt) (h : s.c.NodesSat Q)
    (hw : ∀ r gs, gs ≠ [] → Q ⟨.wrapper gs, [r], [], false⟩) :
    (order.foldl (fun s r => groupWalk r (s.c.wire r).reverse { s with gates := [] }) s).c.NodesSat Q := by
  induction order generalizing s with
  | nil => exact h
  | cons r order ih =>
    simp only [List.foldl_cons]
    exact ih _ (NodesSat_groupWalk r _ { s with gates := [] } h (hw r))

theorem NodesSat_group {Q : Op → Prop} (c : Circuit) (order : List Reg) (h : c.NodesSat Q)
    (hw : ∀ r gs, gs ≠ [] → Q ⟨.wrapper gs, [r], [], false⟩) : (c.groupOneQubitGates order).NodesSat Q :=
  NodesSat_groupFold order ⟨c, []⟩ h hw

/-- what the semantic theorem needs of every operation: at least one quantum register, duplicate-free registers -/
def OpOk (op : Op) : Prop := op.q ≠ [] ∧ op.addRegs.Nodup

theorem QNonempty_of_NodesSat (c : Circuit) (h : c.NodesSat OpOk) : c.QNonempty := fun n op hn => (h n op hn).1

/-! ## 9. the class of circuits the semantic theorem is about, and its preservation by the rewrites -/

/-- per-operation sanity: at least one quantum register; registers duplicate-free; classical registers exist;
    one-qubit gates act on one register and have no classical register -/
def OpGood (nc : Nat) (op : Op) : Prop :=
  op.q ≠ [] ∧ op.addRegs.Nodup ∧ (∀ i, i ∈ op.cr → i < nc) ∧
  (op.kind.isGate1 = true → (∃ r, op.q = [r]) ∧ op.cr = [])

/-- well-formed circuits all of whose operations are sane -/
def Circuit.Good (c : Circuit) : Prop := c.WF ∧ c.NodesSat (OpGood c.nc)

theorem good_arity1 {c : Circuit} (h : c.Good) : c.Arity1 := fun n op hn hl => (h.2 n op hn).2.2.2 hl
theorem good_opsOk {c : Circuit} (h : c.Good) : c.OpsOk := fun n op hn => ⟨(h.2 n op hn).2.1, (h.2 n op hn).2.2.1⟩
theorem good_qNonempty {c : Circuit} (h : c.Good) : c.QNonempty := fun n op hn => (h.2 n op hn).1

theorem OpGood_base1 (nc : Nat) (g : G1) (r : Reg) : OpGood nc (Op.base1 g r) :=
  ⟨by simp [Op.base1], by simp [Op.base1, Op.addRegs], fun i hi => by simp [Op.base1] at hi,
   fun _ => ⟨⟨r, rfl⟩, rfl⟩⟩

theorem OpGood_wrapper (nc : Nat) (gs : List G1) (r : Reg) : OpGood nc ⟨.wrapper gs, [r], [], false⟩ :=
  ⟨by simp, by simp [Op.addRegs], fun i hi => by simp at hi, fun _ => ⟨⟨r, rfl⟩, rfl⟩⟩

theorem flat_nc {c c' : Circuit} (h : c'.flat = c.flat) : c'.nc = c.nc := by
  simp only [Circuit.flat, Prod.mk.injEq] at h
  exact h.2.2.1

theorem WF_removeIdentity (c : Circuit) (order : List Nat) (h : c.WF) : (c.removeIdentity order).WF := by
  unfold Circuit.removeIdentity
  induction order generalizing c with
  | nil => exact h
  | cons n order ih =>
    simp only [List.foldl_cons]
    apply ih
    split
    · exact WF_removeOp c n h
    · exact h

theorem Good_removeIdentity (c : Circuit) (order : List Nat) (h : c.Good) : (c.removeIdentity order).Good := by
  refine ⟨WF_removeIdentity c order h.1, ?_⟩
  rw [flat_nc (flat_removeIdentity c order)]
  exact NodesSat_removeIdentity c order h.2

theorem Good_unwrapNodes (c : Circuit) (order : List Nat) (h : c.Good) : (c.unwrapNodes order).Good := by
  obtain ⟨hwf', hflat⟩ := flat_unwrapNodes c order h.1
  refine ⟨hwf', ?_⟩
  rw [flat_nc hflat]
  exact NodesSat_unwrapNodes c order h.2 (OpGood_base1 c.nc)

theorem Good_group (c : Circuit) (order : List Reg) (h : c.Good) : (c.groupOneQubitGates order).Good := by
  obtain ⟨hwf', _, hflat⟩ := flat_groupOneQubitGates c order h.1 (good_arity1 h)
  refine ⟨hwf', ?_⟩
  rw [flat_nc hflat]
  exact NodesSat_group c order h.2 (fun r gs _ => OpGood_wrapper c.nc gs r)

theorem Good_assignNoise (c : Circuit) (seq : List Nat) (c' : Circuit) (h : c.Good)
    (hg : c.assignNoise seq = Except.ok c') : c'.Good := by
  obtain ⟨hflat, hwf', hnodes⟩ := flat_assignNoise c seq c' h.1 (good_opsOk h) hg
  refine ⟨hwf', ?_⟩
  rw [flat_nc hflat]
  intro m op hm
  obtain ⟨n, hn⟩ := hnodes m op hm
  exact h.2 n op hn

/-- the result of one of the five rewrites of C13 -/
inductive Rewrites (c : Circuit) : Circuit → Prop where
  | copy : Rewrites c c.copy
  | unwrap (order : List Nat) : Rewrites c (c.unwrapNodes order)
  | removeIdentity (order : List Nat) : Rewrites c (c.removeIdentity order)
  | group (order : List Reg) : Rewrites c (c.groupOneQubitGates order)
  | assignNoise (seq : List Nat) (c' : Circuit) (h : c.assignNoise seq = Except.ok c') : Rewrites c c'

theorem Rewrites.flat_eq {c c' : Circuit} (hgood : c.Good) (h : Rewrites c c') : c'.flat = c.flat := by
  cases h with
  | copy => rfl
  | unwrap order => exact (flat_unwrapNodes c order hgood.1).2
  | removeIdentity order => exact flat_removeIdentity c order
  | group order => exact (flat_groupOneQubitGates c order hgood.1 (good_arity1 hgood)).2.2
  | assignNoise seq c' h => exact (flat_assignNoise c seq c' hgood.1 (good_opsOk hgood) h).1

theorem Rewrites.good {c c' : Circuit} (hgood : c.Good) (h : Rewrites c c') : c'.Good := by
  cases h with
  | copy => exact hgood
  | unwrap order => exact Good_unwrapNodes c order hgood
  | removeIdentity order => exact Good_removeIdentity c order hgood
  | group order => exact Good_group c order hgood
  | assignNoise seq c' h => exact Good_assignNoise c seq c' hgood h

theorem Good_empty (ne np nc : Nat) : (Circuit.empty ne np nc).Good :=
  ⟨WF_empty ne np nc, fun n op h => by simp [Circuit.empty] at h⟩

theorem Good_addCore (c : Circuit) (op : Op) (h : c.Good) (hop : OpGood c.nc op)
    (hqv : ∀ r, r ∈ op.q → c.validReg r = true ∧ r.ty ≠ .c) : (c.addCore op).Good := by
  refine ⟨WF_addCore c op h.1 hop.2.1 hqv (fun i hi => validReg_c c i (hop.2.2.1 i hi)), ?_⟩
  rw [addCore_nc, addCore_eq]
  exact NodesSat_insertAt c op _ h.2 hop

/-! ### frame conditions -/

theorem exec_keeps_objects (w : World) (call : Call) : (w.exec call).circuits.take w.circuits.length = w.circuits := by
  simp [World.exec]

theorem exec_keeps_object (w : World) (call : Call) (i : Nat) (c : Circuit) (h : w.circuits[i]? = some c) :
    (w.exec call).circuits[i]? = some c := by
  have hlt : i < w.circuits.length := by
    rcases Nat.lt_or_ge i w.circuits.length with h' | h'
    · exact h'
    · rw [List.getElem?_eq_none h'] at h; cases h
  simp only [World.exec]
  rw [List.getElem?_append_left hlt]
  exact h

end Graphiq.Wire
