/-
  Proofs/LCTotalEch.lean — the full echelon structure of `row_reduction`'s output (towards totality of `is_lc_equivalent`:
  the internal assertions cannot fire).

  `Piv` (Proofs/LC.lean) records the pivots and the zeros below them.  `Ech` adds what the assertions need: every pivot is
  the first 1 of its row, and the rows below the pivot rows are zero.  `rowReduction_ech`: both hold for the output, the
  returned index `last` satisfies `last + 1 ≥ 0`, and the pivot rows are the rows `0 … last`.
-/
import GraphiqModel.Proofs.LC
namespace Graphiq.LC
open Graphiq

/-- the part of the echelon structure that `Piv` does not record: the pivot of row `i < k` is the first 1 of the row, and the
    rows from `k` on are zero in the columns `< bound` -/
structure Ech (x : BMat) (k bound : Nat) (piv : Nat → Nat) : Prop where
  left : ∀ i, i < k → ∀ j, j < piv i → x.f i j = false
  low : ∀ i, k ≤ i → i < x.r → ∀ j, j < bound → x.f i j = false

/-- entry of the matrix after `eliminate` (swap the first 1 into the pivot row, add the pivot row to the other rows with a 1) -/
theorem eliminate_entry (x : BMat) (pr pc o : Nat) (rest : List Nat) (ho : theOnes x pr pc = o :: rest)
    (i j : Nat) (hi : i < x.r) (hj : j < x.c) :
    (eliminate x pr o rest).f i j =
      if i ∈ rest then xor ((rowSwap x o pr).f pr j) ((rowSwap x o pr).f i j) else (rowSwap x o pr).f i j := by
  obtain ⟨_, _, ho3⟩ := theOnes_spec x pr pc o rest ho
  have hsorted : (o :: rest).Pairwise (· < ·) := by rw [← ho]; exact List.Pairwise.filter _ List.pairwise_lt_range
  have hnd : rest.Nodup := by
    have := (List.pairwise_cons.mp hsorted).2
    exact this.imp (fun h => Nat.ne_of_lt h)
  have ho2 : pr ≤ o := (theOnes_spec x pr pc o rest ho).2.1
  have hprn : pr ∉ rest := fun h => by have := ho3 pr h; omega
  unfold eliminate
  rw [BMat.norm_agree _ i j (by rw [(foldAdd_dims _ pr rest).1]; exact hi) (by rw [(foldAdd_dims _ pr rest).2]; exact hj)]
  exact foldAdd_entry _ pr rest i j hnd hprn

theorem rowSwap_entry (x : BMat) (o pr i j : Nat) :
    (rowSwap x o pr).f i j = if i = o then x.f pr j else if i = pr then x.f o j else x.f i j := rfl

/-- `eliminate` keeps the extra echelon structure and extends it by the new pivot -/
theorem eliminate_ech (x : BMat) (pr pc o : Nat) (rest : List Nat) (piv : Nat → Nat) (hP : Piv x pr pc piv)
    (hE : Ech x pr pc piv) (ho : theOnes x pr pc = o :: rest) (hpr : pr < x.r) (hpc : pc < x.c) :
    Ech (eliminate x pr o rest) (pr + 1) (pc + 1) (fun i => if i = pr then pc else piv i) := by
  obtain ⟨ho1, ho2, ho3⟩ := theOnes_spec x pr pc o rest ho
  have hnew := eliminate_piv x pr pc o rest piv hP ho hpr hpc
  have hd := eliminate_dims x pr o rest
  -- a column that is zero from the pivot row downwards stays so
  have hzero : ∀ q, q < x.c → (∀ i', pr ≤ i' → i' < x.r → x.f i' q = false) →
      ∀ i', pr ≤ i' → i' < x.r → (eliminate x pr o rest).f i' q = false := by
    intro q hq hz i' h1 h2
    have hs : ∀ i'', pr ≤ i'' → i'' < x.r → (rowSwap x o pr).f i'' q = false := by
      intro i'' h3 h4
      rw [rowSwap_entry]
      split
      · exact hz pr (Nat.le_refl _) hpr
      · split
        · exact hz o ho2 ho1
        · exact hz i'' h3 h4
    rw [eliminate_entry x pr pc o rest ho i' q h2 hq]
    split
    · rw [hs pr (Nat.le_refl _) hpr, hs i' h1 h2]; rfl
    · exact hs i' h1 h2
  have habove : ∀ i j, i < pr → j < x.c → (eliminate x pr o rest).f i j = x.f i j := by
    intro i j hi hj
    rw [eliminate_entry x pr pc o rest ho i j (by omega) hj]
    have h1 : i ∉ rest := fun h => by have := ho3 i h; omega
    rw [if_neg h1, rowSwap_entry]
    have h2 : i ≠ o := by omega
    have h3 : i ≠ pr := by omega
    simp [h2, h3]
  constructor
  · intro i hi j hj
    by_cases e : i = pr
    · subst e
      simp only [if_true] at hj
      exact hzero j (by omega) (fun i' h1 h2 => hE.low i' h1 h2 j hj) i (Nat.le_refl _) hpr
    · simp only [e, if_false] at hj
      have hi' : i < pr := by omega
      have hb := hP.bound i hi'
      rw [habove i j hi' (by omega)]
      exact hE.left i hi' j hj
  · intro i hi hir j hj
    rw [hd.1] at hir
    by_cases e : j = pc
    · subst e
      have := hnew.below pr i (by omega) (by omega) (by rw [hd.1]; exact hir)
      simpa using this
    · exact hzero j (by omega) (fun i' h1 h2 => hE.low i' h1 h2 j (by omega)) i (by omega) hir

/-- the state reached when the row reduction stops -/
def FinalEch (res : BMat × BMat × Int) : Prop :=
  ∃ piv, Piv res.1 (res.2.2 + 1).toNat res.1.c piv ∧ Ech res.1 (res.2.2 + 1).toNat res.1.c piv ∧
    (res.2.2 + 1).toNat ≤ res.1.r ∧ 0 ≤ res.2.2 + 1

theorem rowReductionLoop_ech (fuel : Nat) (x z : BMat) (pr pc : Nat) (piv : Nat → Nat) (hpr : pr < x.r) (hpc : pc < x.c)
    (hf : x.c ≤ pc + fuel) (hP : Piv x pr pc piv) (hE : Ech x pr pc piv) :
    FinalEch (rowReductionLoop fuel x z pr pc) := by
  induction fuel generalizing x z pr pc piv with
  | zero => omega
  | succ f ih =>
    simp only [rowReductionLoop]
    unfold rowRedOneStep
    split
    · -- last column
      rename_i hlast
      split
      · -- nothing below: the pivot rows are 0..pr-1
        rename_i hnil
        simp only [Bool.false_eq_true, if_false]
        have e1 : ((pr : Int) - 1 + 1).toNat = pr := by omega
        refine ⟨piv, ?_, ?_, ?_, ?_⟩
        · show Piv x ((pr : Int) - 1 + 1).toNat x.c piv
          rw [e1]; exact hP.weaken (by omega)
        · show Ech x ((pr : Int) - 1 + 1).toNat x.c piv
          rw [e1]
          refine ⟨hE.left, fun i hi hir j hj => ?_⟩
          by_cases e : j = pc
          · subst e
            cases hx : x.f i j
            · rfl
            · have : i ∈ theOnes x pr j := (mem_theOnes x pr j i).mpr ⟨hir, hi, hx⟩
              rw [hnil] at this; cases this
          · exact hE.low i hi hir j (by omega)
        · show ((pr : Int) - 1 + 1).toNat ≤ x.r
          omega
        · show (0 : Int) ≤ (pr : Int) - 1 + 1
          omega
      · rename_i o rest ho
        simp only [Bool.false_eq_true, if_false]
        have hPn := eliminate_piv x pr pc o rest piv hP ho hpr hpc
        have hEn := eliminate_ech x pr pc o rest piv hP hE ho hpr hpc
        have hd := eliminate_dims x pr o rest
        have e1 : ((pr : Int) + 1).toNat = pr + 1 := by omega
        refine ⟨fun i => if i = pr then pc else piv i, ?_, ?_, ?_, ?_⟩
        · show Piv (eliminate x pr o rest) ((pr : Int) + 1).toNat (eliminate x pr o rest).c _
          rw [e1, hd.2]
          exact hPn.weaken (by omega)
        · show Ech (eliminate x pr o rest) ((pr : Int) + 1).toNat (eliminate x pr o rest).c _
          rw [e1, hd.2]
          have : x.c = pc + 1 := by omega
          rw [this]; exact hEn
        · show ((pr : Int) + 1).toNat ≤ (eliminate x pr o rest).r
          rw [hd.1]; omega
        · show (0 : Int) ≤ (pr : Int) + 1
          omega
    · rename_i hnl
      split
      · -- last row
        rename_i hlr
        split
        · rename_i hx
          simp only [Bool.false_eq_true, if_false]
          have e1 : ((pr : Int) + 1).toNat = pr + 1 := by omega
          refine ⟨fun i => if i = pr then pc else piv i, ?_, ?_, ?_, ?_⟩
          · show Piv x ((pr : Int) + 1).toNat x.c _
            rw [e1]
            refine ⟨?_, ?_, ?_, ?_⟩
            · intro i hi
              by_cases e : i = pr
              · subst e; simpa using hx
              · simp only [e, if_false]; exact hP.one i (by omega)
            · intro i i' hi hii' hi'r
              by_cases e : i = pr
              · omega
              · simp only [e, if_false]; exact hP.below i i' (by omega) hii' hi'r
            · intro i i' hii' hi'
              by_cases e : i' = pr
              · have e1 : i ≠ pr := by omega
                simp only [e, e1, if_true, if_false]
                exact hP.bound i (by omega)
              · have e1 : i ≠ pr := by omega
                simp only [e, e1, if_false]
                exact hP.incr i i' hii' (by omega)
            · intro i hi
              by_cases e : i = pr
              · simp [e]; exact hpc
              · simp only [e, if_false]
                have := hP.bound i (by omega); omega
          · show Ech x ((pr : Int) + 1).toNat x.c _
            rw [e1]
            refine ⟨fun i hi j hj => ?_, fun i hi hir j hj => by omega⟩
            by_cases e : i = pr
            · subst e
              simp only [if_true] at hj
              exact hE.low i (Nat.le_refl _) hpr j hj
            · simp only [e, if_false] at hj
              exact hE.left i (by omega) j hj
          · show ((pr : Int) + 1).toNat ≤ x.r
            omega
          · show (0 : Int) ≤ (pr : Int) + 1
            omega
        · rename_i hx
          simp only [if_true]
          refine ih x z (Int.toNat pr) (pc + 1) piv (by simpa using hpr) (by omega) (by omega)
            (by simpa using hP.weaken (Nat.le_succ pc)) ?_
          have e1 : Int.toNat (pr : Int) = pr := by simp
          rw [e1]
          refine ⟨hE.left, fun i hi hir j hj => ?_⟩
          by_cases e : j = pc
          · have : i = pr := by omega
            subst this; subst e
            simpa using hx
          · exact hE.low i hi hir j (by omega)
      · split
        · rename_i hnil
          simp only [if_true]
          refine ih x z (Int.toNat pr) (pc + 1) piv (by simpa using hpr) (by omega) (by omega)
            (by simpa using hP.weaken (Nat.le_succ pc)) ?_
          have e1 : Int.toNat (pr : Int) = pr := by simp
          rw [e1]
          refine ⟨hE.left, fun i hi hir j hj => ?_⟩
          by_cases e : j = pc
          · subst e
            cases hx : x.f i j
            · rfl
            · have : i ∈ theOnes x pr j := (mem_theOnes x pr j i).mpr ⟨hir, hi, hx⟩
              rw [hnil] at this; cases this
          · exact hE.low i hi hir j (by omega)
        · rename_i hnr o rest ho
          simp only [if_true]
          have hPn := eliminate_piv x pr pc o rest piv hP ho hpr hpc
          have hEn := eliminate_ech x pr pc o rest piv hP hE ho hpr hpc
          have hd := eliminate_dims x pr o rest
          have e1 : ((pr : Int) + 1).toNat = pr + 1 := by omega
          apply ih (eliminate x pr o rest) (eliminate z pr o rest) ((pr : Int) + 1).toNat (pc + 1) _
          · rw [e1, hd.1]; omega
          · rw [hd.2]; omega
          · rw [hd.2]; omega
          · rw [e1]; exact hPn
          · rw [e1]; exact hEn

/-- **the output of `row_reduction` is in echelon form**: rows `0 … last` carry pivots at strictly increasing columns, each
    the first 1 of its row with zeros below it; the other rows are zero; `last ≥ -1` -/
theorem rowReduction_ech (x z : BMat) (hr : 0 < x.r) (hc : 0 < x.c) : FinalEch (rowReduction x z) :=
  rowReductionLoop_ech x.c x z 0 0 (fun i => i) hr hc (by omega)
    ⟨fun i hi => by omega, fun i _ hi => by omega, fun i i' _ hi' => by omega, fun i hi => by omega⟩
    ⟨fun i hi => by omega, fun i _ _ j hj => by omega⟩

end Graphiq.LC
