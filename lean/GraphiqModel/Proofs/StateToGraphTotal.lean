/-
  Proofs/StateToGraphTotal.lean — totality of the modelled `state_to_graph` (Model/StateToGraph.lean) on stabilizer states:
  for a tableau of n ≥ 1 real, pairwise commuting, linearly independent generators neither `_graph_finder` nor
  `_phase_correction` (three `canonical_form` calls with their closing assertion, one GF(2) inverse) fails.  All sizes.
-/
import GraphiqModel.Proofs.StateToGraph
import GraphiqModel.Proofs.StateToGraphComplete
import GraphiqModel.Proofs.InnerProductTotal
namespace Graphiq
open PRow Tab STab S2G

/-- the generators commute pairwise: the tableau-level statement is the bit-level one -/
theorem comm_ofSTab (t : STab) (hg : t.Good) : Comm (XZ.ofSTab t) := fun i k hi hk => hg.comm i k hi hk

/-- linearly independent generators: a subset product is `+I` only for the empty subset -/
theorem sprod_indep_of_indep (t : STab) (hi : Indep (XZ.ofSTab t)) (S : Nat → Bool)
    (h : SameBits t.n (sprod t.n t.row S t.n) PRow.one) : ∀ i, i < t.n → S i = false := by
  apply hi S
  intro j hj
  have hn : (XZ.ofSTab t).n = t.n := rfl
  rw [hn] at hj ⊢
  constructor
  · have := (h j hj).1
    rw [sprod_x] at this
    exact this
  · have := (h j hj).2
    rw [sprod_z] at this
    exact this

/-- the group of independent real commuting generators does not contain `−I` -/
theorem no_minus_one_of_indep (t : STab) (hg : t.Good) (hi : Indep (XZ.ofSTab t)) : ¬ t.Spn (PRow.neg PRow.one) := by
  intro hs
  obtain ⟨S, hS⟩ := spn_repr t hg _ hs
  have h0 := sprod_indep_of_indep t hi S (fun j hj => ⟨((hS.1 j hj).1).symm, ((hS.1 j hj).2).symm⟩)
  rw [sprod_none t.n t.row S t.n h0] at hS
  have := hS.2.1
  revert this
  decide

/-- **`canonical_form` returns on every stabilizer state** (real, commuting, independent generators): its closing assertion
    `pivot[0] == n` does not fire -/
theorem canonicalForm_of_indep (t : STab) (hg : t.Good) (hi : Indep (XZ.ofSTab t)) : ∃ c, t.canonicalForm = .ok c :=
  canonicalForm_total t hg t.row (fun i h => spn_gen t i h)
    (fun S h => sprod_indep_of_indep t hi S h.1) (no_minus_one_of_indep t hg hi)

/-- **`_phase_correction` returns** after a successful `_graph_finder` on a stabilizer state -/
theorem phaseCorrection_ok (t : STab) (hg : t.Good) (hi : Indep (XZ.ofSTab t)) (g : GraphFinderOut) (A : AfterLC t g) :
    ∃ zs, phaseCorrection t (graphSTab t.n g.adj.f) (lcGates g.hpos g.zdiag) = .ok zs := by
  obtain ⟨Awf, _, Asym, _, _, Afull⟩ := A
  generalize lcGates g.hpos g.zdiag = gates0 at *
  obtain ⟨tab1, c1⟩ := canonicalForm_of_indep t hg hi
  obtain ⟨s1, g1⟩ := canonicalForm_spanEq t tab1 hg c1
  have n1 : tab1.n = t.n := s1.n_eq.symm
  have wf1 : ∀ g', g' ∈ gates0 → g'.WF tab1.n := fun g' h => n1 ▸ Awf g' h
  have tr0 := tracks_runCircuit tab1 g1 gates0 wf1
  have s20 : SpanEq (t.runCircuit gates0) (tab1.runCircuit gates0) := runCircuit_spanEq t tab1 gates0 Awf s1 hg g1
  have n0 : (tab1.runCircuit gates0).n = t.n := by rw [runCircuit_n]; exact n1
  have hK : ∀ j, j < (tab1.runCircuit gates0).n →
      ∃ p, (tab1.runCircuit gates0).Spn p ∧ ∀ k, k < (tab1.runCircuit gates0).n → p.x k = decide (k = j) := by
    intro j hj
    rw [n0] at hj
    obtain ⟨p, hp, hpx⟩ := Afull j hj
    exact ⟨p, s20.sub p hp, fun k hk => hpx k (n0 ▸ hk)⟩
  obtain ⟨c, c3, cn, _, _, xc⟩ := canonicalForm_fullX (tab1.runCircuit gates0) tr0.good hK
  obtain ⟨c', c2, _, _⟩ := canonicalForm_graphSTab t.n g.adj.f Asym
  obtain ⟨M, eM, _⟩ := gf2Inv_id c.n (fun i j => (c.row i).x j) (fun i j hi hj => by
    rw [xc i j hi (cn ▸ hj)]
    by_cases h : i = j
    · subst h; simp
    · have : ¬ (j = i) := fun e => h e.symm
      simp [h, this])
  unfold phaseCorrection
  rw [c1]; simp only
  rw [c2]; simp only
  rw [c3]; simp only
  rw [eM]
  exact ⟨_, rfl⟩

/-- **totality of the modelled `state_to_graph`** (every n ≥ 1, every inverse computation that is correct on matrices with trivial
    kernel): on real, pairwise commuting, linearly independent generators it returns a graph and a gate list -/
theorem stateToGraphWith_complete (inv : Nat → Adj → Option Adj) (t : STab) (hn : 0 < t.n) (hinv : InvOK inv t.n)
    (hg : t.Good) (hi : Indep (XZ.ofSTab t)) : ∃ adj gates, stateToGraphWith inv t = .ok (adj, gates) := by
  obtain ⟨g, eg⟩ := graphFinderWith_complete inv (XZ.ofSTab t) hn hinv (comm_ofSTab t hg) hi
  have A := afterLC_of_spec t hg.real g (graphFinderWith_spec inv _ g eg)
  obtain ⟨zs, ez⟩ := phaseCorrection_ok t hg hi g A
  refine ⟨g.adj, lcGates g.hpos g.zdiag ++ zs, ?_⟩
  unfold stateToGraphWith
  rw [eg]; simp only
  rw [ez]

theorem stateToGraph_complete (t : STab) (hn : 0 < t.n) (hg : t.Good) (hi : Indep (XZ.ofSTab t)) :
    ∃ adj gates, stateToGraph t = .ok (adj, gates) :=
  stateToGraphWith_complete gf2InvF t hn (gf2InvF_ok t.n) hg hi

/-- **shape of the returned gate list**: Hadamards on distinct qubits, then `P_dag` on distinct qubits, then `Z` on distinct qubits —
    single-qubit gates only -/
theorem stateToGraphWith_gates (inv : Nat → Adj → Option Adj) (t : STab) (adj : BMat) (gates : List Gate)
    (e : stateToGraphWith inv t = .ok (adj, gates)) :
    ∃ hpos zdiag zl : List Nat, gates = hpos.map Gate.H ++ zdiag.map Gate.Pdag ++ zl.map Gate.Z ∧
      hpos.Nodup ∧ zdiag.Nodup ∧ zl.Nodup := by
  unfold stateToGraphWith at e
  split at e
  · cases e
  · next g hg =>
    simp only at e
    split at e
    · cases e
    · next zs hz =>
      injection e with e
      injection e with _ e2
      have spec := graphFinderWith_spec inv _ g hg
      obtain ⟨_, tab2, newTab, xinv, _, _, _, _, ezs⟩ := phaseCorrection_unfold _ _ _ _ hz
      refine ⟨g.hpos, g.zdiag, (List.range newTab.n).filter fun i =>
        parityTo newTab.n fun k => xinv.f i k && xor (tab2.row k).r (newTab.row k).r, ?_, spec.hpos_nodup, spec.zdiag_nodup,
        List.Nodup.filter _ List.nodup_range⟩
      rw [← e2, ezs]; rfl

/-- **undoing the gates**: if a gate list maps `t` onto the group of `G`, the reversed list (`P ↔ P_dag`, `run_circuit(reverse=True)`)
    maps `G` back onto the group of `t` -/
theorem runCircuit_rev_spanEq (t G : STab) (gates : List Gate) (hwf : ∀ g, g ∈ gates → g.WF t.n) (hg : t.Good) (hG : G.Good)
    (s : SpanEq (t.runCircuit gates) G) : SpanEq (G.runCircuit (revCirc gates)) t := by
  have hrev := revCirc_wf t.n gates hwf
  have n1 : (t.runCircuit gates).n = t.n := runCircuit_n _ _
  have tr := tracks_runCircuit t hg gates hwf
  have hrev1 : ∀ g, g ∈ revCirc gates → g.WF (t.runCircuit gates).n := fun g h => n1 ▸ hrev g h
  have s1 : SpanEq ((t.runCircuit gates).runCircuit (revCirc gates)) (G.runCircuit (revCirc gates)) :=
    runCircuit_spanEq _ _ _ hrev1 s tr.good hG
  have hall : ∀ g, g ∈ gates ++ revCirc gates → g.WF t.n := by
    intro g h
    rcases List.mem_append.mp h with h | h
    · exact hwf g h
    · exact hrev g h
  have nn : (t.runCircuit (gates ++ revCirc gates)).n = t.n := runCircuit_n _ _
  have rows : ∀ i, i < t.n → EqOn t.n ((t.runCircuit (gates ++ revCirc gates)).row i) (t.row i) := by
    intro i hi
    have := runCircuit_row t (gates ++ revCirc gates) hall i hi
    rw [actCirc_app] at this
    exact this.trans (revCirc_cancel t.n gates hwf _)
  have s2 : SpanEq (t.runCircuit (gates ++ revCirc gates)) t := by
    apply spanEq_of_gens _ _ nn.symm
    · intro i hi
      have := spn_gen (t.runCircuit (gates ++ revCirc gates)) i (nn ▸ hi)
      refine InSpan.eqv _ _ this ?_
      rw [nn]; exact rows i hi
    · intro i hi
      rw [nn] at hi
      exact InSpan.eqv _ _ (spn_gen t i hi) (rows i hi).symm
  rw [runCircuit_append] at s2
  exact s1.symm.trans s2

/-- boolean check of `Good` (for concrete examples) -/
theorem S2G.good_of_check (t : STab)
    (h : ((List.range t.n).all fun i => (t.row i).ip == false &&
      (List.range t.n).all fun k => sp t.n (t.row i) (t.row k) == false) = true) : t.Good := by
  rw [List.all_eq_true] at h
  constructor
  · intro i hi
    have := h i (List.mem_range.2 hi)
    simp only [Bool.and_eq_true, beq_iff_eq] at this
    exact this.1
  · intro i k hi hk
    have := h i (List.mem_range.2 hi)
    simp only [Bool.and_eq_true, beq_iff_eq, List.all_eq_true] at this
    exact this.2 k (List.mem_range.2 hk)

end Graphiq
