/-
  MetricsHistEdits.lean — how the scheduled operation list evolves under the node-addressed edits (C18): a successful `add`
  appends the operation, `remove_op` erases the node's entry, a successful `replace_op` replaces the entry's operation (keeping
  its classical wiring).  Together with `unwrapNodes_sched_gen` (flatMap-unwrap) and `removeIdentity_sched_gen` (filter) the
  specification's operation list after an edit is a list edit of the one before.
-/
import GraphiqModel.Proofs.MetricsHistSpec
set_option linter.unusedSectionVars false
set_option linter.unusedSimpArgs false
namespace Graphiq
namespace Metrics
open Dag Relation

/-- **`add(op)` appends to the schedule** (when the call succeeds) -/
theorem add_sched_gen {c : Dag} {P : Paths} {L : List (NodeId × Op)} (g : Good c P) (hS : Sched c P L) {op : Op} (hop : OpWF op)
    (hok : (c.add op).2 = none) :
    ∃ P', Good (c.add op).1 P' ∧ Sched (c.add op).1 P' (L ++ [(NodeId.op (c.nodeId + 1), op)]) := by
  obtain ⟨P1, g1, hS1⟩ := ensureRegs_sched g hS op
  obtain ⟨_, _, hl1, _, hid⟩ := ensureRegs_good g op
  unfold add at hok ⊢
  cases hens : c.ensureRegs op with
  | mk c1 e1 =>
    rw [hens] at hok g1 hS1 hl1 hid
    simp only at hok g1 hS1 hl1 hid
    cases e1 with
    | some e => simp at hok
    | none =>
      simp only
      obtain ⟨P2, g2, hS2⟩ := add_sched g1 hS1 hop (hl1 rfl)
      rw [hid] at hS2
      exact ⟨P2, g2, hS2⟩

/-- **`remove_op(node)` erases the node's entry from the schedule** -/
theorem removeOp_sched_gen {c : Dag} {P : Paths} {L : List (NodeId × Op)} (g : Good c P) (hS : Sched c P L) {i : Nat} {w : Op}
    (hw : (NodeId.op i, w) ∈ c.nodes) :
    ∃ L1 L2, L = L1 ++ (NodeId.op i, wiredOp P (.op i) w) :: L2 ∧
      Good (c.removeOp (.op i)).1 (erasePaths P (.op i)) ∧ Sched (c.removeOp (.op i)).1 (erasePaths P (.op i)) (L1 ++ L2) := by
  obtain ⟨L1, L2, hL, hS2⟩ := removeNode_sched g hS hw
  obtain ⟨_, g2, _, _⟩ := removeOp_good g (mem_nodeIds.mpr ⟨w, hw⟩)
  exact ⟨L1, L2, hL, g2, hS2⟩

/-- the wired form depends on the operation only through its classical registers -/
theorem opRegs_wiredOp_congr {P : Paths} {n : NodeId} {o o' : Op} (hq : o.qregs = o'.qregs) (hc : o.cregs = o'.cregs) :
    opRegs (wiredOp P n o) = opRegs (wiredOp P n o') := by
  unfold opRegs
  rw [wiredOp_qregs, wiredOp_qregs, wiredOp_cregs, wiredOp_cregs, hq, hc]

/-- **a successful `replace_op(node, new)` replaces the operation of the node's entry**, keeping its position and classical wiring -/
theorem replaceOp_sched_gen {c : Dag} {P : Paths} {L : List (NodeId × Op)} (g : Good c P) (hS : Sched c P L) {i : Nat} {old new : Op}
    (hold : (NodeId.op i, old) ∈ c.nodes) (hnew : OpWF new) (hq : old.qregs = new.qregs) (hc : old.cregs = new.cregs) :
    Good (c.replaced (.op i) old new) P ∧
    Sched (c.replaced (.op i) old new) P
      (L.map (fun p => if p.1 = NodeId.op i then (NodeId.op i, wiredOp P (.op i) new) else p)) := by
  have g' := replaced_good g hold hnew hq hc
  refine ⟨g', ?_⟩
  have hregs : (c.replaced (.op i) old new).regs = c.regs := by funext t; cases t <;> rfl
  have hold_uniq : ∀ o, (NodeId.op i, o) ∈ c.nodes → o = old := by
    intro o ho
    have h1 := (opOf_eq_some g.inv.ids_nodup).mpr ho
    have h2 := (opOf_eq_some g.inv.ids_nodup).mpr hold
    rw [h1] at h2; injection h2
  -- the registers of every entry are unchanged
  have hregs_entry : ∀ p ∈ L, opRegs (if p.1 = NodeId.op i then (NodeId.op i, wiredOp P (.op i) new) else p).2 = opRegs p.2 ∧
      (if p.1 = NodeId.op i then (NodeId.op i, wiredOp P (.op i) new) else p).1 = p.1 := by
    intro p hp
    by_cases hpi : p.1 = NodeId.op i
    · rw [if_pos hpi]
      obtain ⟨_, o, hm, ho⟩ := (hS.nodes p).mp hp
      rw [hpi] at hm ho
      have := hold_uniq o hm
      subst this
      exact ⟨by rw [ho]; exact (opRegs_wiredOp_congr hq hc).symm, hpi.symm⟩
    · rw [if_neg hpi]; exact ⟨rfl, rfl⟩
  have hwire : ∀ r, schedWire (L.map (fun p => if p.1 = NodeId.op i then (NodeId.op i, wiredOp P (.op i) new) else p)) r =
      schedWire L r := by
    intro r
    unfold schedWire
    rw [List.filter_map, List.map_map]
    have hf : L.filter ((fun p => decide (r ∈ opRegs p.2)) ∘ fun p => if p.1 = NodeId.op i then (NodeId.op i, wiredOp P (.op i) new) else p) =
        L.filter (fun p => decide (r ∈ opRegs p.2)) := by
      apply List.filter_congr
      intro p hp
      simp only [Function.comp]
      rw [(hregs_entry p hp).1]
    rw [hf]
    apply List.map_congr_left
    intro p hp
    simp only [Function.comp]
    exact (hregs_entry p (List.mem_filter.mp hp).1).2
  refine ⟨?_, ?_, ?_, ?_⟩
  · intro r hl
    rw [hwire r]
    exact hS.wire r ((live_eq_of_regs hregs r).mp hl)
  · intro p
    rw [List.mem_map]
    constructor
    · rintro ⟨q, hq', rfl⟩
      obtain ⟨hi, o, hm, ho⟩ := (hS.nodes q).mp hq'
      by_cases hqi : q.1 = NodeId.op i
      · rw [if_pos hqi]
        exact ⟨⟨i, rfl⟩, new, (mem_replaced_nodes _ _).mpr (Or.inr ⟨rfl, rfl, mem_nodeIds.mpr ⟨old, hold⟩⟩), rfl⟩
      · rw [if_neg hqi]
        exact ⟨hi, o, (mem_replaced_nodes _ _).mpr (Or.inl ⟨hqi, hm⟩), ho⟩
    · rintro ⟨hi, o, hm, ho⟩
      rcases (mem_replaced_nodes _ _).mp hm with ⟨hne, hm⟩ | ⟨heq, rfl, _⟩
      · exact ⟨p, (hS.nodes p).mpr ⟨hi, o, hm, ho⟩, by rw [if_neg hne]⟩
      · refine ⟨(NodeId.op i, wiredOp P (.op i) old), hS.mem_of_node hold, ?_⟩
        rw [if_pos rfl]
        exact Prod.ext heq.symm (by rw [ho, heq])
  · have : (L.map (fun p => if p.1 = NodeId.op i then (NodeId.op i, wiredOp P (.op i) new) else p)).map (·.1) = L.map (·.1) := by
      rw [List.map_map]
      apply List.map_congr_left
      intro p hp
      simp only [Function.comp]
      exact (hregs_entry p hp).2
    rw [this]; exact hS.nodup
  · intro p hp r hr
    obtain ⟨q, hq', rfl⟩ := List.mem_map.mp hp
    rw [(hregs_entry q hq').1] at hr
    exact (live_eq_of_regs hregs r).mpr (hS.live q hq' r hr)

end Metrics
end Graphiq
