/-
  Proofs/CanonSpan.lean — every element of the signed group of a real commuting tableau is (up to `EqOn`) the *ordered
  product of a subset of the rows*; its bits are the GF(2) combination of the rows' bits.  All sizes.
  (Used for the normal-form theorem of `canonical_form`, C05.)
-/
import GraphiqModel.Proofs.StabTableau
namespace Graphiq
open PRow Tab

namespace STab

/-- ordered product `row (m-1) · (… · (row 0 · 1))` of the rows `i < m` selected by `S` -/
def sprod (n : Nat) (row : Nat → PRow) (S : Nat → Bool) : Nat → PRow
  | 0 => PRow.one
  | m + 1 => bif S m then PRow.mul n (row m) (sprod n row S m) else sprod n row S m

theorem sprod_x (n : Nat) (row : Nat → PRow) (S : Nat → Bool) (m j : Nat) :
    (sprod n row S m).x j = parityTo m (fun i => S i && (row i).x j) := by
  induction m with
  | zero => rfl
  | succ k ih =>
    simp only [sprod, parityTo]
    cases h : S k
    · simp [ih]
    · simp [ih, Bool.xor_comm]

theorem sprod_z (n : Nat) (row : Nat → PRow) (S : Nat → Bool) (m j : Nat) :
    (sprod n row S m).z j = parityTo m (fun i => S i && (row i).z j) := by
  induction m with
  | zero => rfl
  | succ k ih =>
    simp only [sprod, parityTo]
    cases h : S k
    · simp [ih]
    · simp [ih, Bool.xor_comm]

theorem sprod_congr (n : Nat) (row : Nat → PRow) (S T : Nat → Bool) (m : Nat) (h : ∀ i, i < m → S i = T i) :
    sprod n row S m = sprod n row T m := by
  induction m with
  | zero => rfl
  | succ k ih =>
    simp only [sprod]
    rw [ih (fun i hi => h i (Nat.lt_succ_of_lt hi)), h k (Nat.lt_succ_self k)]

theorem sprod_false (n : Nat) (row : Nat → PRow) (m : Nat) : sprod n row (fun _ => false) m = PRow.one := by
  induction m with
  | zero => rfl
  | succ k ih => simp [sprod, ih]

/-- a subset that misses every row below `m` gives the identity -/
theorem sprod_none (n : Nat) (row : Nat → PRow) (S : Nat → Bool) (m : Nat) (h : ∀ i, i < m → S i = false) :
    sprod n row S m = PRow.one := by
  rw [sprod_congr n row S (fun _ => false) m h]; exact sprod_false n row m

theorem sprod_single (n : Nat) (row : Nat → PRow) (i m : Nat) :
    EqOn n (sprod n row (fun k => decide (k = i)) m) (if i < m then row i else PRow.one) := by
  induction m with
  | zero => simp [sprod]; exact EqOn.refl _ _
  | succ k ih =>
    simp only [sprod]
    by_cases hk : k = i
    · subst hk
      have h0 : sprod n row (fun j => decide (j = k)) k = PRow.one := by
        apply sprod_none; intro j hj; simp; omega
      simp only [h0, decide_true, cond_true, Nat.lt_succ_self, if_true]
      exact mul_one n _
    · have hd : decide (k = i) = false := by simp [hk]
      simp only [hd, cond_false]
      by_cases hi : i < k
      · have : i < k + 1 := by omega
        simp only [this, if_true]; simp only [hi, if_true] at ih; exact ih
      · have : ¬ i < k + 1 := by omega
        simp only [this, if_false]; simp only [hi, if_false] at ih; exact ih

theorem sprod_spn (t : STab) (S : Nat → Bool) (m : Nat) (hm : m ≤ t.n) : t.Spn (sprod t.n t.row S m) := by
  induction m with
  | zero => exact InSpan.one
  | succ k ih =>
    simp only [sprod]
    cases S k
    · exact ih (by omega)
    · exact InSpan.mul _ _ (spn_gen t k (by omega)) (ih (by omega))

/-- the product of two subset products is the subset product of the symmetric difference -/
theorem sprod_mul (t : STab) (hg : t.Good) (S T : Nat → Bool) (m : Nat) (hm : m ≤ t.n) :
    EqOn t.n (PRow.mul t.n (sprod t.n t.row S m) (sprod t.n t.row T m))
      (sprod t.n t.row (fun i => xor (S i) (T i)) m) := by
  induction m with
  | zero => exact one_mul t.n _
  | succ k ih =>
    have ih := ih (by omega)
    have hk : k < t.n := by omega
    have hA := sprod_spn t S k (by omega)
    have hB := sprod_spn t T k (by omega)
    have hr := spn_gen t k hk
    have rr := hg.real k hk
    have cA : sp t.n (sprod t.n t.row S k) (t.row k) = false := spn_comm t hg _ _ hA hr
    simp only [sprod]
    cases hS : S k <;> cases hT : T k <;> simp only [cond_true, cond_false, Bool.xor_false,
      Bool.xor_true, Bool.not_false, Bool.not_true, Bool.false_xor, Bool.true_xor]
    · exact ih
    · -- A · (r · B) = (A · r) · B = (r · A) · B = r · (A · B)
      exact (((mul_assoc t.n _ _ _).symm.trans
        (mul_congr t.n _ _ _ _ (mul_comm t.n _ _ cA) (EqOn.refl _ _))).trans (mul_assoc t.n _ _ _)).trans
        (mul_congr t.n _ _ _ _ (EqOn.refl _ _) ih)
    · exact (mul_assoc t.n _ _ _).trans (mul_congr t.n _ _ _ _ (EqOn.refl _ _) ih)
    · -- (r · A) · (r · B) = (A · r) · (r · B) = A · (r · (r · B)) = A · ((r · r) · B) = A · (1 · B) = A · B
      have e1 : EqOn t.n (PRow.mul t.n (t.row k) (PRow.mul t.n (t.row k) (sprod t.n t.row T k))) (sprod t.n t.row T k) :=
        ((mul_assoc t.n _ _ _).symm.trans
          (mul_congr t.n _ _ _ _ (mul_self t.n _ rr) (EqOn.refl _ _))).trans (one_mul t.n _)
      have cA' : sp t.n (t.row k) (sprod t.n t.row S k) = false := by rw [sp_comm]; exact cA
      exact (((mul_congr t.n _ _ _ _ (mul_comm t.n _ _ cA') (EqOn.refl _ _)).trans (mul_assoc t.n _ _ _)).trans
        (mul_congr t.n _ _ _ _ (EqOn.refl _ _) e1)).trans ih

/-- **subset-product representation**: every element of the signed group of a real commuting tableau is the ordered
    product of a subset of its rows -/
theorem spn_repr (t : STab) (hg : t.Good) (g : PRow) (h : t.Spn g) :
    ∃ S : Nat → Bool, EqOn t.n g (sprod t.n t.row S t.n) := by
  unfold Spn at h
  induction h with
  | one => exact ⟨fun _ => false, by rw [sprod_false]; exact EqOn.refl _ _⟩
  | gen i hi =>
    refine ⟨fun k => decide (k = i), ?_⟩
    have := sprod_single t.n t.row i t.n
    simp only [hi, if_true] at this
    exact this.symm
  | mul a b _ _ iha ihb =>
    obtain ⟨S, hS⟩ := iha
    obtain ⟨T, hT⟩ := ihb
    exact ⟨fun i => xor (S i) (T i), (mul_congr t.n _ _ _ _ hS hT).trans (sprod_mul t hg S T t.n (Nat.le_refl _))⟩
  | eqv a b _ hab iha =>
    obtain ⟨S, hS⟩ := iha
    exact ⟨S, hab.symm.trans hS⟩

/-- the product of two rows with the same Pauli string carries the xor of the signs (real rows) -/
theorem mul_sameBits_r (n : Nat) (a b : PRow) (ha : a.ip = false) (hb : b.ip = false) (h : SameBits n a b) :
    (PRow.mul n a b).r = xor a.r b.r := by
  have hp := mul_ph n a b
  have g0 : gSum n a b = 0 := by
    rw [gSum_congr n a a b a (fun j hj => ⟨rfl, rfl⟩) (fun j hj => ⟨(h j hj).1.symm, (h j hj).2.symm⟩)]
    exact gSum_self n a
  rw [g0] at hp
  have hi : (PRow.mul n a b).ip = false := by
    have : sp n a b = false := by
      rw [sp_congr n a a b a (fun j hj => ⟨rfl, rfl⟩) (fun j hj => ⟨(h j hj).1.symm, (h j hj).2.symm⟩)]
      exact sp_self n a
    exact mul_real n a b ha hb this
  unfold ph at hp
  rw [ha, hb, hi] at hp
  cases h1 : (PRow.mul n a b).r <;> cases h2 : a.r <;> cases h3 : b.r <;> simp [h1, h2, h3, Bool.toInt'] at hp ⊢

end STab
end Graphiq
