/-
  Proofs/AltTargetConvRun.lean — running the translated conversion gate list (`str_to_op`) after a circuit on the stabilizer
  backend: the rows of the final tableau are the images of the rows before under the list's row action `Alt.namesAct`, and the
  stabilizer group after is the image of the group before.
-/
import GraphiqModel.Proofs.AltTargetConvDefs
import GraphiqModel.Proofs.AltTargetConvGroup
import GraphiqModel.Proofs.InverseCircuit
namespace Graphiq
namespace Alt
open PRow Tab

/-! ### (1) the list action is an automorphism -/

theorem nameAct_isAut (n : Nat) (name : String) (q : Nat) (hq : q < n) : IsAut n (nameAct name q) := by
  unfold nameAct
  split
  · exact isAut_h n q hq
  · exact isAut_s n q hq
  · exact isAut_sdg n q hq
  · exact isAut_xg n q hq
  · exact isAut_yg n q hq
  · exact isAut_zg n q hq
  · exact isAut_id n

theorem nameAct_one (n : Nat) (name : String) (q : Nat) : PRow.EqOn n (nameAct name q PRow.one) PRow.one := by
  unfold nameAct
  split <;>
    (refine ⟨fun j _ => ?_, ?_, ?_⟩ <;>
      simp [PRow.h, PRow.s, PRow.sdg, PRow.xg, PRow.yg, PRow.zg, PRow.one])


theorem nameAct_with_ip (name : String) (q : Nat) (a : PRow) :
    nameAct name q { a with ip := false } = { nameAct name q a with ip := false } := by
  unfold nameAct
  split <;> rfl


theorem namesAct_isAut (n : Nat) (gates : List (String × Nat)) (hq : ∀ g, g ∈ gates → g.2 < n) :
    IsAut n (namesAct gates) := by
  induction gates with
  | nil => exact isAut_id n
  | cons g gates ih =>
    have h1 := nameAct_isAut n g.1 g.2 (hq g (List.mem_cons_self ..))
    have h2 := ih (fun g' hg' => hq g' (List.mem_cons_of_mem _ hg'))
    exact h2.comp h1


theorem namesAct_with_ip (gates : List (String × Nat)) (a : PRow) :
    namesAct gates { a with ip := false } = { namesAct gates a with ip := false } := by
  induction gates generalizing a with
  | nil => rfl
  | cons g gates ih => rw [namesAct_cons, namesAct_cons, nameAct_with_ip, ih]

theorem h_one (q : Nat) : PRow.h q PRow.one = PRow.one := by
  simp [PRow.h, PRow.one]
theorem s_one (q : Nat) : PRow.s q PRow.one = PRow.one := by
  simp [PRow.s, PRow.one]
/-- every named gate fixes the identity row (as a row, on all sites) -/
theorem nameAct_one_eq (name : String) (q : Nat) : nameAct name q PRow.one = PRow.one := by
  unfold nameAct
  split <;> simp [PRow.sdg, PRow.xg, PRow.yg, PRow.zg, h_one, s_one]

theorem namesAct_one_eq (gates : List (String × Nat)) : namesAct gates PRow.one = PRow.one := by
  induction gates with
  | nil => rfl
  | cons g gates ih => rw [namesAct_cons, nameAct_one_eq, ih]

theorem namesAct_one (n : Nat) (gates : List (String × Nat)) : PRow.EqOn n (namesAct gates PRow.one) PRow.one := by
  rw [namesAct_one_eq]; exact EqOn.refl _ _

/-! ### (2) one step per gate, and the run of the translated list -/

theorem stepOp_gate (np n : Nat) (d : Det) (s : RunState) (g : String × Nat) (op : COp)
    (hg : gateCOp g = some op) (hq : g.2 < n) :
    stepOp np n d s op = some { s with t := (s.t.map (nameAct g.1 g.2)).norm } := by
  obtain ⟨name, q⟩ := g
  have hix : qIndex np ⟨.p, q⟩ = q := rfl
  unfold gateCOp at hg
  simp only at hg hq
  split at hg <;> first | cases hg | (injection hg with hg; subst hg)
  all_goals simp only [stepOp, hix, hq, if_true]
  all_goals rfl

theorem gatesCOps_cons (g : String × Nat) (gates : List (String × Nat)) (gops : List COp)
    (h : gatesCOps (g :: gates) = some gops) :
    ∃ op rest, gateCOp g = some op ∧ gatesCOps gates = some rest ∧ gops = op :: rest := by
  unfold gatesCOps at h ⊢
  rw [List.mapM_cons] at h
  cases h1 : gateCOp g with
  | none => simp [h1] at h
  | some op =>
    cases h2 : gates.mapM gateCOp with
    | none => simp [h1, h2] at h
    | some rest =>
      simp [h1, h2] at h
      exact ⟨op, rest, rfl, rfl, h.symm⟩

theorem gates_fold (np N : Nat) (d : Det) (gates : List (String × Nat)) :
    ∀ (gops : List COp) (s : RunState), gatesCOps gates = some gops → (∀ g, g ∈ gates → g.2 < N) → s.t.n = N →
      ∃ s', gops.foldlM (stepOp np N d) s = some s' ∧ s'.t.n = N ∧
        ∀ i, i < 2 * N → PRow.EqOn N (s'.t.row i) (namesAct gates (s.t.row i)) := by
  induction gates with
  | nil =>
    intro gops s hg _ hn
    have : gops = [] := by simpa [gatesCOps] using hg.symm
    subst this
    exact ⟨s, rfl, hn, fun i _ => EqOn.refl _ _⟩
  | cons g gates ih =>
    intro gops s hg hq hn
    obtain ⟨op, rest, h1, h2, h3⟩ := gatesCOps_cons g gates gops hg
    subst h3
    have hq' : ∀ g', g' ∈ gates → g'.2 < N := fun g' hg' => hq g' (List.mem_cons_of_mem _ hg')
    have hstep := stepOp_gate np N d s g op h1 (hq g (List.mem_cons_self ..))
    have hn1 : ((s.t.map (nameAct g.1 g.2)).norm).n = N := hn
    obtain ⟨s', e1, e2, e3⟩ := ih rest { s with t := (s.t.map (nameAct g.1 g.2)).norm } h2 hq' hn1
    refine ⟨s', ?_, e2, ?_⟩
    · rw [List.foldlM_cons, hstep]; exact e1
    · intro i hi
      have aut := namesAct_isAut N gates hq'
      have r1 : PRow.EqOn N (((s.t.map (nameAct g.1 g.2)).norm).row i) (nameAct g.1 g.2 (s.t.row i)) := by
        have := tnorm_row (s.t.map (nameAct g.1 g.2)) i (by show i < 2 * s.t.n; rw [hn]; exact hi)
        rw [show (s.t.map (nameAct g.1 g.2)).n = N from hn] at this
        exact this
      rw [namesAct_cons]
      exact (e3 i hi).trans (aut.congr _ _ r1)

theorem stabRun_append_gates (ne np : Nat) (script : List Bool) (ops gops : List COp) (gates : List (String × Nat))
    (hg : gatesCOps gates = some gops) (hq : ∀ g, g ∈ gates → g.2 < np) (rs : RunState)
    (h : stabRun ne np .prob script ops = some rs) (hn : rs.t.n = ne + np) :
    ∃ rs', stabRun ne np .prob script (ops ++ gops) = some rs' ∧ rs'.t.n = ne + np ∧
      ∀ i, i < 2 * (ne + np) → PRow.EqOn (ne + np) (rs'.t.row i) (namesAct gates (rs.t.row i)) := by
  have hq' : ∀ g, g ∈ gates → g.2 < ne + np := fun g hg' => Nat.lt_of_lt_of_le (hq g hg') (Nat.le_add_left ..)
  obtain ⟨s', e1, e2, e3⟩ := gates_fold np (ne + np) .prob gates gops rs hg hq' hn
  refine ⟨s', ?_, e2, e3⟩
  unfold stabRun stabRunFrom at h ⊢
  rw [List.foldlM_append]
  have hk : (Tab.ket0 (ne + np)).n = ne + np := rfl
  rw [hk] at h ⊢
  rw [h]
  exact e1

/-! ### (3) the stabilizer group after the appended gates is the image of the group before -/

theorem append_gates_group (ne np : Nat) (script : List Bool) (ops gops : List COp) (gates : List (String × Nat))
    (hg : gatesCOps gates = some gops) (hq : ∀ g, g ∈ gates → g.2 < np) (rs : RunState)
    (h : stabRun ne np .prob script ops = some rs) (hn : rs.t.n = ne + np) :
    ∃ rs', stabRun ne np .prob script (ops ++ gops) = some rs' ∧ (STab.ofTab rs'.t).n = ne + np ∧
      ∀ b, (STab.ofTab rs'.t).Spn b ↔ ∃ a, (STab.ofTab rs.t).Spn a ∧ PRow.EqOn (ne + np) (namesAct gates a) b := by
  have hq' : ∀ g, g ∈ gates → g.2 < ne + np := fun g hg' => Nat.lt_of_lt_of_le (hq g hg') (Nat.le_add_left ..)
  have aut := namesAct_isAut (ne + np) gates hq'
  obtain ⟨rs', e1, e2, e3⟩ := stabRun_append_gates ne np script ops gops gates hg hq rs h hn
  refine ⟨rs', e1, e2, ?_⟩
  -- generators
  have hgen : ∀ i, i < ne + np →
      PRow.EqOn (ne + np) ((STab.ofTab rs'.t).row i) (namesAct gates ((STab.ofTab rs.t).row i)) := by
    intro i hi
    show PRow.EqOn (ne + np) { (rs'.t.row (i + rs'.t.n)) with ip := false }
      (namesAct gates { (rs.t.row (i + rs.t.n)) with ip := false })
    rw [namesAct_with_ip, e2, hn]
    obtain ⟨hb, hr, _⟩ := e3 (i + (ne + np)) (by omega)
    exact ⟨hb, hr, rfl⟩
  have fwd : ∀ a, InSpan (ne + np) (ne + np) (STab.ofTab rs.t).row a →
      InSpan (ne + np) (ne + np) (STab.ofTab rs'.t).row (namesAct gates a) := by
    intro a ha
    induction ha with
    | one => exact InSpan.eqv _ _ InSpan.one (namesAct_one _ gates).symm
    | gen i hi => exact InSpan.eqv _ _ (InSpan.gen i hi) (hgen i hi)
    | mul a b _ _ iha ihb => exact InSpan.eqv _ _ (InSpan.mul _ _ iha ihb) (aut.mul a b).symm
    | eqv a b _ hab iha => exact InSpan.eqv _ _ iha (aut.congr a b hab)
  have bwd : ∀ b, InSpan (ne + np) (ne + np) (STab.ofTab rs'.t).row b →
      ∃ a, InSpan (ne + np) (ne + np) (STab.ofTab rs.t).row a ∧ PRow.EqOn (ne + np) (namesAct gates a) b := by
    intro b hb
    induction hb with
    | one => exact ⟨PRow.one, InSpan.one, namesAct_one _ gates⟩
    | gen i hi => exact ⟨_, InSpan.gen i hi, (hgen i hi).symm⟩
    | mul a b _ _ iha ihb =>
      obtain ⟨a0, ha0, ea⟩ := iha
      obtain ⟨b0, hb0, eb⟩ := ihb
      exact ⟨PRow.mul (ne + np) a0 b0, InSpan.mul _ _ ha0 hb0,
        (aut.mul a0 b0).trans (mul_congr (ne + np) _ _ _ _ ea eb)⟩
    | eqv a b _ hab iha =>
      obtain ⟨a0, ha0, ea⟩ := iha
      exact ⟨a0, ha0, ea.trans hab⟩
  have n1 : (STab.ofTab rs'.t).n = ne + np := e2
  have n0 : (STab.ofTab rs.t).n = ne + np := hn
  intro b
  unfold STab.Spn
  rw [n1, n0]
  constructor
  · exact bwd b
  · rintro ⟨a, ha, eab⟩
    exact InSpan.eqv _ _ (fwd a ha) eab

end Alt
end Graphiq
