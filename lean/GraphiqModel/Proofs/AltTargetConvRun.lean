/-
  Proofs/AltTargetConvRun.lean — running the translated conversion gate list (`str_to_op`) after a circuit on the stabilizer
  backend: the rows of the final tableau are the images of the rows before under the list's row action `Alt.namesAct`, and the
  stabilizer group after is the image of the group before.
-/
import GraphiqModel.Proofs.AltTargetConvDefs
import GraphiqModel.Proofs.InverseCircuit
namespace Graphiq
namespace Alt
open PRow Tab

/-! ### (1) the list action is an automorphism -/

theorem nameAct_isAut (n : Nat) (name : String) (q : Nat) (hq : q < n) : IsAut n (nameAct name q) := by
  unfold nameAct
  split
  · exact isAut_h n q hq
  · exact isAut_s n q hq
  · exact isAut_sdg n q hq
  · exact isAut_xg n q hq
  · exact isAut_yg n q hq
  · exact isAut_zg n q hq
  · exact isAut_id n

theorem nameAct_one (n : Nat) (name : String) (q : Nat) : PRow.EqOn n (nameAct name q PRow.one) PRow.one := by
  unfold nameAct
  split <;>
    (refine ⟨fun j _ => ?_, ?_, ?_⟩ <;>
      simp [PRow.h, PRow.s, PRow.sdg, PRow.xg, PRow.yg, PRow.zg, PRow.one])

theorem nameAct_ip (name : String) (q : Nat) (a : PRow) : (nameAct name q a).ip = a.ip := by
  unfold nameAct
  split <;> rfl

theorem nameAct_with_ip (name : String) (q : Nat) (a : PRow) :
    nameAct name q { a with ip := false } = { nameAct name q a with ip := false } := by
  unfold nameAct
  split <;> rfl

theorem namesAct_nil (a : PRow) : namesAct [] a = a := rfl
theorem namesAct_cons (g : String × Nat) (gates : List (String × Nat)) (a : PRow) :
    namesAct (g :: gates) a = namesAct gates (nameAct g.1 g.2 a) := rfl

theorem namesAct_isAut (n : Nat) (gates : List (String × Nat)) (hq : ∀ g, g ∈ gates → g.2 < n) :
    IsAut n (namesAct gates) := by
  induction gates with
  | nil => exact isAut_id n
  | cons g gates ih =>
    have h1 := nameAct_isAut n g.1 g.2 (hq g (List.mem_cons_self ..))
    have h2 := ih (fun g' hg' => hq g' (List.mem_cons_of_mem _ hg'))
    exact h2.comp h1

theorem namesAct_ip (gates : List (String × Nat)) (a : PRow) : (namesAct gates a).ip = a.ip := by
  induction gates generalizing a with
  | nil => rfl
  | cons g gates ih => rw [namesAct_cons, ih, nameAct_ip]

theorem namesAct_with_ip (gates : List (String × Nat)) (a : PRow) :
    namesAct gates { a with ip := false } = { namesAct gates a with ip := false } := by
  induction gates generalizing a with
  | nil => rfl
  | cons g gates ih => rw [namesAct_cons, namesAct_cons, nameAct_with_ip, ih]

end Alt
end Graphiq
