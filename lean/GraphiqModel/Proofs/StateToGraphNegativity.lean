/-
  Proofs/StateToGraphNegativity.lean — the two two-qubit states that `_density_to_graph_pure` can meet on a graph state
  (Proofs/StateToGraphDensity.lean: the pair state is the graph state of the induced pair), as exact 4×4 rational matrices:
  `|+⟩|+⟩` (no edge) and `CZ|+⟩|+⟩` (edge).  Their partial transposes (`bipartite_partial_transpose(rho, 2, 2, 0)`, index = 2·a + b) have
  the Jordan decompositions `P − N` (`P`, `N` positive semidefinite, `P N = 0`) with `tr N = 0` resp. `tr N = 1/2`; `tr N` is the
  negativity `Σ (|λ| − λ)/2` the code computes from the eigenvalues (uniqueness of the Jordan decomposition: textbook, cited).
  So the threshold 0.1 of `density_to_graph` separates the two cases.  Finite computations on concrete matrices.
-/
import Mathlib.LinearAlgebra.Matrix.Notation
import Mathlib.LinearAlgebra.Matrix.Trace
import Mathlib.Data.Rat.Defs
import Mathlib.Tactic.FinCases
import Mathlib.Tactic.NormNum
import Mathlib.Tactic.Ring
namespace Graphiq
namespace Neg
open Matrix

abbrev M4 := Matrix (Fin 4) (Fin 4) ℚ

/-- `bipartite_partial_transpose(rho, 2, 2, 0)`: `rho.reshape(2,2,2,2).transpose(2,1,0,3)` — rows `(a,b)`, columns `(c,d)`, index `2a+b`;
    the result at `((a,b),(c,d))` is `rho` at `((c,b),(a,d))` -/
def ptA (M : M4) : M4 := fun r c =>
  M ⟨2 * (c.val / 2) + r.val % 2, by omega⟩ ⟨2 * (r.val / 2) + c.val % 2, by omega⟩

/-- `|+⟩|+⟩⟨+|⟨+|` -/
def rhoPlus : M4 := !![1/4, 1/4, 1/4, 1/4; 1/4, 1/4, 1/4, 1/4; 1/4, 1/4, 1/4, 1/4; 1/4, 1/4, 1/4, 1/4]

/-- `CZ|+⟩|+⟩`: the graph state of one edge, `¼ v vᵀ` with `v = (1, 1, 1, −1)` -/
def rhoEdge : M4 := !![1/4, 1/4, 1/4, -1/4; 1/4, 1/4, 1/4, -1/4; 1/4, 1/4, 1/4, -1/4; -1/4, -1/4, -1/4, 1/4]

/-- the two-qubit Pauli matrices that occur (all real): `X⊗I`, `I⊗X`, `X⊗Z`, `Z⊗X` -/
def XI : M4 := !![0, 0, 1, 0; 0, 0, 0, 1; 1, 0, 0, 0; 0, 1, 0, 0]
def IX : M4 := !![0, 1, 0, 0; 1, 0, 0, 0; 0, 0, 0, 1; 0, 0, 1, 0]
def XZ : M4 := !![0, 0, 1, 0; 0, 0, 0, -1; 1, 0, 0, 0; 0, -1, 0, 0]
def ZX : M4 := !![0, 1, 0, 0; 1, 0, 0, 0; 0, 0, 0, -1; 0, 0, -1, 0]

/-- positive semidefinite, by certificate: a non-negative multiple of a Gram matrix -/
def IsPSD (P : M4) : Prop := ∃ (c : ℚ) (B : M4), 0 ≤ c ∧ P = c • (B * Bᵀ)

/-- Jordan decomposition of a symmetric matrix: `M = P − N` with `P`, `N` positive semidefinite and orthogonal -/
structure Jordan (M P N : M4) : Prop where
  diff : M = P - N
  posP : IsPSD P
  posN : IsPSD N
  orth : P * N = 0

/-- the stabilizer state of the group `⟨X⊗I, I⊗X⟩` is `|++⟩⟨++|` -/
theorem rhoPlus_group_sum : rhoPlus = (1/4 : ℚ) • (1 + XI + IX + XI * IX) := by
  ext i j
  fin_cases i <;> fin_cases j <;> simp [rhoPlus, XI, IX]

/-- the stabilizer state of the group `⟨X⊗Z, Z⊗X⟩` (the generators of the one-edge graph state) is `rhoEdge` -/
theorem rhoEdge_group_sum : rhoEdge = (1/4 : ℚ) • (1 + XZ + ZX + XZ * ZX) := by
  ext i j
  fin_cases i <;> fin_cases j <;> simp [rhoEdge, XZ, ZX] <;> norm_num

/-- the partial transpose of `|++⟩⟨++|` is itself -/
theorem ptA_rhoPlus : ptA rhoPlus = rhoPlus := by
  ext i j
  fin_cases i <;> fin_cases j <;> simp [ptA, rhoPlus]

/-- the partial transpose of the one-edge graph state is `¼ H`, `H` the 4×4 Hadamard matrix -/
def quarterH : M4 := !![1/4, 1/4, 1/4, 1/4; 1/4, 1/4, -1/4, -1/4; 1/4, -1/4, 1/4, -1/4; 1/4, -1/4, -1/4, 1/4]

theorem ptA_rhoEdge : ptA rhoEdge = quarterH := by
  ext i j
  fin_cases i <;> fin_cases j <;> simp [ptA, rhoEdge, quarterH]

/-- negative part of `¼ H`: `½ w wᵀ` with the unit vector `w = ½(−1, 1, 1, 1)` -/
def negPart : M4 := !![1/8, -1/8, -1/8, -1/8; -1/8, 1/8, 1/8, 1/8; -1/8, 1/8, 1/8, 1/8; -1/8, 1/8, 1/8, 1/8]
/-- positive part: `½ (1 − w wᵀ)` -/
def posPart : M4 := !![3/8, 1/8, 1/8, 1/8; 1/8, 3/8, -1/8, -1/8; 1/8, -1/8, 3/8, -1/8; 1/8, -1/8, -1/8, 3/8]

theorem negPart_psd : IsPSD negPart := by
  refine ⟨1/2, !![-1/2, 0, 0, 0; 1/2, 0, 0, 0; 1/2, 0, 0, 0; 1/2, 0, 0, 0], by norm_num, ?_⟩
  ext i j
  rw [Matrix.smul_apply, Matrix.mul_apply, Fin.sum_univ_four]
  simp only [Matrix.transpose_apply]
  fin_cases i <;> fin_cases j <;> simp [negPart] <;> norm_num

theorem posPart_psd : IsPSD posPart := by
  -- `posPart = ½ Q`, `Q = 1 − w wᵀ` a symmetric projector, so `posPart = ½ Q Qᵀ`
  refine ⟨1/2, !![3/4, 1/4, 1/4, 1/4; 1/4, 3/4, -1/4, -1/4; 1/4, -1/4, 3/4, -1/4; 1/4, -1/4, -1/4, 3/4], by norm_num, ?_⟩
  ext i j
  rw [Matrix.smul_apply, Matrix.mul_apply, Fin.sum_univ_four]
  simp only [Matrix.transpose_apply]
  fin_cases i <;> fin_cases j <;> simp [posPart] <;> norm_num

/-- **no edge**: the partial transpose of `|++⟩⟨++|` is positive semidefinite — negativity `0` -/
theorem negativity_plus : Jordan (ptA rhoPlus) rhoPlus 0 ∧ Matrix.trace (0 : M4) = 0 := by
  refine ⟨⟨by rw [ptA_rhoPlus, sub_zero], ?_, ⟨0, 0, le_refl _, by simp⟩, by simp⟩, by simp⟩
  refine ⟨1, !![1/2, 0, 0, 0; 1/2, 0, 0, 0; 1/2, 0, 0, 0; 1/2, 0, 0, 0], by norm_num, ?_⟩
  ext i j
  rw [Matrix.smul_apply, Matrix.mul_apply, Fin.sum_univ_four]
  simp only [Matrix.transpose_apply]
  fin_cases i <;> fin_cases j <;> simp [rhoPlus] <;> norm_num

/-- **edge**: the partial transpose of the one-edge graph state has the negative part `½ w wᵀ` — negativity `1/2` -/
theorem negativity_edge : Jordan (ptA rhoEdge) posPart negPart ∧ Matrix.trace negPart = 1/2 := by
  refine ⟨⟨?_, posPart_psd, negPart_psd, ?_⟩, ?_⟩
  · rw [ptA_rhoEdge]
    ext i j
    fin_cases i <;> fin_cases j <;> simp [quarterH, posPart, negPart] <;> norm_num
  · ext i j
    fin_cases i <;> fin_cases j <;> simp [posPart, negPart, Matrix.mul_apply, Fin.sum_univ_four] <;> norm_num
  · simp [Matrix.trace, Fin.sum_univ_four, negPart]; norm_num

/-- the threshold of `density_to_graph` (`threshold = 0.1`) lies strictly between the two possible negativities -/
theorem threshold_separates : (0 : ℚ) ≤ 1/10 ∧ (1/10 : ℚ) < 1/2 := by norm_num

/-- a certified positive semidefinite matrix has non-negative quadratic form -/
theorem IsPSD.quadratic_nonneg {P : M4} (h : IsPSD P) (x : Fin 4 → ℚ) : 0 ≤ x ⬝ᵥ (P *ᵥ x) := by
  obtain ⟨c, B, hc, rfl⟩ := h
  have : x ⬝ᵥ ((c • (B * Bᵀ)) *ᵥ x) = c * ((Bᵀ *ᵥ x) ⬝ᵥ (Bᵀ *ᵥ x)) := by
    rw [Matrix.smul_mulVec, dotProduct_smul, smul_eq_mul, ← Matrix.mulVec_mulVec, Matrix.dotProduct_mulVec,
      ← Matrix.mulVec_transpose]
  rw [this]
  apply mul_nonneg hc
  unfold dotProduct
  exact Finset.sum_nonneg (fun i _ => mul_self_nonneg _)

end Neg
end Graphiq
