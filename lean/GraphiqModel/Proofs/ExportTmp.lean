/-
  Proofs/Export.lean — lemmas about the export/import model (C14).

  Part 1: facts about the *regenerated* name tables, each closed by kernel `decide` over the whole finite table
          (a changed table entry makes exactly the affected fact fail to build).
  Part 2: `tokenise` inverts concatenation of one-qubit gate names.
  Part 3: what the exporter emits for one operation (`appOf`), for a wrapper via the loop invariant of
          `single_qubit_wrapper_info`; the body loop of `to_openqasm` (`emit`).
  Part 4: the command loop of `from_openqasm` reads `emit` back (induction over the operation list).
  Part 5: JSON.
  Part 6: standard reading of the exported program.
-/
import GraphiqModel.Model.Export
namespace Graphiq.Export

/-! ## Part 1: table facts (kernel-checked on the regenerated literals) -/

theorem Cls.mem_all (k : Cls) : k ∈ Cls.all := by
  cases k with
  | g1 g => cases g <;> decide
  | g2 g => cases g <;> decide
  | gc g => cases g <;> decide
  | measZ => decide

theorem G1.mem_all (g : G1) : g ∈ G1.all := by cases g <;> decide

/-- the openQASM gate name of a one-qubit class ("" if the class had none) -/
def g1Name (g : G1) : Str := (gateName (.g1 g)).getD []
def g2Name (g : G2) : Str := (gateName (.g2 g)).getD []

theorem tbl_gateName_some : ∀ k ∈ Cls.all, (gateName k).isSome = true := by decide
theorem tbl_g1Name_nil : ∀ g ∈ G1.all, (g1Name g == []) = (g == G1.I) := by decide
theorem tbl_g1_roundtrip : ∀ g ∈ G1.all, g ≠ .I → nameToClass (g1Name g) = some (.g1 g) := by decide
theorem tbl_g2_roundtrip : ∀ g ∈ [G2.CNOT, G2.CZ], nameToClass (g2Name g) = some (.g2 g) := by decide
theorem tbl_g1_oneQubit : ∀ g ∈ G1.all, isOneQubit (.g1 g) = true := by decide
theorem tbl_g1_notMulti : ∀ g ∈ G1.all, multiComp (.g1 g) = false := by decide
theorem tbl_classical_x : nameToClass ("classical ".toList ++ ['x']) = some (.gc .CCNOT) := by decide
theorem tbl_classical_z : nameToClass ("classical ".toList ++ ['z']) = some (.gc .CCZ) := by decide
theorem tbl_classical_reset_x : nameToClass ("classical reset ".toList ++ ['x']) = some (.gc .MCR) := by decide
theorem tbl_emptyInfo : emptyInfo.usage = .empty ∧ emptyInfo.multi = false := by decide

/-- JSON: every exportable class survives class → name → class, no JSON name is empty (so `if name:` keeps it), and
    `from_json` picks the constructor signature of the class -/
theorem tbl_json_roundtrip : ∀ k ∈ Cls.all, (classToName k).bind nameToClass = some k := by decide
theorem tbl_json_nonempty : ∀ k ∈ Cls.all, classToName k ≠ some [] := by decide
theorem tbl_json_shape : ∀ k ∈ Cls.all, jsonShape k = k.shape := by decide

/-- shape of a one-qubit gate name that the `sdg|.` tokeniser splits off correctly -/
def tokOK (n : Str) : Bool := n == "sdg".toList || (n.length == 1 && n.head? != some 'd')

theorem tbl_g1_tokOK : ∀ g ∈ G1.all, g ≠ .I → tokOK (g1Name g) = true := by decide

/-- the non-empty one-qubit gate names -/
def g1Names : List Str := (G1.all.filter (· != .I)).map g1Name

/-- no key of `name_to_class_map` is a concatenation of two or more one-qubit gate names -/
theorem tbl_no_key_is_concat :
    ∀ κ ∈ nameToClassTbl.map (·.1), ¬ (2 ≤ (tokenise κ).length ∧ ∀ t ∈ tokenise κ, t ∈ g1Names) := by decide

/-! ## Part 2: `re.findall(r"sdg|.", name)` inverts concatenation of one-qubit gate names -/

theorem tokenise_single (c : Char) (rest : Str) (h : c ≠ 's' ∨ rest.head? ≠ some 'd') :
    tokenise (c :: rest) = [c] :: tokenise rest := by
  apply tokenise.eq_3
  intro r hc hr
  subst hc; subst hr
  simp at h

theorem tokenise_sdg (rest : Str) : tokenise ("sdg".toList ++ rest) = "sdg".toList :: tokenise rest :=
  tokenise.eq_2 rest

theorem tokOK_head (n : Str) (h : tokOK n = true) : n ≠ [] ∧ n.head? ≠ some 'd' := by
  unfold tokOK at h
  simp only [Bool.or_eq_true, beq_iff_eq, Bool.and_eq_true, bne_iff_ne, ne_eq] at h
  rcases h with h | ⟨hl, hd⟩
  · subst h; decide
  · refine ⟨?_, hd⟩
    intro hn; subst hn; simp at hl

theorem tokenise_cons_of_tokOK (n rest : Str) (hn : tokOK n = true) (hrest : rest.head? ≠ some 'd') :
    tokenise (n ++ rest) = n :: tokenise rest := by
  unfold tokOK at hn
  simp only [Bool.or_eq_true, beq_iff_eq, Bool.and_eq_true, bne_iff_ne, ne_eq] at hn
  rcases hn with h | ⟨hl, _⟩
  · subst h; exact tokenise_sdg rest
  · match n, hl with
    | [c], _ => exact tokenise_single c rest (Or.inr hrest)

theorem flatten_head_ne_d (ns : List Str) (h : ∀ n ∈ ns, tokOK n = true) : ns.flatten.head? ≠ some 'd' := by
  cases ns with
  | nil => simp
  | cons m rest =>
    have hm := tokOK_head m (h m (by simp))
    cases m with
    | nil => exact absurd rfl hm.1
    | cons c cs => simpa using hm.2

/-- the tokeniser recovers the list of names from their concatenation -/
theorem tokenise_flatten (ns : List Str) (h : ∀ n ∈ ns, tokOK n = true) : tokenise ns.flatten = ns := by
  induction ns with
  | nil => rfl
  | cons n rest ih =>
    have hrest : ∀ m ∈ rest, tokOK m = true := fun m hm => h m (by simp [hm])
    rw [List.flatten_cons, tokenise_cons_of_tokOK n _ (h n (by simp)) (flatten_head_ne_d rest hrest), ih hrest]

/-! ## Part 3: what the exporter emits -/

theorem gateName_g1 (g : G1) : gateName (.g1 g) = some (g1Name g) := by
  have h := tbl_gateName_some (.g1 g) (Cls.mem_all _)
  unfold g1Name
  cases hg : gateName (.g1 g) with
  | none => rw [hg] at h; simp at h
  | some n => rfl

theorem gateName_g2 (g : G2) : gateName (.g2 g) = some (g2Name g) := by
  have h := tbl_gateName_some (.g2 g) (Cls.mem_all _)
  unfold g2Name
  cases hg : gateName (.g2 g) with
  | none => rw [hg] at h; simp at h
  | some n => rfl

theorem g1Name_nil_iff (g : G1) : g1Name g = [] ↔ g = .I := by
  have h := tbl_g1Name_nil g (G1.mem_all g)
  constructor
  · intro hn; rw [hn] at h; simpa using h.symm
  · intro hg; subst hg; simpa using h

/-- `classInfo` of a one-qubit class, as far as the body of the program depends on it -/
theorem classInfo_g1 (g : G1) : ∃ i, classInfo (.g1 g) = .ok i ∧ i.gateName = g1Name g ∧ i.multi = false ∧
    i.usage = (if g1Name g = [] then Usage.empty else Usage.one (g1Name g)) := by
  refine ⟨{
      gateName := g1Name g, imports := importStrings (.g1 g), defs := (definitions (.g1 g)).map fun d => { text := d },
      usage := usageOf (.g1 g) (g1Name g), multi := multiComp (.g1 g) },
    by simp only [classInfo, gateName_g1], rfl, tbl_g1_notMulti g (G1.mem_all g), ?_⟩
  show usageOf (.g1 g) (g1Name g) = _
  by_cases hg : g = .I
  · subst hg; simp [(g1Name_nil_iff G1.I).2 rfl, usageOf]
  · have : g1Name g ≠ [] := fun h => hg ((g1Name_nil_iff g).1 h)
    simp only [this, if_false]
    cases g <;> first | rfl | exact absurd rfl hg

theorem lookupTbl_dictSet {α : Type} (d : List (Str × α)) (k : Str) (v : α) (n : Str) :
    lookupTbl (dictSet d k v) n = if n = k then some v else lookupTbl d n := by
  unfold dictSet lookupTbl
  rw [List.find?_cons]
  by_cases hn : n = k
  · subst hn; simp
  · have : (k == n) = false := by simp [Ne.symm hn]
    simp [this, hn]

/-- loop invariant of `single_qubit_wrapper_info` (`names` = gate names of the classes seen so far, empty ones included) -/
structure WrapInv (a : WrapAcc) (names : List Str) : Prop where
  gateName : a.gateName = names.flatten
  body : a.body = (names.filter (· ≠ [])).reverse
  dictNil : (lookupTbl a.dict []).isSome = true
  dictOK : ∀ n i, lookupTbl a.dict n = some i →
    i.multi = false ∧ i.usage = (if n = [] then Usage.empty else Usage.one n)

theorem wrapInv_init : WrapInv {} [] := by
  refine ⟨rfl, rfl, by simp [lookupTbl], ?_⟩
  intro n i h
  have h' : lookupTbl (dictSet [] [] emptyInfo) n = some i := h
  rw [lookupTbl_dictSet] at h'
  by_cases hn : n = []
  · subst hn; simp at h'; subst h'; simp [tbl_emptyInfo.1, tbl_emptyInfo.2]
  · simp [hn, lookupTbl] at h'

theorem wrapStep_inv (a : WrapAcc) (names : List Str) (g : G1) (h : WrapInv a names) :
    ∃ a', wrapStep a g = .ok a' ∧ WrapInv a' (names ++ [g1Name g]) := by
  obtain ⟨i, hi, hname, hmulti, husage⟩ := classInfo_g1 g
  by_cases hn : g1Name g = []
  · refine ⟨{ a with dict := dictSet a.dict i.gateName i }, ?_, ?_⟩
    · simp [wrapStep, hi, bind, Except.bind, pure, Except.pure, hname, hn]
    · refine ⟨by simp [h.gateName, hn], by simp [h.body, hn], ?_, ?_⟩
      · simp [lookupTbl_dictSet, hname, hn]
      · intro n j hj
        simp only [lookupTbl_dictSet] at hj
        split at hj
        · rename_i hnk
          simp at hj; subst hj
          rw [hnk, hname]
          exact ⟨hmulti, by simp [husage, hn]⟩
        · exact h.dictOK n j hj
  · refine ⟨{ a with
               dict := dictSet a.dict i.gateName i, imports := a.imports ++ i.imports, defs := a.defs ++ i.defs,
               gateName := a.gateName ++ i.gateName, defUsage := i.gateName ++ " a;\n".toList ++ a.defUsage,
               body := i.gateName :: a.body }, ?_, ?_⟩
    · simp [wrapStep, hi, bind, Except.bind, pure, Except.pure, hname, hn]
    · refine ⟨by simp [h.gateName, hname], by simp [h.body, hname, hn], ?_, ?_⟩
      · simp only [lookupTbl_dictSet]
        split
        · rfl
        · exact h.dictNil
      · intro n j hj
        simp only [lookupTbl_dictSet] at hj
        split at hj
        · rename_i hnk
          simp at hj; subst hj
          rw [hnk, hname]
          exact ⟨hmulti, by simp [husage, hn]⟩
        · exact h.dictOK n j hj

theorem wrapFold_inv (gs : List G1) (a : WrapAcc) (names : List Str) (h : WrapInv a names) :
    ∃ a', gs.foldlM wrapStep a = .ok a' ∧ WrapInv a' (names ++ gs.map g1Name) := by
  induction gs generalizing a names with
  | nil => exact ⟨a, rfl, by simpa using h⟩
  | cons g rest ih =>
    obtain ⟨a1, h1, hinv1⟩ := wrapStep_inv a names g h
    obtain ⟨a2, h2, hinv2⟩ := ih a1 _ hinv1
    refine ⟨a2, ?_, by simpa using hinv2⟩
    simp [List.foldlM_cons, h1, bind, Except.bind, h2]

/-- the concatenated gate name of a wrapper's `operations` list -/
def wrapName (gs : List G1) : Str := (gs.map g1Name).flatten

/-- `single_qubit_wrapper_info`: whether or not the "already defined" shortcut fires, the usage closure applies a gate
    called by the concatenated name (or nothing when every listed class is the identity), never multi-component -/
theorem wrapperInfo_spec (gs : List G1) : ∃ i, singleQubitWrapperInfo gs = .ok i ∧ i.multi = false ∧
    i.usage = (if wrapName gs = [] then Usage.empty else Usage.one (wrapName gs)) := by
  obtain ⟨a, ha, hinv⟩ := wrapFold_inv gs {} [] wrapInv_init
  simp only [List.nil_append] at hinv
  have hgn : a.gateName = wrapName gs := hinv.gateName
  unfold singleQubitWrapperInfo
  simp only [ha, bind, Except.bind]
  cases hl : lookupTbl a.dict a.gateName with
  | some j =>
    refine ⟨j, rfl, (hinv.dictOK _ _ hl).1, ?_⟩
    rw [(hinv.dictOK _ _ hl).2, hgn]
  | none =>
    have hne : a.gateName ≠ [] := by
      intro h0; rw [h0] at hl; have := hinv.dictNil; rw [hl] at this; simp at this
    refine ⟨_, rfl, rfl, ?_⟩
    simp [← hgn, hne]

/-- the group of statements `to_openqasm` appends for one operation (`[]` = nothing is appended) -/
def appOf : Op → List Stmt
  | .one g q => if g1Name g = [] then [] else [.gate (g1Name g) [q]]
  | .wrap gs q => if wrapName gs = [] then [] else [.gate (wrapName gs) [q]]
  | .ctrl g a b => [.gate (g2Name g) [a, b]]
  | .cctrl .CCNOT a b c => [.measure a c, .ifx c "x".toList b]
  | .cctrl .CCZ a b c => [.measure a c, .ifx c "z".toList b]
  | .cctrl .MCR a b c => [.measure a c, .ifx c "x".toList b, .barrier [a, b], .reset a]
  | .meas q c => [.measure q c]

theorem classInfo_ok (k : Cls) : ∃ i, classInfo k = .ok i ∧ i.usage = usageOf k ((gateName k).getD []) ∧ i.multi = multiComp k := by
  have h := tbl_gateName_some k (Cls.mem_all k)
  cases hg : gateName k with
  | none => rw [hg] at h; simp at h
  | some n =>
    refine ⟨{ gateName := n, imports := importStrings k, defs := (definitions k).map fun d => { text := d },
              usage := usageOf k n, multi := multiComp k }, by simp only [classInfo, hg], rfl, rfl⟩

/-- every operation has an openQASM info object whose usage closure produces `appOf` -/
theorem info_spec (op : Op) : ∃ i, op.info = .ok i ∧ useGate i.usage op = .ok (appOf op) := by
  cases op with
  | one g q =>
    obtain ⟨i, hi, _, _, hu⟩ := classInfo_g1 g
    refine ⟨i, hi, ?_⟩
    rw [hu]; unfold appOf
    split <;> simp_all [useGate, Op.qRegs]
  | wrap gs q =>
    obtain ⟨i, hi, _, hu⟩ := wrapperInfo_spec gs
    refine ⟨i, hi, ?_⟩
    rw [hu]; unfold appOf
    split <;> simp_all [useGate, Op.qRegs]
  | ctrl g a b =>
    obtain ⟨i, hi, hu, _⟩ := classInfo_ok (.g2 g)
    refine ⟨i, hi, ?_⟩
    rw [hu]; simp [usageOf, useGate, Op.qRegs, appOf, g2Name]
  | cctrl g a b c =>
    obtain ⟨i, hi, hu, _⟩ := classInfo_ok (.gc g)
    refine ⟨i, hi, ?_⟩
    rw [hu]; cases g <;> simp [usageOf, useGate, Op.qRegs, Op.cRegs, appOf]
  | meas q c =>
    obtain ⟨i, hi, hu, _⟩ := classInfo_ok .measZ
    refine ⟨i, hi, ?_⟩
    rw [hu]; simp [usageOf, useGate, Op.qRegs, Op.cRegs, appOf]

/-- `oq_info.multi_comp` of an operation (`false` if it had no info) -/
def multiOf (op : Op) : Bool := match op.info with | .ok i => i.multi | .error _ => false

/-- the groups the body loop of `to_openqasm` appends, as a function of the `opened_barrier` flag -/
def emit (bar : Stmt) : Bool → List Op → List (List Stmt)
  | _, [] => []
  | opened, op :: rest =>
    (if (opened || multiOf op) && !(appOf op).isEmpty then [[bar]] else []) ++
    (if !(appOf op).isEmpty then [appOf op] else []) ++
    emit bar (if multiOf op then true else if !(appOf op).isEmpty then false else opened) rest

theorem bodyStep_spec (bar : Stmt) (a : BodyAcc) (op : Op) :
    bodyStep bar a op = .ok
      { opened := if multiOf op then true else if !(appOf op).isEmpty then false else a.opened,
        out := a.out ++ (if (a.opened || multiOf op) && !(appOf op).isEmpty then [[bar]] else []) ++
               (if !(appOf op).isEmpty then [appOf op] else []) } := by
  obtain ⟨i, hi, hu⟩ := info_spec op
  have hm : multiOf op = i.multi := by simp [multiOf, hi]
  unfold bodyStep
  simp only [hi, hu, bind, Except.bind, pure, Except.pure, hm]
  congr 1
  cases a.opened <;> cases i.multi <;> cases (appOf op).isEmpty <;> simp

theorem bodyFold_spec (bar : Stmt) (seq : List Op) (a : BodyAcc) :
    ∃ o, seq.foldlM (bodyStep bar) a = .ok { opened := o, out := a.out ++ emit bar a.opened seq } := by
  induction seq generalizing a with
  | nil => exact ⟨a.opened, by simp [emit, pure, Except.pure]⟩
  | cons op rest ih =>
    obtain ⟨o, ho⟩ := ih { opened := if multiOf op then true else if !(appOf op).isEmpty then false else a.opened,
                           out := a.out ++ (if (a.opened || multiOf op) && !(appOf op).isEmpty then [[bar]] else []) ++
                                  (if !(appOf op).isEmpty then [appOf op] else []) }
    refine ⟨o, ?_⟩
    simp only [List.append_assoc] at ho
    simp only [List.foldlM_cons, bodyStep_spec, bind, Except.bind, emit, List.append_assoc]
    exact ho

/-- the header never fails for these operations -/
theorem headerOf_ok (adds : List Op) : ∃ h, headerOf adds = .ok h := by
  unfold headerOf
  generalize (([], []) : List Str × List DefEntry) = acc
  induction adds generalizing acc with
  | nil => exact ⟨acc, rfl⟩
  | cons op rest ih =>
    obtain ⟨i, hi, _⟩ := info_spec op
    simp only [List.foldlM_cons, hi, bind, Except.bind, pure, Except.pure]
    exact ih _

/-- `to_openqasm` succeeds and its body is `emit` -/
theorem toOpenqasm_spec (c : Circuit) (seq : List Op) : ∃ imps defs,
    headerOf c.ops = .ok (imps, defs) ∧
    toOpenqasm c seq = .ok { header := Gen.header.toList, imports := imps, defs := defs, decls := declsOf c,
                              body := emit (.barrier (qregsOf c)) false seq } := by
  obtain ⟨⟨imps, defs⟩, hh⟩ := headerOf_ok c.ops
  obtain ⟨o, ho⟩ := bodyFold_spec (.barrier (qregsOf c)) seq {}
  refine ⟨imps, defs, hh, ?_⟩
  unfold toOpenqasm
  simp only [hh, bind, Except.bind, ho, pure, Except.pure, List.nil_append]

/-! ## Part 4: `from_openqasm` reads the exported body back -/

/-- what one operation becomes under openQASM export followed by import: identities vanish, a wrapper keeps its
    non-identity classes (and is a plain operation again when only one is left) -/
def normOp : Op → Option Op
  | .one g q => if g = .I then none else some (.one g q)
  | .wrap gs q =>
    match gs.filter (· != .I) with
    | [] => none
    | [g] => some (.one g q)
    | gs' => some (.wrap gs' q)
  | op => some op

/-- every register of the operation exists in the circuit -/
def InRange (c : Circuit) (op : Op) : Prop := (∀ q ∈ op.qRegs, q.i < c.nOf q.t) ∧ (∀ r ∈ op.cRegs, r < c.nc)

theorem addReg_fold (n : Nat) (l : List Nat) (h : ∀ r ∈ l, r < n) : l.foldlM addRegIfAbsent n = .ok n := by
  induction l with
  | nil => rfl
  | cons r rest ih =>
    have hr : r < n := h r (by simp)
    have h1 : addRegIfAbsent n r = .ok n := by
      unfold addRegIfAbsent
      have : ¬ r = n := by omega
      have : ¬ r > n := by omega
      simp [*]
    simp only [List.foldlM_cons, h1, bind, Except.bind]
    exact ih (fun r hr => h r (by simp [hr]))

theorem addQ_inRange (c : Circuit) (q : QReg) (h : q.i < c.nOf q.t) : c.addQ q = .ok c := by
  unfold Circuit.addQ
  cases hq : q.t <;> rw [hq] at h <;> simp only [Circuit.nOf] at h
  · have h1 : addRegIfAbsent c.ne q.i = .ok c.ne := by
      unfold addRegIfAbsent
      have : ¬ q.i = c.ne := by omega
      have : ¬ q.i > c.ne := by omega
      simp [*]
    simp [h1, bind, Except.bind, pure, Except.pure]
  · have h1 : addRegIfAbsent c.np q.i = .ok c.np := by
      unfold addRegIfAbsent
      have : ¬ q.i = c.np := by omega
      have : ¬ q.i > c.np := by omega
      simp [*]
    simp [h1, bind, Except.bind, pure, Except.pure]

theorem addQ_fold (c : Circuit) (l : List QReg) (h : ∀ q ∈ l, q.i < c.nOf q.t) : l.foldlM Circuit.addQ c = .ok c := by
  induction l with
  | nil => rfl
  | cons q rest ih =>
    simp only [List.foldlM_cons, addQ_inRange c q (h q (by simp)), bind, Except.bind]
    exact ih (fun r hr => h r (by simp [hr]))

theorem mem_sortQ (l : List QReg) (q : QReg) (h : q ∈ sortQ l) : q ∈ l := by
  unfold sortQ at h
  split at h
  · split at h <;> simp_all [or_comm]
  · exact h

/-- adding an operation whose registers all exist only appends it -/
theorem add_inRange (c : Circuit) (op : Op) (h : InRange c op) : c.add op = .ok { c with ops := c.ops ++ [op] } := by
  unfold Circuit.add
  simp only [addReg_fold c.nc op.cRegs h.2, bind, Except.bind]
  have : (sortQ op.qRegs).foldlM Circuit.addQ { c with nc := c.nc } = .ok { c with nc := c.nc } :=
    addQ_fold _ _ (fun q hq => h.1 q (mem_sortQ _ _ hq))
  simp only [this, pure, Except.pure]

theorem parseCmds_skipped (c : Circuit) (s : Stmt) (l : List Stmt) (hs : s.isSkipped = true) :
    parseCmds c 0 (s :: l) = parseCmds c 0 l := by
  simp [parseCmds, parseStep, hs]

theorem parseCmds_consume (c : Circuit) (k : Nat) (s : Stmt) (l : List Stmt) :
    parseCmds c (k + 1) (s :: l) = parseCmds c k l := by
  simp [parseCmds]

theorem parseCmds_step (c c' : Circuit) (s : Stmt) (l : List Stmt) (op : Op) (k : Nat)
    (h1 : parseStep s l = .ok (some op, k)) (h2 : c.add op = .ok c') :
    parseCmds c 0 (s :: l) = parseCmds c' k l := by
  simp [parseCmds, h1, h2]

end Graphiq.Export
