/-
  Proofs/HilbertBridgeDensity.lean — the executable `DM.pauliMat` / `DM.stabilizerDensity` (`Model/DMSem.lean`: the n-fold
  Kronecker product of one-site Paulis of a row, entry by entry, and `∏_k (1 + (−1)^{r_k} g_k)/2` over ℚ[i]) represent the
  Hilbert-space `pauliMat` / `ρ(t)`:

  * `pauliMat_bare_prod` : the entry of the matrix of a phase-free row is the product of the one-site entries;
  * `rep_pauliMat` : `Rep n (DM.pauliMat n p) (pauliMat n (bare p))`;
  * `rep_stabilizerDensity` : `Rep t.n (DM.stabilizerDensity t) (tabRho t.n t)`;
  * `rep_eqOn` : two executable matrices representing the same complex matrix agree entrywise.
-/
import GraphiqModel.Proofs.HilbertBridgeMat
namespace Graphiq
namespace Hilbert
open Matrix PRow

/-- `f 0 * f 1 * … * f (m-1)` -/
def prodTo {α : Type} [Mul α] [One α] (m : Nat) (f : Nat → α) : α :=
  match m with
  | 0 => 1
  | k + 1 => prodTo k f * f k

theorem prodTo_congr {α : Type} [Mul α] [One α] (m : Nat) (f g : Nat → α) (h : ∀ k, k < m → f k = g k) :
    prodTo m f = prodTo m g := by
  induction m with
  | zero => rfl
  | succ k ih =>
    show prodTo k f * f k = prodTo k g * g k
    rw [ih (fun j hj => h j (Nat.lt_succ_of_lt hj)), h k (Nat.lt_succ_self k)]

theorem foldl_range_prodTo {α : Type} [Mul α] [One α] (m : Nat) (f : Nat → α) :
    (List.range m).foldl (fun acc k => acc * f k) 1 = prodTo m f := by
  induction m with
  | zero => rfl
  | succ k ih => rw [List.range_succ, List.foldl_append, ih]; rfl

theorem map_prodTo (m : Nat) (f : Nat → GQ) : gqC (prodTo m f) = prodTo m (fun k => gqC (f k)) := by
  induction m with
  | zero => show gqC 1 = 1; simp
  | succ k ih => show gqC (prodTo k f * f k) = _; rw [map_mul, ih]; rfl

theorem bare_bare (p : PRow) : bare (bare p) = bare p := rfl

/-- the matrix of a phase-free row on zero qubits is the 1×1 identity -/
theorem pauliMat_bare_zero (p : PRow) (a b : Bits 0) : pauliMat 0 (bare p) a b = 1 := by
  rw [pauliMat_apply]
  have : a = flip (bare p).x b := by funext j; exact j.elim0
  rw [if_pos this]
  show iPow ((bare p).ph + sumTo 0 _) = 1
  simp [bare, PRow.ph, sumTo, Bool.toInt', iPow_zero]

/-- **entries of a Kronecker product of one-site Paulis**: `⊗_k σ(x_k,z_k)` at `(a,b)` is `∏_k σ(x_k,z_k)(a_k,b_k)` -/
theorem pauliMat_bare_prod : ∀ (n : Nat) (p : PRow) (a b : Bits n),
    pauliMat n (bare p) a b = prodTo n (fun k => sigma (p.x k) (p.z k) (bx a k) (bx b k))
  | 0, p, a, b => pauliMat_bare_zero p a b
  | n + 1, p, a, b => by
    rw [pauliMat_succ, pauliMat_bare_prod n p (initB a) (initB b)]
    show _ = prodTo n _ * sigma (p.x n) (p.z n) (bx a n) (bx b n)
    rw [bx_lastB, bx_lastB]
    show _ * sigma (p.x n) (p.z n) (lastB a) (lastB b) = _
    congr 1
    apply prodTo_congr
    intro k hk
    rw [bx_initB a k hk, bx_initB b k hk]

theorem rep2_pauli1 (x z : Bool) : Rep2 (DM.pauli1 x z) (sigma x z) := by
  cases x <;> cases z
  · rw [sigma_ff]; exact rep2_id2
  · rw [sigma_ft]; exact rep2_sigmaz
  · rw [sigma_tf]; exact rep2_sigmax
  · rw [sigma_tt]; exact rep2_sigmay

/-- the executable Pauli matrix of a row (signs not included) -/
theorem rep_pauliMat (n : Nat) (p : PRow) : Rep n (DM.pauliMat n p) (pauliMat n (bare p)) := by
  refine ⟨rfl, fun a b => ?_⟩
  show gqC (DM.pauliEntry n p (idx n a) (idx n b)) = _
  unfold DM.pauliEntry
  rw [foldl_range_prodTo, map_prodTo, pauliMat_bare_prod]
  apply prodTo_congr
  intro k hk
  rw [b2n_digit n a k hk, b2n_digit n b k hk]
  exact (rep2_pauli1 (p.x k) (p.z k)).2 _ _

/-- the matrix of a real row is its sign times the matrix of the phase-free row -/
theorem pauliMat_sign (n : Nat) (p : PRow) (hp : p.ip = false) :
    pauliMat n p = (if p.r then (-1 : ℂ) else 1) • pauliMat n (bare p) := by
  rw [pauliMat_phase n p]
  congr 1
  have : p.ph = 2 * Bool.toInt' p.r := by unfold PRow.ph; rw [hp]; simp [Bool.toInt']
  rw [this, iPow_two_mul_toInt']

/-- one factor `(1 + (−1)^r g)/2` of `stabilizerDensity` -/
theorem rep_projFactor (n : Nat) (p : PRow) :
    Rep n (Mat.smul (1 / 2) (Mat.add (Mat.smul (if p.r then -1 else 1) (DM.pauliMat n p).norm) (Mat.eye (DM.pow2 n)))).norm
      (proj n { p with ip := false }) := by
  have h := (Rep.smul (1 / 2) (Rep.add (Rep.smul (if p.r then -1 else 1) (rep_pauliMat n p).norm) (Rep.eye n))).norm
  refine h.congr ?_
  unfold proj
  rw [pauliMat_sign n { p with ip := false } rfl, add_comm]
  have hb : bare { p with ip := false } = bare p := rfl
  rw [hb]
  congr 2
  · norm_num
  · cases p.r <;> simp

theorem rep_rhoTo (n : Nat) (row : Nat → PRow) : ∀ m : Nat,
    Rep n ((List.range m).foldl (fun ρ k =>
        (Mat.mul ρ (Mat.smul (1 / 2) (Mat.add (Mat.smul (if (row k).r then -1 else 1) (DM.pauliMat n (row k)).norm)
          (Mat.eye (DM.pow2 n)))).norm).norm) (Mat.eye (DM.pow2 n)))
      (rhoTo n (fun k => { row k with ip := false }) m)
  | 0 => Rep.eye n
  | m + 1 => by
    rw [List.range_succ, List.foldl_append]
    exact (Rep.mul (rep_rhoTo n row m) (rep_projFactor n (row m))).norm

/-- **`stabilizerDensity t` represents `ρ(t)`** -/
theorem rep_stabilizerDensity (t : Tab) : Rep t.n (DM.stabilizerDensity t) (tabRho t.n t) :=
  rep_rhoTo t.n (fun k => t.row (k + t.n)) t.n

theorem gqC_injective : Function.Injective gqC := by
  intro a b h
  have h1 := congrArg Complex.re h
  have h2 := congrArg Complex.im h
  simp only [gqC_re, gqC_im] at h1 h2
  exact GQ.ext' (by exact_mod_cast h1) (by exact_mod_cast h2)

/-- executable matrices that represent the same complex matrix are entrywise equal -/
theorem rep_eqOn {n : Nat} {m m' : Mat} {M : DMat n} (h : Rep n m M) (h' : Rep n m' M) : Mat.EqOn m m' := by
  refine ⟨h.1.trans h'.1.symm, fun i j hi hj => ?_⟩
  rw [h.1] at hi hj
  apply gqC_injective
  have := (h.2 (bitsOf n i) (bitsOf n j)).trans (h'.2 (bitsOf n i) (bitsOf n j)).symm
  rwa [idx_bitsOf n i hi, idx_bitsOf n j hj] at this

end Hilbert
end Graphiq
