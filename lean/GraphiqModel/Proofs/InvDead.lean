/-
  Proofs/InvDead.lean — after the repair of graphiq 74abae4 the sixth block of `inverse_circuit` ("Eliminate Zs": the row
  products that clear the z-bits left of the diagonal) never fires: the clearing loop added to the first Hadamard block
  already removes, below every Z-type pivot, the z-bits of its column (`LowZ`), blocks 2–4 keep that, and the second
  Hadamard block leaves a unit vector in every X-type column — so the z-bit matrix after block 5 is the identity.
  All sizes; an invariant carried next to the ones of Proofs/InvBlock1.lean and Proofs/InvRest.lean.  No Mathlib.
-/
import GraphiqModel.Proofs.InvBlock1
namespace Graphiq
open PRow Tab
namespace STab

/-- the z-column of every Z-type row (no x-bit on the diagonal) is cleared below the diagonal -/
def LowZ (N : Nat) (t : STab) : Prop := ∀ c i, c < i → i < N → xb t c c = false → zb t i c = false

/-- the same for the columns `c < j` already processed by block 1 -/
def LowZ1 (N : Nat) (t : STab) (j : Nat) : Prop := ∀ c i, c < j → c < i → i < N → xb t c c = false → zb t i c = false

/-! ### block 1 -/

theorem lowz1_swap (N : Nat) (st : InvState) (j f : Nat) (hn : st.t.n = N) (hj : j < N) (hjf : j ≤ f) (hf : f < N)
    (hl : LowZ1 N st.t j) : LowZ1 N (st.swap j f).t j := by
  intro c i hc hci hi hx
  rw [swap_xb st j f c c (by omega) (by omega), swp_lt j f c hc hjf] at hx
  rw [swap_zb st j f i c (by omega) (by omega)]
  apply hl c _ hc _ (swp_bound j f i N hj hf hi) hx
  by_cases hij : i < j
  · rw [swp_lt j f i hij hjf]; exact hci
  · have := swp_ge j f i (by omega) hjf; omega

theorem lowz1_clear (N j : Nat) (t t2 : STab) (hj : j < N) (hl : LowZ1 N t j)
    (ex : ∀ m c, m < N → c < N → xb t2 m c = xb t m c)
    (ez : ∀ m c, m < N → c < N → zb t2 m c
      = if j < m ∧ zb t m j = true then xor (zb t j c) (zb t m c) else zb t m c) : LowZ1 N t2 j := by
  intro c i hc hci hi hx
  rw [ex c c (by omega) (by omega)] at hx
  rw [ez i c hi (by omega)]
  split
  · rw [hl c j hc hc hj hx, hl c i hc hci hi hx]; rfl
  · exact hl c i hc hci hi hx

theorem lowz1_noH {N k : Nat} {px : Nat → Nat} {t : STab} {j : Nat} (h : Mid N k px t j) (hl : LowZ1 N t j) :
    LowZ1 N t (j + 1) := by
  intro c i hc hci hi hx
  by_cases e : c = j
  · subst e; exact h.colz i hci hi
  · exact hl c i (by omega) hci hi hx

theorem lowz1_withH {N k : Nat} {px : Nat → Nat} {st : InvState} {j : Nat} (h : Mid N k px st.t j) (hj : j < N)
    (hl : LowZ1 N st.t j) : LowZ1 N (st.gate (.H j)).t (j + 1) := by
  have hn := h.n_eq
  have ex : ∀ m c, m < N → c < N → xb (st.gate (.H j)).t m c = if c = j then zb st.t m c else xb st.t m c := by
    intro m c hm hc
    rw [gate_xb st _ m c (by omega) (by omega)]; exact h_x j _ c
  have ez : ∀ m c, m < N → c < N → zb (st.gate (.H j)).t m c = if c = j then xb st.t m c else zb st.t m c := by
    intro m c hm hc
    rw [gate_zb st _ m c (by omega) (by omega)]; exact h_z j _ c
  intro c i hc hci hi hx
  rw [ex c c (by omega) (by omega)] at hx
  rw [ez i c hi (by omega)]
  by_cases e : c = j
  · subst e
    rw [if_pos rfl, h.rowz] at hx; cases hx
  · rw [if_neg e] at hx
    rw [if_neg e]
    exact hl c i (by omega) hci hi hx

/-- one column step of block 1 keeps `LowZ1` (next to `Inv1`) -/
theorem inv1_step_lowz (N k : Nat) (px : Nat → Nat) (st : InvState) (j : Nat) (hj : j < N) (h : Inv1 N k px st.t j)
    (hl : LowZ1 N st.t j) : ∃ st', invStep1 N st j = .ok st' ∧ Inv1 N k px st'.t (j + 1) ∧ LowZ1 N st'.t (j + 1) := by
  have hn := h.n_eq
  obtain ⟨st0, e0, i0⟩ := inv1_step N k px st j hj h
  refine ⟨st0, e0, i0, ?_⟩
  by_cases hp : IsPiv k px j
  · obtain ⟨a, ha, hpa⟩ := hp
    obtain ⟨i, hi1, hi2, hi3, hu, _⟩ := h.piv a ha (by omega)
    rw [hpa] at hi3 hu
    have e1 := invStep1_pivot N st j i hn hi1 hi2 hi3 hu
    rw [e1] at e0
    injection e0 with e0
    subst e0
    have hs := lowz1_swap N st j i hn hj hi1 hi2 hl
    intro c m hc hcm hm hx
    by_cases e : c = j
    · subst e
      rw [swap_xb st c i c c (by omega) (by omega), swp_left] at hx
      rw [hi3] at hx; cases hx
    · exact hs c m (by omega) hcm hm hx
  · have hnox := fun m h1 h2 => h.nox hj hp m h1 h2
    have hex : ∃ i, j ≤ i ∧ i < N ∧ (∀ c, c < N → xb st.t i c = false) ∧ zb st.t i j = true := by
      obtain ⟨S, hS, hpar⟩ := h.surj j (Nat.le_refl _) hj hp
      have := hpar j (Nat.le_refl _) hj hp
      simp only [decide_true] at this
      obtain ⟨i, hi, hb⟩ := parityTo_exists N _ this
      simp only [Bool.and_eq_true] at hb
      obtain ⟨g1, g2⟩ := hS i hi hb.1
      exact ⟨i, g1, hi, g2, hb.2⟩
    obtain ⟨f, hf1, hf2, hf3, hf4, hstep⟩ := invStep1_nonpivot N st j hn hj hnox hex
    have hs := h.swap f hj hf1 hf2
    have hrx : ∀ c, c < N → xb (st.swap j f).t j c = false := by
      intro c hc; rw [swap_xb st j f j c (by omega) (by omega), swp_left]; exact hf3 c hc
    have hrz : zb (st.swap j f).t j j = true := by
      rw [swap_zb st j f j j (by omega) (by omega), swp_left]; exact hf4
    obtain ⟨c1, c2, c3, c4⟩ := invClear_spec N j (st.swap j f) hn hj hs.good hrx
    have hmid : Mid N k px (invClear N j (st.swap j f)).t j := hs.clear hj hp hrx hrz c1 c2 c3 c4
    have hl1 := lowz1_swap N st j f hn hj hf1 hf2 hl
    have hl2 : LowZ1 N (invClear N j (st.swap j f)).t j := lowz1_clear N j _ _ hj hl1 c3 c4
    rw [hstep] at e0
    injection e0 with e0
    rw [← e0]
    split
    · exact lowz1_withH hmid hj hl2
    · exact lowz1_noH hmid hl2

/-- block 1 establishes `LowZ` -/
theorem invBlock1_lowz (t0 : STab) (k : Nat) (px : Nat → Nat) (h : Inv1 t0.n k px t0 0) (s1 : InvState)
    (e : invBlock1 t0 = .ok s1) : LowZ t0.n s1.t := by
  unfold invBlock1 at e
  obtain ⟨s, es, _, hl⟩ := foldlM_range_inv (invStep1 t0.n) (fun j s => Inv1 t0.n k px s.t j ∧ LowZ1 t0.n s.t j) t0.n
    { t := t0, circ := [] } ⟨h, fun c i hc => by omega⟩
    (fun j s hj hq => by
      obtain ⟨s', e', i', l'⟩ := inv1_step_lowz t0.n k px s j hj hq.1 hq.2
      exact ⟨s', e', i', l'⟩)
  rw [es] at e
  injection e with e
  subst e
  intro c i hci hi hx
  exact hl c i (by omega) hci hi hx

/-! ### blocks 2 – 4 keep `LowZ` -/

theorem lowz_step2 (N : Nat) (st : InvState) (j k : Nat) (hjk : j < k) (hk : k < N) (h : B2 N st.t j k)
    (hl : LowZ N st.t) : LowZ N (invStep2 st (j, k)).t := by
  have hn := h.n_eq
  unfold invStep2
  simp only
  split
  · next hx1 =>
    have hx1 : xb st.t j k = true := hx1
    have hjj : xb st.t j j = true := by
      rcases h.diag j (by omega) with h1 | h1
      · exact h1
      · have := h1.1 k (by omega); rw [this] at hx1; cases hx1
    have ex : ∀ m c, m < N → c < N → xb (st.gate (.CNOT j k)).t m c
        = if c = k then xor (xb st.t m c) (xb st.t m j) else xb st.t m c := by
      intro m c hm hc
      rw [gate_xb st _ m c (by omega) (by omega)]; exact cnot_x j k _ c
    have ez : ∀ m c, m < N → c < N → zb (st.gate (.CNOT j k)).t m c
        = if c = j then xor (zb st.t m c) (zb st.t m k) else zb st.t m c := by
      intro m c hm hc
      rw [gate_zb st _ m c (by omega) (by omega)]; exact cnot_z j k _ c
    intro c i hci hi hx
    have hc : c < N := by omega
    rw [ex c c hc hc] at hx
    have hx' : xb st.t c c = false := by
      by_cases e : c = k
      · subst e
        rw [if_pos rfl, h.upper j c hjk hc] at hx
        simpa using hx
      · rw [if_neg e] at hx; exact hx
    have hcj : c ≠ j := by intro e; rw [e, hjj] at hx'; cases hx'
    rw [ez i c hi hc, if_neg hcj]
    exact hl c i hci hi hx'
  · exact hl

theorem block2_lowz (N : Nat) (st : InvState) (hn : st.t.n = N) (hg : st.t.Good) (hp : Post1 st.t) (hl : LowZ N st.t) :
    LowZ N ((pairsLt N).foldl invStep2 st).t := by
  have key := foldl_pairsLt_inv invStep2 (fun j s => B2 N s.t j (j + 1) ∧ LowZ N s.t)
    (fun j k s => B2 N s.t j k ∧ LowZ N s.t) N st
    ⟨⟨hn, hg, fun c i h1 h2 => hp.upper c i h1 (by omega), fun c hc => hp.diag c (by omega),
      fun j' c h1 => by omega, fun c h1 h2 => by omega⟩, hl⟩
    (fun j s _ hq => hq)
    (fun j k s h1 h2 hq => ⟨b2_step N s j k h1 h2 hq.1, lowz_step2 N s j k h1 h2 hq.1 hq.2⟩)
    (fun j s hj hq => ⟨⟨hq.1.n_eq, hq.1.good, hq.1.upper, hq.1.diag, fun j' c h1 h2 h3 => by
        by_cases e : j' = j
        · subst e; exact hq.1.cur c h2 h3 h3
        · exact hq.1.done j' c (by omega) h2 h3, fun c h1 h2 => by omega⟩, hq.2⟩)
  exact key.2

theorem lowz_step3 (N : Nat) (st : InvState) (j k : Nat) (hjk : j < k) (hk : k < N) (h : B3 N st.t j k)
    (hl : LowZ N st.t) : LowZ N (invStep3 st (j, k)).t := by
  have hn := h.n_eq
  unfold invStep3
  simp only
  split
  · next hc1 =>
    have hz1 : zb st.t j k = true := by
      simp only [Bool.and_eq_true] at hc1; exact hc1.2
    have hjj : xb st.t j j = true := by
      rcases h.diag j (by omega) with h1 | h1
      · exact h1
      · have := h1.2.2 k hjk (by omega); rw [this] at hz1; cases hz1
    have ex : ∀ m c, m < N → c < N → xb (st.gate (.CZ j k)).t m c = xb st.t m c := by
      intro m c hm hc
      rw [gate_xb st _ m c (by omega) (by omega)]; exact cz_x j k (by omega) _ c
    have ez : ∀ m c, m < N → c < N → zb (st.gate (.CZ j k)).t m c
        = if c = j then xor (zb st.t m c) (xb st.t m k) else if c = k then xor (zb st.t m c) (xb st.t m j)
          else zb st.t m c := by
      intro m c hm hc
      rw [gate_zb st _ m c (by omega) (by omega)]; exact cz_z j k (by omega) _ c
    intro c i hci hi hx
    have hc : c < N := by omega
    rw [ex c c hc hc] at hx
    have hcj : c ≠ j := by intro e; rw [e, hjj] at hx; cases hx
    rw [ez i c hi hc, if_neg hcj]
    split
    · next e =>
      subst e
      rw [h.xdiag i j hi (by omega) (by omega), hl c i hci hi hx]; rfl
    · exact hl c i hci hi hx
  · exact hl

theorem block3_lowz (N : Nat) (st : InvState) (h : A2 N st.t) (hl : LowZ N st.t) :
    LowZ N ((pairsLt N).foldl invStep3 st).t := by
  have key := foldl_pairsLt_inv invStep3 (fun j s => B3 N s.t j (j + 1) ∧ LowZ N s.t)
    (fun j k s => B3 N s.t j k ∧ LowZ N s.t) N st
    ⟨⟨h.n_eq, h.good, h.xdiag, h.diag, fun j' c h1 => by omega, fun c h1 h2 => by omega⟩, hl⟩
    (fun j s _ hq => hq)
    (fun j k s h1 h2 hq => ⟨b3_step N s j k h1 h2 hq.1, lowz_step3 N s j k h1 h2 hq.1 hq.2⟩)
    (fun j s hj hq => ⟨⟨hq.1.n_eq, hq.1.good, hq.1.xdiag, hq.1.diag, fun j' c h1 h2 h3 => by
        by_cases e : j' = j
        · subst e; exact hq.1.cur c h2 h3 h3
        · exact hq.1.done j' c (by omega) h2 h3, fun c h1 h2 => by omega⟩, hq.2⟩)
  exact key.2

theorem lowz_step4 (N : Nat) (st : InvState) (j : Nat) (hj : j < N) (h : B4 N st.t j) (hl : LowZ N st.t) :
    LowZ N (invStep4 st j).t := by
  have hn := h.n_eq
  unfold invStep4
  split
  · next hc1 =>
    simp only [Bool.and_eq_true] at hc1
    have hxj : xb st.t j j = true := hc1.1
    have ex : ∀ m c, m < N → c < N → xb (st.gate (.P j)).t m c = xb st.t m c := by
      intro m c hm hc
      rw [gate_xb st _ m c (by omega) (by omega)]; exact s_x j _ c
    have ez : ∀ m c, m < N → c < N → zb (st.gate (.P j)).t m c
        = if c = j then xor (zb st.t m c) (xb st.t m j) else zb st.t m c := by
      intro m c hm hc
      rw [gate_zb st _ m c (by omega) (by omega)]; exact s_z j _ c
    intro c i hci hi hx
    have hc : c < N := by omega
    rw [ex c c hc hc] at hx
    have hcj : c ≠ j := by intro e; rw [e, hxj] at hx; cases hx
    rw [ez i c hi hc, if_neg hcj]
    exact hl c i hci hi hx
  · exact hl

theorem block4_lowz (N : Nat) (st : InvState) (h : A3 N st.t) (hl : LowZ N st.t) :
    LowZ N ((List.range N).foldl invStep4 st).t := by
  have key := foldl_range_inv invStep4 (fun j s => B4 N s.t j ∧ LowZ N s.t) N st
    ⟨⟨h.n_eq, h.xdiag, h.diag, h.zupper, h.zcol, fun j' h1 => by omega⟩, hl⟩
    (fun j s hj hq => ⟨b4_step N s j hj hq.1, lowz_step4 N s j hj hq.1 hq.2⟩)
  exact key.2

/-! ### block 5: every column ends with a cleared lower part -/

/-- the z-column is cleared below the diagonal in the columns already processed by block 5 and in the Z-type columns -/
def LowZ5 (N : Nat) (t : STab) (j : Nat) : Prop :=
  ∀ c i, c < i → i < N → (c < j ∨ xb t c c = false) → zb t i c = false

theorem lowz_step5 (N : Nat) (st : InvState) (j : Nat) (hj : j < N) (h : B5 N st.t j) (hl : LowZ5 N st.t j) :
    LowZ5 N (invStep5 st j).t (j + 1) := by
  have hn := h.n_eq
  unfold invStep5
  split
  · next hc1 =>
    have ex : ∀ m c, m < N → c < N → xb (st.gate (.H j)).t m c = if c = j then zb st.t m c else xb st.t m c := by
      intro m c hm hc
      rw [gate_xb st _ m c (by omega) (by omega)]; exact h_x j _ c
    have ez : ∀ m c, m < N → c < N → zb (st.gate (.H j)).t m c = if c = j then xb st.t m c else zb st.t m c := by
      intro m c hm hc
      rw [gate_zb st _ m c (by omega) (by omega)]; exact h_z j _ c
    intro c i hci hi hcond
    have hc : c < N := by omega
    rw [ez i c hi hc]
    by_cases e : c = j
    · subst e
      rw [if_pos rfl]
      exact h.xdiag i c hi hc (by omega)
    · rw [if_neg e]
      apply hl c i hci hi
      rcases hcond with h1 | h1
      · left; omega
      · right
        rw [ex c c hc hc, if_neg e] at h1
        exact h1
  · next hc0 =>
    intro c i hci hi hcond
    have hc : c < N := by omega
    apply hl c i hci hi
    rcases hcond with h1 | h1
    · by_cases e : c = j
      · subst e
        right
        rcases h.hi c (Nat.le_refl _) hc with h3 | h3
        · exfalso; apply hc0
          have hx' : (st.t.row c).x c = true := h3.1
          have hh' : (st.t.row c).z c = false := h3.2 c hc
          simp [hx', hh']
        · exact h3.1
      · left; omega
    · right; exact h1

theorem block5_lowz (N : Nat) (st : InvState) (h : A4 N st.t) (hl : LowZ N st.t) :
    ∀ c i, c < i → i < N → zb ((List.range N).foldl invStep5 st).t i c = false := by
  have key := foldl_range_inv invStep5 (fun j s => B5 N s.t j ∧ LowZ5 N s.t j) N st
    ⟨⟨h.n_eq, h.xdiag, h.zupper, fun c h1 => by omega, fun c _ h2 => h.cols c h2⟩,
      fun c i hci hi hcond => by
        rcases hcond with h1 | h1
        · omega
        · exact hl c i hci hi h1⟩
    (fun j s hj hq => ⟨b5_step N s j hj hq.1, lowz_step5 N s j hj hq.1 hq.2⟩)
  intro c i hci hi
  exact key.2 c i hci hi (Or.inl (by omega))

/-! ### block 6 is the identity -/

theorem foldl_noop {σ α : Type} (f : σ → α → σ) (l : List α) (s : σ) (h : ∀ x, x ∈ l → f s x = s) : l.foldl f s = s := by
  induction l with
  | nil => rfl
  | cons a rest ih =>
    simp only [List.foldl_cons]
    rw [h a List.mem_cons_self]
    exact ih (fun x hx => h x (List.mem_cons_of_mem _ hx))

/-- no pair `j < k` meets the condition of the "Eliminate Zs" block once the z-bit matrix is cleared below the diagonal -/
theorem block6_noop (N : Nat) (s : InvState) (hn : s.t.n = N) (hl : ∀ c i, c < i → i < N → zb s.t i c = false) :
    (pairsLt N).foldl invStep6 s = s := by
  apply foldl_noop
  intro jk hm
  obtain ⟨h1, h2⟩ := mem_pairsLt N jk hm
  unfold invStep6
  have : (s.t.row jk.2).z jk.1 = false := hl jk.1 jk.2 h1 h2
  rw [this]
  simp

/-- blocks 2 to 7 without the "Eliminate Zs" block -/
def invRestNoElim (n : Nat) (s1 : InvState) : InvState :=
  let s2 := (pairsLt n).foldl invStep2 s1
  let s3 := (pairsLt n).foldl invStep3 s2
  let s4 := (List.range n).foldl invStep4 s3
  let s5 := (List.range n).foldl invStep5 s4
  ((List.range n).filter fun i => (s5.t.row i).r).foldl invStep7 s5

/-- the state before the sixth block -/
def invUpTo5 (n : Nat) (s1 : InvState) : InvState :=
  (List.range n).foldl invStep5 ((List.range n).foldl invStep4 ((pairsLt n).foldl invStep3 ((pairsLt n).foldl invStep2 s1)))

/-- **the sixth block does nothing** on the state reached from a `Post1 ∧ LowZ` tableau -/
theorem eliminateZs_identity (s1 : InvState) (hg : s1.t.Good) (hp : Post1 s1.t) (hl : LowZ s1.t.n s1.t) :
    (pairsLt s1.t.n).foldl invStep6 (invUpTo5 s1.t.n s1) = invUpTo5 s1.t.n s1 := by
  unfold invUpTo5
  have a2 := block2 _ s1 rfl hg hp
  have l2 := block2_lowz _ s1 rfl hg hp hl
  have a3 := block3 _ _ a2
  have l3 := block3_lowz _ _ a2 l2
  have a4 := block4 _ _ a3
  have l4 := block4_lowz _ _ a3 l3
  have a5 := block5 _ _ a4
  have l5 := block5_lowz _ _ a4 l4
  exact block6_noop _ _ a5.n_eq l5

theorem invRest_eq_noElim (s1 : InvState) (hg : s1.t.Good) (hp : Post1 s1.t) (hl : LowZ s1.t.n s1.t) :
    invRest s1.t.n s1 = invRestNoElim s1.t.n s1 := by
  have e := eliminateZs_identity s1 hg hp hl
  unfold invUpTo5 at e
  unfold invRest invRestNoElim
  simp only
  rw [e]

end STab
end Graphiq
