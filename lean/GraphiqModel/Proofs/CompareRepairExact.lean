/-
  Proofs/CompareRepairExact.lean — the converse of `iso2_sound`: if two well-formed circuits are renamings of each other
  register by register (`RenamedBy`), the repaired comparison reports them isomorphic.  With `iso2_sound` the repaired
  `circuit_is_isomorphic` decides exactly "equal up to a renaming of the registers within each type".

  Route: the renamed first circuit and the second have the same operation sequence on *every* register (quantum and
  classical), hence differ by exchanges of neighbouring operations that share no register (`SwapW`, the trace-monoid
  projection lemma on all registers); one such exchange is an isomorphism of the DAGs (exchange the two node ids);
  isomorphisms compose; a renamed copy in the same order is isomorphic (`renamed_copy_iso`); the search finds an isomorphism
  whenever one exists (`isoGraphs2_complete`).
-/
import GraphiqModel.Proofs.CompareRepairSearch
import GraphiqModel.Proofs.CompareRepairRenEq
namespace Graphiq.Compare
open Graphiq Graphiq.Export

/-! ## exchanges of neighbouring operations that share no register at all -/

/-- the two operations share no register (quantum or classical) -/
def disjW (a b : Op) : Bool := (opWires a).all fun w => !(opWires b).contains w

inductive SwapW : List Op → List Op → Prop
  | refl (l : List Op) : SwapW l l
  | swap (pre : List Op) (a b : Op) (post : List Op) (h : disjW a b = true) :
      SwapW (pre ++ a :: b :: post) (pre ++ b :: a :: post)
  | trans {l1 l2 l3 : List Op} : SwapW l1 l2 → SwapW l2 l3 → SwapW l1 l3

theorem SwapW.cons (a : Op) {l1 l2 : List Op} (h : SwapW l1 l2) : SwapW (a :: l1) (a :: l2) := by
  induction h with
  | refl l => exact .refl _
  | swap pre x y post hd => exact .swap (a :: pre) x y post hd
  | trans _ _ ih1 ih2 => exact .trans ih1 ih2

theorem disjW_symm (a b : Op) (h : disjW a b = true) : disjW b a = true := by
  unfold disjW at *
  simp only [List.all_eq_true, Bool.not_eq_true', List.contains_eq_mem, decide_eq_false_iff_not] at *
  intro w hw hwa
  exact h w hwa hw

theorem SwapW.symm {x y : List Op} (h : SwapW x y) : SwapW y x := by
  induction h with
  | refl l => exact .refl _
  | swap pre a b post hd => exact .swap pre b a post (disjW_symm a b hd)
  | trans _ _ ih1 ih2 => exact .trans ih2 ih1

theorem SwapW.mem {x y : List Op} (h : SwapW x y) (o : Op) : o ∈ x ↔ o ∈ y := by
  induction h with
  | refl l => exact Iff.rfl
  | swap pre a b post _ => simp only [List.mem_append, List.mem_cons]; tauto
  | trans _ _ ih1 ih2 => exact ih1.trans ih2

theorem moveFrontW (pre : List Op) (a : Op) (post : List Op) (h : ∀ b ∈ pre, disjW b a = true) :
    SwapW (pre ++ a :: post) (a :: pre ++ post) := by
  induction pre with
  | nil => exact .refl _
  | cons b rest ih =>
    have h1 : SwapW (b :: (rest ++ a :: post)) (b :: (a :: rest ++ post)) :=
      SwapW.cons b (ih (fun x hx => h x (by simp [hx])))
    have h2 : SwapW ([] ++ b :: a :: (rest ++ post)) ([] ++ a :: b :: (rest ++ post)) :=
      .swap [] b a (rest ++ post) (h b (by simp))
    exact .trans h1 h2

theorem filter_touches_disjW (pre : List Op) (a : Op) (w : Wire) (hw : touches w a = true)
    (h : ∀ b ∈ pre, disjW b a = true) : pre.filter (touches w) = [] := by
  rw [List.filter_eq_nil_iff]
  intro b hb hbw
  have := h b hb
  unfold disjW at this
  simp only [List.all_eq_true, Bool.not_eq_true', List.contains_eq_mem, decide_eq_false_iff_not] at this
  unfold touches at hw hbw
  simp only [List.contains_eq_mem, decide_eq_true_eq] at hw hbw
  exact this w hbw hw

theorem disjW_false (b a : Op) (h : disjW b a = false) : ∃ w, w ∈ opWires b ∧ w ∈ opWires a := by
  unfold disjW at h
  have : ¬ ((opWires b).all fun w => !(opWires a).contains w) = true := by rw [h]; simp
  simp only [List.all_eq_true, Bool.not_eq_true', List.contains_eq_mem, decide_eq_false_iff_not, not_forall, not_not] at this
  obtain ⟨w, hw, hwa⟩ := this
  exact ⟨w, hw, hwa⟩

theorem split_first_touchingW (a : Op) (l : List Op) (h : ∃ b ∈ l, disjW b a = false) :
    ∃ pre b post, l = pre ++ b :: post ∧ (∀ x ∈ pre, disjW x a = true) ∧ disjW b a = false := by
  induction l with
  | nil => obtain ⟨b, hb, _⟩ := h; cases hb
  | cons x rest ih =>
    by_cases hx : disjW x a = true
    · have : ∃ b ∈ rest, disjW b a = false := by
        obtain ⟨b, hb, hd⟩ := h
        rcases List.mem_cons.1 hb with rfl | hb
        · rw [hx] at hd; cases hd
        · exact ⟨b, hb, hd⟩
      obtain ⟨pre, b, post, he, hp, hb⟩ := ih this
      refine ⟨x :: pre, b, post, by simp [he], ?_, hb⟩
      intro y hy
      rcases List.mem_cons.1 hy with rfl | hy
      · exact hx
      · exact hp y hy
    · exact ⟨[], x, rest, rfl, fun y hy => absurd hy (List.not_mem_nil), by simpa using hx⟩

/-- **projection lemma on all registers**: two operation lists of the same length with the same subsequence on every
    register (quantum or classical) differ only by exchanges of neighbouring operations that share no register -/
theorem swapW_of_wires (l1 l2 : List Op) (hne1 : ∀ o ∈ l1, opWires o ≠ [])
    (hw : ∀ w, l1.filter (touches w) = l2.filter (touches w)) (hlen : l1.length = l2.length) : SwapW l1 l2 := by
  induction l1 generalizing l2 with
  | nil =>
    cases l2 with
    | nil => exact .refl _
    | cons _ _ => simp at hlen
  | cons a rest ih =>
    obtain ⟨w0, hw0⟩ : ∃ w0, w0 ∈ opWires a := by
      cases hqs : opWires a with
      | nil => exact absurd hqs (hne1 a (by simp))
      | cons q _ => exact ⟨q, by simp⟩
    have hw0' : touches w0 a = true := by unfold touches; simpa using hw0
    have hex : ∃ b ∈ l2, disjW b a = false := by
      have h0 := hw w0
      simp only [List.filter_cons, hw0', if_true] at h0
      have hmem : a ∈ l2.filter (touches w0) := by rw [← h0]; simp
      refine ⟨a, (List.mem_filter.1 hmem).1, ?_⟩
      unfold disjW
      apply Bool.eq_false_iff.2
      intro hall
      simp only [List.all_eq_true, Bool.not_eq_true', List.contains_eq_mem, decide_eq_false_iff_not] at hall
      exact hall w0 hw0 hw0
    obtain ⟨pre, b, post, he, hpre, hb⟩ := split_first_touchingW a l2 hex
    subst he
    obtain ⟨w1, hw1b, hw1a⟩ := disjW_false b a hb
    have hw1a' : touches w1 a = true := by unfold touches; simpa using hw1a
    have hw1b' : touches w1 b = true := by unfold touches; simpa using hw1b
    have hba : b = a := by
      have h1 := hw w1
      rw [List.filter_append, filter_touches_disjW pre a w1 hw1a' hpre] at h1
      simp only [List.filter_cons, hw1a', hw1b', if_true, List.nil_append] at h1
      injection h1 with h1 _
      exact h1.symm
    subst hba
    have hw' : ∀ w, rest.filter (touches w) = (pre ++ post).filter (touches w) := by
      intro w
      have h1 := hw w
      rw [List.filter_append] at h1
      rw [List.filter_append]
      by_cases hqa : touches w b = true
      · rw [filter_touches_disjW pre b w hqa hpre] at h1 ⊢
        simp only [List.filter_cons, hqa, if_true, List.nil_append] at h1
        simpa using h1
      · simp only [List.filter_cons, hqa] at h1
        simpa using h1
    have hlen' : rest.length = (pre ++ post).length := by
      simp only [List.length_cons, List.length_append] at hlen ⊢
      omega
    have h1 : SwapW (b :: rest) (b :: (pre ++ post)) :=
      SwapW.cons b (ih (pre ++ post) (fun o ho => hne1 o (by simp [ho])) hw' hlen')
    have h2 : SwapW (pre ++ b :: post) (b :: pre ++ post) := moveFrontW pre b post hpre
    exact .trans h1 h2.symm

/-! ## an exchange as a relabelling of the operation nodes -/

/-- the operation nodes of `l` on register `w` when the first operation has index `k` -/
def bodyFrom (k : Nat) (l : List Op) (w : Wire) : List Nd :=
  ((l.zipIdx k).filter (fun p => decide (w ∈ opWires p.1))).map (fun p => Nd.op (p.2 + 1))

theorem bodyOf_eq_bodyFrom (l : List Op) (w : Wire) : bodyOf l w = bodyFrom 0 l w := rfl

theorem bodyFrom_nil (k : Nat) (w : Wire) : bodyFrom k [] w = [] := rfl

theorem bodyFrom_cons (k : Nat) (a : Op) (l : List Op) (w : Wire) :
    bodyFrom k (a :: l) w = (if w ∈ opWires a then [Nd.op (k + 1)] else []) ++ bodyFrom (k + 1) l w := by
  unfold bodyFrom
  by_cases h : w ∈ opWires a <;> simp [List.zipIdx_cons, List.filter_cons, h]

theorem bodyFrom_append (k : Nat) (l1 l2 : List Op) (w : Wire) :
    bodyFrom k (l1 ++ l2) w = bodyFrom k l1 w ++ bodyFrom (k + l1.length) l2 w := by
  unfold bodyFrom
  rw [List.zipIdx_append, List.filter_append, List.map_append]

theorem mem_bodyFrom (k : Nat) (l : List Op) (w : Wire) (n : Nd) (h : n ∈ bodyFrom k l w) :
    ∃ i, k ≤ i ∧ i < k + l.length ∧ n = .op (i + 1) := by
  unfold bodyFrom at h
  obtain ⟨p, hp, rfl⟩ := List.mem_map.1 h
  have := List.mem_zipIdx (List.mem_filter.1 hp).1
  exact ⟨p.2, this.1, by omega, rfl⟩

/-- the relabelling of operation nodes by a map of operation indices -/
def opShift (σ : Nat → Nat) : Nd → Nd
  | .op k => .op (σ (k - 1) + 1)
  | n => n

/-- `l2` is `l1` reordered by the index map `σ`, and on every register the operation nodes keep their order -/
structure Reord (l1 l2 : List Op) (σ : Nat → Nat) : Prop where
  len : l1.length = l2.length
  get : ∀ i, i < l1.length → l2[σ i]? = l1[i]?
  inj : ∀ i j, i < l1.length → j < l1.length → σ i = σ j → i = j
  body : ∀ w, bodyOf l2 w = (bodyOf l1 w).map (opShift σ)

theorem Reord.lt {l1 l2 : List Op} {σ : Nat → Nat} (h : Reord l1 l2 σ) (i : Nat) (hi : i < l1.length) : σ i < l2.length := by
  have := h.get i hi
  rw [List.getElem?_eq_getElem hi] at this
  by_contra hcon
  rw [List.getElem?_eq_none (by omega)] at this
  cases this

theorem reord_refl (l : List Op) : Reord l l id := by
  refine ⟨rfl, fun _ _ => rfl, fun _ _ _ _ h => h, ?_⟩
  intro w
  conv => lhs; rw [← List.map_id (bodyOf l w)]
  apply List.map_congr_left
  intro n hn
  obtain ⟨i, _, rfl⟩ := mem_bodyOf l w n hn
  rfl

theorem Reord.trans {l1 l2 l3 : List Op} {σ1 σ2 : Nat → Nat} (h1 : Reord l1 l2 σ1) (h2 : Reord l2 l3 σ2) :
    Reord l1 l3 (σ2 ∘ σ1) := by
  refine ⟨h1.len.trans h2.len, ?_, ?_, ?_⟩
  · intro i hi
    simp only [Function.comp]
    rw [h2.get (σ1 i) (h1.lt i hi), h1.get i hi]
  · intro i j hi hj hij
    simp only [Function.comp] at hij
    exact h1.inj i j hi hj (h2.inj _ _ (h1.lt i hi) (h1.lt j hj) hij)
  · intro w
    rw [h2.body w, h1.body w, List.map_map]
    apply List.map_congr_left
    intro n _
    cases n <;> simp [opShift, Function.comp]

/-- the exchange of the operations number `k` and `k + 1` -/
def swapIdx (k : Nat) (i : Nat) : Nat := if i = k then k + 1 else if i = k + 1 then k else i

theorem reord_swap (pre : List Op) (a b : Op) (post : List Op) (h : disjW a b = true) :
    Reord (pre ++ a :: b :: post) (pre ++ b :: a :: post) (swapIdx pre.length) := by
  refine ⟨by simp, ?_, ?_, ?_⟩
  · intro i _
    unfold swapIdx
    by_cases h1 : i = pre.length
    · subst h1
      simp
    · by_cases h2 : i = pre.length + 1
      · subst h2
        simp
      · rw [if_neg h1, if_neg h2]
        by_cases h3 : i < pre.length
        · rw [List.getElem?_append_left h3, List.getElem?_append_left h3]
        · have h4 : pre.length ≤ i := by omega
          rw [List.getElem?_append_right h4, List.getElem?_append_right h4]
          obtain ⟨d, hd⟩ : ∃ d, i - pre.length = d + 2 := ⟨i - pre.length - 2, by omega⟩
          rw [hd]
          simp
  · intro i j _ _ hij
    unfold swapIdx at hij
    split_ifs at hij <;> omega
  · intro w
    have hdis : ¬ (w ∈ opWires a ∧ w ∈ opWires b) := by
      rintro ⟨ha, hb⟩
      unfold disjW at h
      simp only [List.all_eq_true, Bool.not_eq_true', List.contains_eq_mem, decide_eq_false_iff_not] at h
      exact h w ha hb
    rw [bodyOf_eq_bodyFrom, bodyOf_eq_bodyFrom, bodyFrom_append, bodyFrom_append, bodyFrom_cons, bodyFrom_cons,
      bodyFrom_cons, bodyFrom_cons]
    simp only [Nat.zero_add, List.map_append]
    have hpre : (bodyFrom 0 pre w).map (opShift (swapIdx pre.length)) = bodyFrom 0 pre w := by
      conv => rhs; rw [← List.map_id (bodyFrom 0 pre w)]
      apply List.map_congr_left
      intro n hn
      obtain ⟨i, _, hi, rfl⟩ := mem_bodyFrom 0 pre w n hn
      simp only [opShift, swapIdx, Nat.add_sub_cancel, id]
      rw [if_neg (by omega), if_neg (by omega)]
    have hpost : (bodyFrom (pre.length + 1 + 1) post w).map (opShift (swapIdx pre.length))
        = bodyFrom (pre.length + 1 + 1) post w := by
      conv => rhs; rw [← List.map_id (bodyFrom (pre.length + 1 + 1) post w)]
      apply List.map_congr_left
      intro n hn
      obtain ⟨i, hi, _, rfl⟩ := mem_bodyFrom _ post w n hn
      simp only [opShift, swapIdx, Nat.add_sub_cancel, id]
      rw [if_neg (by omega), if_neg (by omega)]
    rw [hpre, hpost]
    congr 1
    rw [← List.append_assoc, ← List.append_assoc]
    congr 1
    by_cases ha : w ∈ opWires a
    · have hb : w ∉ opWires b := fun hb => hdis ⟨ha, hb⟩
      simp [ha, hb, opShift, swapIdx]
    · by_cases hb : w ∈ opWires b
      · simp [ha, hb, opShift, swapIdx]
      · simp [ha, hb]

theorem reord_of_swapW {l1 l2 : List Op} (h : SwapW l1 l2) : ∃ σ, Reord l1 l2 σ := by
  induction h with
  | refl l => exact ⟨id, reord_refl l⟩
  | swap pre a b post hd => exact ⟨_, reord_swap pre a b post hd⟩
  | trans _ _ ih1 ih2 =>
    obtain ⟨σ1, h1⟩ := ih1
    obtain ⟨σ2, h2⟩ := ih2
    exact ⟨_, h1.trans h2⟩

/-! ## a renamed and reordered copy is isomorphic -/

/-- the node map of a renaming `π` of the registers and a reordering `σ` of the operations -/
def nodeRen2 (π : Wire → Wire) (σ : Nat → Nat) : Nd → Nd
  | .inp w => .inp (π w)
  | .out w => .out (π w)
  | .op k => .op (σ (k - 1) + 1)

/-- **a copy with renamed registers whose operations are reordered without changing the order on any register is
    isomorphic** -/
theorem renamed_reordered_iso (c : Circuit) (l2 : List Op) (h : ∀ o ∈ c.ops, OpOK (wiresN c.ne c.np c.nc) o)
    (π : Wire → Wire) (σ : Nat → Nat)
    (hπ : IsRenaming (wiresN c.ne c.np c.nc) π) (hsurj : ∀ w2 ∈ wiresN c.ne c.np c.nc, ∃ w ∈ wiresN c.ne c.np c.nc, π w = w2)
    (hre : Reord (c.ops.map (renOp π)) l2 σ) :
    ∃ g1 g2 f, MG.build c = .ok g1 ∧ MG.build ⟨c.ne, c.np, c.nc, l2⟩ = .ok g2 ∧
      isoCheck2 g1.addControlTarget2 g2.addControlTarget2 f = true := by
  have hlenl : (c.ops.map (renOp π)).length = c.ops.length := List.length_map _
  have hlen2 : l2.length = c.ops.length := by rw [← hre.len, hlenl]
  have hσlt : ∀ i, i < c.ops.length → σ i < l2.length := fun i hi => hre.lt i (by rw [hlenl]; exact hi)
  have hσget : ∀ i (hi : i < c.ops.length), l2[σ i]'(hσlt i hi) = renOp π c.ops[i] := by
    intro i hi
    have := hre.get i (by rw [hlenl]; exact hi)
    rw [List.getElem?_eq_getElem (hσlt i hi), List.getElem?_eq_getElem (by rw [hlenl]; exact hi), List.getElem_map] at this
    exact Option.some.inj this
  have h2 : ∀ o ∈ (⟨c.ne, c.np, c.nc, l2⟩ : Circuit).ops, OpOK (wiresN c.ne c.np c.nc) o := by
    intro o ho
    simp only at ho
    obtain ⟨j, hj, rfl⟩ := List.getElem_of_mem ho
    -- every index of `l2` is hit by `σ`
    have hsur : ∃ i, i < c.ops.length ∧ σ i = j := by
      by_contra hcon
      have hcon' : ∀ i, i < c.ops.length → σ i ≠ j := fun i hi hij => hcon ⟨i, hi, hij⟩
      have hinjOn : ((List.range c.ops.length).map σ).Nodup := by
        apply List.Nodup.map_on _ List.nodup_range
        intro a ha b hb hab
        exact hre.inj a b (by rw [hlenl]; exact List.mem_range.1 ha) (by rw [hlenl]; exact List.mem_range.1 hb) hab
      have hsub : ((List.range c.ops.length).map σ) ⊆ (List.range l2.length).erase j := by
        intro x hx
        obtain ⟨i, hi, rfl⟩ := List.mem_map.1 hx
        have hi' := List.mem_range.1 hi
        exact (List.Nodup.mem_erase_iff List.nodup_range).2 ⟨hcon' i hi', List.mem_range.2 (hσlt i hi')⟩
      have hle := (List.subperm_of_subset hinjOn hsub).length_le
      rw [List.length_map, List.length_range, List.length_erase_of_mem (List.mem_range.2 hj), List.length_range] at hle
      omega
    obtain ⟨i, hi, rfl⟩ := hsur
    rw [hσget i hi]
    exact opOK_renOp _ π hπ _ (h _ (List.getElem_mem _))
  obtain ⟨g1, hb1, i1, _⟩ := build_rep c h
  obtain ⟨g2, hb2, i2, _⟩ := build_rep ⟨c.ne, c.np, c.nc, l2⟩ h2
  have hc1 := i1.names_cases
  obtain ⟨B1, r1, _, _, _, hon1, hnames1, hgl1, hio1, _, hbo1, hat1, ht1⟩ := i1
  obtain ⟨B2, r2, _, _, _, hon2, hnames2, hgl2, hio2, _, hbo2, hat2, ht2⟩ := i2
  simp only at hgl2 hbo2 hat2
  refine ⟨g1, g2, pairsOf (g1.nodes.map (·.1)) (nodeRen2 π σ), hb1, hb2, ?_⟩
  rw [addControlTarget2_eq g1 _ B1 r1, addControlTarget2_eq g2 _ B2 r2]
  apply isoCheck2_of_facts _ _ _ (nodeRen2 π σ) (fun n hn => applyMap_pairsOf _ _ n hn)
  have hvalid : ∀ o ∈ c.ops, ∀ w ∈ opWires o, w ∈ wiresN c.ne c.np c.nc := fun o ho => (h o ho).1
  apply iso2_of_paths g1.labelled g2.labelled _ _ B1 B2 r1.labelled r2.labelled (tripNodup_labelled g1 ht1)
    (tripNodup_labelled g2 ht2) (nodeRen2 π σ) π hπ.into hsurj hπ.inj
  · show (g1.nodes.map (·.1)).length = (g2.nodes.map (·.1)).length
    rw [List.length_map, List.length_map, length_io_gate g1.nodes, length_io_gate g2.nodes, hgl1, hgl2, hio1, hio2, hlen2]
  · intro a ha b hb hab
    rcases hc1 a ha with ⟨w, hw, rfl, _⟩ | ⟨w, hw, rfl, _⟩ | ⟨i, hi, rfl, _⟩ <;>
      rcases hc1 b hb with ⟨w', hw', rfl, _⟩ | ⟨w', hw', rfl, _⟩ | ⟨j, hj, rfl, _⟩ <;>
      simp only [nodeRen2, Nd.inp.injEq, Nd.out.injEq, Nd.op.injEq, reduceCtorEq, Nat.add_sub_cancel,
        Nat.add_right_cancel_iff] at hab ⊢
    · exact hπ.inj w hw w' hw' hab
    · exact hπ.inj w hw w' hw' hab
    · exact hre.inj i j (by rw [hlenl]; exact hi) (by rw [hlenl]; exact hj) hab
  · exact hnames1
  · intro n hn
    show nodeRen2 π σ n ∈ g2.nodes.map (·.1)
    rcases hc1 n hn with ⟨w, hw, rfl, _⟩ | ⟨w, hw, rfl, _⟩ | ⟨i, hi, rfl, _⟩
    · exact opOf_some_mem g2 _ _ (r2.inpOp _ (hπ.into w hw))
    · exact opOf_some_mem g2 _ _ (r2.outOp _ (hπ.into w hw))
    · exact opOf_some_mem g2 _ _ (hat2 (σ i) (hσlt i hi))
  · intro n hn
    show ∃ a b, g1.opOf n = some a ∧ g2.opOf (nodeRen2 π σ n) = some b ∧ nodeMatch a b = true
    rcases hc1 n hn with ⟨w, hw, rfl, ho⟩ | ⟨w, hw, rfl, ho⟩ | ⟨i, hi, rfl, ho⟩
    · refine ⟨_, _, ho, r2.inpOp _ (hπ.into w hw), ?_⟩
      have := hπ.ty w hw
      cases w with | mk t k => cases hπw : π ⟨t, k⟩ with | mk t' k' =>
      rw [hπw] at this
      simp only at this
      subst this
      cases t' <;> simp [nodeMatch]
    · refine ⟨_, _, ho, r2.outOp _ (hπ.into w hw), ?_⟩
      have := hπ.ty w hw
      cases w with | mk t k => cases hπw : π ⟨t, k⟩ with | mk t' k' =>
      rw [hπw] at this
      simp only at this
      subst this
      cases t' <;> simp [nodeMatch]
    · refine ⟨_, _, ho, hat2 (σ i) (hσlt i hi), ?_⟩
      rw [hσget i hi]
      exact nodeMatch_renOp π _
  · intro w hw
    unfold pathOf
    rw [hbo2 (π w), hbo1 w, hre.body (π w), bodyOf_map_renOp _ π hπ c.ops hvalid w hw]
    simp only [List.map_cons, List.map_append, List.map_nil, nodeRen2]
    congr 2
    apply List.map_congr_left
    intro n hn
    obtain ⟨i, _, rfl⟩ := mem_bodyOf c.ops w n hn
    rfl
  · intro w hw n hn
    show role (g2.opOf (nodeRen2 π σ n)) (π w) = role (g1.opOf n) w
    rcases (mem_pathOf B1 w n).1 hn with rfl | hb | rfl
    · rw [r1.inpOp w hw]
      show role (g2.opOf (.inp (π w))) (π w) = _
      rw [r2.inpOp _ (hπ.into w hw)]; rfl
    · rw [hbo1 w] at hb
      obtain ⟨i, hi, rfl⟩ := mem_bodyOf c.ops w n hb
      show role (g2.opOf (.op (σ (i + 1 - 1) + 1))) (π w) = _
      rw [Nat.add_sub_cancel, hat1 i hi, hat2 (σ i) (hσlt i hi), hσget i hi]
      exact role_renOp _ π hπ _ (hvalid _ (List.getElem_mem _)) w hw
    · rw [r1.outOp w hw]
      show role (g2.opOf (.out (π w))) (π w) = _
      rw [r2.outOp _ (hπ.into w hw)]; rfl

/-! ## the exact characterisation -/

theorem RenamedBy.isRenaming {π : Wire → Wire} {c1 c2 : Circuit} (h : RenamedBy π c1 c2) :
    IsRenaming (wiresN c1.ne c1.np c1.nc) π :=
  ⟨fun w hw => (h.into w hw).1, fun w hw => (h.into w hw).2, h.inj⟩

/-- on every register (quantum or classical) the renamed first circuit and the second have the same operation sequence -/
theorem RenamedBy.wires_all {π : Wire → Wire} {c1 c2 : Circuit} (h : RenamedBy π c1 c2)
    (h1 : ∀ o ∈ c1.ops, OpOK (wiresN c1.ne c1.np c1.nc) o) (h2 : ∀ o ∈ c2.ops, OpOK (wiresN c2.ne c2.np c2.nc) o) :
    ∀ w, (c1.ops.map (renOp π)).filter (touches w) = c2.ops.filter (touches w) := by
  have hW2 : wiresN c2.ne c2.np c2.nc = wiresN c1.ne c1.np c1.nc := by rw [h.ne, h.np, h.nc]
  have hπ := h.isRenaming
  intro w
  by_cases hw : w ∈ wiresN c1.ne c1.np c1.nc
  · obtain ⟨w0, hw0, rfl⟩ := h.surj w hw
    rw [h.wires w0 hw0, List.filter_map]
    congr 1
    apply List.filter_congr
    intro o ho
    simp only [Function.comp, touches, List.contains_eq_mem]
    apply Bool.eq_iff_iff.2
    simp only [decide_eq_true_eq]
    exact mem_opWires_renOp _ π hπ o (h1 o ho).1 w0 hw0
  · have e1 : (c1.ops.map (renOp π)).filter (touches w) = [] := by
      rw [List.filter_eq_nil_iff]
      intro o ho ht
      obtain ⟨o', ho', rfl⟩ := List.mem_map.1 ho
      unfold touches at ht
      simp only [List.contains_eq_mem, decide_eq_true_eq] at ht
      exact hw ((opOK_renOp _ π hπ o' (h1 o' ho')).1 w ht)
    have e2 : c2.ops.filter (touches w) = [] := by
      rw [List.filter_eq_nil_iff]
      intro o ho ht
      unfold touches at ht
      simp only [List.contains_eq_mem, decide_eq_true_eq] at ht
      exact hw (hW2 ▸ (h2 o ho).1 w ht)
    rw [e1, e2]

/-- the renamed first circuit and the second differ by exchanges of neighbouring operations that share no register -/
theorem RenamedBy.swapW {π : Wire → Wire} {c1 c2 : Circuit} (h : RenamedBy π c1 c2)
    (h1 : ∀ o ∈ c1.ops, OpOK (wiresN c1.ne c1.np c1.nc) o) (h2 : ∀ o ∈ c2.ops, OpOK (wiresN c2.ne c2.np c2.nc) o) :
    SwapW (c1.ops.map (renOp π)) c2.ops := by
  have hne : ∀ o : Op, opWires o ≠ [] := by
    intro o
    unfold opWires
    have := qRegs_ne_nil o
    cases hq : o.qRegs with
    | nil => exact absurd hq this
    | cons _ _ => simp
  have hneq : ∀ o ∈ c1.ops.map (renOp π), o.qRegs ≠ [] := fun o _ => qRegs_ne_nil o
  exact swapW_of_wires _ _ (fun o _ => hne o) (h.wires_all h1 h2)
    (length_eq_of_wires _ _ hneq (fun o _ => qRegs_ne_nil o) (h.wires_q h1 h2))

/-- **completeness of the repaired comparison**: circuits that are renamings of each other register by register are
    reported isomorphic, whatever the order in which operations on different registers were appended -/
theorem RenamedBy.reported {π : Wire → Wire} {c1 c2 : Circuit} (h : RenamedBy π c1 c2)
    (h1 : ∀ o ∈ c1.ops, OpOK (wiresN c1.ne c1.np c1.nc) o) (h2 : ∀ o ∈ c2.ops, OpOK (wiresN c2.ne c2.np c2.nc) o) :
    circuitIsIsomorphic2 c1 c2 = .ok true := by
  obtain ⟨σ, hre⟩ := reord_of_swapW (h.swapW h1 h2)
  have hc2 : c2 = ⟨c1.ne, c1.np, c1.nc, c2.ops⟩ := by
    cases c2
    simp only [Circuit.mk.injEq, and_true]
    exact ⟨h.ne.symm, h.np.symm, h.nc.symm⟩
  have h2' : ∀ o ∈ (⟨c1.ne, c1.np, c1.nc, c2.ops⟩ : Circuit).ops, OpOK (wiresN c1.ne c1.np c1.nc) o := by
    intro o ho
    have := h2 o ho
    rw [h.ne, h.np, h.nc]
    exact this
  rw [hc2]
  obtain ⟨g1, g2, f, hb1, hb2, hcheck⟩ := renamed_reordered_iso c1 c2.ops h1 π σ h.isRenaming h.surj hre
  obtain ⟨g1', hb1', i1, _⟩ := build_rep c1 h1
  obtain ⟨g2', hb2', i2, _⟩ := build_rep ⟨c1.ne, c1.np, c1.nc, c2.ops⟩ h2'
  rw [hb1] at hb1'; injection hb1' with e1; subst e1
  rw [hb2] at hb2'; injection hb2' with e2; subst e2
  obtain ⟨B1, r1, _, _, _, _, hnames1, _⟩ := i1
  obtain ⟨B2, r2, _⟩ := i2
  unfold circuitIsIsomorphic2
  rw [hb1, hb2]
  simp only [bind, Except.bind, pure, Except.pure]
  rw [isoGraphs2_complete g1 g2 _ _ B1 B2 r1 r2 hnames1 (mapFn f) (isoCheck2_facts _ _ f hcheck).2]

/-- **the repaired `circuit_is_isomorphic` decides exactly "equal up to a renaming of the registers within each type"** -/
theorem iso2_exact (c1 c2 : Circuit) (h1 : ∀ o ∈ c1.ops, OpOK (wiresN c1.ne c1.np c1.nc) o)
    (h2 : ∀ o ∈ c2.ops, OpOK (wiresN c2.ne c2.np c2.nc) o) :
    circuitIsIsomorphic2 c1 c2 = .ok true ↔ ∃ π, RenamedBy π c1 c2 :=
  ⟨iso2_sound c1 c2 h1 h2, fun ⟨_, h⟩ => h.reported h1 h2⟩

end Graphiq.Compare
