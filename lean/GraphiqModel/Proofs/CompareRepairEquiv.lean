/-
  Proofs/CompareRepairEquiv.lean — the repaired isomorphism relation is reflexive and symmetric (the identity map passes
  `isoCheck2`; the inverse of a map that passes it passes it in the other direction), and a circuit is isomorphic to its
  copy: the DAG `MG.build` produces has distinct node names and every node carries an operation.
-/
import GraphiqModel.Proofs.CompareRepairDirect
namespace Graphiq.Compare
open Graphiq Graphiq.Export

theorem edgeMatch2_refl (es : List Edge) : edgeMatch2 es es = true := by
  simp [edgeMatch2]

theorem edgeMatch2_symm (a b : List Edge) : edgeMatch2 a b = edgeMatch2 b a := by
  unfold edgeMatch2
  apply Bool.eq_iff_iff.2
  simp only [List.all_eq_true, List.mem_append, beq_iff_eq]
  constructor
  · intro h v hv; exact (h v hv.symm).symm
  · intro h v hv; exact (h v hv.symm).symm

theorem isoCheck2_of_facts (g1 g2 : MG) (f : List (Nd × Nd)) (φ : Nd → Nd)
    (happ : ∀ n ∈ g1.nodes.map (·.1), applyMap f n = some (φ n)) (h : IsoFacts2 g1 g2 φ) : isoCheck2 g1 g2 f = true := by
  have himg : (g1.nodes.map (·.1)).map (applyMap f) = (g1.nodes.map (·.1)).map (fun n => some (φ n)) :=
    List.map_congr_left happ
  have hfm : ((g1.nodes.map (·.1)).map (fun n => some (φ n))).filterMap id = (g1.nodes.map (·.1)).map φ := by
    rw [List.filterMap_map]
    have : (id ∘ fun n => some (φ n)) = fun n => some (φ n) := rfl
    rw [this]
    induction g1.nodes.map (·.1) with
    | nil => rfl
    | cons n rest ih => simp [ih]
  unfold isoCheck2
  simp only [himg, hfm, Bool.and_eq_true, List.all_eq_true, beq_iff_eq]
  refine ⟨⟨⟨⟨⟨h.len, ?_⟩, (nodupNd_iff _).2 h.nodup⟩, ?_⟩, ?_⟩, ?_⟩
  · intro o ho
    obtain ⟨n, _, rfl⟩ := List.mem_map.1 ho
    rfl
  · intro m hm
    obtain ⟨n, hn, rfl⟩ := List.mem_map.1 hm
    simpa using h.into n hn
  · intro n hn
    rw [happ n hn]
    obtain ⟨a, b, ha, hb, hab⟩ := h.nodes n hn
    simp only [ha, hb, hab]
  · intro u hu v hv
    rw [happ u hu, happ v hv]
    have := h.edges u hu v hv
    simp [this.1, this.2]

/-- **the repaired check is reflexive**: on a DAG with distinct node names in which every node carries an operation the
    identity map passes it -/
theorem isoCheck2_refl (g : MG) (hnd : (g.nodes.map (·.1)).Nodup)
    (hop : ∀ n ∈ g.nodes.map (·.1), ∃ o, g.opOf n = some o) : isoCheck2 g g (idMapOf g) = true := by
  apply isoCheck2_of_facts g g _ id (fun n hn => applyMap_id g n hn)
  refine ⟨rfl, by simpa using hnd, fun n hn => hn, ?_, ?_⟩
  · intro n hn
    obtain ⟨o, ho⟩ := hop n hn
    exact ⟨o, o, ho, ho, nodeMatch_refl o⟩
  · intro u _ v _
    exact ⟨rfl, edgeMatch2_refl _⟩

/-- **the repaired isomorphism relation is symmetric** -/
theorem isoCheck2_symm (g1 g2 : MG) (f : List (Nd × Nd)) (h : isoCheck2 g1 g2 f = true) :
    isoCheck2 g2 g1 (invMap f (g1.nodes.map (·.1))) = true := by
  obtain ⟨_, hf⟩ := isoCheck2_facts g1 g2 f h
  let ns1 := g1.nodes.map (·.1)
  let ns2 := g2.nodes.map (·.1)
  let φ := mapFn f
  have hinj : ∀ a ∈ ns1, ∀ b ∈ ns1, φ a = φ b → a = b := hf.inj
  have hsub : ns1.map φ ⊆ ns2 := by
    intro m hm
    obtain ⟨n, hn, rfl⟩ := List.mem_map.1 hm
    exact hf.into n hn
  have hperm : (ns1.map φ).Perm ns2 :=
    (List.subperm_of_subset hf.nodup hsub).perm_of_length_le (by simp [ns1, ns2, ← hf.len])
  have hnd2 : ns2.Nodup := hperm.nodup_iff.1 hf.nodup
  have hsurj : ∀ m ∈ ns2, ∃ n ∈ ns1, φ n = m := hf.surj
  let ψ : Nd → Nd := mapFn (invMap f ns1)
  have hψ : ∀ n ∈ ns1, ψ (φ n) = n := by
    intro n hn
    show (applyMap (invMap f ns1) (mapFn f n)).getD _ = n
    rw [applyMap_invMap f ns1 hinj n hn]; rfl
  have happ : ∀ m ∈ ns2, applyMap (invMap f ns1) m = some (ψ m) := by
    intro m hm
    obtain ⟨n, hn, rfl⟩ := hsurj m hm
    rw [hψ n hn]
    exact applyMap_invMap f ns1 hinj n hn
  apply isoCheck2_of_facts g2 g1 _ ψ happ
  refine ⟨hf.len.symm, ?_, ?_, ?_, ?_⟩
  · apply (List.nodup_map_iff_inj_on hnd2).2
    intro a ha b hb hab
    show a = b
    obtain ⟨na, hna, rfl⟩ := hsurj a ha
    obtain ⟨nb, hnb, rfl⟩ := hsurj b hb
    rw [hψ na hna, hψ nb hnb] at hab
    rw [hab]
  · intro m hm
    obtain ⟨n, hn, rfl⟩ := hsurj m hm
    rw [hψ n hn]; exact hn
  · intro m hm
    obtain ⟨n, hn, rfl⟩ := hsurj m hm
    rw [hψ n hn]
    obtain ⟨a, b, ha, hb, hab⟩ := hf.nodes n hn
    exact ⟨b, a, hb, ha, by rw [nodeMatch_symm]; exact hab⟩
  · intro u' hu' v' hv'
    obtain ⟨u, hu, rfl⟩ := hsurj u' hu'
    obtain ⟨v, hv, rfl⟩ := hsurj v' hv'
    rw [hψ u hu, hψ v hv]
    have := hf.edges u hu v hv
    exact ⟨this.1.symm, by rw [edgeMatch2_symm]; exact this.2⟩

/-- **a circuit is isomorphic to its copy** (the repaired check, on the DAG as built and on the normalised DAG): the
    identity map passes the check — `networkx.is_isomorphic`, deciding existence, answers `True` -/
theorem build_iso_refl (c : Circuit) (h : ∀ o ∈ c.ops, OpOK (wiresN c.ne c.np c.nc) o) :
    ∃ g, MG.build c = .ok g ∧ isoCheck2 g.addControlTarget2 g.addControlTarget2 (idMapOf g.addControlTarget2) = true ∧
      isoCheck2 g.normalise.addControlTarget2 g.normalise.addControlTarget2 (idMapOf g.normalise.addControlTarget2) = true := by
  obtain ⟨g, hb, hi, _⟩ := build_rep c h
  refine ⟨g, hb, ?_, ?_⟩
  · obtain ⟨body, r, _, _, _, _, hnames, _⟩ := hi
    rw [addControlTarget2_eq g _ body r]
    apply isoCheck2_refl
    · exact hnames
    · intro n hn
      obtain ⟨p, hp, rfl⟩ := List.mem_map.1 hn
      exact ⟨p.2, opOf_of_mem g hnames p hp⟩
  · -- the normalised DAG: its names are still distinct
    obtain ⟨body, r, _, hid, _, hon, hnames, _⟩ := hi
    have h0 : NInv _ g body := ⟨r, hon, hnames, hid⟩
    obtain ⟨body1, h1, _, _, _, _⟩ := unwrap_fold (g.nodes.filter (fun p => isWrapper p.2)) g body h0
      (hnames.sublist (List.Sublist.map _ List.filter_sublist))
      (by
        intro p hp
        obtain ⟨a, b⟩ := List.mem_filter.1 hp
        exact ⟨opOf_of_mem g hnames p a, b⟩)
      (by
        intro m gs q hm
        have := opOf_some_pair_mem g m _ hm
        exact List.mem_map.2 ⟨_, List.mem_filter.2 ⟨this, rfl⟩, rfl⟩)
    rw [← unwrapNodes_eq] at h1
    obtain ⟨body2, h2, _, _, _, _⟩ := ident_fold (g.unwrapNodes.nodes.filter (fun p => isIdentityNode p.2)) g.unwrapNodes body1 h1
      (h1.names.sublist (List.Sublist.map _ List.filter_sublist))
      (by
        intro p hp
        obtain ⟨a, b⟩ := List.mem_filter.1 hp
        exact ⟨opOf_of_mem _ h1.names p a, b⟩)
      (by
        intro m q hm
        have := opOf_some_pair_mem _ m _ hm
        exact List.mem_map.2 ⟨_, List.mem_filter.2 ⟨this, rfl⟩, rfl⟩)
    rw [← removeIdentity_eq] at h2
    have hrep : Rep0 g.normalise _ body2 := h2.rep
    have hnm : (g.normalise.nodes.map (·.1)).Nodup := h2.names
    rw [addControlTarget2_eq g.normalise _ body2 hrep]
    apply isoCheck2_refl
    · exact hnm
    · intro n hn
      obtain ⟨p, hp, rfl⟩ := List.mem_map.1 hn
      exact ⟨p.2, opOf_of_mem g.normalise hnm p hp⟩

end Graphiq.Compare
