/-
  Proofs/SolverSoundKey.lean — the two facts about the group semantics on which the solver's soundness rests.

  1. `mcr_key` (the time-reversed measurement): if `+Z_e` is in the group `S` (emitter `e` disentangled in |0⟩), then from
     `CNOT(e→p)·H_e·S` the operation `MeasurementCNOTandReset(e→p)` — Z-measurement of `e` (which is then RANDOM), X on the photon `p`
     if the outcome is 1, reset of `e` to |0⟩ — gives back exactly `S`, for BOTH outcomes.
  2. `ggen_insert` (commutation): a one-qubit gate on qubit `q` can be moved past any recorded operations that do not touch `q`
     (unitaries and measure-and-reset alike) without changing what the circuit generates.
-/
import GraphiqModel.Proofs.SolverSoundSem
namespace Graphiq.Solver
open Graphiq Graphiq.Cliff PRow STab Tab

/-! ### row-level facts -/

theorem tX_ap (x z : Bool) : tX.ap x z = (x, z, z) := by cases x <;> cases z <;> rfl

theorem xgx (q : Nat) (a : PRow) (j : Nat) : (PRow.xg q a).x j = a.x j := by
  rw [xg_eq_lift]; by_cases e : j = q
  · subst e; simp [lift, tX_ap]
  · simp [lift, e]
theorem xgz (q : Nat) (a : PRow) (j : Nat) : (PRow.xg q a).z j = a.z j := by
  rw [xg_eq_lift]; by_cases e : j = q
  · subst e; simp [lift, tX_ap]
  · simp [lift, e]
theorem xgr (q : Nat) (a : PRow) : (PRow.xg q a).r = xor a.r (a.z q) := by
  rw [xg_eq_lift]; simp [lift, tX_ap]
theorem xgip (q : Nat) (a : PRow) : (PRow.xg q a).ip = a.ip := by
  rw [xg_eq_lift]; rfl

/-- X on the photon and X on the emitter leave a row alone when it has the same Z-bit on both -/
theorem psi_same (n e p : Nat) (a : PRow) (h : a.z p = a.z e) : EqOn n (PRow.xg e (PRow.xg p a)) a := by
  refine ⟨fun j _ => ⟨by rw [xgx, xgx], by rw [xgz, xgz]⟩, ?_, by rw [xgip, xgip]⟩
  rw [xgr, xgr, xgz, h]
  cases a.r <;> cases a.z e <;> rfl

theorem psi_Zq (n e p : Nat) (hep : e ≠ p) : EqOn n (PRow.xg e (PRow.xg p (Zq e true))) (Zq e false) := by
  refine ⟨fun j _ => ⟨by rw [xgx, xgx]; rfl, by rw [xgz, xgz]; rfl⟩, ?_, by rw [xgip, xgip]; rfl⟩
  rw [xgr, xgr, xgz]
  have : p ≠ e := Ne.symm hep
  simp [Zq, this]

/-- a row with its Z-bit on column `e` overwritten -/
def setZ (e : Nat) (k : Bool) (g : PRow) : PRow := { g with z := fun j => if j = e then k else g.z j }

theorem cnot_h_x (e p : Nat) (hep : e ≠ p) (g : PRow) : (PRow.cnot e p (PRow.h e g)).x e = g.z e := by
  simp [PRow.cnot, PRow.h, hep]

/-- `CNOT(e→p)·H_e` on a row without support on `e` copies the Z-bit of `p` onto `e` -/
theorem cnot_h_row (n e p : Nat) (hep : e ≠ p) (g : PRow) (hx : g.x e = false) (hz : g.z e = false) :
    EqOn n (PRow.cnot e p (PRow.h e g)) (setZ e (g.z p) g) := by
  have hpe : p ≠ e := Ne.symm hep
  refine ⟨fun j _ => ⟨?_, ?_⟩, ?_, rfl⟩
  · by_cases e1 : j = p
    · subst e1; simp [PRow.cnot, PRow.h, setZ, hpe, hx, hz]
    · by_cases e2 : j = e
      · subst e2; simp [PRow.cnot, PRow.h, setZ, hx, hz]
      · simp [PRow.cnot, PRow.h, setZ, e1, e2]
  · by_cases e2 : j = e
    · subst e2; simp [PRow.cnot, PRow.h, setZ, hpe, hx]
    · simp [PRow.cnot, PRow.h, setZ, e2]
  · simp [PRow.cnot, PRow.h, setZ, hx, hz]

theorem setZ_false (n e : Nat) (g : PRow) (hz : g.z e = false) : EqOn n (setZ e false g) g := by
  refine ⟨fun j _ => ⟨rfl, ?_⟩, rfl, rfl⟩
  by_cases e2 : j = e
  · subst e2; simp [setZ, hz]
  · simp [setZ, e2]

theorem gSum_Zq_left (n e : Nat) (g : PRow) (hx : g.x e = false) (hz : g.z e = false) : gSum n (Zq e) g = 0 := by
  unfold gSum
  rw [sumTo_congr n _ (fun _ => 0)]
  · exact sumTo_zero n
  · intro j _
    by_cases e2 : j = e
    · subst e2; simp [Zq, gFun, hx, hz, Bool.toInt']
    · simp [Zq, gFun, e2]

theorem setZ_true_mul (n e : Nat) (g : PRow) (hx : g.x e = false) (hz : g.z e = false) :
    EqOn n (setZ e true g) (PRow.mul n (Zq e) g) := by
  apply eqOn_of
  · intro j _
    refine ⟨by simp [setZ, Zq], ?_⟩
    by_cases e2 : j = e
    · subst e2; simp [setZ, Zq, hz]
    · simp [setZ, Zq, e2]
  · rw [mul_ph, gSum_Zq_left n e g hx hz]
    have hp : (Zq e).ph = 0 := by simp [PRow.ph, Zq, Bool.toInt']
    have h1 : (setZ e true g).ph = g.ph := rfl
    have := ph_range g
    rw [hp, h1]; omega

theorem Zq_real (e : Nat) (s : Bool) : (Zq e s).ip = false := rfl

/-- `Z_e · (Z_e · g) = g` -/
theorem zz_cancel (n e : Nat) (g : PRow) : EqOn n (PRow.mul n (Zq e) (PRow.mul n (Zq e) g)) g :=
  ((mul_assoc n _ _ _).symm.trans (mul_congr n _ _ _ _ (mul_self n _ (Zq_real e false)) (EqOn.refl _ _))).trans (one_mul n _)

/-! ### 1. the time-reversed measurement -/

/-- **Key lemma (time-reversed measurement), all sizes, both outcomes.**  Let `S` be a signed group all of whose elements commute
    with `Z_e` and which contains `+Z_e`.  Then in `S' = CNOT(e→p)·H_e·S` the Z-measurement of `e` is random, and
    `MeasurementCNOTandReset(e→p)` with either outcome maps `S'` back to exactly `S`. -/
theorem mcr_key (n e p : Nat) (he : e < n) (hp : p < n) (hep : e ≠ p) (S : PSet) (hS : Closed n S)
    (hx : ∀ a, S a → a.x e = false) (hZ : S (Zq e false)) :
    (∃ a, img n (fun a => PRow.cnot e p (PRow.h e a)) S a ∧ a.x e = true) ∧
    ∀ o, mcrPost n e p o (img n (fun a => PRow.cnot e p (PRow.h e a)) S) = S := by
  constructor
  · refine ⟨_, ⟨Zq e false, hZ, EqOn.refl _ _⟩, ?_⟩
    rw [cnot_h_x e p hep]; simp [Zq]
  intro o
  -- generating set of the post-measurement group, and after the corrections
  let S' : PSet := img n (fun a => PRow.cnot e p (PRow.h e a)) S
  let G : PSet := fun b => EqOn n (Zq e o) b ∨ (S' b ∧ b.x e = false)
  let ψ : PRow → PRow := fun a => PRow.xg e (PRow.xg p a)
  -- facts about the generators
  have inS' : ∀ g, S g → g.z e = false → S' (setZ e (g.z p) g) ∧ (setZ e (g.z p) g).x e = false := by
    intro g hg hz
    exact ⟨⟨g, hg, cnot_h_row n e p hep g (hx g hg) hz⟩, hx g hg⟩
  have setZ_in_S : ∀ g, S g → g.z e = false → S (setZ e (g.z p) g) := by
    intro g hg hz
    cases hk : g.z p
    · exact hS.eqv _ _ hg (setZ_false n e g hz).symm
    · exact hS.eqv _ _ (hS.mul _ _ hZ hg) (setZ_true_mul n e g (hx g hg) hz).symm
  have gen_in_S : ∀ b, S' b → b.x e = false → ∃ g, S g ∧ g.z e = false ∧ EqOn n b (setZ e (g.z p) g) := by
    rintro b ⟨g, hg, eb⟩ hb
    have hz : g.z e = false := by
      rw [← cnot_h_x e p hep g, (eb.1 e he).1]; exact hb
    exact ⟨g, hg, hz, eb.symm.trans (cnot_h_row n e p hep g (hx g hg) hz)⟩
  have setZ_same : ∀ g : PRow, (setZ e (g.z p) g).z p = (setZ e (g.z p) g).z e := by
    intro g
    have : p ≠ e := Ne.symm hep
    simp [setZ, this]
  -- the group after the corrections is generated by `Gc`
  obtain ⟨Gc, hpost, hA, hB, hC⟩ : ∃ Gc : PSet, mcrPost n e p o S' = Cl n Gc ∧ (∀ b, Gc b → S b) ∧ Cl n Gc (Zq e false) ∧
      (∀ g, S g → g.z e = false → Cl n Gc (setZ e (g.z p) g)) := by
    cases o
    · refine ⟨G, rfl, ?_, Cl.base _ (Or.inl (EqOn.refl _ _)), fun g hg hz => Cl.base _ (Or.inr (inS' g hg hz))⟩
      rintro b (hb | ⟨hb, hbx⟩)
      · exact hS.eqv _ _ hZ hb
      · obtain ⟨g, hg, hz, eb⟩ := gen_in_S b hb hbx
        exact hS.eqv _ _ (setZ_in_S g hg hz) eb.symm
    · have hψ : GMap n ψ := (gmap_xg n e he).comp (gmap_xg n p hp)
      refine ⟨img n ψ G, ?_, ?_, ?_, ?_⟩
      · show img n ψ (Cl n G) = Cl n (img n ψ G)
        exact cl_img n ψ hψ G
      · rintro b ⟨a, (ha | ⟨ha, hax⟩), eb⟩
        · exact hS.eqv _ _ hZ (((psi_Zq n e p hep).symm.trans (hψ.aut.congr _ _ ha)).trans eb)
        · obtain ⟨g, hg, hz, ea⟩ := gen_in_S a ha hax
          refine hS.eqv _ _ (setZ_in_S g hg hz) ?_
          exact ((psi_same n e p _ (setZ_same g)).symm.trans (hψ.aut.congr _ _ ea.symm)).trans eb
      · exact Cl.base _ ⟨Zq e true, Or.inl (EqOn.refl _ _), psi_Zq n e p hep⟩
      · intro g hg hz
        exact Cl.base _ ⟨setZ e (g.z p) g, Or.inr (inS' g hg hz), psi_same n e p _ (setZ_same g)⟩
  rw [hpost]
  apply pset_ext; intro g
  constructor
  · exact cl_le n Gc S hS hA g
  · intro hg
    have hcl := cl_closed n Gc
    -- first for elements without a Z on `e`
    have step : ∀ g, S g → g.z e = false → Cl n Gc g := by
      intro g hg hz
      have h1 := hC g hg hz
      cases hk : g.z p
      · rw [hk] at h1; exact hcl.eqv _ _ h1 (setZ_false n e g hz)
      · rw [hk] at h1
        have h2 : Cl n Gc (PRow.mul n (Zq e) g) := hcl.eqv _ _ h1 (setZ_true_mul n e g (hx g hg) hz)
        exact hcl.eqv _ _ (hcl.mul _ _ hB h2) (zz_cancel n e g)
    cases hz : g.z e
    · exact step g hg hz
    · have hg' : S (PRow.mul n (Zq e) g) := hS.mul _ _ hZ hg
      have hz' : (PRow.mul n (Zq e) g).z e = false := by simp [Zq, hz]
      exact hcl.eqv _ _ (hcl.mul _ _ hB (step _ hg' hz')) (zz_cancel n e g)

/-! ### 2. a one-qubit gate commutes with every operation that does not touch its qubit -/

theorem img_comm (n : Nat) (f g : PRow → PRow) (hf : IsAut n f) (hg : IsAut n g) (h : ∀ a, f (g a) = g (f a)) (S : PSet) :
    img n f (img n g S) = img n g (img n f S) := by
  rw [img_img n f g hf, img_img n g f hg]
  exact img_congr n _ _ h S

theorem measPost_comm (n q e : Nat) (he : e < n) (hqe : e ≠ q) (t : L1) (ht : t.Fix) (haut : IsAut n (lift q t)) (o : Bool) (S : PSet) :
    measPost n e o (img n (lift q t) S) = img n (lift q t) (measPost n e o S) := by
  have hφ : GMap n (lift q t) := gmap_lift_of n q t ht haut
  unfold measPost
  rw [cl_img n _ hφ]
  apply cl_congr
  intro b
  constructor
  · rintro (hb | ⟨⟨a, ha, eb⟩, hbx⟩)
    · exact ⟨Zq e o, Or.inl (EqOn.refl _ _), (lift_Zq_ne n q e hqe t ht o).trans hb⟩
    · refine ⟨a, Or.inr ⟨ha, ?_⟩, eb⟩
      rw [← lift_x_ne q e hqe t a, (eb.1 e he).1]; exact hbx
  · rintro ⟨a, (ha | ⟨ha, hax⟩), eb⟩
    · exact Or.inl (((lift_Zq_ne n q e hqe t ht o).symm.trans (haut.congr _ _ ha)).trans eb)
    · refine Or.inr ⟨⟨a, ha, eb⟩, ?_⟩
      rw [← (eb.1 e he).1, lift_x_ne q e hqe t a]; exact hax

theorem psi_lift_comm (q e p : Nat) (hqe : e ≠ q) (hqp : p ≠ q) (t : L1) (a : PRow) :
    PRow.xg e (PRow.xg p (lift q t a)) = lift q t (PRow.xg e (PRow.xg p a)) := by
  rw [xg_eq_lift, xg_eq_lift, xg_eq_lift, xg_eq_lift, lift_lift_comm p q hqp, lift_lift_comm e q hqe]

theorem mcrPost_comm (n q e p : Nat) (he : e < n) (hp : p < n) (hqe : e ≠ q) (hqp : p ≠ q) (t : L1) (ht : t.Fix)
    (haut : IsAut n (lift q t)) (o : Bool) (S : PSet) :
    mcrPost n e p o (img n (lift q t) S) = img n (lift q t) (mcrPost n e p o S) := by
  unfold mcrPost
  rw [measPost_comm n q e he hqe t ht haut]
  unfold corr
  cases o
  · rfl
  · simp only [if_true]
    exact img_comm n _ _ ((gmap_xg n e he).comp (gmap_xg n p hp)).aut haut (fun a => psi_lift_comm q e p hqe hqp t a) _

/-- one forward step commutes with a local one-qubit map on an untouched qubit -/
theorem gstep_comm (np ne q : Nat) (t : L1) (ht : t.Fix) (haut : IsAut (np + ne) (lift q t))
    (op : SOp) (hwf : op.WF np ne) (hnt : op.touches np q = false) (o : Bool) (S : PSet) :
    gstep np ne op o (img (np + ne) (lift q t) S) = img (np + ne) (lift q t) (gstep np ne op o S) := by
  cases op with
  | wrap gs q' =>
    have hq' : q' < np + ne := hwf
    have hne : q' ≠ q := by simpa [SOp.touches] using hnt
    show img _ (actW q' gs) (img _ (lift q t) S) = img _ (lift q t) (img _ (actW q' gs) S)
    refine img_comm _ _ _ (actW_isAut _ q' hq' gs) haut (fun a => ?_) S
    rw [actW_eq_lift, actW_eq_lift, lift_lift_comm q' q hne]
  | emit e p =>
    obtain ⟨he, hp⟩ : e < ne ∧ p < np := hwf
    have hne : np + e ≠ q ∧ p ≠ q := by simpa [SOp.touches] using hnt
    show img _ (PRow.cnot (np + e) p) (img _ (lift q t) S) = img _ (lift q t) (img _ (PRow.cnot (np + e) p) S)
    refine img_comm _ _ _ (isAut_cnot _ _ _ (by omega) (by omega) (by omega)) haut (fun a => ?_) S
    exact (lift_cnot_comm q (np + e) p (Ne.symm hne.1) (Ne.symm hne.2) t a).symm
  | cnotEE c tg =>
    obtain ⟨hc, htg, hct⟩ : c < ne ∧ tg < ne ∧ c ≠ tg := hwf
    have hne : np + c ≠ q ∧ np + tg ≠ q := by simpa [SOp.touches] using hnt
    show img _ (PRow.cnot (np + c) (np + tg)) (img _ (lift q t) S) = img _ (lift q t) (img _ (PRow.cnot (np + c) (np + tg)) S)
    refine img_comm _ _ _ (isAut_cnot _ _ _ (by omega) (by omega) (by omega)) haut (fun a => ?_) S
    exact (lift_cnot_comm q (np + c) (np + tg) (Ne.symm hne.1) (Ne.symm hne.2) t a).symm
  | mcr e p =>
    obtain ⟨he, hp⟩ : e < ne ∧ p < np := hwf
    have hne : np + e ≠ q ∧ p ≠ q := by simpa [SOp.touches] using hnt
    exact mcrPost_comm (np + ne) q (np + e) p (by omega) (by omega) hne.1 hne.2 t ht haut o S

theorem gpre_comm (np ne q : Nat) (t : L1) (op : SOp) (hnt : op.touches np q = false) (S : PSet)
    (h : gpre np ne op (img (np + ne) (lift q t) S)) : gpre np ne op S := by
  obtain ⟨hwf, hm⟩ := h
  refine ⟨hwf, ?_⟩
  cases op with
  | mcr e p =>
    obtain ⟨he, _⟩ : e < ne ∧ p < np := hwf
    have hne : np + e ≠ q ∧ p ≠ q := by simpa [SOp.touches] using hnt
    obtain ⟨b, ⟨a, ha, eb⟩, hbx⟩ := hm
    refine ⟨a, ha, ?_⟩
    rw [← lift_x_ne q (np + e) hne.1 t a, (eb.1 (np + e) (by omega)).1]; exact hbx
  | wrap _ _ => trivial
  | emit _ _ => trivial
  | cnotEE _ _ => trivial

theorem mcrPost_closed (n e p : Nat) (he : e < n) (hp : p < n) (o : Bool) (S : PSet) : Closed n (mcrPost n e p o S) := by
  unfold mcrPost corr
  cases o
  · exact cl_closed n _
  · exact img_closed n _ ((gmap_xg n e he).comp (gmap_xg n p hp)) _ (cl_closed n _)

/-- a forward step maps signed groups to signed groups -/
theorem gstep_closed (np ne : Nat) (op : SOp) (hwf : op.WF np ne) (o : Bool) (S : PSet) (hS : Closed (np + ne) S) :
    Closed (np + ne) (gstep np ne op o S) := by
  cases op with
  | wrap gs q => exact img_closed _ _ (gmap_actW _ q hwf gs) S hS
  | emit e p =>
    obtain ⟨he, hp⟩ : e < ne ∧ p < np := hwf
    exact img_closed _ _ (gmap_cnot _ _ _ (by omega) (by omega) (by omega)) S hS
  | cnotEE c t =>
    obtain ⟨hc, ht, hct⟩ : c < ne ∧ t < ne ∧ c ≠ t := hwf
    exact img_closed _ _ (gmap_cnot _ _ _ (by omega) (by omega) (by omega)) S hS
  | mcr e p =>
    obtain ⟨he, hp⟩ : e < ne ∧ p < np := hwf
    exact mcrPost_closed _ _ _ (by omega) (by omega) o S

/-- **moving a one-qubit gate to its place on the wire**: if the operations of `pre` do not touch qubit `q`, then inserting after them
    something (`Y` instead of `X`) that absorbs a local map on `q` is as good as applying that map first -/
theorem ggen_insert (np ne q : Nat) (T0 : PSet) (t : L1) (ht : t.Fix) (haut : IsAut (np + ne) (lift q t))
    (X Y : List SOp)
    (hXY : ∀ S, Closed (np + ne) S → GGen np ne T0 X (img (np + ne) (lift q t) S) → GGen np ne T0 Y S)
    (pre : List SOp) (hpre : ∀ op, op ∈ pre → op.touches np q = false) :
    ∀ S, Closed (np + ne) S → GGen np ne T0 (pre ++ X) (img (np + ne) (lift q t) S) → GGen np ne T0 (pre ++ Y) S := by
  induction pre with
  | nil => exact hXY
  | cons op rest ih =>
    intro S hS h
    obtain ⟨h1, h2⟩ : gpre np ne op (img (np + ne) (lift q t) S) ∧
        ∀ o, GGen np ne T0 (rest ++ X) (gstep np ne op o (img (np + ne) (lift q t) S)) := h
    have hnt := hpre op List.mem_cons_self
    refine ⟨gpre_comm np ne q t op hnt S h1, fun o => ?_⟩
    apply ih (fun o' ho' => hpre o' (List.mem_cons_of_mem _ ho')) _ (gstep_closed np ne op h1.1 o S hS)
    rw [← gstep_comm np ne q t ht haut op h1.1 hnt o S]
    exact h2 o

end Graphiq.Solver
