/-
  Proofs/HilbertBridgeIdx.lean — the index bridge between the executable density-matrix model (`Mat`: size `2^n`,
  `Nat` row/column indices, as in numpy) and the Hilbert-space reading (`Matrix (Bits n) (Bits n) ℂ`):

  * `idx n b` : the numpy index of the basis string `b` (big-endian: qubit 0 is the most significant bit, as in the
    `np.kron` chains); `bitsOf n i` its inverse below `2^n`;
  * `testBit_idx` : bit `p` of `idx n b` is `b_(n-1-p)`; `idx_digit` : `(idx b / 2^(n-q-1)) % 2` is `b_q` — the
    expression the executable model uses to read qubit `q` off an index;
  * `sum_range_pow` : a sum over `range (2^n)` is the sum over bit strings;
  * `idx_high_eq_iff`, `idx_low_eq_iff` : equality of the high part `i / 2^m` / low part `i % 2^m` of two indices is
    agreement of the corresponding qubits.
-/
import GraphiqModel.Proofs.HilbertKron
import Mathlib.Algebra.BigOperators.Group.Finset.Basic
namespace Graphiq
namespace Hilbert

/-- the numpy index of a basis string: `Σ_j b_j 2^(n-1-j)` -/
def idx : (n : Nat) → Bits n → Nat
  | 0, _ => 0
  | n + 1, b => 2 * idx n (initB b) + (if lastB b then 1 else 0)

/-- the basis string of an index -/
def bitsOf (n i : Nat) : Bits n := fun j => Nat.testBit i (n - 1 - j.val)

theorem idx_lt : ∀ (n : Nat) (b : Bits n), idx n b < 2 ^ n
  | 0, _ => by simp [idx]
  | n + 1, b => by
    have := idx_lt n (initB b)
    simp only [idx]
    rw [pow_succ]
    split <;> omega

theorem testBit_two_mul_add (x : Nat) (l : Bool) (p : Nat) :
    Nat.testBit (2 * x + (if l then 1 else 0)) p = if p = 0 then l else Nat.testBit x (p - 1) := by
  cases p with
  | zero =>
    simp only [Nat.testBit_zero, if_true]
    cases l <;> simp <;> omega
  | succ k =>
    rw [Nat.testBit_succ]
    have : (2 * x + (if l then 1 else 0)) / 2 = x := by cases l <;> simp <;> omega
    rw [this]; simp

/-- bit `p` of the index is qubit `n-1-p` -/
theorem testBit_idx : ∀ (n : Nat) (b : Bits n) (p : Nat), Nat.testBit (idx n b) p = if p < n then bx b (n - 1 - p) else false
  | 0, _, p => by simp [idx]
  | n + 1, b, p => by
    simp only [idx]
    rw [testBit_two_mul_add]
    cases p with
    | zero =>
      simp only [if_true, Nat.zero_lt_succ]
      rw [show n + 1 - 1 - 0 = n by omega, bx_lastB]
    | succ k =>
      simp only [Nat.succ_ne_zero, if_false, Nat.add_sub_cancel]
      rw [testBit_idx n (initB b) k]
      by_cases hk : k < n
      · rw [if_pos hk, if_pos (by omega), bx_initB b _ (by omega)]
        congr 1
        omega
      · rw [if_neg hk, if_neg (by omega)]

theorem bitsOf_idx (n : Nat) (b : Bits n) : bitsOf n (idx n b) = b := by
  funext j
  simp only [bitsOf]
  rw [testBit_idx, if_pos (by have := j.isLt; omega)]
  have : n - 1 - (n - 1 - j.val) = j.val := by have := j.isLt; omega
  rw [this, bx_lt _ _ j.isLt]

theorem idx_injective (n : Nat) : Function.Injective (idx n) := by
  intro a b h
  rw [← bitsOf_idx n a, ← bitsOf_idx n b, h]

theorem idx_bitsOf (n i : Nat) (hi : i < 2 ^ n) : idx n (bitsOf n i) = i := by
  apply Nat.eq_of_testBit_eq
  intro p
  rw [testBit_idx]
  by_cases hp : p < n
  · rw [if_pos hp, bx_lt _ _ (by omega)]
    simp only [bitsOf]
    congr 1
    omega
  · rw [if_neg hp]
    symm
    apply Nat.testBit_lt_two_pow
    exact Nat.lt_of_lt_of_le hi (Nat.pow_le_pow_right (by norm_num) (by omega))

/-- **sums**: the `Nat`-indexed sum over `range (2^n)` is the sum over basis strings -/
theorem sum_range_pow {M : Type} [AddCommMonoid M] (n : Nat) (f : Nat → M) :
    ∑ i ∈ Finset.range (2 ^ n), f i = ∑ b : Bits n, f (idx n b) := by
  symm
  apply Finset.sum_nbij' (idx n) (bitsOf n)
  · intro b _; exact Finset.mem_range.mpr (idx_lt n b)
  · intro i _; exact Finset.mem_univ _
  · intro b _; exact bitsOf_idx n b
  · intro i hi; exact idx_bitsOf n i (Finset.mem_range.mp hi)
  · intro b _; rfl

/-- the executable model's digit expression reads qubit `q` -/
theorem idx_digit (n : Nat) (b : Bits n) (q : Nat) (hq : q < n) :
    (idx n b / 2 ^ (n - q - 1)) % 2 = if bx b q then 1 else 0 := by
  have h := testBit_idx n b (n - q - 1)
  rw [if_pos (by omega), show n - 1 - (n - q - 1) = q by omega, Nat.testBit_eq_decide_div_mod_eq] at h
  have h2 : idx n b / 2 ^ (n - q - 1) % 2 < 2 := Nat.mod_lt _ (by norm_num)
  cases hb : bx b q
  · rw [hb] at h
    have := of_decide_eq_false h
    simp; omega
  · rw [hb] at h
    have := of_decide_eq_true h
    simp; exact this

/-- equal high parts = agreement of the qubits `< q` (the part above the `n-q` lowest bits) -/
theorem idx_high_eq_iff (n : Nat) (a b : Bits n) (q : Nat) (hq : q ≤ n) :
    idx n a / 2 ^ (n - q) = idx n b / 2 ^ (n - q) ↔ ∀ j, j < q → bx a j = bx b j := by
  constructor
  · intro h j hj
    have := congrArg (fun x => Nat.testBit x (q - 1 - j)) h
    simp only [Nat.testBit_div_two_pow, testBit_idx] at this
    rw [if_pos (by omega), if_pos (by omega)] at this
    have e : n - 1 - (q - 1 - j + (n - q)) = j := by omega
    rw [e] at this
    exact this
  · intro h
    apply Nat.eq_of_testBit_eq
    intro p
    simp only [Nat.testBit_div_two_pow, testBit_idx]
    by_cases hp : p + (n - q) < n
    · rw [if_pos hp, if_pos hp]
      exact h _ (by omega)
    · rw [if_neg hp, if_neg hp]

/-- equal low parts = agreement of the qubits `≥ q` -/
theorem idx_low_eq_iff (n : Nat) (a b : Bits n) (q : Nat) (hq : q ≤ n) :
    idx n a % 2 ^ (n - q) = idx n b % 2 ^ (n - q) ↔ ∀ j, q ≤ j → j < n → bx a j = bx b j := by
  constructor
  · intro h j hj1 hj2
    have := congrArg (fun x => Nat.testBit x (n - 1 - j)) h
    simp only [Nat.testBit_mod_two_pow, testBit_idx] at this
    have hlt : n - 1 - j < n - q := by omega
    rw [if_pos (by omega), if_pos (by omega)] at this
    simp only [hlt, decide_true, Bool.true_and] at this
    have e : n - 1 - (n - 1 - j) = j := by omega
    rw [e] at this
    exact this
  · intro h
    apply Nat.eq_of_testBit_eq
    intro p
    simp only [Nat.testBit_mod_two_pow, testBit_idx]
    by_cases hp : p < n - q
    · simp only [hp, decide_true, Bool.true_and]
      rw [if_pos (by omega), if_pos (by omega)]
      exact h _ (by omega) (by omega)
    · simp [hp]

/-- all qubits other than `q` agree, in terms of the two index parts the executable `get_one_qubit_gate` compares -/
theorem idx_off_site_iff (n : Nat) (a b : Bits n) (q : Nat) (hq : q < n) :
    (idx n a / (2 * 2 ^ (n - q - 1)) = idx n b / (2 * 2 ^ (n - q - 1)) ∧
      idx n a % 2 ^ (n - q - 1) = idx n b % 2 ^ (n - q - 1)) ↔ (∀ j : Fin n, j.val ≠ q → a j = b j) := by
  have e1 : 2 * 2 ^ (n - q - 1) = 2 ^ (n - q) := by
    have : n - q = (n - q - 1) + 1 := by omega
    rw [this, pow_succ, Nat.add_sub_cancel, Nat.mul_comm]
  have e2 : n - q - 1 = n - (q + 1) := by omega
  rw [e1, e2, idx_high_eq_iff n a b q (by omega), idx_low_eq_iff n a b (q + 1) (by omega)]
  constructor
  · intro ⟨h1, h2⟩ j hj
    have := j.isLt
    by_cases hlt : j.val < q
    · have := h1 j.val hlt
      rwa [bx_lt _ _ j.isLt, bx_lt _ _ j.isLt] at this
    · have := h2 j.val (by omega) j.isLt
      rwa [bx_lt _ _ j.isLt, bx_lt _ _ j.isLt] at this
  · intro h
    constructor
    · intro j hj
      have := h ⟨j, by omega⟩ (by simp; omega)
      rwa [bx_lt _ _ (by omega), bx_lt _ _ (by omega)]
    · intro j hj1 hj2
      have := h ⟨j, hj2⟩ (by simp; omega)
      rwa [bx_lt _ _ hj2, bx_lt _ _ hj2]

theorem idx_eq_iff (n : Nat) (a b : Bits n) : idx n a = idx n b ↔ a = b :=
  ⟨fun h => idx_injective n h, fun h => by rw [h]⟩

theorem idx_zero (n : Nat) : idx n (fun _ => false) = 0 := by
  induction n with
  | zero => rfl
  | succ k ih =>
    simp only [idx]
    have e1 : initB (fun _ : Fin (k + 1) => false) = fun _ => false := rfl
    have e2 : lastB (fun _ : Fin (k + 1) => false) = false := rfl
    rw [e1, e2, ih]; rfl

theorem idx_eq_zero_iff (n : Nat) (a : Bits n) : idx n a = 0 ↔ a = fun _ => false := by
  rw [← idx_zero n, idx_eq_iff]

end Hilbert
end Graphiq
