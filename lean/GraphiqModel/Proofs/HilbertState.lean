/-
  Proofs/HilbertState.lean — the unitary of every gate of the model's `Gate` type, the conjugation theorem
  `U P U† = (tableau rule)(P)`, and the density matrix of a stabilizer tableau:

  * `gateMat n g` : the `2^n × 2^n` unitary of `g` (graphiq's density-matrix backend builds the same matrices with
    `get_one_qubit_gate` / `get_two_qubit_controlled_gate` and applies `U ρ U†`);
  * `gate_conj` : `gateMat g * pauliMat p * (gateMat g)ᴴ = pauliMat (g.act p)` for every well-formed gate;
  * `rho n T = ∏_i (1 + P_i)/2` for the generator rows `P_i` of `T`;
    gate covariance, projector, stabilized by the whole group, and independence of the choice of generators.
-/
import GraphiqModel.Proofs.HilbertGates2
import GraphiqModel.Proofs.InverseCircuit
import Mathlib.Tactic.Abel
namespace Graphiq
namespace Hilbert
open Matrix PRow

/-! ### the gate unitaries -/

/-- the unitary of a gate on `n` qubits -/
noncomputable def gateMat (n : Nat) : Gate → Matrix (Bits n) (Bits n) ℂ
  | .H q => invSqrt2 • oneQ n q hadM
  | .P q => oneQ n q phaseM
  | .Pdag q => oneQ n q phaseDagM
  | .X q => oneQ n q sigmaX
  | .Y q => oneQ n q sigmaY
  | .Z q => oneQ n q sigmaZ
  | .I _ => 1
  | .CNOT c t => ctrlQ n c t sigmaX
  | .CZ c t => ctrlQ n c t sigmaZ

/-- the tableau update rule of every gate intertwines with the gate's unitary: `U P = rule(P) U` -/
theorem gate_intertwine (n : Nat) (g : Gate) (hg : g.WF n) (p : PRow) :
    gateMat n g * pauliMat n p = pauliMat n (g.act p) * gateMat n g := by
  cases g with
  | H q =>
    show (invSqrt2 • oneQ n q hadM) * pauliMat n p = pauliMat n (PRow.h q p) * (invSqrt2 • oneQ n q hadM)
    rw [smul_mul_assoc, mul_smul_comm, had_intertwine n q hg]
  | P q => exact phase_intertwine n q hg p
  | Pdag q => exact phaseDag_intertwine n q hg p
  | X q => exact sigmaX_intertwine n q hg p
  | Y q => exact sigmaY_intertwine n q hg p
  | Z q => exact sigmaZ_intertwine n q hg p
  | I q => show 1 * pauliMat n p = pauliMat n p * 1; rw [Matrix.one_mul, Matrix.mul_one]
  | CNOT c t => exact cnot_intertwine n c t hg.1 hg.2.1 hg.2.2 p
  | CZ c t => exact cz_intertwine n c t hg.1 hg.2.1 hg.2.2 p

theorem unitary_of_2x2 (n q : Nat) (hq : q < n) (u : Matrix Bool Bool ℂ) (hu : u * uᴴ = 1) (hu' : uᴴ * u = 1) :
    oneQ n q u * (oneQ n q u)ᴴ = 1 ∧ (oneQ n q u)ᴴ * oneQ n q u = 1 :=
  ⟨oneQ_unitary n q hq u hu, oneQ_unitary' n q hq u hu'⟩

set_option linter.unusedSimpArgs false in
set_option linter.unnecessarySeqFocus false in
theorem small_unitary' :
    phaseMᴴ * phaseM = 1 ∧ phaseDagMᴴ * phaseDagM = 1 ∧ sigmaXᴴ * sigmaX = 1 ∧ sigmaYᴴ * sigmaY = 1 ∧
    sigmaZᴴ * sigmaZ = 1 := by
  refine ⟨?_, ?_, ?_, ?_, ?_⟩ <;>
    (ext a b
     cases a <;> cases b <;>
      simp [phaseM, phaseDagM, sigmaX, sigmaY, sigmaZ, Matrix.mul_apply, Fintype.sum_bool,
        Matrix.conjTranspose_apply, Matrix.one_apply])

/-- every gate matrix is unitary -/
theorem gate_unitary (n : Nat) (g : Gate) (hg : g.WF n) :
    gateMat n g * (gateMat n g)ᴴ = 1 ∧ (gateMat n g)ᴴ * gateMat n g = 1 := by
  cases g with
  | H q =>
    have h1 : oneQ n q hadM * (oneQ n q hadM)ᴴ = (2 : ℂ) • 1 := by
      rw [oneQ_conjTranspose, oneQ_mul n q hg, hadM_mul_conjTranspose, oneQ_smul, oneQ_one]
    have h2 : (oneQ n q hadM)ᴴ * oneQ n q hadM = (2 : ℂ) • 1 := by
      rw [oneQ_conjTranspose, oneQ_mul n q hg, hadM_conjTranspose]
      have := hadM_mul_conjTranspose
      rw [hadM_conjTranspose] at this
      rw [this, oneQ_smul, oneQ_one]
    have hs : invSqrt2 * invSqrt2 * 2 = 1 := by rw [invSqrt2_mul_self]; norm_num
    constructor
    · show (invSqrt2 • oneQ n q hadM) * (invSqrt2 • oneQ n q hadM)ᴴ = 1
      rw [Matrix.conjTranspose_smul, star_invSqrt2, smul_mul_smul_comm, h1, smul_smul, hs, one_smul]
    · show (invSqrt2 • oneQ n q hadM)ᴴ * (invSqrt2 • oneQ n q hadM) = 1
      rw [Matrix.conjTranspose_smul, star_invSqrt2, smul_mul_smul_comm, h2, smul_smul, hs, one_smul]
  | P q => exact unitary_of_2x2 n q hg _ phaseM_unitary small_unitary'.1
  | Pdag q => exact unitary_of_2x2 n q hg _ phaseDagM_unitary small_unitary'.2.1
  | X q => exact unitary_of_2x2 n q hg _ sigmaX_unitary small_unitary'.2.2.1
  | Y q => exact unitary_of_2x2 n q hg _ sigmaY_unitary small_unitary'.2.2.2.1
  | Z q => exact unitary_of_2x2 n q hg _ sigmaZ_unitary small_unitary'.2.2.2.2
  | I q =>
    show (1 : Matrix (Bits n) (Bits n) ℂ) * 1ᴴ = 1 ∧ (1 : Matrix (Bits n) (Bits n) ℂ)ᴴ * 1 = 1
    rw [Matrix.conjTranspose_one, Matrix.one_mul]; exact ⟨rfl, rfl⟩
  | CNOT c t => exact ctrlQ_sigmaX_unitary n c t hg.2.1 hg.2.2
  | CZ c t => exact ctrlQ_sigmaZ_unitary n c t

/-- **Conjugation.**  The row-wise update rule of every gate is conjugation by the gate's unitary, signs included:
    `U P U† = P'` with `P' = g.act P`, for every `n`, every position and every signed Pauli row. -/
theorem gate_conj (n : Nat) (g : Gate) (hg : g.WF n) (p : PRow) :
    gateMat n g * pauliMat n p * (gateMat n g)ᴴ = pauliMat n (g.act p) := by
  rw [gate_intertwine n g hg, Matrix.mul_assoc, (gate_unitary n g hg).1, Matrix.mul_one]

/-! ### circuits -/

/-- the unitary of a gate list (first gate applied first) -/
noncomputable def circMat (n : Nat) : List Gate → Matrix (Bits n) (Bits n) ℂ
  | [] => 1
  | g :: c => circMat n c * gateMat n g

theorem circ_unitary (n : Nat) (c : List Gate) (hc : ∀ g ∈ c, g.WF n) :
    circMat n c * (circMat n c)ᴴ = 1 ∧ (circMat n c)ᴴ * circMat n c = 1 := by
  induction c with
  | nil => simp [circMat]
  | cons g c ih =>
    have hg := gate_unitary n g (hc g List.mem_cons_self)
    have hc' := ih (fun g' h => hc g' (List.mem_cons_of_mem _ h))
    constructor
    · show (circMat n c * gateMat n g) * (circMat n c * gateMat n g)ᴴ = 1
      rw [Matrix.conjTranspose_mul, Matrix.mul_assoc, ← Matrix.mul_assoc (gateMat n g), hg.1, Matrix.one_mul, hc'.1]
    · show (circMat n c * gateMat n g)ᴴ * (circMat n c * gateMat n g) = 1
      rw [Matrix.conjTranspose_mul, Matrix.mul_assoc, ← Matrix.mul_assoc (circMat n c)ᴴ, hc'.2, Matrix.one_mul, hg.2]

theorem circ_conj (n : Nat) (c : List Gate) (hc : ∀ g ∈ c, g.WF n) (p : PRow) :
    circMat n c * pauliMat n p * (circMat n c)ᴴ = pauliMat n (actCirc c p) := by
  induction c generalizing p with
  | nil => simp [circMat, actCirc]
  | cons g c ih =>
    show (circMat n c * gateMat n g) * pauliMat n p * (circMat n c * gateMat n g)ᴴ = pauliMat n (actCirc c (g.act p))
    rw [← ih (fun g' h => hc g' (List.mem_cons_of_mem _ h)), ← gate_conj n g (hc g List.mem_cons_self),
      Matrix.conjTranspose_mul]
    simp only [Matrix.mul_assoc]

/-! ### the stabilizer state -/

/-- `(1 + P)/2` : the projector on the `+1` eigenspace of a Hermitian Pauli -/
noncomputable def proj (n : Nat) (p : PRow) : Matrix (Bits n) (Bits n) ℂ := (1 / 2 : ℂ) • (1 + pauliMat n p)

/-- `∏_{i<k} (1 + P_i)/2` -/
noncomputable def rhoTo (n : Nat) (row : Nat → PRow) : Nat → Matrix (Bits n) (Bits n) ℂ
  | 0 => 1
  | k + 1 => rhoTo n row k * proj n (row k)

/-- the density matrix `∏_i (1 + P_i)/2` of a stabilizer tableau, as a matrix on `n` qubits (`n = T.n`) -/
noncomputable def rho (n : Nat) (T : STab) : Matrix (Bits n) (Bits n) ℂ := rhoTo n T.row T.n

theorem proj_congr (n : Nat) (a b : PRow) (h : EqOn n a b) : proj n a = proj n b := by
  unfold proj; rw [pauliMat_congr n a b h]

theorem rhoTo_congr (n : Nat) (r r' : Nat → PRow) (k : Nat) (h : ∀ i, i < k → EqOn n (r i) (r' i)) :
    rhoTo n r k = rhoTo n r' k := by
  induction k with
  | zero => rfl
  | succ m ih =>
    show rhoTo n r m * proj n (r m) = rhoTo n r' m * proj n (r' m)
    rw [ih (fun i hi => h i (Nat.lt_succ_of_lt hi)), proj_congr n _ _ (h m (Nat.lt_succ_self m))]

/-- tabulation does not change the state -/
theorem rho_norm (T : STab) : rho T.n T.norm = rho T.n T :=
  rhoTo_congr T.n _ _ T.n (fun i hi => STab.norm_row T i hi)

/-! #### covariance under gates -/

theorem conj_proj (n : Nat) (U : Matrix (Bits n) (Bits n) ℂ) (hU : U * Uᴴ = 1) (p p' : PRow)
    (h : U * pauliMat n p * Uᴴ = pauliMat n p') : U * proj n p * Uᴴ = proj n p' := by
  unfold proj
  rw [mul_smul_comm, smul_mul_assoc, mul_add, add_mul, Matrix.mul_one, hU, h]

theorem conj_rhoTo (n : Nat) (U : Matrix (Bits n) (Bits n) ℂ) (hU : U * Uᴴ = 1) (hU' : Uᴴ * U = 1)
    (r r' : Nat → PRow) (k : Nat) (h : ∀ i, i < k → U * pauliMat n (r i) * Uᴴ = pauliMat n (r' i)) :
    U * rhoTo n r k * Uᴴ = rhoTo n r' k := by
  induction k with
  | zero => show U * 1 * Uᴴ = 1; rw [Matrix.mul_one, hU]
  | succ m ih =>
    show U * (rhoTo n r m * proj n (r m)) * Uᴴ = rhoTo n r' m * proj n (r' m)
    rw [← ih (fun i hi => h i (Nat.lt_succ_of_lt hi)), ← conj_proj n U hU _ _ (h m (Nat.lt_succ_self m))]
    have e : U * rhoTo n r m * Uᴴ * (U * proj n (r m) * Uᴴ)
        = U * rhoTo n r m * (Uᴴ * U) * proj n (r m) * Uᴴ := by simp only [Matrix.mul_assoc]
    rw [e, hU', Matrix.mul_one]
    simp only [Matrix.mul_assoc]

/-- **Gate covariance.**  `U_g ρ(T) U_g† = ρ(T.applyGate g)`: updating the generator rows by the tableau rule is the
    Hilbert-space evolution of the state. -/
theorem rho_applyGate (T : STab) (g : Gate) (hg : g.WF T.n) :
    gateMat T.n g * rho T.n T * (gateMat T.n g)ᴴ = rho T.n (T.applyGate g) :=
  conj_rhoTo T.n _ (gate_unitary T.n g hg).1 (gate_unitary T.n g hg).2 T.row (fun i => g.act (T.row i)) T.n
    (fun i _ => gate_conj T.n g hg (T.row i))

theorem runCircuit_n (T : STab) (c : List Gate) : (T.runCircuit c).n = T.n := by
  induction c generalizing T with
  | nil => rfl
  | cons g c ih => show (((T.applyGate g).norm).runCircuit c).n = T.n; rw [ih]; rfl

/-- the same for whole circuits (`run_circuit`, which tabulates after every gate) -/
theorem rho_runCircuit (T : STab) (c : List Gate) (hc : ∀ g ∈ c, g.WF T.n) :
    circMat T.n c * rho T.n T * (circMat T.n c)ᴴ = rho T.n (T.runCircuit c) := by
  induction c generalizing T with
  | nil => show 1 * rho T.n T * 1ᴴ = rho T.n T; simp
  | cons g c ih =>
    have hg := hc g List.mem_cons_self
    have h1 := ih ((T.applyGate g).norm) (fun g' h => hc g' (List.mem_cons_of_mem _ h))
    show (circMat T.n c * gateMat T.n g) * rho T.n T * (circMat T.n c * gateMat T.n g)ᴴ
      = rho T.n (((T.applyGate g).norm).runCircuit c)
    have hn : ((T.applyGate g).norm).n = T.n := rfl
    rw [hn] at h1
    rw [← h1]
    have h2 : rho T.n (T.applyGate g).norm = rho T.n (T.applyGate g) := rho_norm (T.applyGate g)
    rw [h2, ← rho_applyGate T g hg, Matrix.conjTranspose_mul]
    simp only [Matrix.mul_assoc]

/-! #### projector -/

theorem proj_comm (n : Nat) (a b : PRow) (h : pauliMat n a * pauliMat n b = pauliMat n b * pauliMat n a) :
    proj n a * proj n b = proj n b * proj n a := by
  unfold proj
  rw [smul_mul_smul_comm, smul_mul_smul_comm]
  congr 1
  rw [add_mul, mul_add, mul_add, add_mul, mul_add, mul_add, h]
  simp only [Matrix.one_mul, Matrix.mul_one]
  abel

theorem proj_idem (n : Nat) (a : PRow) (ha : a.ip = false) : proj n a * proj n a = proj n a := by
  unfold proj
  rw [smul_mul_smul_comm]
  have : (1 + pauliMat n a) * (1 + pauliMat n a) = (2 : ℂ) • (1 + pauliMat n a) := by
    rw [add_mul, mul_add, mul_add, pauliMat_sq n a ha]
    simp only [Matrix.one_mul, Matrix.mul_one, two_smul]
    abel
  rw [this, smul_smul]
  norm_num

theorem proj_hermitian (n : Nat) (a : PRow) (ha : a.ip = false) : (proj n a)ᴴ = proj n a := by
  unfold proj
  rw [Matrix.conjTranspose_smul, Matrix.conjTranspose_add, Matrix.conjTranspose_one, pauliMat_hermitian n a ha]
  congr 1
  simp

/-- `P (1 + P)/2 = (1 + P)/2` -/
theorem pauli_mul_proj (n : Nat) (a : PRow) (ha : a.ip = false) : pauliMat n a * proj n a = proj n a := by
  unfold proj
  rw [mul_smul_comm, mul_add, Matrix.mul_one, pauliMat_sq n a ha, add_comm]

theorem commute_rhoTo (n : Nat) (M : Matrix (Bits n) (Bits n) ℂ) (r : Nat → PRow) (k : Nat)
    (h : ∀ i, i < k → M * proj n (r i) = proj n (r i) * M) : M * rhoTo n r k = rhoTo n r k * M := by
  induction k with
  | zero => show M * 1 = 1 * M; rw [Matrix.mul_one, Matrix.one_mul]
  | succ m ih =>
    show M * (rhoTo n r m * proj n (r m)) = rhoTo n r m * proj n (r m) * M
    rw [← Matrix.mul_assoc, ih (fun i hi => h i (Nat.lt_succ_of_lt hi)), Matrix.mul_assoc,
      h m (Nat.lt_succ_self m), Matrix.mul_assoc]

/-- real, mutually commuting rows `r 0 … r (k-1)` -/
structure GoodTo (n : Nat) (r : Nat → PRow) (k : Nat) : Prop where
  real : ∀ i, i < k → (r i).ip = false
  comm : ∀ i j, i < k → j < k → sp n (r i) (r j) = false

theorem GoodTo.mono {n : Nat} {r : Nat → PRow} {k m : Nat} (h : GoodTo n r k) (hm : m ≤ k) : GoodTo n r m :=
  ⟨fun i hi => h.real i (Nat.lt_of_lt_of_le hi hm),
   fun i j hi hj => h.comm i j (Nat.lt_of_lt_of_le hi hm) (Nat.lt_of_lt_of_le hj hm)⟩

theorem _root_.Graphiq.STab.Good.goodTo {T : STab} (h : T.Good) : GoodTo T.n T.row T.n := ⟨h.real, h.comm⟩

theorem proj_commute_rhoTo (n : Nat) (r : Nat → PRow) (k : Nat) (hg : GoodTo n r (k + 1)) :
    proj n (r k) * rhoTo n r k = rhoTo n r k * proj n (r k) :=
  commute_rhoTo n _ r k (fun i hi => proj_comm n _ _
    (pauliMat_comm n _ _ (hg.comm k i (Nat.lt_succ_self k) (Nat.lt_succ_of_lt hi))))

theorem rhoTo_idem (n : Nat) (r : Nat → PRow) (k : Nat) (hg : GoodTo n r k) :
    rhoTo n r k * rhoTo n r k = rhoTo n r k := by
  induction k with
  | zero => show (1 : Matrix (Bits n) (Bits n) ℂ) * 1 = 1; rw [Matrix.one_mul]
  | succ m ih =>
    show rhoTo n r m * proj n (r m) * (rhoTo n r m * proj n (r m)) = rhoTo n r m * proj n (r m)
    have hc := proj_commute_rhoTo n r m hg
    have e : rhoTo n r m * proj n (r m) * (rhoTo n r m * proj n (r m))
        = rhoTo n r m * (proj n (r m) * rhoTo n r m) * proj n (r m) := by simp only [Matrix.mul_assoc]
    rw [e, hc]
    have e2 : rhoTo n r m * (rhoTo n r m * proj n (r m)) * proj n (r m)
        = (rhoTo n r m * rhoTo n r m) * (proj n (r m) * proj n (r m)) := by simp only [Matrix.mul_assoc]
    rw [e2, ih (hg.mono (Nat.le_succ m)), proj_idem n _ (hg.real m (Nat.lt_succ_self m))]

theorem rhoTo_hermitian (n : Nat) (r : Nat → PRow) (k : Nat) (hg : GoodTo n r k) :
    (rhoTo n r k)ᴴ = rhoTo n r k := by
  induction k with
  | zero => show (1 : Matrix (Bits n) (Bits n) ℂ)ᴴ = 1; exact Matrix.conjTranspose_one
  | succ m ih =>
    show (rhoTo n r m * proj n (r m))ᴴ = rhoTo n r m * proj n (r m)
    rw [Matrix.conjTranspose_mul, ih (hg.mono (Nat.le_succ m)), proj_hermitian n _ (hg.real m (Nat.lt_succ_self m)),
      proj_commute_rhoTo n r m hg]

/-- the state of a tableau with real commuting generators is an orthogonal projector -/
theorem rho_idem (T : STab) (hg : T.Good) : rho T.n T * rho T.n T = rho T.n T := rhoTo_idem T.n T.row T.n hg.goodTo
theorem rho_hermitian (T : STab) (hg : T.Good) : (rho T.n T)ᴴ = rho T.n T := rhoTo_hermitian T.n T.row T.n hg.goodTo

/-! #### stabilized by the whole group -/

theorem gen_mul_rhoTo (n : Nat) (r : Nat → PRow) (k : Nat) (hg : GoodTo n r k) (i : Nat) (hi : i < k) :
    pauliMat n (r i) * rhoTo n r k = rhoTo n r k := by
  induction k with
  | zero => omega
  | succ m ih =>
    show pauliMat n (r i) * (rhoTo n r m * proj n (r m)) = rhoTo n r m * proj n (r m)
    by_cases him : i = m
    · subst him
      have hc : pauliMat n (r i) * rhoTo n r i = rhoTo n r i * pauliMat n (r i) :=
        commute_rhoTo n _ r i (fun j hj => by
          have h := pauliMat_comm n _ _ (hg.comm i j (Nat.lt_succ_self i) (Nat.lt_succ_of_lt hj))
          unfold proj
          rw [mul_smul_comm, smul_mul_assoc, mul_add, add_mul, h, Matrix.mul_one, Matrix.one_mul])
      rw [← Matrix.mul_assoc, hc, Matrix.mul_assoc, pauli_mul_proj n _ (hg.real i (Nat.lt_succ_self i))]
    · rw [← Matrix.mul_assoc, ih (hg.mono (Nat.le_succ m)) (by omega)]

/-- every element of the stabilizer group (signed span of the generators) fixes the state: `S ρ = ρ` -/
theorem span_mul_rho (T : STab) (hg : T.Good) (a : PRow) (ha : T.Spn a) : pauliMat T.n a * rho T.n T = rho T.n T := by
  unfold STab.Spn at ha
  induction ha with
  | one => rw [pauliMat_one, Matrix.one_mul]
  | gen i hi => exact gen_mul_rhoTo T.n T.row T.n hg.goodTo i hi
  | mul a b _ _ iha ihb => rw [pauliMat_mul, Matrix.mul_assoc, ihb, iha]
  | eqv a b _ hab iha => rw [← pauliMat_congr T.n a b hab]; exact iha

/-! #### independence of the choice of generators -/

theorem rhoTo_mul_of_fixed (n : Nat) (r : Nat → PRow) (k : Nat) (M : Matrix (Bits n) (Bits n) ℂ)
    (h : ∀ i, i < k → pauliMat n (r i) * M = M) : rhoTo n r k * M = M := by
  induction k with
  | zero => show 1 * M = M; rw [Matrix.one_mul]
  | succ m ih =>
    show rhoTo n r m * proj n (r m) * M = M
    have e : proj n (r m) * M = M := by
      unfold proj
      rw [smul_mul_assoc, add_mul, Matrix.one_mul, h m (Nat.lt_succ_self m), ← two_smul ℂ M, smul_smul]
      norm_num
    rw [Matrix.mul_assoc, e, ih (fun i hi => h i (Nat.lt_succ_of_lt hi))]

/-- **Gauge independence.**  Two tableaux (real commuting generators) that generate the same signed group describe
    the same density matrix.  (`B.n = A.n` by `SpanEq`; both sides are matrices on `A.n` qubits.) -/
theorem rho_spanEq (A B : STab) (h : STab.SpanEq A B) (gA : A.Good) (gB : B.Good) : rho A.n A = rho A.n B := by
  have hn : B.n = A.n := h.n_eq.symm
  -- ρ_B ρ_A = ρ_A  and  ρ_A ρ_B = ρ_B
  have h1 : rho A.n B * rho A.n A = rho A.n A := by
    apply rhoTo_mul_of_fixed
    intro i hi
    exact span_mul_rho A gA (B.row i) (h.sup _ (STab.spn_gen B i hi))
  have gB' : GoodTo A.n B.row B.n := by rw [← hn]; exact gB.goodTo
  have h2 : rho A.n A * rho A.n B = rho A.n B := by
    apply rhoTo_mul_of_fixed
    intro i hi
    have hs : B.Spn (A.row i) := h.sub _ (STab.spn_gen A i hi)
    have := span_mul_rho B gB (A.row i) hs
    rw [hn] at this
    exact this
  have hA := rho_hermitian A gA
  have hB : (rho A.n B)ᴴ = rho A.n B := rhoTo_hermitian A.n B.row B.n gB'
  calc rho A.n A = (rho A.n A)ᴴ := hA.symm
    _ = (rho A.n B * rho A.n A)ᴴ := by rw [h1]
    _ = rho A.n A * rho A.n B := by rw [Matrix.conjTranspose_mul, hA, hB]
    _ = rho A.n B := h2

end Hilbert
end Graphiq
