/-
  Proofs/HilbertDimOps.lean — `insert_qubit` and `remove_qubit` of clifford.py on density matrices, for every size:

  * `rho_insertQubit` : `ρ(insert_qubit(t, p)) = ρ(t) ⊗_p |0⟩⟨0|`;
  * `rho_removeQubit_measured` : the tableau after the Z-measurement inside `remove_qubit` is the product
    `ρ(result) ⊗_q |s⟩⟨s|` with `s` the measurement outcome; hence
    `rho_removeQubit` : `ρ(remove_qubit(t, q)) = Tr_q ρ(post-measurement state)`;
    random branch `= 2 · Tr_q(Π_o ρ(t) Π_o)`, deterministic branch `= Tr_q ρ(t)`;
  * `rho_removeQubit_unentangled` : if qubit `q` carries a single-site stabilizer `σ` then `ρ(t) = ρ(result) ⊗_q (1+σ_q)/2`
    and `ρ(result) = Tr_q ρ(t)` whatever the drawn outcome.
  All are consequences of `rho_site_factor` and the group-level specifications of `Proofs/TabSpec*.lean`.
-/
import GraphiqModel.Proofs.HilbertDimState
import GraphiqModel.Proofs.TabSpecHistory
namespace Graphiq
namespace Hilbert
open Matrix PRow TabSpec Tab

/-- `rho_site_factor` with the number of qubits as a free variable -/
theorem rho_site_factor_dim (m q : Nat) (t1 t' : Tab) (hq : q ≤ m) (h1 : t1.n = m + 1) (h' : t'.n = m)
    (v1 : t1.Valid) (r1 : t1.StabReal) (v' : t'.Valid) (r' : t'.StabReal)
    (σ : PRow) (hσg : Grp t1 σ) (hσ : SingleSite (m + 1) q σ)
    (hins : ∀ i, i < m → Grp t1 ((t'.stab i).insertCol q)) :
    rho (m + 1) (STab.ofTab t1) = insSite q (rho m (STab.ofTab t')) (site1 σ q) := by
  subst h'
  exact rho_site_factor q t1 t' hq h1 v1 r1 v' r' σ hσg hσ hins

theorem singleSite_Zq (n q : Nat) (s : Bool) : SingleSite n q (Zq q s) :=
  ⟨Or.inr (by simp [Zq]), fun j _ hj => by simp [Zq, hj]⟩

/-! ### insertion -/

/-- **`insert_qubit` on density matrices**: `ρ(insert_qubit(t, p)) = ρ(t) ⊗_p |0⟩⟨0|`, for every `n` and `p ≤ n` -/
theorem rho_insertQubit (t : Tab) (p : Nat) (hp : p ≤ t.n) (hv : t.Valid) (hr : t.StabReal) :
    rho (t.n + 1) (STab.ofTab (t.insertQubit p)) = insSite p (rho t.n (STab.ofTab t)) (ketbra false) := by
  have g := insert_grp t p hp hv hr
  rw [← site1_Zq p false]
  apply rho_site_factor p (t.insertQubit p) t hp rfl (insertQubit_valid t p hp hv) (insert_stabReal t p hp hv hr) hv hr
    (Zq p false)
  · exact (g _).mpr ⟨rfl, InSpan.eqv _ _ InSpan.one (deleteCol_Zq t.n p).symm⟩
  · exact singleSite_Zq _ p false
  · intro i hi
    exact (g _).mpr ⟨insertCol_x p _, InSpan.eqv _ _ (grp_gen t i hi) (deleteCol_insertCol t.n p _).symm⟩

/-! ### removal -/

/-- inside `remove_qubit`: the measured tableau is the product of the returned tableau and `|s⟩⟨s|` on qubit `q`,
    `s` the outcome of the Z-measurement -/
theorem rho_removeQubit_measured (m : Nat) (t t' : Tab) (q : Nat) (o : Bool) (hm : t.n = m + 1) (hq : q < t.n)
    (hv : t.Valid) (hr : t.StabReal) (h : t.removeQubit q o = .ok t') :
    t'.n = m ∧
    rho (m + 1) (STab.ofTab (t.zMeasure q o).1)
      = insSite q (rho m (STab.ofTab t')) (ketbra (t.zMeasure q o).2.1) := by
  obtain ⟨n', v', r', g⟩ := removeQubit_grp t t' q o hq hv hr h
  have hn' : t'.n = m := by omega
  refine ⟨hn', ?_⟩
  rw [← site1_Zq q (t.zMeasure q o).2.1]
  apply rho_site_factor_dim m q (t.zMeasure q o).1 t' (by omega) ((zMeasure_n t q o).trans hm) hn'
    (zMeasure_valid t q o hq hv) (zMeasure_stabReal t q o hq hv hr) v' r' _ (measure_leaves_Zq t q o hq hv hr)
    (singleSite_Zq _ q _)
  intro i hi
  exact (g _).mp (grp_gen t' i (by omega))

/-- **`remove_qubit` on density matrices**: the returned state is the partial trace over `q` of the state after the
    Z-measurement that the code performs -/
theorem rho_removeQubit (m : Nat) (t t' : Tab) (q : Nat) (o : Bool) (hm : t.n = m + 1) (hq : q < t.n)
    (hv : t.Valid) (hr : t.StabReal) (h : t.removeQubit q o = .ok t') :
    rho m (STab.ofTab t') = ptraceSite q (rho (m + 1) (STab.ofTab (t.zMeasure q o).1)) := by
  obtain ⟨_, e⟩ := rho_removeQubit_measured m t t' q o hm hq hv hr h
  have hk : Matrix.trace (ketbra (t.zMeasure q o).2.1) = 1 := by
    cases (t.zMeasure q o).2.1 <;> simp [ketbra, Matrix.trace]
  rw [e, ptraceSite_insSite q (by omega), hk, one_smul]

/-- random branch: `ρ(remove_qubit(t, q)) = Tr_q(Π_o ρ(t) Π_o) / ½` -/
theorem rho_removeQubit_random (m : Nat) (t t' : Tab) (q p : Nat) (o : Bool) (hm : t.n = m + 1) (hq : q < t.n)
    (hv : t.Valid) (hr : t.StabReal) (hp : t.pivot q = some p) (h : t.removeQubit q o = .ok t') :
    rho m (STab.ofTab t')
      = (2 : ℂ) • ptraceSite q (proj (m + 1) (Zq q o) * rho (m + 1) (STab.ofTab t) * proj (m + 1) (Zq q o)) := by
  obtain ⟨h1, h2, h3⟩ := pivot_spec t q p hp
  have hs := measRandom_state t hv hr q p o hq h1 h2 h3
  rw [hm] at hs
  have e : (t.zMeasure q o).1 = t.measRandom q p o := by simp [zMeasure, hp]
  rw [rho_removeQubit m t t' q o hm hq hv hr h, e, hs, ptraceSite_smul, smul_smul]
  norm_num

/-- deterministic branch: the measured qubit is in the state `|s⟩` (`s` the reported outcome), the state is the product
    `ρ(result) ⊗_q |s⟩⟨s|`, and the result is `Tr_q ρ(t)` -/
theorem rho_removeQubit_det (m : Nat) (t t' : Tab) (q : Nat) (o : Bool) (hm : t.n = m + 1) (hq : q < t.n)
    (hv : t.Valid) (hr : t.StabReal) (hp : t.pivot q = none) (h : t.removeQubit q o = .ok t') :
    rho (m + 1) (STab.ofTab t) = insSite q (rho m (STab.ofTab t')) (ketbra (t.measScratch q).r) ∧
    rho m (STab.ofTab t') = ptraceSite q (rho (m + 1) (STab.ofTab t)) := by
  have e : t.zMeasure q o = (t, (t.measScratch q).r, 0) := by simp [zMeasure, hp]
  have h1 := (rho_removeQubit_measured m t t' q o hm hq hv hr h).2
  have h2 := rho_removeQubit m t t' q o hm hq hv hr h
  rw [e] at h1 h2
  exact ⟨h1, h2⟩

/-- **removing an unentangled qubit**: if some single-site Pauli `σ` on qubit `q` stabilizes the state, the state is the
    product `ρ(result) ⊗_q (1 + σ_q)/2` and the result is the reduced state `Tr_q ρ(t)`, whatever the drawn outcome -/
theorem rho_removeQubit_unentangled (m : Nat) (t t' : Tab) (q : Nat) (o : Bool) (hm : t.n = m + 1) (hq : q < t.n)
    (hv : t.Valid) (hr : t.StabReal) (σ : PRow) (hσg : Grp t σ) (hσ : SingleSite t.n q σ)
    (h : t.removeQubit q o = .ok t') :
    rho (m + 1) (STab.ofTab t) = insSite q (rho m (STab.ofTab t')) (site1 σ q) ∧
    rho m (STab.ofTab t') = ptraceSite q (rho (m + 1) (STab.ofTab t)) := by
  obtain ⟨n', v', r', _⟩ := removeQubit_grp t t' q o hq hv hr h
  have g := removeQubit_unentangled_grp t t' q o hq hv hr ⟨σ, hσg, hσ⟩ h
  have hn' : t'.n = m := by omega
  have hσ' : SingleSite (m + 1) q σ := by rw [← hm]; exact hσ
  have e := rho_site_factor_dim m q t t' (by omega) hm hn' hv hr v' r' σ hσg hσ'
    (fun i hi => (g _).mp (grp_gen t' i (by omega)))
  refine ⟨e, ?_⟩
  have σreal : σ.ip = false := grp_real t hv hr σ hσg
  rw [e, ptraceSite_insSite q (by omega), (site1_facts σ q σreal hσ.1).2.2, one_smul]

end Hilbert
end Graphiq
