/-
  Proofs/SolverCompleteInvLoc.lean — `inverse_circuit` on a tableau whose first `np` columns are *literal* (absorbed photons:
  one generator is exactly `+Z_q`, every other generator is trivial at `q`) only emits gates that the replay of the
  time-reversed solver accepts: `H` / `P` / `X` anywhere, `CNOT` / `CZ` only between columns `≥ np`.  In fact
  (`inverseCircuit_gates_on_emitters`) no gate at all is emitted on a column `< np`.

  Method: a location invariant.  During block 1 (column `j`) every photon column is literal and the literal rows of the
  columns `< j` sit on the diagonal; from then on (blocks 2 to 7) row `q` is `+Z_q` for every `q < np`.  Every row product the
  synthesis performs is between two rows that are non-trivial at a common column, so it never involves a literal row; every
  two-qubit gate is triggered by a bit that a `+Z_q` row does not have.  No Mathlib.
-/
import GraphiqModel.Proofs.SolverCompleteDefs
namespace Graphiq
open PRow
namespace STab

/-- gates the solver's replay accepts: H / P / X anywhere, CNOT / CZ only between columns ≥ np -/
def Gate.okFor (np : Nat) : Gate → Prop
  | .H _ | .P _ | .X _ => True
  | .CNOT c t | .CZ c t => np ≤ c ∧ np ≤ t
  | _ => False

/-- every column a gate acts on is an emitter column -/
def Gate.onEmitters (np : Nat) (g : Gate) : Prop := ∀ c, c ∈ g.cols → np ≤ c

/-! ### literal columns, with the index of the literal row -/

/-- column `q` is literal and row `i` is its `+Z_q` row -/
def LitAt (n : Nat) (row : Nat → PRow) (q i : Nat) : Prop :=
  i < n ∧ EqOn n (row i) (Zq q) ∧ ∀ k, k < n → k ≠ i → (row k).pt q = 0

theorem lit_iff (t : STab) (q : Nat) : t.Lit q ↔ ∃ i, LitAt t.n t.row q i := Iff.rfl

theorem pt_eqOn (n : Nat) (a b : PRow) (h : EqOn n a b) (j : Nat) (hj : j < n) : a.pt j = b.pt j :=
  PRow.pt_congr a b j (h.1 j hj).1 (h.1 j hj).2

theorem pt_Zq (q j : Nat) : (Zq q).pt j = if j = q then 3 else 0 := by
  unfold PRow.pt Zq
  by_cases h : j = q <;> simp [h]

theorem litAt_congr (n : Nat) (r r' : Nat → PRow) (q i : Nat) (hq : q < n)
    (he : ∀ m, m < n → EqOn n (r' m) (r m)) (h : LitAt n r q i) : LitAt n r' q i :=
  ⟨h.1, (he i h.1).trans h.2.1, fun k hk hne => (pt_eqOn n _ _ (he k hk) q hq).trans (h.2.2 k hk hne)⟩

/-- the Pauli types of the literal row -/
theorem LitAt.row_pt {n : Nat} {r : Nat → PRow} {q i : Nat} (h : LitAt n r q i) (j : Nat) (hj : j < n) :
    (r i).pt j = if j = q then 3 else 0 := by
  rw [pt_eqOn n _ _ h.2.1 j hj, pt_Zq]

/-- the literal row has no x-bit and its only z-bit is at `q` -/
theorem LitAt.row_x {n : Nat} {r : Nat → PRow} {q i : Nat} (h : LitAt n r q i) (j : Nat) (hj : j < n) :
    (r i).x j = false := (h.2.1.1 j hj).1

theorem LitAt.row_z {n : Nat} {r : Nat → PRow} {q i : Nat} (h : LitAt n r q i) (j : Nat) (hj : j < n) :
    (r i).z j = decide (j = q) := (h.2.1.1 j hj).2

/-- only the literal row is non-trivial at a literal column -/
theorem LitAt.unique {n : Nat} {r : Nat → PRow} {q i : Nat} (h : LitAt n r q i) (k : Nat) (hk : k < n)
    (hne : (r k).pt q ≠ 0) : k = i := by
  by_cases e : k = i
  · exact e
  · exact absurd (h.2.2 k hk e) hne

/-- two different literal columns have different literal rows -/
theorem litAt_index_ne {n : Nat} {r : Nat → PRow} {q q' i i' : Nat} (h : LitAt n r q i) (h' : LitAt n r q' i')
    (hq : q < n) (hne : q ≠ q') : i ≠ i' := by
  intro e
  subst e
  have h1 := h.row_pt q hq
  have h2 := h'.row_pt q hq
  rw [if_pos rfl] at h1
  rw [if_neg hne] at h2
  omega

/-- a product of two rows that are both non-trivial at a common column does not involve the literal row -/
theorem litAt_witness {n : Nat} {r : Nat → PRow} {q i : Nat} (h : LitAt n r q i) (a b pc : Nat) (ha : a < n) (hb : b < n)
    (hab : a ≠ b) (hpc : pc < n) (h1 : (r a).pt pc ≠ 0) (h2 : (r b).pt pc ≠ 0) : a ≠ i ∧ b ≠ i := by
  have key : ∀ x y, x = i → y ≠ x → y < n → (r x).pt pc ≠ 0 → (r y).pt pc ≠ 0 → False := by
    intro x y hx hy hyn hx1 hy1
    subst hx
    have e := h.row_pt pc hpc
    by_cases hp : pc = q
    · subst hp
      exact hy1 (h.2.2 y hyn hy)
    · rw [if_neg hp] at e
      exact hx1 e
  exact ⟨fun e => key a b e (Ne.symm hab) hb h1 h2, fun e => key b a e hab ha h2 h1⟩

/-! ### the gates -/

/-- a gate leaves the columns it does not act on unchanged -/
theorem act_col (g : Gate) (hok : Gate.okFor 0 g) (q : Nat) (hq : q ∉ g.cols) (p : PRow) :
    (g.act p).x q = p.x q ∧ (g.act p).z q = p.z q := by
  cases g with
  | H c =>
    have hne : q ≠ c := by simpa [Gate.cols] using hq
    simp [Gate.act, PRow.h, hne]
  | P c =>
    have hne : q ≠ c := by simpa [Gate.cols] using hq
    simp [Gate.act, PRow.s, hne]
  | X c =>
    have hne : q ≠ c := by simpa [Gate.cols] using hq
    simp [Gate.act, PRow.xg, PRow.zg, PRow.h, PRow.s, hne]
  | CNOT c t =>
    have hne : q ≠ c ∧ q ≠ t := by simpa [Gate.cols] using hq
    simp [Gate.act, PRow.cnot, hne.1, hne.2]
  | CZ c t =>
    have hne : q ≠ c ∧ q ≠ t := by simpa [Gate.cols] using hq
    simp [Gate.act, PRow.cz, PRow.cnot, PRow.h, hne.1, hne.2]
  | Pdag c => exact False.elim hok
  | Y c => exact False.elim hok
  | Z c => exact False.elim hok
  | I c => exact False.elim hok

/-- a gate that does not act on column `q` maps `+Z_q` to `+Z_q` -/
theorem act_zq (n : Nat) (g : Gate) (hwf : g.WF n) (hok : Gate.okFor 0 g) (q : Nat) (hq : q ∉ g.cols) (p : PRow)
    (h : EqOn n p (Zq q)) : EqOn n (g.act p) (Zq q) := by
  obtain ⟨hb, hr, hi⟩ := h
  have hx : ∀ j, j < n → p.x j = false := fun j hj => (hb j hj).1
  have hz : ∀ j, j < n → p.z j = decide (j = q) := fun j hj => (hb j hj).2
  have hr' : p.r = false := hr
  cases g with
  | H c =>
    have hne : c ≠ q := by have : q ≠ c := by simpa [Gate.cols] using hq
                           exact Ne.symm this
    have hc : c < n := hwf
    refine ⟨fun j hj => ?_, ?_, hi⟩
    · by_cases e : j = c
      · subst e; simp [Gate.act, PRow.h, Zq, hx j hj, hz j hj, hne]
      · simp [Gate.act, PRow.h, Zq, hx j hj, hz j hj, e]
    · simp [Gate.act, PRow.h, Zq, hx c hc, hr']
  | P c =>
    have hne : c ≠ q := by have : q ≠ c := by simpa [Gate.cols] using hq
                           exact Ne.symm this
    have hc : c < n := hwf
    refine ⟨fun j hj => ?_, ?_, hi⟩
    · by_cases e : j = c
      · subst e; simp [Gate.act, PRow.s, Zq, hx j hj, hz j hj, hne]
      · simp [Gate.act, PRow.s, Zq, hx j hj, hz j hj, e]
    · simp [Gate.act, PRow.s, Zq, hx c hc, hr']
  | X c =>
    have hne : c ≠ q := by have : q ≠ c := by simpa [Gate.cols] using hq
                           exact Ne.symm this
    have hc : c < n := hwf
    refine ⟨fun j hj => ?_, ?_, hi⟩
    · by_cases e : j = c
      · subst e; simp [Gate.act, PRow.xg, PRow.zg, PRow.h, PRow.s, Zq, hx j hj, hz j hj, hne]
      · simp [Gate.act, PRow.xg, PRow.zg, PRow.h, PRow.s, Zq, hx j hj, hz j hj, e]
    · simp [Gate.act, PRow.xg, PRow.zg, PRow.h, PRow.s, Zq, hx c hc, hz c hc, hne, hr']
  | CNOT c t =>
    have hq' : q ≠ c ∧ q ≠ t := by simpa [Gate.cols] using hq
    have hcq : c ≠ q := Ne.symm hq'.1
    have htq : t ≠ q := Ne.symm hq'.2
    obtain ⟨hc, ht, hct⟩ := hwf
    refine ⟨fun j hj => ?_, ?_, hi⟩
    · by_cases e1 : j = t
      · subst e1
        simp [Gate.act, PRow.cnot, Zq, hx j hj, hz j hj, hx c hc, hz c hc, hcq, htq]
      · by_cases e2 : j = c
        · subst e2
          simp [Gate.act, PRow.cnot, Zq, hx j hj, hz j hj, hx t ht, hz t ht, hcq, htq]
        · simp [Gate.act, PRow.cnot, Zq, hx j hj, hz j hj, e1, e2]
    · simp [Gate.act, PRow.cnot, Zq, hx c hc, hr']
  | CZ c t =>
    have hq' : q ≠ c ∧ q ≠ t := by simpa [Gate.cols] using hq
    have hcq : c ≠ q := Ne.symm hq'.1
    have htq : t ≠ q := Ne.symm hq'.2
    obtain ⟨hc, ht, hct⟩ := hwf
    refine ⟨fun j hj => ?_, ?_, hi⟩
    · by_cases e1 : j = t
      · subst e1
        simp [Gate.act, PRow.cz, PRow.cnot, PRow.h, Zq, hx j hj, hz j hj, hx c hc, hz c hc, hcq, htq]
      · by_cases e2 : j = c
        · subst e2
          simp [Gate.act, PRow.cz, PRow.cnot, PRow.h, Zq, hx j hj, hz j hj, hx t ht, hz t ht, hcq, htq, e1]
        · simp [Gate.act, PRow.cz, PRow.cnot, PRow.h, Zq, hx j hj, hz j hj, e1, e2]
    · simp [Gate.act, PRow.cz, PRow.cnot, PRow.h, Zq, hx c hc, hz c hc, hx t ht, hz t ht, hcq, htq, hct, hr']
  | Pdag c => exact False.elim hok
  | Y c => exact False.elim hok
  | Z c => exact False.elim hok
  | I c => exact False.elim hok

/-! ### the three state operations keep literal columns -/

theorem gate_row' (st : InvState) (g : Gate) (m : Nat) (hm : m < st.t.n) :
    EqOn st.t.n ((st.gate g).t.row m) (g.act (st.t.row m)) :=
  norm_row (st.t.applyGate g) m hm

theorem swap_row' (st : InvState) (a b m : Nat) (hm : m < st.t.n) :
    EqOn st.t.n ((st.swap a b).t.row m) (st.t.row (if m = a then b else if m = b then a else m)) := by
  have h := norm_row (st.t.rowSwap a b) m hm
  have e : (st.t.rowSwap a b).row m = st.t.row (if m = a then b else if m = b then a else m) := by
    rw [rowSwap_row]
    split
    · rfl
    · split <;> rfl
  rw [e] at h
  exact h

theorem rsum_row' (st : InvState) (a b m : Nat) (hm : m < st.t.n) :
    EqOn st.t.n ((st.rsum a b).t.row m) (if m = b then stabMul st.t.n (st.t.row a) (st.t.row b) else st.t.row m) := by
  have h := norm_row (st.t.rowSum a b) m hm
  rw [rowSum_row] at h
  exact h

/-- a gate that does not act on column `q` keeps it literal, with the same literal row -/
theorem litAt_gate (st : InvState) (g : Gate) (n q i : Nat) (hn : st.t.n = n) (hq : q < n) (hwf : g.WF n)
    (hok : Gate.okFor 0 g) (hqc : q ∉ g.cols) (h : LitAt n st.t.row q i) : LitAt n (st.gate g).t.row q i := by
  subst hn
  have hrow : ∀ m, m < st.t.n → EqOn st.t.n ((st.gate g).t.row m) (g.act (st.t.row m)) := gate_row' st g
  refine ⟨h.1, (hrow i h.1).trans (act_zq _ g hwf hok q hqc _ h.2.1), fun k hk hne => ?_⟩
  rw [pt_eqOn _ _ _ (hrow k hk) q hq]
  have e := act_col g hok q hqc (st.t.row k)
  rw [PRow.pt_congr _ _ q e.1 e.2]
  exact h.2.2 k hk hne

theorem litAt_perm (n : Nat) (r : Nat → PRow) (q i : Nat) (σ : Nat → Nat) (hσ : ∀ m, σ (σ m) = m)
    (hlt : ∀ m, m < n → σ m < n) (h : LitAt n r q i) : LitAt n (fun k => r (σ k)) q (σ i) := by
  refine ⟨hlt i h.1, ?_, fun k hk hne => h.2.2 (σ k) (hlt k hk) (fun e => hne (by rw [← e, hσ]))⟩
  show EqOn n (r (σ (σ i))) (Zq q)
  rw [hσ]
  exact h.2.1

/-- a row swap keeps every literal column literal; the literal row moves with the swap -/
theorem litAt_swap (st : InvState) (a b n q i : Nat) (hn : st.t.n = n) (hq : q < n) (ha : a < n) (hb : b < n)
    (h : LitAt n st.t.row q i) :
    LitAt n (st.swap a b).t.row q (if i = a then b else if i = b then a else i) := by
  subst hn
  have h1 : ∀ m, (fun m => if m = a then b else if m = b then a else m)
      ((fun m => if m = a then b else if m = b then a else m) m) = m := by
    intro m
    show (if (if m = a then b else if m = b then a else m) = a then b
      else if (if m = a then b else if m = b then a else m) = b then a else (if m = a then b else if m = b then a else m)) = m
    by_cases e1 : m = a
    · by_cases e2 : b = a
      · simp [e1, e2]
      · simp [e1, e2]
    · by_cases e2 : m = b
      · simp [e2]
      · simp [e1, e2]
  have h2 : ∀ m, m < st.t.n → (fun m => if m = a then b else if m = b then a else m) m < st.t.n := by
    intro m hm
    show (if m = a then b else if m = b then a else m) < st.t.n
    split
    · exact hb
    · split
      · exact ha
      · exact hm
  have hp := litAt_perm st.t.n st.t.row q i (fun m => if m = a then b else if m = b then a else m) h1 h2 h
  exact litAt_congr _ _ _ q _ hq (fun m hm => swap_row' st a b m hm) hp

/-- a row product between two rows other than the literal row keeps the column literal -/
theorem litAt_rsum (st : InvState) (a b n q i : Nat) (hn : st.t.n = n) (hq : q < n) (ha : a < n)
    (hai : a ≠ i) (hbi : b ≠ i) (h : LitAt n st.t.row q i) : LitAt n (st.rsum a b).t.row q i := by
  subst hn
  have hib : i ≠ b := Ne.symm hbi
  refine ⟨h.1, ?_, fun k hk hne => ?_⟩
  · have e := rsum_row' st a b i h.1
    rw [if_neg hib] at e
    exact e.trans h.2.1
  · rw [pt_eqOn _ _ _ (rsum_row' st a b k hk) q hq]
    split
    · next hkb =>
      rw [pt_stabMul, h.2.2 a ha hai, h.2.2 b (hkb ▸ hk) hbi]
      rfl
    · exact h.2.2 k hk hne

/-! ### block 1 -/

theorem foldl_mem_inv {σ α : Type} (f : σ → α → σ) (P : σ → Prop) (l : List α)
    (hs : ∀ s x, x ∈ l → P s → P (f s x)) (s0 : σ) (h0 : P s0) : P (l.foldl f s0) := by
  induction l generalizing s0 with
  | nil => exact h0
  | cons x rest ih =>
    simp only [List.foldl]
    exact ih (fun s y hy hp => hs s y (List.mem_cons_of_mem _ hy) hp) (f s0 x) (hs s0 x List.mem_cons_self h0)

theorem pt_ne_zero_of_z (p : PRow) (j : Nat) (h : p.z j = true) : p.pt j ≠ 0 := by
  unfold PRow.pt
  rw [h]
  cases p.x j <;> simp

theorem pt_ne_zero_of_x (p : PRow) (j : Nat) (h : p.x j = true) : p.pt j ≠ 0 := by
  unfold PRow.pt
  rw [h]
  cases p.z j <;> simp

theorem z_of_pt_three (p : PRow) (j : Nat) (h : p.pt j = 3) : p.z j = true := by
  unfold PRow.pt at h
  cases hx : p.x j <;> cases hz : p.z j <;> simp [hx, hz] at h ⊢

/-- the clearing loop of block 1 only multiplies rows that are non-trivial at column `j`: literal columns stay literal -/
theorem invClear_keeps (n j : Nat) (hj : j < n) (st : InvState) (hn : st.t.n = n) (hz : (st.t.row j).z j = true) :
    (invClear n j st).t.n = n ∧ (invClear n j st).circ = st.circ ∧
    ∀ q i, q < n → LitAt n st.t.row q i → LitAt n (invClear n j st).t.row q i := by
  have key : ∀ (acc : InvState) (i' : Nat), i' ∈ ((List.range n).filter fun i => j < i) →
      (acc.t.n = n ∧ acc.circ = st.circ ∧ (acc.t.row j).z j = true ∧
        ∀ q i, q < n → LitAt n st.t.row q i → LitAt n acc.t.row q i) →
      ((if (acc.t.row i').z j then acc.rsum j i' else acc).t.n = n ∧
       (if (acc.t.row i').z j then acc.rsum j i' else acc).circ = st.circ ∧
       ((if (acc.t.row i').z j then acc.rsum j i' else acc).t.row j).z j = true ∧
        ∀ q i, q < n → LitAt n st.t.row q i → LitAt n (if (acc.t.row i').z j then acc.rsum j i' else acc).t.row q i) := by
    intro acc i' hi' ⟨h1, h2, h3, h4⟩
    simp only [List.mem_filter, List.mem_range, decide_eq_true_eq] at hi'
    split
    · next hzi =>
      refine ⟨h1, h2, ?_, ?_⟩
      · have e := rsum_row' acc j i' j (h1 ▸ hj)
        rw [if_neg (by omega)] at e
        rw [(e.1 j (h1 ▸ hj)).2]
        exact h3
      · intro q i hq hl
        have hl' := h4 q i hq hl
        have w := litAt_witness hl' j i' j hj hi'.1 (by omega) hj (pt_ne_zero_of_z _ _ h3) (pt_ne_zero_of_z _ _ hzi)
        exact litAt_rsum acc j i' n q i h1 hq hj w.1 w.2 hl'
    · exact ⟨h1, h2, h3, h4⟩
  have := foldl_mem_inv (fun acc i => if (acc.t.row i).z j then acc.rsum j i else acc)
    (fun acc => acc.t.n = n ∧ acc.circ = st.circ ∧ (acc.t.row j).z j = true ∧
      ∀ q i, q < n → LitAt n st.t.row q i → LitAt n acc.t.row q i)
    ((List.range n).filter fun i => j < i) key st ⟨hn, rfl, hz, fun _ _ _ h => h⟩
  exact ⟨this.1, this.2.1, this.2.2.2⟩

/-- block 1 invariant at column `j`: every photon column is literal, and those left of `j` have their literal row on the
    diagonal -/
def B1 (np n j : Nat) (r : Nat → PRow) : Prop := ∀ q, q < np → ∃ i, LitAt n r q i ∧ (q < j → i = q)

theorem b1_swap (np n j f : Nat) (st : InvState) (hn : st.t.n = n) (hnp : np ≤ n) (hj : j < n) (hjf : j ≤ f) (hf : f < n)
    (hpt : (st.t.row f).pt j ≠ 0) (h : B1 np n j st.t.row) : B1 np n (j + 1) (st.swap j f).t.row := by
  intro q hq
  obtain ⟨i, hi, hiq⟩ := h q hq
  have hs := litAt_swap st j f n q i hn (by omega) hj hf hi
  refine ⟨_, hs, fun hqj => ?_⟩
  by_cases e : q < j
  · have e1 := hiq e
    rw [e1, if_neg (by omega), if_neg (by omega)]
  · have e' : q = j := by omega
    subst e'
    have e2 : f = i := hi.unique f hf hpt
    rw [← e2]
    by_cases e3 : f = q <;> simp [e3]

theorem b1_none (np n j : Nat) (r : Nat → PRow) (hj : j < n)
    (hnone : ∀ k, j ≤ k → k < n → (r k).pt j = 0) (h : B1 np n j r) : B1 np n (j + 1) r := by
  intro q hq
  obtain ⟨i, hi, hiq⟩ := h q hq
  refine ⟨i, hi, fun hqj => ?_⟩
  by_cases e : q < j
  · exact hiq e
  · have e' : q = j := by omega
    subst e'
    have h3 := hi.row_pt q hj
    rw [if_pos rfl] at h3
    by_cases hiq2 : q ≤ i
    · have := hnone i hiq2 hi.1
      omega
    · obtain ⟨i', hi', hii⟩ := h i (by omega)
      have e4 := hii (by omega)
      rw [e4] at hi'
      exact absurd rfl (litAt_index_ne hi hi' hj (by omega))

theorem b1_keeps (np n j : Nat) (r r' : Nat → PRow) (hnp : np ≤ n)
    (hk : ∀ q i, q < n → LitAt n r q i → LitAt n r' q i) (h : B1 np n j r) : B1 np n j r' := by
  intro q hq
  obtain ⟨i, hi, hiq⟩ := h q hq
  exact ⟨i, hk q i (by omega) hi, hiq⟩

/-- one column of block 1; the only gate it can emit is `H j`, and only on an emitter column -/
theorem step1_emit (np n j : Nat) (st st' : InvState) (hn : st.t.n = n) (hnp : np ≤ n) (hj : j < n)
    (hB : B1 np n j st.t.row) (hs : invStep1 n st j = .ok st') :
    st'.t.n = n ∧ B1 np n (j + 1) st'.t.row ∧ (∀ g, g ∈ st'.circ → g ∈ st.circ ∨ (g = .H j ∧ np ≤ j)) := by
  unfold invStep1 at hs
  generalize hft : st.t.pauliTypeFinder j j = ft at hs
  obtain ⟨xs, ys, zs⟩ := ft
  simp only at hs
  have mem : ∀ ty f, f ∈ st.t.pickType j j ty → j ≤ f ∧ f < n ∧ st.t.ptype f j = tyCode ty ∧ (st.t.row f).pt j ≠ 0 := by
    intro ty f hf
    have h := (mem_pickType_iff st.t j j ty f).1 hf
    refine ⟨h.1, hn ▸ h.2.1, h.2.2, ?_⟩
    rw [← ptype_eq, h.2.2]
    exact tyCode_pos ty
  have ex : pickType st.t j j 1 = xs := by rw [pickType_1, hft]
  have ey : pickType st.t j j 2 = ys := by rw [pickType_2, hft]
  have ez : pickType st.t j j 3 = zs := by rw [pickType_3, hft]
  cases hx : xs.head? with
  | some f =>
    rw [hx] at hs
    simp only at hs
    injection hs with hs
    subst hs
    obtain ⟨h1, h2, _, h3⟩ := mem 1 f (by rw [ex]; exact List.mem_of_mem_head? hx)
    exact ⟨hn, b1_swap np n j f st hn hnp hj h1 h2 h3 hB, fun g hg => Or.inl hg⟩
  | none =>
    rw [hx] at hs
    simp only at hs
    cases hy : ys.head? with
    | some f =>
      rw [hy] at hs
      simp only at hs
      injection hs with hs
      subst hs
      obtain ⟨h1, h2, _, h3⟩ := mem 2 f (by rw [ey]; exact List.mem_of_mem_head? hy)
      exact ⟨hn, b1_swap np n j f st hn hnp hj h1 h2 h3 hB, fun g hg => Or.inl hg⟩
    | none =>
      rw [hy] at hs
      simp only at hs
      by_cases hzE : zs.isEmpty = true
      · rw [if_pos hzE] at hs
        injection hs with hs
        subst hs
        have hx0 : xs = [] := List.head?_eq_none_iff.1 hx
        have hy0 : ys = [] := List.head?_eq_none_iff.1 hy
        have hz0 : zs = [] := List.isEmpty_iff.1 hzE
        refine ⟨hn, b1_none np n j _ hj ?_ hB, fun g hg => Or.inl hg⟩
        intro k hjk hk
        have hle := PRow.pt_le (st.t.row k) j
        have inl : ∀ ty, tyCode ty = (st.t.row k).pt j → k ∈ st.t.pickType j j ty := fun ty hty =>
          (mem_pickType_iff st.t j j ty k).2 ⟨hjk, hn ▸ hk, by rw [ptype_eq, hty]⟩
        have c1 : tyCode 1 = 1 := rfl
        have c2 : tyCode 2 = 2 := rfl
        have c3 : tyCode 3 = 3 := rfl
        by_cases p1 : (st.t.row k).pt j = 1
        · have := inl 1 (by rw [c1, p1]); rw [ex, hx0] at this; cases this
        · by_cases p2 : (st.t.row k).pt j = 2
          · have := inl 2 (by rw [c2, p2]); rw [ey, hy0] at this; cases this
          · by_cases p3 : (st.t.row k).pt j = 3
            · have := inl 3 (by rw [c3, p3]); rw [ez, hz0] at this; cases this
            · omega
      · rw [if_neg hzE] at hs
        split at hs
        · cases hs
        · next f hf =>
          have hfz : f ∈ zs := (List.mem_filter.mp (List.mem_of_getLast? hf)).1
          obtain ⟨h1, h2, h3, h4⟩ := mem 3 f (by rw [ez]; exact hfz)
          have hB1 := b1_swap np n j f st hn hnp hj h1 h2 h4 hB
          have hzj : ((st.swap j f).t.row j).z j = true := by
            have e := swap_row' st j f j (hn ▸ hj)
            rw [if_pos rfl] at e
            rw [(e.1 j (hn ▸ hj)).2]
            exact z_of_pt_three _ _ (by rw [← ptype_eq, h3]; rfl)
          obtain ⟨k1, k2, k3⟩ := invClear_keeps n j hj (st.swap j f) hn hzj
          have hB2 := b1_keeps np n (j + 1) _ _ hnp k3 hB1
          split at hs
          · next hc =>
            injection hs with hs
            subst hs
            have hjnp : np ≤ j := by
              rcases Nat.lt_or_ge j np with hlt | hge
              · exfalso
                obtain ⟨i, hi, hij⟩ := hB2 j hlt
                have e1 := hij (by omega)
                rw [e1] at hi
                simp only [List.any_eq_true, List.mem_filter, List.mem_range, decide_eq_true_eq, Bool.or_eq_true] at hc
                obtain ⟨k, ⟨hk, hjk⟩, hb⟩ := hc
                have x0 := hi.row_x k hk
                have z0 := hi.row_z k hk
                have : decide (k = j) = false := by simp; omega
                rw [this] at z0
                rw [x0, z0] at hb
                simp at hb
              · exact hge
            refine ⟨k1, ?_, ?_⟩
            · intro q hq
              obtain ⟨i, hi, hiq⟩ := hB2 q hq
              refine ⟨i, litAt_gate _ (.H j) n q i k1 (by omega) hj True.intro ?_ hi, hiq⟩
              simp only [Gate.cols, List.mem_singleton]
              omega
            · intro g hg
              simp only [InvState.gate, List.mem_append, List.mem_singleton] at hg
              rcases hg with hg | hg
              · rw [k2] at hg
                exact Or.inl hg
              · exact Or.inr ⟨hg, hjnp⟩
          · injection hs with hs
            subst hs
            exact ⟨k1, hB2, fun g hg => Or.inl (by rw [k2] at hg; exact hg)⟩

/-- one column of block 1 -/
theorem step1_lit (np n j : Nat) (st st' : InvState) (hn : st.t.n = n) (hnp : np ≤ n) (hj : j < n)
    (hB : B1 np n j st.t.row) (hs : invStep1 n st j = .ok st') :
    st'.t.n = n ∧ B1 np n (j + 1) st'.t.row ∧ (∀ g, g ∈ st'.circ → g ∈ st.circ ∨ g = .H j) := by
  obtain ⟨a1, a2, a3⟩ := step1_emit np n j st st' hn hnp hj hB hs
  exact ⟨a1, a2, fun g hg => (a3 g hg).imp id And.left⟩

theorem onEmitters_H (np j : Nat) (h : np ≤ j) : Gate.onEmitters np (.H j) := by
  intro c hc
  simp only [Gate.cols, List.mem_singleton] at hc
  omega

/-- block 1, for any gate predicate that holds of `H j` on emitter columns `j` -/
theorem block1_gen (P : Gate → Prop) (np n : Nat) (hP : ∀ j, np ≤ j → P (.H j)) (hnp : np ≤ n) (m j : Nat) (hjm : j + m = n)
    (st st' : InvState) (hn : st.t.n = n)
    (hB : B1 np n j st.t.row) (hok : ∀ g, g ∈ st.circ → P g)
    (hs : (List.range' j m).foldlM (invStep1 n) st = .ok st') :
    st'.t.n = n ∧ B1 np n n st'.t.row ∧ ∀ g, g ∈ st'.circ → P g := by
  induction m generalizing j st with
  | zero =>
    simp only [List.range', List.foldlM_nil] at hs
    injection hs with hs
    subst hs
    have : j = n := by omega
    subst this
    exact ⟨hn, hB, hok⟩
  | succ m ih =>
    rw [List.range'_succ] at hs
    simp only [List.foldlM_cons] at hs
    cases h1 : invStep1 n st j with
    | error e => rw [h1] at hs; cases hs
    | ok s1 =>
      rw [h1] at hs
      obtain ⟨a1, a2, a3⟩ := step1_emit np n j st s1 hn hnp (by omega) hB h1
      refine ih (j + 1) (by omega) s1 a1 a2 ?_ hs
      intro g hg
      rcases a3 g hg with hg' | hg'
      · exact hok g hg'
      · rw [hg'.1]
        exact hP j hg'.2

theorem block1_lit (np n : Nat) (hnp : np ≤ n) (m j : Nat) (hjm : j + m = n) (st st' : InvState) (hn : st.t.n = n)
    (hB : B1 np n j st.t.row) (hok : ∀ g, g ∈ st.circ → Gate.okFor np g)
    (hs : (List.range' j m).foldlM (invStep1 n) st = .ok st') :
    st'.t.n = n ∧ B1 np n n st'.t.row ∧ ∀ g, g ∈ st'.circ → Gate.okFor np g :=
  block1_gen (Gate.okFor np) np n (fun _ _ => True.intro) hnp m j hjm st st' hn hB hok hs

/-- block 1 emits gates on emitter columns only -/
theorem invBlock1_emit (t0 : STab) (np : Nat) (hnp : np ≤ t0.n) (hlit : ∀ q, q < np → t0.Lit q) (s1 : InvState)
    (h : invBlock1 t0 = .ok s1) :
    s1.t.n = t0.n ∧ B1 np t0.n t0.n s1.t.row ∧ ∀ g, g ∈ s1.circ → Gate.okFor np g ∧ Gate.onEmitters np g := by
  unfold invBlock1 at h
  rw [List.range_eq_range'] at h
  refine block1_gen (fun g => Gate.okFor np g ∧ Gate.onEmitters np g) np t0.n
    (fun j hj => ⟨True.intro, onEmitters_H np j hj⟩) hnp t0.n 0 (by omega) { t := t0, circ := [] } s1 rfl ?_ ?_ h
  · intro q hq
    obtain ⟨i, hi⟩ := hlit q hq
    exact ⟨i, hi, fun h0 => absurd h0 (Nat.not_lt_zero _)⟩
  · intro g hg
    cases hg

theorem invBlock1_lit (t0 : STab) (np : Nat) (hnp : np ≤ t0.n) (hlit : ∀ q, q < np → t0.Lit q) (s1 : InvState)
    (h : invBlock1 t0 = .ok s1) :
    s1.t.n = t0.n ∧ B1 np t0.n t0.n s1.t.row ∧ ∀ g, g ∈ s1.circ → Gate.okFor np g := by
  unfold invBlock1 at h
  rw [List.range_eq_range'] at h
  refine block1_lit np t0.n hnp t0.n 0 (by omega) { t := t0, circ := [] } s1 rfl ?_ ?_ h
  · intro q hq
    obtain ⟨i, hi⟩ := hlit q hq
    exact ⟨i, hi, fun h0 => absurd h0 (Nat.not_lt_zero _)⟩
  · intro g hg
    cases hg

/-! ### blocks 2 to 7: row `q` is `+Z_q` for every photon `q` -/

/-- the invariant of blocks 2 to 7 -/
structure RInv (np n : Nat) (st : InvState) : Prop where
  n_eq : st.t.n = n
  lit : ∀ q, q < np → LitAt n st.t.row q q
  ok : ∀ g, g ∈ st.circ → Gate.okFor np g
  em : ∀ g, g ∈ st.circ → Gate.onEmitters np g

theorem RInv.gate {np n : Nat} {st : InvState} (h : RInv np n st) (hnp : np ≤ n) (g : Gate) (hwf : g.WF n)
    (hok0 : Gate.okFor 0 g) (hok : Gate.okFor np g) (hc : ∀ c, c ∈ g.cols → np ≤ c) : RInv np n (st.gate g) := by
  refine ⟨h.n_eq, fun q hq => ?_, fun g' hg' => ?_, fun g' hg' => ?_⟩
  · refine litAt_gate st g n q q h.n_eq (by omega) hwf hok0 (fun hm => ?_) (h.lit q hq)
    have := hc q hm
    omega
  · simp only [InvState.gate, List.mem_append, List.mem_singleton] at hg'
    rcases hg' with hg' | hg'
    · exact h.ok g' hg'
    · rw [hg']
      exact hok
  · simp only [InvState.gate, List.mem_append, List.mem_singleton] at hg'
    rcases hg' with hg' | hg'
    · exact h.em g' hg'
    · rw [hg']
      exact hc

theorem RInv.rsum {np n : Nat} {st : InvState} (h : RInv np n st) (a b : Nat) (ha : a < n)
    (hpa : np ≤ a) (hpb : np ≤ b) : RInv np n (st.rsum a b) :=
  ⟨h.n_eq, fun q hq => litAt_rsum st a b n q q h.n_eq (by omega) ha (by omega) (by omega) (h.lit q hq), h.ok, h.em⟩

theorem rinv_step2 (np n : Nat) (hnp : np ≤ n) (st : InvState) (jk : Nat × Nat) (h : RInv np n st) (hm : jk ∈ pairsLt n) :
    RInv np n (invStep2 st jk) := by
  have hb := mem_pairsLt _ _ hm
  unfold invStep2
  split
  · next hx =>
    have hj : np ≤ jk.1 := by
      rcases Nat.lt_or_ge jk.1 np with hlt | hge
      · have := (h.lit jk.1 hlt).row_x jk.2 hb.2
        rw [this] at hx
        cases hx
      · exact hge
    refine h.gate hnp (.CNOT jk.1 jk.2) ⟨by omega, hb.2, by omega⟩ ⟨Nat.zero_le _, Nat.zero_le _⟩ ⟨hj, by omega⟩ ?_
    intro c hc
    simp only [Gate.cols, List.mem_cons, List.not_mem_nil, or_false] at hc
    omega
  · exact h

theorem rinv_step3 (np n : Nat) (hnp : np ≤ n) (st : InvState) (jk : Nat × Nat) (h : RInv np n st) (hm : jk ∈ pairsLt n) :
    RInv np n (invStep3 st jk) := by
  have hb := mem_pairsLt _ _ hm
  unfold invStep3
  split
  · next hx =>
    simp only [Bool.and_eq_true] at hx
    have hj : np ≤ jk.1 := by
      rcases Nat.lt_or_ge jk.1 np with hlt | hge
      · have e := (h.lit jk.1 hlt).row_z jk.2 hb.2
        have : decide (jk.2 = jk.1) = false := by simp; omega
        rw [this, hx.2] at e
        cases e
      · exact hge
    refine h.gate hnp (.CZ jk.1 jk.2) ⟨by omega, hb.2, by omega⟩ ⟨Nat.zero_le _, Nat.zero_le _⟩ ⟨hj, by omega⟩ ?_
    intro c hc
    simp only [Gate.cols, List.mem_cons, List.not_mem_nil, or_false] at hc
    omega
  · exact h

theorem rinv_step4 (np n : Nat) (hnp : np ≤ n) (st : InvState) (j : Nat) (h : RInv np n st) (hjn : j < n) :
    RInv np n (invStep4 st j) := by
  unfold invStep4
  split
  · next hx =>
    simp only [Bool.and_eq_true] at hx
    have hj : np ≤ j := by
      rcases Nat.lt_or_ge j np with hlt | hge
      · have e := (h.lit j hlt).row_x j hjn
        rw [hx.1] at e
        cases e
      · exact hge
    refine h.gate hnp (.P j) hjn True.intro True.intro ?_
    intro c hc
    simp only [Gate.cols, List.mem_singleton] at hc
    omega
  · exact h

theorem rinv_step5 (np n : Nat) (hnp : np ≤ n) (st : InvState) (j : Nat) (h : RInv np n st) (hjn : j < n) :
    RInv np n (invStep5 st j) := by
  unfold invStep5
  split
  · next hx =>
    simp only [Bool.and_eq_true] at hx
    have hj : np ≤ j := by
      rcases Nat.lt_or_ge j np with hlt | hge
      · have e := (h.lit j hlt).row_x j hjn
        rw [hx.1] at e
        cases e
      · exact hge
    refine h.gate hnp (.H j) hjn True.intro True.intro ?_
    intro c hc
    simp only [Gate.cols, List.mem_singleton] at hc
    omega
  · exact h

theorem rinv_step6 (np n : Nat) (st : InvState) (jk : Nat × Nat) (h : RInv np n st) (hm : jk ∈ pairsLt n) :
    RInv np n (invStep6 st jk) := by
  have hb := mem_pairsLt _ _ hm
  unfold invStep6
  split
  · next hx =>
    simp only [Bool.and_eq_true] at hx
    have hj : np ≤ jk.1 := by
      rcases Nat.lt_or_ge jk.1 np with hlt | hge
      · have e := (h.lit jk.1 hlt).2.2 jk.2 hb.2 (by omega)
        exact absurd e (pt_ne_zero_of_z _ _ hx.2)
      · exact hge
    exact h.rsum jk.1 jk.2 (by omega) hj (by omega)
  · exact h

theorem rinv_step7 (np n : Nat) (hnp : np ≤ n) (st : InvState) (i : Nat) (h : RInv np n st) (hi : np ≤ i ∧ i < n) :
    RInv np n (invStep7 st i) := by
  unfold invStep7
  refine h.gate hnp (.X i) hi.2 True.intro True.intro ?_
  intro c hc
  simp only [Gate.cols, List.mem_singleton] at hc
  omega

theorem invRest_lit (np n : Nat) (hnp : np ≤ n) (s1 : InvState) (h1 : RInv np n s1) : RInv np n (invRest n s1) := by
  unfold invRest
  have lt_of_range : ∀ x, x ∈ List.range n → x < n := fun x hx => List.mem_range.mp hx
  have h2 := foldl_mem_inv invStep2 (RInv np n) (pairsLt n) (fun st jk hm h => rinv_step2 np n hnp st jk h hm) _ h1
  have h3 := foldl_mem_inv invStep3 (RInv np n) (pairsLt n) (fun st jk hm h => rinv_step3 np n hnp st jk h hm) _ h2
  have h4 := foldl_mem_inv invStep4 (RInv np n) (List.range n)
    (fun st j hm h => rinv_step4 np n hnp st j h (lt_of_range j hm)) _ h3
  have h5 := foldl_mem_inv invStep5 (RInv np n) (List.range n)
    (fun st j hm h => rinv_step5 np n hnp st j h (lt_of_range j hm)) _ h4
  have h6 := foldl_mem_inv invStep6 (RInv np n) (pairsLt n) (fun st jk hm h => rinv_step6 np n st jk h hm) _ h5
  refine foldl_mem_inv invStep7 (RInv np n) _ (fun st i hm h => rinv_step7 np n hnp st i h ?_) _ h6
  simp only [List.mem_filter, List.mem_range] at hm
  refine ⟨?_, hm.1⟩
  rcases Nat.lt_or_ge i np with hlt | hge
  · have e : (_ : PRow).r = (Zq i).r := (h6.lit i hlt).2.1.2.1
    rw [hm.2] at e
    cases e
  · exact hge

/-! ### the theorems -/

/-- on a tableau whose photon columns are literal, the blocks of `inverse_circuit` emit only gates the solver's replay
    accepts, and the photon columns are still literal at the end -/
theorem invBlocks_rinv (t0 : STab) (np : Nat) (hnp : np ≤ t0.n)
    (hlit : ∀ q, q < np → t0.Lit q) (s : InvState) (h : invBlocks t0 = .ok s) : RInv np t0.n s := by
  unfold invBlocks at h
  split at h
  · cases h
  · next s1 h1 =>
    injection h with h
    subst h
    obtain ⟨a1, a2, a3⟩ := invBlock1_emit t0 np hnp hlit s1 h1
    have r1 : RInv np t0.n s1 := by
      refine ⟨a1, fun q hq => ?_, fun g hg => (a3 g hg).1, fun g hg => (a3 g hg).2⟩
      obtain ⟨i, hi, hiq⟩ := a2 q hq
      rw [hiq (by omega)] at hi
      exact hi
    exact invRest_lit np t0.n hnp s1 r1

theorem invBlocks_gates_ok (t0 : STab) (np : Nat) (hnp : np ≤ t0.n) (hg : t0.Good)
    (hlit : ∀ q, q < np → t0.Lit q) (s : InvState) (h : invBlocks t0 = .ok s) :
    (∀ g, g ∈ s.circ → Gate.okFor np g) ∧ (∀ q, q < np → s.t.Lit q) := by
  have _ := hg
  have r := invBlocks_rinv t0 np hnp hlit s h
  refine ⟨r.ok, fun q hq => ?_⟩
  rw [lit_iff, r.n_eq]
  exact ⟨q, r.lit q hq⟩

/-- on a tableau whose photon columns are literal, the blocks of `inverse_circuit` emit no gate at all on a photon column -/
theorem invBlocks_gates_on_emitters (t0 : STab) (np : Nat) (hnp : np ≤ t0.n) (hg : t0.Good)
    (hlit : ∀ q, q < np → t0.Lit q) (s : InvState) (h : invBlocks t0 = .ok s) :
    ∀ g, g ∈ s.circ → Gate.onEmitters np g := by
  have _ := hg
  exact (invBlocks_rinv t0 np hnp hlit s h).em

/-- **`inverse_circuit` on a tableau with literal photon columns returns a gate list the solver's replay accepts**
    (`hcanon`: `canonical_form` keeps literal columns literal) -/
theorem inverseCircuit_gates_ok (t t' : STab) (circ : List Gate) (np : Nat) (hnp : np ≤ t.n) (hg : t.Good)
    (hcanon : ∀ (u u' : STab) (q : Nat), q < u.n → u.Lit q → u.canonicalForm = .ok u' → u'.Lit q)
    (hlit : ∀ q, q < np → t.Lit q) (h : t.inverseCircuit = .ok (t', circ)) :
    ∀ g, g ∈ circ → Gate.okFor np g := by
  obtain ⟨t0, s, hc, hs, _, e2⟩ := inverseCircuit_eq t t' circ h
  obtain ⟨sc, g0⟩ := canonicalForm_spanEq t t0 hg hc
  have hn : t.n = t0.n := sc.n_eq
  have hlit0 : ∀ q, q < np → t0.Lit q := fun q hq => hcanon t t0 q (by omega) (hlit q hq) hc
  rw [← e2]
  exact (invBlocks_gates_ok t0 np (by omega) g0 hlit0 s hs).1

/-- **`inverse_circuit` on a tableau with literal photon columns only emits gates on emitter columns**: every column a
    returned gate acts on is `≥ np` (`hcanon`: `canonical_form` keeps literal columns literal) -/
theorem inverseCircuit_gates_on_emitters (t t' : STab) (circ : List Gate) (np : Nat) (hnp : np ≤ t.n) (hg : t.Good)
    (hcanon : ∀ (u u' : STab) (q : Nat), q < u.n → u.Lit q → u.canonicalForm = .ok u' → u'.Lit q)
    (hlit : ∀ q, q < np → t.Lit q) (h : t.inverseCircuit = .ok (t', circ)) :
    ∀ g, g ∈ circ → Gate.onEmitters np g := by
  obtain ⟨t0, s, hc, hs, _, e2⟩ := inverseCircuit_eq t t' circ h
  obtain ⟨sc, g0⟩ := canonicalForm_spanEq t t0 hg hc
  have hn : t.n = t0.n := sc.n_eq
  have hlit0 : ∀ q, q < np → t0.Lit q := fun q hq => hcanon t t0 q (by omega) (hlit q hq) hc
  rw [← e2]
  exact invBlocks_gates_on_emitters t0 np (by omega) g0 hlit0 s hs

end STab
end Graphiq
