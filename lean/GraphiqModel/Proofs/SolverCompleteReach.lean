/-
  Proofs/SolverCompleteReach.lean — completeness of the time-reversed solver, part 3: one relation for everything a round of the
  solver does to its working tableau — gates on a set `A` of columns (the photon being absorbed and the emitters) and witnessed row
  operations (`rref`, the clearing products of the photon absorption) — and the facts it preserves:
  sizes, `Good`, independence of the generators, literal columns outside `A`, "qubit `p` is not a product qubit" for `p` outside
  `A`, and the rank of every cut `{0..k}` left of `A` (so the heights `h(k)` of the untouched photons never change: the emitter
  budget `ne = max h` of the target keeps bounding them).
-/
import GraphiqModel.Proofs.SolverCompleteGates
import GraphiqModel.Proofs.SolverCompleteOps
import GraphiqModel.Proofs.SolverCompleteLin
namespace Graphiq
open PRow
namespace STab

/-- witnessed row operations keep the signed group and `Good` -/
theorem COps.spanEq {t0 t : STab} (h : COps t0 t) (hg : t0.Good) : SpanEq t0 t ∧ t.Good := by
  induction h with
  | refl => exact ⟨SpanEq.refl _, hg⟩
  | @norm t _ ih => exact ⟨ih.1.trans (norm_spanEq t), norm_good t ih.2⟩
  | @swap t a b h2 h4 h ih =>
    have e := h.n_eq
    exact ⟨ih.1.trans (rowSwap_spanEq t a b (e ▸ h2) (e ▸ h4)), rowSwap_good t a b (e ▸ h2) (e ▸ h4) ih.2⟩
  | @sum t a b pc h2 h4 h5 _ _ _ h ih =>
    have e := h.n_eq
    exact ⟨ih.1.trans (rowSum_spanEq t a b (e ▸ h2) (e ▸ h4) h5 ih.2), rowSum_good t a b (e ▸ h2) (e ▸ h4) ih.2⟩

/-- `t` is reached from `t0` by gates on columns satisfying `A` and witnessed row operations -/
inductive Reach (A : Nat → Prop) (t0 : STab) : STab → Prop
  | refl : Reach A t0 t0
  | gate {t : STab} (G : Gate) : Reach A t0 t → G.WF t.n → (∀ c, c ∈ G.cols → A c) → Reach A t0 ((t.applyGate G).norm)
  | ops {t t' : STab} : Reach A t0 t → COps t t' → Reach A t0 t'

namespace Reach
variable {A : Nat → Prop} {t0 t : STab}

theorem n_eq (h : Reach A t0 t) : t.n = t0.n := by
  induction h with
  | refl => rfl
  | gate G _ _ _ ih => exact ih
  | ops _ o ih => exact o.n_eq.trans ih

theorem trans {t2 : STab} (h1 : Reach A t0 t) (h2 : Reach A t t2) : Reach A t0 t2 := by
  induction h2 with
  | refl => exact h1
  | gate G _ hG hA ih => exact Reach.gate G ih hG hA
  | ops _ o ih => exact Reach.ops ih o

theorem mono {B : Nat → Prop} (hAB : ∀ c, A c → B c) (h : Reach A t0 t) : Reach B t0 t := by
  induction h with
  | refl => exact Reach.refl
  | gate G _ hG hA ih => exact Reach.gate G ih hG (fun c hc => hAB c (hA c hc))
  | ops _ o ih => exact Reach.ops ih o

theorem of_gvia (h : GVia A t0 t) : Reach A t0 t := by
  induction h with
  | refl => exact Reach.refl
  | gate G _ hG hA ih => exact Reach.gate G ih hG hA

theorem of_cops (h : COps t0 t) : Reach A t0 t := Reach.ops Reach.refl h

theorem good (h : Reach A t0 t) (hg : t0.Good) : t.Good := by
  induction h with
  | refl => exact hg
  | gate G _ hG _ ih => exact gateNorm_good _ G hG ih
  | ops _ o ih => exact (o.spanEq ih).2

theorem indep (h : Reach A t0 t) (hg : t0.Good) (hi : t0.LinIndep) : t.LinIndep := by
  induction h with
  | refl => exact hi
  | gate G _ hG _ ih => exact indep_gate _ G hG ih
  | ops h1 o ih => exact indep_of_spanEq _ _ (o.spanEq (h1.good hg)).1 ih

theorem lit (h : Reach A t0 t) (q : Nat) (hq : q < t0.n) (hA : ¬ A q) (hl : t0.Lit q) : t.Lit q := by
  induction h with
  | refl => exact hl
  | @gate t G h1 hG hc ih => exact gateNorm_lit t G hG q (h1.n_eq ▸ hq) (fun hm => hA (hc q hm)) ih
  | ops h1 o ih => exact o.lit q (h1.n_eq ▸ hq) ih

theorem notProd (h : Reach A t0 t) (hg : t0.Good) (p : Nat) (hp : p < t0.n) (hA : ¬ A p) (hnp : t0.NotProd p) :
    t.NotProd p := by
  induction h with
  | refl => exact hnp
  | @gate t G h1 hG hc ih => exact gateNorm_notProd t G hG p (h1.n_eq ▸ hp) (fun hm => hA (hc p hm)) ih
  | ops h1 o ih => exact notProd_spanEq _ _ (o.spanEq (h1.good hg)).1 p ih

theorem cutRank_eq (h : Reach A t0 t) (hg : t0.Good) (k : Nat) (hA : ∀ c, A c → k < c) : t.cutRank k = t0.cutRank k := by
  induction h with
  | refl => rfl
  | @gate t G h1 hG hc ih => rw [cutRank_gate t G hG k (fun c hcm => hA c (hc c hcm))]; exact ih
  | ops h1 o ih => rw [cutRank_spanEq _ _ (o.spanEq (h1.good hg)).1 k]; exact ih

end Reach
end STab
end Graphiq
