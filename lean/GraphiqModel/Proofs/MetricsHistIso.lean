/-
  MetricsHistIso.lean — the metrics are functions of the per-register operation sequences (C18).

  `wiredWire c P r` = the operations on the wire of register `r`, as wired, in wire order (what `reg_gate_history` shows).
  Two circuits satisfying DagInv with the same register counts and the same operation sequence on every wire have schedules with
  the SAME operation list (`same_wires_same_schedule`) — node identities do not matter — so every op-list specification, hence
  every metric, has the same value on both.  Proof: peel off the first scheduled operation on both sides; acyclicity (here: the
  existence of a schedule of the second circuit) forces the corresponding node of the second circuit to be first on all its wires.
-/
import GraphiqModel.Proofs.MetricsHistDepth
set_option linter.unusedSectionVars false
set_option linter.unusedSimpArgs false
namespace Graphiq
namespace Metrics
open Dag Relation

/-! ## list facts -/

/-- the first element satisfying `A` and the first element satisfying `B` coincide if each satisfies the other predicate -/
theorem head_filter_unique {α : Type} {l : List α} {A B : α → Bool} {q q2 : α} {ta tb : List α}
    (ha : l.filter A = q :: ta) (hb : l.filter B = q2 :: tb) (hA : A q2 = true) (hB : B q = true) : q = q2 := by
  induction l with
  | nil => simp at ha
  | cons x t ih =>
    by_cases hax : A x = true
    · rw [List.filter_cons_of_pos hax] at ha
      injection ha with h1 _
      subst h1
      by_cases hbx : B x = true
      · rw [List.filter_cons_of_pos hbx] at hb
        injection hb with h2 _
      · exact absurd hB hbx
    · rw [List.filter_cons_of_neg hax] at ha
      by_cases hbx : B x = true
      · rw [List.filter_cons_of_pos hbx] at hb
        injection hb with h2 _
        subst h2
        exact absurd hA hax
      · rw [List.filter_cons_of_neg hbx] at hb
        exact ih ha hb

/-- the scheduled entries acting on a register -/
def onReg (L : List (NodeId × Op)) (r : Reg) : List (NodeId × Op) := L.filter (fun p => decide (r ∈ opRegs p.2))

theorem schedWire_eq_onReg (L : List (NodeId × Op)) (r : Reg) : schedWire L r = (onReg L r).map (·.1) := rfl

theorem onReg_append (L1 L2 : List (NodeId × Op)) (r : Reg) : onReg (L1 ++ L2) r = onReg L1 r ++ onReg L2 r := by
  simp [onReg, List.filter_append]

theorem onReg_cons_pos {p : NodeId × Op} {L : List (NodeId × Op)} {r : Reg} (h : r ∈ opRegs p.2) :
    onReg (p :: L) r = p :: onReg L r := by simp [onReg, List.filter_cons, h]

theorem onReg_cons_neg {p : NodeId × Op} {L : List (NodeId × Op)} {r : Reg} (h : r ∉ opRegs p.2) :
    onReg (p :: L) r = onReg L r := by simp [onReg, List.filter_cons, h]

/-! ## removing / putting back the first scheduled node -/

section circ
variable {c : Dag} {P : Paths}

theorem wiredOp_erase_ne {n x : NodeId} (hx : x ≠ n) (o : Op) : wiredOp (erasePaths P n) x o = wiredOp P x o := by
  apply wiredOp_congr
  intro j _
  unfold erasePaths
  rw [List.mem_erase_of_ne hx]

/-- the tail of a schedule is a schedule of the circuit without the first scheduled node -/
theorem Sched.tail_removed (g : Good c P) {i : Nat} {o : Op} {rest : List (NodeId × Op)}
    (hS : Sched c P ((NodeId.op i, o) :: rest)) : Sched (c.removeOp (.op i)).1 (erasePaths P (.op i)) rest := by
  obtain ⟨i', w, hi, hw, ho⟩ := hS.op_node (p := (NodeId.op i, o)) (by simp)
  simp only at hi ho
  injection hi with hi
  subst hi
  obtain ⟨L1, L2, hL, hS2⟩ := removeNode_sched g hS hw
  have hnd := nodup_of_nodup_fst hS.nodup
  have e : ([] : List (NodeId × Op)) ++ (NodeId.op i, o) :: rest = L1 ++ (NodeId.op i, o) :: L2 := by
    rw [← ho] at hL; simpa using hL
  obtain ⟨h1, h2⟩ := split_unique (by simpa using hnd) e
  rw [← h1, ← h2] at hS2
  simpa using hS2

/-- putting the node back: if an operation node is first on every wire it lies on, a schedule of the circuit without it,
    preceded by the node, is a schedule of the circuit -/
theorem sched_cons_of_removed (g : Good c P) {i : Nat} {w : Op} (hw : (NodeId.op i, w) ∈ c.nodes)
    (hfirst : ∀ r, r ∈ opRegs (wiredOp P (.op i) w) → ∃ t, P r = NodeId.inp r :: NodeId.op i :: t)
    {L1 : List (NodeId × Op)} (hS1 : Sched (c.removeOp (.op i)).1 (erasePaths P (.op i)) L1) :
    Sched c P ((NodeId.op i, wiredOp P (.op i) w) :: L1) := by
  obtain ⟨_, g1, hregs, _⟩ := removeOp_good g (mem_nodeIds.mpr ⟨w, hw⟩)
  have hnodes : (c.removeOp (.op i)).1.nodes = c.nodes.filter (fun p => p.1 ≠ .op i) := by
    rw [removeOp_eq ((opOf_eq_some g.inv.ids_nodup).mpr hw)]
    have F := removeFacts g.inv (.op i)
    simp only [removed, F.nodes]
  have hnotin : ∀ p ∈ L1, p.1 ≠ NodeId.op i := by
    intro p hp e
    obtain ⟨_, o', hm, _⟩ := (hS1.nodes p).mp hp
    rw [hnodes] at hm
    have := (List.mem_filter.mp hm).2
    simp [e] at this
  refine ⟨?_, ?_, ?_, ?_⟩
  · intro r hl
    have hl1 : (c.removeOp (.op i)).1.live r := (live_eq_of_regs hregs r).mpr hl
    have h1 := hS1.wire r hl1
    unfold erasePaths at h1
    by_cases hr : r ∈ opRegs (wiredOp P (.op i) w)
    · obtain ⟨t, ht⟩ := hfirst r hr
      rw [schedWire_cons_pos (p := (NodeId.op i, wiredOp P (.op i) w)) hr]
      rw [ht] at h1 ⊢
      have : (NodeId.inp r :: NodeId.op i :: t).erase (.op i) = NodeId.inp r :: t := by
        rw [List.erase_cons_tail (by simp), List.erase_cons_head]
      rw [this] at h1
      injection h1 with _ h1
      rw [h1]
      simp
    · rw [schedWire_cons_neg (p := (NodeId.op i, wiredOp P (.op i) w)) hr]
      have hni : NodeId.op i ∉ P r := fun hm => hr ((mem_opRegs_wiredOp g hw r).mpr hm)
      rw [List.erase_of_not_mem hni] at h1
      exact h1
  · intro p
    constructor
    · intro hp
      rcases List.mem_cons.mp hp with rfl | hp
      · exact ⟨⟨i, rfl⟩, w, hw, rfl⟩
      · obtain ⟨hi, o', hm, ho'⟩ := (hS1.nodes p).mp hp
        rw [hnodes] at hm
        exact ⟨hi, o', (List.mem_filter.mp hm).1, by rw [ho', wiredOp_erase_ne (hnotin p hp)]⟩
    · rintro ⟨hi, o', hm, ho'⟩
      by_cases hpi : p.1 = NodeId.op i
      · have : o' = w := by
          have e1 := (opOf_eq_some g.inv.ids_nodup).mpr hm
          have e2 := (opOf_eq_some g.inv.ids_nodup).mpr hw
          rw [hpi, e2] at e1
          injection e1 with e1; exact e1.symm
        exact List.mem_cons.mpr (Or.inl (Prod.ext hpi (by rw [ho', hpi, this])))
      · refine List.mem_cons.mpr (Or.inr ((hS1.nodes p).mpr ⟨hi, o', ?_, by rw [ho', wiredOp_erase_ne hpi]⟩))
        rw [hnodes]
        exact List.mem_filter.mpr ⟨hm, by simpa using hpi⟩
  · rw [List.map_cons, List.nodup_cons]
    refine ⟨?_, hS1.nodup⟩
    intro hm
    obtain ⟨p, hp, hp1⟩ := List.mem_map.mp hm
    exact hnotin p hp hp1
  · intro p hp r hr
    rcases List.mem_cons.mp hp with rfl | hp
    · by_cases hl : c.live r
      · exact hl
      · have := (mem_opRegs_wiredOp g hw r).mp hr
        rw [g.inv.dead r hl] at this; simp at this
    · exact (live_eq_of_regs hregs r).mp (hS1.live p hp r hr)

end circ

/-! ## same wires, same schedule -/

/-- every scheduled entry acts on some register -/
theorem Sched.entry_has_reg {c : Dag} {P : Paths} {L : List (NodeId × Op)} (g : Good c P) (hS : Sched c P L)
    {p : NodeId × Op} (hp : p ∈ L) : ∃ r, r ∈ opRegs p.2 := by
  obtain ⟨i, o, _, hm, hpo⟩ := hS.op_node hp
  have := (wiredOp_wf (P := P) (n := .op i) (g.inv.op_wf i o hm)).qregs_ne
  rw [hpo]
  cases hq : (wiredOp P (.op i) o).qregs with
  | nil => exact absurd hq this
  | cons a t => exact ⟨a, by unfold opRegs; exact List.mem_append.mpr (Or.inl (by rw [hq]; exact List.mem_cons_self))⟩

/-- **same wires ⇒ a schedule with the same operation list.**  If `L` is a schedule of `c`, `L''` one of `c'`, and on every
    register the operations of the entries acting on it agree, in order, then `c'` has a schedule whose operation list is exactly
    that of `L`. -/
theorem same_wires_same_schedule : ∀ (n : Nat) {c c' : Dag} {P P' : Paths} {L L'' : List (NodeId × Op)},
    Good c P → Good c' P' → Sched c P L → Sched c' P' L'' → L.length = n →
    (∀ r, (onReg L'' r).map (·.2) = (onReg L r).map (·.2)) →
    ∃ L', Sched c' P' L' ∧ L'.map (·.2) = L.map (·.2) := by
  intro n
  induction n with
  | zero =>
    intro c c' P P' L L'' g g' hS hS'' hlen hH
    have hL : L = [] := List.length_eq_zero_iff.mp hlen
    subst hL
    have hL'' : L'' = [] := by
      apply List.eq_nil_iff_forall_not_mem.mpr
      intro p hp
      obtain ⟨r, hr⟩ := hS''.entry_has_reg g' hp
      have := hH r
      simp only [onReg, List.filter_nil, List.map_nil, List.map_eq_nil_iff] at this
      have hm : p ∈ L''.filter (fun p => decide (r ∈ opRegs p.2)) := List.mem_filter.mpr ⟨hp, by simpa using hr⟩
      rw [show L''.filter (fun p => decide (r ∈ opRegs p.2)) = [] from this] at hm
      simp at hm
    subst hL''
    exact ⟨[], hS'', rfl⟩
  | succ n ih =>
    intro c c' P P' L L'' g g' hS hS'' hlen hH
    cases L with
    | nil => simp at hlen
    | cons p rest =>
      obtain ⟨i, w, hpi, hw, hpo⟩ := hS.op_node (p := p) (by simp)
      obtain ⟨n0, o⟩ := p
      simp only at hpi hpo
      subst hpi
      -- a register of the first operation, and the matching entry of L''
      obtain ⟨r0, hr0⟩ := hS.entry_has_reg g (p := (NodeId.op i, o)) (by simp)
      have hhead : ∀ r, r ∈ opRegs o → ∃ q t, onReg L'' r = q :: t ∧ q.2 = o := by
        intro r hr
        have := hH r
        rw [onReg_cons_pos (p := (NodeId.op i, o)) hr, List.map_cons] at this
        cases hq : onReg L'' r with
        | nil => rw [hq] at this; simp at this
        | cons q t =>
          rw [hq, List.map_cons] at this
          injection this with h1 _
          exact ⟨q, t, rfl, h1⟩
      obtain ⟨q, t0, hq0, hqo⟩ := hhead r0 hr0
      have hq_all : ∀ r, r ∈ opRegs o → ∃ t, onReg L'' r = q :: t := by
        intro r hr
        obtain ⟨q2, t, hq2, hq2o⟩ := hhead r hr
        have : q = q2 := head_filter_unique (l := L'') hq0 hq2 (by rw [hq2o]; simpa using hr0) (by rw [hqo]; simpa using hr)
        exact ⟨t, by rw [this]; exact hq2⟩
      have hqL : q ∈ L'' := by
        have : q ∈ onReg L'' r0 := by rw [hq0]; simp
        exact (List.mem_filter.mp this).1
      obtain ⟨L1, L2, hsplit⟩ := List.append_of_mem hqL
      have hnd'' := nodup_of_nodup_fst hS''.nodup
      have hL1 : ∀ r, r ∈ opRegs o → onReg L1 r = [] := by
        intro r hr
        obtain ⟨t, ht⟩ := hq_all r hr
        rw [hsplit, onReg_append, onReg_cons_pos (p := q) (by rw [hqo]; exact hr)] at ht
        cases h1 : onReg L1 r with
        | nil => rfl
        | cons x t1 =>
          exfalso
          rw [h1] at ht
          injection ht with hx _
          have hxL1 : x ∈ L1 := (List.mem_filter.mp (by rw [h1]; simp : x ∈ onReg L1 r)).1
          rw [hsplit, List.nodup_append] at hnd''
          exact hnd''.2.2 x hxL1 q (by simp) hx
      -- the node of `q` in `c'`
      obtain ⟨i', w', hqi, hw', hqo'⟩ := hS''.op_node hqL
      obtain ⟨n', oq⟩ := q
      simp only at hqi hqo' hqo
      subst hqi
      subst hqo
      have hfirst' : ∀ r, r ∈ opRegs (wiredOp P' (.op i') w') → ∃ t, P' r = NodeId.inp r :: NodeId.op i' :: t := by
        intro r hr
        rw [← hqo'] at hr
        obtain ⟨t, ht⟩ := hq_all r hr
        have hl := hS''.live _ hqL r hr
        rw [hS''.wire r hl, schedWire_eq_onReg, ht]
        exact ⟨_, rfl⟩
      -- remove both first nodes
      have hS1 : Sched (c.removeOp (.op i)).1 (erasePaths P (.op i)) rest := hS.tail_removed g
      obtain ⟨_, g1, _, _⟩ := removeOp_good g (mem_nodeIds.mpr ⟨w, hw⟩)
      obtain ⟨_, g1', _, _⟩ := removeOp_good g' (mem_nodeIds.mpr ⟨w', hw'⟩)
      obtain ⟨M1, M2, hM, hS1'⟩ := removeNode_sched g' hS'' hw'
      rw [← hqo'] at hM
      obtain ⟨e1, e2⟩ := split_unique (by rw [← hsplit]; exact hnd'') (hsplit.symm.trans hM)
      rw [← e1, ← e2] at hS1'
      have hH1 : ∀ r, (onReg (L1 ++ L2) r).map (·.2) = (onReg rest r).map (·.2) := by
        intro r
        have := hH r
        rw [hsplit, onReg_append] at this
        rw [onReg_append]
        by_cases hr : r ∈ opRegs oq
        · rw [hL1 r hr, onReg_cons_pos (p := (NodeId.op i', oq)) hr, onReg_cons_pos (p := (NodeId.op i, oq)) hr] at this
          rw [hL1 r hr]
          simpa using this
        · rw [onReg_cons_neg (p := (NodeId.op i', oq)) hr, onReg_cons_neg (p := (NodeId.op i, oq)) hr] at this
          exact this
      obtain ⟨L1', hS1'', hmap⟩ := ih g1 g1' hS1 hS1' (by simpa using hlen) hH1
      have := sched_cons_of_removed g' hw' hfirst' hS1''
      rw [← hqo'] at this
      exact ⟨_, this, by simp [hmap]⟩

/-! ## the operation sequence of a wire -/

/-- the operations on the wire of a register, as wired, in wire order -/
def wiredWire (c : Dag) (P : Paths) (r : Reg) : List Op :=
  (P r).filterMap (fun n => match n with | .op _ => (c.opOf? n).map (wiredOp P n) | _ => none)

theorem Sched.wiredWire_eq {c : Dag} {P : Paths} {L : List (NodeId × Op)} (g : Good c P) (hS : Sched c P L) (r : Reg) :
    wiredWire c P r = (onReg L r).map (·.2) := by
  unfold wiredWire
  by_cases hl : c.live r
  · rw [hS.wire r hl, schedWire_eq_onReg]
    simp only [List.filterMap_cons, List.filterMap_append, List.filterMap_nil, List.append_nil]
    have : ∀ (l : List (NodeId × Op)), (∀ p ∈ l, p ∈ L) →
        (l.map (·.1)).filterMap (fun n => match n with | .op _ => (c.opOf? n).map (wiredOp P n) | _ => none) = l.map (·.2) := by
      intro l
      induction l with
      | nil => intro _; rfl
      | cons p t iht =>
        intro hmem
        obtain ⟨i, o, hi, hm, hpo⟩ := hS.op_node (hmem p (by simp))
        rw [List.map_cons, List.filterMap_cons, hi]
        simp only
        rw [(opOf_eq_some g.inv.ids_nodup).mpr hm]
        simp only [Option.map_some]
        rw [iht (fun q hq => hmem q (List.mem_cons_of_mem _ hq)), List.map_cons, hpo]
    exact this _ (fun p hp => (List.mem_filter.mp hp).1)
  · rw [g.inv.dead r hl]
    have : onReg L r = [] := by
      apply List.eq_nil_iff_forall_not_mem.mpr
      intro p hp
      have hp' := List.mem_filter.mp hp
      exact hl (hS.live p hp'.1 r (by simpa using hp'.2))
    rw [this]; rfl

/-- **same register counts + same operation sequence on every wire ⇒ schedules with the same operation list** -/
theorem same_wiredWires_same_ops {c c' : Dag} {P P' : Paths} (g : Good c P) (g' : Good c' P')
    (hw : ∀ r, wiredWire c' P' r = wiredWire c P r) :
    ∃ L L', Sched c P L ∧ Sched c' P' L' ∧ L'.map (·.2) = L.map (·.2) := by
  obtain ⟨L, hS⟩ := sched_exists g
  obtain ⟨L'', hS''⟩ := sched_exists g'
  have hH : ∀ r, (onReg L'' r).map (·.2) = (onReg L r).map (·.2) := by
    intro r
    rw [← hS''.wiredWire_eq g' r, ← hS.wiredWire_eq g r]
    exact hw r
  obtain ⟨L', hS', hmap⟩ := same_wires_same_schedule L.length g g' hS hS'' rfl hH
  exact ⟨L, L', hS, hS', hmap⟩

end Metrics
end Graphiq
