/-
  MetricsHistDepth.lean — `CircuitDepth` on every circuit satisfying DagInv (C18): under the recorded specification of
  `nx.dag_longest_path_length`, `depth` = the largest ASAP layer of the scheduled operation list, for any schedule.
-/
import GraphiqModel.Proofs.MetricsHistSpec
import Mathlib.Data.List.Induction
set_option linter.unusedSectionVars false
set_option linter.unusedSimpArgs false
namespace Graphiq
namespace Metrics
open Dag Relation

/-! ## facts about the ASAP specification -/

theorem getD_le_foldl_max (l : List Nat) : ∀ (a i : Nat), l.getD i 0 ≤ l.foldl max a ∧ a ≤ l.foldl max a := by
  induction l with
  | nil => intro a i; simp
  | cons x t ih =>
    intro a i
    rw [List.foldl_cons]
    cases i with
    | zero =>
      have := (ih (max a x) 0).2
      simp only [List.getD_cons_zero]
      omega
    | succ j =>
      have := ih (max a x) j
      simp only [List.getD_cons_succ]
      omega

/-- the ASAP layer of every operation of the list is at most the depth -/
theorem layer_le_depth (a : List Op) (o : Op) (b : List Op) :
    Spec.layerOf (Spec.fronts a) o ≤ Spec.depth (a ++ o :: b) := by
  have h1 := layers_getD_split a o b []
  have h2 := (getD_le_foldl_max (Spec.layers [] (a ++ o :: b)) 0 a.length).1
  unfold Spec.depth Spec.fronts
  omega

theorem layerOf_ge (f : List (Reg × Nat)) (op : Op) {r : Reg} (hr : r ∈ opRegs op) :
    Spec.frontGet f r + 1 ≤ Spec.layerOf f op := by
  unfold Spec.layerOf
  rw [spec_opRegs_eq]
  have := (foldl_max_nat (fun r => Spec.frontGet f r) (opRegs op) 0).2.1 r hr
  omega

/-- the ASAP depth of every register is at most the depth -/
theorem regDepth_le_depth (seq : List Op) (r : Reg) : Spec.regDepth seq r ≤ Spec.depth seq := by
  induction seq using List.reverseRec with
  | nil => simp [Spec.regDepth, Spec.fronts, Spec.frontGet]
  | append_singleton pre op ih =>
    unfold Spec.regDepth at ih ⊢
    rw [fronts_append, frontGet_pushLayer, spec_depth_append]
    by_cases hr : r ∈ opRegs op
    · rw [if_pos hr]; omega
    · rw [if_neg hr]; omega

/-- on a non-empty list of operations that each act on some register, the depth is the ASAP depth of some register of
    some operation of the list -/
theorem exists_regDepth_eq_depth (seq : List Op) (hne : seq ≠ []) (hregs : ∀ o ∈ seq, opRegs o ≠ []) :
    ∃ o ∈ seq, ∃ r ∈ opRegs o, Spec.regDepth seq r = Spec.depth seq := by
  induction seq using List.reverseRec with
  | nil => exact absurd rfl hne
  | append_singleton pre op ih =>
    obtain ⟨r0, hr0⟩ := List.exists_mem_of_ne_nil _ (hregs op (by simp))
    have hl1 : 1 ≤ Spec.layerOf (Spec.fronts pre) op := by unfold Spec.layerOf; omega
    by_cases hcase : Spec.depth pre ≤ Spec.layerOf (Spec.fronts pre) op
    · refine ⟨op, by simp, r0, hr0, ?_⟩
      unfold Spec.regDepth
      rw [fronts_append, frontGet_pushLayer, if_pos hr0, spec_depth_append]
      omega
    · have hpre : pre ≠ [] := by
        intro e; subst e
        simp [Spec.depth, Spec.layers] at hcase
      obtain ⟨o, ho, r, hr, heq⟩ := ih hpre (fun o ho => hregs o (by simp [ho]))
      refine ⟨o, by simp [ho], r, hr, ?_⟩
      unfold Spec.regDepth at heq ⊢
      rw [fronts_append, frontGet_pushLayer, spec_depth_append]
      by_cases hrop : r ∈ opRegs op
      · have := layerOf_ge (Spec.fronts pre) op hrop
        omega
      · rw [if_neg hrop]; omega

/-! ## circuit depth -/

/-- **`CircuitDepth` on any circuit satisfying DagInv** with plain operations and at least one register: for any
    schedule `L` of the circuit and any value `Lp` meeting the recorded specification of `nx.dag_longest_path_length`,
    `depth = Lp − 1` is the largest ASAP layer of the scheduled operation list -/
theorem circuitDepth_eq_spec_sched_of {c : Dag} {P : Paths} {L : List (NodeId × Op)} (g : Good c P) (hk : NoInputKey c)
    (hS : Sched c P L) (hne : c.nodeIds ≠ []) {Lp : Nat} (hLp : LongestPathSpec c Lp) :
    circuitDepthWith Lp = (Spec.depth (L.map (·.2)) : Int) := by
  have hkey := hS.input_not_key_of hk
  obtain ⟨hd1, hd2⟩ := sched_depth g hS hkey
  unfold circuitDepthWith
  apply depth_of_allDepth _ _ _ _ hLp
  · -- every node has a depth ≤ the largest layer
    intro n hn
    cases n with
    | inp r =>
      exact ⟨-1, HasDepth.input (isInputNode_inp g.inv ((g.inv.inp_iff r).mp hn)), by omega⟩
    | out r =>
      refine ⟨_, hd2 r ((g.inv.out_iff r).mp hn), ?_⟩
      exact_mod_cast regDepth_le_depth (L.map (·.2)) r
    | op i =>
      obtain ⟨o, ho⟩ := mem_nodeIds.mp hn
      obtain ⟨pre, suf, hL⟩ := List.append_of_mem (hS.mem_of_node ho)
      refine ⟨_, hd1 pre _ suf hL, ?_⟩
      have := layer_le_depth (pre.map (·.2)) (wiredOp P (.op i) o) (suf.map (·.2))
      rw [hL, List.map_append, List.map_cons]
      simp only at this ⊢
      omega
  · -- input nodes have no in-edges
    intro x b hi hE
    rw [isInputNode_iff g.inv] at hi
    obtain ⟨_, hb⟩ := E_nodes g.inv hE
    obtain ⟨o, ho⟩ := mem_nodeIds.mp hb
    unfold keysAt at hi
    rw [(opOf_eq_some g.inv.ids_nodup).mpr ho] at hi
    cases b with
    | inp r => exact g.inv.inp_source r x hE
    | out r => simp [indexKeysOf] at hi
    | op i =>
      simp only [indexKeysOf] at hi
      have := hkey _ (hS.mem_of_node ho)
      rw [wiredOp_indexKeys] at this
      exact this hi
  · -- the bound is attained
    by_cases hLn : L = []
    · subst hLn
      obtain ⟨n, hn⟩ := List.exists_mem_of_ne_nil _ hne
      have hlive : ∃ r, c.live r := by
        cases n with
        | inp r => exact ⟨r, (g.inv.inp_iff r).mp hn⟩
        | out r => exact ⟨r, (g.inv.out_iff r).mp hn⟩
        | op i =>
          obtain ⟨o, ho⟩ := mem_nodeIds.mp hn
          exact absurd (hS.mem_of_node ho) (by simp)
      obtain ⟨r, hl⟩ := hlive
      refine ⟨.out r, ?_⟩
      have := hd2 r hl
      simpa [Spec.regDepth, Spec.fronts, Spec.frontGet, Spec.depth, Spec.layers] using this
    · have hne' : L.map (·.2) ≠ [] := by simpa using hLn
      have hregs : ∀ o ∈ L.map (·.2), opRegs o ≠ [] := by
        intro o ho
        obtain ⟨p, hp, rfl⟩ := List.mem_map.mp ho
        obtain ⟨i, o', _, hm, hpo⟩ := hS.op_node hp
        have hwf : OpWF p.2 := hpo ▸ wiredOp_wf (g.inv.op_wf i o' hm)
        unfold opRegs; intro h
        exact hwf.qregs_ne (List.append_eq_nil_iff.mp h).1
      obtain ⟨o, ho, r, hr, heq⟩ := exists_regDepth_eq_depth (L.map (·.2)) hne' hregs
      obtain ⟨p, hp, rfl⟩ := List.mem_map.mp ho
      have hl := hS.live p hp r hr
      refine ⟨.out r, ?_⟩
      rw [← heq]; exact hd2 r hl
  · intro a b k w hk
    cases w with
    | nil => omega
    | snoc _ hxb => exact (E_nodes g.inv hxb).2

/-- … in particular on circuits with plain operations -/
theorem circuitDepth_eq_spec_sched {c : Dag} {P : Paths} {L : List (NodeId × Op)} (g : Good c P) (hpl : AllPlain c)
    (hS : Sched c P L) (hne : c.nodeIds ≠ []) {Lp : Nat} (hLp : LongestPathSpec c Lp) :
    circuitDepthWith Lp = (Spec.depth (L.map (·.2)) : Int) :=
  circuitDepth_eq_spec_sched_of g (noInputKey_of_allPlain g hpl) hS hne hLp

end Metrics
end Graphiq
