/-
  Proofs/InvGraph.lean — `inverse_circuit` and `clifford_from_stabilizer` on graph states, exactly: for the generators
  `X_i Z_{N(i)}` of a simple graph (symmetric, irreflexive adjacency) the synthesis emits one `CZ(j,k)` per edge `j < k`
  in lexicographic order followed by one Hadamard per qubit — nothing else — and the Clifford tableau of
  `get_clifford_tableau_from_graph` is the textbook one: destabilizers `Z_i`, stabilizers `X_i Z_{N(i)}`, all signs `+`.
  All sizes.
-/
import GraphiqModel.Proofs.InvClifford
import GraphiqModel.Proofs.InvDead
namespace Graphiq
open PRow Tab
namespace STab

/-! ### small facts -/

theorem cz_r (c t : Nat) (hct : c ≠ t) (p : PRow) :
    (PRow.cz c t p).r = xor p.r (p.x c && p.x t && xor (p.z c) (p.z t)) := by
  have htc : t ≠ c := fun e => hct e.symm
  simp only [PRow.cz, PRow.h, PRow.cnot, if_neg hct, if_neg htc]
  cases p.r <;> cases p.x c <;> cases p.x t <;> cases p.z c <;> cases p.z t <;> rfl

theorem h_r (q : Nat) (p : PRow) : (PRow.h q p).r = xor p.r (p.x q && p.z q) := rfl

theorem swp_self (a m : Nat) : swp a a m = m := by
  unfold swp; split
  · next h => exact h.symm
  · rfl

theorem swap_row (st : InvState) (a b m : Nat) (hm : m < st.t.n) :
    EqOn st.t.n ((st.swap a b).t.row m) (st.t.row (swp a b m)) := by
  have := norm_row (st.t.rowSwap a b) m hm
  rw [rowSwap_row_swp] at this
  exact this

/-- the bits of a state below the size: x-bits `X`, z-bits `Z`, all signs `+`, all rows real -/
structure GBits (n : Nat) (X Z : Nat → Nat → Bool) (t : STab) : Prop where
  n_eq : t.n = n
  x : ∀ m c, m < n → c < n → xb t m c = X m c
  z : ∀ m c, m < n → c < n → zb t m c = Z m c
  r : ∀ m, m < n → rb t m = false

/-- the rows of the state are the images of the rows of `c` under the gates emitted so far -/
def Fwd (n : Nat) (c : STab) (s : InvState) : Prop := ∀ m, m < n → EqOn n (s.t.row m) (actCirc s.circ (c.row m))

def idM (m c : Nat) : Bool := decide (c = m)

section graph
variable (n : Nat) (A : Nat → Nat → Bool)

/-- the graph-state tableau is already in `Canon` shape (X block = identity, no Z block) -/
theorem graphSTab_canon : Canon (graphSTab n A) := by
  refine ⟨n, id, id, ⟨Nat.zero_le _, Nat.le_refl _, fun i _ h => h, fun i _ _ => ?_, fun i m _ _ _ hne => ?_,
    fun i j _ _ hj => ?_, fun i i' _ h _ => h, fun m j h1 h2 _ => ?_⟩,
    ⟨Nat.le_refl _, Nat.le_refl _, fun i h1 h2 => ?_, fun i h1 h2 => ?_, fun i m h1 h2 => ?_,
      fun i j h1 h2 => ?_, fun i i' h1 h2 h3 => ?_, fun m j h1 h2 => ?_⟩⟩
  · show decide (i = i) = true; simp
  · show decide (i = m) = false
    have : ¬ i = m := fun e => hne e.symm
    simp [this]
  · show decide (j = i) = false
    have hj' : j < i := hj
    have : ¬ j = i := by omega
    simp [this]
  · have : m < n := h2
    omega
  all_goals (first | (have : (graphSTab n A).n = n := rfl) ; omega | omega)

theorem graphSTab_canonicalForm (hsym : ∀ i j, i < n → j < n → A i j = A j i) :
    ∃ c, (graphSTab n A).canonicalForm = .ok c ∧ c.n = n ∧ c.Good ∧
      ∀ i, i < n → EqOn n (c.row i) ((graphSTab n A).row i) := by
  have gg := graphSTab_good' n A hsym
  obtain ⟨c, hc⟩ := canonicalForm_of_indep _ gg (graphSTab_indep n A)
  obtain ⟨s, gc⟩ := canonicalForm_spanEq _ c gg hc
  have hn : c.n = n := s.n_eq.symm
  have rows := canon_unique c (graphSTab n A) (canonicalForm_canon _ c hc) (graphSTab_canon n A) gc gg s.symm
  refine ⟨c, hc, hn, gc, fun i hi => ?_⟩
  have := rows i (by rw [hn]; exact hi)
  rw [hn] at this; exact this

end graph


/-! ### blocks 1 and 2: nothing happens -/

section blocks
variable (n : Nat)

theorem graph_block1 (Z : Nat → Nat → Bool) (c : STab) (hc : GBits n idM Z c) :
    ∃ s1, invBlock1 c = .ok s1 ∧ GBits n idM Z s1.t ∧ s1.circ = [] ∧ Fwd n c s1 := by
  unfold invBlock1
  rw [hc.n_eq]
  obtain ⟨s1, e, h1, h2, h3⟩ := foldlM_range_inv (invStep1 n) (fun _ s => GBits n idM Z s.t ∧ s.circ = [] ∧ Fwd n c s) n
    { t := c, circ := [] } ⟨hc, rfl, fun m _ => EqOn.refl _ _⟩
    (fun j s hj hq => by
      obtain ⟨hb, hcirc, hf⟩ := hq
      have hn := hb.n_eq
      have e := invStep1_pivot n s j j hn (Nat.le_refl _) hj
        (by rw [hb.x j j hj hj]; simp [idM])
        (fun m hm hne => by rw [hb.x m j hm hj]; simp [idM]; exact fun e => hne e.symm)
      refine ⟨s.swap j j, e, ⟨hn, fun m c hm hc' => ?_, fun m c hm hc' => ?_, fun m hm => ?_⟩, hcirc, fun m hm => ?_⟩
      · rw [swap_xb s j j m c (by omega) (by omega), swp_self]; exact hb.x m c hm hc'
      · rw [swap_zb s j j m c (by omega) (by omega), swp_self]; exact hb.z m c hm hc'
      · have := (swap_row s j j m (by omega)).2.1
        rw [swp_self] at this
        show ((s.swap j j).t.row m).r = false
        rw [this]; exact hb.r m hm
      · have := swap_row s j j m (by omega)
        rw [swp_self, hn] at this
        exact this.trans (hf m hm))
  exact ⟨s1, e, h1, h2, h3⟩

theorem graph_block2 (Z : Nat → Nat → Bool) (s : InvState) (hb : GBits n idM Z s.t) : (pairsLt n).foldl invStep2 s = s := by
  apply foldl_noop
  intro jk hm
  obtain ⟨h1, h2⟩ := mem_pairsLt n jk hm
  unfold invStep2
  have : (s.t.row jk.1).x jk.2 = false := by
    have := hb.x jk.1 jk.2 (by omega) h2
    unfold xb at this
    rw [this]; simp [idM]; omega
  rw [this]; simp

end blocks

/-! ### block 3: one CZ per edge -/


/-- the pair `(a, b)`, `a < b`, comes before the pair `(j, k)` in the order of the nested loops -/
def donePair (j k a b : Nat) : Bool := decide (a < j) || (decide (a = j) && decide (b < k))

/-- the z-bit matrix while the CZ block is at the pair `(j, k)`: the edges of the pairs already processed are cleared -/
def Z3 (A : Nat → Nat → Bool) (j k m c : Nat) : Bool :=
  if m < c then A m c && !donePair j k m c else if c < m then A m c && !donePair j k c m else false

theorem donePair_succ (j k a b : Nat) :
    donePair j (k + 1) a b = (donePair j k a b || (decide (a = j) && decide (b = k))) := by
  unfold donePair
  by_cases h1 : a < j <;> by_cases h2 : a = j <;> by_cases h3 : b < k <;> by_cases h4 : b = k <;>
    simp [h1, h2, h3, h4] <;> omega

theorem z3_succ (A : Nat → Nat → Bool) (j k m c : Nat) (hjk : j < k) :
    Z3 A j (k + 1) m c = if (m = j ∧ c = k) ∨ (m = k ∧ c = j) then false else Z3 A j k m c := by
  unfold Z3
  by_cases hmc : m < c
  · simp only [hmc, if_true]
    rw [donePair_succ j k m c]
    by_cases e1 : m = j <;> by_cases e2 : c = k <;> simp [e1, e2] <;> omega
  · by_cases hcm : c < m
    · simp only [hmc, hcm, if_true, if_false]
      rw [donePair_succ j k c m]
      by_cases e1 : c = j <;> by_cases e2 : m = k <;> simp [e1, e2] <;> omega
    · have : m = c := by omega
      subst this
      simp only [Nat.lt_irrefl, if_false]
      split
      · rfl
      · rfl

theorem z3_at (A : Nat → Nat → Bool) (j k : Nat) (hjk : j < k) : Z3 A j k j k = A j k ∧ Z3 A j k k j = A k j := by
  unfold Z3 donePair
  have h1 : ¬ k < j := by omega
  simp [hjk, h1]


theorem z3_out (A : Nat → Nat → Bool) (n j m c : Nat) (hm : m < n) (hc : c < n) :
    Z3 A j n m c = Z3 A (j + 1) (j + 2) m c := by
  unfold Z3 donePair
  by_cases hmc : m < c
  · simp only [hmc, if_true]
    congr 2
    by_cases h1 : m < j <;> by_cases h2 : m = j <;> simp [h1, h2, hc] <;> omega
  · by_cases hcm : c < m
    · simp only [hmc, hcm, if_true, if_false]
      congr 2
      by_cases h1 : c < j <;> by_cases h2 : c = j <;> simp [h1, h2, hm] <;> omega
    · simp only [hmc, hcm, if_false]

theorem z3_init (A : Nat → Nat → Bool) (m c : Nat) : Z3 A 0 1 m c = (if m = c then false else A m c) := by
  unfold Z3 donePair
  by_cases hmc : m < c
  · have : ¬ m = c := by omega
    simp [hmc, this]; omega
  · by_cases hcm : c < m
    · have : ¬ m = c := by omega
      simp [hmc, hcm, this]; omega
    · have : m = c := by omega
      simp [this]

theorem z3_final (A : Nat → Nat → Bool) (n m c : Nat) (hm : m < n) (hc : c < n) : Z3 A n (n + 1) m c = false := by
  unfold Z3 donePair
  by_cases hmc : m < c
  · simp [hmc, hm]
  · by_cases hcm : c < m
    · simp [hmc, hcm, hc]
    · simp [hmc, hcm]

/-- the CZ gates of the row `j` of the loop, second index below `k` -/
def czRow (A : Nat → Nat → Bool) (j k : Nat) : List Gate :=
  (((List.range k).filter fun b => decide (j < b)).filter fun b => A j b).map fun b => Gate.CZ j b

/-- the CZ gates emitted before the pair `(j, k)` -/
def czUpTo (n : Nat) (A : Nat → Nat → Bool) (j k : Nat) : List Gate :=
  (List.range j).flatMap (fun a => czRow A a n) ++ czRow A j k

theorem czRow_succ (A : Nat → Nat → Bool) (j k : Nat) (hjk : j < k) :
    czRow A j (k + 1) = czRow A j k ++ (if A j k then [Gate.CZ j k] else []) := by
  unfold czRow
  rw [List.range_succ, List.filter_append, List.filter_append, List.map_append]
  congr 1
  have : decide (j < k) = true := by simp [hjk]
  cases h : A j k <;> simp [List.filter, this, h]

theorem czRow_empty (A : Nat → Nat → Bool) (j k : Nat) (h : k ≤ j + 1) : czRow A j k = [] := by
  unfold czRow
  have : ((List.range k).filter fun b => decide (j < b)) = [] := by
    rw [List.filter_eq_nil_iff]
    intro b hb
    have := List.mem_range.mp hb
    simp; omega
  rw [this]; rfl

theorem czUpTo_out (n : Nat) (A : Nat → Nat → Bool) (j : Nat) : czUpTo n A j n = czUpTo n A (j + 1) (j + 2) := by
  unfold czUpTo
  rw [List.range_succ, List.flatMap_append, czRow_empty A (j + 1) (j + 2) (by omega)]
  simp


theorem GBits.congr {n : Nat} {X Z Z' : Nat → Nat → Bool} {t : STab} (h : GBits n X Z t)
    (e : ∀ m c, m < n → c < n → Z m c = Z' m c) : GBits n X Z' t :=
  ⟨h.n_eq, h.x, fun m c hm hc => by rw [h.z m c hm hc, e m c hm hc], h.r⟩

/-- applying a gate keeps the forward relation -/
theorem Fwd.gate {n : Nat} {c : STab} {s : InvState} (hf : Fwd n c s) (hn : s.t.n = n) (g : Gate) (hg : g.WF n) :
    Fwd n c (s.gate g) := by
  intro m hm
  have h1 := gate_row s g m (by omega)
  rw [hn] at h1
  have h2 : EqOn n (g.act (s.t.row m)) (g.act (actCirc s.circ (c.row m))) :=
    actCirc_congr n [g] (fun g' hg' => by rw [List.mem_singleton.mp hg']; exact hg) _ _ (hf m hm)
  have h3 : (s.gate g).circ = s.circ ++ [g] := rfl
  rw [h3, actCirc_append]
  exact h1.trans h2

theorem graph_block3 (n : Nat) (A : Nat → Nat → Bool) (hsym : ∀ i j, i < n → j < n → A i j = A j i)
    (c : STab) (s : InvState) (hb : GBits n idM (Z3 A 0 1) s.t) (hcirc : s.circ = []) (hf : Fwd n c s) :
    GBits n idM (fun _ _ => false) ((pairsLt n).foldl invStep3 s).t ∧
    ((pairsLt n).foldl invStep3 s).circ = (List.range n).flatMap (fun a => czRow A a n) ∧
    Fwd n c ((pairsLt n).foldl invStep3 s) := by
  have key := foldl_pairsLt_inv invStep3
    (fun j s => GBits n idM (Z3 A j (j + 1)) s.t ∧ s.circ = czUpTo n A j (j + 1) ∧ Fwd n c s)
    (fun j k s => GBits n idM (Z3 A j k) s.t ∧ s.circ = czUpTo n A j k ∧ Fwd n c s) n s
    ⟨hb, by rw [hcirc]; unfold czUpTo; rw [czRow_empty A 0 1 (by omega)]; rfl, hf⟩
    (fun j s _ hq => hq)
    (fun j k s hjk hk hq => by
      obtain ⟨hb, hcirc, hf⟩ := hq
      have hn := hb.n_eq
      have hj : j < n := by omega
      have hxjk : (s.t.row j).x k = false := by
        have := hb.x j k hj hk
        unfold xb at this
        rw [this]; simp [idM]; omega
      have hzjk : (s.t.row j).z k = A j k := by
        have := hb.z j k hj hk
        unfold zb at this
        rw [this]; exact (z3_at A j k hjk).1
      unfold invStep3
      simp only [hxjk, hzjk, Bool.not_false, Bool.true_and]
      cases hA : A j k
      · -- no gate
        simp only [Bool.false_eq_true, if_false]
        refine ⟨hb.congr (fun m c hm hc => ?_), ?_, hf⟩
        · rw [z3_succ A j k m c hjk]
          split
          · next h =>
            rcases h with ⟨e1, e2⟩ | ⟨e1, e2⟩
            · rw [e1, e2, (z3_at A j k hjk).1, hA]
            · rw [e1, e2, (z3_at A j k hjk).2, hsym k j hk hj, hA]
          · rfl
        · rw [hcirc]; unfold czUpTo; rw [czRow_succ A j k hjk, hA]; simp
      · -- the gate CZ j k
        simp only [if_true]
        have hwf : (Gate.CZ j k).WF n := by show j < n ∧ k < n ∧ j ≠ k; omega
        have ex : ∀ m c, m < n → c < n → xb (s.gate (.CZ j k)).t m c = xb s.t m c := by
          intro m c hm hc
          rw [gate_xb s _ m c (by omega) (by omega)]; exact cz_x j k (by omega) _ c
        have ez : ∀ m c, m < n → c < n → zb (s.gate (.CZ j k)).t m c
            = if c = j then xor (zb s.t m c) (xb s.t m k) else if c = k then xor (zb s.t m c) (xb s.t m j)
              else zb s.t m c := by
          intro m c hm hc
          rw [gate_zb s _ m c (by omega) (by omega)]; exact cz_z j k (by omega) _ c
        refine ⟨⟨hn, fun m c hm hc => by rw [ex m c hm hc]; exact hb.x m c hm hc, fun m c hm hc => ?_, fun m hm => ?_⟩, ?_,
          hf.gate hn _ hwf⟩
        · rw [ez m c hm hc, z3_succ A j k m c hjk, hb.z m c hm hc, hb.x m k hm hk, hb.x m j hm hj]
          have hAkj : A k j = true := by rw [hsym k j hk hj]; exact hA
          by_cases e1 : c = j
          · subst e1
            rw [if_pos rfl]
            by_cases e2 : m = k
            · subst e2
              rw [(z3_at A c m hjk).2, hAkj]
              simp [idM]
            · have : ¬ ((m = c ∧ c = k) ∨ (m = k ∧ c = c)) := by
                rintro (⟨_, h⟩ | ⟨h, _⟩) <;> omega
              rw [if_neg this]
              have : idM m k = false := by simp [idM]; exact fun e => e2 e.symm
              rw [this]; simp
          · rw [if_neg e1]
            by_cases e3 : c = k
            · subst e3
              rw [if_pos rfl]
              by_cases e4 : m = j
              · subst e4
                rw [(z3_at A m c hjk).1, hA]
                simp [idM]
              · have : ¬ ((m = j ∧ c = c) ∨ (m = c ∧ c = j)) := by
                  rintro (⟨h, _⟩ | ⟨_, h⟩) <;> omega
                rw [if_neg this]
                have : idM m j = false := by simp [idM]; exact fun e => e4 e.symm
                rw [this]; simp
            · rw [if_neg e3]
              have : ¬ ((m = j ∧ c = k) ∨ (m = k ∧ c = j)) := by
                rintro (⟨_, h⟩ | ⟨_, h⟩) <;> omega
              rw [if_neg this]
        · rw [gate_rb s _ m (by omega)]
          show (PRow.cz j k (s.t.row m)).r = false
          rw [cz_r j k (by omega)]
          have h1 : (s.t.row m).x j = idM m j := hb.x m j hm hj
          have h2 : (s.t.row m).x k = idM m k := hb.x m k hm hk
          have h3 : (s.t.row m).r = false := hb.r m hm
          rw [h1, h2, h3]
          have : (idM m j && idM m k) = false := by
            simp only [idM]
            by_cases e : j = m
            · have : ¬ k = m := by omega
              simp [this]
            · simp [e]
          rw [this]; rfl
        · show s.circ ++ [Gate.CZ j k] = _
          rw [hcirc]; unfold czUpTo; rw [czRow_succ A j k hjk, hA]; simp)
    (fun j s hj hq => ⟨hq.1.congr (fun m c hm hc => z3_out A n j m c hm hc), by rw [hq.2.1, czUpTo_out], hq.2.2⟩)
  obtain ⟨k1, k2, k3⟩ := key
  refine ⟨k1.congr (fun m c hm hc => z3_final A n m c hm hc), ?_, k3⟩
  rw [k2]; unfold czUpTo; rw [czRow_empty A n (n + 1) (by omega)]; simp


/-! ### blocks 4 – 7: one Hadamard per qubit, nothing else -/


theorem GBits.congr2 {n : Nat} {X X' Z Z' : Nat → Nat → Bool} {t : STab} (h : GBits n X Z t)
    (ex : ∀ m c, m < n → c < n → X m c = X' m c) (ez : ∀ m c, m < n → c < n → Z m c = Z' m c) : GBits n X' Z' t :=
  ⟨h.n_eq, fun m c hm hc => by rw [h.x m c hm hc, ex m c hm hc], fun m c hm hc => by rw [h.z m c hm hc, ez m c hm hc], h.r⟩

theorem graph_block4 (n : Nat) (s : InvState) (hb : GBits n idM (fun _ _ => false) s.t) :
    (List.range n).foldl invStep4 s = s := by
  apply foldl_noop
  intro j hm
  have hj := List.mem_range.mp hm
  unfold invStep4
  have : (s.t.row j).z j = false := hb.z j j hj hj
  rw [this]; simp

def X5 (j m c : Nat) : Bool := if c < j then false else idM m c
def Z5 (j m c : Nat) : Bool := if c < j then idM m c else false

theorem graph_block5 (n : Nat) (c : STab) (s : InvState) (hb : GBits n idM (fun _ _ => false) s.t) (hf : Fwd n c s) :
    GBits n (fun _ _ => false) idM ((List.range n).foldl invStep5 s).t ∧
    ((List.range n).foldl invStep5 s).circ = s.circ ++ (List.range n).map Gate.H ∧
    Fwd n c ((List.range n).foldl invStep5 s) := by
  have key := foldl_range_inv invStep5
    (fun j s' => GBits n (X5 j) (Z5 j) s'.t ∧ s'.circ = s.circ ++ (List.range j).map Gate.H ∧ Fwd n c s') n s
    ⟨hb.congr2 (fun m c _ _ => by simp [X5]) (fun m c _ _ => by simp [Z5]), by simp, hf⟩
    (fun j s' hj hq => by
      obtain ⟨hb', hcirc, hf'⟩ := hq
      have hn := hb'.n_eq
      have hx : (s'.t.row j).x j = true := by
        have := hb'.x j j hj hj
        unfold xb at this
        rw [this]; simp [X5, idM]
      have hz : (s'.t.row j).z j = false := by
        have := hb'.z j j hj hj
        unfold zb at this
        rw [this]; simp [Z5]
      unfold invStep5
      simp only [hx, hz, Bool.not_false, Bool.and_self, if_true]
      have ex : ∀ m c, m < n → c < n → xb (s'.gate (.H j)).t m c = if c = j then zb s'.t m c else xb s'.t m c := by
        intro m c hm hc
        rw [gate_xb s' _ m c (by omega) (by omega)]; exact h_x j _ c
      have ez : ∀ m c, m < n → c < n → zb (s'.gate (.H j)).t m c = if c = j then xb s'.t m c else zb s'.t m c := by
        intro m c hm hc
        rw [gate_zb s' _ m c (by omega) (by omega)]; exact h_z j _ c
      refine ⟨⟨hn, fun m c hm hc => ?_, fun m c hm hc => ?_, fun m hm => ?_⟩, ?_, hf'.gate hn _ (by show j < n; exact hj)⟩
      · rw [ex m c hm hc, hb'.z m c hm hc, hb'.x m c hm hc]
        unfold X5 Z5
        by_cases e : c = j
        · subst e; simp
        · have : (c < j + 1) = (c < j) := by apply propext; constructor <;> intro h <;> omega
          simp only [e, if_false, this]
      · rw [ez m c hm hc, hb'.z m c hm hc, hb'.x m c hm hc]
        unfold X5 Z5
        by_cases e : c = j
        · subst e; simp
        · have : (c < j + 1) = (c < j) := by apply propext; constructor <;> intro h <;> omega
          simp only [e, if_false, this]
      · rw [gate_rb s' _ m (by omega)]
        show (PRow.h j (s'.t.row m)).r = false
        rw [h_r]
        have h1 : (s'.t.row m).z j = false := by
          have := hb'.z m j hm hj
          unfold zb at this
          rw [this]; simp [Z5]
        have h3 : (s'.t.row m).r = false := hb'.r m hm
        rw [h1, h3]; simp
      · show s'.circ ++ [Gate.H j] = _
        rw [hcirc, List.range_succ, List.map_append]
        simp)
  obtain ⟨k1, k2, k3⟩ := key
  exact ⟨k1.congr2 (fun m c _ hc => by simp [X5, hc]) (fun m c _ hc => by simp [Z5, hc]), k2, k3⟩

theorem graph_block6 (n : Nat) (s : InvState) (hb : GBits n (fun _ _ => false) idM s.t) :
    (pairsLt n).foldl invStep6 s = s := by
  apply foldl_noop
  intro jk hm
  obtain ⟨h1, h2⟩ := mem_pairsLt n jk hm
  unfold invStep6
  have : (s.t.row jk.2).z jk.1 = false := by
    have := hb.z jk.2 jk.1 h2 (by omega)
    unfold zb at this
    rw [this]; simp [idM]; omega
  rw [this]; simp

theorem graph_block7 (n : Nat) (s : InvState) (hb : GBits n (fun _ _ => false) idM s.t) :
    ((List.range n).filter fun i => (s.t.row i).r).foldl invStep7 s = s := by
  have : ((List.range n).filter fun i => (s.t.row i).r) = [] := by
    rw [List.filter_eq_nil_iff]
    intro i hi
    have := hb.r i (List.mem_range.mp hi)
    unfold rb at this
    rw [this]; simp
  rw [this]; rfl


/-! ### the whole synthesis -/


/-- the textbook circuit that maps the graph state to |0…0⟩: one `CZ(j,k)` per edge `j < k` (in the order of the nested
    loops), then one Hadamard per qubit -/
def graphCirc (n : Nat) (A : Nat → Nat → Bool) : List Gate :=
  (List.range n).flatMap (fun a => czRow A a n) ++ (List.range n).map Gate.H

/-- **`inverse_circuit` on a graph state** -/
theorem graph_inverseCircuit (n : Nat) (A : Nat → Nat → Bool) (hsym : ∀ i j, i < n → j < n → A i j = A j i)
    (hirr : ∀ i, i < n → A i i = false) :
    ∃ t', (graphSTab n A).inverseCircuit = .ok (t', graphCirc n A) ∧ GBits n (fun _ _ => false) idM t' ∧
      ∀ m, m < n → EqOn n (t'.row m) (actCirc (graphCirc n A) ((graphSTab n A).row m)) := by
  obtain ⟨c, hc, hn, gc, rows⟩ := graphSTab_canonicalForm n A hsym
  have hb0 : GBits n idM (Z3 A 0 1) c := by
    refine ⟨hn, fun m c' hm hc' => ?_, fun m c' hm hc' => ?_, fun m hm => ?_⟩
    · show (c.row m).x c' = _
      rw [((rows m hm).1 c' hc').1]; rfl
    · show (c.row m).z c' = _
      rw [((rows m hm).1 c' hc').2, z3_init]
      show (decide (c' < n) && A m c') = _
      by_cases e : m = c'
      · subst e; rw [hirr m hm]; simp
      · simp [e, hc']
    · show (c.row m).r = false
      rw [(rows m hm).2.1]; rfl
  obtain ⟨s1, e1, b1, c1, f1⟩ := graph_block1 n (Z3 A 0 1) c hb0
  have e2 := graph_block2 n (Z3 A 0 1) s1 b1
  obtain ⟨b3, c3, f3⟩ := graph_block3 n A hsym c s1 b1 c1 f1
  have e4 := graph_block4 n _ b3
  obtain ⟨b5, c5, f5⟩ := graph_block5 n c _ b3 f3
  have e6 := graph_block6 n _ b5
  have e7 := graph_block7 n _ b5
  have hrest : invRest n s1 = (List.range n).foldl invStep5 ((pairsLt n).foldl invStep3 s1) := by
    unfold invRest
    simp only
    rw [e2, e4, e6, e7]
  have hcirc : ((List.range n).foldl invStep5 ((pairsLt n).foldl invStep3 s1)).circ = graphCirc n A := by
    rw [c5, c3]; rfl
  have hres : (graphSTab n A).inverseCircuit
      = .ok (((List.range n).foldl invStep5 ((pairsLt n).foldl invStep3 s1)).t, graphCirc n A) := by
    unfold STab.inverseCircuit invBlocks
    rw [hc]
    simp only
    rw [e1]
    simp only
    rw [hn, hrest, hcirc]
  refine ⟨_, hres, b5, fun m hm => ?_⟩
  have wf := (inverseCircuit_tracks _ _ _ (graphSTab_good' n A hsym) hres).2.2.1
  have : (graphSTab n A).n = n := rfl
  rw [this] at wf
  have h1 := f5 m hm
  rw [hcirc] at h1
  exact h1.trans (actCirc_congr n _ wf _ _ (rows m hm))


/-! ### the Clifford tableau of a graph -/


/-- a row without x-bits is left alone by any list of CZ gates -/
theorem actCirc_cz_xfree (l : List Gate) (hl : ∀ g, g ∈ l → ∃ a b, a ≠ b ∧ g = Gate.CZ a b) (p : PRow)
    (hp : ∀ j, p.x j = false) :
    (∀ j, (actCirc l p).x j = false ∧ (actCirc l p).z j = p.z j) ∧ (actCirc l p).r = p.r ∧ (actCirc l p).ip = p.ip := by
  induction l generalizing p with
  | nil => exact ⟨fun j => ⟨hp j, rfl⟩, rfl, rfl⟩
  | cons g rest ih =>
    obtain ⟨a, b, hab, e⟩ := hl g List.mem_cons_self
    subst e
    have hx : ∀ j, (PRow.cz a b p).x j = false := fun j => by rw [cz_x a b hab]; exact hp j
    have hz : ∀ j, (PRow.cz a b p).z j = p.z j := by
      intro j
      rw [cz_z a b hab, hp b, hp a]
      split
      · simp
      · split <;> simp
    have hr : (PRow.cz a b p).r = p.r := by rw [cz_r a b hab, hp a]; simp
    have hi : (PRow.cz a b p).ip = p.ip := Gate.act_ip (.CZ a b) p
    obtain ⟨i1, i2, i3⟩ := ih (fun g hg => hl g (List.mem_cons_of_mem _ hg)) (PRow.cz a b p) hx
    exact ⟨fun j => ⟨(i1 j).1, ((i1 j).2).trans (hz j)⟩, i2.trans hr, i3.trans hi⟩

/-- Hadamards on the qubits `0..m-1` turn `Z_i` into `X_i` once `i < m` -/
theorem actCirc_hs_Zq (n i : Nat) (m : Nat) (hm : m ≤ n) :
    EqOn n (actCirc ((List.range m).map Gate.H) (Zq i)) (if i < m then Xq i else Zq i) := by
  induction m with
  | zero => exact EqOn.refl _ _
  | succ k ih =>
    have ih' := ih (by omega)
    rw [List.range_succ, List.map_append]
    show EqOn n (actCirc ((List.range k).map Gate.H ++ [Gate.H k]) (Zq i)) _
    rw [actCirc_append]
    have hwf : ∀ g, g ∈ [Gate.H k] → g.WF n := fun g hg => by
      rw [List.mem_singleton.mp hg]; show k < n; omega
    have h1 : EqOn n ((Gate.H k).act (actCirc ((List.range k).map Gate.H) (Zq i)))
        ((Gate.H k).act (if i < k then Xq i else Zq i)) := actCirc_congr n [Gate.H k] hwf _ _ ih'
    refine h1.trans ?_
    by_cases h2 : i < k
    · have h3 : i < k + 1 := by omega
      rw [if_pos h2, if_pos h3]
      refine ⟨fun j _ => ?_, (by show xor (Xq i).r ((Xq i).x k && (Xq i).z k) = (Xq i).r; simp [Xq]), rfl⟩
      show ((PRow.h k (Xq i)).x j = (Xq i).x j ∧ (PRow.h k (Xq i)).z j = (Xq i).z j)
      rw [h_x, h_z]
      by_cases e : j = k
      · subst e
        have : ¬ j = i := by omega
        simp [Xq, this]
      · simp [e]
    · rw [if_neg h2]
      by_cases h3 : i = k
      · subst h3
        rw [if_pos (Nat.lt_succ_self i)]
        refine ⟨fun j _ => ?_, (by show xor (Zq i).r ((Zq i).x i && (Zq i).z i) = (Xq i).r; simp [Xq, Zq]), rfl⟩
        show ((PRow.h i (Zq i)).x j = (Xq i).x j ∧ (PRow.h i (Zq i)).z j = (Xq i).z j)
        rw [h_x, h_z]
        by_cases e : j = i
        · subst e; simp [Xq, Zq]
        · simp [Xq, Zq, e]
      · have h4 : ¬ i < k + 1 := by omega
        rw [if_neg h4]
        refine ⟨fun j _ => ?_, (by show xor (Zq i).r ((Zq i).x k && (Zq i).z k) = (Zq i).r; simp [Zq]), rfl⟩
        show ((PRow.h k (Zq i)).x j = (Zq i).x j ∧ (PRow.h k (Zq i)).z j = (Zq i).z j)
        rw [h_x, h_z]
        by_cases e : j = k
        · subst e
          have : ¬ j = i := fun e' => h3 e'.symm
          simp [Zq, this]
        · simp [e]


theorem actCirc_app (l1 l2 : List Gate) (a : PRow) : actCirc (l1 ++ l2) a = actCirc l2 (actCirc l1 a) := by
  unfold actCirc; rw [List.foldl_append]

theorem mem_czs (n : Nat) (A : Nat → Nat → Bool) (g : Gate) (h : g ∈ (List.range n).flatMap (fun a => czRow A a n)) :
    ∃ a b, a ≠ b ∧ g = Gate.CZ a b := by
  rw [List.mem_flatMap] at h
  obtain ⟨a, _, hg⟩ := h
  unfold czRow at hg
  rw [List.mem_map] at hg
  obtain ⟨b, hb, e⟩ := hg
  rw [List.mem_filter, List.mem_filter] at hb
  have : a < b := by simpa using hb.1.2
  exact ⟨a, b, by omega, e.symm⟩

/-- **`get_clifford_tableau_from_graph`, exactly**: destabilizers `Z_i`, stabilizers `X_i Z_{N(i)}`, all signs `+` -/
theorem graph_cliffordFromStabilizer (n : Nat) (A : Nat → Nat → Bool) (hsym : ∀ i j, i < n → j < n → A i j = A j i)
    (hirr : ∀ i, i < n → A i i = false) :
    ∃ T, (graphSTab n A).cliffordFromStabilizer = .ok T ∧ T.n = n ∧
      (∀ i, i < n → EqOn n (T.row i) (Zq i)) ∧ (∀ i, i < n → EqOn n (T.row (i + n)) ((graphSTab n A).row i)) := by
  obtain ⟨t', hres, b5, fwd⟩ := graph_inverseCircuit n A hsym hirr
  have gg := graphSTab_good' n A hsym
  have wf := (inverseCircuit_tracks _ _ _ gg hres).2.2.1
  have hgn : (graphSTab n A).n = n := rfl
  rw [hgn] at wf
  have hrev := revCirc_wf n _ wf
  have e : (graphSTab n A).cliffordFromStabilizer = .ok ((Tab.ket0 n).runCircuit (revCirc (graphCirc n A))) := by
    unfold cliffordFromStabilizer
    rw [hres]
    simp only
    rw [runCircuit_reverse]
    rfl
  obtain ⟨h1, h2⟩ := Tab.runCircuit_rows n (revCirc (graphCirc n A)) hrev (Tab.ket0 n) rfl
  refine ⟨_, e, h1, fun i hi => ?_, fun i hi => ?_⟩
  · -- destabilizer `i`
    have r0 := h2 i (by omega)
    have hk : (Tab.ket0 n).row i = Xq i := by simp [Tab.ket0, hi]
    rw [hk] at r0
    -- forward: the circuit takes `Z_i` to `X_i`
    have hwf2 : ∀ g, g ∈ (List.range n).map Gate.H → g.WF n := fun g hg => wf g (by
      unfold graphCirc; exact List.mem_append_right _ hg)
    have f1 := actCirc_cz_xfree _ (mem_czs n A) (Zq i) (fun _ => rfl)
    have f1' : EqOn n (actCirc ((List.range n).flatMap (fun a => czRow A a n)) (Zq i)) (Zq i) :=
      ⟨fun j _ => ⟨(f1.1 j).1, (f1.1 j).2⟩, f1.2.1, f1.2.2⟩
    have f2 : EqOn n (actCirc (graphCirc n A) (Zq i)) (Xq i) := by
      unfold graphCirc
      rw [actCirc_app]
      have := actCirc_hs_Zq n i n (Nat.le_refl _)
      rw [if_pos hi] at this
      exact (actCirc_congr n _ hwf2 _ _ f1').trans this
    have f3 := revCirc_cancel n (graphCirc n A) wf (Zq i)
    exact (r0.trans (actCirc_congr n _ hrev _ _ f2.symm)).trans f3
  · -- stabilizer `i`
    have r0 := h2 (i + n) (by omega)
    have hk : (Tab.ket0 n).row (i + n) = Zq i := by
      simp only [Tab.ket0]
      rw [if_neg (by omega), show i + n - n = i from by omega]
    rw [hk] at r0
    have f0 := fwd i hi
    have hz : EqOn n (t'.row i) (Zq i) := by
      refine ⟨fun j hj => ⟨?_, ?_⟩, b5.r i hi, ?_⟩
      · exact b5.x i j hi hj
      · have := b5.z i j hi hj
        unfold zb at this
        rw [this]; rfl
      · rw [f0.2.2, actCirc_ip]; rfl
    have f2 : EqOn n (actCirc (graphCirc n A) ((graphSTab n A).row i)) (Zq i) := f0.symm.trans hz
    have f3 := revCirc_cancel n (graphCirc n A) wf ((graphSTab n A).row i)
    exact (r0.trans (actCirc_congr n _ hrev _ _ f2.symm)).trans f3


/-- the CZ part, as the list of the edges `j < k` in the order of the nested loops -/
theorem czs_eq_pairs (n : Nat) (A : Nat → Nat → Bool) :
    (List.range n).flatMap (fun a => czRow A a n)
      = ((pairsLt n).filter fun jk => A jk.1 jk.2).map fun jk => Gate.CZ jk.1 jk.2 := by
  unfold pairsLt czRow
  rw [List.filter_flatMap, List.map_flatMap]
  congr 1
  funext a
  rw [List.filter_map, List.map_map]
  rfl

end STab
end Graphiq
