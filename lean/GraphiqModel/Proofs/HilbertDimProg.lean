/-
  Proofs/HilbertDimProg.lean — programs over the tableau API: start from `CliffordTableau(n)` (or any given tableau), run
  histories of API calls, and combine results with `tensor`.  `Prog.run` executes the model, `Prog.den` is the denotation
  in Hilbert space, defined without any reference to tableaux for `init`, `seq` and `tensor`:
  `|0…0⟩⟨0…0|`, the quantum operations `dOps`, and the Kronecker product.
-/
import GraphiqModel.Proofs.HilbertDimHistory
namespace Graphiq
namespace Hilbert
open Matrix PRow TabSpec Tab

/-- a program: leaves are given tableaux or `CliffordTableau(n)`; inner nodes are histories of API calls and `tensor` -/
inductive Prog where
  | leaf (t : Tab)
  | init (n : Nat)
  | seq (p : Prog) (ops : List Tab.Op)
  | tensor (p q : Prog)

/-- run the model -/
def Prog.run : Prog → Except Err Tab
  | .leaf t => .ok t
  | .init n => .ok (Tab.ket0 n)
  | .seq p ops =>
    match p.run with
    | .ok t => t.runOps ops
    | .error e => .error e
  | .tensor p q =>
    match p.run with
    | .ok a =>
      match q.run with
      | .ok b => .ok (Tab.tensor2 a b)
      | .error e => .error e
    | .error e => .error e

/-- side conditions: given tableaux are valid with real stabilizer rows; control ≠ target in two-qubit gates -/
def Prog.WF : Prog → Prop
  | .leaf t => t.Valid ∧ t.StabReal
  | .init _ => True
  | .seq p ops => p.WF ∧ ∀ op ∈ ops, OpWF op
  | .tensor p q => p.WF ∧ q.WF

/-- `|0…0⟩⟨0…0|` on `n` qubits -/
noncomputable def zeroKet (n : Nat) : Matrix (Bits n) (Bits n) ℂ :=
  Matrix.of fun a b => if a = (fun _ => false) ∧ b = (fun _ => false) then 1 else 0

/-- tensor product of two states -/
noncomputable def dTensor (s1 s2 : DState) : DState := ⟨s1.n + s2.n, kronB s1.ρ s2.ρ⟩

/-- the denotation of a program in Hilbert space -/
noncomputable def Prog.den : Prog → DState
  | .leaf t => dstate t
  | .init n => ⟨n, zeroKet n⟩
  | .seq p ops => dOps ops p.den
  | .tensor p q => dTensor p.den q.den

theorem dstate_ket0 (n : Nat) : dstate (Tab.ket0 n) = ⟨n, zeroKet n⟩ := by
  have h : rho n (STab.ofTab (Tab.ket0 n)) = zeroKet n := by
    ext a b
    rw [rho_ket0, rho_zero]
    rfl
  exact congrArg (DState.mk n) h

theorem dstate_tensor (a b : Tab) : dstate (Tab.tensor2 a b) = dTensor (dstate a) (dstate b) :=
  congrArg (DState.mk (a.n + b.n)) (rho_tensor a b)

/-- `tensor(list_of_tables)` of clifford.py: the left fold of the two-factor step over the list -/
def tensorL (t : Tab) (ts : List Tab) : Tab := ts.foldl Tab.tensor2 t

/-- **`tensor` of a whole list is the iterated Kronecker product** (left to right, as the Python loop) -/
theorem dstate_tensorL (t : Tab) (ts : List Tab) :
    dstate (tensorL t ts) = (ts.map dstate).foldl dTensor (dstate t) := by
  induction ts generalizing t with
  | nil => rfl
  | cons a rest ih =>
    show dstate (tensorL (Tab.tensor2 t a) rest) = _
    rw [ih, dstate_tensor]
    rfl

end Hilbert
end Graphiq
