/-
  Proofs/HeightGraph.lean — for a graph state the height function is the GF(2) rank of the adjacency block joining the two
  sides of the cut (Mathlib `Matrix.rank` over `ZMod 2`; rank–nullity).
-/
import Mathlib.LinearAlgebra.Matrix.Rank
import Mathlib.LinearAlgebra.FiniteDimensional.Lemmas
import Mathlib.Order.Interval.Finset.Fin
import GraphiqModel.Proofs.HeightEntropy
import GraphiqModel.Proofs.HeightTotal
import GraphiqModel.Model.Convert
namespace Graphiq
open Module

/-- the block of the adjacency matrix joining side `A = {0..k}` (row index `j`) and side `B = {k+1..n-1}` (column index `i`);
    entry `(j, i)` is `adj i j` (the `Z` exponent at site `j` of the generator of vertex `i`; `= adj j i` for a symmetric
    adjacency matrix) -/
def cutBlock (n k : Nat) (adj : Nat → Nat → Bool) :
    Matrix {j : Fin n // j.val ≤ k} {i : Fin n // k < i.val} (ZMod 2) :=
  Matrix.of fun j i => b2z (adj i.val.val j.val.val)

/-- symplectic vector of the generator `X_i Z_{N(i)}` of vertex `i` -/
def gvec (n : Nat) (adj : Nat → Nat → Bool) (i : Nat) : PVec n := ((graphSTab n adj).row i).vec n

theorem gvec_apply (n : Nat) (adj : Nat → Nat → Bool) (i : Nat) (j : Fin n) :
    gvec n adj i j = (if j.val = i then 1 else 0, b2z (adj i j.val)) := by
  simp [gvec, graphSTab, PRow.vec, b2z, j.isLt]

theorem lin_fst (n : Nat) (adj : Nat → Nat → Bool) (c : Fin n → ZMod 2) (j : Fin n) :
    ((∑ i : Fin n, c i • gvec n adj i.val) j).1 = c j := by
  rw [Finset.sum_apply, Prod.fst_sum]
  have : ∀ i : Fin n, ((c i • gvec n adj i.val) j).1 = if j = i then c i else 0 := by
    intro i
    rw [Pi.smul_apply, Prod.smul_fst, gvec_apply]
    by_cases h : j = i
    · subst h; simp
    · have : j.val ≠ i.val := fun e => h (Fin.ext e)
      simp [h, this]
  simp only [this]
  rw [Finset.sum_ite_eq]
  simp

section
variable (n k : Nat) (adj : Nat → Nat → Bool)

/-- the linear map `s ↦ ∏_{i ∈ B} g_i^{s_i}` on selections of vertices of side `B` -/
noncomputable def bComb : ({i : Fin n // k < i.val} → ZMod 2) →ₗ[ZMod 2] PVec n :=
  Fintype.linearCombination (ZMod 2) (fun i : {i : Fin n // k < i.val} => gvec n adj i.val.val)

theorem bComb_apply (s : {i : Fin n // k < i.val} → ZMod 2) :
    bComb n k adj s = ∑ i : {i : Fin n // k < i.val}, s i • gvec n adj i.val.val :=
  Fintype.linearCombination_apply _ _ _

theorem bComb_fst (s : {i : Fin n // k < i.val} → ZMod 2) (j : Fin n) :
    (bComb n k adj s j).1 = if h : k < j.val then s ⟨j, h⟩ else 0 := by
  rw [bComb_apply, Finset.sum_apply, Prod.fst_sum]
  have term : ∀ i : {i : Fin n // k < i.val}, ((s i • gvec n adj i.val.val) j).1 = if j = i.val then s i else 0 := by
    intro i
    rw [Pi.smul_apply, Prod.smul_fst, gvec_apply]
    by_cases h : j = i.val
    · subst h; simp
    · have : j.val ≠ i.val.val := fun e => h (Fin.ext e)
      simp [h, this]
  simp only [term]
  by_cases h : k < j.val
  · rw [dif_pos h, Finset.sum_eq_single (⟨j, h⟩ : {i : Fin n // k < i.val})]
    · simp
    · intro b _ hb
      have : j ≠ b.val := fun e => hb (Subtype.ext e.symm)
      simp [this]
    · intro hn; exact absurd (Finset.mem_univ _) hn
  · rw [dif_neg h]
    apply Finset.sum_eq_zero
    intro i _
    have : j ≠ i.val := fun e => h (e ▸ i.property)
    simp [this]

theorem bComb_snd (s : {i : Fin n // k < i.val} → ZMod 2) (j : Fin n) :
    (bComb n k adj s j).2 = ∑ i : {i : Fin n // k < i.val}, s i * b2z (adj i.val.val j.val) := by
  rw [bComb_apply, Finset.sum_apply, Prod.snd_sum]
  apply Finset.sum_congr rfl
  intro i _
  rw [Pi.smul_apply, Prod.smul_snd, gvec_apply]
  rfl

theorem bComb_injective : Function.Injective (bComb n k adj) := by
  rw [injective_iff_map_eq_zero]
  intro s hs
  funext i
  have := bComb_fst n k adj s i.val
  rw [hs, dif_pos i.property] at this
  exact this.symm

theorem mulVec_cutBlock (s : {i : Fin n // k < i.val} → ZMod 2) (j : {j : Fin n // j.val ≤ k}) :
    (cutBlock n k adj).mulVecLin s j = (bComb n k adj s j.val).2 := by
  rw [bComb_snd, Matrix.mulVecLin_apply]
  show ∑ i, cutBlock n k adj j i * s i = _
  apply Finset.sum_congr rfl
  intro i _
  simp only [cutBlock, Matrix.of_apply]
  exact mul_comm _ _

/-- the group elements supported on side `B` are exactly the products of side-`B` generators whose `Z` parts cancel on side `A`,
    i.e. the image of the kernel of the adjacency block -/
theorem map_ker_eq :
    Submodule.map (bComb n k adj) (LinearMap.ker (cutBlock n k adj).mulVecLin)
      = gspaceOf n (graphSTab n adj).row ⊓ rightOf n k := by
  apply le_antisymm
  · rintro _ ⟨s, hs, rfl⟩
    refine ⟨?_, ?_⟩
    · rw [bComb_apply]
      apply Submodule.sum_mem
      intro i _
      exact Submodule.smul_mem _ _ (gen_mem_gspaceOf n _ i.val.val i.val.isLt)
    · intro j hj
      apply Prod.ext
      · rw [bComb_fst, dif_neg (by omega)]; rfl
      · have := mulVec_cutBlock n k adj s ⟨j, hj⟩
        rw [← this]
        have hs' : (cutBlock n k adj).mulVecLin s = 0 := hs
        rw [hs']; rfl
  · rintro v ⟨hv1, hv2⟩
    obtain ⟨c, rfl⟩ := (Submodule.mem_span_range_iff_exists_fun (ZMod 2)).1 hv1
    have hc : ∀ j : Fin n, j.val ≤ k → c j = 0 := by
      intro j hj
      have := hv2 j hj
      have h1 := lin_fst n adj c j
      show c j = 0
      rw [← h1]
      exact congrArg Prod.fst this
    have hsplit : (∑ i : Fin n, c i • gvec n adj i.val) = bComb n k adj (fun i => c i.val) := by
      rw [bComb_apply]
      rw [← Fintype.sum_subtype_add_sum_subtype (fun i : Fin n => k < i.val) (fun i => c i • gvec n adj i.val)]
      have : ∑ i : {i : Fin n // ¬ k < i.val}, c i.val • gvec n adj i.val.val = 0 := by
        apply Finset.sum_eq_zero
        intro i _
        rw [hc i.val (by have := i.property; omega), zero_smul]
      rw [this, add_zero]
    refine ⟨fun i => c i.val, ?_, hsplit.symm⟩
    show (cutBlock n k adj).mulVecLin (fun i => c i.val) = 0
    funext j
    rw [mulVec_cutBlock, ← hsplit]
    have := hv2 j.val j.property
    exact congrArg Prod.snd this

theorem card_side_B (hk : k < n) : Fintype.card {i : Fin n // k < i.val} = n - 1 - k := by
  rw [Fintype.card_subtype]
  have : (Finset.univ.filter fun i : Fin n => k < i.val) = Finset.Ioi (⟨k, hk⟩ : Fin n) := by
    ext i; simp [Fin.lt_def]
  rw [this, Fin.card_Ioi]

/-- **rank–nullity for the cut**: `dim G_B + rank Γ[A,B] = |B|` -/
theorem graph_finrank_right (hk : k < n) :
    finrank (ZMod 2) ↥(gspaceOf n (graphSTab n adj).row ⊓ rightOf n k) + (cutBlock n k adj).rank = n - 1 - k := by
  have e := Submodule.equivMapOfInjective (bComb n k adj) (bComb_injective n k adj)
    (LinearMap.ker (cutBlock n k adj).mulVecLin)
  have h1 := e.finrank_eq
  rw [map_ker_eq] at h1
  have h2 := LinearMap.finrank_range_add_finrank_ker (cutBlock n k adj).mulVecLin
  rw [Module.finrank_fintype_fun_eq_card, card_side_B n k hk] at h2
  unfold Matrix.rank
  omega

end

/-- **for a graph state the height function is the cut rank**: whenever `height_func_list` returns on the generators
    `X_i Z_{N(i)}` of a graph, entry `k` of the list is the GF(2) rank of the adjacency block joining `{0..k}` and `{k+1..n−1}` -/
theorem graph_heightFuncList_eq_rank (n : Nat) (adj : Nat → Nat → Bool) (l : List Int)
    (h : (graphSTab n adj).heightFuncList = .ok l) :
    l = (List.range n).map fun (k : Nat) => Int.ofNat (cutBlock n k adj).rank := by
  rw [STab.heightFuncList_eq_finrank _ l h]
  show (List.range n).map _ = _
  apply List.map_congr_left
  intro k hk
  have hk' : k < n := List.mem_range.1 hk
  have := graph_finrank_right n k adj hk'
  show Int.ofNat n - (Int.ofNat k + 1)
      - Int.ofNat (finrank (ZMod 2) ↥(gspaceOf n (graphSTab n adj).row ⊓ rightOf n k)) = _
  simp only [Int.ofNat_eq_natCast]
  omega

/-- the generators `X_i Z_{N(i)}` of a graph state are linearly independent (their X parts are the unit vectors) -/
theorem graph_indep (n : Nat) (adj : Nat → Nat → Bool) :
    LinearIndependent (ZMod 2) (fun i : Fin (graphSTab n adj).n => ((graphSTab n adj).row i).vec (graphSTab n adj).n) := by
  show LinearIndependent (ZMod 2) (fun i : Fin n => gvec n adj i.val)
  rw [Fintype.linearIndependent_iff]
  intro c hc j
  have := lin_fst n adj c j
  rw [← this, hc]; rfl

/-- **unconditional**: on every graph `height_func_list` returns the list of cut ranks -/
theorem graph_heightFuncList (n : Nat) (adj : Nat → Nat → Bool) :
    (graphSTab n adj).heightFuncList = .ok ((List.range n).map fun (k : Nat) => Int.ofNat (cutBlock n k adj).rank) := by
  obtain ⟨l, h⟩ := STab.heightFuncList_total _ (graph_indep n adj)
  rw [h, graph_heightFuncList_eq_rank n adj l h]

end Graphiq
