/-
  Proofs/HilbertKron.lean — the entrywise definitions of `pauliMat`, `oneQ`, `ctrlQ` are the Kronecker-product
  constructions of graphiq's density-matrix backend:

  * `pauliMat_succ` : `pauliMat (n+1) p = pauliMat n p ⊗ σ(x_n, z_n)` entrywise (the last qubit is the right-most,
    least significant Kronecker factor; by induction qubit 0 is the left-most one, as in `np.kron` chains), with
    `σ(0,0) = 1`, `σ(1,0) = sigmax()`, `σ(1,1) = sigmay()`, `σ(0,1) = sigmaz()`;
  * `oneQ_succ_last`, `oneQ_succ_lower` : `oneQ` puts the 2×2 matrix at its site and identities elsewhere
    (`get_one_qubit_gate`);
  * `ctrlQ_eq_graphiq` : `ctrlQ n c t u = 1 + (1 - Z_c)(u_t - 1)/2`, the formula of `get_two_qubit_controlled_gate`.
-/
import GraphiqModel.Proofs.HilbertPure
namespace Graphiq
namespace Hilbert
open Matrix PRow

/-- the first `n` bits of a string of `n+1` bits -/
def initB {n : Nat} (b : Bits (n + 1)) : Bits n := fun j => b ⟨j.val, Nat.lt_succ_of_lt j.isLt⟩
/-- the last bit -/
def lastB {n : Nat} (b : Bits (n + 1)) : Bool := b ⟨n, Nat.lt_succ_self n⟩

theorem bx_initB {n : Nat} (b : Bits (n + 1)) (j : Nat) (hj : j < n) : bx (initB b) j = bx b j := by
  rw [bx_lt _ _ hj, bx_lt _ _ (Nat.lt_succ_of_lt hj)]; rfl

theorem bx_lastB {n : Nat} (b : Bits (n + 1)) : bx b n = lastB b := bx_lt _ _ (Nat.lt_succ_self n)

theorem bits_succ_ext {n : Nat} (a b : Bits (n + 1)) : a = b ↔ initB a = initB b ∧ lastB a = lastB b := by
  constructor
  · intro h; subst h; exact ⟨rfl, rfl⟩
  · intro ⟨h1, h2⟩
    apply bits_ext
    intro j hj
    by_cases e : j = n
    · subst e; rw [bx_lastB, bx_lastB, h2]
    · have hj' : j < n := by omega
      rw [← bx_initB a j hj', ← bx_initB b j hj', h1]

/-- the 2×2 matrix `σ(x,z)`: `σ(x,z)|b⟩ = i^(x z + 2 z b)|b ⊕ x⟩` -/
noncomputable def sigma (x z : Bool) : Matrix Bool Bool ℂ :=
  Matrix.of fun a b => if a = xor b x then iPow (sFun x z b) else 0

theorem sigma_ff : sigma false false = 1 := by
  ext a b; cases a <;> cases b <;> simp [sigma, sFun, Bool.toInt', iPow_zero]
theorem sigma_tf : sigma true false = sigmaX := by
  ext a b; cases a <;> cases b <;> simp [sigma, sigmaX, sFun, Bool.toInt', iPow_zero]
theorem sigma_tt : sigma true true = sigmaY := by
  ext a b; cases a <;> cases b <;> simp [sigma, sigmaY, sFun, Bool.toInt', iPow_one, iPow_three]
theorem sigma_ft : sigma false true = sigmaZ := by
  ext a b; cases a <;> cases b <;> simp [sigma, sigmaZ, sFun, Bool.toInt', iPow_zero, iPow_two]

/-- **Kronecker structure.**  `pauliMat (n+1) p = pauliMat n p ⊗ σ(x_n, z_n)`: the entry at `((a', a_n), (b', b_n))`
    is the product of the entries.  (The phase bits are carried by the first factor.) -/
theorem pauliMat_succ (n : Nat) (p : PRow) (a b : Bits (n + 1)) :
    pauliMat (n + 1) p a b = pauliMat n p (initB a) (initB b) * sigma (p.x n) (p.z n) (lastB a) (lastB b) := by
  rw [pauliMat_apply, pauliMat_apply]
  simp only [sigma, Matrix.of_apply]
  have hf : a = flip p.x b ↔ initB a = flip p.x (initB b) ∧ lastB a = xor (lastB b) (p.x n) := by
    rw [bits_succ_ext]
    have e1 : initB (flip p.x b) = flip p.x (initB b) := rfl
    have e2 : lastB (flip p.x b) = xor (lastB b) (p.x n) := rfl
    rw [e1, e2]
  have he : pexp (n + 1) p b = pexp n p (initB b) + sFun (p.x n) (p.z n) (lastB b) := by
    unfold pexp
    show p.ph + (sumTo n _ + sFun (p.x n) (p.z n) (bx b n)) = _
    rw [bx_lastB, sumTo_congr n _ (fun j => sFun (p.x j) (p.z j) (bx (initB b) j))
      (fun j hj => by rw [bx_initB b j hj])]
    omega
  by_cases h1 : initB a = flip p.x (initB b)
  · by_cases h2 : lastB a = xor (lastB b) (p.x n)
    · rw [if_pos (hf.mpr ⟨h1, h2⟩), if_pos h1, if_pos h2, he, iPow_add]
    · rw [if_neg (fun h => h2 (hf.mp h).2), if_neg h2, mul_zero]
  · rw [if_neg (fun h => h1 (hf.mp h).1), if_neg h1, zero_mul]

/-- a one-qubit gate on the last qubit is `1 ⊗ u` -/
theorem oneQ_succ_last (n : Nat) (u : Matrix Bool Bool ℂ) (a b : Bits (n + 1)) :
    oneQ (n + 1) n u a b = (1 : Matrix (Bits n) (Bits n) ℂ) (initB a) (initB b) * u (lastB a) (lastB b) := by
  rw [oneQ_apply, Matrix.one_apply, bx_lastB, bx_lastB]
  have h : (∀ j : Fin (n + 1), j.val ≠ n → a j = b j) ↔ initB a = initB b := by
    constructor
    · intro h; funext j; exact h ⟨j.val, Nat.lt_succ_of_lt j.isLt⟩ (by have := j.isLt; simp; omega)
    · intro h j hj
      have hj' : j.val < n := by have := j.isLt; omega
      have := congrFun h ⟨j.val, hj'⟩
      exact this
  by_cases h1 : initB a = initB b
  · rw [if_pos (h.mpr h1), if_pos h1, _root_.one_mul]
  · rw [if_neg (fun h2 => h1 (h.mp h2)), if_neg h1, zero_mul]

/-- a one-qubit gate on a lower qubit is `(gate on n qubits) ⊗ 1` -/
theorem oneQ_succ_lower (n q : Nat) (hq : q < n) (u : Matrix Bool Bool ℂ) (a b : Bits (n + 1)) :
    oneQ (n + 1) q u a b = oneQ n q u (initB a) (initB b) * (1 : Matrix Bool Bool ℂ) (lastB a) (lastB b) := by
  rw [oneQ_apply, oneQ_apply, Matrix.one_apply, bx_initB a q hq, bx_initB b q hq]
  have h : (∀ j : Fin (n + 1), j.val ≠ q → a j = b j) ↔
      (∀ j : Fin n, j.val ≠ q → initB a j = initB b j) ∧ lastB a = lastB b := by
    constructor
    · intro h
      exact ⟨fun j hj => h ⟨j.val, Nat.lt_succ_of_lt j.isLt⟩ hj, h ⟨n, Nat.lt_succ_self n⟩ (by simp; omega)⟩
    · intro ⟨h1, h2⟩ j hj
      by_cases e : j.val = n
      · have : j = ⟨n, Nat.lt_succ_self n⟩ := Fin.ext e
        rw [this]; exact h2
      · have hj' : j.val < n := by have := j.isLt; omega
        exact h1 ⟨j.val, hj'⟩ hj
  by_cases h1 : ∀ j : Fin n, j.val ≠ q → initB a j = initB b j
  · by_cases h2 : lastB a = lastB b
    · rw [if_pos (h.mpr ⟨h1, h2⟩), if_pos h1, if_pos h2, _root_.mul_one]
    · rw [if_neg (fun h3 => h2 (h.mp h3).2), if_neg h2, mul_zero]
  · rw [if_neg (fun h3 => h1 (h.mp h3).1), if_neg h1, zero_mul]

/-- **graphiq's controlled-gate formula**: `get_two_qubit_controlled_gate(n, c, t, u) = 1 + (1 - Z_c)(u_t - 1)/2` -/
theorem ctrlQ_eq_graphiq (n c t : Nat) (hc : c < n) (hct : c ≠ t) (u : Matrix Bool Bool ℂ) :
    ctrlQ n c t u = 1 + (1 / 2 : ℂ) • ((1 - pauliMat n (Zq c)) * oneQ n t (u - 1)) := by
  have hZ : (1 : Matrix (Bits n) (Bits n) ℂ) - pauliMat n (Zq c) = (2 : ℂ) • proj n (Zq c true) := by
    have hneg : pauliMat n (Zq c true) = -pauliMat n (Zq c) := pauliMat_neg n (Zq c)
    unfold proj
    rw [hneg, smul_smul]; norm_num [sub_eq_add_neg]
  rw [hZ, smul_mul_assoc, smul_smul, proj_Zq n c hc true]
  norm_num
  ext a b
  rw [ctrlQ_apply, Matrix.add_apply, Matrix.one_apply, Matrix.diagonal_mul, oneQ_apply]
  by_cases h1 : ∀ j : Fin n, j.val ≠ t → a j = b j
  · have hcb : bx a c = bx b c := by rw [bx_lt _ _ hc, bx_lt _ _ hc]; exact h1 ⟨c, hc⟩ hct
    have hab : a = b ↔ bx a t = bx b t := by
      rw [bits_eq_iff_site t a b]; exact ⟨fun h => h.2, fun h => ⟨h1, h⟩⟩
    rw [if_pos h1, if_pos h1, ← hcb]
    cases hca : bx a c
    · by_cases h2 : bx a t = bx b t
      · simp [hab.mpr h2]
      · have hne : ¬ a = b := fun h => h2 (hab.mp h)
        simp [h2, hne]
    · by_cases h2 : bx a t = bx b t
      · simp [hab.mpr h2, Matrix.sub_apply]
      · have hne : ¬ a = b := fun h => h2 (hab.mp h)
        simp [h2, hne, Matrix.sub_apply]
  · have : a ≠ b := fun h => h1 (fun j _ => by rw [h])
    rw [if_neg h1, if_neg h1, if_neg this]; simp

end Hilbert
end Graphiq
