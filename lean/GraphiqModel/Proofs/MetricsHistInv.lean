/-
  MetricsHistInv.lean — the operations held by a circuit after each edit of the `CircuitDAG` API, and the invariant
  "every operation is as graphiq's own classes construct it" (`GroupHyp` of Proofs/FuseWalk.lean: plain operations, every
  groupable operation a one-qubit gate object) along every edit — `group_one_qubit_gates` included.

  Consequence (Properties/C12, C18): `GroupHyp` / `AllPlain` hold on every circuit reachable from `CircuitDAG(ne,np,nc)` by
  any history of edits whose operation arguments are graphiq-constructed, so the hypotheses of
  `group_is_fuse_of_runs_on_wires` and of the metric theorems are met by every reachable circuit.
-/
import GraphiqModel.Proofs.FuseLoop
set_option linter.unusedSectionVars false
set_option linter.unusedSimpArgs false
namespace Graphiq
namespace Metrics
open Dag Relation

/-- **an operation object as graphiq's classes construct it**: a gate on distinct quantum registers (`OpWF`), labels (user
    labels included) outside the reserved names, at most two quantum registers, a wrapper wraps base gate classes (`PlainOp'`), and an operation that carries
    the label "one-qubit" and is of a one-qubit gate class acts on one quantum register and no classical register
    (`OneQubitOperationBase.__init__`) -/
structure GraphiqOp (op : Op) : Prop where
  wf : OpWF op
  plain : PlainOp' op
  shape : gOp op = true → (∃ r, op.qregs = [r]) ∧ op.cregs = []

theorem graphiqOp_oneQubit {k : Kind} {r : Reg} (hk : k.isOneQubitBase = true) (hr : r.ty ≠ .c) :
    GraphiqOp (Op.oneQubit k r) :=
  ⟨oneQubit_wf hk hr, plain_oneQubit k r, fun _ => ⟨⟨r, rfl⟩, rfl⟩⟩

/-- `GroupHyp` is a statement about the operations held by the operation nodes -/
theorem groupHyp_of_ops {c c' : Dag} (hh : GroupHyp c)
    (h : ∀ o ∈ opsOf c', o ∈ opsOf c ∨ (PlainOp' o ∧ (gOp o = true → (∃ r, o.qregs = [r]) ∧ o.cregs = []))) : GroupHyp c' := by
  constructor
  · intro i o hm
    rcases h o (mem_opsOf.mpr ⟨i, hm⟩) with h | h
    · obtain ⟨j, hj⟩ := mem_opsOf.mp h
      exact hh.plain j o hj
    · exact h.1
  · intro i o hm
    rcases h o (mem_opsOf.mpr ⟨i, hm⟩) with h | h
    · obtain ⟨j, hj⟩ := mem_opsOf.mp h
      exact hh.shape j o hj
    · exact h.2

/-! ## the operations after each edit -/

theorem opsOf_ensureRegs {c : Dag} {P : Paths} (g : Good c P) (op : Op) : opsOf (c.ensureRegs op).1 = opsOf c := by
  obtain ⟨ios, hn, hio⟩ := ensureRegs_nodes g op
  unfold opsOf; rw [hn, opsOf_append_io _ _ hio]

theorem opsOf_of_nodes_append' {c c' : Dag} {n : Nat} {w : Op} (h : c'.nodes = c.nodes ++ [(.op n, w)]) :
    opsOf c' = opsOf c ++ [w] := by
  unfold opsOf
  rw [h, List.filter_append]
  have : List.filter isOpNode [(NodeId.op n, w)] = [(NodeId.op n, w)] := by
    rw [List.filter_cons_of_pos (by simp [isOpNode])]; rfl
  rw [this]; simp

/-- `add(op)`: the operation is appended, or (the register prologue raised) nothing changes -/
theorem opsOf_add_cases {c : Dag} {P : Paths} (g : Good c P) {op : Op} (hop : OpWF op) :
    opsOf (c.add op).1 = opsOf c ++ [op] ∨ opsOf (c.add op).1 = opsOf c := by
  by_cases hok : (c.add op).2 = none
  · exact Or.inl (opsOf_add g hop hok)
  · right
    have h1 := opsOf_ensureRegs g op
    unfold add at hok ⊢
    cases hres : c.ensureRegs op with
    | mk c1 err =>
      rw [hres] at hok h1
      cases err with
      | some e => exact h1
      | none => simp at hok

/-- `insert_at(op, edges)` on well-formed edges: the operation is appended, or (prologue / length assertion raised)
    nothing changes -/
theorem opsOf_insertAt_cases {c : Dag} {P : Paths} (g : Good c P) {op : Op} (hop : OpWF op) {es : List Edge}
    (hok : InsertOK c op es) :
    opsOf (c.insertAt op es).1 = opsOf c ++ [op] ∨ opsOf (c.insertAt op es).1 = opsOf c := by
  have h1 := opsOf_ensureRegs g op
  obtain ⟨P1, g1, _, _, _⟩ := ensureRegs_good g op
  have hok1 := InsertOK.of_pre g hok
  unfold insertAt
  cases hres : c.ensureRegs op with
  | mk c1 err =>
    rw [hres] at h1 g1 hok1
    simp only at h1 g1 hok1
    cases err with
    | some e => exact Or.inr h1
    | none =>
      simp only
      by_cases hlen : es.length ≠ op.qregs.length
      · rw [if_pos hlen]; exact Or.inr h1
      · rw [if_neg hlen]
        obtain ⟨_, _, _, _, _, hnodes, _⟩ := insertAt_good' g1 hop hok1
        left
        rw [opsOf_of_nodes_append' hnodes, h1]

theorem mem_opsOf_removeOp {c : Dag} {P : Paths} (g : Good c P) (n : NodeId) {o : Op} (h : o ∈ opsOf (c.removeOp n).1) :
    o ∈ opsOf c := by
  cases ho : c.opOf? n with
  | none => rw [removeOp_absent ho] at h; exact h
  | some op =>
    rw [removeOp_eq ho] at h
    obtain ⟨i, hi⟩ := mem_opsOf.mp h
    have F := removeFacts g.inv n
    simp only [removed, F.nodes] at hi
    exact mem_opsOf.mpr ⟨i, (List.mem_filter.mp hi).1⟩

theorem mem_opsOf_replaceOp {c : Dag} (n : NodeId) (new : Op) {o : Op} (h : o ∈ opsOf (c.replaceOp n new).1) :
    o ∈ opsOf c ∨ o = new := by
  unfold replaceOp at h
  cases ho : c.opOf? n with
  | none => rw [ho] at h; exact Or.inl h
  | some old =>
    rw [ho] at h
    simp only at h
    by_cases hne : old.qregs ≠ new.qregs ∨ old.cregs ≠ new.cregs
    · rw [if_pos hne] at h; exact Or.inl h
    · rw [if_neg hne] at h
      obtain ⟨i, hi⟩ := mem_opsOf.mp h
      simp only [List.mem_map] at hi
      obtain ⟨p, hp, he⟩ := hi
      by_cases hpn : p.1 = n
      · rw [if_pos hpn] at he
        injection he with _ h2
        exact Or.inr h2.symm
      · rw [if_neg hpn] at he
        subst he
        exact Or.inl (mem_opsOf.mpr ⟨i, hp⟩)

theorem mem_opsOf_unwrapNodes {c : Dag} {P : Paths} (g : Good c P) (hpl : AllPlain c) (o : Op) :
    o ∈ opsOf c.unwrapNodes.1 ↔ o ∈ (opsOf c).flatMap Op.unwrap :=
  mem_of_countP_eq (fun p => (unwrapNodes_count g hpl p).2) o

theorem mem_opsOf_removeIdentity {c : Dag} {P : Paths} (g : Good c P) (hpl : AllPlain c) (o : Op) :
    o ∈ opsOf c.removeIdentity.1 ↔ o ∈ (opsOf c).filter (fun o => !decide (o.kind = .identity)) :=
  mem_of_countP_eq (fun p => (removeIdentity_count g hpl p).2) o

theorem opsOf_addRegister {c : Dag} {P : Paths} (g : Good c P) (t : RegType) (size : Nat) :
    opsOf (c.addRegister t size).1 = opsOf c := by
  unfold addRegister
  by_cases hs : size ≠ 1
  · rw [if_pos hs]
  · rw [if_neg hs]
    obtain ⟨ios, hn, hio⟩ := addRegIfAbsent_nodes g ⟨t, c.regs t⟩
    unfold opsOf; rw [hn, opsOf_append_io _ _ hio]

/-! ## `GroupHyp` along every edit -/

theorem add_groupHyp {c : Dag} {P : Paths} (g : Good c P) (hh : GroupHyp c) {op : Op} (hop : GraphiqOp op) :
    GroupHyp (c.add op).1 := by
  apply groupHyp_of_ops hh
  intro o ho
  rcases opsOf_add_cases g hop.wf with h | h <;> rw [h] at ho
  · rcases List.mem_append.mp ho with ho | ho
    · exact Or.inl ho
    · simp at ho; subst ho; exact Or.inr ⟨hop.plain, hop.shape⟩
  · exact Or.inl ho

theorem insertAt_groupHyp {c : Dag} {P : Paths} (g : Good c P) (hh : GroupHyp c) {op : Op} (hop : GraphiqOp op)
    {es : List Edge} (hok : InsertOK c op es) : GroupHyp (c.insertAt op es).1 := by
  apply groupHyp_of_ops hh
  intro o ho
  rcases opsOf_insertAt_cases g hop.wf hok with h | h <;> rw [h] at ho
  · rcases List.mem_append.mp ho with ho | ho
    · exact Or.inl ho
    · simp at ho; subst ho; exact Or.inr ⟨hop.plain, hop.shape⟩
  · exact Or.inl ho

theorem removeOp_groupHyp {c : Dag} {P : Paths} (g : Good c P) (hh : GroupHyp c) (n : NodeId) : GroupHyp (c.removeOp n).1 :=
  groupHyp_of_ops hh (fun _ ho => Or.inl (mem_opsOf_removeOp g n ho))

theorem replaceOp_groupHyp {c : Dag} (hh : GroupHyp c) (n : NodeId) {new : Op} (hop : GraphiqOp new) :
    GroupHyp (c.replaceOp n new).1 := by
  apply groupHyp_of_ops hh
  intro o ho
  rcases mem_opsOf_replaceOp n new ho with h | rfl
  · exact Or.inl h
  · exact Or.inr ⟨hop.plain, hop.shape⟩

theorem unwrapNodes_groupHyp {c : Dag} {P : Paths} (g : Good c P) (hh : GroupHyp c) : GroupHyp c.unwrapNodes.1 := by
  apply groupHyp_of_ops hh
  intro o ho
  rw [mem_opsOf_unwrapNodes g hh.plain] at ho
  obtain ⟨w, hw, how⟩ := List.mem_flatMap.mp ho
  by_cases hk : w.kind = .wrapper
  · right
    unfold Op.unwrap at how
    rw [hk] at how
    obtain ⟨k, _, rfl⟩ := List.mem_map.mp how
    exact ⟨plain_oneQubit k _, fun _ => ⟨⟨_, rfl⟩, rfl⟩⟩
  · rw [unwrap_of_not_wrapper hk] at how
    simp at how; subst how; exact Or.inl hw

theorem removeIdentity_groupHyp {c : Dag} {P : Paths} (g : Good c P) (hh : GroupHyp c) : GroupHyp c.removeIdentity.1 := by
  apply groupHyp_of_ops hh
  intro o ho
  rw [mem_opsOf_removeIdentity g hh.plain] at ho
  exact Or.inl (List.mem_filter.mp ho).1

theorem groupOneQubitGates_groupHyp {c : Dag} {P : Paths} (g : Good c P) (hh : GroupHyp c) :
    GroupHyp c.groupOneQubitGates.1 := by
  obtain ⟨_, _, _, hh', _⟩ := groupOneQubitGates_wires g hh
  exact hh'

theorem addRegister_groupHyp {c : Dag} {P : Paths} (g : Good c P) (hh : GroupHyp c) (t : RegType) (size : Nat) :
    GroupHyp (c.addRegister t size).1 :=
  groupHyp_of_ops hh (fun o ho => Or.inl (by rw [opsOf_addRegister g] at ho; exact ho))

theorem init_groupHyp (ne np nc : Nat) : GroupHyp (Dag.init ne np nc) := by
  have h0 := opsOf_init ne np nc
  constructor
  · intro i o hm
    have := mem_opsOf.mpr ⟨i, hm⟩
    rw [h0] at this; simp at this
  · intro i o hm
    have := mem_opsOf.mpr ⟨i, hm⟩
    rw [h0] at this; simp at this

end Metrics
end Graphiq
