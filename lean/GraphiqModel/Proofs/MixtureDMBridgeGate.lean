/-
  Proofs/MixtureDMBridgeGate.lean — the gate and noise operations of the executable density-matrix model are the Hilbert-space
  actions of `Proofs/MixtureDMCompile.lean`:

  * `toC_embed1`, `toC_oneQubitGate` : `get_one_qubit_gate(n, q, g)` / `np.kron(np.kron(I, g), I)` is `oneQ n q g`;
  * `toC_ctrlGate` : `get_two_qubit_controlled_gate(n, c, t, g)` is `ctrlQ n c t g`;
  * `applyUnitary_toC`, `dmGate_toC` : `DensityMatrix.apply_unitary` (with `hermitianize` as coded) on a Hermitian state is
    `U ρ U†`; every measurement-free `compile_one_gate` is `gateH`;
  * `dmNoise_toC` : `DepolarizingNoise` / `PauliError` / `PhotonLoss` on a density matrix are `noiseH`.
-/
import GraphiqModel.Proofs.MixtureDMBridgeMat
import GraphiqModel.Proofs.MixtureDMCompile
namespace Graphiq
namespace MixDM
open Matrix Hilbert Noise DM

/-! ### 2×2 constants -/

/-- the 2×2 complex matrix of an executable 2×2 matrix -/
noncomputable def toC2 (g : Mat) : Matrix Bool Bool ℂ := Matrix.of fun a b => gqC (g.e (b2n a) (b2n b))

theorem toC2_apply (g : Mat) (a b : Bool) : toC2 g a b = gqC (g.e (b2n a) (b2n b)) := rfl

theorem toC2_id2 : toC2 Mat.id2 = 1 := by
  ext a b; cases a <;> cases b <;> simp [toC2, b2n, Mat.id2, Mat.m2, gqC_zero, gqC_one]
theorem toC2_sigmax : toC2 Mat.sigmax = sigmaX := by
  ext a b; cases a <;> cases b <;> simp [toC2, b2n, Mat.sigmax, Mat.m2, sigmaX, gqC_zero, gqC_one]
theorem toC2_sigmay : toC2 Mat.sigmay = sigmaY := by
  ext a b; cases a <;> cases b <;> simp [toC2, b2n, Mat.sigmay, Mat.m2, sigmaY, gqC_zero, gqC_neg', gqC_I]
theorem toC2_sigmaz : toC2 Mat.sigmaz = sigmaZ := by
  ext a b; cases a <;> cases b <;> simp [toC2, b2n, Mat.sigmaz, Mat.m2, sigmaZ, gqC_zero, gqC_one, gqC_neg']
theorem toC2_phase : toC2 Mat.phase = phaseM := by
  ext a b; cases a <;> cases b <;> simp [toC2, b2n, Mat.phase, Mat.m2, phaseM, gqC_zero, gqC_one, gqC_I]
theorem toC2_phaseDag : toC2 Mat.phaseDag = phaseDagM := by
  ext a b; cases a <;> cases b <;> simp [toC2, b2n, Mat.phaseDag, Mat.m2, phaseDagM, gqC_zero, gqC_one, gqC_neg', gqC_I]
theorem toC2_had2 : toC2 Mat.had2 = hadM := by
  ext a b; cases a <;> cases b <;> simp [toC2, b2n, Mat.had2, Mat.m2, hadM, gqC_one, gqC_neg']

/-! ### one-qubit gates -/

/-- `np.kron(np.kron(I_{2^q}, g), I_{2^(n-q-1)})` is `g` at site `q` -/
theorem toC_embed1 (n q : Nat) (hq : q < n) (g : Mat) :
    toC n (embed1 (pow2 q) (pow2 (n - q - 1)) g) = oneQ n q (toC2 g) := by
  ext a c
  rw [toC_apply, oneQ_apply]
  simp only [embed1]
  have hiff : (idx a / (2 * pow2 (n - q - 1)) = idx c / (2 * pow2 (n - q - 1)) ∧
      idx a % pow2 (n - q - 1) = idx c % pow2 (n - q - 1)) ↔ ∀ j : Fin n, j.val ≠ q → a j = c j := oneSite_iff n q hq a c
  have ba : idx a / pow2 (n - q - 1) % 2 = b2n (bx a q) := idx_bit a q hq
  have bc : idx c / pow2 (n - q - 1) % 2 = b2n (bx c q) := idx_bit c q hq
  by_cases h : ∀ j : Fin n, j.val ≠ q → a j = c j
  · rw [if_pos (hiff.mpr h), if_pos h, ba, bc, toC2_apply]
  · rw [if_neg (fun h' => h (hiff.mp h')), if_neg h, gqC_zero]

theorem embed1_n (n q : Nat) (hq : q < n) (g : Mat) : (embed1 (pow2 q) (pow2 (n - q - 1)) g).n = 2 ^ n := by
  show pow2 q * 2 * pow2 (n - q - 1) = 2 ^ n
  exact pow2_split n q hq

theorem idx_one (a : Bits 1) : idx a = b2n (bx a 0) := by
  rw [idx_succ, bx_lastB]
  show 2 * 0 + _ = _
  simp [b2n]

/-- `get_one_qubit_gate(n, q, g)` is `g` at site `q` (the special case `n = 1` returns `g` itself) -/
theorem toC_oneQubitGate (n q : Nat) (hq : q < n) (g : Mat) : toC n (getOneQubitGate n q g) = oneQ n q (toC2 g) := by
  unfold getOneQubitGate
  by_cases h1 : n = 1
  · subst h1
    have hq0 : q = 0 := by omega
    subst hq0
    rw [if_pos rfl]
    ext a c
    rw [toC_apply, oneQ_apply, idx_one, idx_one, toC2_apply]
    rw [if_pos]
    intro j hj
    exact absurd (show j.val = 0 by have := j.isLt; omega) hj
  · rw [if_neg h1]
    exact toC_embed1 n q hq g

theorem oneQubitGate_n (n q : Nat) (hq : q < n) (g : Mat) (hg : g.n = 2) : (getOneQubitGate n q g).n = 2 ^ n := by
  unfold getOneQubitGate
  by_cases h1 : n = 1
  · subst h1; rw [if_pos rfl, hg]; norm_num
  · rw [if_neg h1]; exact pow2_split n q hq

/-! ### controlled gates -/

theorem toC_ctrlGate (n c t : Nat) (hc : c < n) (ht : t < n) (hct : c ≠ t) (g u : Mat)
    (h : getTwoQubitControlledGate n c t g = .ok u) : toC n u = ctrlQ n c t (toC2 g) ∧ u.n = 2 ^ n := by
  unfold getTwoQubitControlledGate at h
  rw [if_neg (by omega : ¬ n ≤ 1), if_neg hct] at h
  injection h with h; subst h
  refine ⟨?_, rfl⟩
  ext a b
  rw [toC_apply, ctrlQ_apply]
  have bit : ∀ (x : Bits n) (k : Nat), k < n → idx x / pow2 (n - k - 1) % 2 = b2n (bx x k) := fun x k hk => idx_bit x k hk
  have hsame : ((List.range n).all fun k =>
        k = t || decide ((idx a / pow2 (n - k - 1)) % 2 = (idx b / pow2 (n - k - 1)) % 2)) = true
      ↔ ∀ j : Fin n, j.val ≠ t → a j = b j := by
    rw [List.all_eq_true]
    constructor
    · intro hall j hj
      have := hall j.val (List.mem_range.2 j.isLt)
      simp only [Bool.or_eq_true, decide_eq_true_eq] at this
      rcases this with e | e
      · exact absurd e hj
      · rw [bit a j.val j.isLt, bit b j.val j.isLt, bx_lt _ _ j.isLt, bx_lt _ _ j.isLt] at e
        exact b2n_inj _ _ e
    · intro hall k hk
      have hk' := List.mem_range.1 hk
      simp only [Bool.or_eq_true, decide_eq_true_eq]
      by_cases e : k = t
      · exact Or.inl e
      · right
        rw [bit a k hk', bit b k hk', bx_lt _ _ hk', bx_lt _ _ hk', hall ⟨k, hk'⟩ e]
  by_cases hs : ∀ j : Fin n, j.val ≠ t → a j = b j
  · have hs' := hsame.mpr hs
    rw [if_pos hs]
    simp only [hs', Bool.not_true, Bool.false_eq_true, if_false]
    rw [bit a c hc, bit a t ht, bit b t ht]
    have hcb : bx a c = bx b c := by rw [bx_lt _ _ hc, bx_lt _ _ hc]; exact hs ⟨c, hc⟩ hct
    rw [← hcb]
    cases hca : bx a c
    · simp only [b2n, Bool.false_eq_true, if_false, if_true]
      by_cases e : bx a t = bx b t
      · simp [e, gqC_one]
      · have : ¬ (if bx a t = true then 1 else 0 : Nat) = (if bx b t = true then 1 else 0) := by
          intro h'; exact e (b2n_inj _ _ h')
        simp [e, this, gqC_zero]
    · simp only [b2n, if_true]
      rw [if_neg (by norm_num)]
      rfl
  · have hs' : ((List.range n).all fun k =>
        k = t || decide ((idx a / pow2 (n - k - 1)) % 2 = (idx b / pow2 (n - k - 1)) % 2)) = false := by
      cases hv : ((List.range n).all fun k =>
        k = t || decide ((idx a / pow2 (n - k - 1)) % 2 = (idx b / pow2 (n - k - 1)) % 2))
      · rfl
      · exact absurd (hsame.mp hv) hs
    rw [if_neg hs]
    simp only [hs', Bool.not_false, if_true, gqC_zero]

/-! ### `apply_unitary`, `apply_channel` -/

theorem star_ratC (q : ℚ) : star ((q : ℚ) : ℂ) = ((q : ℚ) : ℂ) := by
  apply Complex.ext <;> simp

theorem conjH_herm {n : Nat} (U R : HMat n) (h : Rᴴ = R) : (conjH U R)ᴴ = conjH U R := by
  unfold conjH
  rw [Matrix.conjTranspose_mul, Matrix.conjTranspose_mul, Matrix.conjTranspose_conjTranspose, h, Matrix.mul_assoc]

theorem smul_herm {n : Nat} (q : ℚ) (R : HMat n) (h : Rᴴ = R) : (((q : ℚ) : ℂ) • R)ᴴ = ((q : ℚ) : ℂ) • R := by
  rw [Matrix.conjTranspose_smul, star_ratC, h]

theorem add_herm {n : Nat} (A B : HMat n) (ha : Aᴴ = A) (hb : Bᴴ = B) : (A + B)ᴴ = A + B := by
  rw [Matrix.conjTranspose_add, ha, hb]

/-- **`DensityMatrix.apply_unitary`** (`√sq · m` the unitary, `hermitianize` as coded) on a Hermitian state -/
theorem applyUnitary_toC (n : Nat) (ρ : Mat) (u : SMat) (hρ : ρ.n = 2 ^ n) (hu : u.m.n = 2 ^ n)
    (hh : (toC n ρ)ᴴ = toC n ρ) (ρ' : Mat) (h : applyUnitary ρ u = .ok ρ') :
    toC n ρ' = ((u.sq : ℚ) : ℂ) • conjH (toC n u.m) (toC n ρ) ∧ ρ'.n = 2 ^ n := by
  unfold applyUnitary at h
  split at h; · cases h
  injection h with h; subst h
  refine ⟨?_, hu⟩
  have s1 : (Mat.smul u.sq (Mat.conjBy u.m ρ)).n = 2 ^ n := hu
  have s2 : (Mat.hermitianize (Mat.smul u.sq (Mat.conjBy u.m ρ)).norm).n = 2 ^ n := hu
  rw [toC_norm n _ s2, toC_hermitianize, toC_norm n _ s1, toC_smul, toC_conjBy n _ _ hu]
  exact hermH_of_herm _ (smul_herm _ _ (conjH_herm _ _ hh))

theorem toC_hermNorm (n : Nat) (m : Mat) (hn : m.n = 2 ^ n) : toC n (Mat.hermitianize m).norm = hermH (toC n m) := by
  have s2 : (Mat.hermitianize m).n = 2 ^ n := hn
  rw [toC_norm n _ s2, toC_hermitianize]

/-- one accumulation step of `apply_channel` -/
theorem chanStep_toC (n : Nat) (acc u ρ : Mat) (q : Rat) (hacc : acc.n = 2 ^ n) (hu : u.n = 2 ^ n) :
    toC n (Mat.add acc (Mat.smul q (Mat.conjBy u ρ)).norm).norm
      = toC n acc + ((q : ℚ) : ℂ) • conjH (toC n u) (toC n ρ) ∧
    (Mat.add acc (Mat.smul q (Mat.conjBy u ρ)).norm).norm.n = 2 ^ n := by
  refine ⟨?_, hacc⟩
  have s1 : (Mat.smul q (Mat.conjBy u ρ)).n = 2 ^ n := hu
  have s2 : (Mat.add acc (Mat.smul q (Mat.conjBy u ρ)).norm).n = 2 ^ n := hacc
  rw [toC_norm n _ s2, toC_add, toC_norm n _ s1, toC_smul, toC_conjBy n _ _ hu]

/-! ### noise on a density matrix -/

theorem depolH_herm (n q : Nat) (p : Rat) (R : HMat n) (h : Rᴴ = R) : (depolH n q p R)ᴴ = depolH n q p R := by
  unfold depolH
  exact add_herm _ _ (smul_herm _ _ h)
    (smul_herm _ _ (add_herm _ _ (add_herm _ _ (conjH_herm _ _ h) (conjH_herm _ _ h)) (conjH_herm _ _ h)))

theorem pauliOf_n (k : Nat) : (DMx.pauliOf k).n = 2 := by
  unfold DMx.pauliOf; split <;> rfl

/-- **`DepolarizingNoise.apply` on a density matrix** -/
theorem dmDepol_toC (n q : Nat) (hq : q < n) (p : Rat) (ρ ρ' : Mat) (hρ : ρ.n = 2 ^ n) (hh : (toC n ρ)ᴴ = toC n ρ)
    (h : DMx.depolarize n p q ρ = .ok ρ') : toC n ρ' = depolH n q p (toC n ρ) ∧ ρ'.n = 2 ^ n := by
  have e : List.range 4 = [0, 1, 2, 3] := by decide
  unfold DMx.depolarize at h
  rw [e] at h
  simp only [List.map_cons, List.map_nil, applyChannel] at h
  split at h; · cases h
  injection h with h; subst h
  have hE := fun k => embed1_n n q hq (DMx.pauliOf k)
  simp only [List.foldl_cons, List.foldl_nil, Mix.depolFactors, List.getD_cons_zero, List.getD_cons_succ]
  have h0 : (Mat.zero ρ.n).n = 2 ^ n := hρ
  obtain ⟨e1, n1⟩ := chanStep_toC n (Mat.zero ρ.n) _ ρ (1 - p) h0 (hE 0)
  obtain ⟨e2, n2⟩ := chanStep_toC n _ _ ρ (p / 3) n1 (hE 1)
  obtain ⟨e3, n3⟩ := chanStep_toC n _ _ ρ (p / 3) n2 (hE 2)
  obtain ⟨e4, n4⟩ := chanStep_toC n _ _ ρ (p / 3) n3 (hE 3)
  refine ⟨?_, n4⟩
  rw [toC_hermNorm n _ n4, e4, e3, e2, e1, toC_zero, toC_embed1 n q hq, toC_embed1 n q hq,
    toC_embed1 n q hq, toC_embed1 n q hq]
  have hd : depolH n q p (toC n ρ)
      = 0 + ((1 - p : ℚ) : ℂ) • conjH (oneQ n q (toC2 (DMx.pauliOf 0))) (toC n ρ)
          + ((p / 3 : ℚ) : ℂ) • conjH (oneQ n q (toC2 (DMx.pauliOf 1))) (toC n ρ)
          + ((p / 3 : ℚ) : ℂ) • conjH (oneQ n q (toC2 (DMx.pauliOf 2))) (toC n ρ)
          + ((p / 3 : ℚ) : ℂ) • conjH (oneQ n q (toC2 (DMx.pauliOf 3))) (toC n ρ) := by
    unfold depolH
    show _ = 0 + _ • conjH (oneQ n q (toC2 Mat.id2)) _ + _ • conjH (oneQ n q (toC2 Mat.sigmax)) _
      + _ • conjH (oneQ n q (toC2 Mat.sigmay)) _ + _ • conjH (oneQ n q (toC2 Mat.sigmaz)) _
    rw [toC2_id2, toC2_sigmax, toC2_sigmay, toC2_sigmaz, oneQ_one, conjH_one]
    show _ + _ • (conjH (oneQ n q sigmaX) _ + conjH (oneQ n q sigmaY) _ + conjH (oneQ n q sigmaZ) _) = _
    rw [smul_add, smul_add, zero_add]
    abel
  rw [← hd]
  exact hermH_of_herm _ (depolH_herm n q p _ hh)

/-- **`PauliError.apply` on a density matrix** -/
theorem dmPauli_toC (n q : Nat) (hq : q < n) (k : PauliK) (ρ ρ' : Mat) (hρ : ρ.n = 2 ^ n) (hh : (toC n ρ)ᴴ = toC n ρ)
    (h : DMx.pauliError n k q ρ = .ok ρ') : toC n ρ' = pauliH n q k (toC n ρ) ∧ ρ'.n = 2 ^ n := by
  cases k <;> simp only [DMx.pauliError] at h
  · obtain ⟨e, hn⟩ := applyUnitary_toC n ρ ⟨1, Mat.eye (pow2 n)⟩ hρ rfl hh ρ' h
    refine ⟨?_, hn⟩
    rw [e, toC_eye, conjH_one]; simp [pauliH]
  · obtain ⟨e, hn⟩ := applyUnitary_toC n ρ ⟨1, getOneQubitGate n q Mat.sigmax⟩ hρ (oneQubitGate_n n q hq Mat.sigmax rfl) hh ρ' h
    refine ⟨?_, hn⟩
    rw [e]
    show _ • conjH (toC n (getOneQubitGate n q Mat.sigmax)) _ = _
    rw [toC_oneQubitGate n q hq, toC2_sigmax]; simp [pauliH, gateMat]
  · obtain ⟨e, hn⟩ := applyUnitary_toC n ρ ⟨1, getOneQubitGate n q Mat.sigmay⟩ hρ (oneQubitGate_n n q hq Mat.sigmay rfl) hh ρ' h
    refine ⟨?_, hn⟩
    rw [e]
    show _ • conjH (toC n (getOneQubitGate n q Mat.sigmay)) _ = _
    rw [toC_oneQubitGate n q hq, toC2_sigmay]; simp [pauliH, gateMat]
  · obtain ⟨e, hn⟩ := applyUnitary_toC n ρ ⟨1, getOneQubitGate n q Mat.sigmaz⟩ hρ (oneQubitGate_n n q hq Mat.sigmaz rfl) hh ρ' h
    refine ⟨?_, hn⟩
    rw [e]
    show _ • conjH (toC n (getOneQubitGate n q Mat.sigmaz)) _ = _
    rw [toC_oneQubitGate n q hq, toC2_sigmaz]; simp [pauliH, gateMat]
  · cases h

/-- **every additive noise model on a density matrix is `noiseH`** -/
theorem dmNoise_toC (n q : Nat) (hq : q < n) (nm : NoiseM) (ρ ρ' : Mat) (hρ : ρ.n = 2 ^ n) (hh : (toC n ρ)ᴴ = toC n ρ)
    (h : DMx.applyNoise n nm q ρ = .ok ρ') : toC n ρ' = noiseH n nm q (toC n ρ) ∧ ρ'.n = 2 ^ n := by
  cases nm with
  | none => simp [DMx.applyNoise] at h; subst h; exact ⟨rfl, hρ⟩
  | depol p a => exact dmDepol_toC n q hq p ρ ρ' hρ hh h
  | pauli k a => exact dmPauli_toC n q hq k ρ ρ' hρ hh h
  | loss r a =>
    simp [DMx.applyNoise] at h; subst h
    exact ⟨by rw [toC_norm n (Mat.smul (1 - r) ρ) hρ, toC_smul]; rfl, hρ⟩
  | replace => simp [DMx.applyNoise] at h
  | other => simp [DMx.applyNoise] at h

theorem noiseH_herm (n : Nat) (nm : NoiseM) (q : Nat) (R : HMat n) (h : Rᴴ = R) : (noiseH n nm q R)ᴴ = noiseH n nm q R := by
  cases nm with
  | depol p a => exact depolH_herm n q p R h
  | pauli k a => cases k <;> first | exact h | exact conjH_herm _ _ h
  | loss r a => exact smul_herm _ _ h
  | none => exact h
  | replace => exact h
  | other => exact h

/-! ### gates on a density matrix -/

theorem gateH_herm (np n : Nat) (op : COp) (R : HMat n) (h : Rᴴ = R) : (gateH np n op R)ᴴ = gateH np n op R := by
  unfold gateH
  split
  · exact conjH_herm _ _ h
  · exact h

/-- **every measurement-free `DensityMatrixCompiler.compile_one_gate` is `gateH`** -/
theorem dmGate_toC (np n : Nat) (det : Bool) (op : COp) (hf : MFree op) (hw : OpWF n np op)
    (s s' : DmSt) (ρ : Mat) (hs : s.ρ = some ρ) (hρ : ρ.n = 2 ^ n) (hh : (toC n ρ)ᴴ = toC n ρ)
    (h : dmGate np n det op s = .ok s') :
    ∃ ρ', s'.ρ = some ρ' ∧ toC n ρ' = gateH np n op (toC n ρ) ∧ ρ'.n = 2 ^ n := by
  have hq1 := hw.1
  unfold dmGate at h
  simp only [hs] at h
  unfold gateH opGate
  have one : ∀ (sq : Rat) (g : Mat), g.n = 2 →
      Except.map (fun r => ({ s with ρ := some r } : DmSt))
        (applyUnitary ρ ⟨sq, getOneQubitGate n (qIndex np op.r1 op.t1) g⟩) = .ok s' →
      ∃ ρ', s'.ρ = some ρ' ∧
        toC n ρ' = ((sq : ℚ) : ℂ) • conjH (oneQ n (qIndex np op.r1 op.t1) (toC2 g)) (toC n ρ) ∧ ρ'.n = 2 ^ n := by
    intro sq g hg hm
    cases hu : applyUnitary ρ ⟨sq, getOneQubitGate n (qIndex np op.r1 op.t1) g⟩ with
    | error e => rw [hu] at hm; cases hm
    | ok r =>
      rw [hu] at hm
      injection hm with hm; subst hm
      obtain ⟨e, hn⟩ := applyUnitary_toC n ρ ⟨sq, getOneQubitGate n (qIndex np op.r1 op.t1) g⟩ hρ
        (oneQubitGate_n n (qIndex np op.r1 op.t1) hq1 g hg) hh r hu
      refine ⟨r, rfl, ?_, hn⟩
      rw [e]
      show _ • conjH (toC n (getOneQubitGate n (qIndex np op.r1 op.t1) g)) _ = _
      rw [toC_oneQubitGate n _ hq1]
  have two : ∀ (g : Mat), op.kind.isCtrlPair = true →
      (match getTwoQubitControlledGate n (qIndex np op.r1 op.t1) (qIndex np op.r2 op.t2) g with
        | .ok u => Except.map (fun r => ({ s with ρ := some r } : DmSt)) (applyUnitary ρ ⟨1, u⟩)
        | .error e => .error e) = .ok s' →
      ∃ ρ', s'.ρ = some ρ' ∧
        toC n ρ' = conjH (ctrlQ n (qIndex np op.r1 op.t1) (qIndex np op.r2 op.t2) (toC2 g)) (toC n ρ) ∧ ρ'.n = 2 ^ n := by
    intro g hc hm
    have hq2 := hw.2.1 (Or.inl hc)
    have hne := hw.2.2 hc
    cases hg : getTwoQubitControlledGate n (qIndex np op.r1 op.t1) (qIndex np op.r2 op.t2) g with
    | error e => rw [hg] at hm; cases hm
    | ok u =>
      rw [hg] at hm
      simp only at hm
      obtain ⟨eu, un⟩ := toC_ctrlGate n _ _ hq1 hq2 hne g u hg
      cases hu : applyUnitary ρ ⟨1, u⟩ with
      | error e => rw [hu] at hm; cases hm
      | ok r =>
        rw [hu] at hm
        injection hm with hm; subst hm
        obtain ⟨e, hn⟩ := applyUnitary_toC n ρ ⟨1, u⟩ hρ un hh r hu
        exact ⟨r, rfl, by rw [e, eu]; simp, hn⟩
  cases hk : op.kind <;> simp only [hk] at h ⊢
  case input => injection h with h; subst h; exact ⟨ρ, hs, (conjH_one _).symm, hρ⟩
  case output => injection h with h; subst h; exact ⟨ρ, hs, (conjH_one _).symm, hρ⟩
  case identity => injection h with h; subst h; exact ⟨ρ, hs, (conjH_one _).symm, hρ⟩
  case h =>
    obtain ⟨r, h1, h2, h3⟩ := one (1/2) Mat.had2 rfl h
    refine ⟨r, h1, ?_, h3⟩
    rw [h2, toC2_had2]
    show _ = conjH (invSqrt2 • oneQ n _ hadM) _
    unfold conjH
    rw [Matrix.conjTranspose_smul, star_invSqrt2, smul_mul_assoc, mul_smul_comm, smul_mul_assoc, smul_smul,
      invSqrt2_mul_self]
    push_cast
    rfl
  case s =>
    obtain ⟨r, h1, h2, h3⟩ := one 1 Mat.phase rfl h
    exact ⟨r, h1, by rw [h2, toC2_phase]; simp [gateMat], h3⟩
  case sdg =>
    obtain ⟨r, h1, h2, h3⟩ := one 1 Mat.phaseDag rfl h
    exact ⟨r, h1, by rw [h2, toC2_phaseDag]; simp [gateMat], h3⟩
  case x =>
    obtain ⟨r, h1, h2, h3⟩ := one 1 Mat.sigmax rfl h
    exact ⟨r, h1, by rw [h2, toC2_sigmax]; simp [gateMat], h3⟩
  case y =>
    obtain ⟨r, h1, h2, h3⟩ := one 1 Mat.sigmay rfl h
    exact ⟨r, h1, by rw [h2, toC2_sigmay]; simp [gateMat], h3⟩
  case z =>
    obtain ⟨r, h1, h2, h3⟩ := one 1 Mat.sigmaz rfl h
    exact ⟨r, h1, by rw [h2, toC2_sigmaz]; simp [gateMat], h3⟩
  case cnot =>
    obtain ⟨r, h1, h2, h3⟩ := two Mat.sigmax (by simp [hk, Kind.isCtrlPair]) h
    exact ⟨r, h1, by rw [h2, toC2_sigmax]; rfl, h3⟩
  case cz =>
    obtain ⟨r, h1, h2, h3⟩ := two Mat.sigmaz (by simp [hk, Kind.isCtrlPair]) h
    exact ⟨r, h1, by rw [h2, toC2_sigmaz]; rfl, h3⟩
  case ccnot => rcases hf with hf | hf <;> simp [hk, Kind.isOneQubit, Kind.isCtrlPair] at hf
  case ccz => rcases hf with hf | hf <;> simp [hk, Kind.isOneQubit, Kind.isCtrlPair] at hf
  case mcr => rcases hf with hf | hf <;> simp [hk, Kind.isOneQubit, Kind.isCtrlPair] at hf
  case measZ => rcases hf with hf | hf <;> simp [hk, Kind.isOneQubit, Kind.isCtrlPair] at hf
  case param => cases h

end MixDM
end Graphiq
