/-
  Proofs/SolverCompleteResources.lean — resource theorem of the time-reversed solver (Li–Economou–Barnes): the circuit the solver model
  returns contains exactly one emitter measurement (`MeasurementCNOTandReset`) per DESCENT of the height function of the target
  (`h(p) < h(p-1)`), next to one emission per photon and `max h` emitters (`Proofs/Solver.lean`, C03).
-/
import GraphiqModel.Proofs.SolverCompleteFinal
namespace Graphiq.Solver
open Graphiq Graphiq.Cliff PRow STab Tab Module

/-- number of descents `h(p) < h(p-1)` (`h(-1) = 0`) of a height list among the positions `p < np` -/
def descents (hl : List Int) (np : Nat) : Nat :=
  cnt np (fun p => decide ((0 :: hl).getD (p + 1) 0 < (0 :: hl).getD p 0))

theorem cnt_congr (n : Nat) (f g : Nat → Bool) (h : ∀ i, i < n → f i = g i) : cnt n f = cnt n g := by
  induction n with
  | zero => rfl
  | succ k ih => rw [cnt_succ, cnt_succ, ih (fun i hi => h i (by omega)), h k (by omega)]

/-! ### the photon part of `target ⊗ |0…0⟩` has the cut ranks, hence the heights, of `target` -/

theorem cutRank_ext_ge (t w : STab) (m : Nat) (hn : w.n = t.n + m)
    (hrow : ∀ i, i < t.n + m → PRow.SameBits (t.n + m) (w.row i) (Solver.extRow t i)) (k : Nat) (hk : k < t.n) :
    t.cutRank k ≤ w.cutRank k := by
  obtain ⟨wn, wrow⟩ := w
  simp only at hn hrow
  subst hn
  have hle : Submodule.map (extLin t.n m) (Submodule.map (cutLin t.n k) t.gspace)
      ≤ Submodule.map (cutLin (t.n + m) k) (gspaceOf (t.n + m) wrow) := by
    unfold STab.gspace gspaceOf
    rw [Submodule.map_span, Submodule.map_span]
    apply Submodule.span_le.2
    rintro _ ⟨_, ⟨_, ⟨i, rfl⟩, rfl⟩, rfl⟩
    have hi : i.val < t.n := i.isLt
    have hi' : i.val < t.n + m := by omega
    have e : cutLin (t.n + m) k ((wrow i.val).vec (t.n + m)) = extLin t.n m (cutLin t.n k ((t.row i.val).vec t.n)) := by
      funext j
      have hb := hrow i.val hi' j.val j.isLt
      simp only [Solver.extRow, if_pos hi, PRow.truncCols] at hb
      rw [extLin_apply]
      simp only [cutLin, LinearMap.coe_mk, AddHom.coe_mk]
      by_cases hj : j.val ≤ k
      · have hj2 : j.val < t.n := by omega
        rw [if_pos hj, dif_pos hj2, if_pos hj]
        show (b2z ((wrow i.val).x j), b2z ((wrow i.val).z j)) = (b2z ((t.row i.val).x j.val), b2z ((t.row i.val).z j.val))
        rw [hb.1, hb.2]
        simp [hj2]
      · rw [if_neg hj]
        by_cases hj2 : j.val < t.n
        · rw [dif_pos hj2, if_neg hj]
        · rw [dif_neg hj2]
    rw [← e]
    exact Submodule.mem_map_of_mem (Submodule.subset_span ⟨⟨i.val, hi'⟩, rfl⟩)
  have hinj : Function.Injective (extLin t.n m) := LinearMap.ker_eq_bot.1 (extLin_ker t.n m)
  have heq : finrank (ZMod 2) ↥(Submodule.map (extLin t.n m) (Submodule.map (cutLin t.n k) t.gspace))
      = finrank (ZMod 2) ↥(Submodule.map (cutLin t.n k) t.gspace) :=
    (Submodule.equivMapOfInjective (extLin t.n m) hinj _).finrank_eq.symm
  show finrank (ZMod 2) ↥(Submodule.map (cutLin t.n k) t.gspace) ≤ _
  rw [← heq]
  exact Submodule.finrank_mono hle

theorem cutRank_withEmitters_eq (target : STab) (ne k : Nat) (hk : k < target.n) :
    (withEmitters target ne).cutRank k = target.cutRank k := by
  have hrow : ∀ i, i < target.n + ne → PRow.SameBits (target.n + ne) ((withEmitters target ne).row i) (extRow target i) :=
    fun i hi => (withEmitters_row target ne i hi).1
  exact Nat.le_antisymm (cutRank_ext_le target _ ne (withEmitters_n target ne) hrow k hk)
    (cutRank_ext_ge target _ ne (withEmitters_n target ne) hrow k hk)

/-- the heights of the photon cuts of `target ⊗ |0…0⟩` are those of `target` -/
theorem heights_withEmitters (target : STab) (ne : Nat) (hl hl0 : List Int) (h : target.heightFuncList = .ok hl)
    (h0 : (withEmitters target ne).heightFuncList = .ok hl0) (k : Nat) (hk : k < target.n) : hl0.getD k 0 = hl.getD k 0 := by
  rw [height_eq_cutRank _ hl0 h0 k (by rw [withEmitters_n]; omega), height_eq_cutRank _ hl h k hk,
    cutRank_withEmitters_eq target ne k hk]

theorem descents_withEmitters (target : STab) (ne : Nat) (hl hl0 : List Int) (h : target.heightFuncList = .ok hl)
    (h0 : (withEmitters target ne).heightFuncList = .ok hl0) : descents hl0 target.n = descents hl target.n := by
  apply cnt_congr
  intro p hp
  have e1 : ∀ l : List Int, (0 :: l).getD (p + 1) 0 = l.getD p 0 := fun l => by simp [List.getD]
  rw [e1, e1, heights_withEmitters target ne hl hl0 h h0 p hp]
  cases p with
  | zero => rfl
  | succ p' =>
    have e2 : ∀ l : List Int, (0 :: l).getD (p' + 1) 0 = l.getD p' 0 := fun l => by simp [List.getD]
    rw [e2, e2, heights_withEmitters target ne hl hl0 h h0 p' (by omega)]

/-! ### from `solve` back to the loop -/

/-- after the loop nothing records a measure-and-reset -/
theorem solve_loop_count (target : STab) (s : St) (h : solve target = .ok s) :
    ∃ ne s1, determineNEmitters target = .ok ne ∧
      photonLoop { np := target.n, ne := ne, t := withEmitters target ne, circ := [] } ((List.range target.n).reverse.map (· + 1)) = .ok s1 ∧
      mcrCount s.circ = mcrCount s1.circ := by
  unfold solve at h
  cases h0 : determineNEmitters target with
  | error e => rw [h0] at h; cases h
  | ok ne =>
    rw [h0] at h; simp only at h
    have e0 : (List.range ne).foldl (fun (acc : STab) _ => (acc.insertQubit acc.n).norm) target = withEmitters target ne := rfl
    rw [e0] at h
    cases h1 : photonLoop { np := target.n, ne := ne, t := withEmitters target ne, circ := [] } ((List.range target.n).reverse.map (· + 1)) with
    | error e => rw [h1] at h; cases h
    | ok s1 =>
      rw [h1] at h; simp only at h
      refine ⟨ne, s1, rfl, h1, ?_⟩
      cases h2 : s1.t.rref with
      | error e => rw [h2] at h; cases h
      | ok v =>
        obtain ⟨t2, b⟩ := v
        rw [h2] at h; simp only at h
        split at h
        · cases h
        · cases h3 : t2.inverseCircuit with
          | error e => rw [h3] at h; cases h
          | ok w =>
            obtain ⟨t', inv⟩ := w
            rw [h3] at h; simp only at h
            cases h4 : addGatesFromStr { s1 with t := t2 } inv with
            | error e => rw [h4] at h; cases h
            | ok s3 =>
              rw [h4] at h; simp only at h
              have k1 : KeepsM { s1 with t := t2 } s3 := addGatesFromStr_mcr _ s3 inv h4
              have k2 : KeepsM s3 s := by
                apply keepsM_foldlM _ _ _ s3 s h
                intro a i a' ha
                split at ha
                · exact (keepsM_gate a _).trans (keepsM_addOneQubit _ a' _ _ ha)
                · injection ha with ha; rw [← ha]; exact KeepsM.refl a
              exact Eq.trans k2 k1

/-- **the solver records exactly one emitter measurement per descent of the target's height function** (any stabilizer target without
    product qubit, under completeness of `inverse_circuit`) -/
theorem solve_mcr_count (hinv : InvComplete) (target : STab) (hg : target.Good) (hi : target.LinIndep) (hn : 0 < target.n)
    (hnp : ∀ p, p < target.n → target.NotProd p) :
    ∃ s hl, solve target = .ok s ∧ target.heightFuncList = .ok hl ∧ mcrCount s.circ = descents hl target.n := by
  obtain ⟨s, hs, _⟩ := solve_complete_stabilizer hinv target hg hi hn hnp
  obtain ⟨ne, s1, hdet, hloop, hc⟩ := solve_loop_count target s hs
  obtain ⟨hl, hh, _⟩ := heightFuncList_ok_of_indep target hi
  obtain ⟨g0, n0⟩ := withEmitters_good target hg ne
  obtain ⟨hl0, hh0, _⟩ := heightFuncList_ok_of_indep _ (indep_withEmitters target hi ne)
  have i0 := rinv_init (fun _ => False) target hg hi ne hdet (fun p hp _ => hnp p hp) (fun _ _ h => h.elim)
  obtain ⟨s1', hl1, _, hcount⟩ := photonLoop_count (fun _ => False) target.n ne (withEmitters target ne) g0 target.n
    (fun _ _ h => h) _ i0 Reach.refl (fun p => decide ((0 :: hl0).getD (p + 1) 0 < (0 :: hl0).getD p 0))
    (fun p hp => by
      rw [decide_eq_true_iff]
      exact cond_iff_dropAt _ hl0 hh0 p (by rw [n0]; omega))
  rw [hloop] at hl1
  injection hl1 with e
  subst e
  refine ⟨s, hl, hs, hh, ?_⟩
  rw [hc, hcount]
  show 0 + descents hl0 target.n = _
  rw [Nat.zero_add, descents_withEmitters target ne hl hl0 hh hh0]

end Graphiq.Solver
