/-
  Proofs/AltTargetConvDefs.lean — vocabulary for the LC-conversion step of `AlternateTargetSolver.solve` (C10):
  the gate list `lc_check(lc_graph, iso_graph, validate=True)` returns (model `LC.lcCheckR`, C09), its translation into circuit
  operations on the photons (`str_to_op`), and the row action of the list.
-/
import GraphiqModel.Model.LC
import GraphiqModel.Model.Circuit
import GraphiqModel.Model.Check
namespace Graphiq
namespace Alt

/-- row action of one named one-qubit gate of a conversion list (`run_circuit` names) -/
def nameAct (name : String) (q : Nat) : PRow → PRow :=
  match name with
  | "H" => PRow.h q
  | "P" => PRow.s q
  | "P_dag" => PRow.sdg q
  | "X" => PRow.xg q
  | "Y" => PRow.yg q
  | "Z" => PRow.zg q
  | _ => id

/-- row action of a gate list, first gate first -/
def namesAct (gates : List (String × Nat)) (p : PRow) : PRow := gates.foldl (fun a g => nameAct g.1 g.2 a) p

/-- `str_to_op((name, q))`: the operation on photon `q`; names outside `["I", "H", "X", "P", "P_dag", "Z"]` make `list.index` raise -/
def gateCOp (g : String × Nat) : Option COp :=
  match g.1 with
  | "I" => some (.gate1 .I ⟨.p, g.2⟩)
  | "H" => some (.gate1 .H ⟨.p, g.2⟩)
  | "X" => some (.gate1 .X ⟨.p, g.2⟩)
  | "P" => some (.gate1 .P ⟨.p, g.2⟩)
  | "P_dag" => some (.pdag ⟨.p, g.2⟩)
  | "Z" => some (.gate1 .Z ⟨.p, g.2⟩)
  | _ => none

/-- `str_to_op(gate list)` -/
def gatesCOps (gates : List (String × Nat)) : Option (List COp) := gates.mapM gateCOp

/-- the conversion step of `solve`: `lc_check(lc, iso, validate=True)` must succeed, then `str_to_op` of its gate list -/
def convModel (lc iso : BMat) : Option (List COp) :=
  match LC.lcCheckR lc iso true with
  | .ok (true, gates) => gatesCOps gates
  | _ => none

/-- adjacency cut to the vertices `0..n-1` -/
def cutAdj (n : Nat) (A : Nat → Nat → Bool) : Nat → Nat → Bool := fun i j => decide (i < n) && decide (j < n) && A i j

end Alt
end Graphiq
