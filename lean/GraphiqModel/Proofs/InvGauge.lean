/-
  Proofs/InvGauge.lean — `inverse_circuit` (and with it `clifford_from_stabilizer`) is a function of the *state*: two real
  commuting generating sets of the same signed group get literally the same gate list.  `canonical_form` is a normal
  form row by row (Proofs/CanonUnique.lean) and returns a *tabulated* tableau, so the two canonical forms are equal as
  values, and everything after `canonical_form` is a function of that value.  All sizes.
-/
import GraphiqModel.Proofs.InvTotal
namespace Graphiq
open PRow Tab
namespace STab

theorem prow_norm_congr (n : Nat) (a b : PRow) (h : EqOn n a b) : a.norm n = b.norm n := by
  have hx : (Array.ofFn (n := n) fun j => a.x j) = (Array.ofFn (n := n) fun j => b.x j) := by
    congr 1; funext j; exact (h.1 j.1 j.2).1
  have hz : (Array.ofFn (n := n) fun j => a.z j) = (Array.ofFn (n := n) fun j => b.z j) := by
    congr 1; funext j; exact (h.1 j.1 j.2).2
  simp only [PRow.norm, hx, hz, h.2.1, h.2.2]

/-- two tabulated tableaux of the same size with the same rows (below the size) are equal as values -/
theorem norm_congr (a b : STab) (hn : a.n = b.n) (h : ∀ i, i < a.n → EqOn a.n (a.row i) (b.row i)) : a.norm = b.norm := by
  obtain ⟨na, ra⟩ := a
  obtain ⟨nb, rb⟩ := b
  simp only at hn h
  subst hn
  have : (Array.ofFn (n := na) fun i => (ra i).norm na) = (Array.ofFn (n := na) fun i => (rb i).norm na) := by
    congr 1; funext i; exact prow_norm_congr na _ _ (h i.1 i.2)
  simp only [STab.norm, this]

/-- the tableau is the output of a tabulation -/
def IsNormed (t : STab) : Prop := ∃ Y : STab, t = Y.norm

theorem canonStepXY_normed (t : STab) (pr j : Nat) :
    (t.canonStepXY pr j = (t, pr)) ∨ (IsNormed (t.canonStepXY pr j).1 ∧ (t.canonStepXY pr j).2 = pr + 1) := by
  unfold canonStepXY
  generalize t.pauliTypeFinder pr j = ft
  obtain ⟨xs, ys, zs⟩ := ft
  simp only
  split
  · left; rfl
  · right; exact ⟨⟨_, rfl⟩, rfl⟩

theorem canonStepZ_normed (t : STab) (pr j : Nat) :
    (t.canonStepZ pr j = (t, pr)) ∨ (IsNormed (t.canonStepZ pr j).1 ∧ (t.canonStepZ pr j).2 = pr + 1) := by
  unfold canonStepZ
  split
  · left; rfl
  · right; exact ⟨⟨_, rfl⟩, rfl⟩

theorem fold_normed (t0 : STab) (step : STab → Nat → Nat → STab × Nat)
    (hstep : ∀ t pr j, step t pr j = (t, pr) ∨ (IsNormed (step t pr j).1 ∧ (step t pr j).2 = pr + 1))
    (l : List Nat) (acc : STab × Nat) (h : (acc = (t0, 0)) ∨ IsNormed acc.1) :
    ((l.foldl (fun (a : STab × Nat) j => step a.1 a.2 j) acc) = (t0, 0)) ∨
      IsNormed (l.foldl (fun (a : STab × Nat) j => step a.1 a.2 j) acc).1 := by
  induction l generalizing acc with
  | nil => exact h
  | cons x rest ih =>
    simp only [List.foldl_cons]
    apply ih
    rcases hstep acc.1 acc.2 x with e | ⟨e1, _⟩
    · rw [e]; exact h
    · right; exact e1

/-- a canonical form on at least one qubit is a tabulated tableau -/
theorem canonicalForm_normed (t c : STab) (h : t.canonicalForm = .ok c) (hn : 0 < t.n) : IsNormed c := by
  unfold canonicalForm at h
  split at h
  · next hp =>
    injection h with h
    subst h
    unfold canonLoops at hp ⊢
    have h1 := fold_normed t (fun t pr j => t.canonStepXY pr j) canonStepXY_normed (List.range t.n) (t, 0) (Or.inl rfl)
    have h2 := fold_normed t (fun t pr j => t.canonStepZ pr j) canonStepZ_normed (List.range t.n) _ h1
    rcases h2 with e | e
    · rw [e] at hp; simp only at hp; omega
    · exact e
  · cases h

/-- **the canonical forms of two generating sets of one state are equal as values** (n ≥ 1) -/
theorem canonicalForm_eq_of_spanEq (a b ca cb : STab) (ga : a.Good) (gb : b.Good) (s : SpanEq a b)
    (ha : a.canonicalForm = .ok ca) (hb : b.canonicalForm = .ok cb) (hn : 0 < a.n) : ca = cb := by
  obtain ⟨s1, g1⟩ := canonicalForm_spanEq a ca ga ha
  obtain ⟨s2, g2⟩ := canonicalForm_spanEq b cb gb hb
  have sc : SpanEq ca cb := (s1.symm.trans s).trans s2
  have rows := canon_unique ca cb (canonicalForm_canon a ca ha) (canonicalForm_canon b cb hb) g1 g2 sc
  obtain ⟨Ya, ea⟩ := canonicalForm_normed a ca ha hn
  obtain ⟨Yb, eb⟩ := canonicalForm_normed b cb hb (by rw [← s.n_eq]; exact hn)
  subst ea; subst eb
  have hnn : Ya.n = Yb.n := sc.n_eq
  apply norm_congr Ya Yb hnn
  intro i hi
  have r := rows i hi
  have n1 := norm_row Ya i hi
  have n2 := norm_row Yb i (by rw [← hnn]; exact hi)
  rw [← hnn] at n2
  exact (n1.symm.trans r).trans n2

/-- **`inverse_circuit` returns the same gate list for every generating set of a state** -/
theorem inverseCircuit_gauge (a b : STab) (ga : a.Good) (gb : b.Good) (s : SpanEq a b) (ta tb : STab) (ca cb : List Gate)
    (ha : a.inverseCircuit = .ok (ta, ca)) (hb : b.inverseCircuit = .ok (tb, cb)) : ca = cb ∧ (0 < a.n → ta = tb) := by
  obtain ⟨a0, sa, hca, hsa, ea1, ea2⟩ := inverseCircuit_eq a ta ca ha
  obtain ⟨b0, sb, hcb, hsb, eb1, eb2⟩ := inverseCircuit_eq b tb cb hb
  by_cases hn : 0 < a.n
  · have e := canonicalForm_eq_of_spanEq a b a0 b0 ga gb s hca hcb hn
    subst e
    rw [hsa] at hsb
    injection hsb with hsb
    subst hsb
    exact ⟨ea2.symm.trans eb2, fun _ => ea1.symm.trans eb1⟩
  · have hn0 : a.n = 0 := by omega
    have na0 : a0.n = 0 := by
      have := (canonicalForm_spanEq a a0 ga hca).1.n_eq; omega
    have nb0 : b0.n = 0 := by
      have := (canonicalForm_spanEq b b0 gb hcb).1.n_eq; have := s.n_eq; omega
    refine ⟨?_, fun h => absurd h hn⟩
    have empty : ∀ (t0 : STab) (st : InvState), t0.n = 0 → invBlocks t0 = .ok st → st.circ = [] := by
      intro t0 st h0 hst
      unfold invBlocks invBlock1 at hst
      rw [h0] at hst
      simp only [List.range_zero, List.foldlM_nil] at hst
      injection hst with hst
      rw [← hst]
      simp [invRest, pairsLt]
    rw [← ea2, ← eb2, empty a0 sa na0 hsa, empty b0 sb nb0 hsb]

/-- **`clifford_from_stabilizer` returns the same Clifford tableau — destabilizers included — for every generating set
    of a state** -/
theorem cliffordFromStabilizer_gauge (a b : STab) (ga : a.Good) (gb : b.Good) (s : SpanEq a b) (Ta Tb : Tab)
    (ha : a.cliffordFromStabilizer = .ok Ta) (hb : b.cliffordFromStabilizer = .ok Tb) : Ta = Tb := by
  unfold cliffordFromStabilizer at ha hb
  split at ha
  · cases ha
  · next ta ca hia =>
    split at hb
    · cases hb
    · next tb cb hib =>
      injection ha with ha
      injection hb with hb
      have := (inverseCircuit_gauge a b ga gb s ta tb ca cb hia hib).1
      rw [← ha, ← hb, this, s.n_eq]

end STab
end Graphiq
