/-
  Proofs/HilbertBridgeVec.lean — the state-vector view of a stabilizer state:

  * `rank_one_of_projector_trace_one` : a Hermitian idempotent matrix of trace 1 is `|ψ⟩⟨ψ|` for a unit vector `ψ`
    (a normalised column of the matrix);
  * `outer_eq_phase` : two unit vectors with the same `|ψ⟩⟨ψ|` differ by a global phase (`φ = c ψ`, `|c| = 1`);
  * `tabRho_state_vector` : the state of every valid Clifford tableau is `|ψ⟩⟨ψ|`, `ψ` unique up to a global phase —
    the literal rank-one form of the stabilizer state.
-/
import GraphiqModel.Proofs.HilbertBridgeOps
namespace Graphiq
namespace Hilbert
open Matrix
open scoped ComplexOrder

/-- `|ψ⟩⟨φ|`-style outer product `|ψ⟩⟨ψ|` -/
noncomputable def outer {n : Nat} (ψ : Bits n → ℂ) : DMat n := Matrix.of fun a b => ψ a * star (ψ b)

/-- `⟨ψ|φ⟩` -/
noncomputable def inner {n : Nat} (ψ φ : Bits n → ℂ) : ℂ := ∑ a, star (ψ a) * φ a

theorem projector_trace_zero {n : Nat} (Q : DMat n) (h1 : Qᴴ = Q) (h2 : Q * Q = Q) (h3 : Matrix.trace Q = 0) : Q = 0 := by
  apply trace_conjTranspose_mul_self_eq_zero_iff.mp
  rw [h1, h2, h3]

theorem exists_diag_ne_zero {n : Nat} (P : DMat n) (h : Matrix.trace P = 1) : ∃ a, P a a ≠ 0 := by
  by_contra hne
  push_neg at hne
  have : Matrix.trace P = 0 := by
    unfold Matrix.trace
    apply Finset.sum_eq_zero
    intro a _
    exact hne a
  rw [this] at h
  exact zero_ne_one h

/-- the projector onto column `a` of a Hermitian idempotent `P` with `P a a ≠ 0` -/
noncomputable def colProj {n : Nat} (P : DMat n) (a : Bits n) : DMat n :=
  Matrix.of fun b b' => (P a a)⁻¹ * (P b a * P a b')

/-- **A trace-one projector is the projector onto any of its non-zero columns.** -/
theorem projector_eq_colProj {n : Nat} (P : DMat n) (h1 : Pᴴ = P) (h2 : P * P = P) (h3 : Matrix.trace P = 1) (a : Bits n)
    (ha : P a a ≠ 0) : P = colProj P a := by
  have hstar : ∀ x y, star (P x y) = P y x := by
    intro x y
    have := congrFun (congrFun h1 y) x
    rwa [Matrix.conjTranspose_apply] at this
  have hPP : ∀ x y, ∑ k, P x k * P k y = P x y := by
    intro x y
    have := congrFun (congrFun h2 x) y
    rwa [Matrix.mul_apply] at this
  have hcs : star (P a a) = P a a := hstar a a
  set c := P a a with hc
  set R := colProj P a with hR
  have hRapp : ∀ b b', R b b' = c⁻¹ * (P b a * P a b') := fun _ _ => rfl
  have hPR : P * R = R := by
    ext b b'
    rw [Matrix.mul_apply, hRapp]
    have e : ∀ k, P b k * R k b' = (c⁻¹ * P a b') * (P b k * P k a) := by
      intro k; rw [hRapp]; ring
    rw [Finset.sum_congr rfl (fun k _ => e k), ← Finset.mul_sum, hPP]
    ring
  have hRP : R * P = R := by
    ext b b'
    rw [Matrix.mul_apply, hRapp]
    have e : ∀ k, R b k * P k b' = (c⁻¹ * P b a) * (P a k * P k b') := by
      intro k; rw [hRapp]; ring
    rw [Finset.sum_congr rfl (fun k _ => e k), ← Finset.mul_sum, hPP]
    ring
  have hRR : R * R = R := by
    ext b b'
    rw [Matrix.mul_apply, hRapp]
    have e : ∀ k, R b k * R k b' = (c⁻¹ * c⁻¹ * P b a * P a b') * (P a k * P k a) := by
      intro k; rw [hRapp, hRapp]; ring
    rw [Finset.sum_congr rfl (fun k _ => e k), ← Finset.mul_sum, hPP]
    show c⁻¹ * c⁻¹ * P b a * P a b' * c = c⁻¹ * (P b a * P a b')
    field_simp
  have hRh : Rᴴ = R := by
    ext b b'
    rw [Matrix.conjTranspose_apply, hRapp, hRapp, star_mul', star_mul', star_inv₀, hcs, hstar, hstar]
    ring
  have hRtr : Matrix.trace R = 1 := by
    unfold Matrix.trace
    simp only [Matrix.diag_apply]
    have e : ∀ k, R k k = c⁻¹ * (P a k * P k a) := by
      intro k; rw [hRapp]; ring
    rw [Finset.sum_congr rfl (fun k _ => e k), ← Finset.mul_sum, hPP]
    exact inv_mul_cancel₀ ha
  have hQ : P - R = 0 := by
    apply projector_trace_zero
    · rw [Matrix.conjTranspose_sub, h1, hRh]
    · rw [sub_mul, mul_sub, mul_sub, h2, hPR, hRP, hRR]; abel
    · rw [Matrix.trace_sub, h3, hRtr, sub_self]
  exact sub_eq_zero.mp hQ

/-- **Rank one.**  A Hermitian idempotent matrix of trace 1 is `|ψ⟩⟨ψ|` for a unit vector `ψ`. -/
theorem rank_one_of_projector_trace_one {n : Nat} (P : DMat n) (h1 : Pᴴ = P) (h2 : P * P = P) (h3 : Matrix.trace P = 1) :
    ∃ ψ : Bits n → ℂ, P = outer ψ ∧ inner ψ ψ = 1 := by
  obtain ⟨a, ha⟩ := exists_diag_ne_zero P h3
  have hcol := projector_eq_colProj P h1 h2 h3 a ha
  have hstar : ∀ x y, star (P x y) = P y x := by
    intro x y
    have := congrFun (congrFun h1 y) x
    rwa [Matrix.conjTranspose_apply] at this
  have hPP : ∑ k, P a k * P k a = P a a := by
    have := congrFun (congrFun h2 a) a
    rwa [Matrix.mul_apply] at this
  -- the diagonal entry is a positive real
  have him : (P a a).im = 0 := by
    have := congrArg Complex.im (hstar a a)
    simp at this
    linarith
  have hre_nonneg : 0 ≤ (P a a).re := by
    have : (P a a).re = ∑ k, Complex.normSq (P k a) := by
      rw [← hPP, Complex.re_sum]
      apply Finset.sum_congr rfl
      intro k _
      rw [← hstar k a, Complex.normSq_apply]
      simp
    rw [this]
    exact Finset.sum_nonneg (fun k _ => Complex.normSq_nonneg _)
  have hcr : P a a = ((P a a).re : ℂ) := by
    apply Complex.ext <;> simp [him]
  have hre_pos : 0 < (P a a).re := by
    rcases lt_or_eq_of_le hre_nonneg with h | h
    · exact h
    · exfalso; apply ha; rw [hcr, ← h]; simp
  set r := (P a a).re with hr
  set s : ℂ := ((Real.sqrt r : ℝ) : ℂ) with hs
  have hss : s * s = P a a := by
    rw [hcr, hs, ← Complex.ofReal_mul, Real.mul_self_sqrt hre_nonneg]
  have hsstar : star s = s := Complex.conj_ofReal _
  have hs0 : s ≠ 0 := by
    intro h; rw [h] at hss; simp at hss; exact ha hss.symm
  refine ⟨fun b => P b a / s, ?_, ?_⟩
  · ext b b'
    rw [congrFun (congrFun hcol b) b']
    show (P a a)⁻¹ * (P b a * P a b') = P b a / s * star (P b' a / s)
    rw [star_div₀, hsstar, hstar, ← hss]
    field_simp
  · show ∑ b, star (P b a / s) * (P b a / s) = 1
    have e : ∀ b, star (P b a / s) * (P b a / s) = (s * s)⁻¹ * (P a b * P b a) := by
      intro b
      rw [star_div₀, hsstar, hstar]
      field_simp
    rw [Finset.sum_congr rfl (fun b _ => e b), ← Finset.mul_sum, hPP, hss]
    exact inv_mul_cancel₀ ha

/-- **Global phase.**  Unit vectors with the same projector differ by a phase: `φ = c • ψ` with `c = ⟨ψ|φ⟩`, `|c|² = 1`. -/
theorem outer_eq_phase {n : Nat} (ψ φ : Bits n → ℂ) (h : outer ψ = outer φ) (hψ : inner ψ ψ = 1) (hφ : inner φ φ = 1) :
    ∃ c : ℂ, star c * c = 1 ∧ ∀ a, φ a = c * ψ a := by
  have key : ∀ a, φ a = inner ψ φ * ψ a := by
    intro a
    have h1 : φ a = ∑ b, (outer φ) a b * φ b := by
      show φ a = ∑ b, φ a * star (φ b) * φ b
      rw [Finset.sum_congr rfl (fun b _ => mul_assoc (φ a) (star (φ b)) (φ b)), ← Finset.mul_sum]
      have : ∑ b, star (φ b) * φ b = 1 := hφ
      rw [this, mul_one]
    rw [h1, ← h]
    show ∑ b, ψ a * star (ψ b) * φ b = inner ψ φ * ψ a
    rw [Finset.sum_congr rfl (fun b _ => mul_assoc (ψ a) (star (ψ b)) (φ b)), ← Finset.mul_sum]
    unfold inner
    ring
  refine ⟨inner ψ φ, ?_, key⟩
  have : inner φ φ = star (inner ψ φ) * inner ψ φ * inner ψ ψ := by
    have e : ∀ a, star (φ a) * φ a = (star (inner ψ φ) * inner ψ φ) * (star (ψ a) * ψ a) := by
      intro a
      rw [key a, star_mul']
      ring
    show ∑ a, star (φ a) * φ a = star (inner ψ φ) * inner ψ φ * ∑ a, star (ψ a) * ψ a
    rw [Finset.sum_congr rfl (fun a _ => e a), ← Finset.mul_sum]
  rw [hφ, hψ, mul_one] at this
  exact this.symm

/-- **The state of a valid Clifford tableau is a state vector, unique up to a global phase.** -/
theorem tabRho_state_vector (t : Tab) (hv : t.Valid) :
    (∃ ψ : Bits t.n → ℂ, tabRho t.n t = outer ψ ∧ inner ψ ψ = 1) ∧
    (∀ ψ φ : Bits t.n → ℂ, tabRho t.n t = outer ψ → tabRho t.n t = outer φ → inner ψ ψ = 1 → inner φ φ = 1 →
      ∃ c : ℂ, star c * c = 1 ∧ ∀ a, φ a = c * ψ a) :=
  ⟨rank_one_of_projector_trace_one _ (tabRho_hermitian t hv) (tabRho_idem t hv) (tabRho_trace t hv),
   fun ψ φ h1 h2 h3 h4 => outer_eq_phase ψ φ (h1.symm.trans h2) h3 h4⟩

end Hilbert
end Graphiq
