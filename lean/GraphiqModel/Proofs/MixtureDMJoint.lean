/-
  Proofs/MixtureDMJoint.lean — a *verified repair proposal* for finding F2 (`MixedStabilizer.apply_measurement` measures every
  branch on its own).  NOT a model of the code as it stands: `measureJoint` / `measureJointNorm` below are the algorithm of the
  patch proposed in handoff/deep-c06.md (one outcome for the whole mixture; branch `k` is projected on it with weight
  `w_k · P_k(o)`, `P_k(o) ∈ {0, ½, 1}` read off the tableau; branches with `P_k(o) = 0` are dropped; the total weight is kept).

  * `measureJoint_spec` : for **every** mixture of valid tableaux (no agreement between the branches needed), every n,
      `Σ (measureJoint q o m) = Π_o (Σ m) Π_o`   and   `total (measureJoint q o m) = tr((Σ m) Π_o)`;
  * `joint_measurement_is_dm_measurement` : whenever `DensityMatrix.apply_measurement` returns a matrix, it reports the outcome
    `measureJointNorm` chooses and its matrix is `Σ_k w_k ρ(T_k)` of the mixture `measureJointNorm` returns — the statement that
    fails for the per-branch measurement of the code (finding F2) holds for the repaired one, for all mixtures with
    non-negative weights.
-/
import GraphiqModel.Proofs.MixtureDMPhysMeas
import GraphiqModel.Proofs.MixtureDMWeights
namespace Graphiq
namespace MixDM
open Matrix Hilbert Noise DM PRow

/-- what one branch contributes to the mixture projected on outcome `o` -/
def jointBranch (q : Nat) (o : Bool) (x : Rat × Tab) : Option (Rat × Tab) :=
  match x.2.pivot q with
  | some _ => some (x.1 / 2, (x.2.zMeasure q o).1.norm)                       -- random in this branch: probability ½
  | none => if (x.2.zMeasure q o).2.1 = o then some (x.1, (x.2.zMeasure q o).1.norm) else none   -- deterministic

/-- **proposed joint measurement**, unnormalised: every branch projected on the same outcome `o` -/
def measureJoint (q : Nat) (o : Bool) (m : Mixture) : Mixture := m.filterMap (jointBranch q o)

theorem measureJoint_cons (q : Nat) (o : Bool) (x : Rat × Tab) (m : Mixture) :
    measureJoint q o (x :: m) = (match jointBranch q o x with | some y => y :: measureJoint q o m | none => measureJoint q o m) := by
  unfold measureJoint
  rw [List.filterMap_cons]
  cases jointBranch q o x <;> rfl

/-- one branch, any kind -/
theorem jointBranch_spec (n : Nat) (w : Rat) (t : Tab) (hn : t.n = n) (hv : t.Valid) (hr : t.StabReal) (q : Nat) (hq : q < n)
    (o : Bool) :
    (match jointBranch q o (w, t) with
      | some y => ((y.1 : ℚ) : ℂ) • tabRho n y.2 = ((w : ℚ) : ℂ) • (projZ n q o * tabRho n t * projZ n q o) ∧
          ((y.1 : ℚ) : ℂ) = ((w : ℚ) : ℂ) * (tabRho n t * projZ n q o).trace ∧
          y.2.n = n ∧ y.2.Valid ∧ y.2.StabReal ∧ (0 ≤ w → 0 ≤ y.1)
      | none => projZ n q o * tabRho n t * projZ n q o = 0 ∧ (tabRho n t * projZ n q o).trace = 0) := by
  have hgood : ∀ (o' : Bool), ((t.zMeasure q o').1.norm).n = n ∧ ((t.zMeasure q o').1.norm).Valid ∧
      ((t.zMeasure q o').1.norm).StabReal := by
    intro o'
    refine ⟨by rw [Tab.norm_n, Tab.zMeasure_n]; exact hn, Tab.norm_valid _ (Tab.zMeasure_valid t q o' (hn ▸ hq) hv),
      norm_stabReal _ (zMeasure_stabReal t hv hr q o')⟩
  unfold jointBranch
  cases hp : t.pivot q with
  | some p =>
    simp only
    obtain ⟨b1, _, b3⟩ := branch_random n t hn hv hr q hq o p hp
    refine ⟨?_, ?_, (hgood o).1, (hgood o).2.1, (hgood o).2.2, fun h => by positivity⟩
    · rw [b1, smul_smul]
      congr 1
      push_cast
      ring
    · rw [b3 o]; push_cast; ring
  | none =>
    simp only
    obtain ⟨b1, b2, b3, b4⟩ := branch_det n t hn hv hr q hq o hp
    by_cases ho : (t.zMeasure q o).2.1 = o
    · rw [if_pos ho]
      rw [ho] at b2 b3
      simp only
      refine ⟨by rw [b1, b2], by rw [b3]; simp, (hgood o).1, (hgood o).2.1, (hgood o).2.2, fun h => h⟩
    · rw [if_neg ho]
      simp only
      have e : (!(t.zMeasure q o).2.1) = o := by
        revert ho; cases (t.zMeasure q o).2.1 <;> cases o <;> simp
      have hl := fixed_other_left q hq _ _ b2
      rw [e] at hl b4
      exact ⟨by rw [hl]; simp, b4⟩

/-- **the proposed joint measurement projects the state of the mixture**, whatever the branches look like -/
theorem measureJoint_spec (n q : Nat) (hq : q < n) (o : Bool) : ∀ (m : Mixture), MixGood n m →
    mixRho n (measureJoint q o m) = projZ n q o * mixRho n m * projZ n q o ∧
    ((Mix.total (measureJoint q o m) : ℚ) : ℂ) = (mixRho n m * projZ n q o).trace ∧
    MixGood n (measureJoint q o m) ∧ (MixNonneg m → MixNonneg (measureJoint q o m))
  | [], _ => by
    refine ⟨by simp [measureJoint, mixRho_nil], by simp [measureJoint, mixRho_nil, Mix.total_nil], ?_, ?_⟩
    · intro x hx; simp [measureJoint] at hx
    · intro _ x hx; simp [measureJoint] at hx
  | (w, t) :: rest, hg => by
    obtain ⟨hn, hv, hr⟩ := hg.head
    obtain ⟨i1, i2, i3, i4⟩ := measureJoint_spec n q hq o rest hg.tail
    have hb := jointBranch_spec n w t hn hv hr q hq o
    rw [measureJoint_cons]
    have expand : projZ n q o * mixRho n ((w, t) :: rest) * projZ n q o
        = ((w : ℚ) : ℂ) • (projZ n q o * tabRho n t * projZ n q o) + projZ n q o * mixRho n rest * projZ n q o := by
      rw [mixRho_cons, Matrix.mul_add, Matrix.add_mul, Matrix.mul_smul, Matrix.smul_mul]
    have expandT : (mixRho n ((w, t) :: rest) * projZ n q o).trace
        = ((w : ℚ) : ℂ) * (tabRho n t * projZ n q o).trace + (mixRho n rest * projZ n q o).trace := by
      rw [mixRho_cons, Matrix.add_mul, Matrix.trace_add, Matrix.smul_mul, Matrix.trace_smul, smul_eq_mul]
    cases hj : jointBranch q o (w, t) with
    | some y =>
      rw [hj] at hb
      simp only at hb ⊢
      obtain ⟨h1, h2, h3, h4, h5, h6⟩ := hb
      obtain ⟨yw, yt⟩ := y
      refine ⟨?_, ?_, ?_, ?_⟩
      · rw [mixRho_cons, h1, i1, expand]
      · rw [Mix.total_cons, expandT, ← h2, ← i2]; push_cast; rfl
      · intro x hx
        rcases List.mem_cons.1 hx with e | hx
        · subst e; exact ⟨h3, h4, h5⟩
        · exact i3 x hx
      · intro hnn x hx
        rcases List.mem_cons.1 hx with e | hx
        · subst e; exact h6 (hnn (w, t) List.mem_cons_self)
        · exact i4 (fun z hz => hnn z (List.mem_cons_of_mem _ hz)) x hx
    | none =>
      rw [hj] at hb
      simp only at hb ⊢
      obtain ⟨h1, h2⟩ := hb
      refine ⟨?_, ?_, i3, fun hnn => i4 (fun z hz => hnn z (List.mem_cons_of_mem _ hz))⟩
      · rw [i1, expand, h1]; simp
      · rw [i2, expandT, h2]; simp

theorem total_nonneg (m : Mixture) (h : MixNonneg m) : 0 ≤ Mix.total m := by
  induction m with
  | nil => simp [Mix.total_nil]
  | cons x xs ih =>
    obtain ⟨w, t⟩ := x
    rw [Mix.total_cons]
    exact add_nonneg (h (w, t) List.mem_cons_self) (ih (fun z hz => h z (List.mem_cons_of_mem _ hz)))

theorem photonLoss_mixN' (n : Nat) (r : Rat) (m : Mixture) (h : MixGood n m) : MixGood n (Mix.photonLoss r m) := by
  intro x hx
  simp only [Mix.photonLoss, List.mem_map] at hx
  obtain ⟨⟨p, t⟩, hy, rfl⟩ := hx
  exact h (p, t) hy

/-- **proposed `apply_measurement` for a mixture**: the outcome rule of the density-matrix backend on the summed branch
    probabilities, every branch projected on that outcome, weights rescaled so that the total weight is kept -/
def measureJointNorm (q : Nat) (det : Bool) (m : Mixture) : Mixture × Bool :=
  let q0 := Mix.total (measureJoint q false m)
  let q1 := Mix.total (measureJoint q true m)
  let outcome : Bool := if det then !isclose0 q1 else isclose0 q0
  let norm : Rat := if 0 < q0 + q1 then (if outcome then q1 else q0) / (q0 + q1) else 1
  (Mix.photonLoss (1 - 1 / norm) (measureJoint q outcome m), outcome)

/-- **the repaired measurement agrees with the density-matrix backend on every mixture** (valid branches, non-negative weights;
    no agreement between the branches, no weight threshold): whenever `DensityMatrix.apply_measurement` returns a matrix, the
    outcome is the one `measureJointNorm` reports and the matrix is `Σ_k w_k ρ(T_k)` of the mixture it returns. -/
theorem joint_measurement_is_dm_measurement (n q : Nat) (hq : q < n) (det : Bool) (m : Mixture) (ρ p0 p1 : Mat)
    (hg : MixGood n m) (hnn : MixNonneg m) (hρn : ρ.n = 2 ^ n) (hρ : toC n ρ = mixRho n m)
    (hp : projectorsZ n q = .ok (p0, p1)) (ρ' : Mat) (o : Bool) (h : applyMeasurement ρ p0 p1 det = .ok (some ρ', o)) :
    o = (measureJointNorm q det m).2 ∧ toC n ρ' = mixRho n (measureJointNorm q det m).1 ∧ ρ'.n = 2 ^ n ∧
      MixGood n (measureJointNorm q det m).1 := by
  obtain ⟨e0, e1, n0, n1⟩ := toC_projectorsZ n q hq p0 p1 hp
  obtain ⟨a1, a2, a3, a4⟩ := measureJoint_spec n q hq false m hg
  obtain ⟨b1, b2, b3, b4⟩ := measureJoint_spec n q hq true m hg
  have t0 : (ρ.mul p0).trace.re = Mix.total (measureJoint q false m) :=
    trace_re_of n ρ p0 hρn _ (by rw [hρ, e0, a2])
  have t1 : (ρ.mul p1).trace.re = Mix.total (measureJoint q true m) :=
    trace_re_of n ρ p1 hρn _ (by rw [hρ, e1, b2])
  have x0n := total_nonneg _ (a4 hnn)
  have x1n := total_nonneg _ (b4 hnn)
  have pr0 : prOf ρ p0 = Mix.total (measureJoint q false m) := by
    unfold prOf; simp only; rw [t0, if_neg (not_lt.2 x0n)]
  have pr1 : prOf ρ p1 = Mix.total (measureJoint q true m) := by
    unfold prOf; simp only; rw [t1, if_neg (not_lt.2 x1n)]
  have hnn' : ρ.n = p0.n := by rw [hρn, n0]
  rw [applyMeasurement_eq ρ p0 p1 det hnn', pr0, pr1] at h
  unfold measureJointNorm
  simp only at h ⊢
  generalize Mix.total (measureJoint q false m) = q0 at *
  generalize Mix.total (measureJoint q true m) = q1 at *
  generalize hoc : (if det = true then !isclose0 q1 else isclose0 q0) = oc at h ⊢
  by_cases hz : (if 0 < q0 + q1 then (if oc = true then q1 else q0) / (q0 + q1) else 1) = 0
  · rw [if_pos hz] at h; injection h with h; injection h with h1 h2; cases h1
  · rw [if_neg hz] at h
    injection h with h
    injection h with h1 h2
    injection h1 with h1
    subst h2
    generalize (if 0 < q0 + q1 then (if oc = true then q1 else q0) / (q0 + q1) else 1) = norm at *
    obtain ⟨c1, _, c3, _⟩ := measureJoint_spec n q hq oc m hg
    have hpn : (if oc = true then p1 else p0).n = 2 ^ n := by cases oc <;> simp [n0, n1]
    have hpc : toC n (if oc = true then p1 else p0) = projZ n q oc := by cases oc <;> simp [e0, e1]
    have hsz : (Mat.smul (1 / norm) (Mat.conjBy (if oc = true then p1 else p0) ρ)).n = 2 ^ n := hpn
    refine ⟨rfl, ?_, by rw [← h1]; exact hpn, photonLoss_mixN' n _ _ c3⟩
    rw [← h1, toC_norm n _ hsz, toC_smul, toC_conjBy n _ _ hpn, hpc, hρ, mixRho_photonLoss, c1]
    unfold conjH
    rw [projZ_herm]
    congr 1
    push_cast
    ring

end MixDM
end Graphiq
