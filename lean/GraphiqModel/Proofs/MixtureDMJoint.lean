/-
  Proofs/MixtureDMJoint.lean — the repaired `MixedStabilizer.apply_measurement` (joint measurement, `Mix.measure` of
  Model/Noise.lean; the per-branch measurement of graphiq before the repair of finding F2 is `Mix.measureOld`).

  * `measureJoint_spec` : for **every** mixture of valid tableaux (no agreement between the branches needed), every n, the
    candidate list of outcome `o` satisfies `Σ (measureJoint q o m) = Π_o (Σ m) Π_o` and `weight[o] = tr((Σ m) Π_o)`;
  * `joint_measurement_is_dm_measurement` : whenever `DensityMatrix.apply_measurement` returns a matrix, it reports the outcome
    `Mix.measure` reports and its matrix is `Σ_k w_k ρ(T_k)` of the mixture `Mix.measure` returns — for all mixtures with
    non-negative weights, no weight threshold.
-/
import GraphiqModel.Proofs.MixtureDMPhysMeas
import GraphiqModel.Proofs.MixtureDMWeights
namespace Graphiq
namespace MixDM
open Matrix Hilbert Noise DM PRow

/-- one branch, any kind -/
theorem jointBranch_spec (n : Nat) (w : Rat) (t : Tab) (hn : t.n = n) (hv : t.Valid) (hr : t.StabReal) (q : Nat) (hq : q < n)
    (o : Bool) :
    (match Mix.jointBranch q o (w, t) with
      | some y => ((y.1 : ℚ) : ℂ) • tabRho n y.2 = ((w : ℚ) : ℂ) • (projZ n q o * tabRho n t * projZ n q o) ∧
          ((y.1 : ℚ) : ℂ) = ((w : ℚ) : ℂ) * (tabRho n t * projZ n q o).trace ∧
          y.2.n = n ∧ y.2.Valid ∧ y.2.StabReal ∧ (0 ≤ w → 0 ≤ y.1)
      | none => projZ n q o * tabRho n t * projZ n q o = 0 ∧ (tabRho n t * projZ n q o).trace = 0) := by
  have hgood : ∀ (o' : Bool), ((t.zMeasure q o').1.norm).n = n ∧ ((t.zMeasure q o').1.norm).Valid ∧
      ((t.zMeasure q o').1.norm).StabReal := by
    intro o'
    refine ⟨by rw [Tab.norm_n, Tab.zMeasure_n]; exact hn, Tab.norm_valid _ (Tab.zMeasure_valid t q o' (hn ▸ hq) hv),
      norm_stabReal _ (zMeasure_stabReal t hv hr q o')⟩
  unfold Mix.jointBranch
  cases hp : t.pivot q with
  | some p =>
    simp only
    obtain ⟨b1, _, b3⟩ := branch_random n t hn hv hr q hq o p hp
    refine ⟨?_, ?_, (hgood o).1, (hgood o).2.1, (hgood o).2.2, fun h => by positivity⟩
    · rw [b1, smul_smul]
      congr 1
      push_cast
      ring
    · rw [b3 o]; push_cast; ring
  | none =>
    simp only
    obtain ⟨b1, b2, b3, b4⟩ := branch_det n t hn hv hr q hq o hp
    by_cases ho : (t.zMeasure q o).2.1 = o
    · rw [if_pos ho]
      rw [ho] at b2 b3
      simp only
      refine ⟨by rw [b1, b2], by rw [b3]; simp, (hgood o).1, (hgood o).2.1, (hgood o).2.2, fun h => h⟩
    · rw [if_neg ho]
      simp only
      have e : (!(t.zMeasure q o).2.1) = o := by
        revert ho; cases (t.zMeasure q o).2.1 <;> cases o <;> simp
      have hl := fixed_other_left q hq _ _ b2
      rw [e] at hl b4
      exact ⟨by rw [hl]; simp, b4⟩

/-- **the proposed joint measurement projects the state of the mixture**, whatever the branches look like -/
theorem measureJoint_spec (n q : Nat) (hq : q < n) (o : Bool) : ∀ (m : Mixture), MixGood n m →
    mixRho n (Mix.measureJoint q o m) = projZ n q o * mixRho n m * projZ n q o ∧
    ((Mix.total (Mix.measureJoint q o m) : ℚ) : ℂ) = (mixRho n m * projZ n q o).trace ∧
    MixGood n (Mix.measureJoint q o m) ∧ (MixNonneg m → MixNonneg (Mix.measureJoint q o m))
  | [], _ => by
    refine ⟨by simp [Mix.measureJoint, mixRho_nil], by simp [Mix.measureJoint, mixRho_nil, Mix.total_nil], ?_, ?_⟩
    · intro x hx; simp [Mix.measureJoint] at hx
    · intro _ x hx; simp [Mix.measureJoint] at hx
  | (w, t) :: rest, hg => by
    obtain ⟨hn, hv, hr⟩ := hg.head
    obtain ⟨i1, i2, i3, i4⟩ := measureJoint_spec n q hq o rest hg.tail
    have hb := jointBranch_spec n w t hn hv hr q hq o
    rw [Mix.measureJoint_cons]
    have expand : projZ n q o * mixRho n ((w, t) :: rest) * projZ n q o
        = ((w : ℚ) : ℂ) • (projZ n q o * tabRho n t * projZ n q o) + projZ n q o * mixRho n rest * projZ n q o := by
      rw [mixRho_cons, Matrix.mul_add, Matrix.add_mul, Matrix.mul_smul, Matrix.smul_mul]
    have expandT : (mixRho n ((w, t) :: rest) * projZ n q o).trace
        = ((w : ℚ) : ℂ) * (tabRho n t * projZ n q o).trace + (mixRho n rest * projZ n q o).trace := by
      rw [mixRho_cons, Matrix.add_mul, Matrix.trace_add, Matrix.smul_mul, Matrix.trace_smul, smul_eq_mul]
    cases hj : Mix.jointBranch q o (w, t) with
    | some y =>
      rw [hj] at hb
      simp only at hb ⊢
      obtain ⟨h1, h2, h3, h4, h5, h6⟩ := hb
      obtain ⟨yw, yt⟩ := y
      refine ⟨?_, ?_, ?_, ?_⟩
      · rw [mixRho_cons, h1, i1, expand]
      · rw [Mix.total_cons, expandT, ← h2, ← i2]; push_cast; rfl
      · intro x hx
        rcases List.mem_cons.1 hx with e | hx
        · subst e; exact ⟨h3, h4, h5⟩
        · exact i3 x hx
      · intro hnn x hx
        rcases List.mem_cons.1 hx with e | hx
        · subst e; exact h6 (hnn (w, t) List.mem_cons_self)
        · exact i4 (fun z hz => hnn z (List.mem_cons_of_mem _ hz)) x hx
    | none =>
      rw [hj] at hb
      simp only at hb ⊢
      obtain ⟨h1, h2⟩ := hb
      refine ⟨?_, ?_, i3, fun hnn => i4 (fun z hz => hnn z (List.mem_cons_of_mem _ hz))⟩
      · rw [i1, expand, h1]; simp
      · rw [i2, expandT, h2]; simp

theorem measureJoint_fixed (n q : Nat) (hq : q < n) (o : Bool) (m : Mixture) (hg : MixGood n m) :
    Fixed n q o (Mix.measureJoint q o m) := by
  intro y hy
  unfold Mix.measureJoint at hy
  rw [List.mem_filterMap] at hy
  obtain ⟨⟨w, t⟩, hx, hj⟩ := hy
  obtain ⟨hn, hv, hr⟩ := hg (w, t) hx
  unfold Mix.jointBranch at hj
  cases hp : t.pivot q with
  | some p =>
    simp only [hp] at hj
    injection hj with hj; subst hj
    obtain ⟨b1, _, _⟩ := branch_random n t hn hv hr q hq o p hp
    show projZ n q o * tabRho n (t.zMeasure q o).1.norm * projZ n q o = tabRho n (t.zMeasure q o).1.norm
    rw [b1, Matrix.mul_smul, Matrix.smul_mul]
    congr 1
    calc projZ n q o * (projZ n q o * tabRho n t * projZ n q o) * projZ n q o
        = (projZ n q o * projZ n q o) * tabRho n t * (projZ n q o * projZ n q o) := by simp only [Matrix.mul_assoc]
      _ = projZ n q o * tabRho n t * projZ n q o := by rw [projZ_idem]
  | none =>
    simp only [hp] at hj
    split at hj
    · rename_i ho
      injection hj with hj; subst hj
      obtain ⟨b1, b2, _, _⟩ := branch_det n t hn hv hr q hq o hp
      rw [ho] at b2
      show projZ n q o * tabRho n (t.zMeasure q o).1.norm * projZ n q o = tabRho n (t.zMeasure q o).1.norm
      rw [b1, b2]
    · cases hj

theorem photonLoss_mixN' (n : Nat) (r : Rat) (m : Mixture) (h : MixGood n m) : MixGood n (Mix.photonLoss r m) := by
  intro x hx
  simp only [Mix.photonLoss, List.mem_map] at hx
  obtain ⟨⟨p, t⟩, hy, rfl⟩ := hx
  exact h (p, t) hy

theorem mixRho_map_scale (n : Nat) (c d : Rat) : ∀ (m : Mixture),
    mixRho n (m.map fun x => (x.1 * c / d, x.2)) = (((c / d : ℚ)) : ℂ) • mixRho n m
  | [] => by simp [mixRho_nil]
  | (w, t) :: rest => by
    simp only [List.map_cons]
    rw [mixRho_cons, mixRho_cons, mixRho_map_scale n c d rest, smul_add, smul_smul]
    congr 2
    push_cast
    ring

theorem mixRho_map_zero (n : Nat) (f : Tab → Tab) : ∀ (m : Mixture), mixRho n (m.map fun x => (0 * x.1, f x.2)) = 0
  | [] => by simp [mixRho_nil]
  | (w, t) :: rest => by
    simp only [List.map_cons]
    rw [mixRho_cons, mixRho_map_zero n f rest]
    simp

/-- every weight is `0` -/
def ZeroW (m : Mixture) : Prop := ∀ x ∈ m, x.1 = 0

theorem mixRho_zeroW (n : Nat) : ∀ (m : Mixture), ZeroW m → mixRho n m = 0
  | [], _ => mixRho_nil n
  | (w, t) :: rest, h => by
    rw [mixRho_cons, mixRho_zeroW n rest (fun x hx => h x (List.mem_cons_of_mem _ hx))]
    have : w = 0 := h (w, t) List.mem_cons_self
    rw [this]; simp

theorem zeroW_of_total (m : Mixture) (hnn : MixNonneg m) (ht : Mix.total m = 0) : ZeroW m := by
  induction m with
  | nil => intro x hx; cases hx
  | cons y ys ih =>
    obtain ⟨w, t⟩ := y
    rw [Mix.total_cons] at ht
    have hw : 0 ≤ w := hnn (w, t) List.mem_cons_self
    have hr := total_nonneg ys (fun z hz => hnn z (List.mem_cons_of_mem _ hz))
    have hw0 : w = 0 := by linarith
    have hr0 : Mix.total ys = 0 := by linarith
    intro x hx
    rcases List.mem_cons.1 hx with e | hx
    · rw [e]; exact hw0
    · exact ih (fun z hz => hnn z (List.mem_cons_of_mem _ hz)) hr0 x hx

theorem zeroW_map_zero (f : Tab → Tab) (m : Mixture) : ZeroW (m.map fun x => (0 * x.1, f x.2)) := by
  intro x hx
  simp only [List.mem_map] at hx
  obtain ⟨y, _, rfl⟩ := hx
  simp

theorem zeroW_mapTab (f : Tab → Tab) (m : Mixture) (h : ZeroW m) : ZeroW (Mix.mapTab f m) := by
  intro x hx
  simp only [Mix.mapTab, List.mem_map] at hx
  obtain ⟨⟨p, t⟩, hy, rfl⟩ := hx
  exact h (p, t) hy

/-- the repaired measurement keeps "valid tableaux with real stabilizer rows" -/
theorem measure_good_new (n q : Nat) (hq : q < n) (det : Bool) (m : Mixture) (hg : MixGood n m) :
    MixGood n (Mix.measure q det m).1 := by
  intro x hx
  obtain ⟨y, hy, o, e⟩ := mem_measure q det m x hx
  obtain ⟨hn, hv, hr⟩ := hg y hy
  rw [e]
  exact ⟨by rw [Tab.norm_n, Tab.zMeasure_n]; exact hn, Tab.norm_valid _ (Tab.zMeasure_valid y.2 q o (hn ▸ hq) hv),
    norm_stabReal _ (zMeasure_stabReal y.2 hv hr q o)⟩

/-- the outcome the repaired measurement reports (`[outcome] * len`) -/
def measOutcome (q : Nat) (det : Bool) (m : Mixture) : Bool :=
  if det then !isclose0 (Mix.total (Mix.measureJoint q true m)) else isclose0 (Mix.total (Mix.measureJoint q false m))

theorem measure_outcomes (q : Nat) (det : Bool) (m : Mixture) :
    (Mix.measure q det m).2 = List.replicate (Mix.measure q det m).1.length (measOutcome q det m) := rfl

/-- **the repaired `apply_measurement` agrees with the density-matrix backend on every mixture** (valid branches, non-negative
    weights; no agreement between the branches, no weight threshold): whenever `DensityMatrix.apply_measurement` returns a
    matrix, the outcome is the one `Mix.measure` reports and the matrix is `Σ_k w_k ρ(T_k)` of the mixture it returns; that
    mixture is either made of branches fixed by `Π_o`, or has all weights `0` (the `0.0 · p_i` branch of the code). -/
theorem joint_measurement_is_dm_measurement (n q : Nat) (hq : q < n) (det : Bool) (m : Mixture) (ρ p0 p1 : Mat)
    (hg : MixGood n m) (hnn : MixNonneg m) (hρn : ρ.n = 2 ^ n) (hρ : toC n ρ = mixRho n m)
    (hp : projectorsZ n q = .ok (p0, p1)) (ρ' : Mat) (o : Bool) (h : applyMeasurement ρ p0 p1 det = .ok (some ρ', o)) :
    o = measOutcome q det m ∧ toC n ρ' = mixRho n (Mix.measure q det m).1 ∧ ρ'.n = 2 ^ n ∧
      (Fixed n q o (Mix.measure q det m).1 ∨ ZeroW (Mix.measure q det m).1) := by
  obtain ⟨e0, e1, n0, n1⟩ := toC_projectorsZ n q hq p0 p1 hp
  obtain ⟨a1, a2, a3, a4⟩ := measureJoint_spec n q hq false m hg
  obtain ⟨b1, b2, b3, b4⟩ := measureJoint_spec n q hq true m hg
  have t0 : (ρ.mul p0).trace.re = Mix.total (Mix.measureJoint q false m) :=
    trace_re_of n ρ p0 hρn _ (by rw [hρ, e0, a2])
  have t1 : (ρ.mul p1).trace.re = Mix.total (Mix.measureJoint q true m) :=
    trace_re_of n ρ p1 hρn _ (by rw [hρ, e1, b2])
  have x0n := total_nonneg _ (a4 hnn)
  have x1n := total_nonneg _ (b4 hnn)
  have pr0 : prOf ρ p0 = Mix.total (Mix.measureJoint q false m) := by
    unfold prOf; simp only; rw [t0, if_neg (not_lt.2 x0n)]
  have pr1 : prOf ρ p1 = Mix.total (Mix.measureJoint q true m) := by
    unfold prOf; simp only; rw [t1, if_neg (not_lt.2 x1n)]
  have hnn' : ρ.n = p0.n := by rw [hρn, n0]
  have hpair := Mix.total_measureJoint_pair q m
  rw [applyMeasurement_eq ρ p0 p1 det hnn', pr0, pr1] at h
  have hfix : ∀ oc, Fixed n q oc (Mix.measureJoint q oc m) := fun oc => measureJoint_fixed n q hq oc m hg
  unfold measOutcome Mix.measure
  simp only at h ⊢
  generalize Mix.total (Mix.measureJoint q false m) = q0 at *
  generalize Mix.total (Mix.measureJoint q true m) = q1 at *
  generalize hoc : (if det = true then !isclose0 q1 else isclose0 q0) = oc at h ⊢
  by_cases hz : (if 0 < q0 + q1 then (if oc = true then q1 else q0) / (q0 + q1) else 1) = 0
  · rw [if_pos hz] at h; injection h with h; injection h with h1 h2; cases h1
  · rw [if_neg hz] at h
    injection h with h
    injection h with h1 h2
    injection h1 with h1
    subst h2
    obtain ⟨c1, _, _, _⟩ := measureJoint_spec n q hq oc m hg
    have hpn : (if oc = true then p1 else p0).n = 2 ^ n := by cases oc <;> simp [n0, n1]
    have hpc : toC n (if oc = true then p1 else p0) = projZ n q oc := by cases oc <;> simp [e0, e1]
    have hwo0 : 0 ≤ (if oc = true then q1 else q0) := by cases oc <;> simp [x0n, x1n]
    have hdm : toC n ρ' = (((1 / (if 0 < q0 + q1 then (if oc = true then q1 else q0) / (q0 + q1) else 1) : ℚ)) : ℂ) •
        (projZ n q oc * mixRho n m * projZ n q oc) := by
      have hsz : (Mat.smul (1 / (if 0 < q0 + q1 then (if oc = true then q1 else q0) / (q0 + q1) else 1))
          (Mat.conjBy (if oc = true then p1 else p0) ρ)).n = 2 ^ n := hpn
      rw [← h1, toC_norm n _ hsz, toC_smul, toC_conjBy n _ _ hpn, hpc, hρ]
      unfold conjH
      rw [projZ_herm]
    refine ⟨rfl, ?_, by rw [← h1]; exact hpn, ?_⟩
    · by_cases hw : 0 < (if oc = true then q1 else q0)
      · have htot : 0 < q0 + q1 := by cases oc <;> simp at hw <;> linarith
        rw [if_pos hw, hdm, if_pos htot, mixRho_map_scale, c1]
        congr 1
        have hwne : (if oc = true then q1 else q0) ≠ 0 := ne_of_gt hw
        have htne : q0 + q1 ≠ 0 := ne_of_gt htot
        push_cast
        field_simp
      · have hw0 : (if oc = true then q1 else q0) = 0 := le_antisymm (not_lt.1 hw) hwo0
        have htot : ¬ 0 < q0 + q1 := by
          intro hpos
          rw [if_pos hpos, hw0, zero_div] at hz
          exact hz rfl
        have hT : Mix.total m = 0 := by rw [← hpair]; linarith
        rw [if_neg hw, hdm, mixRho_map_zero n (fun t => (t.zMeasure q oc).1.norm) m, mixRho_zeroW n m (zeroW_of_total m hnn hT)]
        simp
    · by_cases hw : 0 < (if oc = true then q1 else q0)
      · left
        rw [if_pos hw]
        intro x hx
        simp only [List.mem_map] at hx
        obtain ⟨z, hz', rfl⟩ := hx
        exact hfix oc z hz'
      · right
        rw [if_neg hw]
        exact zeroW_map_zero (fun t => (t.zMeasure q oc).1.norm) m

end MixDM
end Graphiq
