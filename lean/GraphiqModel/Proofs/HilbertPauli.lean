/-
  Proofs/HilbertPauli.lean — the matrix of a signed Pauli row, for every number of qubits, and the bridge
  theorems between the model's row algebra (`PRow.mul` = graphiq's `row_sum` with the `g_function` phase
  bookkeeping, `PRow.sp` = the symplectic form) and matrix algebra over ℂ:

  * `pauliMat n p` is the `2^n × 2^n` matrix of `i^ip (-1)^r ⊗_j σ(x_j, z_j)` (σ(1,1) = Y = [[0,-i],[i,0]]),
    indexed by bit strings; `σ(x,z)|b⟩ = i^(x z) (-1)^(z b) |b ⊕ x⟩`;
  * `pauliMat_mul` : `pauliMat (PRow.mul n a b) = pauliMat a * pauliMat b` (the homomorphism);
  * `pauliMat_conjTranspose`, Hermitian / unitary / square ±1;
  * `pauliMat_comm_iff`, `pauliMat_anticomm_iff` : `sp` is the commutation bit of the matrices.
-/
import GraphiqModel.Proofs.HilbertBasic
namespace Graphiq
namespace Hilbert
open Matrix PRow

/-- exponent of `i` in the entry of `σ(x,z)` in column `b`: `σ(x,z)|b⟩ = i^(x z + 2 z b) |b ⊕ x⟩` -/
def sFun (x z b : Bool) : Int := Bool.toInt' (x && z) + 2 * Bool.toInt' (z && b)

/-- exponent of `i` of the (only) non-zero entry of column `b` of the matrix of row `p` -/
def pexp (n : Nat) (p : PRow) (b : Bits n) : Int :=
  p.ph + sumTo n fun j => sFun (p.x j) (p.z j) (bx b j)

/-- the matrix `i^ip (-1)^r ⊗_j σ(x_j, z_j)` on `n` qubits, in the computational basis -/
noncomputable def pauliMat (n : Nat) (p : PRow) : Matrix (Bits n) (Bits n) ℂ := mono (flip p.x) (pexp n p)

theorem pauliMat_apply (n : Nat) (p : PRow) (a b : Bits n) :
    pauliMat n p a b = if a = flip p.x b then iPow (pexp n p b) else 0 := rfl

/-- rows that agree on the first `n` sites and in both phase bits have the same matrix -/
theorem pauliMat_congr (n : Nat) (a b : PRow) (h : EqOn n a b) : pauliMat n a = pauliMat n b := by
  unfold pauliMat
  apply mono_congr
  · exact flip_congr _ _ (fun j hj => (h.1 j hj).1)
  · intro c
    unfold pexp
    rw [h.ph, sumTo_congr n _ (fun j => sFun (b.x j) (b.z j) (bx c j))
      (fun j hj => by rw [(h.1 j hj).1, (h.1 j hj).2])]

/-! ### the homomorphism: `row_sum` / `g_function` is matrix multiplication -/

/-- per-site identity behind the homomorphism: the `g_function` exponent is exactly the phase picked up by
    `σ(x1,z1) σ(x2,z2) = i^g σ(x1⊕x2, z1⊕z2)` in every column `b` -/
theorem sFun_mul (x1 z1 x2 z2 b : Bool) :
    (gFun x1 z1 x2 z2 + sFun (xor x1 x2) (xor z1 z2) b) % 4 = (sFun x1 z1 (xor b x2) + sFun x2 z2 b) % 4 := by
  cases x1 <;> cases z1 <;> cases x2 <;> cases z2 <;> cases b <;> decide

theorem pexp_mul (n : Nat) (a b : PRow) (c : Bits n) :
    pexp n (mul n a b) c % 4 = (pexp n a (flip b.x c) + pexp n b c) % 4 := by
  unfold pexp
  rw [mul_ph]
  have key : (gSum n a b + sumTo n fun j => sFun ((mul n a b).x j) ((mul n a b).z j) (bx c j)) % 4
      = ((sumTo n fun j => sFun (a.x j) (a.z j) (bx (flip b.x c) j))
          + sumTo n fun j => sFun (b.x j) (b.z j) (bx c j)) % 4 := by
    unfold gSum
    rw [← sumTo_add, ← sumTo_add]
    apply sumTo_mod4_congr
    intro j hj
    rw [bx_flip _ _ _ hj]
    exact sFun_mul _ _ _ _ _
  omega

/-- **Homomorphism.**  The matrix of the model's signed row product is the product of the matrices:
    `row_sum` with the `g_function` phase bookkeeping (mod 4, decoded into `r`, `ip`) is matrix multiplication,
    for every number of qubits. -/
theorem pauliMat_mul (n : Nat) (a b : PRow) : pauliMat n (mul n a b) = pauliMat n a * pauliMat n b := by
  unfold pauliMat
  rw [mono_mul_mono]
  apply mono_congr
  · funext c; exact (flip_flip a.x b.x c).symm
  · intro c; exact pexp_mul n a b c

/-! ### identity, scalars, signs -/

theorem pexp_one (n : Nat) (c : Bits n) : pexp n PRow.one c = 0 := by
  unfold pexp
  rw [one_ph, sumTo_congr n _ (fun _ => 0) (fun j _ => by simp [PRow.one, sFun, Bool.toInt']), sumTo_zero]
  rfl

theorem pauliMat_one (n : Nat) : pauliMat n PRow.one = 1 := by
  unfold pauliMat
  rw [← mono_id_zero]
  apply mono_congr
  · funext c; exact flip_false c
  · intro c; rw [pexp_one]

/-- the phase-free part of a row -/
def bare (p : PRow) : PRow := { p with r := false, ip := false }

theorem pexp_bare (n : Nat) (p : PRow) (c : Bits n) : pexp n p c = p.ph + pexp n (bare p) c := by
  unfold pexp bare PRow.ph
  simp [Bool.toInt']

/-- the phase bits are the scalar `i^(2 r + ip)` -/
theorem pauliMat_phase (n : Nat) (p : PRow) : pauliMat n p = iPow p.ph • pauliMat n (bare p) := by
  ext a c
  simp only [Matrix.smul_apply, pauliMat_apply, smul_eq_mul]
  show (if a = flip p.x c then _ else _) = iPow p.ph * (if a = flip p.x c then _ else _)
  split
  · rw [pexp_bare, iPow_add]
  · simp

/-- flipping the sign bit negates the matrix -/
theorem pauliMat_neg (n : Nat) (p : PRow) : pauliMat n { p with r := !p.r } = -pauliMat n p := by
  rw [pauliMat_phase n { p with r := !p.r }, pauliMat_phase n p]
  have hb : bare { p with r := !p.r } = bare p := rfl
  rw [hb]
  have : iPow (PRow.ph { p with r := !p.r }) = -iPow p.ph := by
    have e : PRow.ph { p with r := !p.r } % 4 = (p.ph + 2) % 4 := by
      have h : ∀ r ip : Bool, (2 * Bool.toInt' (!r) + Bool.toInt' ip) % 4
          = (2 * Bool.toInt' r + Bool.toInt' ip + 2) % 4 := by decide
      exact h p.r p.ip
    rw [iPow_congr e, iPow_add, iPow_two]; ring
  rw [this, neg_smul]

/-- conditional sign flip -/
theorem pauliMat_xor_r (n : Nat) (p : PRow) (s : Bool) :
    pauliMat n { p with r := xor p.r s } = (if s then (-1 : ℂ) else 1) • pauliMat n p := by
  cases s
  · simp
  · have : ({ p with r := xor p.r true } : PRow) = { p with r := !p.r } := by simp
    rw [this, pauliMat_neg]; simp

/-! ### adjoint, Hermitian, unitary, squares -/

theorem sFun_adj (x z b : Bool) : (-(sFun x z (xor b x))) % 4 = sFun x z b % 4 := by
  cases x <;> cases z <;> cases b <;> decide

/-- the adjoint row: `(i^ip (-1)^r P)† = (-i)^ip (-1)^r P` -/
def adj (p : PRow) : PRow := { p with r := xor p.r p.ip }

theorem adj_ph (p : PRow) : (adj p).ph % 4 = (-p.ph) % 4 := by
  have h : ∀ r ip : Bool, (2 * Bool.toInt' (xor r ip) + Bool.toInt' ip) % 4
      = (-(2 * Bool.toInt' r + Bool.toInt' ip)) % 4 := by decide
  exact h p.r p.ip

theorem pauliMat_conjTranspose (n : Nat) (p : PRow) : (pauliMat n p)ᴴ = pauliMat n (adj p) := by
  unfold pauliMat
  rw [mono_conjTranspose _ (flip_involutive p.x)]
  apply mono_congr
  · rfl
  · intro c
    unfold pexp
    have key : (-(sumTo n fun j => sFun (p.x j) (p.z j) (bx (flip p.x c) j))) % 4
        = (sumTo n fun j => sFun ((adj p).x j) ((adj p).z j) (bx c j)) % 4 := by
      rw [← sumTo_neg]
      apply sumTo_mod4_congr
      intro j hj
      rw [bx_flip _ _ _ hj]
      exact sFun_adj _ _ _
    have := adj_ph p
    omega

/-- a row without imaginary phase is a Hermitian matrix -/
theorem pauliMat_hermitian (n : Nat) (p : PRow) (hp : p.ip = false) : (pauliMat n p)ᴴ = pauliMat n p := by
  rw [pauliMat_conjTranspose]
  have : adj p = p := by
    cases p with
    | mk x z r ip => simp only at hp; subst hp; simp [adj]
  rw [this]

/-- every Pauli matrix is unitary -/
theorem pauliMat_mul_conjTranspose (n : Nat) (p : PRow) : pauliMat n p * (pauliMat n p)ᴴ = 1 :=
  mono_mul_conjTranspose _ (flip_involutive p.x) _

theorem pauliMat_conjTranspose_mul (n : Nat) (p : PRow) : (pauliMat n p)ᴴ * pauliMat n p = 1 :=
  mono_conjTranspose_mul _ (flip_involutive p.x) _

/-- a real row squares to the identity matrix -/
theorem pauliMat_sq (n : Nat) (p : PRow) (hp : p.ip = false) : pauliMat n p * pauliMat n p = 1 := by
  rw [← pauliMat_mul, pauliMat_congr n _ _ (mul_self n p hp), pauliMat_one]

/-- a row with imaginary phase squares to minus the identity -/
theorem pauliMat_sq_imag (n : Nat) (p : PRow) (hp : p.ip = true) : pauliMat n p * pauliMat n p = -1 := by
  rw [← pauliMat_mul]
  have h : EqOn n (mul n p p) { PRow.one with r := !PRow.one.r } := by
    apply eqOn_of
    · intro j _; simp [PRow.one]
    · rw [mul_ph, gSum_self]
      unfold PRow.ph; rw [hp]
      cases p.r <;> decide
  rw [pauliMat_congr n _ _ h, pauliMat_neg, pauliMat_one]

/-! ### the symplectic form is the commutation bit of the matrices -/

/-- exchanging the factors of a row product changes the phase word by `2·sp` -/
theorem mul_ph_swap (n : Nat) (a b : PRow) :
    (mul n a b).ph = ((mul n b a).ph + 2 * Bool.toInt' (sp n a b)) % 4 := by
  rw [mul_ph, mul_ph]
  have key : (gSum n a b - gSum n b a) % 4 = (2 * Bool.toInt' (sp n a b)) % 4 := by
    unfold gSum
    rw [← sumTo_sub]
    have h1 := sumTo_mod4_congr n
      (fun j => gFun (a.x j) (a.z j) (b.x j) (b.z j) - gFun (b.x j) (b.z j) (a.x j) (a.z j))
      (fun j => 2 * Bool.toInt' (xor (a.x j && b.z j) (a.z j && b.x j)))
      (fun j _ => gFun_comm _ _ _ _)
    rw [h1, sumTo_two_mul_parity]
    rfl
  omega

theorem mul_swap (n : Nat) (a b : PRow) :
    EqOn n (mul n a b) { (mul n b a) with r := xor (mul n b a).r (sp n a b) } := by
  apply eqOn_of
  · intro j _
    show xor (a.x j) (b.x j) = xor (b.x j) (a.x j) ∧ xor (a.z j) (b.z j) = xor (b.z j) (a.z j)
    cases a.x j <;> cases b.x j <;> cases a.z j <;> cases b.z j <;> exact ⟨rfl, rfl⟩
  · rw [mul_ph_swap]
    have h : ∀ r ip s : Bool, (2 * Bool.toInt' r + Bool.toInt' ip + 2 * Bool.toInt' s) % 4
        = 2 * Bool.toInt' (xor r s) + Bool.toInt' ip := by decide
    exact h (mul n b a).r (mul n b a).ip (sp n a b)

/-- `A B = (-1)^(sp a b) B A` -/
theorem pauliMat_swap (n : Nat) (a b : PRow) :
    pauliMat n a * pauliMat n b = (if sp n a b then (-1 : ℂ) else 1) • (pauliMat n b * pauliMat n a) := by
  rw [← pauliMat_mul, ← pauliMat_mul, pauliMat_congr n _ _ (mul_swap n a b), pauliMat_xor_r]

theorem pauliMat_comm (n : Nat) (a b : PRow) (h : sp n a b = false) :
    pauliMat n a * pauliMat n b = pauliMat n b * pauliMat n a := by
  rw [pauliMat_swap, h]; simp

theorem pauliMat_anticomm (n : Nat) (a b : PRow) (h : sp n a b = true) :
    pauliMat n a * pauliMat n b = -(pauliMat n b * pauliMat n a) := by
  rw [pauliMat_swap, h]; simp

theorem pauliMat_mul_ne_zero (n : Nat) (a b : PRow) : pauliMat n a * pauliMat n b ≠ 0 := by
  intro h
  have h1 : (pauliMat n a * pauliMat n b) * ((pauliMat n b)ᴴ * (pauliMat n a)ᴴ) = 1 := by
    rw [Matrix.mul_assoc, ← Matrix.mul_assoc (pauliMat n b), pauliMat_mul_conjTranspose, Matrix.one_mul,
      pauliMat_mul_conjTranspose]
  rw [h, Matrix.zero_mul] at h1
  have : (0 : Matrix (Bits n) (Bits n) ℂ) (fun _ => false) (fun _ => false) = 1 := by
    rw [h1]; simp
  simp at this

/-- the two rows anticommute in the model iff their matrices anticommute -/
theorem pauliMat_anticomm_iff (n : Nat) (a b : PRow) :
    sp n a b = true ↔ pauliMat n a * pauliMat n b = -(pauliMat n b * pauliMat n a) := by
  constructor
  · exact pauliMat_anticomm n a b
  · intro h
    cases hs : sp n a b
    · exfalso
      have hc := pauliMat_comm n a b hs
      rw [hc] at h
      have h2 : pauliMat n b * pauliMat n a + pauliMat n b * pauliMat n a = 0 := by
        nth_rewrite 1 [h]; simp
      have h3 : (2 : ℂ) • (pauliMat n b * pauliMat n a) = 0 := by rw [two_smul]; exact h2
      have h4 := (smul_eq_zero.mp h3).resolve_left (by norm_num)
      exact pauliMat_mul_ne_zero n b a h4
    · rfl

theorem pauliMat_comm_iff (n : Nat) (a b : PRow) :
    sp n a b = false ↔ pauliMat n a * pauliMat n b = pauliMat n b * pauliMat n a := by
  constructor
  · exact pauliMat_comm n a b
  · intro h
    cases hs : sp n a b
    · rfl
    · exfalso
      have hc := pauliMat_anticomm n a b hs
      rw [h] at hc
      have h2 : pauliMat n b * pauliMat n a + pauliMat n b * pauliMat n a = 0 := by
        nth_rewrite 1 [hc]; simp
      have h3 : (2 : ℂ) • (pauliMat n b * pauliMat n a) = 0 := by rw [two_smul]; exact h2
      have h4 := (smul_eq_zero.mp h3).resolve_left (by norm_num)
      exact pauliMat_mul_ne_zero n b a h4

/-! ### textbook entries of the one-site generators -/

/-- the unit vector `e_q` as a bit mask -/
def unitMask (q : Nat) : Nat → Bool := fun j => decide (j = q)

/-- `Z_q` (with sign `s`) is diagonal with entries `(-1)^(s + b_q)` -/
theorem pauliMat_Zq_apply (n q : Nat) (s : Bool) (hq : q < n) (a b : Bits n) :
    pauliMat n (Zq q s) a b = if a = b then (if xor s (bx b q) then (-1 : ℂ) else 1) else 0 := by
  rw [pauliMat_apply]
  have hf : flip (Zq q s).x b = b := flip_false b
  have he : pexp n (Zq q s) b = 2 * Bool.toInt' s + 2 * Bool.toInt' (bx b q) := by
    unfold pexp
    rw [sumTo_single n q _ hq (by intro j hj; simp [Zq, sFun, hj, Bool.toInt'])]
    cases s <;> simp [Zq, sFun, PRow.ph, Bool.toInt']
  rw [hf, he]
  split
  · cases s <;> cases bx b q <;> simp [Bool.toInt', iPow_zero, iPow_two, iPow_four]
  · rfl

/-- `X_q` (with sign `s`) maps `|b⟩` to `(-1)^s |b ⊕ e_q⟩` -/
theorem pauliMat_Xq_apply (n q : Nat) (s : Bool) (a b : Bits n) :
    pauliMat n (Xq q s) a b = if a = flip (unitMask q) b then (if s then (-1 : ℂ) else 1) else 0 := by
  rw [pauliMat_apply]
  have he : pexp n (Xq q s) b = 2 * Bool.toInt' s := by
    unfold pexp
    rw [sumTo_congr n _ (fun _ => 0) (fun j _ => by simp [Xq, sFun, Bool.toInt']), sumTo_zero]
    cases s <;> simp [Xq, PRow.ph, Bool.toInt']
  rw [he]
  show (if a = flip (unitMask q) b then _ else _) = _
  split
  · cases s <;> simp [Bool.toInt', iPow_zero, iPow_two]
  · rfl

/-- the Hermitian `Y_q` row -/
def Yrow (q : Nat) (sign : Bool := false) : PRow := ⟨fun j => decide (j = q), fun j => decide (j = q), sign, false⟩

/-- `Y_q = [[0,-i],[i,0]]` at site `q`: `|b⟩ ↦ (-1)^s · i · (-1)^(b_q) |b ⊕ e_q⟩` -/
theorem pauliMat_Yq_apply (n q : Nat) (s : Bool) (hq : q < n) (a b : Bits n) :
    pauliMat n (Yrow q s) a b
      = if a = flip (unitMask q) b then (if xor s (bx b q) then -Complex.I else Complex.I) else 0 := by
  rw [pauliMat_apply]
  have he : pexp n (Yrow q s) b = 2 * Bool.toInt' s + (1 + 2 * Bool.toInt' (bx b q)) := by
    unfold pexp
    rw [sumTo_single n q _ hq (by intro j hj; simp [Yrow, sFun, hj, Bool.toInt'])]
    cases s <;> simp [Yrow, sFun, PRow.ph, Bool.toInt']
  rw [he, iPow_add, iPow_add, iPow_two_mul_toInt', iPow_two_mul_toInt', iPow_one]
  show (if a = flip (unitMask q) b then _ else _) = _
  split
  · cases s <;> cases bx b q <;> simp
  · rfl

end Hilbert
end Graphiq
