/-
  Proofs/LCSeqStep.lean — the invariant behind `lc_graph_operations` (the constructive direction of Van den Nest,
  Dehaene, De Moor, Phys. Rev. A 69, 022316, Section IV).

  The Python keeps only the matrix `R = C θ + D` and rewrites it with `_apply_f`.  The invariant ties that matrix to a pair
  (current graph θ, residual local Clifford Q):
      * Q has invertible blocks and solves the linear system for (θ, target),
      * R = C θ + D                                                     (`rOf`).
  One `_apply_f(R, v)` at a vertex whose block has `c_v = 1` is exactly: complement θ at v, replace Q by `Q · Q_v(θ)`
  (`stepQ`) — `applyF_tracks`.  When `R = I` the residual `Q` is the identity on the graph: θ = target (`identity_R_means_done`).
-/
import GraphiqModel.Proofs.LC
namespace Graphiq.LC
open Graphiq

/-! ### the R matrix of a pair (graph, Q) -/

/-- `R = C θ + D` entrywise (θ has an empty diagonal): what `_R_matrix(θ, Q)` builds -/
def rOf (θ : Adj) (q : Nat → Bool) : Adj := fun i j => if i = j then q (4 * i + 3) else q (4 * i + 2) && θ i j

/-- the tabulated matrix `r` is `R(θ, Q)` on `n` vertices -/
structure RRel (n : Nat) (r : BMat) (θ : Adj) (q : Nat → Bool) : Prop where
  hr : r.r = n
  hc : r.c = n
  hf : ∀ i j, i < n → j < n → r.f i j = rOf θ q i j

theorem applyF_r (r : BMat) (v : Nat) : (applyF r v).r = r.r := rfl
theorem applyF_c (r : BMat) (v : Nat) : (applyF r v).c = r.r := rfl

/-- `_apply_f(R, v)` entrywise: `R_ij + R_iv (R_vj + R_vv [j = v])` -/
theorem applyF_entry (n : Nat) (r : BMat) (v i j : Nat) (hr : r.r = n) (hv : v < n) (hi : i < n) (hj : j < n) :
    (applyF r v).f i j = xor (r.f i j) (r.f i v && xor (r.f v j) (r.f v v && decide (j = v))) := by
  unfold applyF
  rw [BMat.norm_agree _ i j (by show i < r.r; omega) (by show j < r.r; omega)]
  show lcFormula r.r r.f v i j = _
  rw [hr]
  exact lcFormula_eq n r.f v i j hv hj

/-! ### the residual Clifford after one complementation -/

/-- `Q · Q_v(θ)`: the block `[[1,0],[1,1]]` is multiplied in at `v`, `[[1,1],[0,1]]` at the neighbours of `v` -/
def stepQ (q : Nat → Bool) (θ : Adj) (v : Nat) : Nat → Bool := qComp q (lcQ θ v)

theorem stepQ_2 (q : Nat → Bool) (θ : Adj) (v m : Nat) :
    stepQ q θ v (4 * m + 2) = xor (q (4 * m + 2)) (q (4 * m + 3) && decide (m = v)) := by
  unfold stepQ
  rw [qComp_2, lcQ_0, lcQ_2]; simp

theorem stepQ_3 (q : Nat → Bool) (θ : Adj) (v m : Nat) :
    stepQ q θ v (4 * m + 3) = xor (q (4 * m + 2) && θ v m) (q (4 * m + 3)) := by
  unfold stepQ
  rw [qComp_3, lcQ_1, lcQ_3]; simp

/-- **one `_apply_f` is one local complementation**: if `R = R(θ, Q)` and the block of `v` has `c_v = 1`, then
    `_apply_f(R, v) = R(θ * v, Q · Q_v(θ))` -/
theorem applyF_tracks (n : Nat) (r : BMat) (θ : Adj) (q : Nat → Bool) (v : Nat) (hv : v < n) (hθ : Simple n θ)
    (hR : RRel n r θ q) (hcv : q (4 * v + 2) = true) : RRel n (applyF r v) (localComp θ v) (stepQ q θ v) := by
  refine ⟨by rw [applyF_r]; exact hR.hr, by rw [applyF_c]; exact hR.hr, fun i j hi hj => ?_⟩
  rw [applyF_entry n r v i j hR.hr hv hi hj, hR.hf i j hi hj, hR.hf i v hi hv, hR.hf v j hv hj, hR.hf v v hv hv]
  unfold rOf
  rw [stepQ_2, stepQ_3]
  have hvv := hθ.2 v hv
  have hii := hθ.2 i hi
  have hsym := hθ.1 i v hi hv
  simp only [if_true]
  rw [hcv]
  unfold localComp
  by_cases e1 : i = j
  · subst e1
    by_cases e2 : i = v
    · subst e2
      simp [hvv]
    · have e3 : ¬ v = i := fun e => e2 e.symm
      simp only [e2, e3, if_true, if_false, decide_false, Bool.and_false, Bool.true_and, Bool.xor_false]
      rw [hsym]
      cases q (4 * i + 2) <;> cases q (4 * i + 3) <;> cases θ v i <;> rfl
  · by_cases e2 : i = v
    · subst e2
      have e3 : ¬ j = i := fun e => e1 e.symm
      simp only [e1, e3, if_true, if_false, decide_true, decide_false, Bool.and_false, Bool.and_true, Bool.true_and,
        Bool.xor_false, hvv, hcv, Bool.false_and]
      cases q (4 * i + 3) <;> cases θ i j <;> rfl
    · by_cases e4 : j = v
      · subst e4
        simp only [e1, if_true, if_false, decide_true, decide_false, Bool.and_false, Bool.and_true, Bool.xor_false, hvv]
        cases q (4 * i + 2) <;> cases q (4 * j + 3) <;> cases θ i j <;> rfl
      · have e5 : ¬ v = j := fun e => e4 e.symm
        simp only [e1, e2, e4, e5, if_false, decide_false, Bool.and_false, Bool.true_and, Bool.xor_false]
        cases q (4 * i + 2) <;> cases θ i j <;> cases θ i v <;> cases θ v j <;> rfl

/-! ### the invariant on (θ, Q) -/

/-- `Q` is a valid local Clifford taking the graph θ to the target `b` -/
structure LCInv (n : Nat) (θ b : Adj) (q : Nat → Bool) : Prop where
  simple : Simple n θ
  eqs : ∀ j k, j < n → k < n → equation n θ b q j k = false
  det : ∀ m, m < n → detQ q m = true

theorem localComp_row_v (θ : Adj) (v m : Nat) (hvv : θ v v = false) : localComp θ v v m = θ v m := by
  unfold localComp
  by_cases e : v = m
  · subst e; simp [hvv]
  · simp [e, hvv]

/-- `Q_v(θ)` (built from θ) takes `θ * v` back to θ -/
theorem lcQ_solves_back (n : Nat) (θ : Adj) (v : Nat) (hv : v < n) (hθ : Simple n θ) (j k : Nat) (hj : j < n) (hk : k < n) :
    equation n (localComp θ v) θ (lcQ θ v) j k = false := by
  have hθ' : Simple n (localComp θ v) := localComp_simple n θ v hv hθ
  have h := lcQ_solves n (localComp θ v) v hv hθ' j k hj hk
  rw [equation_congr_right n _ _ θ _ j k hj hk (localComp_involution_simple n θ v hv hθ)] at h
  rw [← h]
  apply equation_congr_q n _ _ _ _ j k hj hk
  intro i _
  unfold lcQ
  rw [localComp_row_v θ v _ (hθ.2 v hv)]

/-- **the invariant survives a complementation** (any vertex): `Q · Q_v(θ)` is a valid local Clifford from `θ * v` to `b` -/
theorem LCInv.step {n : Nat} {θ b : Adj} {q : Nat → Bool} (h : LCInv n θ b q) (hb : Simple n b) (v : Nat) (hv : v < n) :
    LCInv n (localComp θ v) b (stepQ q θ v) := by
  have hθ' : Simple n (localComp θ v) := localComp_simple n θ v hv h.simple
  refine ⟨hθ', fun j k hj hk => ?_, fun m hm => ?_⟩
  · exact equation_trans n (localComp θ v) θ b (lcQ θ v) q hθ' h.simple hb
      (fun j k hj hk => lcQ_solves_back n θ v hv h.simple j k hj hk) h.eqs j k hj hk
  · unfold stepQ
    rw [detQ_comp, h.det m hm, detQ_lcQ n θ v hv h.simple m]; rfl

/-! ### consequences of the invariant read off the R matrix -/

/-- an off-diagonal 1 in row `v` of `R` means `c_v = 1` -/
theorem c_of_offdiag {n : Nat} {r : BMat} {θ : Adj} {q : Nat → Bool} (hR : RRel n r θ q) (v j : Nat) (hv : v < n)
    (hj : j < n) (hne : j ≠ v) (h : r.f v j = true) : q (4 * v + 2) = true := by
  rw [hR.hf v j hv hj] at h
  unfold rOf at h
  have e : ¬ v = j := fun e => hne e.symm
  simp only [e, if_false] at h
  revert h
  cases q (4 * v + 2) <;> simp

/-- a 0 on the diagonal of `R` means `d_v = 0`, hence `c_v = 1` (the block is invertible) -/
theorem c_of_diag_zero {n : Nat} {r : BMat} {θ b : Adj} {q : Nat → Bool} (hI : LCInv n θ b q) (hR : RRel n r θ q) (v : Nat)
    (hv : v < n) (h : r.f v v = false) : q (4 * v + 2) = true := by
  rw [hR.hf v v hv hv] at h
  unfold rOf at h
  simp only [if_true] at h
  have hd := hI.det v hv
  unfold detQ at hd
  rw [h] at hd
  revert hd
  cases q (4 * v + 2) <;> simp

/-- **base case**: when `R(θ, Q)` is the identity the valid `Q` fixes the graph — `θ` is the target -/
theorem identity_R_means_done (n : Nat) (θ b : Adj) (q : Nat → Bool) (hI : LCInv n θ b q) (hb : Simple n b)
    (hid : ∀ i j, i < n → j < n → rOf θ q i j = decide (i = j)) : EqAdj n θ b := by
  have hd : ∀ j, j < n → q (4 * j + 3) = true := by
    intro j hj
    have := hid j j hj hj
    unfold rOf at this
    simpa using this
  have hsum : ∀ j k, j < n → (parityTo n fun m => θ m j && b m k && q (4 * m + 2)) = false := by
    intro j k hj
    apply parityTo_zero
    intro m hm
    by_cases e : m = j
    · subst e; rw [hI.simple.2 m hm]; rfl
    · have := hid m j hm hj
      unfold rOf at this
      simp only [e, if_false, decide_false] at this
      revert this
      cases q (4 * m + 2) <;> cases θ m j <;> simp
  have hbq : ∀ k, k < n → q (4 * k + 1) = false := by
    intro k hk
    have h := hI.eqs k k hk hk
    unfold equation at h
    rw [hsum k k hk, hI.simple.2 k hk, hb.2 k hk] at h
    simpa using h
  have ha : ∀ k, k < n → q (4 * k) = true := by
    intro k hk
    have h := hI.det k hk
    unfold detQ at h
    rw [hbq k hk, hd k hk] at h
    simpa using h
  intro j k hj hk
  have h := hI.eqs j k hj hk
  unfold equation at h
  rw [hsum j k hj, ha k hk, hd j hj, hbq j hj] at h
  revert h
  cases θ j k <;> cases b j k <;> simp

/-- **`R(θ, Q)` is invertible**: no column of it is zero (the `k_list[0]` of `_doubles` exists).  `(C b + A) R = I`; only
    the diagonal entry is needed -/
theorem column_not_zero (n : Nat) (θ b : Adj) (q : Nat → Bool) (hI : LCInv n θ b q) (hb : Simple n b) (j : Nat) (hj : j < n) :
    ∃ k, k < n ∧ rOf θ q k j = true := by
  apply Classical.byContradiction
  intro hno
  have hz : ∀ k, k < n → rOf θ q k j = false := by
    intro k hk
    cases e : rOf θ q k j
    · rfl
    · exact absurd ⟨k, hk, e⟩ hno
  have hd : q (4 * j + 3) = false := by
    have := hz j hj
    unfold rOf at this
    simpa using this
  have hsum : (parityTo n fun m => θ m j && b m j && q (4 * m + 2)) = false := by
    apply parityTo_zero
    intro m hm
    by_cases e : m = j
    · subst e; rw [hI.simple.2 m hm]; rfl
    · have := hz m hm
      unfold rOf at this
      simp only [e, if_false] at this
      revert this
      cases q (4 * m + 2) <;> cases θ m j <;> simp
  have h := hI.eqs j j hj hj
  unfold equation at h
  rw [hsum, hI.simple.2 j hj, hb.2 j hj] at h
  have hbq : q (4 * j + 1) = false := by simpa using h
  have hdet := hI.det j hj
  unfold detQ at hdet
  rw [hd, hbq] at hdet
  simp at hdet

end Graphiq.LC
