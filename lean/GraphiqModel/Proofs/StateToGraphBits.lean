/-
  Proofs/StateToGraphBits.lean — bit-level facts about the model of `_graph_finder` (Model/StateToGraph.lean):
  `row_reduction` only permutes rows and adds rows (so it keeps the GF(2) row space, in both directions),
  `_position_finder` returns distinct positions below `n`, and what the two closing assertions of `_graph_finder` say.
  No signs here; all sizes.
-/
import GraphiqModel.Model.StateToGraph
import GraphiqModel.Proofs.GraphOps
import GraphiqModel.Proofs.GF2Matrix
namespace Graphiq
namespace S2G

/-! ### parity folds -/

theorem and_parityTo (n : Nat) (a : Bool) (f : Nat → Bool) :
    (a && parityTo n f) = parityTo n (fun j => a && f j) := by
  induction n with
  | zero => simp [parityTo]
  | succ k ih => simp only [parityTo, ← ih]; cases a <;> simp

theorem parityTo_and (n : Nat) (a : Bool) (f : Nat → Bool) :
    (parityTo n f && a) = parityTo n (fun j => f j && a) := by
  induction n with
  | zero => simp [parityTo]
  | succ k ih => simp only [parityTo, ← ih]; cases a <;> simp

/-- exchange of the two summations -/
theorem parityTo_comm (n m : Nat) (f : Nat → Nat → Bool) :
    parityTo n (fun i => parityTo m (fun j => f i j)) = parityTo m (fun j => parityTo n (fun i => f i j)) := by
  induction n with
  | zero => simp [parityTo, parityTo_false]
  | succ k ih =>
    simp only [parityTo]
    rw [ih, ← parityTo_xor]

theorem parityTo_single' (n q : Nat) (f : Nat → Bool) (hq : q < n) :
    parityTo n (fun j => f j && decide (j = q)) = f q := by
  rw [parityTo_congr n _ (fun j => decide (j = q) && f j) (fun j _ => Bool.and_comm _ _)]
  exact parityTo_single n q f hq

theorem parityTo_single'' (n q : Nat) (f : Nat → Bool) (hq : q < n) :
    parityTo n (fun j => decide (q = j) && f j) = f q := by
  rw [parityTo_congr n _ (fun j => decide (j = q) && f j)]
  · exact parityTo_single n q f hq
  · intro j _
    by_cases h : j = q
    · subst h; simp
    · have : ¬ (q = j) := fun e => h e.symm
      simp [h, this]

/-! ### the GF(2) row space of a pair of bit matrices -/

/-- `(a, b)` is a GF(2) combination of the rows `(rx i, rz i)`, `i < m`, as far as the sites `< n` are concerned -/
inductive BSpan (n m : Nat) (rx rz : Nat → Nat → Bool) : (Nat → Bool) → (Nat → Bool) → Prop
  | zero : BSpan n m rx rz (fun _ => false) (fun _ => false)
  | gen (i : Nat) (h : i < m) : BSpan n m rx rz (rx i) (rz i)
  | add (a b a' b' : Nat → Bool) : BSpan n m rx rz a b → BSpan n m rx rz a' b' →
      BSpan n m rx rz (fun j => xor (a j) (a' j)) (fun j => xor (b j) (b' j))
  | ext (a b a' b' : Nat → Bool) : BSpan n m rx rz a b → (∀ j, j < n → a j = a' j ∧ b j = b' j) → BSpan n m rx rz a' b'

theorem BSpan.mono {n m : Nat} {rx rz rx' rz' : Nat → Nat → Bool}
    (hg : ∀ i, i < m → BSpan n m rx rz (rx' i) (rz' i)) {a b : Nat → Bool} (h : BSpan n m rx' rz' a b) :
    BSpan n m rx rz a b := by
  induction h with
  | zero => exact BSpan.zero
  | gen i hi => exact hg i hi
  | add a b a' b' _ _ ih1 ih2 => exact BSpan.add a b a' b' ih1 ih2
  | ext a b a' b' _ he ih => exact BSpan.ext a b a' b' ih he

/-- a predicate on bit rows that is closed under GF(2) combinations -/
structure Linear (n : Nat) (Q : (Nat → Bool) → (Nat → Bool) → Prop) : Prop where
  zero : Q (fun _ => false) (fun _ => false)
  add : ∀ a b a' b', Q a b → Q a' b' → Q (fun j => xor (a j) (a' j)) (fun j => xor (b j) (b' j))
  ext : ∀ a b a' b', Q a b → (∀ j, j < n → a j = a' j ∧ b j = b' j) → Q a' b'

theorem BSpan.sat {n m : Nat} {rx rz : Nat → Nat → Bool} {Q : (Nat → Bool) → (Nat → Bool) → Prop} (hQ : Linear n Q)
    (hrows : ∀ i, i < m → Q (rx i) (rz i)) {a b : Nat → Bool} (h : BSpan n m rx rz a b) : Q a b := by
  induction h with
  | zero => exact hQ.zero
  | gen i hi => exact hrows i hi
  | add a b a' b' _ _ ih1 ih2 => exact hQ.add a b a' b' ih1 ih2
  | ext a b a' b' _ he ih => exact hQ.ext a b a' b' ih he

/-- every explicit combination of the rows is in the row space -/
theorem BSpan.combo (n m : Nat) (rx rz : Nat → Nat → Bool) (c : Nat → Bool) (k : Nat) (hk : k ≤ m) :
    BSpan n m rx rz (fun j => parityTo k (fun i => c i && rx i j)) (fun j => parityTo k (fun i => c i && rz i j)) := by
  induction k with
  | zero => exact BSpan.zero
  | succ k ih =>
    have h1 := ih (by omega)
    have h2 : BSpan n m rx rz (fun j => c k && rx k j) (fun j => c k && rz k j) := by
      cases hc : c k
      · exact BSpan.ext _ _ _ _ BSpan.zero (fun j _ => by simp)
      · exact BSpan.ext _ _ _ _ (BSpan.gen k (by omega)) (fun j _ => by simp)
    exact BSpan.add _ _ _ _ h1 h2

/-- the two pairs of matrices have the same row space -/
structure BEquiv (m m' : XZ) : Prop where
  n_eq : m'.n = m.n
  fwd : ∀ i, i < m.n → BSpan m.n m.n m.x m.z (m'.x i) (m'.z i)
  bwd : ∀ i, i < m.n → BSpan m.n m.n m'.x m'.z (m.x i) (m.z i)

theorem BEquiv.refl (m : XZ) : BEquiv m m := ⟨rfl, fun i hi => BSpan.gen i hi, fun i hi => BSpan.gen i hi⟩

theorem BEquiv.trans {a b c : XZ} (h1 : BEquiv a b) (h2 : BEquiv b c) : BEquiv a c := by
  refine ⟨h2.n_eq.trans h1.n_eq, fun i hi => ?_, fun i hi => ?_⟩
  · have := h2.fwd i (h1.n_eq ▸ hi)
    rw [h1.n_eq] at this
    exact BSpan.mono h1.fwd this
  · have := h1.bwd i hi
    refine BSpan.mono (fun k hk => ?_) this
    have := h2.bwd k (h1.n_eq ▸ hk)
    rw [h1.n_eq] at this
    exact this

/-- a linear predicate holds for the rows of one iff it holds for the rows of the other -/
theorem BEquiv.sat_bwd {m m' : XZ} (h : BEquiv m m') {Q : (Nat → Bool) → (Nat → Bool) → Prop} (hQ : Linear m.n Q)
    (hrows : ∀ i, i < m.n → Q (m'.x i) (m'.z i)) : ∀ i, i < m.n → Q (m.x i) (m.z i) :=
  fun i hi => BSpan.sat hQ hrows (h.bwd i hi)

/-! ### the row operations -/

theorem norm_x (m : XZ) (i j : Nat) (hi : i < m.n) (hj : j < m.n) : m.norm.x i j = m.x i j := by
  simp only [XZ.norm]; exact lookup2_ofFn m.n m.n m.x i j hi hj
theorem norm_z (m : XZ) (i j : Nat) (hi : i < m.n) (hj : j < m.n) : m.norm.z i j = m.z i j := by
  simp only [XZ.norm]; exact lookup2_ofFn m.n m.n m.z i j hi hj
@[simp] theorem norm_n (m : XZ) : m.norm.n = m.n := rfl

theorem bequiv_norm (m : XZ) : BEquiv m m.norm := by
  refine ⟨rfl, fun i hi => ?_, fun i hi => ?_⟩
  · exact BSpan.ext _ _ _ _ (BSpan.gen i hi) (fun j hj => ⟨(norm_x m i j hi hj).symm, (norm_z m i j hi hj).symm⟩)
  · exact BSpan.ext _ _ _ _ (BSpan.gen i hi) (fun j hj => ⟨norm_x m i j hi hj, norm_z m i j hi hj⟩)

theorem bequiv_rowSwap (m : XZ) (a b : Nat) (ha : a < m.n) (hb : b < m.n) : BEquiv m (m.rowSwap a b) := by
  refine ⟨rfl, fun i hi => ?_, fun i hi => ?_⟩
  · simp only [XZ.rowSwap]
    by_cases h1 : i = a
    · simp only [h1, if_true]; exact BSpan.gen b hb
    · by_cases h2 : i = b
      · simp only [h1, h2, if_true, if_false]
        split
        · exact BSpan.gen b hb
        · exact BSpan.gen a ha
      · simp only [h1, h2, if_false]; exact BSpan.gen i hi
  · by_cases h1 : i = a
    · subst h1
      have := BSpan.gen (n := m.n) (rx := (m.rowSwap i b).x) (rz := (m.rowSwap i b).z) b hb
      have ex : (m.rowSwap i b).x b = m.x i := by
        simp only [XZ.rowSwap]; by_cases e : b = i <;> simp [e]
      have ez : (m.rowSwap i b).z b = m.z i := by
        simp only [XZ.rowSwap]; by_cases e : b = i <;> simp [e]
      rw [ex, ez] at this; exact this
    · by_cases h2 : i = b
      · subst h2
        have := BSpan.gen (n := m.n) (rx := (m.rowSwap a i).x) (rz := (m.rowSwap a i).z) a ha
        have ex : (m.rowSwap a i).x a = m.x i := by simp [XZ.rowSwap]
        have ez : (m.rowSwap a i).z a = m.z i := by simp [XZ.rowSwap]
        rw [ex, ez] at this; exact this
      · have := BSpan.gen (n := m.n) (rx := (m.rowSwap a b).x) (rz := (m.rowSwap a b).z) i hi
        have ex : (m.rowSwap a b).x i = m.x i := by simp [XZ.rowSwap, h1, h2]
        have ez : (m.rowSwap a b).z i = m.z i := by simp [XZ.rowSwap, h1, h2]
        rw [ex, ez] at this; exact this

theorem bequiv_addRows (m : XZ) (src tgt : Nat) (hs : src < m.n) (ht : tgt < m.n) (hne : src ≠ tgt) :
    BEquiv m (m.addRows src tgt) := by
  refine ⟨rfl, fun i hi => ?_, fun i hi => ?_⟩
  · by_cases h : i = tgt
    · subst h
      refine BSpan.ext _ _ _ _ (BSpan.add _ _ _ _ (BSpan.gen src hs) (BSpan.gen i ht)) (fun j _ => ?_)
      simp [XZ.addRows]
    · have ex : (m.addRows src tgt).x i = m.x i := by funext j; simp [XZ.addRows, h]
      have ez : (m.addRows src tgt).z i = m.z i := by funext j; simp [XZ.addRows, h]
      rw [ex, ez]; exact BSpan.gen i hi
  · have gsrc : BSpan m.n m.n (m.addRows src tgt).x (m.addRows src tgt).z (m.x src) (m.z src) := by
      have := BSpan.gen (n := m.n) (rx := (m.addRows src tgt).x) (rz := (m.addRows src tgt).z) src hs
      have ex : (m.addRows src tgt).x src = m.x src := by funext j; simp [XZ.addRows, hne]
      have ez : (m.addRows src tgt).z src = m.z src := by funext j; simp [XZ.addRows, hne]
      rw [ex, ez] at this; exact this
    by_cases h : i = tgt
    · subst h
      have gt := BSpan.gen (n := m.n) (rx := (m.addRows src i).x) (rz := (m.addRows src i).z) i ht
      refine BSpan.ext _ _ _ _ (BSpan.add _ _ _ _ gsrc gt) (fun j _ => ?_)
      simp only [XZ.addRows, if_true]
      constructor
      · cases m.x src j <;> cases m.x i j <;> rfl
      · cases m.z src j <;> cases m.z i j <;> rfl
    · have := BSpan.gen (n := m.n) (rx := (m.addRows src tgt).x) (rz := (m.addRows src tgt).z) i hi
      have ex : (m.addRows src tgt).x i = m.x i := by funext j; simp [XZ.addRows, h]
      have ez : (m.addRows src tgt).z i = m.z i := by funext j; simp [XZ.addRows, h]
      rw [ex, ez] at this; exact this

@[simp] theorem addRows_n (m : XZ) (a b : Nat) : (m.addRows a b).n = m.n := rfl
@[simp] theorem rowSwap_n (m : XZ) (a b : Nat) : (m.rowSwap a b).n = m.n := rfl

theorem bequiv_foldAdd (pr : Nat) (l : List Nat) (m : XZ) (hpr : pr < m.n) (hl : ∀ j, j ∈ l → j < m.n ∧ pr ≠ j) :
    BEquiv m (l.foldl (fun acc j => acc.addRows pr j) m) ∧ (l.foldl (fun acc j => acc.addRows pr j) m).n = m.n := by
  induction l generalizing m with
  | nil => exact ⟨BEquiv.refl m, rfl⟩
  | cons j rest ih =>
    simp only [List.foldl]
    have hj := hl j List.mem_cons_self
    have e1 := bequiv_addRows m pr j hpr hj.1 hj.2
    have := ih (m.addRows pr j) hpr (fun k hk => hl k (List.mem_cons_of_mem _ hk))
    exact ⟨e1.trans this.1, this.2⟩

/-- the indices selected by `the_ones`: in range, at or below the pivot row, strictly increasing -/
theorem theOnes_spec (m : XZ) (pr pc : Nat) :
    (∀ i, i ∈ m.theOnes pr pc → pr ≤ i ∧ i < m.n ∧ m.x i pc = true) ∧ (m.theOnes pr pc).Pairwise (· < ·) := by
  constructor
  · intro i hi
    simp only [XZ.theOnes, List.mem_filter, List.mem_range, Bool.and_eq_true, decide_eq_true_eq] at hi
    exact ⟨hi.2.1, hi.1, hi.2.2⟩
  · exact List.Pairwise.filter _ List.pairwise_lt_range

theorem bequiv_elimBelow (m : XZ) (pr pc : Nat) (hpr : pr < m.n) :
    BEquiv m (m.elimBelow pr (m.theOnes pr pc)) ∧ (m.elimBelow pr (m.theOnes pr pc)).n = m.n := by
  obtain ⟨hmem, hsorted⟩ := theOnes_spec m pr pc
  cases hl : m.theOnes pr pc with
  | nil => exact ⟨BEquiv.refl m, rfl⟩
  | cons f rest =>
    rw [hl] at hmem hsorted
    have hf := hmem f List.mem_cons_self
    have e1 := bequiv_rowSwap m f pr hf.2.1 hpr
    have hrest : ∀ j, j ∈ rest → j < (m.rowSwap f pr).n ∧ pr ≠ j := by
      intro j hj
      have h1 := hmem j (List.mem_cons_of_mem _ hj)
      have h2 : f < j := (List.pairwise_cons.mp hsorted).1 j hj
      exact ⟨h1.2.1, by omega⟩
    have e2 := bequiv_foldAdd pr rest (m.rowSwap f pr) hpr hrest
    simp only [XZ.elimBelow]
    exact ⟨(e1.trans e2.1).trans (bequiv_norm _), e2.2⟩

/-- **`row_reduction` keeps the row space** (and the shape) -/
theorem bequiv_rowRedLoop (fuel : Nat) (m : XZ) (pr pc : Nat) (hpr : pr < m.n) :
    BEquiv m (XZ.rowRedLoop fuel m pr pc).1 ∧ (XZ.rowRedLoop fuel m pr pc).1.n = m.n := by
  induction fuel generalizing m pr pc with
  | zero => exact ⟨BEquiv.refl m, rfl⟩
  | succ fuel ih =>
    unfold XZ.rowRedLoop
    split
    · split
      · exact ⟨BEquiv.refl m, rfl⟩
      · exact bequiv_elimBelow m pr pc hpr
    · split
      · split
        · exact ⟨BEquiv.refl m, rfl⟩
        · exact ih m pr (pc + 1) hpr
      · split
        · exact ih m pr (pc + 1) hpr
        · have e1 := bequiv_elimBelow m pr pc hpr
          have hpr' : pr + 1 < (m.elimBelow pr (m.theOnes pr pc)).n := by rw [e1.2]; omega
          have e2 := ih (m.elimBelow pr (m.theOnes pr pc)) (pr + 1) (pc + 1) hpr'
          exact ⟨e1.1.trans e2.1, e2.2.trans e1.2⟩

theorem bequiv_rowReduction (m : XZ) (hn : 0 < m.n) : BEquiv m m.rowReduction.1 ∧ m.rowReduction.1.n = m.n :=
  bequiv_rowRedLoop (m.n + 1) m 0 0 hn

/-! ### `hadamard_transform` is a column operation: it commutes with taking combinations -/

def hx (pos : List Nat) (a b : Nat → Bool) : Nat → Bool := fun j => if pos.contains j then b j else a j

theorem bspan_hadamard (n m : Nat) (rx rz : Nat → Nat → Bool) (pos : List Nat) (a b : Nat → Bool)
    (h : BSpan n m rx rz a b) :
    BSpan n m (fun i => hx pos (rx i) (rz i)) (fun i => hx pos (rz i) (rx i)) (hx pos a b) (hx pos b a) := by
  induction h with
  | zero => exact BSpan.ext _ _ _ _ BSpan.zero (fun j _ => by simp [hx])
  | gen i hi => exact BSpan.gen (rx := fun i => hx pos (rx i) (rz i)) (rz := fun i => hx pos (rz i) (rx i)) i hi
  | add a b a' b' _ _ ih1 ih2 =>
    refine BSpan.ext _ _ _ _ (BSpan.add _ _ _ _ ih1 ih2) (fun j _ => ?_)
    simp only [hx]; split <;> exact ⟨rfl, rfl⟩
  | ext a b a' b' _ he ih =>
    refine BSpan.ext _ _ _ _ ih (fun j hj => ?_)
    simp only [hx]; split
    · exact ⟨(he j hj).2, (he j hj).1⟩
    · exact he j hj

/-! ### `_position_finder` -/

theorem posLoop_zero (x : Adj) (n : Nat) : posLoop x n 0 = (0, []) := rfl

theorem posLoop_succ (x : Adj) (n k : Nat) : posLoop x n (k + 1) = posStep x n (posLoop x n k) k := by
  simp [posLoop, List.range_succ, List.foldl_append]

theorem posLoop_spec (x : Adj) (n k : Nat) :
    (∀ q, q ∈ (posLoop x n k).2 → q < k) ∧ (posLoop x n k).2.Nodup := by
  induction k with
  | zero => rw [posLoop_zero]; exact ⟨fun q h => (by cases h), List.nodup_nil⟩
  | succ k ih =>
    rw [posLoop_succ]
    unfold posStep
    split
    · exact ⟨fun q hq => Nat.lt_succ_of_lt (ih.1 q hq), ih.2⟩
    · refine ⟨fun q hq => ?_, ?_⟩
      · rcases List.mem_append.mp hq with hq | hq
        · exact Nat.lt_succ_of_lt (ih.1 q hq)
        · simp only [List.mem_singleton] at hq; omega
      · rw [List.nodup_append]
        refine ⟨ih.2, List.nodup_singleton _, ?_⟩
        intro a ha b hb e
        simp only [List.mem_singleton] at hb
        have := ih.1 a ha
        omega

theorem positionFinder_spec (n : Nat) (x : Adj) :
    (∀ q, q ∈ positionFinder n x → q < n) ∧ (positionFinder n x).Nodup :=
  posLoop_spec x n n

/-! ### what a successful `_graph_finder` establishes -/

theorem hx_hx (pos : List Nat) (a b : Nat → Bool) (j : Nat) : hx pos (hx pos a b) (hx pos b a) j = a j := by
  simp only [hx]; split <;> rfl

/-- the linear predicate "`z' = x' · C`" on a raw row, where `(x', z')` is the row after the Hadamards at `pos` -/
def RowEq (n : Nat) (pos : List Nat) (C : Adj) (a b : Nat → Bool) : Prop :=
  ∀ j, j < n → hx pos b a j = parityTo n (fun k => hx pos a b k && C k j)

theorem rowEq_linear (n : Nat) (pos : List Nat) (C : Adj) : Linear n (RowEq n pos C) := by
  refine ⟨?_, ?_, ?_⟩
  · intro j _
    have : ∀ k, hx pos (fun _ => false) (fun _ => false) k = false := fun k => by simp [hx]
    rw [this j]
    symm; apply parityTo_zero; intro k _; rw [this k]; rfl
  · intro a b a' b' h1 h2 j hj
    have e : ∀ (u v u' v' : Nat → Bool) k, hx pos (fun j => xor (u j) (u' j)) (fun j => xor (v j) (v' j)) k =
        xor (hx pos u v k) (hx pos u' v' k) := by
      intro u v u' v' k; simp only [hx]; split <;> rfl
    rw [e, h1 j hj, h2 j hj, ← parityTo_xor]
    apply parityTo_congr
    intro k _
    rw [e]
    cases hx pos a b k <;> cases hx pos a' b' k <;> simp
  · intro a b a' b' h he j hj
    have e1 : hx pos b' a' j = hx pos b a j := by
      simp only [hx]; split
      · exact ((he j hj).1).symm
      · exact ((he j hj).2).symm
    rw [e1, h j hj]
    apply parityTo_congr
    intro k hk
    have e2 : hx pos a' b' k = hx pos a b k := by
      simp only [hx]; split
      · exact ((he k hk).2).symm
      · exact ((he k hk).1).symm
    rw [e2]

/-- the facts about the returned graph and gate positions that the rest of the conversion rests on -/
structure GFSpec (m0 : XZ) (g : GraphFinderOut) : Prop where
  n_pos : 0 < m0.n
  hpos_lt : ∀ q, q ∈ g.hpos → q < m0.n
  hpos_nodup : g.hpos.Nodup
  zdiag_lt : ∀ q, q ∈ g.zdiag → q < m0.n
  zdiag_nodup : g.zdiag.Nodup
  sym : ∀ i j, i < m0.n → j < m0.n → g.adj.f i j = g.adj.f j i
  irrefl : ∀ i, i < m0.n → g.adj.f i i = false
  /-- after the Hadamards every row satisfies `z' = x' · (A + D)`, `D` the diagonal matrix of `z_diag_pos` -/
  rows : ∀ i, i < m0.n → RowEq m0.n g.hpos (fun k j => xor (g.adj.f k j) (decide (k = j) && g.zdiag.contains j)) (m0.x i) (m0.z i)
  /-- after the Hadamards the X part has full rank: every unit vector is the X part of a combination of the rows -/
  full : ∀ j, j < m0.n → ∃ a b, BSpan m0.n m0.n m0.x m0.z a b ∧ ∀ k, k < m0.n → hx g.hpos a b k = decide (k = j)

theorem graphFinderTail_spec (m2 : XZ) (xinv : Adj) (hpos : List Nat) (rank : Int) (g : GraphFinderOut)
    (e : graphFinderTail m2 xinv hpos rank = .ok g) :
    g.hpos = hpos ∧
    (∀ q, q ∈ g.zdiag → q < m2.n) ∧ g.zdiag.Nodup ∧
    (∀ i j, i < m2.n → j < m2.n → g.adj.f i j = g.adj.f j i) ∧
    (∀ i, i < m2.n → g.adj.f i i = false) ∧
    (∀ i j, i < m2.n → j < m2.n → matMul m2.n xinv (transpose m2.x) i j = decide (i = j)) ∧
    (∀ i j, i < m2.n → j < m2.n → matMul m2.n (transpose m2.z) xinv i j =
        xor (g.adj.f i j) (decide (i = j) && g.zdiag.contains j)) := by
  unfold graphFinderTail at e
  simp only at e
  split at e
  · cases e
  · next hsym =>
    split at e
    · cases e
    · next hinv =>
      injection e with e
      simp only [Bool.not_eq_true, Bool.not_eq_false', List.all_eq_true, List.mem_range, beq_iff_eq] at hsym hinv
      have hfz : ∀ i j, i < m2.n → j < m2.n →
          (BMat.ofAdj m2.n (matMul m2.n (transpose m2.z) xinv)).norm.f i j = matMul m2.n (transpose m2.z) xinv i j :=
        fun i j hi hj => BMat.norm_agree _ i j hi hj
      have hadj : ∀ i j, i < m2.n → j < m2.n → g.adj.f i j =
          if i = j then false else matMul m2.n (transpose m2.z) xinv i j := by
        intro i j hi hj
        rw [← e]
        simp only
        rw [BMat.norm_agree _ i j hi hj]
        show (if i = j then false else (BMat.ofAdj m2.n (matMul m2.n (transpose m2.z) xinv)).norm.f i j) = _
        rw [hfz i j hi hj]
      have hzd : ∀ q, q ∈ g.zdiag ↔ q < m2.n ∧ matMul m2.n (transpose m2.z) xinv q q = true := by
        intro q
        rw [← e]
        simp only [List.mem_filter, List.mem_range]
        constructor
        · intro h; exact ⟨h.1, by rw [← hfz q q h.1 h.1]; exact h.2⟩
        · intro h; exact ⟨h.1, by rw [hfz q q h.1 h.1]; exact h.2⟩
      have hsym' : ∀ i j, i < m2.n → j < m2.n → g.adj.f i j = g.adj.f j i := by
        intro i j hi hj
        have := hsym i hi j hj
        rw [← e]; exact this
      refine ⟨by rw [← e], fun q hq => ((hzd q).mp hq).1, ?_, hsym', ?_, ?_, ?_⟩
      · rw [← e]; exact List.Nodup.filter _ List.nodup_range
      · intro i hi; rw [hadj i i hi hi]; simp
      · intro i j hi hj; exact hinv i hi j hj
      · intro i j hi hj
        rw [hadj i j hi hj]
        by_cases hij : i = j
        · subst hij
          simp only [if_true, decide_true, Bool.true_and, Bool.false_xor]
          cases h : matMul m2.n (transpose m2.z) xinv i i
          · symm
            apply Bool.eq_false_iff.mpr
            intro hc
            have := ((hzd i).mp (by simpa using hc)).2
            rw [h] at this; cases this
          · symm
            simpa using (hzd i).mpr ⟨hi, h⟩
        · simp [hij]

/-- `z = x · fzᵀ` for the matrices after the Hadamards, from `x_inv @ x.T = I` and `final_z = z.T @ x_inv` -/
theorem z_eq_x_fz (n : Nat) (x z xinv : Adj)
    (hinv : ∀ i j, i < n → j < n → matMul n xinv (transpose x) i j = decide (i = j)) (r j : Nat) (hr : r < n) :
    z r j = parityTo n (fun k => x r k && matMul n (transpose z) xinv j k) := by
  have step1 : parityTo n (fun k => x r k && matMul n (transpose z) xinv j k) =
      parityTo n (fun k => parityTo n (fun i => z i j && (xinv i k && x r k))) := by
    apply parityTo_congr
    intro k _
    simp only [matMul, transpose]
    rw [and_parityTo]
    apply parityTo_congr
    intro i _
    cases x r k <;> cases z i j <;> cases xinv i k <;> rfl
  rw [step1, parityTo_comm]
  have step2 : parityTo n (fun i => parityTo n (fun k => z i j && (xinv i k && x r k))) =
      parityTo n (fun i => z i j && decide (i = r)) := by
    apply parityTo_congr
    intro i hi
    rw [← and_parityTo]
    have := hinv i r hi hr
    simp only [matMul, transpose] at this
    rw [this]
  rw [step2, parityTo_single' n r (fun i => z i j) hr]

theorem graphFinderWith_spec (inv : Nat → Adj → Option Adj) (m0 : XZ) (g : GraphFinderOut)
    (e : graphFinderWith inv m0 = .ok g) : GFSpec m0 g := by
  unfold graphFinderWith at e
  split at e
  · cases e
  · next hn =>
    have hn' : 0 < m0.n := Nat.pos_of_ne_zero hn
    generalize hrr : m0.norm.rowReduction = rr at e
    obtain ⟨m1, rank0⟩ := rr
    simp only at e
    have hred := bequiv_rowReduction m0.norm hn'
    rw [hrr] at hred
    simp only at hred
    have hb01 : BEquiv m0 m1 := (bequiv_norm m0).trans hred.1
    have hn1 : m1.n = m0.n := hred.2
    generalize hpos : positionFinder m0.n m1.x = pos at e
    have hps := positionFinder_spec m0.n m1.x
    rw [hpos] at hps
    generalize hm2 : (m1.hadamardTransform pos).norm = m2 at e
    have hn2 : m2.n = m0.n := by rw [← hm2]; exact hn1
    have hm2x : ∀ i k, i < m0.n → k < m0.n → m2.x i k = hx pos (m1.x i) (m1.z i) k := by
      intro i k hi hk
      rw [← hm2, norm_x _ i k (by show i < m1.n; omega) (by show k < m1.n; omega)]; rfl
    have hm2z : ∀ i k, i < m0.n → k < m0.n → m2.z i k = hx pos (m1.z i) (m1.x i) k := by
      intro i k hi hk
      rw [← hm2, norm_z _ i k (by show i < m1.n; omega) (by show k < m1.n; omega)]; rfl
    split at e
    · cases e
    · next xinv _ =>
      obtain ⟨t1, t2, t3, t4, t5, t6, t7⟩ := graphFinderTail_spec m2 xinv pos _ g e
      rw [hn2] at t2 t4 t5 t6 t7
      -- `C k j = fz j k`
      have hC : ∀ k j, k < m0.n → j < m0.n →
          xor (g.adj.f k j) (decide (k = j) && g.zdiag.contains j) = matMul m0.n (transpose m2.z) xinv j k := by
        intro k j hk hj
        rw [t7 j k hj hk, t4 k j hk hj]
        by_cases h : k = j
        · subst h; rfl
        · have h' : ¬ (j = k) := fun e => h e.symm
          simp [h, h']
      refine ⟨hn', by rw [t1]; exact hps.1, by rw [t1]; exact hps.2, t2, t3, t4, t5, ?_, ?_⟩
      · -- rows
        rw [t1]
        apply hb01.sat_bwd (rowEq_linear m0.n pos _)
        intro i hi j hj
        rw [← hm2z i j hi hj, z_eq_x_fz m0.n m2.x m2.z xinv t6 i j hi]
        apply parityTo_congr
        intro k hk
        rw [hm2x i k hi hk, ← hC k j hk hj]
      · -- full rank
        intro j0 hj0
        have hcomm := gf2_inverse_comm m0.n xinv (transpose m2.x) t6
        -- combination of the rows of `m2` with coefficients `xinv[·, j0]`
        have hcombo := BSpan.combo m0.n m0.n m2.x m2.z (fun k => xinv k j0) m0.n (Nat.le_refl _)
        have hx2 : ∀ i, i < m0.n → parityTo m0.n (fun k => xinv k j0 && m2.x k i) = decide (i = j0) := by
          intro i hi
          have := hcomm i j0 hi hj0
          simp only [matMul, transpose] at this
          rw [← this]
          apply parityTo_congr
          intro k _; exact Bool.and_comm _ _
        -- the rows of `m2` are the Hadamard-transformed rows of `m1`
        have h21 : BSpan m0.n m0.n (fun i => hx pos (m1.x i) (m1.z i)) (fun i => hx pos (m1.z i) (m1.x i))
            (fun j => parityTo m0.n (fun i => xinv i j0 && m2.x i j)) (fun j => parityTo m0.n (fun i => xinv i j0 && m2.z i j)) := by
          refine BSpan.mono (fun i hi => ?_) hcombo
          exact BSpan.ext _ _ _ _
            (BSpan.gen (rx := fun i => hx pos (m1.x i) (m1.z i)) (rz := fun i => hx pos (m1.z i) (m1.x i)) i hi)
            (fun k hk => ⟨(hm2x i k hi hk).symm, (hm2z i k hi hk).symm⟩)
        have h11 := bspan_hadamard m0.n m0.n _ _ pos _ _ h21
        -- transforming twice gives the rows of `m1` back
        have h1 : BSpan m0.n m0.n m1.x m1.z
            (hx pos (fun j => parityTo m0.n (fun i => xinv i j0 && m2.x i j)) (fun j => parityTo m0.n (fun i => xinv i j0 && m2.z i j)))
            (hx pos (fun j => parityTo m0.n (fun i => xinv i j0 && m2.z i j)) (fun j => parityTo m0.n (fun i => xinv i j0 && m2.x i j))) := by
          refine BSpan.mono (fun i hi => ?_) h11
          exact BSpan.ext _ _ _ _ (BSpan.gen i hi) (fun k _ => ⟨(hx_hx pos _ _ k).symm, (hx_hx pos _ _ k).symm⟩)
        have h0 : BSpan m0.n m0.n m0.x m0.z _ _ := BSpan.mono hb01.fwd h1
        refine ⟨_, _, h0, fun k hk => ?_⟩
        rw [t1, hx_hx]
        exact hx2 k hk

theorem graphFinder_spec (m0 : XZ) (g : GraphFinderOut) (e : graphFinder m0 = .ok g) : GFSpec m0 g :=
  graphFinderWith_spec gf2InvF m0 g e

end S2G
end Graphiq
