/-
  Proofs/InnerProductDim.lean — the rank `d` in `OverlapDim A B d` is determined by the two groups: two independent
  generating sets of `A ∩ B` have the same number of elements (a set of `d` independent generators parametrises the
  group by the `2^d` subsets, and an injection of `2^d` subsets into `2^d'` subsets forces `d ≤ d'`).  All sizes.
  Uses Mathlib only for the cardinality of `Fin d → Bool`.
-/
import GraphiqModel.Proofs.InnerProduct
import Mathlib.Data.Fintype.BigOperators
namespace Graphiq
open PRow Tab
namespace STab

theorem sprod_spn_gens (A : STab) (gens : Nat → PRow) (d : Nat) (hm : ∀ i, i < d → A.Spn (gens i)) (S : Nat → Bool)
    (m : Nat) (hmd : m ≤ d) : A.Spn (sprod A.n gens S m) := by
  induction m with
  | zero => exact InSpan.one
  | succ k ih =>
    simp only [sprod]
    cases S k
    · exact ih (by omega)
    · exact InSpan.mul _ _ (hm k (by omega)) (ih (by omega))

/-- product of two subset products of elements of a real commuting group = subset product of the symmetric difference -/
theorem sprod_mul_gens (A : STab) (hg : A.Good) (gens : Nat → PRow) (d : Nat) (hm : ∀ i, i < d → A.Spn (gens i))
    (S T : Nat → Bool) (m : Nat) (hmd : m ≤ d) :
    EqOn A.n (PRow.mul A.n (sprod A.n gens S m) (sprod A.n gens T m)) (sprod A.n gens (fun i => xor (S i) (T i)) m) := by
  induction m with
  | zero => exact one_mul A.n _
  | succ k ih =>
    have ih := ih (by omega)
    have hk : k < d := by omega
    have hA := sprod_spn_gens A gens d hm S k (by omega)
    have hr := hm k hk
    have rr := spn_real A hg _ hr
    have cA : sp A.n (sprod A.n gens S k) (gens k) = false := spn_comm A hg _ _ hA hr
    simp only [sprod]
    cases hS : S k <;> cases hT : T k <;> simp only [cond_true, cond_false, Bool.xor_false,
      Bool.xor_true, Bool.not_false, Bool.not_true]
    · exact ih
    · exact (((mul_assoc A.n _ _ _).symm.trans
        (mul_congr A.n _ _ _ _ (mul_comm A.n _ _ cA) (EqOn.refl _ _))).trans (mul_assoc A.n _ _ _)).trans
        (mul_congr A.n _ _ _ _ (EqOn.refl _ _) ih)
    · exact (mul_assoc A.n _ _ _).trans (mul_congr A.n _ _ _ _ (EqOn.refl _ _) ih)
    · have e1 : EqOn A.n (PRow.mul A.n (gens k) (PRow.mul A.n (gens k) (sprod A.n gens T k))) (sprod A.n gens T k) :=
        ((mul_assoc A.n _ _ _).symm.trans
          (mul_congr A.n _ _ _ _ (mul_self A.n _ rr) (EqOn.refl _ _))).trans (one_mul A.n _)
      have cA' : sp A.n (gens k) (sprod A.n gens S k) = false := by rw [sp_comm]; exact cA
      exact (((mul_congr A.n _ _ _ _ (mul_comm A.n _ _ cA') (EqOn.refl _ _)).trans (mul_assoc A.n _ _ _)).trans
        (mul_congr A.n _ _ _ _ (EqOn.refl _ _) e1)).trans ih

/-- extend a subset of `Fin d` to a subset of `Nat` -/
def extS {d : Nat} (S : Fin d → Bool) : Nat → Bool := fun i => if h : i < d then S ⟨i, h⟩ else false

theorem extS_lt {d : Nat} (S : Fin d → Bool) (i : Nat) (h : i < d) : extS S i = S ⟨i, h⟩ := by
  simp [extS, h]

/-- `d` independent elements of a real commuting group, all of whose subset products are subset products of `d'`
    elements: `d ≤ d'` (an injection of the `2^d` subsets into the `2^d'` subsets) -/
theorem indep_le_gen (A : STab) (hg : A.Good) (gens : Nat → PRow) (d : Nat) (hm : ∀ i, i < d → A.Spn (gens i))
    (hind : ∀ S : Nat → Bool, EqOn A.n (sprod A.n gens S d) PRow.one → ∀ i, i < d → S i = false)
    (gens' : Nat → PRow) (d' : Nat)
    (hspan : ∀ S : Nat → Bool, ∃ T : Nat → Bool, EqOn A.n (sprod A.n gens S d) (sprod A.n gens' T d')) : d ≤ d' := by
  have repr : ∀ S : Fin d → Bool, ∃ T : Nat → Bool, EqOn A.n (sprod A.n gens (extS S) d) (sprod A.n gens' T d') :=
    fun S => hspan (extS S)
  let φ : (Fin d → Bool) → (Fin d' → Bool) := fun S j => Classical.choose (repr S) j.1
  have inj : Function.Injective φ := by
    intro S1 S2 e
    have e' : ∀ j, j < d' → Classical.choose (repr S1) j = Classical.choose (repr S2) j := by
      intro j hj
      exact congrFun e ⟨j, hj⟩
    have p1 := Classical.choose_spec (repr S1)
    have p2 := Classical.choose_spec (repr S2)
    rw [sprod_congr A.n gens' _ _ d' e'] at p1
    have e12 : EqOn A.n (sprod A.n gens (extS S1) d) (sprod A.n gens (extS S2) d) := p1.trans p2.symm
    have real1 := spn_real A hg _ (sprod_spn_gens A gens d hm (extS S1) d (Nat.le_refl _))
    have triv : EqOn A.n (sprod A.n gens (fun i => xor (extS S1 i) (extS S2 i)) d) PRow.one :=
      ((sprod_mul_gens A hg gens d hm (extS S1) (extS S2) d (Nat.le_refl _)).symm.trans
        (mul_congr A.n _ _ _ _ (EqOn.refl _ _) e12.symm)).trans (mul_self A.n _ real1)
    have z := hind _ triv
    funext i
    have := z i.1 i.2
    rw [extS_lt S1 i.1 i.2, extS_lt S2 i.1 i.2] at this
    revert this
    cases S1 i <;> cases S2 i <;> simp
  have hc := Fintype.card_le_of_injective φ inj
  rw [Fintype.card_fun, Fintype.card_fun, Fintype.card_bool, Fintype.card_fin, Fintype.card_fin] at hc
  exact (Nat.pow_le_pow_iff_right (by decide)).1 hc

theorem overlapBasis_le (A B : STab) (hg : A.Good) (hn : A.n = B.n) (d d' : Nat) (gens gens' : Nat → PRow)
    (h : IsOverlapBasis A B d gens) (h' : IsOverlapBasis A B d' gens') : d ≤ d' := by
  apply indep_le_gen A hg gens d h.memA h.indep gens' d'
  intro S
  have pa := sprod_spn_gens A gens d h.memA S d (Nat.le_refl _)
  have pb := sprod_spn_gens B gens d h.memB S d (Nat.le_refl _)
  rw [← hn] at pb
  exact h'.span _ pa pb

/-- **the rank of the common subgroup is well defined** -/
theorem overlapDim_unique (A B : STab) (hg : A.Good) (hn : A.n = B.n) (d d' : Nat)
    (h : OverlapDim A B d) (h' : OverlapDim A B d') : d = d' := by
  obtain ⟨g, hb⟩ := h
  obtain ⟨g', hb'⟩ := h'
  exact Nat.le_antisymm (overlapBasis_le A B hg hn d d' g g' hb hb') (overlapBasis_le A B hg hn d' d g' g hb' hb)

/-- **the value of `inner_product` does not depend on the argument order** when both syntheses reached |0…0⟩:
    `Orth` is symmetric, and the rank of the common subgroup is symmetric and well defined -/
theorem innerProduct_symm (a b : Tab) (sa sb : STab) (ca cb : List Gate) (rab rba : Option Nat)
    (ga : (STab.ofTab a).Good) (gb : (STab.ofTab b).Good)
    (hsa : (STab.ofTab a).inverseCircuit = .ok (sa, ca)) (hza : sa.isZero = true)
    (hsb : (STab.ofTab b).inverseCircuit = .ok (sb, cb)) (hzb : sb.isZero = true)
    (hab : STab.innerProduct a b = .ok rab) (hba : STab.innerProduct b a = .ok rba) : rab = rba := by
  have hn : a.n = b.n := (innerProduct_inv a b rab hab).1
  have zab := innerProduct_none_iff a b sa ca rab ga gb hsa hza hab
  have zba := innerProduct_none_iff b a sb cb rba gb ga hsb hzb hba
  cases h1 : rab with
  | none =>
    have := zba.2 (zab.1 h1).symm
    rw [this]
  | some e =>
    cases h2 : rba with
    | none =>
      have := zab.2 (zba.1 h2).symm
      rw [this] at h1; cases h1
    | some e' =>
      obtain ⟨le1, _, d1⟩ := innerProduct_some a b sa ca rab ga gb hsa hza hab e h1
      obtain ⟨le2, _, d2⟩ := innerProduct_some b a sb cb rba gb ga hsb hzb hba e' h2
      have d2' := (overlapDim_comm (STab.ofTab b) (STab.ofTab a) hn.symm _).1 d2
      have := overlapDim_unique (STab.ofTab a) (STab.ofTab b) ga hn _ _ d1 d2'
      have : e = e' := by omega
      rw [this]

end STab
end Graphiq
