/-
  Proofs/CommuteHilbert.lean — from "same signed stabilizer group" to "same quantum state": two valid tableaux with the same
  stabilizer group denote the same density matrix `ρ = ∏ (1 + gᵢ)/2` over ℂ (C07's gauge independence `rho_spanEq`).
-/
import GraphiqModel.Proofs.CommuteRefine
import GraphiqModel.Proofs.HilbertMeasure
namespace Graphiq.Commute
open Graphiq PRow Tab TabSpec Hilbert

/-- the span of `STab.ofTab t` is the stabilizer group of `t` -/
theorem spn_ofTab_iff (t : Tab) (hr : t.StabReal) (a : PRow) : (STab.ofTab t).Spn a ↔ Grp t a := by
  constructor
  · intro h
    unfold STab.Spn at h
    show Tab.InSpan t.n t.n t.stab a
    have h' : Tab.InSpan t.n t.n (STab.ofTab t).row a := h
    induction h' with
    | one => exact Tab.InSpan.one
    | gen i hi =>
      have hi' : i < t.n := hi
      rw [ofTab_row_real t hr i hi']
      exact Tab.InSpan.gen (gens := t.stab) i hi'
    | mul a b ha hb iha ihb => exact Tab.InSpan.mul a b (iha ha) (ihb hb)
    | eqv a b ha hab iha => exact Tab.InSpan.eqv a b (iha ha) hab
  · exact inSpan_ofTab t hr a

/-- **same stabilizer group ⇒ same density matrix** -/
theorem rho_eq_of_grp_eq {n : Nat} {t1 t2 : Tab} (h1 : TInv n t1) (h2 : TInv n t2) (h : ∀ P, Grp t1 P ↔ Grp t2 P) :
    rho n (STab.ofTab t1) = rho n (STab.ofTab t2) := by
  have hse : STab.SpanEq (STab.ofTab t1) (STab.ofTab t2) :=
    ⟨h1.n_eq.trans h2.n_eq.symm,
     fun a ha => (spn_ofTab_iff t2 h2.real a).mpr ((h a).mp ((spn_ofTab_iff t1 h1.real a).mp ha)),
     fun a ha => (spn_ofTab_iff t1 h1.real a).mpr ((h a).mpr ((spn_ofTab_iff t2 h2.real a).mp ha))⟩
  have := rho_spanEq (STab.ofTab t1) (STab.ofTab t2) hse (ofTab_good t1 h1.valid) (ofTab_good t2 h2.valid)
  have hn : (STab.ofTab t1).n = n := h1.n_eq
  rw [hn] at this
  exact this

end Graphiq.Commute
