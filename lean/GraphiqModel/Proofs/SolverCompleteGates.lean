/-
  Proofs/SolverCompleteGates.lean — completeness of the time-reversed solver, part 1: what tableau gates do to the facts the
  completeness invariant is made of.

  * a gate changes no bit outside its columns, and does nothing at all to a row that is trivial on its columns;
  * `GVia A t0 t`: `t` is reached from `t0` by (re-tabulated) gates all of whose columns satisfy `A`;
  * along `GVia A`: sizes, `Good`, literal columns `q` with `¬ A q` (`Lit`), "qubit `p` is not a product qubit" for `¬ A p`
    (`NotProd`), and every bit of every row at a column outside `A` are preserved.
-/
import GraphiqModel.Proofs.SolverCompleteDefs
import GraphiqModel.Proofs.SolverSoundRows
namespace Graphiq
open PRow

/-! ### gates, column by column -/

/-- a gate changes no bit outside its columns -/
theorem Gate.act_bits_off (G : Gate) (a : PRow) (j : Nat) (hj : j ∉ G.cols) :
    (G.act a).x j = a.x j ∧ (G.act a).z j = a.z j := by
  cases G <;>
    simp [Gate.cols] at hj <;>
    simp [Gate.act, PRow.h, PRow.s, PRow.sdg, PRow.zg, PRow.xg, PRow.yg, PRow.cnot, PRow.cz, hj]

/-- a row that is trivial on the columns of a gate is not changed by it (bits and signs) -/
theorem Gate.act_of_triv (G : Gate) (a : PRow) (h : ∀ c, c ∈ G.cols → a.x c = false ∧ a.z c = false) :
    (∀ j, (G.act a).x j = a.x j ∧ (G.act a).z j = a.z j) ∧ (G.act a).r = a.r ∧ (G.act a).ip = a.ip := by
  cases G <;>
    simp [Gate.cols] at h <;>
    simp [Gate.act, PRow.h, PRow.s, PRow.sdg, PRow.zg, PRow.xg, PRow.yg, PRow.cnot, PRow.cz, h] <;>
    intro j <;> (try split) <;> simp_all

/-- if the image of a row under a (well-formed) gate is trivial on the gate's columns, so was the row -/
theorem Gate.act_triv_back (n : Nat) (G : Gate) (hG : G.WF n) (a : PRow)
    (h : ∀ c, c ∈ G.cols → (G.act a).x c = false ∧ (G.act a).z c = false) :
    ∀ c, c ∈ G.cols → a.x c = false ∧ a.z c = false := by
  cases G with
  | CNOT c t =>
    have hct : ¬ t = c := fun e => hG.2.2 e.symm
    simp [Gate.cols, Gate.act, PRow.cnot, hct, hG.2.2] at h ⊢
    simp_all
  | CZ c t =>
    have hct : ¬ t = c := fun e => hG.2.2 e.symm
    simp [Gate.cols, Gate.act, PRow.cnot, PRow.cz, PRow.h, hct, hG.2.2] at h ⊢
    simp_all
  | I q => simp [Gate.cols]
  | _ =>
    rename_i q
    simp only [Gate.cols, List.mem_singleton, forall_eq] at h ⊢
    revert h
    simp only [Gate.act, PRow.h, PRow.s, PRow.sdg, PRow.zg, PRow.xg, PRow.yg, if_true]
    cases a.x q <;> cases a.z q <;> simp

/-- the columns of a well-formed gate are in range -/
theorem Gate.cols_lt (n : Nat) (G : Gate) (hG : G.WF n) : ∀ c, c ∈ G.cols → c < n := by
  cases G <;> simp [Gate.cols] <;> simp [Gate.WF] at hG <;> omega

namespace STab

/-! ### one gate on a tableau -/

theorem gateNorm_n (t : STab) (G : Gate) : ((t.applyGate G).norm).n = t.n := rfl

theorem gateNorm_row (t : STab) (G : Gate) (i : Nat) (hi : i < t.n) :
    EqOn t.n (((t.applyGate G).norm).row i) (G.act (t.row i)) :=
  norm_row (t.applyGate G) i hi

theorem gateNorm_good (t : STab) (G : Gate) (hG : G.WF t.n) (hg : t.Good) : ((t.applyGate G).norm).Good :=
  norm_good _ (applyGate_good t G hG hg)

/-- Pauli type of a row at a column the gate does not touch -/
theorem gateNorm_ptype_off (t : STab) (G : Gate) (i j : Nat) (hi : i < t.n) (hj : j < t.n) (hoff : j ∉ G.cols) :
    ((t.applyGate G).norm).ptype i j = t.ptype i j := by
  have e := (gateNorm_row t G i hi).1 j hj
  have b := Gate.act_bits_off G (t.row i) j hoff
  rw [ptype_eq, ptype_eq]
  exact PRow.pt_congr _ _ j (e.1.trans b.1) (e.2.trans b.2)

/-- bits of a row at a column the gate does not touch -/
theorem gateNorm_bits_off (t : STab) (G : Gate) (i j : Nat) (hi : i < t.n) (hj : j < t.n) (hoff : j ∉ G.cols) :
    (((t.applyGate G).norm).row i).x j = (t.row i).x j ∧ (((t.applyGate G).norm).row i).z j = (t.row i).z j := by
  have e := (gateNorm_row t G i hi).1 j hj
  have b := Gate.act_bits_off G (t.row i) j hoff
  exact ⟨e.1.trans b.1, e.2.trans b.2⟩

/-- a literal column stays literal under a gate that does not touch it -/
theorem gateNorm_lit (t : STab) (G : Gate) (hG : G.WF t.n) (q : Nat) (hq : q < t.n) (hoff : q ∉ G.cols) (hl : t.Lit q) :
    ((t.applyGate G).norm).Lit q := by
  obtain ⟨i, hi, hrow, hoth⟩ := hl
  refine ⟨i, hi, ?_, ?_⟩
  · refine (gateNorm_row t G i hi).trans ?_
    refine ((G.isAut t.n hG).congr _ _ hrow).trans ?_
    have htriv : ∀ c, c ∈ G.cols → (Zq q).x c = false ∧ (Zq q).z c = false := by
      intro c hc
      refine ⟨rfl, ?_⟩
      show decide (c = q) = false
      have : c ≠ q := fun e => hoff (e ▸ hc)
      simp [this]
    obtain ⟨hb, hr, hip⟩ := Gate.act_of_triv G (Zq q) htriv
    exact ⟨fun j _ => hb j, hr, hip⟩
  · intro k hk hki
    show ((t.applyGate G).norm).ptype k q = 0
    rw [gateNorm_ptype_off t G k q hk hq hoff]
    exact hoth k hk hki

/-! ### "qubit `p` is not a product qubit" -/

/-- **no element of the stabilizer group is supported exactly on `{p}`**: qubit `p` is entangled with the rest (its reduced state is
    maximally mixed), i.e. it is not an isolated product qubit -/
def NotProd (t : STab) (p : Nat) : Prop :=
  ∀ a, t.Spn a → (∀ j, j < t.n → j ≠ p → a.x j = false ∧ a.z j = false) → a.x p = false ∧ a.z p = false

theorem notProd_spanEq (t t' : STab) (h : SpanEq t t') (p : Nat) (hp : t.NotProd p) : t'.NotProd p := by
  intro a ha hs
  exact hp a (h.sup a ha) (fun j hj hne => hs j (h.n_eq ▸ hj) hne)

/-- a gate that does not touch `p` keeps `p` a non-product qubit -/
theorem gateNorm_notProd (t : STab) (G : Gate) (hG : G.WF t.n) (p : Nat) (hpn : p < t.n) (hoff : p ∉ G.cols)
    (hp : t.NotProd p) : ((t.applyGate G).norm).NotProd p := by
  intro b hb hs
  have hb1 : (t.applyGate G).Spn b := (norm_spanEq (t.applyGate G)).sup b hb
  obtain ⟨a, ha, ea⟩ := applyGate_bwd t G hG b hb1
  have hs' : ∀ j, j < t.n → j ≠ p → (G.act a).x j = false ∧ (G.act a).z j = false := by
    intro j hj hne
    have := hs j hj hne
    exact ⟨((ea.1 j hj).1).trans this.1, ((ea.1 j hj).2).trans this.2⟩
  have hcols : ∀ c, c ∈ G.cols → (G.act a).x c = false ∧ (G.act a).z c = false := by
    intro c hc
    exact hs' c (Gate.cols_lt t.n G hG c hc) (fun e => hoff (e ▸ hc))
  have htriv := Gate.act_triv_back t.n G hG a hcols
  obtain ⟨hbits, _, _⟩ := Gate.act_of_triv G a htriv
  have hap := hp a ha (fun j hj hne => by
    have := hs' j hj hne
    exact ⟨(hbits j).1.symm.trans this.1, (hbits j).2.symm.trans this.2⟩)
  exact ⟨((ea.1 p hpn).1).symm.trans ((hbits p).1.trans hap.1), ((ea.1 p hpn).2).symm.trans ((hbits p).2.trans hap.2)⟩

/-! ### sequences of gates on a set of columns -/

/-- `t` is reached from `t0` by re-tabulated gates all of whose columns satisfy `A` -/
inductive GVia (A : Nat → Prop) (t0 : STab) : STab → Prop
  | refl : GVia A t0 t0
  | gate {t : STab} (G : Gate) : GVia A t0 t → G.WF t.n → (∀ c, c ∈ G.cols → A c) → GVia A t0 ((t.applyGate G).norm)

theorem GVia.n_eq {A : Nat → Prop} {t0 t : STab} (h : GVia A t0 t) : t.n = t0.n := by
  induction h with
  | refl => rfl
  | gate G _ _ _ ih => exact ih

theorem GVia.trans {A : Nat → Prop} {t0 t1 t2 : STab} (h1 : GVia A t0 t1) (h2 : GVia A t1 t2) : GVia A t0 t2 := by
  induction h2 with
  | refl => exact h1
  | gate G _ hG hA ih => exact GVia.gate G ih hG hA

theorem GVia.mono {A B : Nat → Prop} {t0 t : STab} (hAB : ∀ c, A c → B c) (h : GVia A t0 t) : GVia B t0 t := by
  induction h with
  | refl => exact GVia.refl
  | gate G _ hG hA ih => exact GVia.gate G ih hG (fun c hc => hAB c (hA c hc))

theorem GVia.one {A : Nat → Prop} (t : STab) (G : Gate) (hG : G.WF t.n) (hA : ∀ c, c ∈ G.cols → A c) :
    GVia A t ((t.applyGate G).norm) := GVia.gate G GVia.refl hG hA

theorem GVia.good {A : Nat → Prop} {t0 t : STab} (h : GVia A t0 t) (hg : t0.Good) : t.Good := by
  induction h with
  | refl => exact hg
  | gate G _ hG _ ih => exact gateNorm_good _ G hG ih

theorem GVia.lit {A : Nat → Prop} {t0 t : STab} (h : GVia A t0 t) (q : Nat) (hq : q < t0.n) (hA : ¬ A q) (hl : t0.Lit q) :
    t.Lit q := by
  induction h with
  | refl => exact hl
  | @gate t G h1 hG hc ih =>
    exact gateNorm_lit t G hG q (h1.n_eq ▸ hq) (fun hm => hA (hc q hm)) ih

theorem GVia.notProd {A : Nat → Prop} {t0 t : STab} (h : GVia A t0 t) (p : Nat) (hp : p < t0.n) (hA : ¬ A p)
    (hnp : t0.NotProd p) : t.NotProd p := by
  induction h with
  | refl => exact hnp
  | @gate t G h1 hG hc ih =>
    exact gateNorm_notProd t G hG p (h1.n_eq ▸ hp) (fun hm => hA (hc p hm)) ih

/-- every bit of every row at a column outside `A` is unchanged -/
theorem GVia.bits_off {A : Nat → Prop} {t0 t : STab} (h : GVia A t0 t) (i j : Nat) (hi : i < t0.n) (hj : j < t0.n) (hA : ¬ A j) :
    (t.row i).x j = (t0.row i).x j ∧ (t.row i).z j = (t0.row i).z j := by
  induction h with
  | refl => exact ⟨rfl, rfl⟩
  | @gate t G h1 hG hc ih =>
    have e := gateNorm_bits_off t G i j (h1.n_eq ▸ hi) (h1.n_eq ▸ hj) (fun hm => hA (hc j hm))
    exact ⟨e.1.trans ih.1, e.2.trans ih.2⟩

theorem GVia.ptype_off {A : Nat → Prop} {t0 t : STab} (h : GVia A t0 t) (i j : Nat) (hi : i < t0.n) (hj : j < t0.n) (hA : ¬ A j) :
    t.ptype i j = t0.ptype i j := by
  have e := h.bits_off i j hi hj hA
  rw [ptype_eq, ptype_eq]
  exact PRow.pt_congr _ _ j e.1 e.2

end STab
end Graphiq
