/-
  PrepDepth.lean — `CircuitMaxEmitResetDepth` and `CircuitMaxEmitEffDepth` equal their op-list specifications (C18).

  Ingredients: the schedule of the prepared copy (Proofs/PrepDepthSched.lean: `prep_sched`), the static depth theorem
  (Proofs/PrepDepthStatic.lean: `sched_depth`), and the index bookkeeping between positions in `reg_gate_history` and
  positions in the operation list (this file).
-/
import GraphiqModel.Proofs.PrepDepthSched
set_option linter.unusedSectionVars false
set_option linter.unusedSimpArgs false
namespace Graphiq
namespace Metrics
open Dag Relation

/-! ## list helpers -/

theorem mapM_congr_mem {α : Type} (f g : α → Except DErr Int) (l : List α) (h : ∀ a ∈ l, f a = g a) :
    l.mapM f = l.mapM g := by
  induction l with
  | nil => rfl
  | cons a t ih =>
    rw [List.mapM_cons, List.mapM_cons, h a (by simp), ih (fun x hx => h x (List.mem_cons_of_mem _ hx))]

theorem zipIdx_filter_fst_map {α β : Type} (f : α → Bool) (gg : α × Nat → β) (hh : α → β) (l : List α)
    (hgh : ∀ p, gg p = hh p.1) : ∀ k, ((l.zipIdx k).filter (fun p => f p.1)).map gg = (l.filter f).map hh := by
  induction l with
  | nil => intro k; rfl
  | cons a t ih =>
    intro k
    rw [List.zipIdx_cons, List.filter_cons, List.filter_cons]
    by_cases ha : f a = true
    · simp only [ha, if_true, List.map_cons, ih (k + 1), hgh]
    · simp only [ha, Bool.false_eq_true, if_false, ih (k + 1)]

theorem mem_opRegs_quantum {r : Reg} (hr : r.ty ≠ .c) (o : Op) : r ∈ opRegs o ↔ r ∈ o.qregs := by
  unfold opRegs
  rw [List.mem_append]
  constructor
  · rintro (h | h)
    · exact h
    · exfalso
      obtain ⟨j, _, rfl⟩ := List.mem_map.mp h
      exact hr rfl
  · exact Or.inl

/-! ## marks -/

/-- the condition of the metrics' loops: `type(oper).__name__ in ["Input", "MeasurementCNOTandReset", "Output"]` -/
def isMarkNode (c : Dag) (n : NodeId) : Bool :=
  match c.opOf? n with
  | some op => isResetMark op.kind
  | none => false

theorem markNodes_eq (c : Dag) (h : List NodeId) :
    markNodes c h = (h.zipIdx.filter (fun p => isMarkNode c p.1)).map (fun p => (p.2, p.1)) := rfl

theorem isMarkNode_inp {c : Dag} {P : Paths} (h : Inv c P) {r : Reg} (hl : c.live r) : isMarkNode c (.inp r) = true := by
  obtain ⟨op, hop⟩ := mem_nodeIds.mp ((h.inp_iff r).mpr hl)
  have := h.inp_op r op hop
  unfold isMarkNode
  rw [(opOf_eq_some h.ids_nodup).mpr hop, this]
  cases r with | mk t i => cases t <;> rfl

theorem isMarkNode_out {c : Dag} {P : Paths} (h : Inv c P) {r : Reg} (hl : c.live r) : isMarkNode c (.out r) = true := by
  obtain ⟨op, hop⟩ := mem_nodeIds.mp ((h.out_iff r).mpr hl)
  have := h.out_op r op hop
  unfold isMarkNode
  rw [(opOf_eq_some h.ids_nodup).mpr hop, this]
  cases r with | mk t i => cases t <;> rfl

theorem Sched.isMarkNode_entry {c : Dag} {P : Paths} {L : List (NodeId × Op)} (g : Good c P) (hS : Sched c P L)
    {p : NodeId × Op} (hp : p ∈ L) : isMarkNode c p.1 = decide (p.2.kind = .mcr) := by
  obtain ⟨i, o, hi, hm, hpo⟩ := hS.op_node hp
  have hwf := g.inv.op_wf i o hm
  unfold isMarkNode
  rw [hi, (opOf_eq_some g.inv.ids_nodup).mpr hm, hpo, wiredOp_kind]
  unfold isResetMark
  have h1 := hwf.not_input
  have h2 := hwf.not_output
  simp [h1, h2]

/-- positions `k, k+1, …` of the measure-and-reset operations of a list -/
def marksFrom : Nat → List Op → List Int
  | _, [] => []
  | k, o :: t => (if o.kind = .mcr then [(k : Int)] else []) ++ marksFrom (k + 1) t

theorem marks_model (c : Dag) (Lr : List (NodeId × Op)) (h : ∀ p ∈ Lr, isMarkNode c p.1 = decide (p.2.kind = .mcr)) :
    ∀ k, ((((Lr.map (·.1)).zipIdx k).filter (fun p => isMarkNode c p.1)).map (fun p => ((p.2 : Nat) : Int))) =
      marksFrom k (Lr.map (·.2)) := by
  induction Lr with
  | nil => intro k; rfl
  | cons p t ih =>
    intro k
    have hp := h p (by simp)
    have ht := ih (fun q hq => h q (List.mem_cons_of_mem _ hq)) (k + 1)
    rw [List.map_cons, List.zipIdx_cons, List.filter_cons, List.map_cons, marksFrom]
    by_cases hk : p.2.kind = .mcr
    · simp only [hp, hk, decide_true, if_true, List.map_cons, ht]; rfl
    · simp only [hp, hk, decide_false, Bool.false_eq_true, if_false, ht]; rfl

theorem marks_spec (w : List (Op × Nat)) :
    ∀ j, ((w.zipIdx j).filter (fun p => decide (p.1.1.kind = .mcr))).map (fun p => ((p.2 : Nat) : Int) + 1) =
      marksFrom (j + 1) (w.map (·.1)) := by
  induction w with
  | nil => intro j; rfl
  | cons a t ih =>
    intro j
    rw [List.zipIdx_cons, List.filter_cons, List.map_cons, marksFrom]
    by_cases hk : a.1.kind = .mcr
    · simp only [hk, decide_true, if_true, List.map_cons, ih (j + 1)]; push_cast; rfl
    · simp only [hk, decide_false, Bool.false_eq_true, if_false, ih (j + 1)]; rfl

theorem emitterWire_ops (s : List Op) (i : Nat) :
    (Spec.emitterWire s i).map (·.1) = s.filter (fun o => o.qregs.contains ⟨.e, i⟩) := by
  unfold Spec.emitterWire
  rw [zipIdx_filter_fst_map (fun o => o.qregs.contains ⟨.e, i⟩) (·.1) id s (fun _ => rfl) 0, List.map_id]

/-- the operations on the wire of a quantum register, from the schedule -/
theorem sched_wire_ops (L : List (NodeId × Op)) {r : Reg} (hr : r.ty ≠ .c) :
    (L.map (·.2)).filter (fun o => o.qregs.contains r) = (L.filter (fun p => decide (r ∈ opRegs p.2))).map (·.2) := by
  rw [List.filter_map]
  congr 1
  apply List.filter_congr
  intro p _
  simp only [Function.comp]
  by_cases h : r ∈ p.2.qregs
  · simp [h, (mem_opRegs_quantum hr p.2).mpr h]
  · have h' : r ∉ opRegs p.2 := fun hh => h ((mem_opRegs_quantum hr p.2).mp hh)
    simp [h, h']

/-- **positions**: the marks the model finds on the wire of emitter `i` are the reset marks of the op-list specification -/
theorem reset_marks_eq {c : Dag} {P : Paths} {L : List (NodeId × Op)} (g : Good c P) (hS : Sched c P L) {i : Nat}
    (hl : c.live ⟨.e, i⟩) :
    (markNodes c (P ⟨.e, i⟩)).map (fun p => ((p.1 : Nat) : Int)) = Spec.resetMarks (Spec.emitterWire (L.map (·.2)) i) := by
  have hr : (⟨.e, i⟩ : Reg).ty ≠ .c := by simp
  have hops : (Spec.emitterWire (L.map (·.2)) i).map (·.1) =
      (L.filter (fun p => decide ((⟨.e, i⟩ : Reg) ∈ opRegs p.2))).map (·.2) := by
    rw [emitterWire_ops, sched_wire_ops L hr]
  have hlen : (Spec.emitterWire (L.map (·.2)) i).length = (schedWire L ⟨.e, i⟩).length := by
    have := congrArg List.length hops
    simpa [schedWire] using this
  rw [markNodes_eq, hS.wire _ hl, List.map_map]
  unfold Spec.resetMarks
  rw [marks_spec, hops]
  rw [List.zipIdx_cons, List.zipIdx_append, List.filter_cons, List.filter_append]
  simp only [isMarkNode_inp g.inv hl, if_true, List.map_cons, List.map_append, Function.comp]
  have hmid := marks_model c (L.filter (fun p => decide ((⟨.e, i⟩ : Reg) ∈ opRegs p.2)))
    (fun p hp => hS.isMarkNode_entry g (List.mem_filter.mp hp).1) (0 + 1)
  have hcomp : ((fun p : Nat × NodeId => ((p.1 : Nat) : Int)) ∘ fun p : NodeId × Nat => (p.2, p.1)) =
      fun p => ((p.2 : Nat) : Int) := rfl
  unfold schedWire
  rw [hcomp, hmid]
  simp [isMarkNode_out g.inv hl, hlen, schedWire]
  omega

/-- **`CircuitMaxEmitResetDepth` = the largest gap between consecutive reset marks (input, measure-and-reset, output) on an
    emitter's wire of the unwrapped, identity-free operation list**, for every circuit built by `add` -/
theorem maxEmitResetDepth_eq_spec (ne np nc : Nat) (seq : List Op) (hseq : PlainSeq' seq) (hok : (build ne np nc seq).2 = none) :
    Metrics.maxEmitResetDepth (build ne np nc seq).1 = Spec.maxEmitResetDepth (build ne np nc seq).1.nE seq := by
  obtain ⟨c', P', L', hprep, g', hS', hL', hregs⟩ := prep_sched ne np nc seq hseq hok
  have hnE : c'.nE = (build ne np nc seq).1.nE := congrFun hregs .e
  unfold Metrics.maxEmitResetDepth Spec.maxEmitResetDepth
  rw [hprep, ← hnE]
  show (do let ds ← (List.range c'.nE).mapM _; maxOrErr ds) = (do let ds ← (List.range c'.nE).mapM _; maxOrErr ds)
  congr 1
  apply mapM_congr_mem
  intro i hi
  have hl : c'.live ⟨.e, i⟩ := List.mem_range.mp hi
  rw [regGateHistory_eq_wire g'.inv hl]
  show maxOrErr (diffs ((markNodes c' (P' ⟨.e, i⟩)).map fun p => ((p.1 : Nat) : Int))) = _
  rw [reset_marks_eq g' hS' hl, hL']

/-! ## effective depth -/

theorem layers_getD_split (a : List Op) (o : Op) (b : List Op) :
    ∀ f, (Spec.layers f (a ++ o :: b)).getD a.length 0 = Spec.layerOf (a.foldl Spec.pushLayer f) o := by
  induction a with
  | nil => intro f; simp [Spec.layers]
  | cons x t ih =>
    intro f
    simp only [List.cons_append, Spec.layers, List.length_cons, List.getD_cons_succ, List.foldl_cons]
    exact ih _

theorem layerOf_fronts_le (pre : List Op) (o : Op) : Spec.layerOf (Spec.fronts pre) o ≤ pre.length + 1 := by
  unfold Spec.layerOf
  obtain ⟨_, _, a3⟩ := foldl_max_nat (fun r => Spec.frontGet (Spec.fronts pre) r) (Spec.opRegs o) 0
  rcases a3 with h0 | ⟨x, _, hx⟩
  · rw [h0]; omega
  · rw [← hx]
    have := fronts_bound pre [] 0 (by intro r; simp [Spec.frontGet]) x
    unfold Spec.fronts
    omega

/-- the measure-and-reset entries of the schedule acting on quantum register `r`, with the value `D k` attached to the
    entry at schedule position `k` -/
def midOf (r : Reg) (D : Nat → Int) : Nat → List (NodeId × Op) → List (NodeId × Int)
  | _, [] => []
  | k, p :: t => (if p.2.qregs.contains r && decide (p.2.kind = .mcr) then [(p.1, D k)] else []) ++ midOf r D (k + 1) t

theorem midOf_spec (r : Reg) (D : Nat → Int) (t : List (NodeId × Op)) :
    ∀ k, ((((t.map (·.2)).zipIdx k).filter (fun p => p.1.qregs.contains r)).filter (fun p => decide (p.1.kind = .mcr))).map
      (fun p => D p.2) = (midOf r D k t).map (·.2) := by
  induction t with
  | nil => intro k; rfl
  | cons p t ih =>
    intro k
    rw [List.map_cons, List.zipIdx_cons, midOf, List.map_append, ← ih (k + 1), List.filter_cons]
    by_cases h1 : r ∈ p.2.qregs
    · by_cases h2 : p.2.kind = .mcr
      · simp [h1, h2, List.filter_cons]
      · simp [h1, h2, List.filter_cons]
    · simp [h1, List.filter_cons]

theorem midOf_model {c : Dag} {r : Reg} (hr : r.ty ≠ .c) (D : Nat → Int) (t : List (NodeId × Op))
    (h : ∀ p ∈ t, isMarkNode c p.1 = decide (p.2.kind = .mcr)) :
    ∀ k, (schedWire t r).filter (isMarkNode c) = (midOf r D k t).map (·.1) := by
  induction t with
  | nil => intro k; rfl
  | cons p t ih =>
    intro k
    have hp := h p (by simp)
    have ht := ih (fun q hq => h q (List.mem_cons_of_mem _ hq)) (k + 1)
    rw [midOf, List.map_append, ← ht]
    by_cases h1 : r ∈ p.2.qregs
    · rw [schedWire_cons_pos ((mem_opRegs_quantum hr p.2).mpr h1), List.filter_cons, hp]
      by_cases h2 : p.2.kind = .mcr
      · simp [h1, h2]
      · simp [h1, h2]
    · rw [schedWire_cons_neg (fun hh => h1 ((mem_opRegs_quantum hr p.2).mp hh))]
      simp [h1]

theorem midOf_depth {c : Dag} {P : Paths} {L : List (NodeId × Op)} (g : Good c P) (hS : Sched c P L)
    (hkey : ∀ p ∈ L, "Input" ∉ p.2.indexKeys) (r : Reg) :
    ∀ (suf pre : List (NodeId × Op)), L = pre ++ suf →
      ∀ it ∈ midOf r (fun k => (((Spec.layers [] (L.map (·.2))).getD k 0 : Nat) : Int) - 1) pre.length suf,
        HasDepth c it.1 it.2 ∧ it.2 + 1 ≤ L.length := by
  intro suf
  induction suf with
  | nil => intro pre _ it hit; simp [midOf] at hit
  | cons p t ih =>
    intro pre hL it hit
    rw [midOf, List.mem_append] at hit
    rcases hit with hit | hit
    · by_cases hc : (p.2.qregs.contains r && decide (p.2.kind = .mcr)) = true
      · rw [if_pos hc] at hit
        simp only [List.mem_singleton] at hit
        subst hit
        have hd := (sched_depth g hS hkey).1 pre p t hL
        have hlay : (Spec.layers [] (L.map (·.2))).getD pre.length 0 = Spec.layerOf (Spec.fronts (pre.map (·.2))) p.2 := by
          rw [hL, List.map_append, List.map_cons]
          have := layers_getD_split (pre.map (·.2)) p.2 (t.map (·.2)) []
          rw [List.length_map] at this
          exact this
        simp only
        rw [hlay]
        refine ⟨hd, ?_⟩
        have := layerOf_fronts_le (pre.map (·.2)) p.2
        rw [List.length_map] at this
        have hlen : L.length = pre.length + (t.length + 1) := by rw [hL]; simp
        omega
      · rw [if_neg hc] at hit; simp at hit
    · have := ih (pre ++ [p]) (by rw [hL]; simp) it (by simpa using hit)
      exact this

theorem Sched.length_lt {c : Dag} {P : Paths} {L : List (NodeId × Op)} (g : Good c P) (hS : Sched c P L) {r : Reg}
    (hl : c.live r) : L.length < c.nodes.length := by
  have hnd : (NodeId.inp r :: L.map (·.1)).Nodup := by
    rw [List.nodup_cons]
    refine ⟨?_, hS.nodup⟩
    intro hm
    obtain ⟨p, hp, hp1⟩ := List.mem_map.mp hm
    obtain ⟨i, _, hi, _, _⟩ := hS.op_node hp
    rw [hi] at hp1; cases hp1
  have hsub : ∀ x ∈ NodeId.inp r :: L.map (·.1), x ∈ c.nodeIds := by
    intro x hx
    rcases List.mem_cons.mp hx with rfl | hx
    · exact (g.inv.inp_iff r).mpr hl
    · obtain ⟨p, hp, rfl⟩ := List.mem_map.mp hx
      exact hS.mem_nodeIds hp
  have := hnd.length_le_of_subset hsub
  simp [nodeIds] at this
  omega

/-- **depths**: `_max_depth` of the marks the model finds on the wire of emitter `i` — input, every measure-and-reset,
    output — are −1, the ASAP depths of those operations in the operation list, and the ASAP depth of the register -/
theorem eff_depths_eq {c : Dag} {P : Paths} {L : List (NodeId × Op)} (g : Good c P) (hS : Sched c P L)
    (hkey : ∀ p ∈ L, "Input" ∉ p.2.indexKeys) {i : Nat} (hl : c.live ⟨.e, i⟩) :
    (markNodes c (P ⟨.e, i⟩)).mapM (fun p => c.maxDepth (c.nodes.length + 1) p.2) =
      .ok ([-1] ++ (((Spec.emitterWire (L.map (·.2)) i).filter fun p => p.1.kind = .mcr).map fun p =>
            (((Spec.layers [] (L.map (·.2))).getD p.2 0 : Nat) : Int) - 1) ++
          [((Spec.regDepth (L.map (·.2)) ⟨.e, i⟩ : Nat) : Int)]) := by
  have hr : (⟨.e, i⟩ : Reg).ty ≠ .c := by simp
  let D : Nat → Int := fun k => (((Spec.layers [] (L.map (·.2))).getD k 0 : Nat) : Int) - 1
  let items : List (NodeId × Int) :=
    (NodeId.inp ⟨.e, i⟩, -1) :: (midOf ⟨.e, i⟩ D 0 L ++ [(NodeId.out ⟨.e, i⟩, ((Spec.regDepth (L.map (·.2)) ⟨.e, i⟩ : Nat) : Int))])
  have hnodes : (markNodes c (P ⟨.e, i⟩)).map (·.2) = items.map (·.1) := by
    rw [markNodes_eq, List.map_map,
      zipIdx_filter_fst_map (isMarkNode c) ((·.2) ∘ fun p : NodeId × Nat => (p.2, p.1)) id (P ⟨.e, i⟩) (fun _ => rfl) 0,
      List.map_id, hS.wire _ hl, List.filter_cons, List.filter_append]
    simp only [isMarkNode_inp g.inv hl, if_true, items, List.map_cons, List.map_append, List.map_nil]
    rw [midOf_model hr D L (fun p hp => hS.isMarkNode_entry g hp) 0]
    simp [isMarkNode_out g.inv hl]
  have hlt := hS.length_lt g hl
  have hitems : ∀ it ∈ items, c.maxDepth (c.nodes.length + 1) it.1 = .ok it.2 := by
    intro it hit
    simp only [items, List.mem_cons, List.mem_append, List.mem_singleton, List.not_mem_nil, or_false] at hit
    rcases hit with rfl | hit | rfl
    · apply maxDepth_of_hasDepth (HasDepth.input (isInputNode_inp g.inv hl))
      push_cast; omega
    · obtain ⟨hd, hb⟩ := midOf_depth g hS hkey ⟨.e, i⟩ L [] rfl it hit
      apply maxDepth_of_hasDepth hd
      push_cast; omega
    · apply maxDepth_of_hasDepth ((sched_depth g hS hkey).2 _ hl)
      have := regDepth_le_length (L.map (·.2)) ⟨.e, i⟩
      rw [List.length_map] at this
      push_cast; omega
  have hmap : (markNodes c (P ⟨.e, i⟩)).mapM (fun p => c.maxDepth (c.nodes.length + 1) p.2) =
      ((markNodes c (P ⟨.e, i⟩)).map (·.2)).mapM (c.maxDepth (c.nodes.length + 1)) := by
    rw [List.mapM_map]; rfl
  rw [hmap, hnodes, mapM_ok_of_forall (c.maxDepth (c.nodes.length + 1)) (·.1) (·.2) items hitems]
  congr 1
  simp only [items, List.map_cons, List.map_append, List.map_nil]
  rw [← midOf_spec ⟨.e, i⟩ D L 0]
  rfl

/-- **`CircuitMaxEmitEffDepth` = the largest difference between the ASAP depths of consecutive reset marks (input: −1,
    measure-and-reset: its ASAP layer − 1, output: ASAP depth of the register) on an emitter's wire of the unwrapped,
    identity-free operation list**, for every circuit built by `add` -/
theorem maxEmitEffDepth_eq_spec (ne np nc : Nat) (seq : List Op) (hseq : PlainSeq' seq) (hok : (build ne np nc seq).2 = none) :
    Metrics.maxEmitEffDepth (build ne np nc seq).1 = Spec.maxEmitEffDepth (build ne np nc seq).1.nE seq := by
  obtain ⟨c', P', L', hprep, g', hS', hL', hregs⟩ := prep_sched ne np nc seq hseq hok
  have hnE : c'.nE = (build ne np nc seq).1.nE := congrFun hregs .e
  have hkey : ∀ p ∈ L', "Input" ∉ p.2.indexKeys := by
    intro p hp
    have ho : p.2 ∈ Spec.unwrapSeq seq := by rw [← hL']; exact List.mem_map.mpr ⟨p, hp, rfl⟩
    rw [unwrapSeq_eq] at ho
    have hm := (List.mem_filter.mp ho).1
    exact input_not_key (wf_flatMap_unwrap (fun o ho => (hseq o ho).1) p.2 hm)
      (plain_flatMap_unwrap (fun o ho => (hseq o ho).2) p.2 hm).toPlainOp
  unfold Metrics.maxEmitEffDepth Spec.maxEmitEffDepth
  rw [hprep, ← hnE]
  show (do let ds ← (List.range c'.nE).mapM _; maxOrErr ds) = (do let ds ← (List.range c'.nE).mapM _; maxOrErr ds)
  congr 1
  apply mapM_congr_mem
  intro i hi
  have hl : c'.live ⟨.e, i⟩ := List.mem_range.mp hi
  rw [regGateHistory_eq_wire g'.inv hl]
  show (do let depths ← (markNodes c' (P' ⟨.e, i⟩)).mapM (fun p : Nat × NodeId => c'.maxDepth (c'.nodes.length + 1) p.2)
           maxOrErr (diffs depths)) = _
  rw [eff_depths_eq g' hS' hkey hl, hL']
  rfl

end Metrics
end Graphiq
