/-
  Proofs/TabSpecGroup.lean — the stabilizer *group* of a valid Clifford tableau, for every number of qubits:

  * `Grp t` = signed span of the stabilizer rows; it is abelian, real, and does not contain `-1`;
  * the `2n` rows of a valid tableau span all Pauli strings (counting argument), hence a row that commutes with all of
    them is the identity string (`valid_nondeg`);
  * maximality: a real row commuting with every stabilizer generator is in the group up to sign (`grp_maximal`);
  * `IsStabGrp n H`: abstract "stabilizer group on n qubits"; a valid tableau whose generators lie in such an `H`
    has exactly the group `H` (`grp_unique`) — the tool by which the state specifications of C07 are proved.
-/
import GraphiqModel.Proofs.CanonSpan
import Mathlib.Data.Fintype.BigOperators
namespace Graphiq.TabSpec
open Graphiq PRow Tab STab

/-! ### sign flip -/

/-- the row with the opposite sign -/
def negate (a : PRow) : PRow := { a with r := !a.r }

@[simp] theorem negate_x (a : PRow) (j : Nat) : (negate a).x j = a.x j := rfl
@[simp] theorem negate_z (a : PRow) (j : Nat) : (negate a).z j = a.z j := rfl
@[simp] theorem negate_ip (a : PRow) : (negate a).ip = a.ip := rfl
@[simp] theorem negate_r (a : PRow) : (negate a).r = !a.r := rfl

theorem negate_negate (a : PRow) : negate (negate a) = a := by
  cases a; simp [negate]

theorem negate_ph (a : PRow) : (negate a).ph = (a.ph + 2) % 4 := by
  unfold PRow.ph negate
  cases a.r <;> cases a.ip <;> simp [Bool.toInt']

theorem negate_congr (n : Nat) (a b : PRow) (h : EqOn n a b) : EqOn n (negate a) (negate b) :=
  ⟨h.1, by simp [h.2.1], h.2.2⟩

theorem sp_negate_left (n : Nat) (a b : PRow) : sp n (negate a) b = sp n a b := rfl
theorem sp_negate_right (n : Nat) (a b : PRow) : sp n a (negate b) = sp n a b := rfl

theorem mul_negate_left (n : Nat) (a b : PRow) : EqOn n (PRow.mul n (negate a) b) (negate (PRow.mul n a b)) := by
  apply eqOn_of
  · intro j _; exact ⟨rfl, rfl⟩
  · rw [negate_ph, mul_ph, mul_ph, negate_ph]
    have : gSum n (negate a) b = gSum n a b := rfl
    rw [this]; omega

theorem mul_negate_right (n : Nat) (a b : PRow) : EqOn n (PRow.mul n a (negate b)) (negate (PRow.mul n a b)) := by
  apply eqOn_of
  · intro j _; exact ⟨rfl, rfl⟩
  · rw [negate_ph, mul_ph, mul_ph, negate_ph]
    have : gSum n a (negate b) = gSum n a b := rfl
    rw [this]; omega

theorem negate_ne (n : Nat) (a : PRow) : ¬ EqOn n (negate a) a := by
  intro h
  have := h.2.1
  simp at this

/-- two rows with the same Pauli string and the same i-phase bit are equal or opposite -/
theorem eqOn_or_negate (n : Nat) (a b : PRow) (h : SameBits n a b) (hi : a.ip = b.ip) :
    EqOn n a b ∨ EqOn n a (negate b) := by
  by_cases hr : a.r = b.r
  · exact Or.inl ⟨h, hr, hi⟩
  · refine Or.inr ⟨h, ?_, hi⟩
    show a.r = !b.r
    revert hr; cases a.r <;> cases b.r <;> simp

theorem mul_self_negate (n : Nat) (a : PRow) (hr : a.ip = false) :
    EqOn n (PRow.mul n a (negate a)) (negate PRow.one) :=
  (mul_negate_right n a a).trans (negate_congr n _ _ (mul_self n a hr))

/-- if a product with a commuting real row is real, so is the other factor -/
theorem real_of_mul_real (n : Nat) (a b : PRow) (hab : (PRow.mul n a b).ip = false) (hb : b.ip = false)
    (hc : sp n a b = false) : a.ip = false := by
  have hp := mul_ph n a b
  have hg := gSum_parity n a b
  rw [hc] at hg
  have e2 : b.ph % 2 = 0 := by unfold PRow.ph; rw [hb]; cases b.r <;> simp [Bool.toInt']
  have e3 : (PRow.mul n a b).ph % 2 = 0 := by
    unfold PRow.ph; rw [hab]; cases (PRow.mul n a b).r <;> simp [Bool.toInt']
  have e1 : a.ph % 2 = 0 := by
    simp [Bool.toInt'] at hg; omega
  unfold PRow.ph at e1
  cases h : a.ip
  · rfl
  · exfalso
    rw [h] at e1
    rcases toInt'_cases a.r with h1 | h1 <;> rw [h1] at e1 <;> simp [Bool.toInt'] at e1

/-! ### the stabilizer group of a Clifford tableau -/

/-- the stabilizer group: signed span of the stabilizer rows -/
def Grp (t : Tab) (P : PRow) : Prop := InSpan t.n t.n t.stab P

/-- the stabilizer half as a stabilizer tableau (to reuse the span lemmas of `Proofs/StabTableau`, `Proofs/CanonSpan`) -/
def stabTab (t : Tab) : STab := ⟨t.n, t.stab⟩

theorem stabTab_good (t : Tab) (hv : t.Valid) (hr : t.StabReal) : (stabTab t).Good :=
  ⟨fun i hi => hr (i + t.n) (by omega) (by show i + t.n < 2 * t.n; have : i < t.n := hi; omega),
   fun i k hi hk => by
    have hi' : i < t.n := hi
    have hk' : k < t.n := hk
    show sp t.n (t.row (i + t.n)) (t.row (k + t.n)) = false
    rw [hv _ _ (by omega) (by omega)]; exact decide_eq_false (by omega)⟩

theorem grp_gen (t : Tab) (i : Nat) (hi : i < t.n) : Grp t (t.stab i) := InSpan.gen i hi

theorem grp_row (t : Tab) (i : Nat) (h1 : t.n ≤ i) (h2 : i < 2 * t.n) : Grp t (t.row i) := by
  have : t.row i = t.stab (i - t.n) := by unfold stab; congr 1; omega
  rw [this]; exact grp_gen t _ (by omega)

theorem grp_comm (t : Tab) (hv : t.Valid) (hr : t.StabReal) (a b : PRow) (ha : Grp t a) (hb : Grp t b) :
    sp t.n a b = false := STab.spn_comm (stabTab t) (stabTab_good t hv hr) a b ha hb

theorem grp_real (t : Tab) (hv : t.Valid) (hr : t.StabReal) (a : PRow) (ha : Grp t a) : a.ip = false :=
  STab.spn_real (stabTab t) (stabTab_good t hv hr) a ha

/-! ### the rows of a valid tableau span all Pauli strings -/

theorem sp_one_right (n : Nat) (a : PRow) : sp n a PRow.one = false := by
  rw [sp_comm]; exact STab.sp_one_left n a

/-- commutation with a subset product is the parity of the commutations with the selected rows -/
theorem sp_sprod (n : Nat) (row : Nat → PRow) (S : Nat → Bool) (m : Nat) (P : PRow) :
    sp n P (sprod n row S m) = parityTo m (fun i => S i && sp n P (row i)) := by
  induction m with
  | zero => exact sp_one_right n P
  | succ k ih =>
    simp only [sprod, parityTo]
    cases h : S k
    · simp [ih]
    · simp [sp_mul_right, ih, Bool.xor_comm]

/-- index of the row paired with row `i` -/
def partner (n i : Nat) : Nat := if i < n then i + n else i - n

theorem partner_lt (n i : Nat) (hi : i < 2 * n) : partner n i < 2 * n := by
  unfold partner; split <;> omega

/-- the partner of row `i` reads off whether `i` is in the subset -/
theorem sp_partner_sprod (t : Tab) (hv : t.Valid) (S : Nat → Bool) (i : Nat) (hi : i < 2 * t.n) :
    sp t.n (t.row (partner t.n i)) (sprod t.n t.row S (2 * t.n)) = S i := by
  rw [sp_sprod]
  have hp := partner_lt t.n i hi
  rw [parityTo_congr (2 * t.n) _ (fun k => decide (k = i) && S k)]
  · exact parityTo_single _ _ _ hi
  · intro k hk
    rw [hv _ _ hp hk]
    have : decide (partner t.n i + t.n = k ∨ k + t.n = partner t.n i) = decide (k = i) := by
      apply decide_eq_decide.mpr; unfold partner; split <;> omega
    rw [this, Bool.and_comm]

/-- a destabilizer reads off whether its stabilizer partner is in a subset product of stabilizers -/
theorem sp_destab_sprod (t : Tab) (hv : t.Valid) (S : Nat → Bool) (k : Nat) (hk : k < t.n) :
    sp t.n (t.row k) (sprod t.n t.stab S t.n) = S k := by
  rw [sp_sprod]
  rw [parityTo_congr t.n _ (fun i => decide (i = k) && S i)]
  · exact parityTo_single _ _ _ hk
  · intro i hi
    show (S i && sp t.n (t.row k) (t.row (i + t.n))) = _
    rw [hv _ _ (by omega) (by omega)]
    have : decide (k + t.n = i + t.n ∨ i + t.n + t.n = k) = decide (i = k) := decide_eq_decide.mpr (by omega)
    rw [this, Bool.and_comm]

/-- subset of `Fin N` as a predicate on `Nat` -/
def extB {N : Nat} (S : Fin N → Bool) : Nat → Bool := fun i => if h : i < N then S ⟨i, h⟩ else false

/-- **the `2n` rows of a valid tableau span every Pauli string** (the subset-product map is injective by the pairing,
    hence surjective by counting: `2^(2n)` subsets, `2^n · 2^n` strings) -/
theorem rows_span (t : Tab) (hv : t.Valid) (P : PRow) :
    ∃ S : Nat → Bool, SameBits t.n (sprod t.n t.row S (2 * t.n)) P := by
  let f : (Fin (2 * t.n) → Bool) → (Fin t.n → Bool) × (Fin t.n → Bool) :=
    fun S => (fun j => (sprod t.n t.row (extB S) (2 * t.n)).x j, fun j => (sprod t.n t.row (extB S) (2 * t.n)).z j)
  have inj : Function.Injective f := by
    intro S T h
    funext i
    have sb : SameBits t.n (sprod t.n t.row (extB S) (2 * t.n)) (sprod t.n t.row (extB T) (2 * t.n)) := by
      intro j hj
      exact ⟨congrFun (congrArg Prod.fst h) ⟨j, hj⟩, congrFun (congrArg Prod.snd h) ⟨j, hj⟩⟩
    have e1 := sp_partner_sprod t hv (extB S) i.val i.isLt
    have e2 := sp_partner_sprod t hv (extB T) i.val i.isLt
    rw [sp_congr _ _ _ _ _ (sameBits_refl _ _) sb, e2] at e1
    simpa [extB, i.isLt] using e1.symm
  have card : Fintype.card (Fin (2 * t.n) → Bool) = Fintype.card ((Fin t.n → Bool) × (Fin t.n → Bool)) := by
    have : 2 ^ (2 * t.n) = 2 ^ t.n * 2 ^ t.n := by rw [Nat.two_mul, Nat.pow_add]
    simpa using this
  have bij := (Fintype.bijective_iff_injective_and_card f).mpr ⟨inj, card⟩
  obtain ⟨S, hS⟩ := bij.2 (fun j => P.x j, fun j => P.z j)
  refine ⟨extB S, fun j hj => ?_⟩
  exact ⟨congrFun (congrArg Prod.fst hS) ⟨j, hj⟩, congrFun (congrArg Prod.snd hS) ⟨j, hj⟩⟩

/-- **non-degeneracy**: a row that commutes with all `2n` rows of a valid tableau is the identity string -/
theorem valid_nondeg (t : Tab) (hv : t.Valid) (P : PRow) (h : ∀ i, i < 2 * t.n → sp t.n P (t.row i) = false) :
    ∀ j, j < t.n → P.x j = false ∧ P.z j = false := by
  intro j hj
  have comm : ∀ S, sp t.n P (sprod t.n t.row S (2 * t.n)) = false := by
    intro S; rw [sp_sprod]; apply parityTo_zero; intro i hi; rw [h i hi]; simp
  constructor
  · obtain ⟨S, hS⟩ := rows_span t hv (Zq j)
    have := comm S
    rw [sp_congr _ _ _ _ _ (sameBits_refl _ _) hS, sp_Zq _ _ _ _ hj] at this
    exact this
  · obtain ⟨S, hS⟩ := rows_span t hv (Xq j)
    have := comm S
    rw [sp_congr _ _ _ _ _ (sameBits_refl _ _) hS, sp_Xq _ _ _ _ hj] at this
    exact this

theorem xor_eq_false_iff (a b : Bool) : xor a b = false ↔ a = b := by cases a <;> cases b <;> simp

/-- two rows with the same commutation pattern against all `2n` rows have the same Pauli string -/
theorem sameBits_of_sp (t : Tab) (hv : t.Valid) (P Q : PRow)
    (h : ∀ i, i < 2 * t.n → sp t.n P (t.row i) = sp t.n Q (t.row i)) : SameBits t.n P Q := by
  have hall : ∀ i, i < 2 * t.n → sp t.n (PRow.mul t.n P Q) (t.row i) = false := by
    intro i hi; rw [sp_mul_left, h i hi]; simp
  intro j hj
  have := valid_nondeg t hv _ hall j hj
  simp only [mul_x, mul_z] at this
  exact ⟨(xor_eq_false_iff _ _).mp this.1, (xor_eq_false_iff _ _).mp this.2⟩

/-! ### maximality and consistency of the stabilizer group -/

/-- **maximality**: a real row commuting with every stabilizer generator of a valid tableau is, up to sign, in the group -/
theorem grp_maximal (t : Tab) (hv : t.Valid) (hr : t.StabReal) (P : PRow) (hP : P.ip = false)
    (hc : ∀ i, i < t.n → sp t.n P (t.stab i) = false) : Grp t P ∨ Grp t (negate P) := by
  have good := stabTab_good t hv hr
  have hQ : Grp t (sprod t.n t.stab (fun i => sp t.n P (t.row i)) t.n) :=
    STab.sprod_spn (stabTab t) _ t.n (Nat.le_refl _)
  generalize hQdef : sprod t.n t.stab (fun i => sp t.n P (t.row i)) t.n = Q at hQ
  have sb : SameBits t.n P Q := by
    apply sameBits_of_sp t hv
    intro i hi
    by_cases hin : i < t.n
    · have e := sp_destab_sprod t hv (fun i => sp t.n P (t.row i)) i hin
      rw [hQdef] at e
      rw [sp_comm t.n Q (t.row i), e, sp_comm]
    · have e : t.row i = t.stab (i - t.n) := by unfold stab; congr 1; omega
      rw [e, hc _ (by omega)]
      exact (STab.spn_comm_gens (stabTab t) good Q hQ (i - t.n) (by show i - t.n < t.n; omega)).symm
  have hQr : Q.ip = false := grp_real t hv hr Q hQ
  rcases eqOn_or_negate t.n P Q sb (hP.trans hQr.symm) with e | e
  · exact Or.inl (InSpan.eqv _ _ hQ e.symm)
  · refine Or.inr (InSpan.eqv _ _ hQ ?_)
    have := negate_congr _ _ _ e
    rw [negate_negate] at this
    exact this.symm

/-- an element of the group with the identity string is the identity (sign `+`) -/
theorem grp_trivial_of_bits (t : Tab) (hv : t.Valid) (hr : t.StabReal) (P : PRow) (hP : Grp t P)
    (hz : ∀ j, j < t.n → P.x j = false ∧ P.z j = false) : EqOn t.n P PRow.one := by
  obtain ⟨S, hS⟩ := STab.spn_repr (stabTab t) (stabTab_good t hv hr) P hP
  have hS' : EqOn t.n P (sprod t.n t.stab S t.n) := hS
  have hSf : ∀ k, k < t.n → S k = false := by
    intro k hk
    have e := sp_destab_sprod t hv S k hk
    rw [← sp_eqOn _ _ _ _ _ (EqOn.refl _ _) hS'] at e
    have : sp t.n (t.row k) P = false := by
      unfold sp; apply parityTo_zero; intro j hj; simp [(hz j hj).1, (hz j hj).2]
    rw [this] at e; exact e.symm
  rw [STab.sprod_none _ _ _ _ hSf] at hS'
  exact hS'

/-- `-1` is not in the stabilizer group of a valid tableau -/
theorem grp_no_neg_one (t : Tab) (hv : t.Valid) (hr : t.StabReal) : ¬ Grp t (negate PRow.one) := by
  intro h
  have := grp_trivial_of_bits t hv hr _ h (fun j _ => ⟨rfl, rfl⟩)
  exact negate_ne t.n PRow.one this

/-! ### abstract stabilizer groups -/

/-- a set of rows that is a stabilizer group on `n` qubits: closed under the signed product and row equality,
    real, abelian, without `-1` -/
structure IsStabGrp (n : Nat) (H : PRow → Prop) : Prop where
  one : H PRow.one
  mul : ∀ a b, H a → H b → H (PRow.mul n a b)
  eqv : ∀ a b, H a → EqOn n a b → H b
  real : ∀ a, H a → a.ip = false
  comm : ∀ a b, H a → H b → sp n a b = false
  noNeg : ¬ H (negate PRow.one)

theorem IsStabGrp.cons {n : Nat} {H : PRow → Prop} (h : IsStabGrp n H) (a : PRow) (ha : H a) : ¬ H (negate a) := by
  intro hn
  exact h.noNeg (h.eqv _ _ (h.mul _ _ ha hn) (mul_self_negate n a (h.real a ha)))

theorem IsStabGrp.negate_iff {n : Nat} {H : PRow → Prop} (h : IsStabGrp n H) (a : PRow) (ha : H (negate a)) : ¬ H a := by
  intro hn
  have := h.cons (negate a) ha
  rw [negate_negate] at this
  exact this hn

theorem grp_isStabGrp (t : Tab) (hv : t.Valid) (hr : t.StabReal) : IsStabGrp t.n (Grp t) where
  one := InSpan.one
  mul a b ha hb := InSpan.mul a b ha hb
  eqv a b ha hab := InSpan.eqv a b ha hab
  real a ha := grp_real t hv hr a ha
  comm a b ha hb := grp_comm t hv hr a b ha hb
  noNeg := grp_no_neg_one t hv hr

/-- a stabilizer group containing the generators contains their span -/
theorem grp_le (t : Tab) (H : PRow → Prop) (hH : IsStabGrp t.n H) (hgen : ∀ i, i < t.n → H (t.stab i)) :
    ∀ P, Grp t P → H P := by
  intro P hP
  unfold Grp at hP
  induction hP with
  | one => exact hH.one
  | gen i hi => exact hgen i hi
  | mul a b _ _ iha ihb => exact hH.mul a b iha ihb
  | eqv a b _ hab iha => exact hH.eqv a b iha hab

/-- **uniqueness**: the group of a valid tableau is the only stabilizer group (on its qubits) containing its generators -/
theorem grp_unique (t : Tab) (hv : t.Valid) (H : PRow → Prop) (hH : IsStabGrp t.n H)
    (hgen : ∀ i, i < t.n → H (t.stab i)) : ∀ P, Grp t P ↔ H P := by
  have hr : t.StabReal := by
    intro i h1 h2
    have : t.row i = t.stab (i - t.n) := by unfold stab; congr 1; omega
    rw [this]; exact hH.real _ (hgen _ (by omega))
  intro P
  constructor
  · exact grp_le t H hH hgen P
  · intro hP
    rcases grp_maximal t hv hr P (hH.real P hP) (fun i hi => hH.comm _ _ hP (hgen i hi)) with h | h
    · exact h
    · exact absurd (grp_le t H hH hgen _ h) (hH.cons P hP)

/-- the stabilizer rows of a tableau whose generators lie in a stabilizer group are real -/
theorem stabReal_of_gens (t : Tab) (H : PRow → Prop) (hH : IsStabGrp t.n H) (hgen : ∀ i, i < t.n → H (t.stab i)) :
    t.StabReal := by
  intro i h1 h2
  have : t.row i = t.stab (i - t.n) := by unfold stab; congr 1; omega
  rw [this]; exact hH.real _ (hgen _ (by omega))

/-- two groups are the same predicate when they have the same elements -/
theorem pred_ext {A B : PRow → Prop} (h : ∀ P, A P ↔ B P) : A = B := funext fun P => propext (h P)

end Graphiq.TabSpec
