/-
  Proofs/CommuteRecordRw.lean — the rewrites of C13 and the classical wires.

  `flat` does not contain the classical wires.  For a circuit whose measuring operations are threaded on the classical wire
  they write (`CThreaded`), every rewrite keeps them threaded and keeps, for every classical register, the sequence of
  operations on its wire (`CFlat`):
  * `unwrap_nodes`, `remove_identity`, `group_one_qubit_gates` only insert / remove one-qubit gates, which have no
    classical register and are not on classical wires: the classical wires and the nodes on them are untouched (`CInv`);
  * `assign_noise(∅)` re-`add`s every operation along a linear extension, which threads it on its classical wires in the
    order of the old classical wire (`AssignInvC`).
  Consequence (`rewrites_proj_regsC_eq`): all per-register projections — classical registers included — of a compile
  sequence of the rewritten circuit and of the original agree, so `same_wires_same_state` applies to the semantics with
  the classical record.
-/
import GraphiqModel.Proofs.CommuteRecord
import GraphiqModel.Proofs.CommuteTableau
namespace Graphiq.Commute
open Graphiq
open Graphiq.Wire

/-- per classical register: the operations on its wire, in wire order -/
def CFlat (c c' : Circuit) : Prop :=
  ∀ i, (c'.wire ⟨.c, i⟩).flatMap c'.sopsOfNode = (c.wire ⟨.c, i⟩).flatMap c.sopsOfNode

/-- invariant of the gate-only edits (`insertAt` of a one-qubit gate on a quantum edge, `removeOp` of a one-qubit gate)
    relative to the circuit `c0` the rewrite started from -/
structure CInv (c0 c : Circuit) : Prop where
  wbound : ∀ r n, n ∈ c.wire r → n ≤ c.nid
  nbound : ∀ n op, c.node n = some op → n ≤ c.nid
  qty : ∀ n op, c.node n = some op → ∀ r, r ∈ op.q → r.ty ≠ .c
  gateOff : ∀ n op, c.node n = some op → op.kind.isGate1 = true → ∀ i, n ∉ c.wire ⟨.c, i⟩
  keepW : ∀ i, c.wire ⟨.c, i⟩ = c0.wire ⟨.c, i⟩
  keepN : ∀ i n, n ∈ c0.wire ⟨.c, i⟩ → c.node n = c0.node n
  thr : CThreaded c

theorem cinv_refl (c : Circuit) (hgood : c.Good) (hthr : CThreaded c) : CInv c c where
  wbound r n h := hgood.1.wire_le h
  nbound n op h := (hgood.1.bound n op h).2
  qty n op h r hr := (hgood.1.qvalid n op h r hr).2
  gateOff n op h hg i hin := by
    have := hgood.1.cwire n op h i hin
    rw [((good_arity1 hgood) n op h hg).2] at this
    cases this
  keepW _ := rfl
  keepN _ _ _ := rfl
  thr := hthr

theorem cinv_insertAt {c0 c : Circuit} (h : CInv c0 c) (op : Op) (_hg : op.kind.isGate1 = true) (hcr : op.cr = [])
    (hq : ∀ r, r ∈ op.q → r.ty ≠ .c) (e : Edge) (he : e.r.ty ≠ .c) : CInv c0 (c.insertAt op [e]) := by
  have hnd : (([e] : List Edge).map (·.r)).Nodup := by simp
  have hcw : ∀ i, (c.insertAt op [e]).wire ⟨.c, i⟩ = c.wire ⟨.c, i⟩ := by
    intro i
    apply insertAt_wire_of_not_mem
    simp only [List.map_cons, List.map_nil, List.mem_singleton]
    intro hh
    exact he (by rw [← hh])
  refine ⟨?_, ?_, ?_, ?_, ?_, ?_, ?_⟩
  · intro r n hn
    rw [insertAt_nid]
    rcases (mem_insertAt_wire c op [e] hnd r n).mp hn with h1 | ⟨h1, _⟩
    · have := h.wbound r n h1; omega
    · omega
  · intro n op' hn
    rw [insertAt_nid]
    rw [insertAt_node] at hn
    by_cases hk : n = c.nid + 1
    · omega
    · rw [if_neg hk] at hn; have := h.nbound n op' hn; omega
  · intro n op' hn r hr
    rw [insertAt_node] at hn
    by_cases hk : n = c.nid + 1
    · rw [if_pos hk] at hn; cases hn; exact hq r hr
    · rw [if_neg hk] at hn; exact h.qty n op' hn r hr
  · intro n op' hn hg' i hin
    rw [hcw] at hin
    rw [insertAt_node] at hn
    by_cases hk : n = c.nid + 1
    · have := h.wbound _ n hin; omega
    · rw [if_neg hk] at hn; exact h.gateOff n op' hn hg' i hin
  · intro i; rw [hcw]; exact h.keepW i
  · intro i n hn
    have hin : n ∈ c.wire ⟨.c, i⟩ := by rw [h.keepW i]; exact hn
    have := h.wbound _ n hin
    rw [insertAt_node, if_neg (by omega)]
    exact h.keepN i n hn
  · intro n op' hn i hi
    rw [hcw]
    rw [insertAt_node] at hn
    by_cases hk : n = c.nid + 1
    · rw [if_pos hk] at hn; cases hn; rw [hcr] at hi; cases hi
    · rw [if_neg hk] at hn; exact h.thr n op' hn i hi

theorem cinv_removeOp {c0 c : Circuit} (h : CInv c0 c) (n : Nat) (op : Op) (hn : c.node n = some op)
    (hg : op.kind.isGate1 = true) : CInv c0 (c.removeOp n) := by
  have hoff := h.gateOff n op hn hg
  have hcw : ∀ i, (c.removeOp n).wire ⟨.c, i⟩ = c.wire ⟨.c, i⟩ := fun i => filter_ne_of_not_mem _ n (hoff i)
  refine ⟨?_, ?_, ?_, ?_, ?_, ?_, ?_⟩
  · intro r m hm
    exact h.wbound r m ((mem_removeOp_wire c n m r).mp hm).1
  · intro m op' hm
    rw [removeOp_node] at hm
    by_cases hk : m = n
    · rw [if_pos hk] at hm; cases hm
    · rw [if_neg hk] at hm; exact h.nbound m op' hm
  · intro m op' hm r hr
    rw [removeOp_node] at hm
    by_cases hk : m = n
    · rw [if_pos hk] at hm; cases hm
    · rw [if_neg hk] at hm; exact h.qty m op' hm r hr
  · intro m op' hm hg' i hin
    rw [hcw] at hin
    rw [removeOp_node] at hm
    by_cases hk : m = n
    · rw [if_pos hk] at hm; cases hm
    · rw [if_neg hk] at hm; exact h.gateOff m op' hm hg' i hin
  · intro i; rw [hcw]; exact h.keepW i
  · intro i m hm
    have hin : m ∈ c.wire ⟨.c, i⟩ := by rw [h.keepW i]; exact hm
    have hk : m ≠ n := fun e => hoff i (e ▸ hin)
    rw [removeOp_node, if_neg hk]
    exact h.keepN i m hm
  · intro m op' hm i hi
    rw [hcw]
    rw [removeOp_node] at hm
    by_cases hk : m = n
    · rw [if_pos hk] at hm; cases hm
    · rw [if_neg hk] at hm; exact h.thr m op' hm i hi

theorem CInv.cflat {c0 c : Circuit} (h : CInv c0 c) : CFlat c0 c := by
  intro i
  rw [h.keepW i]
  apply flatMap_congr'
  intro n hn
  unfold Circuit.sopsOfNode
  rw [h.keepN i n hn]

/-! ### unwrap_nodes -/

theorem cinv_unwrapFold {c0 : Circuit} (n : Nat) (r : Reg) (hr : r.ty ≠ .c) (opn : Op) (gl : List G1) (c : Circuit)
    (h : CInv c0 c) (hn : c.node n = some opn) :
    CInv c0 (gl.foldl (fun c' g => c'.insertAt (Op.base1 g r) [⟨r, (c'.wire r).idxOf n⟩]) c) ∧
      (gl.foldl (fun c' g => c'.insertAt (Op.base1 g r) [⟨r, (c'.wire r).idxOf n⟩]) c).node n = some opn := by
  induction gl generalizing c with
  | nil => exact ⟨h, hn⟩
  | cons g gl ih =>
    rw [List.foldl_cons]
    apply ih
    · exact cinv_insertAt h (Op.base1 g r) rfl rfl
        (fun r' hr' => by simp only [Op.base1, List.mem_singleton] at hr'; rw [hr']; exact hr) _ hr
    · have := h.nbound n opn hn
      rw [insertAt_node, if_neg (by omega)]
      exact hn

theorem cinv_unwrapNode {c0 c : Circuit} (h : CInv c0 c) (n : Nat) : CInv c0 (c.unwrapNode n) := by
  unfold Circuit.unwrapNode
  split
  · next gs r cr fx hnode =>
    have hr : r.ty ≠ .c := h.qty n _ hnode r (by simp)
    obtain ⟨h1, h2⟩ := cinv_unwrapFold n r hr _ (unwrapList gs) c h hnode
    exact cinv_removeOp h1 n _ h2 rfl
  · exact h

theorem cinv_unwrapNodes {c0 c : Circuit} (h : CInv c0 c) (order : List Nat) : CInv c0 (c.unwrapNodes order) := by
  unfold Circuit.unwrapNodes
  induction order generalizing c with
  | nil => exact h
  | cons n order ih => rw [List.foldl_cons]; exact ih (cinv_unwrapNode h n)

/-! ### remove_identity -/

theorem cinv_removeIdentity {c0 c : Circuit} (h : CInv c0 c) (order : List Nat) : CInv c0 (c.removeIdentity order) := by
  unfold Circuit.removeIdentity
  induction order generalizing c with
  | nil => exact h
  | cons n order ih =>
    rw [List.foldl_cons]
    apply ih
    split
    · next q cr fx hnode => exact cinv_removeOp h n _ hnode rfl
    · exact h

/-! ### group_one_qubit_gates -/

theorem cinv_gStep1 {c0 : Circuit} (s : GroupSt) (n : Nat) (h : CInv c0 s.c) : CInv c0 (gStep1 s n).c := by
  unfold gStep1
  split
  · next hgr =>
    unfold Circuit.groupable at hgr
    cases hnode : s.c.node n with
    | none => simp [hnode] at hgr
    | some op =>
      simp only [hnode] at hgr
      exact cinv_removeOp h n op hnode hgr
  · exact h

theorem cinv_gStep2 {c0 : Circuit} (r : Reg) (hr : r.ty ≠ .c) (rest : List Nat) (s : GroupSt) (h : CInv c0 s.c) :
    CInv c0 (gStep2 r rest s).c := by
  unfold gStep2
  split
  · exact cinv_insertAt h _ rfl rfl (fun r' hr' => by simp only [List.mem_singleton] at hr'; rw [hr']; exact hr) _ hr
  · exact h

theorem cinv_groupWalk {c0 : Circuit} (r : Reg) (hr : r.ty ≠ .c) (rest : List Nat) (s : GroupSt) (h : CInv c0 s.c) :
    CInv c0 (groupWalk r rest s).c := by
  induction rest generalizing s with
  | nil => exact h
  | cons n rest ih =>
    rw [groupWalk_cons]
    exact ih _ (cinv_gStep2 r hr rest _ (cinv_gStep1 s n h))

theorem cinv_groupFold {c0 : Circuit} (order : List Reg) (s : GroupSt) (hwf : s.c.WF) (har : s.c.Arity1)
    (h : CInv c0 s.c) :
    CInv c0 (order.foldl (fun s r => groupWalk r (s.c.wire r).reverse { s with gates := [] }) s).c := by
  induction order generalizing s with
  | nil => exact h
  | cons r order ih =>
    rw [List.foldl_cons]
    obtain ⟨h1, h2, _⟩ := groupWalk_reg r s hwf har
    apply ih _ h1 h2
    by_cases hty : r.ty = .c
    · rw [groupWalk_classical r hty _ { s with gates := [] } hwf har rfl (fun m hm => by simpa using hm)]
      exact h
    · exact cinv_groupWalk r hty _ _ h

theorem cinv_group {c : Circuit} (hgood : c.Good) (hthr : CThreaded c) (order : List Reg) :
    CInv c (c.groupOneQubitGates order) :=
  cinv_groupFold order ⟨c, []⟩ hgood.1 (good_arity1 hgood) (cinv_refl c hgood hthr)

/-! ### assign_noise -/

structure AssignInvC (c c' : Circuit) (P : List Nat) : Prop where
  base : AssignInv c c' P
  cflat : ∀ i, (c'.wire ⟨.c, i⟩).flatMap c'.sopsOfNode =
    (P.filter fun n => decide (n ∈ c.wire ⟨.c, i⟩)).flatMap c.sopsOfNode
  thr : CThreaded c'

theorem assignC_step (c c' : Circuit) (P : List Nat) (n : Nat) (op : Op) (hwf : c.WF) (hok : c.OpsOk) (hthr : CThreaded c)
    (hnode : c.node n = some op) (hinv : AssignInvC c c' P) :
    c'.add op = Except.ok (c'.addCore op) ∧ AssignInvC c (c'.addCore op) (P ++ [n]) := by
  obtain ⟨hadd, hbase⟩ := assign_step c c' P n op hwf hok hnode hinv.base
  refine ⟨hadd, hbase, ?_, ?_⟩
  · intro i
    have hnd := (hok n op hnode).1
    have hwire := addCore_wire c' op hnd ⟨.c, i⟩
    have hold : ∀ m, m ∈ c'.wire ⟨.c, i⟩ → (c'.addCore op).sopsOfNode m = c'.sopsOfNode m := by
      intro m hm
      have := hinv.base.bound _ m hm
      unfold Circuit.sopsOfNode
      rw [addCore_eq, insertAt_node, if_neg (by omega)]
    have hnew : (c'.addCore op).sopsOfNode (c'.nid + 1) = c.sopsOfNode n := by
      unfold Circuit.sopsOfNode
      rw [addCore_eq, insertAt_node, if_pos rfl, hnode]
    have hmem : (⟨.c, i⟩ : Reg) ∈ op.addRegs ↔ n ∈ c.wire ⟨.c, i⟩ := by
      simp only [Op.addRegs, List.mem_append, List.mem_map]
      constructor
      · rintro (h | ⟨j, hj, hje⟩)
        · exact absurd rfl (hwf.qvalid n op hnode _ h).2
        · simp only [Reg.mk.injEq, true_and] at hje
          subst hje
          exact hthr n op hnode j hj
      · intro h
        exact Or.inr ⟨i, hwf.cwire n op hnode i h, rfl⟩
    rw [hwire, List.filter_append, List.flatMap_append]
    by_cases hin : n ∈ c.wire ⟨.c, i⟩
    · rw [if_pos (hmem.mpr hin), List.flatMap_append, flatMap_congr' hold, hinv.cflat i]
      congr 1
      simp [hin, hnew]
    · rw [if_neg (fun h => hin (hmem.mp h)), flatMap_congr' hold, hinv.cflat i]
      simp [hin]
  · intro m op' hm i hi
    have hnd := (hok n op hnode).1
    rw [addCore_wire c' op hnd]
    rw [addCore_eq, insertAt_node] at hm
    by_cases hk : m = c'.nid + 1
    · rw [if_pos hk] at hm
      have hm' : op = op' := Option.some.inj hm
      subst hm'
      have : (⟨.c, i⟩ : Reg) ∈ op.addRegs := by
        simp only [Op.addRegs, List.mem_append, List.mem_map]
        exact Or.inr ⟨i, hi, rfl⟩
      rw [if_pos this, hk]
      simp
    · rw [if_neg hk] at hm
      have := hinv.thr m op' hm i hi
      split
      · exact List.mem_append_left _ this
      · exact this

theorem assignC_fold (c : Circuit) (hwf : c.WF) (hok : c.OpsOk) (hthr : CThreaded c) (seq : List Nat) (c' : Circuit)
    (P : List Nat) (cf : Circuit) (hinv : AssignInvC c c' P)
    (h : seq.foldlM (fun c'' n => match c.node n with
      | some op => c''.add op
      | none => Except.error Err.key) c' = Except.ok cf) :
    AssignInvC c cf (P ++ seq) := by
  induction seq generalizing c' P with
  | nil =>
    simp only [List.foldlM_nil] at h
    cases h
    simpa using hinv
  | cons n seq ih =>
    rw [List.foldlM_cons] at h
    cases hnode : c.node n with
    | none => simp [hnode] at h; cases h
    | some op =>
      simp only [hnode] at h
      obtain ⟨hadd, hinv'⟩ := assignC_step c c' P n op hwf hok hthr hnode hinv
      rw [hadd] at h
      have := ih (c'.addCore op) (P ++ [n]) hinv' h
      simpa using this

theorem cflat_assignNoise (c : Circuit) (hgood : c.Good) (hthr : CThreaded c) (seq : List Nat) (cf : Circuit)
    (h : c.assignNoise seq = Except.ok cf) : CFlat c cf ∧ CThreaded cf := by
  have hwf := hgood.1
  have hok := good_opsOk hgood
  unfold Circuit.assignNoise at h
  split at h
  · cases h
  · rename_i hlin
    have hlin' : c.isLinearExtension seq = true := by simpa using hlin
    have h0 : AssignInvC c (Circuit.empty c.ne c.np c.nc) [] :=
      ⟨⟨rfl, rfl, rfl, rfl, fun r m hm => by simp [Circuit.empty] at hm, fun r _ => rfl,
        WF_empty _ _ _, fun m op h => by simp [Circuit.empty] at h⟩,
       fun i => rfl, fun m op h => by simp [Circuit.empty] at h⟩
    have hinv := assignC_fold c hwf hok hthr seq _ [] cf h0 h
    refine ⟨fun i => ?_, hinv.thr⟩
    rw [hinv.cflat i, List.nil_append]
    simp only [Circuit.isLinearExtension, Bool.and_eq_true, List.all_eq_true, decide_eq_true_eq] at hlin'
    by_cases hv : c.validReg ⟨.c, i⟩ = true
    · rw [hlin'.2 _ ((mem_regs_iff c _).mpr hv)]
    · have : c.wire ⟨.c, i⟩ = [] := hwf.invalidEmpty _ (by simpa using hv)
      rw [this]; simp

/-! ### all five rewrites -/

theorem Rewrites.carity {c c' : Circuit} (hgood : c.Good) (hca : CArity c) (h : Rewrites c c') : CArity c' := by
  cases h with
  | copy => exact hca
  | unwrap order => exact NodesSat_unwrapNodes c order hca (fun _ _ => rfl)
  | removeIdentity order => exact NodesSat_removeIdentity c order hca
  | group order => exact NodesSat_group c order hca (fun _ _ _ => rfl)
  | assignNoise seq c' h =>
    obtain ⟨_, _, hnodes⟩ := flat_assignNoise c seq c' hgood.1 (good_opsOk hgood) h
    intro m op hm
    obtain ⟨n, hn⟩ := hnodes m op hm
    exact hca n op hn

/-- **every rewrite keeps the operations on every classical wire, and keeps the circuit threaded** -/
theorem Rewrites.cflat {c c' : Circuit} (hgood : c.Good) (hthr : CThreaded c) (h : Rewrites c c') :
    CFlat c c' ∧ CThreaded c' := by
  cases h with
  | copy => exact ⟨fun _ => rfl, hthr⟩
  | unwrap order =>
    have := cinv_unwrapNodes (cinv_refl c hgood hthr) order
    exact ⟨this.cflat, this.thr⟩
  | removeIdentity order =>
    have := cinv_removeIdentity (cinv_refl c hgood hthr) order
    exact ⟨this.cflat, this.thr⟩
  | group order =>
    have := cinv_group hgood hthr order
    exact ⟨this.cflat, this.thr⟩
  | assignNoise seq c' h => exact cflat_assignNoise c hgood hthr seq c' h

/-- all per-register projections (classical registers included) of compile sequences of two sane threaded circuits with the
    same `flat` and the same operations on every classical wire agree -/
theorem proj_regsC_eq_of (c c' : Circuit) (hgood : c.Good) (hthr : CThreaded c) (hca : CArity c) (hgood' : c'.Good)
    (hthr' : CThreaded c') (hca' : CArity c') (hcf : CFlat c c') (hflat : c'.flat = c.flat)
    (seq seq' : List Nat) (hl : c.isLinearExtension seq = true) (hl' : c'.isLinearExtension seq' = true) (r : Reg) :
    projReg regsC r (c'.sops seq') = projReg regsC r (c.sops seq) := by
  by_cases hty : r.ty = .c
  · obtain ⟨ty, i⟩ := r
    simp only at hty
    subst hty
    rw [proj_regsC_classical c' hgood' hthr' hca' seq' hl' i, proj_regsC_classical c hgood hthr hca seq hl i]
    exact hcf i
  · have hconv : ∀ l : List SOp, projReg regsC r l = projReg SOp.regs r l := by
      intro l
      unfold projReg
      apply List.filter_congr
      intro a _
      simp only [decide_eq_decide]
      exact mem_regsC_quantum a r hty
    rw [hconv, hconv]
    have hcounts : c'.ne = c.ne ∧ c'.np = c.np := by
      simp only [Circuit.flat, Prod.mk.injEq] at hflat
      exact ⟨hflat.1, hflat.2.1⟩
    have hqregs : c'.qregs = c.qregs := by simp [Circuit.qregs, Circuit.regsOf, Circuit.count, hcounts.1, hcounts.2]
    by_cases hr : r ∈ c.qregs
    · have hwires : c'.flatWire r = c.flatWire r := by
        simp only [Circuit.flat, Prod.mk.injEq] at hflat
        have := hflat.2.2.2
        rw [hqregs] at this
        exact List.map_inj_left.mp this r hr
      rw [proj_sops c' hgood'.1 (good_arity1 hgood') seq' hl' r (hqregs ▸ hr),
        proj_sops c hgood.1 (good_arity1 hgood) seq hl r hr, hwires]
    · have hnone : ∀ (c1 : Circuit), c1.WF → c1.qregs = c.qregs → ∀ s, projReg SOp.regs r (c1.sops s) = [] := by
        intro c1 hwf1 hq1 s
        unfold projReg
        rw [List.filter_eq_nil_iff]
        intro x hx
        obtain ⟨n, op, hop, hxr⟩ := sops_mem hx
        rw [hxr]
        simp only [decide_eq_true_eq]
        intro hin
        exact hr (hq1 ▸ (mem_qregs c1 r).mpr (hwf1.qvalid n op hop r hin))
      rw [hnone c' hgood'.1 hqregs, hnone c hgood.1 rfl]

/-- **all per-register projections (classical registers included) of a compile sequence of the rewritten circuit and of the
    original agree** -/
theorem rewrites_proj_regsC_eq (c c' : Circuit) (hgood : c.Good) (hthr : CThreaded c) (hca : CArity c) (h : Rewrites c c')
    (seq seq' : List Nat) (hl : c.isLinearExtension seq = true) (hl' : c'.isLinearExtension seq' = true) (r : Reg) :
    projReg regsC r (c'.sops seq') = projReg regsC r (c.sops seq) :=
  proj_regsC_eq_of c c' hgood hthr hca (h.good hgood) (Rewrites.cflat hgood hthr h).2 (Rewrites.carity hgood hca h)
    (Rewrites.cflat hgood hthr h).1 (h.flat_eq hgood) seq seq' hl hl' r

/-! ### chains of rewrites -/

/-- any finite sequence of the five rewrites (the property quantifies over all interleavings of the calls) -/
inductive RewritesStar : Circuit → Circuit → Prop where
  | refl (c : Circuit) : RewritesStar c c
  | tail {c c1 c2 : Circuit} : RewritesStar c c1 → Rewrites c1 c2 → RewritesStar c c2

theorem RewritesStar.single {c c' : Circuit} (h : Rewrites c c') : RewritesStar c c' := .tail (.refl c) h

theorem RewritesStar.good {c c' : Circuit} (hgood : c.Good) (h : RewritesStar c c') : c'.Good := by
  induction h with
  | refl => exact hgood
  | tail _ r ih => exact r.good ih

theorem RewritesStar.flat_eq {c c' : Circuit} (hgood : c.Good) (h : RewritesStar c c') : c'.flat = c.flat := by
  induction h with
  | refl => rfl
  | tail h1 r ih => exact (r.flat_eq (h1.good hgood)).trans ih

theorem RewritesStar.arityOk {c c' : Circuit} (hgood : c.Good) (har : ArityOk c) (h : RewritesStar c c') : ArityOk c' := by
  induction h with
  | refl => exact har
  | tail h1 r ih => exact Rewrites.arityOk (h1.good hgood) ih r

theorem RewritesStar.gateOnly {c c' : Circuit} (hgood : c.Good) (hg : GateOnly c) (h : RewritesStar c c') : GateOnly c' := by
  induction h with
  | refl => exact hg
  | tail h1 r ih => exact Rewrites.gateOnly (h1.good hgood) ih r

theorem RewritesStar.carity {c c' : Circuit} (hgood : c.Good) (hca : CArity c) (h : RewritesStar c c') : CArity c' := by
  induction h with
  | refl => exact hca
  | tail h1 r ih => exact Rewrites.carity (h1.good hgood) ih r

theorem RewritesStar.cflat {c c' : Circuit} (hgood : c.Good) (hthr : CThreaded c) (h : RewritesStar c c') :
    CFlat c c' ∧ CThreaded c' := by
  induction h with
  | refl => exact ⟨fun _ => rfl, hthr⟩
  | tail h1 r ih =>
    obtain ⟨hcf, hthr1⟩ := ih
    obtain ⟨hcf2, hthr2⟩ := Rewrites.cflat (h1.good hgood) hthr1 r
    exact ⟨fun i => (hcf2 i).trans (hcf i), hthr2⟩

theorem chain_proj_regsC_eq (c c' : Circuit) (hgood : c.Good) (hthr : CThreaded c) (hca : CArity c)
    (h : RewritesStar c c') (seq seq' : List Nat) (hl : c.isLinearExtension seq = true)
    (hl' : c'.isLinearExtension seq' = true) (r : Reg) :
    projReg regsC r (c'.sops seq') = projReg regsC r (c.sops seq) :=
  proj_regsC_eq_of c c' hgood hthr hca (h.good hgood) (h.cflat hgood hthr).2 (h.carity hgood hca)
    (h.cflat hgood hthr).1 (h.flat_eq hgood) seq seq' hl hl' r

end Graphiq.Commute
