/-
  Proofs/SolverSoundLocal.lean — one-qubit gate words as *local* row maps.

  Every one-qubit gate of transformation.py acts on a signed Pauli row by looking only at the two bits of its own column and by
  flipping the sign; such a map is `lift q t` for a four-entry table `t : L1`.  Words over {I,H,P,X,Y,Z} (what a
  `OneQubitGateWrapper` holds) therefore act as `lift q (tblW w)`, and two words with the same table act identically.
  This is the interface between `simplify_local_clifford` (matrices up to a scalar) and the tableau semantics.
-/
import GraphiqModel.Model.Solver
import GraphiqModel.Model.Circuit
import GraphiqModel.Proofs.InverseCircuit
namespace Graphiq.Solver
open Graphiq Graphiq.Cliff PRow

/-- action table of a one-qubit Clifford on the bits `(x, z)` of its column: new `x`, new `z`, sign flip -/
structure L1 where
  t00 : Bool × Bool × Bool
  t01 : Bool × Bool × Bool
  t10 : Bool × Bool × Bool
  t11 : Bool × Bool × Bool
  deriving DecidableEq, Repr

def L1.ap (t : L1) (x z : Bool) : Bool × Bool × Bool :=
  match x, z with
  | false, false => t.t00 | false, true => t.t01 | true, false => t.t10 | true, true => t.t11

def L1.ofFn (f : Bool → Bool → Bool × Bool × Bool) : L1 := ⟨f false false, f false true, f true false, f true true⟩

@[simp] theorem L1.ap_ofFn (f : Bool → Bool → Bool × Bool × Bool) (x z : Bool) : (L1.ofFn f).ap x z = f x z := by
  cases x <;> cases z <;> rfl

theorem L1.ext_ap (s t : L1) (h : ∀ x z, s.ap x z = t.ap x z) : s = t := by
  cases s; cases t
  have h00 := h false false; have h01 := h false true; have h10 := h true false; have h11 := h true true
  simp only [L1.ap] at h00 h01 h10 h11
  simp [h00, h01, h10, h11]

/-- `t1 ∘ t2` (the table `t2` acts first) -/
def L1.comp (t1 t2 : L1) : L1 :=
  L1.ofFn fun x z => ((t1.ap (t2.ap x z).1 (t2.ap x z).2.1).1, (t1.ap (t2.ap x z).1 (t2.ap x z).2.1).2.1,
    xor (t2.ap x z).2.2 (t1.ap (t2.ap x z).1 (t2.ap x z).2.1).2.2)

def L1.one : L1 := L1.ofFn fun x z => (x, z, false)

theorem L1.comp_assoc (a b c : L1) : (a.comp b).comp c = a.comp (b.comp c) := by
  apply L1.ext_ap; intro x z
  simp only [L1.comp, L1.ap_ofFn, Bool.xor_assoc]

theorem L1.one_comp (a : L1) : L1.one.comp a = a := by
  apply L1.ext_ap; intro x z
  simp [L1.comp, L1.one]

theorem L1.comp_one (a : L1) : a.comp L1.one = a := by
  apply L1.ext_ap; intro x z
  simp [L1.comp, L1.one]

/-- the row map of a table on column `q` -/
def lift (q : Nat) (t : L1) (a : PRow) : PRow :=
  { x := fun j => if j = q then (t.ap (a.x q) (a.z q)).1 else a.x j
    z := fun j => if j = q then (t.ap (a.x q) (a.z q)).2.1 else a.z j
    r := xor a.r (t.ap (a.x q) (a.z q)).2.2
    ip := a.ip }

theorem prow_ext (a b : PRow) (hx : ∀ j, a.x j = b.x j) (hz : ∀ j, a.z j = b.z j) (hr : a.r = b.r) (hi : a.ip = b.ip) : a = b := by
  cases a; cases b
  simp only at hx hz hr hi
  have e1 := funext hx
  have e2 := funext hz
  subst e1; subst e2; subst hr; subst hi; rfl

theorem lift_comp (q : Nat) (t1 t2 : L1) (a : PRow) : lift q t1 (lift q t2 a) = lift q (t1.comp t2) a := by
  apply prow_ext
  · intro j; by_cases e : j = q <;> simp [lift, L1.comp, e]
  · intro j; by_cases e : j = q <;> simp [lift, L1.comp, e]
  · simp [lift, L1.comp]
  · rfl

theorem lift_one (q : Nat) (a : PRow) : lift q L1.one a = a := by
  apply prow_ext
  · intro j; by_cases e : j = q <;> simp [lift, L1.one, e]
  · intro j; by_cases e : j = q <;> simp [lift, L1.one, e]
  · simp [lift, L1.one]
  · rfl

def tH : L1 := L1.ofFn fun x z => (z, x, x && z)
def tS : L1 := L1.ofFn fun x z => (x, xor z x, x && z)

theorem h_eq_lift (q : Nat) (a : PRow) : PRow.h q a = lift q tH a := by
  apply prow_ext
  · intro j; by_cases e : j = q
    · subst e; simp [PRow.h, lift, tH]
    · simp [PRow.h, lift, tH, e]
  · intro j; by_cases e : j = q
    · subst e; simp [PRow.h, lift, tH]
    · simp [PRow.h, lift, tH, e]
  · simp [PRow.h, lift, tH]
  · rfl

theorem s_eq_lift (q : Nat) (a : PRow) : PRow.s q a = lift q tS a := by
  apply prow_ext
  · intro j; by_cases e : j = q
    · subst e; simp [PRow.s, lift, tS]
    · simp [PRow.s, lift, tS, e]
  · intro j; by_cases e : j = q
    · subst e; simp [PRow.s, lift, tS]
    · simp [PRow.s, lift, tS, e]
  · simp [PRow.s, lift, tS]
  · rfl

def tZ : L1 := tS.comp tS
def tSdg : L1 := tS.comp (tS.comp tS)
def tX : L1 := tH.comp (tZ.comp tH)
def tY : L1 := tS.comp (tX.comp (tZ.comp tS))

theorem zg_eq_lift (q : Nat) (a : PRow) : PRow.zg q a = lift q tZ a := by
  simp only [PRow.zg, s_eq_lift, lift_comp, tZ]
theorem sdg_eq_lift (q : Nat) (a : PRow) : PRow.sdg q a = lift q tSdg a := by
  simp only [PRow.sdg, s_eq_lift, lift_comp, tSdg]
theorem xg_eq_lift (q : Nat) (a : PRow) : PRow.xg q a = lift q tX a := by
  simp only [PRow.xg, h_eq_lift, zg_eq_lift, lift_comp, tX]
theorem yg_eq_lift (q : Nat) (a : PRow) : PRow.yg q a = lift q tY a := by
  simp only [PRow.yg, s_eq_lift, xg_eq_lift, zg_eq_lift, lift_comp, tY]

/-- the table of one generator of the one-qubit Clifford library -/
def genTbl : Gen → L1
  | .I => L1.one | .H => tH | .P => tS | .X => tX | .Y => tY | .Z => tZ

/-- the row map `gen1` applies for one generator (`Model/Circuit.lean`) -/
def genRow (g : Gen) (q : Nat) : PRow → PRow :=
  match g with
  | .I => id | .H => PRow.h q | .P => PRow.s q | .X => PRow.xg q | .Y => PRow.yg q | .Z => PRow.zg q

theorem genRow_eq_lift (g : Gen) (q : Nat) (a : PRow) : genRow g q a = lift q (genTbl g) a := by
  cases g
  · exact (lift_one q a).symm
  · exact h_eq_lift q a
  · exact s_eq_lift q a
  · exact xg_eq_lift q a
  · exact yg_eq_lift q a
  · exact zg_eq_lift q a

/-- forward action of a wrapper holding the word `w` on column `q`: the LAST listed gate acts first (`unwrap()` reverses) -/
def actW (q : Nat) (w : List Gen) (a : PRow) : PRow := w.foldr (fun g a => genRow g q a) a

/-- the table of a word -/
def tblW (w : List Gen) : L1 := w.foldr (fun g t => (genTbl g).comp t) L1.one

theorem actW_eq_lift (q : Nat) (w : List Gen) (a : PRow) : actW q w a = lift q (tblW w) a := by
  induction w with
  | nil => exact (lift_one q a).symm
  | cons g rest ih =>
    show genRow g q (actW q rest a) = lift q ((genTbl g).comp (tblW rest)) a
    rw [ih, genRow_eq_lift, lift_comp]

theorem tblW_append (w1 w2 : List Gen) : tblW (w1 ++ w2) = (tblW w1).comp (tblW w2) := by
  induction w1 with
  | nil => exact (L1.one_comp _).symm
  | cons g rest ih =>
    show (genTbl g).comp (tblW (rest ++ w2)) = ((genTbl g).comp (tblW rest)).comp (tblW w2)
    rw [ih, L1.comp_assoc]

theorem actW_append (q : Nat) (w1 w2 : List Gen) (a : PRow) : actW q (w1 ++ w2) a = actW q w1 (actW q w2 a) := by
  simp [actW, List.foldr_append]

/-- words with equal tables act identically -/
theorem actW_of_tbl (q : Nat) (w1 w2 : List Gen) (h : tblW w1 = tblW w2) (a : PRow) : actW q w1 a = actW q w2 a := by
  rw [actW_eq_lift, actW_eq_lift, h]

theorem genRow_isAut (n : Nat) (g : Gen) (q : Nat) (hq : q < n) : IsAut n (genRow g q) := by
  cases g
  · exact isAut_id n
  · exact isAut_h n q hq
  · exact isAut_s n q hq
  · exact isAut_xg n q hq
  · exact isAut_yg n q hq
  · exact isAut_zg n q hq

theorem actW_isAut (n q : Nat) (hq : q < n) (w : List Gen) : IsAut n (actW q w) := by
  induction w with
  | nil => exact isAut_id n
  | cons g rest ih => exact (genRow_isAut n g q hq).comp ih

theorem lift_ip (q : Nat) (t : L1) (a : PRow) : (lift q t a).ip = a.ip := rfl

theorem actW_ip (q : Nat) (w : List Gen) (a : PRow) : (actW q w a).ip = a.ip := by
  rw [actW_eq_lift]; rfl

/-! ### locality: maps on different columns commute, exactly -/

theorem lift_lift_comm (q q' : Nat) (h : q ≠ q') (t t' : L1) (a : PRow) :
    lift q t (lift q' t' a) = lift q' t' (lift q t a) := by
  have h' : q' ≠ q := Ne.symm h
  apply prow_ext
  · intro j
    by_cases e1 : j = q
    · subst e1; simp [lift, h, h']
    · by_cases e2 : j = q'
      · subst e2; simp [lift, h, h']
      · simp [lift, e1, e2, h, h']
  · intro j
    by_cases e1 : j = q
    · subst e1; simp [lift, h, h']
    · by_cases e2 : j = q'
      · subst e2; simp [lift, h, h']
      · simp [lift, e1, e2, h, h']
  · simp only [lift, h, h', if_false]
    cases a.r <;> cases (t.ap (a.x q) (a.z q)).2.2 <;> cases (t'.ap (a.x q') (a.z q')).2.2 <;> rfl
  · rfl

theorem lift_cnot_comm (q c t : Nat) (hc : q ≠ c) (ht : q ≠ t) (tb : L1) (a : PRow) :
    lift q tb (PRow.cnot c t a) = PRow.cnot c t (lift q tb a) := by
  have hc' : c ≠ q := Ne.symm hc
  have ht' : t ≠ q := Ne.symm ht
  apply prow_ext
  · intro j
    by_cases e1 : j = q
    · subst e1; simp [lift, PRow.cnot, hc, ht, hc', ht']
    · simp [lift, PRow.cnot, e1, hc, ht, hc', ht']
  · intro j
    by_cases e1 : j = q
    · subst e1; simp [lift, PRow.cnot, hc, ht, hc', ht']
    · simp [lift, PRow.cnot, e1, hc, ht, hc', ht']
  · simp only [lift, PRow.cnot, hc, ht, hc', ht', if_false]
    cases a.r <;> cases (tb.ap (a.x q) (a.z q)).2.2 <;> cases (a.x c && a.z t && (xor (xor (a.x t) (a.z c)) true)) <;> rfl
  · rfl

/-- a local map does not look at, nor change, the other columns -/
theorem lift_x_ne (q j : Nat) (h : j ≠ q) (t : L1) (a : PRow) : (lift q t a).x j = a.x j := by simp [lift, h]
theorem lift_z_ne (q j : Nat) (h : j ≠ q) (t : L1) (a : PRow) : (lift q t a).z j = a.z j := by simp [lift, h]

/-- tables that fix the identity column (every word's table does: see `tblW_fix`) -/
def L1.Fix (t : L1) : Prop := t.t00 = (false, false, false)

theorem lift_Zq_ne (n q e : Nat) (h : e ≠ q) (t : L1) (ht : t.Fix) (sg : Bool) : EqOn n (lift q t (Zq e sg)) (Zq e sg) := by
  have hq : q ≠ e := Ne.symm h
  have e0 : t.ap false false = (false, false, false) := ht
  refine ⟨fun j _ => ?_, ?_, ?_⟩
  · by_cases e1 : j = q
    · subst e1; simp [lift, Zq, hq, e0]
    · simp [lift, Zq, e1]
  · simp [lift, Zq, hq, e0]
  · rfl

theorem lift_one_row (n q : Nat) (t : L1) (ht : t.Fix) : EqOn n (lift q t PRow.one) PRow.one := by
  have e0 : t.ap false false = (false, false, false) := ht
  refine ⟨fun j _ => ?_, ?_, ?_⟩
  · by_cases e1 : j = q <;> simp [lift, PRow.one, e1, e0]
  · simp [lift, PRow.one, e0]
  · rfl

theorem fix_comp (a b : L1) (ha : a.Fix) (hb : b.Fix) : (a.comp b).Fix := by
  have e1 : a.ap false false = (false, false, false) := ha
  have e2 : b.ap false false = (false, false, false) := hb
  show (a.comp b).ap false false = _
  simp [L1.comp, e1, e2]

theorem genTbl_fix (g : Gen) : (genTbl g).Fix := by cases g <;> (unfold L1.Fix; decide)

theorem tblW_fix (w : List Gen) : (tblW w).Fix := by
  induction w with
  | nil => unfold L1.Fix; decide
  | cons g rest ih => exact fix_comp _ _ (genTbl_fix g) ih

end Graphiq.Solver
