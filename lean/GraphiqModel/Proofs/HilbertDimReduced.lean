/-
  Proofs/HilbertDimReduced.lean — the reduced state of an arbitrary stabilizer state (no product assumption).

  For a valid Clifford tableau on `n = m + |rem|` qubits and a (strictly descending) list `rem` of traced-out sites, let
  `c_0 … c_{k-1}` be an independent generating set of the subgroup of stabilizers that act as the identity on `rem`.  Then

      Tr_rem ρ  =  (2^k / 2^m) · Π ,      Π = ∏_{i<k} (1 + c_i|_kept)/2   an orthogonal projector,

  i.e. the reduced state is maximally mixed on the subspace stabilized by the restricted subgroup: `σ² = (2^k/2^m) σ`,
  purity `tr σ² = 2^{-(m-k)}` — the entanglement entropy of the cut is `m − k` bits (Fattal et al.), the quantity behind the
  "height function" of C03.  `k = m` is the product-factor case (`rho_partialTrace_factor`: a pure state).

  * `ptraceSite_pauli`, `ptraceList_pauli` : the partial trace of a Pauli matrix;
  * `reduced_state_sum` : `Tr_rem ρ = 2^{-m} Σ_{g ∈ G, g = 1 on rem} g|_kept`;
  * `reduced_state_eq_proj` : the theorem above.
-/
import GraphiqModel.Proofs.HilbertDimGroupSum
import GraphiqModel.Proofs.TabSpecFactor
namespace Graphiq
namespace Hilbert
open Matrix PRow TabSpec Tab STab

/-! ### partial trace of a Pauli matrix -/

theorem trace_sigma (x z : Bool) : Matrix.trace (sigma x z) = if x = false ∧ z = false then 2 else 0 := by
  obtain ⟨fx, fy, fz⟩ := sigma_facts
  cases x <;> cases z
  · rw [sigma_ff, Matrix.trace_one]; simp
  · rw [sigma_ft, fz.2.2]; simp
  · rw [sigma_tf, fx.2.2]; simp
  · rw [sigma_tt, fy.2.2]; simp

theorem ptraceSite_pauli (m q : Nat) (hq : q ≤ m) (P : PRow) :
    ptraceSite q (pauliMat (m + 1) P)
      = (if P.x q = false ∧ P.z q = false then (2 : ℂ) else 0) • pauliMat m (P.deleteCol q) := by
  rw [pauliMat_site m q hq, ptraceSite_insSite q hq, trace_sigma]

/-- delete the columns listed in `rem` (highest first): inverse of `embedCols` -/
def delCols : List Nat → PRow → PRow
  | [], P => P
  | q :: rest, P => delCols rest (P.deleteCol q)

theorem idOn_cons (q : Nat) (rest : List Nat) (hlt : ∀ a, a ∈ rest → a < q) (P : PRow) :
    IdOn (q :: rest) P ↔ (P.x q = false ∧ P.z q = false) ∧ IdOn rest (P.deleteCol q) := by
  constructor
  · intro h
    refine ⟨h q List.mem_cons_self, fun a ha => ?_⟩
    have := h a (List.mem_cons_of_mem _ ha)
    simp only [PRow.deleteCol, hlt a ha, if_true]
    exact this
  · intro ⟨h1, h2⟩ a ha
    rcases List.mem_cons.mp ha with e | e
    · rw [e]; exact h1
    · have := h2 a e
      simp only [PRow.deleteCol, hlt a e, if_true] at this
      exact this

open Classical in
/-- **partial trace of a Pauli matrix**: `2^{|rem|}` times the restricted Pauli if it is the identity on `rem`, else `0` -/
theorem ptraceList_pauli {m : Nat} (rem : List Nat) (hpw : rem.Pairwise (· > ·))
    (hlt : ∀ q, q ∈ rem → q < m + rem.length) (P : PRow) :
    ptraceList rem (pauliMat (m + rem.length) P)
      = (if IdOn rem P then (2 : ℂ) ^ rem.length else 0) • pauliMat m (delCols rem P) := by
  induction rem generalizing P with
  | nil =>
    show pauliMat m P = _
    have h0 : IdOn ([] : List Nat) P := fun a ha => absurd ha List.not_mem_nil
    rw [if_pos h0]; simp [delCols]
  | cons q rest ih =>
    have hp := List.pairwise_cons.mp hpw
    have hq : q < m + (rest.length + 1) := hlt q List.mem_cons_self
    show ptraceList rest (ptraceSite q (pauliMat (m + rest.length + 1) P)) = _
    rw [ptraceSite_pauli (m + rest.length) q (by omega), ptraceList_smul,
      ih hp.2 (fun q' hq' => by have := hp.1 q' hq'; omega) (P.deleteCol q), smul_smul]
    congr 1
    have hiff := idOn_cons q rest hp.1 P
    by_cases h1 : P.x q = false ∧ P.z q = false
    · by_cases h2 : IdOn rest (P.deleteCol q)
      · rw [if_pos h1, if_pos h2, if_pos (hiff.mpr ⟨h1, h2⟩), List.length_cons, pow_succ, _root_.mul_comm]
      · rw [if_pos h1, if_neg h2, if_neg (fun h => h2 (hiff.mp h).2), mul_zero]
    · rw [if_neg h1, if_neg (fun h => h1 (hiff.mp h).1), zero_mul]

theorem ptraceList_zero {m : Nat} (rem : List Nat) :
    ptraceList (m := m) rem 0 = 0 := by
  have := ptraceList_smul (m := m) rem 0 0
  rw [zero_smul, zero_smul] at this
  exact this

theorem ptraceList_sum {m : Nat} {ι : Type} (rem : List Nat) (s : Finset ι)
    (f : ι → Matrix (Bits (m + rem.length)) (Bits (m + rem.length)) ℂ) :
    ptraceList rem (∑ i ∈ s, f i) = ∑ i ∈ s, ptraceList rem (f i) := by
  classical
  induction s using Finset.induction_on with
  | empty => simp [ptraceList_zero]
  | insert a s ha ih => rw [Finset.sum_insert ha, Finset.sum_insert ha, ptraceList_add, ih]

/-! ### column deletion on rows that are the identity there -/

theorem delCols_congr {m : Nat} (rem : List Nat) (a b : PRow) (h : EqOn (m + rem.length) a b) :
    EqOn m (delCols rem a) (delCols rem b) := by
  induction rem generalizing a b with
  | nil => exact h
  | cons q rest ih => exact ih _ _ (deleteCol_congr (m + rest.length) q a b h)

theorem delCols_mul {m : Nat} (rem : List Nat) (hpw : rem.Pairwise (· > ·))
    (hlt : ∀ q, q ∈ rem → q < m + rem.length) (a b : PRow) (ha : IdOn rem a) (hb : IdOn rem b) :
    EqOn m (delCols rem (PRow.mul (m + rem.length) a b)) (PRow.mul m (delCols rem a) (delCols rem b)) := by
  induction rem generalizing a b with
  | nil => exact EqOn.refl _ _
  | cons q rest ih =>
    have hp := List.pairwise_cons.mp hpw
    have hq : q < m + (rest.length + 1) := hlt q List.mem_cons_self
    have ha' := (idOn_cons q rest hp.1 a).mp ha
    have hb' := (idOn_cons q rest hp.1 b).mp hb
    have e1 := deleteCol_mul (m + rest.length) q (by omega) a b ha'.1.1 hb'.1.1
    exact (delCols_congr rest _ _ e1).trans
      (ih hp.2 (fun q' hq' => by have := hp.1 q' hq'; omega) _ _ ha'.2 hb'.2)

theorem delCols_one {m : Nat} (rem : List Nat) : EqOn m (delCols rem PRow.one) PRow.one := by
  induction rem with
  | nil => exact EqOn.refl _ _
  | cons q rest ih => exact (delCols_congr rest _ _ (deleteCol_one (m + rest.length) q)).trans ih

theorem delCols_ip (rem : List Nat) (a : PRow) : (delCols rem a).ip = a.ip := by
  induction rem generalizing a with
  | nil => rfl
  | cons q rest ih => exact ih _

theorem sp_delCols {m : Nat} (rem : List Nat) (hpw : rem.Pairwise (· > ·))
    (hlt : ∀ q, q ∈ rem → q < m + rem.length) (a b : PRow) (ha : IdOn rem a) (hb : IdOn rem b) :
    sp m (delCols rem a) (delCols rem b) = sp (m + rem.length) a b := by
  induction rem generalizing a b with
  | nil => rfl
  | cons q rest ih =>
    have hp := List.pairwise_cons.mp hpw
    have hq : q < m + (rest.length + 1) := hlt q List.mem_cons_self
    have ha' := (idOn_cons q rest hp.1 a).mp ha
    have hb' := (idOn_cons q rest hp.1 b).mp hb
    show sp m (delCols rest (a.deleteCol q)) (delCols rest (b.deleteCol q)) = _
    rw [ih hp.2 (fun q' hq' => by have := hp.1 q' hq'; omega) _ _ ha'.2 hb'.2,
      sp_deleteCol (m + rest.length) q (by omega) a b (by simp [ha'.1.1, ha'.1.2])]
    rfl

theorem idOn_mul (n : Nat) (rem : List Nat) (a b : PRow) (ha : IdOn rem a) (hb : IdOn rem b) :
    IdOn rem (PRow.mul n a b) := by
  intro q hq
  simp only [mul_x, mul_z, (ha q hq).1, (ha q hq).2, (hb q hq).1, (hb q hq).2]
  exact ⟨rfl, rfl⟩

theorem idOn_mprod (n : Nat) (rem : List Nat) (c : Nat → PRow) (k : Nat) (hc : ∀ i, i < k → IdOn rem (c i)) (s : Nat) :
    IdOn rem (mprod n c s k) := by
  induction k with
  | zero => intro q _; exact ⟨rfl, rfl⟩
  | succ j ih =>
    simp only [mprod]
    cases s.testBit j
    · exact ih (fun i hi => hc i (Nat.lt_succ_of_lt hi))
    · exact idOn_mul n rem _ _ (hc j (Nat.lt_succ_self j)) (ih (fun i hi => hc i (Nat.lt_succ_of_lt hi)))

/-- restriction commutes with subset products of rows that are the identity on `rem` -/
theorem delCols_mprod {m : Nat} (rem : List Nat) (hpw : rem.Pairwise (· > ·))
    (hlt : ∀ q, q ∈ rem → q < m + rem.length) (c : Nat → PRow) (k : Nat) (hc : ∀ i, i < k → IdOn rem (c i)) (s : Nat) :
    EqOn m (delCols rem (mprod (m + rem.length) c s k)) (mprod m (fun i => delCols rem (c i)) s k) := by
  induction k with
  | zero => exact delCols_one rem
  | succ j ih =>
    have ih := ih (fun i hi => hc i (Nat.lt_succ_of_lt hi))
    simp only [mprod]
    cases s.testBit j
    · exact ih
    · exact (delCols_mul rem hpw hlt _ _ (hc j (Nat.lt_succ_self j))
        (idOn_mprod _ rem c j (fun i hi => hc i (Nat.lt_succ_of_lt hi)) s)).trans
        (mul_congr m _ _ _ _ (EqOn.refl _ _) ih)

/-! ### the reduced state as a sum over the stabilizers supported on the kept qubits -/

open Classical in
/-- **`Tr_rem ρ = 2^{-m} Σ_{g ∈ G, g = 1 on rem} g|_kept`** (sum over the `2^n` subset products of the generators) -/
theorem reduced_state_sum (m : Nat) (t : Tab) (rem : List Nat) (hn : t.n = m + rem.length) (hv : t.Valid)
    (hpw : rem.Pairwise (· > ·)) (hlt : ∀ q, q ∈ rem → q < t.n) :
    ptraceList rem (rho (m + rem.length) (STab.ofTab t))
      = (1 / 2 : ℂ) ^ m • ∑ s ∈ Finset.range (2 ^ t.n),
          (if IdOn rem (mprod t.n (STab.ofTab t).row s t.n) then pauliMat m (delCols rem (mprod t.n (STab.ofTab t).row s t.n))
           else 0) := by
  have hg := (ofTab_good t hv).goodTo
  have e : (STab.ofTab t).n = t.n := rfl
  rw [e] at hg
  have hrho : rho (m + rem.length) (STab.ofTab t)
      = (1 / 2 : ℂ) ^ t.n • ∑ s ∈ Finset.range (2 ^ t.n), pauliMat (m + rem.length) (mprod t.n (STab.ofTab t).row s t.n) := by
    have := rhoTo_mask_sum t.n (STab.ofTab t).row t.n hg
    show rhoTo (m + rem.length) (STab.ofTab t).row t.n = _
    rw [hn] at this ⊢
    exact this
  rw [hrho, ptraceList_smul, ptraceList_sum]
  have hterm : ∀ s, ptraceList rem (pauliMat (m + rem.length) (mprod t.n (STab.ofTab t).row s t.n))
      = (2 : ℂ) ^ rem.length • (if IdOn rem (mprod t.n (STab.ofTab t).row s t.n)
          then pauliMat m (delCols rem (mprod t.n (STab.ofTab t).row s t.n)) else 0) := by
    intro s
    rw [ptraceList_pauli rem hpw (fun q hq => by have := hlt q hq; omega)]
    split <;> simp
  rw [Finset.sum_congr rfl (fun s _ => hterm s), ← Finset.smul_sum, smul_smul, hn, pow_add]
  congr 1
  rw [_root_.mul_assoc, ← mul_pow]
  norm_num

/-! ### regrouping by a basis of the restricted subgroup -/

/-- `c_0 … c_{k-1}` is an independent generating set of the subgroup of the stabilizer group of `t` that acts as the identity
    on the sites of `rem` -/
structure IsLocalBasis (t : Tab) (rem : List Nat) (k : Nat) (c : Nat → PRow) : Prop where
  mem : ∀ i, i < k → Grp t (c i)
  idOn : ∀ i, i < k → IdOn rem (c i)
  indep : ∀ S : Nat → Bool, EqOn t.n (sprod t.n c S k) PRow.one → ∀ i, i < k → S i = false
  span : ∀ g, Grp t g → IdOn rem g → ∃ S : Nat → Bool, EqOn t.n g (sprod t.n c S k)

open Classical in
theorem local_sum_regroup (m : Nat) (t : Tab) (rem : List Nat) (hn : t.n = m + rem.length) (hv : t.Valid)
    (hr : t.StabReal) (hlt : ∀ q, q ∈ rem → q < t.n) (k : Nat) (c : Nat → PRow) (hb : IsLocalBasis t rem k c) :
    ∑ s ∈ Finset.range (2 ^ t.n),
        (if IdOn rem (mprod t.n (STab.ofTab t).row s t.n) then pauliMat m (delCols rem (mprod t.n (STab.ofTab t).row s t.n))
         else 0)
      = ∑ u ∈ Finset.range (2 ^ k), pauliMat m (delCols rem (mprod t.n c u k)) := by
  have ga := ofTab_good t hv
  have cong : ∀ g g' : PRow, EqOn t.n g g' → pauliMat m (delCols rem g) = pauliMat m (delCols rem g') := by
    intro g g' h
    apply pauliMat_congr
    apply delCols_congr rem
    rw [← hn]; exact h
  have inA : ∀ u : Nat, (STab.ofTab t).Spn (sprod t.n c (fun i => u.testBit i) k) := by
    intro u
    exact sprod_spn_gens' (STab.ofTab t) c k (fun i hi => (spn_of_grp t hr _).mp (hb.mem i hi)) _ k (Nat.le_refl _)
  have ex : ∀ u : Nat, ∃ s, s < 2 ^ t.n ∧ EqOn t.n (sprod t.n c (fun i => u.testBit i) k)
      (mprod t.n (STab.ofTab t).row s t.n) := fun u => (spn_iff_mask' (STab.ofTab t) ga _).1 (inA u)
  rw [← Finset.sum_filter]
  symm
  apply Finset.sum_bij (fun u _ => Classical.choose (ex u))
  · intro u _
    obtain ⟨h1, h2⟩ := Classical.choose_spec (ex u)
    rw [Finset.mem_filter, Finset.mem_range]
    refine ⟨h1, ?_⟩
    intro q hq
    have hid : IdOn rem (sprod t.n c (fun i => u.testBit i) k) := by
      rw [← mprod_eq_sprod']; exact idOn_mprod t.n rem c k hb.idOn u
    have hqn := hlt q hq
    rw [← (h2.1 q hqn).1, ← (h2.1 q hqn).2]; exact hid q hq
  · intro u hu u' hu' e
    obtain ⟨_, h2⟩ := Classical.choose_spec (ex u)
    obtain ⟨_, h2'⟩ := Classical.choose_spec (ex u')
    have e12 : EqOn t.n (sprod t.n c (fun i => u.testBit i) k) (sprod t.n c (fun i => u'.testBit i) k) := by
      have h2'' := h2'
      rw [← e] at h2''
      exact h2.trans h2''.symm
    have real1 := spn_real (STab.ofTab t) ga _ (inA u)
    have triv : EqOn t.n (sprod t.n c (fun i => xor (u.testBit i) (u'.testBit i)) k) PRow.one :=
      ((sprod_mul_gens' (STab.ofTab t) ga c k (fun i hi => (spn_of_grp t hr _).mp (hb.mem i hi)) _ _ k
        (Nat.le_refl _)).symm.trans (mul_congr t.n _ _ _ _ (EqOn.refl _ _) e12.symm)).trans (mul_self t.n _ real1)
    have z := hb.indep _ triv
    apply Nat.eq_of_testBit_eq
    intro j
    by_cases hj : j < k
    · have := z j hj
      revert this
      cases u.testBit j <;> cases u'.testBit j <;> simp
    · have h1 : u < 2 ^ j :=
        Nat.lt_of_lt_of_le (Finset.mem_range.mp hu) (Nat.pow_le_pow_right (by decide) (by omega))
      have h2 : u' < 2 ^ j :=
        Nat.lt_of_lt_of_le (Finset.mem_range.mp hu') (Nat.pow_le_pow_right (by decide) (by omega))
      rw [Nat.testBit_lt_two_pow h1, Nat.testBit_lt_two_pow h2]
  · intro s hs
    rw [Finset.mem_filter, Finset.mem_range] at hs
    obtain ⟨hs1, hs2⟩ := hs
    have hA : (STab.ofTab t).Spn (mprod t.n (STab.ofTab t).row s t.n) := by
      rw [mprod_eq_sprod']; exact STab.sprod_spn (STab.ofTab t) _ t.n (Nat.le_refl _)
    obtain ⟨S, hS⟩ := hb.span _ ((spn_of_grp t hr _).mpr hA) hs2
    obtain ⟨u, hu, hbits⟩ := mask_of_subset' k S
    refine ⟨u, Finset.mem_range.mpr hu, ?_⟩
    obtain ⟨h1, h2⟩ := Classical.choose_spec (ex u)
    have e3 : EqOn t.n (sprod t.n c (fun i => u.testBit i) k) (sprod t.n c S k) := by
      rw [sprod_congr t.n c _ S k hbits]; exact EqOn.refl _ _
    exact mask_unique t hv hr _ s h1 hs1 (h2.symm.trans (e3.trans hS.symm))
  · intro u _
    obtain ⟨_, h2⟩ := Classical.choose_spec (ex u)
    rw [mprod_eq_sprod']
    exact cong _ _ h2

/-! ### the reduced state is a scaled projector -/

theorem localBasis_goodTo (m : Nat) (t : Tab) (rem : List Nat) (hn : t.n = m + rem.length) (hv : t.Valid)
    (hr : t.StabReal) (hpw : rem.Pairwise (· > ·)) (hlt : ∀ q, q ∈ rem → q < t.n) (k : Nat) (c : Nat → PRow)
    (hb : IsLocalBasis t rem k c) : GoodTo m (fun i => delCols rem (c i)) k := by
  constructor
  · intro i hi
    show (delCols rem (c i)).ip = false
    rw [delCols_ip]; exact grp_real t hv hr _ (hb.mem i hi)
  · intro i j hi hj
    show sp m (delCols rem (c i)) (delCols rem (c j)) = false
    rw [sp_delCols rem hpw (fun q hq => by have := hlt q hq; omega) _ _ (hb.idOn i hi) (hb.idOn j hj), ← hn]
    exact grp_comm t hv hr _ _ (hb.mem i hi) (hb.mem j hj)

/-- **The reduced state of a stabilizer state.**  `σ = Tr_rem ρ(t) = (2^k / 2^m) · Π` with
    `Π = ∏_{i<k} (1 + c_i|_kept)/2` an orthogonal projector; hence `σ² = (2^k/2^m) σ` and the purity is
    `tr σ² = 2^k / 2^m = 2^{-(m-k)}`: the state is maximally mixed on the subspace stabilized by the restricted subgroup. -/
theorem reduced_state_eq_proj (m : Nat) (t : Tab) (rem : List Nat) (hn : t.n = m + rem.length) (hv : t.Valid)
    (hr : t.StabReal) (hpw : rem.Pairwise (· > ·)) (hlt : ∀ q, q ∈ rem → q < t.n) (k : Nat) (c : Nat → PRow)
    (hb : IsLocalBasis t rem k c) :
    ptraceList rem (rho (m + rem.length) (STab.ofTab t))
      = ((2 : ℂ) ^ k / 2 ^ m) • rhoTo m (fun i => delCols rem (c i)) k ∧
    rhoTo m (fun i => delCols rem (c i)) k * rhoTo m (fun i => delCols rem (c i)) k
      = rhoTo m (fun i => delCols rem (c i)) k ∧
    (rhoTo m (fun i => delCols rem (c i)) k)ᴴ = rhoTo m (fun i => delCols rem (c i)) k ∧
    ptraceList rem (rho (m + rem.length) (STab.ofTab t)) * ptraceList rem (rho (m + rem.length) (STab.ofTab t))
      = ((2 : ℂ) ^ k / 2 ^ m) • ptraceList rem (rho (m + rem.length) (STab.ofTab t)) ∧
    Matrix.trace (ptraceList rem (rho (m + rem.length) (STab.ofTab t))
        * ptraceList rem (rho (m + rem.length) (STab.ofTab t))) = (2 : ℂ) ^ k / 2 ^ m := by
  have hgood := localBasis_goodTo m t rem hn hv hr hpw hlt k c hb
  have hidem := rhoTo_idem m _ k hgood
  have hherm := rhoTo_hermitian m _ k hgood
  have hσ : ptraceList rem (rho (m + rem.length) (STab.ofTab t))
      = ((2 : ℂ) ^ k / 2 ^ m) • rhoTo m (fun i => delCols rem (c i)) k := by
    rw [reduced_state_sum m t rem hn hv hpw hlt, local_sum_regroup m t rem hn hv hr hlt k c hb]
    have hterm : ∀ u, pauliMat m (delCols rem (mprod t.n c u k))
        = pauliMat m (mprod m (fun i => delCols rem (c i)) u k) := by
      intro u
      apply pauliMat_congr
      have := delCols_mprod (m := m) rem hpw (fun q hq => by have := hlt q hq; omega) c k hb.idOn u
      rw [← hn] at this
      exact this
    rw [Finset.sum_congr rfl (fun u _ => hterm u)]
    have hsum := rhoTo_mask_sum m (fun i => delCols rem (c i)) k hgood
    have h2k : (2 : ℂ) ^ k • rhoTo m (fun i => delCols rem (c i)) k
        = ∑ u ∈ Finset.range (2 ^ k), pauliMat m (mprod m (fun i => delCols rem (c i)) u k) := by
      rw [hsum, smul_smul, ← mul_pow]; norm_num
    rw [← h2k, smul_smul]
    congr 1
    rw [one_div, inv_pow]; field_simp
  have tr1 : Matrix.trace (ptraceList rem (rho (m + rem.length) (STab.ofTab t))) = 1 := by
    rw [trace_ptraceList rem (fun q hq => by have := hlt q hq; omega) hpw]
    have := rho_ofTab_trace t hv
    rw [hn] at this; exact this
  have hsq : ptraceList rem (rho (m + rem.length) (STab.ofTab t)) * ptraceList rem (rho (m + rem.length) (STab.ofTab t))
      = ((2 : ℂ) ^ k / 2 ^ m) • ptraceList rem (rho (m + rem.length) (STab.ofTab t)) := by
    rw [hσ, smul_mul_smul_comm, hidem, smul_smul]
  refine ⟨hσ, hidem, hherm, hsq, ?_⟩
  rw [hsq, Matrix.trace_smul, tr1, smul_eq_mul, _root_.mul_one]

end Hilbert
end Graphiq
