/-
  Proofs/InvRest.lean — blocks 2 to 7 of `inverse_circuit` (CNOT, CZ, P, H, row products, X): if the tableau after the
  first block has an upper triangular x-bit matrix whose rows are either "X type" (1 on the diagonal) or "Z type" (no x-bit,
  z-bit 1 on the diagonal and none to its right) — `Post1` — then the six remaining blocks end in exactly |0…0⟩.
  All sizes; loop invariants block by block.  No Mathlib.
-/
import GraphiqModel.Proofs.InvBits
namespace Graphiq
open PRow Tab
namespace STab

/-- a "Z type" row `c`: no x-bit at all, z-bit 1 on the diagonal, no z-bit right of the diagonal -/
def ZType (t : STab) (c : Nat) : Prop :=
  (∀ c', c' < t.n → xb t c c' = false) ∧ zb t c c = true ∧ ∀ c', c < c' → c' < t.n → zb t c c' = false

/-- the shape the first block establishes -/
structure Post1 (t : STab) : Prop where
  upper : ∀ c i, c < i → i < t.n → xb t i c = false
  diag : ∀ c, c < t.n → xb t c c = true ∨ ZType t c

/-- a parity whose summand vanishes below `n` away from the two sites `c ≠ t` -/
theorem parityTo_two' (n c t : Nat) (f : Nat → Bool) (hc : c < n) (ht : t < n) (hct : c ≠ t)
    (h : ∀ j, j < n → j ≠ c → j ≠ t → f j = false) : parityTo n f = xor (f c) (f t) := by
  have e := parityTo_two n c t (fun j => decide (j < n) && f j) hc ht hct (by
    intro j h1 h2
    by_cases hj : j < n
    · simp [h j hj h1 h2]
    · simp [hj])
  rw [parityTo_congr n f (fun j => decide (j < n) && f j) (by intro j hj; simp [hj]), e]
  simp [hc, ht]

/-! ### block 2: CNOTs make the x-bit matrix diagonal -/

structure B2 (N : Nat) (t : STab) (j k : Nat) : Prop where
  n_eq : t.n = N
  good : t.Good
  upper : ∀ c i, c < i → i < N → xb t i c = false
  diag : ∀ c, c < N → xb t c c = true ∨ ZType t c
  done : ∀ j' c, j' < j → j' < c → c < N → xb t j' c = false
  cur : ∀ c, j < c → c < k → c < N → xb t j c = false

theorem b2_step (N : Nat) (st : InvState) (j k : Nat) (hjk : j < k) (hk : k < N) (h : B2 N st.t j k) :
    B2 N (invStep2 st (j, k)).t j (k + 1) := by
  have hn := h.n_eq
  unfold invStep2
  simp only
  split
  · next hx1 =>
    have hx1 : xb st.t j k = true := hx1
    have hjj : xb st.t j j = true := by
      rcases h.diag j (by omega) with h1 | h1
      · exact h1
      · have := h1.1 k (by omega); rw [this] at hx1; cases hx1
    have ex : ∀ m c, m < N → c < N → xb (st.gate (.CNOT j k)).t m c
        = if c = k then xor (xb st.t m c) (xb st.t m j) else xb st.t m c := by
      intro m c hm hc
      rw [gate_xb st _ m c (by omega) (by omega)]; exact cnot_x j k _ c
    have ez : ∀ m c, m < N → c < N → zb (st.gate (.CNOT j k)).t m c
        = if c = j then xor (zb st.t m c) (zb st.t m k) else zb st.t m c := by
      intro m c hm hc
      rw [gate_zb st _ m c (by omega) (by omega)]; exact cnot_z j k _ c
    refine ⟨hn, gate_good st _ (by show j < st.t.n ∧ k < st.t.n ∧ j ≠ k; omega) h.good, ?_, ?_, ?_, ?_⟩
    · intro c i hci hi
      rw [ex i c hi (by omega)]
      split
      · next e => subst e; rw [h.upper c i hci hi, h.upper j i (by omega) hi]; rfl
      · exact h.upper c i hci hi
    · intro c hc
      rcases h.diag c hc with h1 | h1
      · left
        rw [ex c c hc hc]
        split
        · next e => subst e; rw [h1, h.upper j c hjk hc]; rfl
        · exact h1
      · right
        have hcj : c ≠ j := by
          intro e; subst e; have := h1.1 k (by omega); rw [this] at hx1; cases hx1
        refine ⟨fun c' hc' => ?_, ?_, fun c' h1' h2' => ?_⟩
        · have hc'' : c' < N := by rw [← hn]; exact hc'
          rw [ex c c' hc hc'']
          split
          · rw [h1.1 c' hc', h1.1 j (by omega)]; rfl
          · exact h1.1 c' hc'
        · rw [ez c c hc hc, if_neg hcj]; exact h1.2.1
        · have hc'' : c' < N := by rw [← hn]; exact h2'
          rw [ez c c' hc hc'']
          split
          · next e => subst e; rw [h1.2.2 c' h1' h2', h1.2.2 k (by omega) (by omega)]; rfl
          · exact h1.2.2 c' h1' h2'
    · intro j' c h1 h2 h3
      rw [ex j' c (by omega) h3]
      split
      · rw [h.done j' c h1 h2 h3, h.done j' j h1 h1 (by omega)]; rfl
      · exact h.done j' c h1 h2 h3
    · intro c h1 h2 h3
      rw [ex j c (by omega) h3]
      split
      · next e => subst e; rw [hx1, hjj]; rfl
      · next e => exact h.cur c h1 (by omega) h3
  · next hx0 =>
    have hx0 : xb st.t j k = false := by
      cases hh : xb st.t j k
      · rfl
      · exact absurd hh hx0
    refine ⟨hn, h.good, h.upper, h.diag, h.done, ?_⟩
    intro c h1 h2 h3
    by_cases e : c = k
    · subst e; exact hx0
    · exact h.cur c h1 (by omega) h3

/-- after block 2 -/
structure A2 (N : Nat) (t : STab) : Prop where
  n_eq : t.n = N
  good : t.Good
  xdiag : ∀ m c, m < N → c < N → m ≠ c → xb t m c = false
  diag : ∀ c, c < N → xb t c c = true ∨ ZType t c

theorem block2 (N : Nat) (st : InvState) (hn : st.t.n = N) (hg : st.t.Good) (hp : Post1 st.t) :
    A2 N ((pairsLt N).foldl invStep2 st).t := by
  have key := foldl_pairsLt_inv invStep2 (fun j s => B2 N s.t j (j + 1)) (fun j k s => B2 N s.t j k) N st
    ⟨hn, hg, fun c i h1 h2 => hp.upper c i h1 (by omega), fun c hc => hp.diag c (by omega),
      fun j' c h1 => by omega, fun c h1 h2 => by omega⟩
    (fun j s _ hq => hq)
    (fun j k s h1 h2 hq => b2_step N s j k h1 h2 hq)
    (fun j s hj hq => ⟨hq.n_eq, hq.good, hq.upper, hq.diag, fun j' c h1 h2 h3 => by
        by_cases e : j' = j
        · subst e; exact hq.cur c h2 h3 h3
        · exact hq.done j' c (by omega) h2 h3, fun c h1 h2 => by omega⟩)
  refine ⟨key.n_eq, key.good, ?_, key.diag⟩
  intro m c hm hc hne
  by_cases hlt : m < c
  · exact key.done m c hm hlt hc
  · exact key.upper c m (by omega) hm

/-! ### block 3: CZs clear the z-bits right of the diagonal -/

structure B3 (N : Nat) (t : STab) (j k : Nat) : Prop where
  n_eq : t.n = N
  good : t.Good
  xdiag : ∀ m c, m < N → c < N → m ≠ c → xb t m c = false
  diag : ∀ c, c < N → xb t c c = true ∨ ZType t c
  done : ∀ j' c, j' < j → j' < c → c < N → zb t j' c = false
  cur : ∀ c, j < c → c < k → c < N → zb t j c = false

theorem b3_step (N : Nat) (st : InvState) (j k : Nat) (hjk : j < k) (hk : k < N) (h : B3 N st.t j k) :
    B3 N (invStep3 st (j, k)).t j (k + 1) := by
  have hn := h.n_eq
  unfold invStep3
  simp only
  split
  · next hc1 =>
    have hz1 : zb st.t j k = true := by
      simp only [Bool.and_eq_true] at hc1; exact hc1.2
    have hjj : xb st.t j j = true := by
      rcases h.diag j (by omega) with h1 | h1
      · exact h1
      · have := h1.2.2 k hjk (by omega); rw [this] at hz1; cases hz1
    have ex : ∀ m c, m < N → c < N → xb (st.gate (.CZ j k)).t m c = xb st.t m c := by
      intro m c hm hc
      rw [gate_xb st _ m c (by omega) (by omega)]; exact cz_x j k (by omega) _ c
    have ez : ∀ m c, m < N → c < N → zb (st.gate (.CZ j k)).t m c
        = if c = j then xor (zb st.t m c) (xb st.t m k) else if c = k then xor (zb st.t m c) (xb st.t m j)
          else zb st.t m c := by
      intro m c hm hc
      rw [gate_zb st _ m c (by omega) (by omega)]; exact cz_z j k (by omega) _ c
    refine ⟨hn, gate_good st _ (by show j < st.t.n ∧ k < st.t.n ∧ j ≠ k; omega) h.good, ?_, ?_, ?_, ?_⟩
    · intro m c hm hc hne
      rw [ex m c hm hc]; exact h.xdiag m c hm hc hne
    · intro c hc
      rcases h.diag c hc with h1 | h1
      · left; rw [ex c c hc hc]; exact h1
      · right
        have ezc : ∀ c', c' < N → zb (st.gate (.CZ j k)).t c c' = zb st.t c c' := by
          intro c' hc'
          rw [ez c c' hc hc', h1.1 k (by omega), h1.1 j (by omega)]
          split
          · simp
          · split <;> simp
        refine ⟨fun c' hc' => ?_, ?_, fun c' h1' h2' => ?_⟩
        · have hc'' : c' < N := by rw [← hn]; exact hc'
          rw [ex c c' hc hc'']; exact h1.1 c' hc'
        · rw [ezc c hc]; exact h1.2.1
        · have hc'' : c' < N := by rw [← hn]; exact h2'
          rw [ezc c' hc'']; exact h1.2.2 c' h1' h2'
    · intro j' c h1 h2 h3
      rw [ez j' c (by omega) h3, h.done j' c h1 h2 h3, h.xdiag j' k (by omega) hk (by omega),
        h.xdiag j' j (by omega) (by omega) (by omega)]
      split
      · rfl
      · split <;> rfl
    · intro c h1 h2 h3
      rw [ez j c (by omega) h3]
      have hcj : c ≠ j := by omega
      rw [if_neg hcj]
      split
      · next e => subst e; rw [hz1, hjj]; rfl
      · exact h.cur c h1 (by omega) h3
  · next hc0 =>
    have hz0 : zb st.t j k = false := by
      have hx : xb st.t j k = false := h.xdiag j k (by omega) hk (by omega)
      cases hh : zb st.t j k
      · rfl
      · exfalso; apply hc0
        have hx' : (st.t.row j).x k = false := hx
        have hh' : (st.t.row j).z k = true := hh
        simp [hx', hh']
    refine ⟨hn, h.good, h.xdiag, h.diag, h.done, ?_⟩
    intro c h1 h2 h3
    by_cases e : c = k
    · subst e; exact hz0
    · exact h.cur c h1 (by omega) h3

/-- after block 3 (with the consequence of commutation: the z-column of an X-type row is cleared off the diagonal) -/
structure A3 (N : Nat) (t : STab) : Prop where
  n_eq : t.n = N
  xdiag : ∀ m c, m < N → c < N → m ≠ c → xb t m c = false
  diag : ∀ c, c < N → xb t c c = true ∨ ZType t c
  zupper : ∀ m c, m < c → c < N → zb t m c = false
  zcol : ∀ i m, i < N → m < N → xb t i i = true → m ≠ i → zb t m i = false

theorem block3 (N : Nat) (st : InvState) (h : A2 N st.t) : A3 N ((pairsLt N).foldl invStep3 st).t := by
  have key := foldl_pairsLt_inv invStep3 (fun j s => B3 N s.t j (j + 1)) (fun j k s => B3 N s.t j k) N st
    ⟨h.n_eq, h.good, h.xdiag, h.diag, fun j' c h1 => by omega, fun c h1 h2 => by omega⟩
    (fun j s _ hq => hq)
    (fun j k s h1 h2 hq => b3_step N s j k h1 h2 hq)
    (fun j s hj hq => ⟨hq.n_eq, hq.good, hq.xdiag, hq.diag, fun j' c h1 h2 h3 => by
        by_cases e : j' = j
        · subst e; exact hq.cur c h2 h3 h3
        · exact hq.done j' c (by omega) h2 h3, fun c h1 h2 => by omega⟩)
  generalize ((pairsLt N).foldl invStep3 st).t = t at key
  have zupper : ∀ m c, m < c → c < N → zb t m c = false := fun m c h1 h2 => key.done m c (by omega) h1 h2
  refine ⟨key.n_eq, key.xdiag, key.diag, zupper, ?_⟩
  intro i m hi hm hxi hne
  by_cases hlt : m < i
  · exact zupper m i hlt hi
  · have him : i < m := by omega
    have hc := key.good.comm i m (by rw [key.n_eq]; exact hi) (by rw [key.n_eq]; exact hm)
    rw [key.n_eq] at hc
    unfold PRow.sp at hc
    rw [parityTo_two' N i m _ hi hm (by omega) (by
      intro c hcN h1 h2
      have e1 : (t.row i).x c = false := key.xdiag i c hi hcN (by omega)
      have e2 : (t.row m).x c = false := key.xdiag m c hm hcN (by omega)
      simp [e1, e2])] at hc
    have e1 : (t.row i).x i = true := hxi
    have e2 : (t.row m).x i = false := key.xdiag m i hm hi (by omega)
    have e3 : (t.row i).x m = false := key.xdiag i m hi hm (by omega)
    have e4 : (t.row i).z m = false := zupper i m him hm
    simp only [e1, e2, e3, e4, Bool.true_and, Bool.false_and, Bool.and_false, Bool.xor_false] at hc
    exact hc

/-! ### block 4: phase gates clear the diagonal z-bit of the X-type rows -/

structure B4 (N : Nat) (t : STab) (j : Nat) : Prop where
  n_eq : t.n = N
  xdiag : ∀ m c, m < N → c < N → m ≠ c → xb t m c = false
  diag : ∀ c, c < N → xb t c c = true ∨ ZType t c
  zupper : ∀ m c, m < c → c < N → zb t m c = false
  zcol : ∀ i m, i < N → m < N → xb t i i = true → m ≠ i → zb t m i = false
  done : ∀ j', j' < j → j' < N → xb t j' j' = true → zb t j' j' = false

theorem b4_step (N : Nat) (st : InvState) (j : Nat) (hj : j < N) (h : B4 N st.t j) : B4 N (invStep4 st j).t (j + 1) := by
  have hn := h.n_eq
  unfold invStep4
  split
  · next hc1 =>
    simp only [Bool.and_eq_true] at hc1
    have hxj : xb st.t j j = true := hc1.1
    have hzj : zb st.t j j = true := hc1.2
    have ex : ∀ m c, m < N → c < N → xb (st.gate (.P j)).t m c = xb st.t m c := by
      intro m c hm hc
      rw [gate_xb st _ m c (by omega) (by omega)]; exact s_x j _ c
    have ez : ∀ m c, m < N → c < N → zb (st.gate (.P j)).t m c
        = if c = j then xor (zb st.t m c) (xb st.t m j) else zb st.t m c := by
      intro m c hm hc
      rw [gate_zb st _ m c (by omega) (by omega)]; exact s_z j _ c
    refine ⟨hn, ?_, ?_, ?_, ?_, ?_⟩
    · intro m c hm hc hne
      rw [ex m c hm hc]; exact h.xdiag m c hm hc hne
    · intro c hc
      rcases h.diag c hc with h1 | h1
      · left; rw [ex c c hc hc]; exact h1
      · right
        have ezc : ∀ c', c' < N → zb (st.gate (.P j)).t c c' = zb st.t c c' := by
          intro c' hc'
          rw [ez c c' hc hc', h1.1 j (by omega)]
          split <;> simp
        refine ⟨fun c' hc' => ?_, ?_, fun c' h1' h2' => ?_⟩
        · have hc'' : c' < N := by rw [← hn]; exact hc'
          rw [ex c c' hc hc'']; exact h1.1 c' hc'
        · rw [ezc c hc]; exact h1.2.1
        · have hc'' : c' < N := by rw [← hn]; exact h2'
          rw [ezc c' hc'']; exact h1.2.2 c' h1' h2'
    · intro m c h1 h2
      rw [ez m c (by omega) h2, h.zupper m c h1 h2]
      split
      · next e => subst e; rw [h.xdiag m c (by omega) h2 (by omega)]; rfl
      · rfl
    · intro i m hi hm hxi hne
      rw [ex i i hi hi] at hxi
      rw [ez m i hm hi, h.zcol i m hi hm hxi hne]
      split
      · next e => subst e; rw [h.xdiag m i hm hi hne]; rfl
      · rfl
    · intro j' h1 h2 hx
      rw [ex j' j' h2 h2] at hx
      rw [ez j' j' h2 h2]
      split
      · next e => subst e; rw [hzj, hxj]; rfl
      · next e => exact h.done j' (by omega) h2 hx
  · next hc0 =>
    refine ⟨hn, h.xdiag, h.diag, h.zupper, h.zcol, ?_⟩
    intro j' h1 h2 hx
    by_cases e : j' = j
    · subst e
      cases hh : zb st.t j' j'
      · rfl
      · exfalso; apply hc0
        have hx' : (st.t.row j').x j' = true := hx
        have hh' : (st.t.row j').z j' = true := hh
        simp [hx', hh']
    · exact h.done j' (by omega) h2 hx

/-- after block 4: every column is either "X type" (x-column a unit vector, z-column zero) or "Z type" -/
structure A4 (N : Nat) (t : STab) : Prop where
  n_eq : t.n = N
  xdiag : ∀ m c, m < N → c < N → m ≠ c → xb t m c = false
  zupper : ∀ m c, m < c → c < N → zb t m c = false
  cols : ∀ c, c < N → (xb t c c = true ∧ ∀ m, m < N → zb t m c = false) ∨ (xb t c c = false ∧ zb t c c = true)

theorem block4 (N : Nat) (st : InvState) (h : A3 N st.t) : A4 N ((List.range N).foldl invStep4 st).t := by
  have key := foldl_range_inv invStep4 (fun j s => B4 N s.t j) N st
    ⟨h.n_eq, h.xdiag, h.diag, h.zupper, h.zcol, fun j' h1 => by omega⟩
    (fun j s hj hq => b4_step N s j hj hq)
  generalize ((List.range N).foldl invStep4 st).t = t at key
  refine ⟨key.n_eq, key.xdiag, key.zupper, ?_⟩
  intro c hc
  rcases key.diag c hc with h1 | h1
  · left
    refine ⟨h1, fun m hm => ?_⟩
    by_cases e : m = c
    · subst e; exact key.done m hc hc h1
    · exact key.zcol c m hc hm h1 e
  · right
    exact ⟨h1.1 c (by rw [key.n_eq]; exact hc), h1.2.1⟩

/-! ### block 5: Hadamards turn the X-type columns into Z-type columns -/

structure B5 (N : Nat) (t : STab) (j : Nat) : Prop where
  n_eq : t.n = N
  xdiag : ∀ m c, m < N → c < N → m ≠ c → xb t m c = false
  zupper : ∀ m c, m < c → c < N → zb t m c = false
  lo : ∀ c, c < j → c < N → xb t c c = false ∧ zb t c c = true
  hi : ∀ c, j ≤ c → c < N → (xb t c c = true ∧ ∀ m, m < N → zb t m c = false) ∨ (xb t c c = false ∧ zb t c c = true)

theorem b5_step (N : Nat) (st : InvState) (j : Nat) (hj : j < N) (h : B5 N st.t j) : B5 N (invStep5 st j).t (j + 1) := by
  have hn := h.n_eq
  unfold invStep5
  split
  · next hc1 =>
    simp only [Bool.and_eq_true, Bool.not_eq_true'] at hc1
    have hxj : xb st.t j j = true := hc1.1
    have hzj : zb st.t j j = false := hc1.2
    have hcol : ∀ m, m < N → zb st.t m j = false := by
      rcases h.hi j (Nat.le_refl _) hj with h1 | h1
      · exact h1.2
      · rw [h1.1] at hxj; cases hxj
    have ex : ∀ m c, m < N → c < N → xb (st.gate (.H j)).t m c = if c = j then zb st.t m c else xb st.t m c := by
      intro m c hm hc
      rw [gate_xb st _ m c (by omega) (by omega)]; exact h_x j _ c
    have ez : ∀ m c, m < N → c < N → zb (st.gate (.H j)).t m c = if c = j then xb st.t m c else zb st.t m c := by
      intro m c hm hc
      rw [gate_zb st _ m c (by omega) (by omega)]; exact h_z j _ c
    refine ⟨hn, ?_, ?_, ?_, ?_⟩
    · intro m c hm hc hne
      rw [ex m c hm hc]
      split
      · next e => subst e; exact hcol m hm
      · exact h.xdiag m c hm hc hne
    · intro m c h1 h2
      rw [ez m c (by omega) h2]
      split
      · next e => subst e; exact h.xdiag m c (by omega) h2 (by omega)
      · exact h.zupper m c h1 h2
    · intro c h1 h2
      rw [ex c c h2 h2, ez c c h2 h2]
      split
      · next e => subst e; exact ⟨hzj, hxj⟩
      · exact h.lo c (by omega) h2
    · intro c h1 h2
      have hcj : c ≠ j := by omega
      rw [ex c c h2 h2, if_neg hcj, ez c c h2 h2, if_neg hcj]
      rcases h.hi c (by omega) h2 with h3 | h3
      · left
        refine ⟨h3.1, fun m hm => ?_⟩
        rw [ez m c hm h2, if_neg hcj]; exact h3.2 m hm
      · right; exact h3
  · next hc0 =>
    refine ⟨hn, h.xdiag, h.zupper, ?_, fun c h1 h2 => h.hi c (by omega) h2⟩
    intro c h1 h2
    by_cases e : c = j
    · subst e
      rcases h.hi c (Nat.le_refl _) h2 with h3 | h3
      · exfalso; apply hc0
        have hx' : (st.t.row c).x c = true := h3.1
        have hh' : (st.t.row c).z c = false := h3.2 c h2
        simp [hx', hh']
      · exact h3
    · exact h.lo c (by omega) h2

/-- after block 5: no x-bit, z-bit matrix unit lower triangular -/
structure A5 (N : Nat) (t : STab) : Prop where
  n_eq : t.n = N
  xzero : ∀ m c, m < N → c < N → xb t m c = false
  zdiag : ∀ c, c < N → zb t c c = true
  zupper : ∀ m c, m < c → c < N → zb t m c = false

theorem block5 (N : Nat) (st : InvState) (h : A4 N st.t) : A5 N ((List.range N).foldl invStep5 st).t := by
  have key := foldl_range_inv invStep5 (fun j s => B5 N s.t j) N st
    ⟨h.n_eq, h.xdiag, h.zupper, fun c h1 => by omega, fun c _ h2 => h.cols c h2⟩
    (fun j s hj hq => b5_step N s j hj hq)
  generalize ((List.range N).foldl invStep5 st).t = t at key
  refine ⟨key.n_eq, ?_, fun c hc => (key.lo c hc hc).2, key.zupper⟩
  intro m c hm hc
  by_cases e : m = c
  · subst e; exact (key.lo m hm hm).1
  · exact key.xdiag m c hm hc e

/-! ### block 6: row products clear the z-bits left of the diagonal -/

structure B6 (N : Nat) (t : STab) (j k : Nat) : Prop where
  n_eq : t.n = N
  xzero : ∀ m c, m < N → c < N → xb t m c = false
  zdiag : ∀ c, c < N → zb t c c = true
  zupper : ∀ m c, m < c → c < N → zb t m c = false
  done : ∀ j' m, j' < j → j' < m → m < N → zb t m j' = false
  cur : ∀ m, j < m → m < k → m < N → zb t m j = false

theorem b6_step (N : Nat) (st : InvState) (j k : Nat) (hjk : j < k) (hk : k < N) (h : B6 N st.t j k) :
    B6 N (invStep6 st (j, k)).t j (k + 1) := by
  have hn := h.n_eq
  unfold invStep6
  simp only
  split
  · next hc1 =>
    simp only [Bool.and_eq_true] at hc1
    have hz1 : zb st.t k j = true := hc1.2
    have ex : ∀ m c, m < N → c < N → xb (st.rsum j k).t m c
        = if m = k then xor (xb st.t j c) (xb st.t k c) else xb st.t m c := by
      intro m c hm hc; exact rsum_xb st j k m c (by omega) (by omega)
    have ez : ∀ m c, m < N → c < N → zb (st.rsum j k).t m c
        = if m = k then xor (zb st.t j c) (zb st.t k c) else zb st.t m c := by
      intro m c hm hc; exact rsum_zb st j k m c (by omega) (by omega)
    -- row `j` is the unit vector
    have rowj : ∀ c, c < N → zb st.t j c = decide (c = j) := by
      intro c hc
      by_cases e : c = j
      · subst e; simp [h.zdiag c hc]
      · by_cases hlt : c < j
        · rw [h.done c j hlt hlt (by omega)]; simp [e]
        · rw [h.zupper j c (by omega) hc]; simp [e]
    refine ⟨hn, ?_, ?_, ?_, ?_, ?_⟩
    · intro m c hm hc
      rw [ex m c hm hc, h.xzero j c (by omega) hc, h.xzero k c hk hc, h.xzero m c hm hc]
      split <;> rfl
    · intro c hc
      rw [ez c c hc hc]
      split
      · next e => subst e; rw [h.zupper j c hjk hc, h.zdiag c hc]; rfl
      · exact h.zdiag c hc
    · intro m c h1 h2
      rw [ez m c (by omega) h2]
      split
      · next e => subst e; rw [h.zupper j c (by omega) h2, h.zupper m c h1 h2]; rfl
      · exact h.zupper m c h1 h2
    · intro j' m h1 h2 h3
      rw [ez m j' h3 (by omega)]
      split
      · next e => subst e; rw [h.done j' j h1 h1 (by omega), h.done j' m h1 h2 h3]; rfl
      · exact h.done j' m h1 h2 h3
    · intro m h1 h2 h3
      rw [ez m j h3 (by omega)]
      split
      · next e => subst e; rw [h.zdiag j (by omega), hz1]; rfl
      · next e => exact h.cur m h1 (by omega) h3
  · next hc0 =>
    refine ⟨hn, h.xzero, h.zdiag, h.zupper, h.done, ?_⟩
    intro m h1 h2 h3
    by_cases e : m = k
    · subst e
      cases hh : zb st.t m j
      · rfl
      · exfalso; apply hc0
        have hx' : (st.t.row m).x j = false := h.xzero m j h3 (by omega)
        have hh' : (st.t.row m).z j = true := hh
        simp [hx', hh']
    · exact h.cur m h1 (by omega) h3

/-- after block 6: the tableau of |0…0⟩ up to signs -/
structure A6 (N : Nat) (t : STab) : Prop where
  n_eq : t.n = N
  xzero : ∀ m c, m < N → c < N → xb t m c = false
  zid : ∀ m c, m < N → c < N → zb t m c = decide (c = m)

theorem block6 (N : Nat) (st : InvState) (h : A5 N st.t) : A6 N ((pairsLt N).foldl invStep6 st).t := by
  have key := foldl_pairsLt_inv invStep6 (fun j s => B6 N s.t j (j + 1)) (fun j k s => B6 N s.t j k) N st
    ⟨h.n_eq, h.xzero, h.zdiag, h.zupper, fun j' c h1 => by omega, fun c h1 h2 => by omega⟩
    (fun j s _ hq => hq)
    (fun j k s h1 h2 hq => b6_step N s j k h1 h2 hq)
    (fun j s hj hq => ⟨hq.n_eq, hq.xzero, hq.zdiag, hq.zupper, fun j' c h1 h2 h3 => by
        by_cases e : j' = j
        · subst e; exact hq.cur c h2 h3 h3
        · exact hq.done j' c (by omega) h2 h3, fun c h1 h2 => by omega⟩)
  generalize ((pairsLt N).foldl invStep6 st).t = t at key
  refine ⟨key.n_eq, key.xzero, ?_⟩
  intro m c hm hc
  by_cases e : c = m
  · subst e; simp [key.zdiag c hc]
  · by_cases hlt : c < m
    · rw [key.done c m hc hlt hm]; simp [e]
    · rw [key.zupper m c (by omega) hc]; simp [e]

/-! ### block 7: X gates clear the signs -/

structure B7 (N : Nat) (r0 : Nat → Bool) (t : STab) (i : Nat) : Prop where
  n_eq : t.n = N
  xzero : ∀ m c, m < N → c < N → xb t m c = false
  zid : ∀ m c, m < N → c < N → zb t m c = decide (c = m)
  lo : ∀ m, m < i → m < N → rb t m = false
  hi : ∀ m, i ≤ m → m < N → rb t m = r0 m

theorem b7_step (N : Nat) (r0 : Nat → Bool) (st : InvState) (i : Nat) (hi : i < N) (h : B7 N r0 st.t i) :
    B7 N r0 (if r0 i = true then invStep7 st i else st).t (i + 1) := by
  have hn := h.n_eq
  split
  · next hr =>
    unfold invStep7
    have ex : ∀ m c, m < N → c < N → xb (st.gate (.X i)).t m c = xb st.t m c := by
      intro m c hm hc
      rw [gate_xb st _ m c (by omega) (by omega)]; exact xg_x i _ c
    have ez : ∀ m c, m < N → c < N → zb (st.gate (.X i)).t m c = zb st.t m c := by
      intro m c hm hc
      rw [gate_zb st _ m c (by omega) (by omega)]; exact xg_z i _ c
    have er : ∀ m, m < N → rb (st.gate (.X i)).t m = xor (rb st.t m) (decide (i = m)) := by
      intro m hm
      rw [gate_rb st _ m (by omega)]
      have := xg_r i (st.t.row m)
      have hz : (st.t.row m).z i = decide (i = m) := h.zid m i hm hi
      rw [hz] at this
      exact this
    refine ⟨hn, ?_, ?_, ?_, ?_⟩
    · intro m c hm hc; rw [ex m c hm hc]; exact h.xzero m c hm hc
    · intro m c hm hc; rw [ez m c hm hc]; exact h.zid m c hm hc
    · intro m h1 h2
      rw [er m h2]
      by_cases e : i = m
      · subst e; rw [h.hi i (Nat.le_refl _) h2, hr]; simp
      · rw [h.lo m (by omega) h2]; simp [e]
    · intro m h1 h2
      have e : i ≠ m := by omega
      rw [er m h2, h.hi m (by omega) h2]; simp [e]
  · next hr =>
    refine ⟨hn, h.xzero, h.zid, ?_, fun m h1 h2 => h.hi m (by omega) h2⟩
    intro m h1 h2
    by_cases e : m = i
    · subst e; rw [h.hi m (Nat.le_refl _) h2]
      cases hh : r0 m
      · rfl
      · exact absurd hh hr
    · exact h.lo m (by omega) h2

theorem block7 (N : Nat) (st : InvState) (h : A6 N st.t) :
    (((List.range N).filter fun i => (st.t.row i).r).foldl invStep7 st).t.isZero = true := by
  rw [foldl_filter]
  have key := foldl_range_inv (fun s a => if (st.t.row a).r = true then invStep7 s a else s)
    (fun i s => B7 N (rb st.t) s.t i) N st
    ⟨h.n_eq, h.xzero, h.zid, fun m h1 => by omega, fun m _ _ => rfl⟩
    (fun i s hi hq => b7_step N (rb st.t) s i hi hq)
  generalize ((List.range N).foldl (fun s a => if (st.t.row a).r = true then invStep7 s a else s) st).t = t at key
  unfold isZero
  rw [key.n_eq]
  simp only [List.all_eq_true, List.mem_range]
  intro i hi
  unfold PRow.beqOn
  simp only [Bool.and_eq_true, List.all_eq_true, List.mem_range, beq_iff_eq]
  refine ⟨⟨fun c hc => ⟨key.xzero i c hi hc, ?_⟩, key.lo i hi hi⟩, rfl⟩
  exact key.zid i c hi hc

/-- **blocks 2 to 7 end in |0…0⟩** on every real commuting tableau of the shape `Post1` -/
theorem invRest_isZero (s1 : InvState) (hg : s1.t.Good) (hp : Post1 s1.t) : (invRest s1.t.n s1).t.isZero = true := by
  unfold invRest
  exact block7 _ _ (block6 _ _ (block5 _ _ (block4 _ _ (block3 _ _ (block2 _ s1 rfl hg hp)))))

end STab
end Graphiq
