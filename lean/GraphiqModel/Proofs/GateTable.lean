/-
  Proofs/GateTable.lean — a finite table, kernel-checked: for n = 1 (all signed Pauli rows) and n = 2 (the signed one-site
  generators) every unitary gate matrix that the density-matrix model builds (`getOneQubitGate`, `getTwoQubitControlledGate`) is
  unitary, and conjugating a signed Pauli matrix with it gives exactly the signed Pauli matrix of the row that the tableau gate of
  the stabilizer model produces.  This is the base case of the tensor-lifting fact (Pauli-group semantics = Hilbert-space
  semantics) on which clause (c) of C06 rests; it is a bounded statement, not the general one.
  (`decide +kernel`, ≈ 45 s CPU; kept in its own file so that it is rebuilt only when the two models change.)
-/
import GraphiqModel.Model.Noise
namespace Graphiq.Noise
open DM

/-- the (scaled) matrix `DensityMatrixCompiler.compile_one_gate` builds for a unitary gate on `n` qubits -/
def gateSMat (n : Nat) (k : Kind) (q1 q2 : Nat) : Option SMat :=
  match k with
  | .h => some ⟨1/2, getOneQubitGate n q1 Mat.had2⟩
  | .s => some ⟨1, getOneQubitGate n q1 Mat.phase⟩
  | .sdg => some ⟨1, getOneQubitGate n q1 Mat.phaseDag⟩
  | .x => some ⟨1, getOneQubitGate n q1 Mat.sigmax⟩
  | .y => some ⟨1, getOneQubitGate n q1 Mat.sigmay⟩
  | .z => some ⟨1, getOneQubitGate n q1 Mat.sigmaz⟩
  | .cnot => match getTwoQubitControlledGate n q1 q2 Mat.sigmax with | .ok u => some ⟨1, u⟩ | _ => none
  | .cz => match getTwoQubitControlledGate n q1 q2 Mat.sigmaz with | .ok u => some ⟨1, u⟩ | _ => none
  | _ => none

/-- the row map the stabilizer backend applies for the same gate -/
def rowGate (k : Kind) (q1 q2 : Nat) (p : PRow) : PRow :=
  match k with
  | .h => PRow.h q1 p | .s => PRow.s q1 p | .sdg => PRow.sdg q1 p
  | .x => PRow.xg q1 p | .y => PRow.yg q1 p | .z => PRow.zg q1 p
  | .cnot => PRow.cnot q1 q2 p | .cz => PRow.cz q1 q2 p
  | _ => p

/-- signed Hermitian Pauli matrix of a row -/
def pauliSigned (n : Nat) (p : PRow) : Mat := (Mat.smul (if p.r then -1 else 1) (pauliMat n p)).norm

/-- all `2·4^n` signed Hermitian Pauli rows on `n` sites -/
def allRows (n : Nat) : List PRow :=
  (List.range (2 ^ n)).flatMap fun xs => (List.range (2 ^ n)).flatMap fun zs => [false, true].map fun r =>
    PRow.ofArrays (Array.ofFn (n := n) fun j => (xs / 2 ^ j.val) % 2 = 1) (Array.ofFn (n := n) fun j => (zs / 2 ^ j.val) % 2 = 1) r false

/-- `U P U† = P'` where `P'` is the row the tableau gate produces, as exact matrices -/
def gateAgreesOn (n : Nat) (k : Kind) (q1 q2 : Nat) (p : PRow) : Bool :=
  match gateSMat n k q1 q2 with
  | none => false
  | some u => (Mat.smul u.sq (Mat.conjBy u.m (pauliSigned n p))).norm.beq (pauliSigned n (rowGate k q1 q2 p))

/-- the gate is unitary: `U U† = 1` -/
def gateUnitary (n : Nat) (k : Kind) (q1 q2 : Nat) : Bool :=
  match gateSMat n k q1 q2 with
  | none => false
  | some u => (Mat.smul u.sq (Mat.mul u.m u.m.dagger)).norm.beq (Mat.eye (pow2 n))

/-- the signed one-site generators `±X_k`, `±Z_k` -/
def genRows (n : Nat) : List PRow :=
  (List.range n).flatMap fun k => [PRow.Xq k, PRow.Xq k true, PRow.Zq k, PRow.Zq k true]

def oneQ : List Kind := [.h, .s, .sdg, .x, .y, .z]
def twoQ : List Kind := [.cnot, .cz]

def allGateChecks (n : Nat) (rows : List PRow) : Bool :=
  (oneQ.all fun k => (List.range n).all fun q =>
      gateUnitary n k q 0 && rows.all fun p => gateAgreesOn n k q 0 p) &&
  (twoQ.all fun k => (List.range n).all fun c => (List.range n).all fun t =>
      c = t || (gateUnitary n k c t && rows.all fun p => gateAgreesOn n k c t p))

theorem gates_agree_n1 : allGateChecks 1 (allRows 1) = true := by decide +kernel
theorem gates_agree_n2 : allGateChecks 2 (genRows 2) = true := by decide +kernel
end Graphiq.Noise
