/-
  Proofs/SolverCompleteFlag.lean — the executable form of `hfinal`: a real commuting tableau that generates the signed group of |0…0⟩
  passes the test `sameGroup · (zero n)` the driver evaluates (flag `zero=1`).

  `sameGroup` compares canonical forms.  On a tableau whose group is that of |0…0⟩ every generator is a product of `+Z`s (no X/Y, sign +),
  so the X/Y loop of `canonical_form` does nothing and its Z loop is Gauss–Jordan elimination of an invertible GF(2) matrix: every column
  yields a pivot (otherwise `Z_j` would not be in the group) and the result is, row by row, `+Z_0, …, +Z_{n-1}` — for the tableau itself and
  for `zero n`.  (This special case of C05's normal-form theorem is proved here directly because `Proofs/Canon*.lean` cannot be imported next
  to `Proofs/Echelon*.lean`.)
-/
import GraphiqModel.Proofs.SolverCompleteMain
import GraphiqModel.Proofs.Check
namespace Graphiq.Solver
open Graphiq PRow STab Tab

/-- loop invariant of the Z loop of `canonical_form` on a tableau generating the group of |0…0⟩, before column `j` (pivot row `j`) -/
structure CZ (n : Nat) (t : STab) (j : Nat) : Prop where
  n_eq : t.n = n
  good : t.Good
  se : SpanEq t (STab.zero n)
  diag : ∀ i c, i < j → c < j → (t.row i).z c = decide (i = c)
  low : ∀ i c, j ≤ i → i < n → c < j → (t.row i).z c = false

theorem CZ.row_plus {n : Nat} {t : STab} {j : Nat} (h : CZ n t j) (i : Nat) (hi : i < n) :
    (∀ c, c < n → (t.row i).x c = false) ∧ (t.row i).r = false ∧ (t.row i).ip = false :=
  zero_spn_plus n _ (h.se.sub _ (spn_gen t i (by rw [h.n_eq]; exact hi)))

theorem zero_good' (n : Nat) : (STab.zero n).Good := by
  constructor
  · intro i _; rfl
  · intro i k _ hk
    have hk' : k < n := hk
    exact (sp_Zq n k (Zq i) false hk').trans rfl

/-- x-free rows: the X/Y step of `canonical_form` does nothing -/
theorem canonStepXY_xfree (t : STab) (pr j : Nat) (hx : ∀ i, i < t.n → (t.row i).x j = false) : t.canonStepXY pr j = (t, pr) := by
  have hxs : (t.pauliTypeFinder pr j).1 = [] := by
    unfold pauliTypeFinder
    simp only
    rw [List.filter_eq_nil_iff]
    intro i hi
    simp only [List.mem_filter, List.mem_range] at hi
    unfold ptype
    rw [hx i hi.1]
    cases (t.row i).z j <;> simp
  have hys : (t.pauliTypeFinder pr j).2.1 = [] := by
    unfold pauliTypeFinder
    simp only
    rw [List.filter_eq_nil_iff]
    intro i hi
    simp only [List.mem_filter, List.mem_range] at hi
    unfold ptype
    rw [hx i hi.1]
    cases (t.row i).z j <;> simp
  unfold canonStepXY
  generalize t.pauliTypeFinder pr j = ft at hxs hys
  obtain ⟨xs, ys, zs⟩ := ft
  simp only at hxs hys
  subst hxs; subst hys
  rfl

/-- one column of the Z loop -/
theorem cz_step (n : Nat) (t : STab) (j : Nat) (hj : j < n) (h : CZ n t j) :
    CZ n (t.canonStepZ j j).1 (j + 1) ∧ (t.canonStepZ j j).2 = j + 1 := by
  have hn := h.n_eq
  -- some row at or below the pivot row has a Z at column j: otherwise Z_j would not be in the group
  have hex : ∃ i, j ≤ i ∧ i < n ∧ (t.row i).z j = true := by
    apply Classical.byContradiction
    intro hno
    have hall : ∀ i, j ≤ i → i < n → (t.row i).z j = false := by
      intro i h1 h2
      cases hz : (t.row i).z j
      · rfl
      · exact absurd ⟨i, h1, h2, hz⟩ hno
    have hZ : t.Spn (Zq j) := h.se.sup _ (spn_gen (STab.zero n) j hj)
    obtain ⟨S, hS⟩ := spn_combo t (Zq j) hZ
    rw [hn] at hS
    have hSlow : ∀ c, c < j → S c = false := by
      intro c hc
      have := (hS c (by omega)).2
      have e : t.comboZ S c = S c := by
        unfold STab.comboZ
        rw [hn, parityTo_one n c _ (by omega)]
        · rw [h.diag c c hc hc]; simp
        · intro i hi hic
          by_cases hij : i < j
          · rw [h.diag i c hij hc]; simp [hic]
          · rw [h.low i c (by omega) hi hc]; simp
      rw [e] at this
      rw [this]
      show decide (c = j) = false
      simp; omega
    have hcol : t.comboZ S j = false := by
      unfold STab.comboZ
      rw [hn]
      apply parityTo_zero
      intro i hi
      by_cases hij : i < j
      · rw [hSlow i hij]; rfl
      · rw [hall i (by omega) hi]; simp
    have := (hS j hj).2
    rw [hcol] at this
    have e : (Zq j).z j = true := by show decide (j = j) = true; simp
    rw [e] at this; cases this
  obtain ⟨i0, hi0j, hi0n, hi0z⟩ := hex
  have hi0 : i0 ∈ t.zTypeFinder j j := by
    unfold zTypeFinder
    simp only [List.mem_filter, List.mem_range, decide_eq_true_eq]
    refine ⟨⟨by rw [hn]; exact hi0n, hi0j⟩, ?_⟩
    unfold ptype
    rw [(h.row_plus i0 hi0n).1 j hj, hi0z]
  unfold canonStepZ
  cases hhd : (t.zTypeFinder j j).head? with
  | none =>
    rw [List.head?_eq_none_iff] at hhd
    rw [hhd] at hi0; cases hi0
  | some f =>
    simp only
    have hfm := List.mem_of_mem_head? hhd
    have hfb := mem_zTypeFinder t j j f hfm
    have hfn : f < n := hn ▸ hfb.2
    have hfz : (t.row f).z j = true := by
      unfold zTypeFinder at hfm
      simp only [List.mem_filter, List.mem_range, decide_eq_true_eq] at hfm
      have := hfm.2
      unfold ptype at this
      rw [(h.row_plus f hfn).1 j hj] at this
      cases hz : (t.row f).z j
      · rw [hz] at this; simp at this
      · rfl
    obtain ⟨se', good'⟩ := pivotStep_inv t j f (fun t1 m => (t1.row m).z j) hfb.1 hfb.2 h.good
    -- bits of the new rows
    have hR : ∀ m c, m < n → c < n → (((t.rowSwap j f).norm).row m).z c =
        (if m = j then t.row f else if m = f then t.row j else t.row m).z c := by
      intro m c hm hc
      have := ((norm_row (t.rowSwap j f) m (by show m < t.n; omega)).1 c (by show c < t.n; omega)).2
      rw [this, rowSwap_row]
    have hT : ∀ m c, m < n → c < n →
        ((((t.rowSwap j f).norm.sweep j (fun m => (((t.rowSwap j f).norm).row m).z j)).norm).row m).z c =
        (if m ≠ j ∧ (((t.rowSwap j f).norm).row m).z j = true
          then xor ((((t.rowSwap j f).norm).row j).z c) ((((t.rowSwap j f).norm).row m).z c)
          else (((t.rowSwap j f).norm).row m).z c) := by
      intro m c hm hc
      have := ((norm_row ((t.rowSwap j f).norm.sweep j (fun m => (((t.rowSwap j f).norm).row m).z j)) m
        (by show m < t.n; omega)).1 c (by show c < t.n; omega)).2
      rw [this]
      show (if m ≠ j ∧ (((t.rowSwap j f).norm).row m).z j = true then
        stabMul (t.rowSwap j f).norm.n (((t.rowSwap j f).norm).row j) (((t.rowSwap j f).norm).row m)
        else ((t.rowSwap j f).norm).row m).z c = _
      split
      · rw [stabMul_z]
      · rfl
    have hpiv : ∀ c, c < n → (((t.rowSwap j f).norm).row j).z c = (t.row f).z c := by
      intro c hc; rw [hR j c hj hc, if_pos rfl]
    have hflow : ∀ c, c < j → (t.row f).z c = false := fun c hc => h.low f c hfb.1 hfn hc
    refine ⟨⟨hn, good', se'.symm.trans h.se, ?_, ?_⟩, trivial⟩
    · -- diag: i < j + 1, c < j + 1
      intro i c hi hc
      have hin : i < n := by omega
      have hcn : c < n := by omega
      rw [hT i c hin hcn]
      by_cases hij : i = j
      · subst hij
        rw [if_neg (by simp), hpiv c hcn]
        by_cases hcj : c = i
        · subst hcj; rw [hfz]; simp
        · rw [hflow c (by omega)]
          have : ¬ i = c := fun e => hcj e.symm
          simp [this]
      · have hilt : i < j := by omega
        have hif : i ≠ f := by omega
        have hRi : ∀ c', c' < n → (((t.rowSwap j f).norm).row i).z c' = (t.row i).z c' := by
          intro c' hc'; rw [hR i c' hin hc', if_neg hij, if_neg hif]
        rw [hRi j hj, hRi c hcn, hpiv c hcn]
        by_cases hcj : c = j
        · subst hcj
          rw [hfz]
          cases hz : (t.row i).z c <;> simp [hij]
        · have hclt : c < j := by omega
          rw [hflow c hclt, h.diag i c hilt hclt]
          cases hz : (t.row i).z j <;> simp [hij]
    · -- low: j + 1 ≤ i, i < n, c < j + 1
      intro i c hi hin hc
      have hcn : c < n := by omega
      have hij : i ≠ j := by omega
      rw [hT i c hin hcn, hpiv c hcn]
      -- the row that sits at index i after the swap is a row of t with index ≥ j
      have hρ : ∃ k, j ≤ k ∧ k < n ∧ ∀ c', c' < n → (((t.rowSwap j f).norm).row i).z c' = (t.row k).z c' := by
        by_cases hif : i = f
        · exact ⟨j, Nat.le_refl _, hj, fun c' hc' => by rw [hR i c' hin hc', if_neg hij, if_pos hif]⟩
        · exact ⟨i, by omega, hin, fun c' hc' => by rw [hR i c' hin hc', if_neg hij, if_neg hif]⟩
      obtain ⟨k, hk1, hk2, hk⟩ := hρ
      rw [hk j hj, hk c hcn]
      by_cases hcj : c = j
      · subst hcj
        rw [hfz]
        cases hz : (t.row k).z c <;> simp [hij]
      · have hclt : c < j := by omega
        rw [hflow c hclt, h.low k c hk1 hk2 hclt]
        cases hz : (t.row k).z j <;> simp [hij]

theorem foldl_range_inv {α : Type} (f : α → Nat → α) (P : Nat → α → Prop) (n : Nat) (a : α) (h0 : P 0 a)
    (hs : ∀ k a, k < n → P k a → P (k + 1) (f a k)) : P n ((List.range n).foldl f a) := by
  induction n with
  | zero => exact h0
  | succ m ih =>
    rw [List.range_succ, List.foldl_append]
    simp only [List.foldl]
    exact hs m _ (by omega) (ih (fun k a hk => hs k a (by omega)))

/-- **`canonical_form` of any tableau generating the group of |0…0⟩ is `+Z_0, …, +Z_{n-1}`**, and all `n` pivots are found -/
theorem canonLoops_zgroup (n : Nat) (t : STab) (hn : t.n = n) (hg : t.Good) (hse : SpanEq t (STab.zero n)) :
    t.canonLoops.2 = n ∧ t.canonLoops.1.n = n ∧ ∀ i, i < n → EqOn n (t.canonLoops.1.row i) (Zq i) := by
  have hx : ∀ i c, i < t.n → c < n → (t.row i).x c = false := fun i c hi hc =>
    (zero_spn_plus n _ (hse.sub _ (spn_gen t i hi))).1 c hc
  have h1 : (List.range t.n).foldl (fun (acc : STab × Nat) j => acc.1.canonStepXY acc.2 j) (t, 0) = (t, 0) := by
    apply foldl_range_inv _ (fun _ acc => acc = (t, 0)) t.n (t, 0) rfl
    intro k a hk ha
    rw [ha]
    exact canonStepXY_xfree t 0 k (fun i hi => hx i k hi (hn ▸ hk))
  have h2 := foldl_range_inv (fun (acc : STab × Nat) j => acc.1.canonStepZ acc.2 j) (fun k acc => acc.2 = k ∧ CZ n acc.1 k)
    t.n (t, 0) ⟨rfl, ⟨hn, hg, hse, fun i c hi _ => absurd hi (Nat.not_lt_zero i), fun i c _ _ hc => absurd hc (Nat.not_lt_zero c)⟩⟩
    (by
      intro k a hk ⟨e, cz⟩
      have := cz_step n a.1 k (hn ▸ hk) cz
      show (a.1.canonStepZ a.2 k).2 = k + 1 ∧ CZ n (a.1.canonStepZ a.2 k).1 (k + 1)
      rw [e]; exact ⟨this.2, this.1⟩)
  have hcl : t.canonLoops = (List.range t.n).foldl (fun (acc : STab × Nat) j => acc.1.canonStepZ acc.2 j) (t, 0) := by
    unfold canonLoops
    simp only
    rw [h1]
  rw [hcl]
  obtain ⟨e, cz⟩ := h2
  rw [hn] at e cz ⊢
  refine ⟨e, cz.n_eq, fun i hi => ?_⟩
  obtain ⟨rx, rr, ri⟩ := cz.row_plus i hi
  refine ⟨fun c hc => ⟨rx c hc, ?_⟩, rr, ri⟩
  rw [cz.diag i c hi hc]
  show decide (i = c) = decide (c = i)
  by_cases h : i = c
  · subst h; rfl
  · have : ¬ c = i := fun e => h e.symm
    simp [h, this]

theorem isGood_of_good (t : STab) (hg : t.Good) : t.isGood = true := by
  unfold STab.isGood
  simp only [List.all_eq_true, List.mem_range, Bool.and_eq_true, Bool.not_eq_true']
  exact fun i hi => ⟨hg.real i hi, fun k hk => hg.comm i k hi hk⟩

theorem beqOn_of_eqOn (n : Nat) (a b : PRow) (h : EqOn n a b) : PRow.beqOn n a b = true := by
  unfold PRow.beqOn
  simp only [Bool.and_eq_true, List.all_eq_true, List.mem_range, beq_iff_eq]
  exact ⟨⟨fun j hj => h.1 j hj, h.2.1⟩, h.2.2⟩

/-- **the executable test of `hfinal`**: a real commuting tableau with the signed group of |0…0⟩ passes `sameGroup · (zero n)` (converse of
    `sameGroup_sound` on this group) -/
theorem sameGroup_zero (n : Nat) (t : STab) (hn : t.n = n) (hg : t.Good) (hse : SpanEq t (STab.zero n)) :
    t.sameGroup (STab.zero n) = true := by
  obtain ⟨a1, a2, a3⟩ := canonLoops_zgroup n t hn hg hse
  obtain ⟨b1, b2, b3⟩ := canonLoops_zgroup n (STab.zero n) rfl (zero_good' n) (SpanEq.refl _)
  have ca : t.canonicalForm = .ok t.canonLoops.1 := by
    unfold canonicalForm; rw [if_pos (by rw [a1, hn])]
  have cb : (STab.zero n).canonicalForm = .ok (STab.zero n).canonLoops.1 := by
    unfold canonicalForm; rw [if_pos (by rw [b1]; rfl)]
  unfold STab.sameGroup
  rw [isGood_of_good t hg, isGood_of_good _ (zero_good' n), ca, cb]
  simp only [Bool.and_self, Bool.true_and]
  unfold STab.sameRows
  simp only [Bool.and_eq_true, beq_iff_eq, List.all_eq_true, List.mem_range]
  refine ⟨by rw [a2, b2], fun i hi => ?_⟩
  rw [a2] at hi ⊢
  exact beqOn_of_eqOn n _ _ ((a3 i hi).trans (b3 i hi).symm)

/-- completeness with the executable flag: `solve` returns and the driver's test `zero=1` succeeds -/
theorem solve_complete_graph_flag (hinv : InvComplete) (np : Nat) (adj : Nat → Nat → Bool) (hnp : 0 < np)
    (hsym : ∀ i j, adj i j = adj j i) (hirr : ∀ i, adj i i = false) (hiso : ∀ i, i < np → ∃ j, j < np ∧ adj i j = true) :
    ∃ s, solve (graphSTab np adj) = .ok s ∧ s.t.sameGroup (STab.zero (np + s.ne)) = true := by
  obtain ⟨s, hs, hse⟩ := solve_complete_graph hinv np adj hnp hsym hirr hiso
  have inv := solve_inv (graphSTab np adj) (graphSTab_good np adj hsym) s hs
  exact ⟨s, hs, sameGroup_zero _ s.t inv.n_eq inv.good hse⟩

end Graphiq.Solver
